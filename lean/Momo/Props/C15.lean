import Momo.Proof.VerTable
/-!
  # C15 — With exception-mode checks, misuse is reported, never corrupts the container

  "When a container is configured to report argument errors by exception and to track versions, using a handle
  that a later modification has invalidated - a set/map/multimap iterator or position after any insertion,
  removal, clear or growth of that container, a table row reference or selection after any removal or replacement
  of rows - to read, advance, or pass to add/remove/reset-key throws std::invalid_argument and leaves the container
  unchanged; so do an out-of-range index, an end/empty iterator where an element is required, and an iterator of
  another container. Iterators obtained after the last modification, and operations that did not modify the
  container, are never rejected."

  The theorems are about the executable model `Momo.Ver` (lean/Momo/Model/Ver.lean), which mirrors the checks and
  version increments of the C++ entry point by entry point and is compared with the real containers on every run
  (harness/c15_checks.cpp).  `none` = `std::invalid_argument` thrown.  Quantifiers: every world (two objects of the
  family with distinct crews, arbitrary contents and arbitrary ghost increment counters), every handle value, every
  entry point with every argument, every history of entry points.  The only numeric hypothesis is the explicit
  exclusion of a version wrap-around: fewer than 2^64 increments between making and using a handle
  (`C15_wrap_is_the_only_gap` shows the exclusion is necessary).
-/
namespace Momo.Ver

/-! ## VersionKeeper (IteratorUtility.h:178-216) -/

/-- "using a handle that a later modification has invalidated … throws": a snapshot whose cell was incremented
    1 … 2^64-1 times fails `Check()` and `Check(version, allowEmpty)` for every container and both `allowEmpty` -/
theorem C15_stale_keeper_fails (k : Keeper) (cs : Cells) (h : Stale k cs) :
    k.check cs = false ∧ ∀ c ae, k.checkAt cs c ae = false :=
  ⟨h.check, fun c ae => h.checkAt c ae⟩

/-- "Iterators obtained after the last modification … are never rejected": a snapshot passes both checks of its own
    container for as long as its cell is not incremented, whatever happens to other cells -/
theorem C15_fresh_keeper_passes (cs cs' : Cells) (c : Nat) (h : cs' c = cs c) :
    (snap cs c).check cs' = true ∧ ∀ ae, (snap cs c).checkAt cs' c ae = true :=
  ⟨check_of_cell_eq h, fun ae => checkAt_of_cell_eq ae h⟩

/-- "an iterator of another container": a keeper of a different version cell never passes `Check(version, allowEmpty)` -/
theorem C15_foreign_keeper_fails (k : Keeper) (cs : Cells) (c c' : Nat) (hc : k.cell = some c') (hne : c' ≠ c) (ae : Bool) :
    k.checkAt cs c ae = false :=
  foreign_checkAt hc hne ae

/-- "an end/empty iterator": a default-constructed keeper fails `Check()` and passes `Check(version, allowEmpty)` only
    where the caller allows an empty iterator -/
theorem C15_null_keeper (k : Keeper) (cs : Cells) (c : Nat) (ae : Bool) (hc : k.cell = none) :
    k.check cs = false ∧ k.checkAt cs c ae = ae :=
  ⟨null_check cs hc, null_checkAt cs c ae hc⟩

/-- the excluded case is real: after exactly 2^64 increments an old snapshot is accepted again -/
theorem C15_wrap_is_the_only_gap (cs0 : Cells) (c : Nat) : (snap cs0 c).check (bumpN cs0 c W) = true :=
  wrap_accepts cs0 c

/-! ## HashSet / HashMap -/

/-- **bump_on_mutation** "after any insertion, removal, clear or growth of that container": every entry point of
    HashSet/HashMap (complete list `HOp`; ResetKey aside, which replaces a key in place) keeps the two crews distinct,
    never decreases a version counter, and strictly increases the counter of every crew whose keys or capacity it changed -/
theorem C15_hash_bump_on_mutation (w : HWorld) (hw : w.WF) (op : HOp) (hnr : ∀ o h k, op ≠ .resetKey o h k) :
    (w.step op).1.WF ∧ (∀ c, w.cs c ≤ (w.step op).1.cs c) ∧
    (∀ c, (w.step op).1.shape c ≠ w.shape c → w.cs c < (w.step op).1.cs c) :=
  let f := HWorld.step_facts w hw op hnr
  ⟨f.wf, f.mono, f.bump⟩

/-- **decidable rejection table**: a call is accepted exactly when the version check (`HOp.vcheck`) and the argument
    checks (`HOp.pre`) that the table lists for the entry point pass -/
theorem C15_hash_rejection_table (w : HWorld) (op : HOp) : (w.step op).2.isSome = (op.vcheck w && op.pre w) :=
  HWorld.accepts_iff w op

/-- "throws std::invalid_argument and leaves the container unchanged": whenever a call throws, the world it returns is
    the world it was given -/
theorem C15_hash_rejected_unchanged (w : HWorld) (op : HOp) (h : (w.step op).2 = none) : (w.step op).1 = w :=
  HWorld.step_reject_unchanged w op h

/-- **stale_rejected**: every entry point that takes a position/iterator (read `deref`, advance `inc`, CheckIterator, Add,
    Add(extracted), Remove, Remove(extracting), ResetKey - on either object) rejects a stale one and changes nothing -/
theorem C15_hash_stale_rejected (w : HWorld) (op : HOp) (h : HPos) (hh : op.handle = some h) (hs : Stale h.kp w.cs) :
    w.step op = (w, none) :=
  HWorld.stale_rejected w op h hh hs

/-- "an iterator of another container" -/
theorem C15_hash_foreign_rejected (w : HWorld) (op : HOp) (h : HPos) (o : Bool) (c' : Nat) (hh : op.handle = some h)
    (ht : op.target = some o) (hc : h.kp.cell = some c') (hne : c' ≠ (w.obj o).cell) : w.step op = (w, none) :=
  HWorld.foreign_rejected w op h o c' hh ht hc hne

/-- "an end/empty iterator where an element is required": the default-constructed iterator (`GetEnd()`) is rejected by every
    entry point except `CheckIterator(iter, allowEmpty = true)` -/
theorem C15_hash_end_rejected (w : HWorld) (op : HOp) (h : HPos) (hh : op.handle = some h) (hc : h.kp.cell = none)
    (hne : ∀ o, op ≠ .checkIt o h true) : w.step op = (w, none) :=
  HWorld.null_rejected w op h hh hc hne

/-- an empty position (`Find` of an absent key) where an element is required, and an element position where an empty
    one is required (`Add`) -/
theorem C15_hash_wrong_position_rejected (w : HWorld) (o : Bool) (h : HPos) :
    (h.elem = none → (∀ n, w.step (.remove o h n) = (w, none)) ∧ (∀ k, w.step (.resetKey o h k) = (w, none)) ∧
        w.step (.deref h) = (w, none) ∧ ∀ n, w.step (.inc h n) = (w, none)) ∧
    (h.elem.isSome = true → ∀ k nc, w.step (.add o h k nc) = (w, none)) := by
  constructor
  · intro he
    refine ⟨fun n => ?_, fun k => ?_, ?_, fun n => ?_⟩ <;> apply HWorld.step_eq_of_reject <;> simp [HOp.pre, he]
  · intro he k nc
    apply HWorld.step_eq_of_reject
    cases hh : h.elem <;> simp_all [HOp.pre]

/-- **fresh_accepted** "never rejected": a handle whose keeper is a snapshot of the current version of the crew it is used
    with is rejected only by the argument checks of the table -/
theorem C15_hash_fresh_accepted (w : HWorld) (op : HOp) (h : HPos) (hh : op.handle = some h)
    (hk : ∃ c, h.kp = snap w.cs c ∧ ∀ o, op.target = some o → c = (w.obj o).cell) :
    (w.step op).2.isSome = op.pre w :=
  HWorld.fresh_accepted w op h hh hk

/-- "operations that did not modify the container": a quiet entry point (all except `Clear(false)`, which always
    increments, and `Remove(iter)` / `ResetKey`, which always change an element) that leaves keys and capacity of a crew
    unchanged does not increment its version -/
theorem C15_hash_no_increment_without_change (w : HWorld) (hw : w.WF) (op : HOp) (hq : op.Quiet) (c : Nat)
    (hs : (w.step op).1.shape c = w.shape c) : (w.step op).1.cs c = w.cs c :=
  HWorld.step_quiet w hw op hq c hs

/-- **all (state, invalidating operation, subsequent use) triples**: a handle made in any world `w0`, any history `ops` of
    entry points in which some call changed keys or capacity of the handle's crew (fewer than 2^64 increments), any
    subsequent use: `std::invalid_argument`, world unchanged -/
theorem C15_hash_history_stale (w0 : HWorld) (hw : w0.WF) (ops : List HOp) (c : Nat) (op : HOp) (h : HPos)
    (hh : op.handle = some h) (hk : h.kp = snap w0.cs c) (hc : HWorld.SomeChange c w0 ops)
    (hlt : (w0.run ops).cs c < w0.cs c + W) : (w0.run ops).step op = (w0.run ops, none) :=
  HWorld.history_stale_rejected w0 hw ops c op h hh hk hc hlt

/-- … and any history of rejected calls and quiet calls that did not touch the crew: the handle is still accepted -/
theorem C15_hash_history_fresh (w0 : HWorld) (hw : w0.WF) (ops : List HOp) (c : Nat) (op : HOp) (h : HPos)
    (hh : op.handle = some h) (hk : h.kp = snap w0.cs c) (hq : HWorld.AllQuiet c w0 ops)
    (ht : ∀ o, op.target = some o → c = ((w0.run ops).obj o).cell) :
    ((w0.run ops).step op).2.isSome = op.pre (w0.run ops) :=
  HWorld.history_fresh_accepted w0 hw ops c op h hh hk hq ht

/-! ## TreeSet / TreeMap -/

/-- **bump_on_mutation** including range removal, `MergeTo` into an empty destination, `pvMergeFast` (source and destination) and
    the item-by-item merge: every change of (keys, root node, node params) of a crew increments its version -/
theorem C15_tree_bump_on_mutation (w : TWorld) (hw : w.WF) (op : TOp) (hnr : ∀ o h k, op ≠ .resetKey o h k) :
    (w.step op).1.WF ∧ (∀ c, w.cs c ≤ (w.step op).1.cs c) ∧
    (∀ c, (w.step op).1.shape c ≠ w.shape c → w.cs c < (w.step op).1.cs c) :=
  let f := TWorld.step_facts w hw op hnr
  ⟨f.wf, f.mono, f.bump⟩

theorem C15_tree_rejection_table (w : TWorld) (op : TOp) : (w.step op).2.isSome = (op.vcheck w && op.pre w) :=
  TWorld.accepts_iff w op

theorem C15_tree_rejected_unchanged (w : TWorld) (op : TOp) (h : (w.step op).2 = none) : (w.step op).1 = w :=
  TWorld.step_reject_unchanged w op h

/-- **stale_rejected**: read, `++`, `--`, CheckIterator, Add, Add(extracted), Remove, Remove(extracting), Remove(begin, end)
    (either bound), ResetKey reject a stale iterator and change nothing -/
theorem C15_tree_stale_rejected (w : TWorld) (op : TOp) (h : TIt) (hh : h ∈ op.handles) (hs : Stale h.kp w.cs)
    (hp : h.pos.isSome = true) : w.step op = (w, none) :=
  TWorld.stale_rejected w op h hh hs hp

theorem C15_tree_foreign_rejected (w : TWorld) (op : TOp) (h : TIt) (o : Bool) (c' : Nat) (hh : h ∈ op.handles)
    (ht : op.target = some o) (hc : h.kp.cell = some c') (hne : c' ≠ (w.obj o).cell) (hp : h.pos.isSome = true) :
    w.step op = (w, none) :=
  TWorld.foreign_rejected w op h o c' hh ht hc hne hp

/-- "an end/empty iterator where an element is required": `Remove`, extracting `Remove` and `ResetKey` at the end iterator -/
theorem C15_tree_end_rejected (w : TWorld) (o : Bool) (h : TIt) (he : h.pos = ((w.obj o).endIt w.cs).pos) (k : Nat) (ef : Bool) :
    w.step (.remove o h) = (w, none) ∧ w.step (.removeExt o h ef) = (w, none) ∧ w.step (.resetKey o h k) = (w, none) :=
  TWorld.end_rejected w o h he k ef

/-- reading or advancing the end iterator of a tree (`pos = count`, also on a leaf root), and `--begin` -/
theorem C15_tree_end_read_rejected (w : TWorld) (hw : w.WF) (o : Bool) :
    w.step (.deref ((w.obj o).endIt w.cs)) = (w, none) ∧ w.step (.inc ((w.obj o).endIt w.cs)) = (w, none) ∧
    w.step (.dec ((w.obj o).beginIt w.cs)) = (w, none) :=
  TWorld.end_read_rejected w hw o

theorem C15_tree_null_rejected (w : TWorld) (h : TIt) (hc : h.kp.cell = none) :
    w.step (.deref h) = (w, none) ∧ w.step (.inc h) = (w, none) ∧ w.step (.dec h) = (w, none) ∧
    (∀ o, w.step (.checkIt o h false) = (w, none)) ∧ (∀ o, w.step (.remove o h) = (w, none)) ∧
    (∀ o ef, w.step (.removeExt o h ef) = (w, none)) ∧ (∀ o k, w.step (.resetKey o h k) = (w, none)) ∧
    (∀ o ef k, w.step (.addExt o h ef k) = (w, none)) ∧
    (∀ o k, (w.obj o).root = true → w.step (.add o h k) = (w, none)) :=
  TWorld.null_rejected w h hc

theorem C15_tree_fresh_accepted (w : TWorld) (op : TOp)
    (hk : ∀ h ∈ op.handles, ∃ c, h.kp = snap w.cs c ∧ ∀ o, op.target = some o → c = (w.obj o).cell) :
    (w.step op).2.isSome = op.pre w :=
  TWorld.fresh_accepted w op hk

/-- every entry point of TreeSet except `Remove(iter)` / `ResetKey` is quiet: unchanged (keys, root, params) ⇒ no increment -/
theorem C15_tree_no_increment_without_change (w : TWorld) (hw : w.WF) (op : TOp) (hq : op.Quiet) (c : Nat)
    (hs : (w.step op).1.shape c = w.shape c) : (w.step op).1.cs c = w.cs c :=
  TWorld.step_quiet w hw op hq c hs

theorem C15_tree_history_stale (w0 : TWorld) (hw : w0.WF) (ops : List TOp) (c : Nat) (op : TOp) (h : TIt)
    (hh : h ∈ op.handles) (hk : h.kp = snap w0.cs c) (hp : h.pos.isSome = true) (hc : TWorld.SomeChange c w0 ops)
    (hlt : (w0.run ops).cs c < w0.cs c + W) : (w0.run ops).step op = (w0.run ops, none) :=
  TWorld.history_stale_rejected w0 hw ops c op h hh hk hp hc hlt

theorem C15_tree_history_fresh (w0 : TWorld) (hw : w0.WF) (ops : List TOp) (c : Nat) (op : TOp)
    (hk : ∀ h ∈ op.handles, h.kp = snap w0.cs c) (hq : TWorld.AllQuiet c w0 ops)
    (ht : ∀ o, op.target = some o → c = ((w0.run ops).obj o).cell) :
    ((w0.run ops).step op).2.isSome = op.pre (w0.run ops) :=
  TWorld.history_fresh_accepted w0 hw ops c op hk hq ht

/-! ## HashMultiMap (key version + value version) -/

/-- **bump_on_mutation**: every mutating entry point keeps the two cells, increments the key version whenever the key
    list or the nested capacity changed, and one of the two versions whenever anything changed
    (`hinv`: a nested map without buckets holds no key) -/
theorem C15_multimap_bump_on_mutation (w : MWorld) (op : MOp) (o : Bool) (ht : op.target = some o)
    (hinv : (w.obj o).cap = 0 → (w.obj o).kv = []) :
    MEff w.cs (w.obj o) (w.step op).1.cs ((w.step op).1.obj o) :=
  MWorld.step_eff w op o ht hinv

/-- a key iterator made before a change of the key set is stale afterwards -/
theorem C15_multimap_key_iterator_stale {cs cs' : Cells} {m m' : MMap} (he : MEff cs m cs' m') (hne : m.kcell ≠ m.vcell)
    (hchg : m'.keysOf ≠ m.keysOf ∨ m'.cap ≠ m.cap) (hlt : cs' m.kcell < cs m.kcell + W) : Stale (snap cs m.kcell) cs' :=
  he.key_stale hne hchg hlt

/-- a value iterator made before any change has a stale value keeper or a stale key keeper afterwards -/
theorem C15_multimap_value_iterator_stale {cs cs' : Cells} {m m' : MMap} (he : MEff cs m cs' m') (hne : m.kcell ≠ m.vcell)
    (hchg : m'.kv ≠ m.kv) (hlt1 : cs' m.kcell < cs m.kcell + W) (hlt2 : cs' m.vcell < cs m.vcell + W) :
    Stale (snap cs m.vcell) cs' ∨ Stale (snap cs m.kcell) cs' :=
  he.value_stale hne hchg hlt1 hlt2

/-- **stale_rejected**, key iterators: `keyIter->`, `++`, Add(keyIter, value), AddKeyCrt, Remove(keyIter, index), RemoveValues,
    RemoveKey, ResetKey throw -/
theorem C15_multimap_key_stale_rejected (m : MMap) (cs : Cells) (h : HPos) (hs : Stale h.kp cs) :
    m.kderef cs h = none ∧ (∀ v, m.addAt cs h v = none) ∧ (∀ i to, m.removeAt cs h i to = none) ∧
    (∀ to, m.removeValues cs h to = none) ∧ (∀ nx, m.removeKey cs h nx = none) ∧ (∀ k, m.resetKey cs h k = none) ∧
    (∀ k nc, m.addKey cs h k nc = none) ∧ (∀ n, h.inc cs n = none) :=
  MMap.key_stale_rejected m cs h hs

/-- **stale_rejected**, value iterators: `it->`, `++it`, Remove(it), MakeMutableIterator, CheckIterator throw when the value
    version moved, and also when only the key version moved (`InsertKey` / `AddKeyCrt`) -/
theorem C15_multimap_value_stale_rejected (m : MMap) (cs : Cells) (it : VIt) (hv : it.vidx.isSome = true)
    (hs : Stale it.vp cs ∨ Stale it.kit.kp cs) :
    m.vderef cs it = none ∧ (∀ to, MMap.vinc cs it to = none) ∧ (∀ to, m.remove cs it to = none) ∧
    m.makeMutable cs it = none ∧ (∀ ae, m.checkIt cs it ae = none) :=
  MMap.value_uses_rejected m cs it hv hs

theorem C15_multimap_end_rejected (m : MMap) (cs : Cells) (it : VIt) (hv : it.vidx = none) :
    m.vderef cs it = none ∧ (∀ to, MMap.vinc cs it to = none) ∧ (∀ to, m.remove cs it to = none) :=
  MMap.value_end_rejected m cs it hv

/-- "an end/empty iterator where an element is required", key iterators: the position of an absent key and the default-constructed
    key iterator are rejected by `keyIter->`, `++`, Add(keyIter, value), Remove(keyIter, index), RemoveValues, RemoveKey, ResetKey and
    MakeIterator(keyIter, index > 0) -/
theorem C15_multimap_key_empty_rejected (m : MMap) (cs : Cells) (h : HPos) (he : h.elem = none) :
    m.kderef cs h = none ∧ (∀ n, h.inc cs n = none) ∧ (∀ v, m.addAt cs h v = none) ∧ (∀ i to, m.removeAt cs h i to = none) ∧
    (∀ to, m.removeValues cs h to = none) ∧ (∀ nx, m.removeKey cs h nx = none) ∧ (∀ k, m.resetKey cs h k = none) ∧
    (∀ i to, i ≠ 0 → m.makeIt cs h i to = none) :=
  MMap.key_empty_rejected m cs h he

theorem C15_multimap_value_fresh_accepted (m : MMap) (cs : Cells) (k i : Nat) (mv : Bool) (vs : List Nat)
    (hk : m.vals k = some vs) (hi : i < vs.length) :
    let it : VIt := ⟨⟨snap cs m.kcell, some k, mv⟩, snap cs m.vcell, some i⟩
    (m.vderef cs it).isSome = true ∧ (∀ to, (MMap.vinc cs it to).isSome = true) ∧ (∀ to, (m.remove cs it to).isSome = true) ∧
    (m.makeMutable cs it).isSome = true ∧ (∀ ae, (m.checkIt cs it ae).isSome = true) :=
  MMap.value_fresh_accepted m cs k i mv vs hk hi

theorem C15_multimap_key_fresh_accepted (m : MMap) (cs : Cells) (k : Nat) (mv : Bool) (vs : List Nat)
    (hk : m.vals k = some vs) (hcap : m.cap ≠ 0) :
    let h : HPos := ⟨snap cs m.kcell, some k, mv⟩
    (m.kderef cs h).isSome = true ∧ (∀ v, (m.addAt cs h v).isSome = true) ∧ (∀ to, (m.removeValues cs h to).isSome = true) ∧
    (∀ nx, (m.removeKey cs h nx).isSome = true) ∧ (∀ k', (m.resetKey cs h k').isSome = true) ∧
    (∀ i to, i < vs.length → (m.removeAt cs h i to).isSome = true) ∧ (∀ i to, i ≤ vs.length → (m.makeIt cs h i to).isSome = true) :=
  MMap.key_fresh_accepted m cs k mv vs hk hcap

theorem C15_multimap_rejected_unchanged (w : MWorld) (op : MOp) (h : (w.step op).2 = none) : (w.step op).1 = w :=
  MWorld.step_reject_unchanged w op h

/-- "an iterator of another container", key iterators: every entry point of map `o` (Add(keyIter, value), AddKeyCrt,
    Remove(keyIter, index), RemoveValues, RemoveKey, ResetKey, MakeIterator, CheckKeyIterator) rejects a key iterator whose
    keeper points to the nested map of another object; nothing changes -/
theorem C15_multimap_key_foreign_rejected (w : MWorld) (op : MOp) (h : HPos) (o : Bool) (c' : Nat) (hh : op.khandle = some h)
    (ht : op.on = some o) (hc : h.kp.cell = some c') (hne : c' ≠ (w.obj o).kcell) : w.step op = (w, none) :=
  MWorld.foreign_key_rejected w op h o c' hh ht hc hne

/-- "an iterator of another container", value iterators (Remove(iter), MakeMutableIterator, CheckIterator): the value keeper
    or the key keeper belongs to another object -/
theorem C15_multimap_value_foreign_rejected (w : MWorld) (op : MOp) (it : VIt) (o : Bool) (hh : op.vhandle = some it)
    (ht : op.on = some o) (hv : it.vidx.isSome = true)
    (hc : (∃ c', it.vp.cell = some c' ∧ c' ≠ (w.obj o).vcell) ∨ (∃ c', it.kit.kp.cell = some c' ∧ c' ≠ (w.obj o).kcell)) :
    w.step op = (w, none) :=
  MWorld.foreign_value_rejected w op it o hh ht hv hc

/-- **stale_rejected** at the level of the two-object world: every entry point that needs a key iterator (`MOp.khandle`) /
    takes a value iterator (`MOp.vhandle`) throws on a stale one and returns the world unchanged -/
theorem C15_multimap_world_stale_rejected (w : MWorld) (op : MOp) :
    (∀ h, op.khandle = some h → Stale h.kp w.cs → w.step op = (w, none)) ∧
    (∀ it, op.vhandle = some it → it.vidx.isSome = true → (Stale it.vp w.cs ∨ Stale it.kit.kp w.cs) → w.step op = (w, none)) :=
  ⟨fun h hh hs => MWorld.key_stale_rejected w op h hh hs, fun it hh hv hs => MWorld.value_stale_rejected w op it hh hv hs⟩

/-- **bump_on_mutation** for every entry point of the world (complete list `MOp`, ResetKey aside, Swap included): the four cells
    stay distinct, no counter decreases, each object keeps its value cell, the key version of an object moves whenever its
    key list or nested capacity changed, and its key or value version whenever anything in it changed.
    (`CapOK`: the capacity reported after an insertion is positive; `CapInv`: a map without buckets holds no key.) -/
theorem C15_multimap_world_bump_on_mutation (w : MWorld) (hw : w.WF) (hi : w.CapInv) (op : MOp) (hcap : op.CapOK)
    (hnr : ∀ o h k, op ≠ .resetKey o h k) :
    (w.step op).1.WF ∧ (w.step op).1.CapInv ∧ (∀ c, w.cs c ≤ (w.step op).1.cs c) ∧
    (∀ kc, (w.step op).1.kshape kc ≠ w.kshape kc → w.cs kc < (w.step op).1.cs kc) ∧
    (∀ kc vc, w.vcellOf kc = some vc → (w.step op).1.content kc ≠ w.content kc →
      w.cs kc < (w.step op).1.cs kc ∨ w.cs vc < (w.step op).1.cs vc) :=
  let f := MWorld.step_facts w hw hi op hcap hnr
  ⟨f.wf, f.inv, f.mono, f.kbump, f.vbump⟩

/-- **all (state, invalidating operation, subsequent use) triples**, key iterators: made in any world `w0`, any history in which
    some call changed the key set or the nested capacity of its map (fewer than 2^64 increments), any subsequent use -/
theorem C15_multimap_history_key_stale (w0 : MWorld) (hw : w0.WF) (hi : w0.CapInv) (ops : List MOp) (hc : ∀ op ∈ ops, op.CapOK)
    (kc : Nat) (op : MOp) (h : HPos) (hh : op.khandle = some h) (hk : h.kp = snap w0.cs kc) (hch : MWorld.SomeKeyChange kc w0 ops)
    (hlt : (w0.run ops).cs kc < w0.cs kc + W) : (w0.run ops).step op = (w0.run ops, none) :=
  MWorld.history_key_stale_rejected w0 hw hi ops hc kc op h hh hk hch hlt

/-- … value iterators: made in `w0` (keepers of the value version `vc` and the key version `kc` of one object), any history in
    which some call changed anything in that object (a value added or removed, a key inserted or removed, Clear …) -/
theorem C15_multimap_history_value_stale (w0 : MWorld) (hw : w0.WF) (hi : w0.CapInv) (ops : List MOp) (hc : ∀ op ∈ ops, op.CapOK)
    (kc vc : Nat) (hvc : w0.vcellOf kc = some vc) (op : MOp) (it : VIt) (hh : op.vhandle = some it) (hv : it.vidx.isSome = true)
    (hvp : it.vp = snap w0.cs vc) (hkp : it.kit.kp = snap w0.cs kc) (hch : MWorld.SomeChange kc w0 ops)
    (hlt1 : (w0.run ops).cs kc < w0.cs kc + W) (hlt2 : (w0.run ops).cs vc < w0.cs vc + W) :
    (w0.run ops).step op = (w0.run ops, none) :=
  MWorld.history_value_stale_rejected w0 hw hi ops hc kc vc hvc op it hh hv hvp hkp hch hlt1 hlt2

/-- "operations that did not modify the container": a call that throws, a non-mutating entry point (queries, uses of
    iterators, ResetKey, Swap), a call on the other object, `InsertKey` of a stored key and `RemoveKey` of an absent key
    increment neither version of the object with key cell `kc` -/
theorem C15_multimap_no_increment_without_change (w : MWorld) (hw : w.WF) (hi : w.CapInv) (op : MOp) (kc vc : Nat)
    (hvc : w.vcellOf kc = some vc) (hq : MWorld.QuietStep kc w op) :
    (w.step op).1.cs kc = w.cs kc ∧ (w.step op).1.cs vc = w.cs vc :=
  MWorld.step_quiet w hw hi op kc vc hvc hq

/-- **fresh_accepted over histories**, key iterators: after any history of such calls a key iterator made in `w0` for a key that
    is still stored is accepted by every entry point -/
theorem C15_multimap_history_key_fresh (w0 : MWorld) (hw : w0.WF) (hi : w0.CapInv) (ops : List MOp) (hc : ∀ op ∈ ops, op.CapOK)
    (kc vc : Nat) (hvc : w0.vcellOf kc = some vc) (hq : MWorld.AllQuiet kc w0 ops) (m : MMap) (hm : (w0.run ops).byKeyCell kc = some m)
    (k : Nat) (mv : Bool) (vs : List Nat) (hk : m.vals k = some vs) (hcap : m.cap ≠ 0) :
    let h : HPos := ⟨snap w0.cs kc, some k, mv⟩
    let cs := (w0.run ops).cs
    (m.kderef cs h).isSome = true ∧ (∀ v, (m.addAt cs h v).isSome = true) ∧ (∀ to, (m.removeValues cs h to).isSome = true) ∧
    (∀ nx, (m.removeKey cs h nx).isSome = true) ∧ (∀ k', (m.resetKey cs h k').isSome = true) ∧
    (∀ i to, i < vs.length → (m.removeAt cs h i to).isSome = true) ∧ (∀ i to, i ≤ vs.length → (m.makeIt cs h i to).isSome = true) :=
  MWorld.history_key_fresh_accepted w0 hw hi ops hc kc vc hvc hq m hm k mv vs hk hcap

/-- … value iterators pointing at a value that is still stored -/
theorem C15_multimap_history_value_fresh (w0 : MWorld) (hw : w0.WF) (hi : w0.CapInv) (ops : List MOp) (hc : ∀ op ∈ ops, op.CapOK)
    (kc vc : Nat) (hvc : w0.vcellOf kc = some vc) (hq : MWorld.AllQuiet kc w0 ops) (m : MMap) (hm : (w0.run ops).byKeyCell kc = some m)
    (k i : Nat) (mv : Bool) (vs : List Nat) (hk : m.vals k = some vs) (hi' : i < vs.length) :
    let it : VIt := ⟨⟨snap w0.cs kc, some k, mv⟩, snap w0.cs vc, some i⟩
    let cs := (w0.run ops).cs
    (m.vderef cs it).isSome = true ∧ (∀ to, (MMap.vinc cs it to).isSome = true) ∧ (∀ to, (m.remove cs it to).isSome = true) ∧
    (m.makeMutable cs it).isSome = true ∧ (∀ ae, (m.checkIt cs it ae).isSome = true) :=
  MWorld.history_value_fresh_accepted w0 hw hi ops hc kc vc hvc hq m hm k i mv vs hk hi'

/-! ## DataTable: row references, selections, hash bounds -/

/-- **bump_on_mutation** "after any removal or replacement of rows": for each mutating entry point (TryAdd, TryInsert,
    TryUpdate(row), TryUpdate(column), Remove/Extract by reference or number, Clear, Remove(filter), Remove(range), Assign)
    the change version moves when the rows changed and the remove version moves when a row is gone -/
theorem C15_table_bump_on_mutation (t : Table) (cs : Cells) :
    (∀ a b, TblEff cs t (t.tryAdd cs a b).1 (t.tryAdd cs a b).2.1) ∧
    (∀ i a b r, t.tryInsert cs i a b = some r → TblEff cs t r.1 r.2.1) ∧
    (∀ i a b r, t.tryUpdateRow cs i a b = some r → TblEff cs t r.1 r.2.1) ∧
    (∀ r b x, t.updateB cs r b = some x → TblEff cs t x.1 x.2) ∧
    (∀ r x, t.removeRef cs r = some x → TblEff cs t x.1 x.2) ∧
    (∀ i x, t.removeNum cs i = some x → TblEff cs t x.1 x.2) ∧
    TblEff cs t (t.clear cs).1 (t.clear cs).2 ∧
    (∀ m r, TblEff cs t (t.removeIf cs m r).1 (t.removeIf cs m r).2.1) ∧
    (∀ rs keep x, t.removeRefs cs rs keep = some x → TblEff cs t x.1 x.2) :=
  ⟨fun a b => Table.tryAdd_eff t cs a b, fun _ _ _ _ h => Table.tryInsert_eff h, fun _ _ _ _ h => Table.tryUpdateRow_eff h,
   fun _ _ _ h => Table.updateB_eff h, fun _ _ h => Table.removeRef_eff h, fun _ _ h => Table.removeNum_eff h,
   Table.clear_eff t cs, fun m r => Table.removeIf_eff t cs m r, fun _ _ _ h => Table.removeRefs_eff h⟩

/-- a row reference taken before a removal / replacement is stale afterwards; hash bounds are stale after any change -/
theorem C15_table_handles_stale {cs cs' : Cells} {t t' : Table} (he : TblEff cs t cs' t') (hne : t.ccell ≠ t.rcell) :
    ((∃ x ∈ t.rows, ∀ y ∈ t'.rows, y.raw ≠ x.raw) → cs' t.rcell < cs t.rcell + W → ∀ raw, Stale (t.mkRef cs raw).kp cs') ∧
    (t'.rows ≠ t.rows → cs' t.ccell < cs t.ccell + W → ∀ v, Stale (t.findMulti cs v).ckp cs') :=
  ⟨fun hg hl raw => Table.TblEff_ref_stale he hne hg hl raw, fun hc hl v => Table.TblEff_bounds_stale he hne hc hl v⟩

/-- "a table row reference … after any removal or replacement of rows … throws": reading, Remove/Extract, TryUpdate,
    MakeMutableReference, NewRow(reference), Remove(range) / Assign containing the reference -/
theorem C15_table_ref_stale_rejected (t : Table) (cs : Cells) (r : RowRef) (hs : Stale r.kp cs) :
    r.get cs = none ∧ t.removeRef cs r = none ∧ (∀ b, t.updateB cs r b = none) ∧ t.makeMutable cs r = none ∧
    Table.newRowFrom cs r = none ∧ (∀ rs1 rs2 keep, t.removeRefs cs (rs1 ++ r :: rs2) keep = none) :=
  Table.ref_stale_rejected t cs r hs

/-- "an iterator of another container": a reference into another table -/
theorem C15_table_ref_foreign_rejected (t : Table) (cs : Cells) (r : RowRef) (hne : r.tbl ≠ t.id) :
    t.removeRef cs r = none ∧ (∀ b, t.updateB cs r b = none) ∧ t.makeMutable cs r = none ∧
    (∀ rs1 rs2 keep, t.removeRefs cs (rs1 ++ r :: rs2) keep = none) :=
  Table.ref_foreign_rejected t cs r hne

/-- "… or selection": a stale selection yields only stale references and its column reads (Sort / Group / bounds) throw;
    stale references cannot be stored into a selection; stale hash bounds cannot be indexed -/
theorem C15_table_selection_stale_rejected (s : Sel) (cs : Cells) (hs : Stale s.kp cs) :
    (∀ i r, s.at_ i = some r → r.get cs = none) ∧ (s.raws ≠ [] → s.readAll cs = none) :=
  Sel.stale_rejected s cs hs

theorem C15_table_selection_store_stale_rejected (s : Sel) (cs : Cells) (r : RowRef) (hs : Stale r.kp cs) :
    (∀ i, s.set cs i r = none) ∧ s.add cs r = none ∧ (∀ i, s.insert cs i r = none) :=
  Sel.store_stale_rejected s cs r hs

theorem C15_table_bounds_stale_rejected (m : MBounds) (cs : Cells) (hs : Stale m.ckp cs) (i : Nat) : m.at_ cs i = none :=
  MBounds.stale_rejected m cs hs i

/-- **fresh_accepted**: references, selections and bounds made from the current versions are accepted -/
theorem C15_table_fresh_accepted (t : Table) (cs : Cells) (raw : Nat) :
    ((t.mkRef cs raw).get cs).isSome = true ∧ (t.removeRef cs (t.mkRef cs raw)).isSome = true ∧
    (∀ b, (t.updateB cs (t.mkRef cs raw) b).isSome = true) ∧ (t.makeMutable cs (t.mkRef cs raw)).isSome = true ∧
    (∀ m r, (∀ i x, (t.select cs m r).at_ i = some x → (x.get cs).isSome = true) ∧ ((t.select cs m r).readAll cs).isSome = true) ∧
    (∀ v i, i < (t.findMulti cs v).raws.length → ((t.findMulti cs v).at_ cs i).isSome = true) :=
  let h := Table.ref_fresh_accepted t cs raw
  ⟨h.1, h.2.1, h.2.2.1, h.2.2.2, fun m r => Sel.fresh_accepted t cs m r, fun v i hi => MBounds.fresh_accepted t cs v i hi⟩

/-- "operations that did not modify …": adding / inserting rows and updating one column never invalidate row references -/
theorem C15_table_add_keeps_references (t : Table) (cs : Cells) (hne : t.ccell ≠ t.rcell) :
    (∀ a b, (t.tryAdd cs a b).1 t.rcell = cs t.rcell) ∧
    (∀ i a b r, t.tryInsert cs i a b = some r → r.1 t.rcell = cs t.rcell) ∧
    (∀ r b x, t.updateB cs r b = some x → x.1 t.rcell = cs t.rcell) :=
  ⟨fun a b => Table.add_keeps_remove_version t cs a b hne, fun _ _ _ _ h => Table.insert_keeps_remove_version hne h,
   fun _ _ _ h => Table.updateB_keeps_remove_version hne h⟩

/-- "an out-of-range index": row numbers and selection indexes -/
theorem C15_table_index_table (t : Table) (cs : Cells) (s : Sel) (i n a b : Nat) :
    (t.at_ cs i).isSome = decide (i < t.rows.length) ∧ (t.removeNum cs i).isSome = decide (i < t.rows.length) ∧
    (t.tryInsert cs i a b).isSome = decide (i ≤ t.rows.length) ∧ (s.at_ i).isSome = decide (i < s.raws.length) ∧
    (s.remove i n).isSome = decide (i + n ≤ s.raws.length) :=
  ⟨Table.at_isSome t cs i, Table.removeNum_isSome t cs i, Table.tryInsert_isSome t cs i a b, Sel.at_isSome s i, Sel.remove_isSome s i n⟩

/-! ### DataTable as a world of two tables (`BWorld`, entry points `BOp` - the step function the driver runs) -/

/-- "throws std::invalid_argument and leaves the container unchanged": a call that throws returns the world it was given -/
theorem C15_table_rejected_unchanged (w : BWorld) (op : BOp) (h : (w.step op).2 = none) : (w.step op).1 = w :=
  BWorld.step_reject_unchanged w op h

/-- **stale_rejected**: every entry point that is given a stale row reference - `Get` / `GetRaw`, TryUpdate / Update of a column,
    Remove / Extract, MakeMutableReference, NewRow(reference), Remove(begin, end) / Assign(begin, end) with the reference anywhere
    in the range, Selection::Set / Add / Insert - throws and changes nothing -/
theorem C15_table_world_stale_rejected (w : BWorld) (op : BOp) (r : RowRef) (hr : r ∈ op.refs) (hs : Stale r.kp w.cs) :
    w.step op = (w, none) :=
  BWorld.stale_rejected w op r hr hs

/-- "an iterator of another container": a row reference of another table (another column-list object) -/
theorem C15_table_world_foreign_rejected (w : BWorld) (op : BOp) (r : RowRef) (o : Bool) (hr : r ∈ op.refs) (ho : op.on = some o)
    (hne : r.tbl ≠ (w.obj o).id) : w.step op = (w, none) :=
  BWorld.foreign_rejected w op r o hr ho hne

/-- … and it cannot be stored into a selection of the first table -/
theorem C15_table_selection_foreign_store_rejected (w : BWorld) (s : Sel) (r : RowRef) (hne : s.tbl ≠ r.tbl) (i : Nat) :
    w.step (.selSet s i r) = (w, none) ∧ w.step (.selAdd s r) = (w, none) ∧ w.step (.selIns s i r) = (w, none) :=
  BWorld.sel_foreign_rejected w s r hne i

/-- "a table row reference or selection": a stale selection / row pointer throws on Sort / Group / bounds by column, and every
    reference taken out of it is stale; stale hash bounds cannot be indexed -/
theorem C15_table_world_selection_bounds_stale (w : BWorld) :
    (∀ s : Sel, Stale s.kp w.cs → (s.raws ≠ [] → w.step (.selRead s) = (w, none)) ∧
      (∀ i r, (w.step (.selAt s i)).2 = some (.ref r) → Stale r.kp w.cs)) ∧
    (∀ (m : MBounds) (i : Nat), Stale m.ckp w.cs → w.step (.mbAt m i) = (w, none)) :=
  ⟨fun s hs => BWorld.sel_stale_rejected w s hs, fun m i hs => BWorld.bounds_stale_rejected w m hs i⟩

/-- "an out-of-range index": row numbers (operator[], Remove / Extract, TryUpdate, TryInsert), selection indexes and counts,
    bounds indexes: `std::invalid_argument`, world unchanged -/
theorem C15_table_index_rejected (w : BWorld) (o : Bool) (s : Sel) (m : MBounds) (i n a b : Nat) :
    ((w.obj o).rows.length ≤ i → w.step (.at_ o i) = (w, none) ∧ w.step (.rmNum o i) = (w, none) ∧ w.step (.updRow o i a b) = (w, none)) ∧
    ((w.obj o).rows.length < i → w.step (.insert o i a b) = (w, none)) ∧
    (s.raws.length ≤ i → w.step (.selAt s i) = (w, none)) ∧
    (s.raws.length < i + n → w.step (.selRm s i n) = (w, none)) ∧
    (m.raws.length ≤ i → w.step (.mbAt m i) = (w, none)) :=
  BWorld.index_rejected w o s m i n a b

/-- **bump_on_mutation** for every entry point (complete list `BOp`): column lists and cells stay, no counter decreases, the
    change version of a table moves whenever its rows changed and its remove version whenever one of its rows is gone -/
theorem C15_table_world_bump_on_mutation (w : BWorld) (hw : w.WF) (op : BOp) :
    (w.step op).1.WF ∧ (∀ c, w.cs c ≤ (w.step op).1.cs c) ∧
    (∀ o, ((w.step op).1.obj o).id = (w.obj o).id ∧ ((w.step op).1.obj o).ccell = (w.obj o).ccell ∧ ((w.step op).1.obj o).rcell = (w.obj o).rcell) ∧
    (∀ o, ((w.step op).1.obj o).rows ≠ (w.obj o).rows → w.cs (w.obj o).ccell < (w.step op).1.cs (w.obj o).ccell) ∧
    (∀ o, BWorld.Gone (w.obj o).rows ((w.step op).1.obj o).rows → w.cs (w.obj o).rcell < (w.step op).1.cs (w.obj o).rcell) :=
  let f := BWorld.step_facts w hw op
  ⟨f.wf, f.mono, f.same, f.cbump, f.rbump⟩

/-- **all (state, invalidating operation, subsequent use) triples**, row references: a reference whose keeper was taken in any
    world `w0` (operator[], an insertion, out of a selection / row pointer / bounds made in `w0` …), any history in which a row
    of its table was removed or replaced, any subsequent use -/
theorem C15_table_history_ref_stale (w0 : BWorld) (hw : w0.WF) (ops : List BOp) (o : Bool) (op : BOp) (r : RowRef)
    (hr : r ∈ op.refs) (hk : r.kp = snap w0.cs (w0.obj o).rcell) (hrm : BWorld.SomeRemoval o w0 ops)
    (hlt : (w0.run ops).cs (w0.obj o).rcell < w0.cs (w0.obj o).rcell + W) : (w0.run ops).step op = (w0.run ops, none) :=
  BWorld.history_ref_stale_rejected w0 hw ops o op r hr hk hrm hlt

/-- … selections and row pointers made in `w0` -/
theorem C15_table_history_selection_stale (w0 : BWorld) (hw : w0.WF) (ops : List BOp) (o : Bool) (s : Sel)
    (hk : s.kp = snap w0.cs (w0.obj o).rcell) (hrm : BWorld.SomeRemoval o w0 ops)
    (hlt : (w0.run ops).cs (w0.obj o).rcell < w0.cs (w0.obj o).rcell + W) :
    (s.raws ≠ [] → (w0.run ops).step (.selRead s) = (w0.run ops, none)) ∧
    (∀ i r, ((w0.run ops).step (.selAt s i)).2 = some (.ref r) → ∀ op, r ∈ op.refs → (w0.run ops).step op = (w0.run ops, none)) :=
  BWorld.history_sel_stale_rejected w0 hw ops o s hk hrm hlt

/-- … hash bounds made in `w0`: rejected after any history that changed the rows of their table in any way -/
theorem C15_table_history_bounds_stale (w0 : BWorld) (hw : w0.WF) (ops : List BOp) (o : Bool) (m : MBounds)
    (hk : m.ckp = snap w0.cs (w0.obj o).ccell) (hch : BWorld.SomeChange o w0 ops)
    (hlt : (w0.run ops).cs (w0.obj o).ccell < w0.cs (w0.obj o).ccell + W) (i : Nat) :
    (w0.run ops).step (.mbAt m i) = (w0.run ops, none) :=
  BWorld.history_bounds_stale_rejected w0 hw ops o m hk hch hlt i

/-- "operations that did not modify the container": a call that throws, a non-mutating entry point, a call on the other table and
    an insertion / replacement refused by the unique index increment no version of table `o`; insertions and single-column
    updates do not increment its remove version (`chg = false`) -/
theorem C15_table_no_increment_without_reason (w : BWorld) (hw : w.WF) (o : Bool) (chg : Bool) (op : BOp)
    (hq : BWorld.QuietStep o chg w op) :
    (w.step op).1.cs (w.obj o).rcell = w.cs (w.obj o).rcell ∧
    (chg = true → (w.step op).1.cs (w.obj o).ccell = w.cs (w.obj o).ccell) :=
  BWorld.step_quiet w hw o chg op hq

/-- **fresh_accepted over histories**, row references -/
theorem C15_table_history_ref_fresh (w0 : BWorld) (hw : w0.WF) (ops : List BOp) (o : Bool) (hq : BWorld.AllQuiet o false w0 ops) (raw : Nat) :
    let r := (w0.obj o).mkRef w0.cs raw
    let w := w0.run ops
    (w.step (.get r)).2.isSome = true ∧ (∀ b, (w.step (.updB o r b)).2.isSome = true) ∧ (w.step (.rmRef o r)).2.isSome = true ∧
    (w.step (.mkMut o r)).2.isSome = true ∧ (w.step (.newRow r)).2.isSome = true :=
  BWorld.history_ref_fresh_accepted w0 hw ops o hq raw

/-- … selections and row pointers -/
theorem C15_table_history_selection_fresh (w0 : BWorld) (hw : w0.WF) (ops : List BOp) (o : Bool) (hq : BWorld.AllQuiet o false w0 ops)
    (s : Sel) (hk : s.kp = snap w0.cs (w0.obj o).rcell) :
    let w := w0.run ops
    (w.step (.selRead s)).2.isSome = true ∧ (∀ i r, (w.step (.selAt s i)).2 = some (.ref r) → (w.step (.get r)).2.isSome = true) :=
  BWorld.history_sel_fresh_accepted w0 hw ops o hq s hk

/-- … hash bounds (they also watch the change version) -/
theorem C15_table_history_bounds_fresh (w0 : BWorld) (hw : w0.WF) (ops : List BOp) (o : Bool) (hq : BWorld.AllQuiet o true w0 ops)
    (m : MBounds) (hk : m.ckp = snap w0.cs (w0.obj o).ccell) (i : Nat) (hi : i < m.raws.length) :
    ((w0.run ops).step (.mbAt m i)).2.isSome = true :=
  BWorld.history_bounds_fresh_accepted w0 hw ops o hq m hk i hi

/-! ## Array with index iterators, SegmentedArray -/

/-- "an out-of-range index": the decision table of the index-checked entry points, for all natural arguments (no size_t
    wrap-around: `Remove(index, count)` is accepted exactly when `index + count ≤ count of the array`) -/
theorem C15_array_index_table (a : Arr) (i n v : Nat) :
    (a.at_ i).isSome = decide (i < a.items.length) ∧ (a.insert i n v).isSome = decide (i ≤ a.items.length) ∧
    (a.removeBack n).isSome = decide (n ≤ a.items.length) ∧ (a.remove i n).isSome = decide (i + n ≤ a.items.length) ∧
    (a.items.length < W → a.back.isSome = decide (0 < a.items.length)) :=
  ⟨Arr.at_isSome a i, Arr.insert_isSome a i n v, Arr.removeBack_isSome a n, Arr.remove_isSome a i n, Arr.back_isSome a⟩

/-- "never corrupts the container": `AddBackNogrow` / `AddBackNogrowVar` / `AddBackNogrowCrt` of Array and SegmentedArray is accepted
    exactly when the count is below the capacity the object reports (otherwise `invalid_argument`, the array is returned
    unchanged - `none` carries no new state), and an accepted call appends exactly the item -/
theorem C15_array_nogrow_table (a : Arr) (cap v : Nat) :
    (a.addBackNogrow cap v).isSome = decide (a.items.length < cap) ∧
    (∀ a', a.addBackNogrow cap v = some a' → a'.items = a.items ++ [v] ∧ a'.id = a.id ∧ a'.seg = a.seg) := by
  unfold Arr.addBackNogrow
  by_cases h : a.items.length < cap
  · refine ⟨by simp [h, chk], ?_⟩
    intro a' ha
    simp [h, chk] at ha
    subst ha
    exact ⟨rfl, rfl, rfl⟩
  · refine ⟨by simp [h, chk], ?_⟩
    intro a' ha
    simp [h, chk] at ha

/-- index iterators: `+=` stays inside `[0, count]`, a null iterator only accepts `+= 0`, iterators of different arrays
    cannot be subtracted / compared, dereferencing a null iterator throws, SegmentedArray iterators also throw at the end -/
theorem C15_array_iterator_table (it jt : AIt) (a : Arr) (count : Nat) (d : Int) :
    (∀ x, it.arr = some x → it.idx ≤ count → count < 9223372036854775808 → -9223372036854775808 ≤ d → d < 9223372036854775808 →
      ((it.add count d).isSome = true ↔ (0 ≤ Int.ofNat it.idx + d ∧ Int.ofNat it.idx + d ≤ Int.ofNat count))) ∧
    (it.arr = none → (it.add count d).isSome = decide (d = 0)) ∧
    (it.sameArray jt).isSome = (it.arr == jt.arr) ∧
    (it.deref a).isSome = (it.arr.isSome && (!a.seg || decide (it.idx < a.items.length))) :=
  ⟨fun x ha h1 h2 h3 h4 => AIt.add_isSome it count d x ha h1 h2 h3 h4, AIt.add_null it count d, AIt.sameArray_isSome it jt,
   AIt.deref_isSome it a⟩

/-! ## The model's version table accounts for every increment / check site of the headers (T1) -/

/-- the numbers of `IncVersion()` / `++…Version()` / `…Proxy::Check(` sites found in the current headers equal the numbers
    of sites the model mirrors (lists `incSites…`, `checkSites…` of Model/Ver.lean); HashMap.h and TreeMap.h contain none -/
theorem C15_sites_accounted :
    Extracted.verIncSitesHashSet = incSitesHashSet.length ∧ Extracted.verIncSitesTreeSet = incSitesTreeSet.length ∧
    Extracted.verIncSitesHashMap = 0 ∧ Extracted.verIncSitesTreeMap = 0 ∧
    Extracted.verValueIncSites = incSitesValue.length ∧ Extracted.verChangeIncSites = incSitesChange.length ∧
    Extracted.verRemoveIncSites = incSitesRemove.length ∧ Extracted.verHashSetPosChecks = checkSitesHashSet.length ∧
    Extracted.verTreeSetIterChecks = checkSitesTreeSet.length ∧ Extracted.verMultiMapIterChecks = checkSitesMultiMap.length ∧
    Extracted.verKeeperCheckShape = 1 ∧ Extracted.verKeeperCheckAtShape = 1 ∧ Extracted.verCheckThrowsInvalidArgument = 1 ∧
    Extracted.verCrewIncSites = 1 ∧ Extracted.verSelectionReadChecks = 3 ∧
    Extracted.verTableRefChecks = checkSitesTable.length ∧ Extracted.verSelectionRefChecks = checkSitesSelection.length := by
  decide

/-! ## Non-vacuity: concrete states that satisfy the hypotheses -/

/-- A = {7, 3} (capacity 5, crew cell 0, 12 increments so far), B = {} (cell 1) -/
def exH : HWorld := ⟨fun c => if c = 0 then 12 else 0, ⟨0, [7, 3], 5⟩, ⟨1, [], 0⟩⟩

example : exH.WF := by simp [HWorld.WF, exH]
-- a position of key 7 made now, then `Insert(9)`: the position is stale and `Remove` / read / `Add` are rejected
example : (exH.step (.insert false 9 5)).1.shape 0 ≠ exH.shape 0 := by decide
example : HWorld.SomeChange 0 exH [.find true 4, .insert false 9 5] := by
  right; left; exact ⟨by intro o h k; simp, by decide⟩
example : Stale (exH.a.findPos exH.cs 7).kp (exH.run [.find true 4, .insert false 9 5]).cs :=
  ⟨0, 12, rfl, rfl, by decide, by decide⟩
example : ((exH.run [.insert false 9 5]).step (.remove false (exH.a.findPos exH.cs 7) none)).2 = none := by decide
-- `Insert(7)` (already present), `Find`, `Reserve(4)` (≤ capacity) are quiet no-ops: the position stays valid
example : HWorld.AllQuiet 0 exH [.insert false 7 5, .find false 3, .reserve false 4 5] := by
  refine ⟨Or.inr ⟨trivial, by decide⟩, Or.inr ⟨trivial, by decide⟩, Or.inr ⟨by simp [HOp.Quiet], by decide⟩, trivial⟩
example : ((exH.run [.insert false 7 5, .find false 3, .reserve false 4 5]).step (.remove false (exH.a.findPos exH.cs 7) none)).2.isSome = true := by
  decide
-- a position of A used with B is foreign
example : (exH.step (.remove true (exH.a.findPos exH.cs 7) none)).2 = none := by decide

/-- A = ⟨2, 5, 8⟩ with root, B = ⟨20, 30⟩: `A.MergeTo(B)` takes the pvMergeFast path -/
def exT : TWorld := ⟨fun _ => 3, ⟨0, [2, 5, 8], true, true, false⟩, ⟨1, [20, 30], true, true, false⟩⟩

example : exT.WF := by simp [TWorld.WF, exT]
example : (exT.step (.mergeTo false)).1.b.keys = [2, 5, 8, 20, 30] ∧ (exT.step (.mergeTo false)).1.a.root = false := by decide
-- iterators of source and destination made before the fast merge are both rejected afterwards
example : ((exT.step (.mergeTo false)).1.step (.deref (exT.a.beginIt exT.cs))).2 = none ∧
          ((exT.step (.mergeTo false)).1.step (.remove true (exT.b.beginIt exT.cs))).2 = none := by decide
-- while an iterator made after it is accepted
example : ((exT.step (.mergeTo false)).1.step (.remove true ((exT.step (.mergeTo false)).1.b.beginIt (exT.step (.mergeTo false)).1.cs))).2.isSome = true := by
  decide
-- `++end` and reading the end iterator are rejected although the root is a leaf
example : (exT.step (.inc (exT.a.endIt exT.cs))).2 = none := by decide

/-- key 1 ↦ [10, 11], key 2 ↦ [20]: `InsertKey(3)` moves only the key version, yet a value iterator made before is rejected -/
def exM : MMap := ⟨0, 1, [(2, [20]), (1, [10, 11])], 5⟩
example :
    let cs : Cells := fun _ => 0
    let it : VIt := ⟨⟨snap cs 0, some 1, true⟩, snap cs 1, some 0⟩
    (exM.vderef cs it).isSome = true ∧ (exM.insertKey cs 3 5).1 1 = cs 1 ∧
    (MMap.vinc (exM.insertKey cs 3 5).1 it none) = none ∧ ((exM.insertKey cs 3 5).2.1.vderef (exM.insertKey cs 3 5).1 it) = none := by
  decide

/-- a table with raws 0, 1, 2; removing row 1 makes earlier references and selections stale, adding a row does not -/
def exTbl : Table := ⟨7, 0, 1, [⟨0, 10, 5⟩, ⟨1, 11, 5⟩, ⟨2, 12, 6⟩], 3⟩
example :
    let cs : Cells := fun _ => 0
    let r := exTbl.mkRef cs 2
    ((exTbl.tryAdd cs 13 6).2.1.removeRef (exTbl.tryAdd cs 13 6).1 r).isSome = true ∧
    (∀ x, exTbl.removeNum cs 1 = some x → x.2.removeRef x.1 r = none ∧ (exTbl.select cs 1 0).readAll x.1 = none) := by
  refine ⟨by decide, ?_⟩
  intro x hx
  have : x = (exTbl.dropRow (fun _ => 0) 1) := by
    simp [Table.removeNum, exTbl] at hx; exact hx.symm
  subst this
  decide

/-- the multimap `exM` as object A (key cell 0, value cell 1) next to an empty object B (cells 2, 3) -/
def exMW : MWorld := ⟨fun _ => 0, exM, ⟨2, 3, [], 0⟩⟩

example : exMW.WF := by simp [MWorld.WF, exMW, exM]
example : exMW.CapInv := ⟨fun h => absurd h (by decide), fun _ => rfl⟩
example : exMW.vcellOf 0 = some 1 := by decide
-- `InsertKey(3)` changes the key set of A: key iterators and value iterators made before are rejected afterwards
example : MWorld.SomeKeyChange 0 exMW [.findKey true 4, .insertKey false 3 5] := by
  right; left; exact ⟨by intro o h k; simp, by decide⟩
example : MWorld.SomeChange 0 exMW [.findKey true 4, .insertKey false 3 5] := by
  right; left; exact ⟨by intro o h k; simp, by decide⟩
example : ((exMW.run [.findKey true 4, .insertKey false 3 5]).step (.vderef ⟨⟨snap exMW.cs 0, some 1, true⟩, snap exMW.cs 1, some 0⟩)).2 = none ∧
          ((exMW.run [.findKey true 4, .insertKey false 3 5]).step (.removeValues false ⟨snap exMW.cs 0, some 1, false⟩ none)).2 = none := by
  decide
-- `Find`, `InsertKey` of a stored key, `RemoveKey` of an absent key and an `Add` to the OTHER map are quiet for A
example : MWorld.AllQuiet 0 exMW [.findKey false 1, .insertKey false 1 5, .removeKeyByKey false 9, .add true 7 70 5] :=
  ⟨Or.inr (Or.inl rfl), Or.inr (Or.inr (Or.inr ⟨trivial, by decide⟩)), Or.inr (Or.inr (Or.inr ⟨trivial, by decide⟩)),
   Or.inr (Or.inr (Or.inl ⟨true, rfl, by decide⟩)), trivial⟩
example : ((exMW.run [.findKey false 1, .insertKey false 1 5, .removeKeyByKey false 9, .add true 7 70 5]).step
            (.remove false ⟨⟨snap exMW.cs 0, some 1, true⟩, snap exMW.cs 1, some 0⟩ none)).2.isSome = true := by
  decide
-- a key iterator of A used with B is foreign
example : (exMW.step (.removeValues true ⟨snap exMW.cs 0, some 1, false⟩ none)).2 = none := by decide

/-- the table `exTbl` as table A (change cell 0, remove cell 1) next to a table B with one row (cells 2, 3) -/
def exBW : BWorld := ⟨fun _ => 0, exTbl, ⟨8, 2, 3, [⟨100, 10, 5⟩], 101⟩⟩

example : exBW.WF := by simp [BWorld.WF, exBW, exTbl]
-- adding a row and then removing row 1: a row is gone, the rows changed
example : BWorld.SomeRemoval false exBW [.add false 13 6, .rmNum false 1] := by
  right; left; exact ⟨⟨1, 11, 5⟩, by decide, by decide⟩
example : BWorld.SomeChange false exBW [.add false 13 6] := by
  left; decide
-- a reference, a selection and hash bounds made before are rejected afterwards; a reference into A is foreign for B
example :
    let r := exBW.a.mkRef exBW.cs 2
    let w := exBW.run [.add false 13 6, .rmNum false 1]
    (w.step (.get r)).2 = none ∧ (w.step (.rmRefs false [exBW.a.mkRef w.cs 0, r] false)).2 = none ∧
    (w.step (.selRead (exBW.a.select exBW.cs 1 0))).2 = none ∧ (w.step (.mbAt (exBW.a.findMulti exBW.cs 5) 0)).2 = none ∧
    (exBW.step (.rmRef true r)).2 = none := by
  decide
-- insertions, a single-column update, a refused insertion, `Clear` of the OTHER table and `Select` are quiet for references into A
example : BWorld.AllQuiet false false exBW
    [.add false 13 6, .updB false (exBW.a.mkRef exBW.cs 0) 9, .add false 10 1, .clear true, .select false 1 0] :=
  ⟨Or.inr (Or.inr (Or.inr (Or.inr ⟨rfl, trivial⟩))), Or.inr (Or.inr (Or.inr (Or.inr ⟨rfl, trivial⟩))),
   Or.inr (Or.inr (Or.inr (Or.inl ⟨_, rfl⟩))), Or.inr (Or.inr (Or.inl rfl)), Or.inr (Or.inl rfl), trivial⟩
example : ((exBW.run [.add false 13 6, .updB false (exBW.a.mkRef exBW.cs 0) 9, .add false 10 1, .clear true, .select false 1 0]).step
            (.rmRef false (exBW.a.mkRef exBW.cs 2))).2.isSome = true := by
  decide
-- for hash bounds (change version) only calls that leave the rows alone are quiet
example : BWorld.AllQuiet false true exBW [.add false 10 1, .clear true, .findM false 5] :=
  ⟨Or.inr (Or.inr (Or.inr (Or.inl ⟨_, rfl⟩))), Or.inr (Or.inr (Or.inl rfl)), Or.inr (Or.inl rfl), trivial⟩

end Momo.Ver
