import Momo.Proof.SortApi
import Momo.Proof.TrEqMisc
import Momo.Proof.TrEqMisc2Sort
/-!
# C17 — Hash sorting groups equal items and its searches agree with a linear scan

Property theorems only.  Model: `Momo/Model/Sort.lean` (every array access checked; `none` = access outside
the sequence / wrapped `size_t` subtraction / failed `MOMO_ASSERT` / exhausted loop fuel); lemmas:
`Momo/Proof/Sort*.lean`.

Statement (properties.jsonl): for every input sequence, hash function and equality, `HashSorter::Sort` (plain
and prehashed) permutes the sequence so that hash codes are non-decreasing and equal items are contiguous,
keeping any parallel hash array in step; `RadixSorter` sorts integers and pointers into non-decreasing order.
On any sequence arranged that way - including the empty sequence - `Find`, `GetBounds` and `IsSorted` return
exactly what a linear scan returns.

Every theorem below concludes `… = some …`: the model never reports an out-of-range access on the inputs
quantified over.  "Equality" is any `Bool`-valued equivalence relation (`IsEqv`), "hash function" any
function into 64-bit codes under which equal items have equal codes (required only of the items actually
present).  No bound on the length of the sequence appears anywhere.
-/
namespace Momo.Sort
variable {α : Type}

/-! ## the interpolation index -/

/-- **C17 (`pvMultShift`).** `pvMultShift(h, n) < n` for every 64-bit `h` and every `n > 0` (any `n`, also
`≥ 2^64`): the interpolated start index of `pvFindHash` is inside the sequence.  All 64-bit wrap-arounds of
the C++ expression are part of the model. -/
theorem C17_multShift_lt (h n : Nat) (hh : h < 2 ^ 64) (hn : 0 < n) : multShift h n < n :=
  multShift_lt h n hh hn

/-- `pvMultShift(h, n)` never exceeds the exact value `⌊h·n / 2^64⌋` it approximates. -/
theorem C17_multShift_le_exact (h n : Nat) (hh : h < 2 ^ 64) (hn : n < 2 ^ 64) : multShift h n ≤ h * n / 2 ^ 64 :=
  multShift_le_mulhi h n hh hn

/-! ## Sort -/

/-- **C17 (`HashSorter::Sort`).** "For every input sequence, hash function and equality, Sort permutes the
sequence so that hash codes are non-decreasing and equal items are contiguous."  `hashSort (plainMem hash)` is
`HashSorter::pvSort` with `IterHashFunc` and `std::iter_swap` (RadixSorter<8> on the 64-bit codes, selection
sort, in-place partition, recursion, `pvGroup` on runs of equal codes). -/
theorem C17_sort_plain (hash : α → Nat) (eq : α → α → Bool) (he : IsEqv eq) (a : Array α)
    (hresp : ∀ x ∈ a.toList, ∀ y ∈ a.toList, eq x y = true → hash x = hash y)
    (h64 : ∀ x ∈ a.toList, hash x < 2 ^ 64) :
    ∃ a', hashSort (plainMem hash) eq a a.size = some a' ∧
      a'.toList.Perm a.toList ∧
      a'.toList.Pairwise (fun x y => hash x ≤ hash y) ∧
      Grouped eq a'.toList := by
  have L := plainMem_lawful hash
  have hcells : ∀ x ∈ plainCells hash a, x.2 < 2 ^ 64 := by
    intro x hx
    obtain ⟨x', hx', rfl⟩ := List.mem_map.1 hx
    exact h64 x' hx'
  obtain ⟨a', h1, _, h3, h4, h5⟩ := hashSort_list L he a trivial (plain_consL hash eq a hresp) hcells
  have hlen : (a.toList.map fun x => (x, hash x)).length = a.size := by simp
  rw [hlen] at h1
  exact ⟨a', h1, plain_perm h3, (plain_sorted_iff hash a').1 h4, (plain_grouped_iff hash eq a').1 h5⟩

/-- **C17 (`HashSorter::SortPrehashed`).** "… (plain and prehashed) … keeping any parallel hash array in
step": the (item, hash) pairs after the call are a permutation of the pairs before it, the hash array is
non-decreasing, equal items are contiguous.  `preMem` swaps `hashBegin[i]`, `hashBegin[j]` together with
the items, as the `iterHashSwapper` lambda does. -/
theorem C17_sort_prehashed (eq : α → α → Bool) (he : IsEqv eq) (items : Array α) (hashes : Array Nat)
    (hsz : items.size = hashes.size)
    (hresp : ∀ x ∈ items.toList.zip hashes.toList, ∀ y ∈ items.toList.zip hashes.toList, eq x.1 y.1 = true → x.2 = y.2)
    (h64 : ∀ h ∈ hashes.toList, h < 2 ^ 64) :
    ∃ items' hashes', hashSort preMem eq (items, hashes) items.size = some (items', hashes') ∧
      items'.size = hashes'.size ∧
      (items'.toList.zip hashes'.toList).Perm (items.toList.zip hashes.toList) ∧
      hashes'.toList.Pairwise (· ≤ ·) ∧
      Grouped eq items'.toList := by
  have L := preMem_lawful (α := α)
  have hcells : ∀ x ∈ preCells (items, hashes), x.2 < 2 ^ 64 := by
    intro x hx
    exact h64 x.2 (List.of_mem_zip hx).2
  obtain ⟨s', h1, h2, h3, h4, h5⟩ := hashSort_list L he (items, hashes) hsz hresp hcells
  have hlen : (items.toList.zip hashes.toList).length = items.size := by simp [hsz]
  rw [hlen] at h1
  exact ⟨s'.1, s'.2, h1, h2, h3, (pre_sorted_iff s' h2).1 h4, (pre_grouped_iff eq s' h2).1 h5⟩

/-- **C17 (`RadixSorter<R>::Sort`).** "RadixSorter sorts integers and pointers into non-decreasing order":
for every radix size `R ≥ 1` (the header allows 1..16) and every code width `W` (8..64 in the C++), any
array whose codes fit in `W` bits becomes a permutation of itself with non-decreasing codes - including
the in-place cycle-leader partition, the `shift` clamp for `R > W`, and the `singleRadix` re-scan. -/
theorem C17_radix_sorts (R W : Nat) (hR : 0 < R) (code : α → Nat) (a : Array α)
    (hW : ∀ x ∈ a.toList, code x < 2 ^ W) :
    ∃ a', radixSorterSort (plainMem code) R W noGroupFn a a.size = some a' ∧
      a'.toList.Perm a.toList ∧ a'.toList.Pairwise (fun x y => code x ≤ code y) := by
  have L := plainMem_lawful code
  have hcells : ∀ x ∈ plainCells code a, x.2 < 2 ^ W := by
    intro x hx
    obtain ⟨x', hx', rfl⟩ := List.mem_map.1 hx
    exact hW x' hx'
  obtain ⟨a', h1, _, h3, h4⟩ := radixSort_list L R W hR a trivial hcells
  have hlen : (a.toList.map fun x => (x, code x)).length = a.size := by simp
  rw [hlen] at h1
  exact ⟨a', h1, plain_perm h3, (plain_sorted_iff code a').1 h4⟩

/-- the in-place partition step alone (`pvRadixSort(begin, codeGetter, iterSwapper, shift, endIndexes)`):
given the cumulative radix counts it never swaps outside the range, terminates within the `count` swaps the
model allows, and leaves the range in non-decreasing radix order - for every lawful memory. -/
theorem C17_partition_correct {σ : Type} {M : Mem σ α} {abs : σ → List (α × Nat)} {ok : σ → Prop}
    (L : Lawful M abs ok) (R : Nat) : PartSpec abs ok R (partition M R) :=
  partition_spec L R

/-- `pvGroup` alone, for every equivalence and every lawful memory: the range becomes a permutation of
itself with equal items contiguous, cells outside the range are untouched. -/
theorem C17_group_correct {σ : Type} {M : Mem σ α} {abs : σ → List (α × Nat)} {ok : σ → Prop}
    (L : Lawful M abs ok) (eq : α → α → Bool) (he : IsEqv eq) (pre seg post : List (α × Nat)) (s : σ)
    (hh : Holds abs ok s (pre ++ seg ++ post)) :
    ∃ s' seg', group M eq s pre.length seg.length = some s' ∧
      Holds abs ok s' (pre ++ seg' ++ post) ∧ seg'.Perm seg ∧ GroupedCells eq seg' := by
  obtain ⟨s', seg', h1, h2, h3, h4⟩ := group_spec L he pre post s seg hh
  exact ⟨s', seg', h1, h2, h3, (groupedCells_iff_contigL eq seg').2 h4⟩

/-! ## Find / GetBounds / IsSorted -/

/-- **C17 (`HashSorter::Find`).** "On any sequence arranged that way - including the empty sequence - Find
returns exactly what a linear scan returns": `found` is the result of `List.any`, and when found the returned
index holds an equal item.  Interpolation, exponential and binary search, the backward and forward
`pvFindNext` walks are all inside `find`. -/
theorem C17_find_plain (hash : α → Nat) (eq : α → α → Bool) (he : IsEqv eq) (a : Array α)
    (hsorted : a.toList.Pairwise (fun x y => hash x ≤ hash y)) (hgrouped : Grouped eq a.toList)
    (item : α) (hh : hash item < 2 ^ 64) (hresp : ∀ x ∈ a.toList, eq x item = true → hash x = hash item) :
    ∃ idx found, find (plainMem hash) eq a a.size item (hash item) = some (idx, found) ∧
      idx ≤ a.size ∧
      found = a.toList.any (fun x => eq x item) ∧
      (found = true → ∃ x, a[idx]? = some x ∧ eq x item = true) := by
  have L := plainMem_lawful hash
  obtain ⟨idx, found, h1, h2, h3, h4⟩ := find_list L he a trivial ((plain_sorted_iff hash a).2 hsorted)
    ((plain_grouped_iff hash eq a).2 hgrouped) item (hash item) hh
    (by
      intro x hx hxe
      obtain ⟨x', hx', rfl⟩ := List.mem_map.1 hx
      exact hresp x' hx' hxe)
  have hlen : (a.toList.map fun x => (x, hash x)).length = a.size := by simp
  rw [hlen] at h1 h2
  refine ⟨idx, found, h1, h2, ?_, ?_⟩
  · cases hf : found with
    | true =>
      obtain ⟨x, hx, hxe⟩ := h3.1 hf
      obtain ⟨x', hx', rfl⟩ := List.mem_map.1 hx
      exact (List.any_eq_true.2 ⟨x', hx', hxe⟩).symm
    | false =>
      symm
      apply Bool.eq_false_iff.2
      intro hany
      obtain ⟨x, hx, hxe⟩ := List.any_eq_true.1 hany
      have := h3.2 ⟨(x, hash x), List.mem_map.2 ⟨x, hx, rfl⟩, hxe⟩
      rw [hf] at this; cases this
  · intro hf
    obtain ⟨x, hx, hxe⟩ := h4 hf
    simp only [List.getElem?_map, Array.getElem?_toList] at hx
    cases hai : a[idx]? with
    | none => rw [hai] at hx; cases hx
    | some y =>
      rw [hai] at hx
      simp only [Option.map_some, Option.some.injEq] at hx
      subst hx
      exact ⟨y, rfl, hxe⟩

/-- **C17 (`HashSorter::FindPrehashed`).** The same with a parallel hash array and a caller-supplied
`itemHash`: the hash array is non-decreasing, equal items are contiguous, and cells equal to the sought item
carry `itemHash`. -/
theorem C17_find_prehashed (eq : α → α → Bool) (he : IsEqv eq) (items : Array α) (hashes : Array Nat)
    (hsz : items.size = hashes.size)
    (hsorted : hashes.toList.Pairwise (· ≤ ·)) (hgrouped : Grouped eq items.toList)
    (item : α) (itemHash : Nat) (hh : itemHash < 2 ^ 64)
    (hresp : ∀ x ∈ items.toList.zip hashes.toList, eq x.1 item = true → x.2 = itemHash) :
    ∃ idx found, find preMem eq (items, hashes) items.size item itemHash = some (idx, found) ∧
      idx ≤ items.size ∧
      found = items.toList.any (fun x => eq x item) ∧
      (found = true → ∃ x, items[idx]? = some x ∧ eq x item = true) := by
  have L := preMem_lawful (α := α)
  obtain ⟨idx, found, h1, h2, h3, h4⟩ := find_list L he (items, hashes) hsz ((pre_sorted_iff (items, hashes) hsz).2 hsorted)
    ((pre_grouped_iff eq (items, hashes) hsz).2 hgrouped) item itemHash hh hresp
  have hlen : (items.toList.zip hashes.toList).length = items.size := by simp [hsz]
  rw [hlen] at h1 h2
  have hfst := pre_map_fst (items, hashes) hsz
  refine ⟨idx, found, h1, h2, ?_, ?_⟩
  · cases hf : found with
    | true =>
      obtain ⟨x, hx, hxe⟩ := h3.1 hf
      exact (List.any_eq_true.2 ⟨x.1, (List.of_mem_zip hx).1, hxe⟩).symm
    | false =>
      symm
      apply Bool.eq_false_iff.2
      intro hany
      obtain ⟨x, hx, hxe⟩ := List.any_eq_true.1 hany
      rw [← hfst] at hx
      obtain ⟨c, hc, rfl⟩ := List.mem_map.1 hx
      have := h3.2 ⟨c, hc, hxe⟩
      rw [hf] at this; cases this
  · intro hf
    obtain ⟨x, hx, hxe⟩ := h4 hf
    have hx' := (List.getElem?_zip_eq_some.1 hx).1
    simp only [Array.getElem?_toList] at hx'
    exact ⟨x.1, hx', hxe⟩

/-- **C17 (`HashSorter::GetBounds`).** "GetBounds returns exactly what a linear scan returns": the half-open
index range `[b, e)` contains precisely the indices whose item equals the sought one (empty when there is
none). -/
theorem C17_bounds_plain (hash : α → Nat) (eq : α → α → Bool) (he : IsEqv eq) (a : Array α)
    (hsorted : a.toList.Pairwise (fun x y => hash x ≤ hash y)) (hgrouped : Grouped eq a.toList)
    (item : α) (hh : hash item < 2 ^ 64) (hresp : ∀ x ∈ a.toList, eq x item = true → hash x = hash item) :
    ∃ b e, getBounds (plainMem hash) eq a a.size item (hash item) = some (b, e) ∧ b ≤ e ∧ e ≤ a.size ∧
      ∀ k (hk : k < a.size), eq a[k] item = true ↔ b ≤ k ∧ k < e := by
  have L := plainMem_lawful hash
  obtain ⟨b, e, h1, h2, h3, h4⟩ := getBounds_list L he a trivial ((plain_sorted_iff hash a).2 hsorted)
    ((plain_grouped_iff hash eq a).2 hgrouped) item (hash item) hh
    (by
      intro x hx hxe
      obtain ⟨x', hx', rfl⟩ := List.mem_map.1 hx
      exact hresp x' hx' hxe)
  have hlen : (a.toList.map fun x => (x, hash x)).length = a.size := by simp
  rw [hlen] at h1 h3
  refine ⟨b, e, h1, h2, h3, ?_⟩
  intro k hk
  have := h4 k (by rw [hlen]; exact hk)
  simpa using this

/-- **C17 (`HashSorter::GetBoundsPrehashed`).** -/
theorem C17_bounds_prehashed (eq : α → α → Bool) (he : IsEqv eq) (items : Array α) (hashes : Array Nat)
    (hsz : items.size = hashes.size)
    (hsorted : hashes.toList.Pairwise (· ≤ ·)) (hgrouped : Grouped eq items.toList)
    (item : α) (itemHash : Nat) (hh : itemHash < 2 ^ 64)
    (hresp : ∀ x ∈ items.toList.zip hashes.toList, eq x.1 item = true → x.2 = itemHash) :
    ∃ b e, getBounds preMem eq (items, hashes) items.size item itemHash = some (b, e) ∧ b ≤ e ∧ e ≤ items.size ∧
      ∀ k (hk : k < items.size), eq items[k] item = true ↔ b ≤ k ∧ k < e := by
  have L := preMem_lawful (α := α)
  obtain ⟨b, e, h1, h2, h3, h4⟩ := getBounds_list L he (items, hashes) hsz ((pre_sorted_iff (items, hashes) hsz).2 hsorted)
    ((pre_grouped_iff eq (items, hashes) hsz).2 hgrouped) item itemHash hh hresp
  have hlen : (items.toList.zip hashes.toList).length = items.size := by simp [hsz]
  rw [hlen] at h1 h3
  refine ⟨b, e, h1, h2, h3, ?_⟩
  intro k hk
  have := h4 k (by rw [hlen]; exact hk)
  simpa using this

/-- **C17 (`HashSorter::IsSorted`).** "IsSorted returns exactly what a linear scan returns" - here for
*every* array, arranged or not, empty or not: the answer is `true` iff hash codes are non-decreasing and
equal items are contiguous. -/
theorem C17_isSorted_plain (hash : α → Nat) (eq : α → α → Bool) (he : IsEqv eq) (a : Array α)
    (hresp : ∀ x ∈ a.toList, ∀ y ∈ a.toList, eq x y = true → hash x = hash y) :
    ∃ r, isSorted (plainMem hash) eq a a.size = some r ∧
      (r = true ↔ a.toList.Pairwise (fun x y => hash x ≤ hash y) ∧ Grouped eq a.toList) := by
  have L := plainMem_lawful hash
  obtain ⟨r, h1, h2⟩ := isSorted_list L he a trivial (plain_consL hash eq a hresp)
  have hlen : (a.toList.map fun x => (x, hash x)).length = a.size := by simp
  rw [hlen] at h1
  refine ⟨r, h1, ?_⟩
  rw [h2]
  exact and_congr (plain_sorted_iff hash a) (plain_grouped_iff hash eq a)

/-- **C17 (`HashSorter::IsSortedPrehashed`).** -/
theorem C17_isSorted_prehashed (eq : α → α → Bool) (he : IsEqv eq) (items : Array α) (hashes : Array Nat)
    (hsz : items.size = hashes.size)
    (hresp : ∀ x ∈ items.toList.zip hashes.toList, ∀ y ∈ items.toList.zip hashes.toList, eq x.1 y.1 = true → x.2 = y.2) :
    ∃ r, isSorted preMem eq (items, hashes) items.size = some r ∧
      (r = true ↔ hashes.toList.Pairwise (· ≤ ·) ∧ Grouped eq items.toList) := by
  have L := preMem_lawful (α := α)
  obtain ⟨r, h1, h2⟩ := isSorted_list L he (items, hashes) hsz hresp
  have hlen : (items.toList.zip hashes.toList).length = items.size := by simp [hsz]
  rw [hlen] at h1
  refine ⟨r, h1, ?_⟩
  rw [h2]
  exact and_congr (pre_sorted_iff (items, hashes) hsz) (pre_grouped_iff eq (items, hashes) hsz)

/-! ## Non-vacuity: concrete states meeting the hypotheses, and the model evaluated on them -/

section Examples

/-- items are (key, id); equality looks at the key only -/
def exEq (a b : Nat × Nat) : Bool := a.1 == b.1
/-- keys 0 and 3 collide; key 4 hashes to 0, key 5 to 2^64-1 -/
def exHash (x : Nat × Nat) : Nat :=
  match x.1 with
  | 0 => 30 | 1 => 10 | 2 => 20 | 3 => 30 | 4 => 0 | _ => 18446744073709551615

theorem exEq_isEqv : IsEqv exEq where
  refl := by intro a; simp [exEq]
  symm := by intro a b h; simp [exEq] at h ⊢; exact h.symm
  trans := by intro a b c h1 h2; simp [exEq] at h1 h2 ⊢; exact h1.trans h2

theorem exHash_resp (x y : Nat × Nat) (h : exEq x y = true) : exHash x = exHash y := by
  simp [exEq] at h; simp [exHash, h]

theorem exHash_lt (x : Nat × Nat) : exHash x < 2 ^ 64 := by
  unfold exHash; split <;> decide

def exInput : Array (Nat × Nat) := #[(0,0),(1,1),(2,2),(0,3),(1,4),(3,5),(0,6)]
def exSorted : Array (Nat × Nat) := #[(1,1),(1,4),(2,2),(0,3),(0,0),(0,6),(3,5)]

/-- the hypotheses of `C17_sort_plain` hold for `exInput` (equal keys have equal hashes, hashes are 64-bit) -/
example : ∃ a', hashSort (plainMem exHash) exEq exInput exInput.size = some a' ∧ a'.toList.Perm exInput.toList ∧
    a'.toList.Pairwise (fun x y => exHash x ≤ exHash y) ∧ Grouped exEq a'.toList :=
  C17_sort_plain exHash exEq exEq_isEqv exInput (fun x _ y _ h => exHash_resp x y h) (fun x _ => exHash_lt x)

/-- … and the model really produces the arrangement the C++ produces on this input (ids 1 4 2 3 0 6 5) -/
example : hashSort (plainMem exHash) exEq exInput 7 = some exSorted := by decide +kernel

/-- `exSorted` is arranged: hashes 10 10 20 30 30 30 30 non-decreasing, equal keys contiguous (two different
keys, 0 and 3, share the hash 30) -/
theorem exSorted_arranged : exSorted.toList.Pairwise (fun x y => exHash x ≤ exHash y) ∧ Grouped exEq exSorted.toList := by
  have h := C17_isSorted_plain exHash exEq exEq_isEqv exSorted (fun x _ y _ h => exHash_resp x y h)
  obtain ⟨r, hr, hiff⟩ := h
  have : isSorted (plainMem exHash) exEq exSorted exSorted.size = some true := by decide +kernel
  rw [this] at hr
  cases hr
  exact hiff.1 rfl

/-- so the hypotheses of `C17_find_plain` / `C17_bounds_plain` are satisfiable by a state with a hash
collision between different keys, and the model's answers on it are the linear-scan answers -/
example : ∃ idx found, find (plainMem exHash) exEq exSorted exSorted.size (3, 99) (exHash (3, 99)) = some (idx, found) ∧
    idx ≤ exSorted.size ∧ found = exSorted.toList.any (fun x => exEq x (3, 99)) ∧
    (found = true → ∃ x, exSorted[idx]? = some x ∧ exEq x (3, 99) = true) :=
  C17_find_plain exHash exEq exEq_isEqv exSorted exSorted_arranged.1 exSorted_arranged.2 (3, 99) (exHash_lt _)
    (fun x _ h => exHash_resp x _ h)

example : find (plainMem exHash) exEq exSorted 7 (3, 99) 30 = some (6, true) := by decide +kernel
example : find (plainMem exHash) exEq exSorted 7 (4, 99) 0 = some (0, false) := by decide +kernel      -- below all hashes
example : find (plainMem exHash) exEq exSorted 7 (5, 99) 18446744073709551615 = some (7, false) := by decide +kernel  -- above all
example : getBounds (plainMem exHash) exEq exSorted 7 (0, 99) 30 = some (3, 6) := by decide +kernel
example : getBounds (plainMem exHash) exEq exSorted 7 (3, 99) 30 = some (6, 7) := by decide +kernel
example : find (plainMem exHash) exEq #[] 0 (0, 99) 30 = some (0, false) := by decide +kernel          -- empty sequence
example : getBounds (plainMem exHash) exEq #[] 0 (0, 99) 30 = some (0, 0) := by decide +kernel
example : isSorted (plainMem exHash) exEq #[] 0 = some true := by decide +kernel
example : isSorted (plainMem exHash) exEq exInput 7 = some false := by decide +kernel

/-- prehashed: the pair arrays stay in step -/
example : hashSort preMem exEq (exInput, #[30, 10, 20, 30, 10, 30, 30]) 7 = some (exSorted, #[10, 10, 20, 30, 30, 30, 30]) := by decide +kernel

/-- radix sort with a radix wider than the code (the shift clamp; here 4-bit radix on 2-bit codes, 10 > 8 =
selectionSortMaxCount cells, so the counting pass and the in-place partition run) and with 1-bit radix -/
example : radixSorterSort (plainMem id) 4 2 noGroupFn #[3, 1, 0, 2, 3, 3, 1, 0, 2, 1] 10 = some #[0, 0, 1, 1, 1, 2, 2, 3, 3, 3] := by decide +kernel
example : radixSorterSort (plainMem id) 1 8 noGroupFn #[200, 3, 77, 200, 1, 0, 255] 7 = some #[0, 1, 3, 77, 200, 200, 255] := by decide +kernel

/-- an out-of-range access *is* reported by the model: a count larger than the array -/
example : find (plainMem exHash) exEq exSorted 9 (5, 99) 18446744073709551615 = none := by decide +kernel

end Examples

/-! ### The code itself, not only the hand-written model (T1b)

`Momo.Tr.*` are Lean definitions regenerated on every check by tools/translate.py from the *function bodies* in the
current headers (C++ integer semantics explicit: wrap-around of `size_t`, promotion and truncation of the byte fields,
the `while` loop). The theorems below are about those generated definitions. -/
/-- `HashSorter::pvGetStepCount` as translated from the current header is the model's `stepCount` -/
theorem C17_stepCount_translated (count : Nat) : Tr.hs_pvGetStepCount count = stepCount count :=
  TrEq.tr_stepCount count

example : Tr.hs_pvGetStepCount 5000 = 2 := by decide

/-! #### area Misc (tools/trspecs/Misc.py → `Momo/Translated/Misc.lean`; equivalences: `Proof/TrEqMisc2Sort.lean`) -/

/-- **C17 (`pvMultShift`) for the code as translated from HashSorter.h.** The translated function *is* the model's
`multShift` (all 64-bit wrap-arounds coincide, no hypothesis), hence `pvMultShift(h, n) < n` for every 64-bit `h` and
every `n > 0`: the interpolated index is inside the sequence. -/
theorem C17_multShift_translated (h n : Nat) (hh : h < 2 ^ 64) (hn : 0 < n) :
    Tr.hs_pvMultShift h n = multShift h n ∧ Tr.hs_pvMultShift h n < n := by
  rw [TrEq.tr_multShift]
  exact ⟨rfl, multShift_lt h n hh hn⟩

/-- `HashSorter::pvCompare` as translated (an `int`: -1 / 0 / 1) is the model's three-way comparison. -/
theorem C17_pvCompare_translated (v1 v2 : Nat) : Tr.hs_pvCompare v1 v2 = pvCompare v1 v2 :=
  TrEq.tr_pvCompare v1 v2

/-- **`pvFindHash` starts where the translated code says**: step budget = translated `pvGetStepCount(count)`, first probe =
translated `pvMultShift(itemHash, count)`. -/
theorem C17_findHash_start_translated {σ : Type} (M : Mem σ α) (s : σ) (count itemHash : Nat) :
    findHash M s count itemHash =
      if count = 0 then some (0, false)
      else findHashLoop M s count itemHash (Tr.hs_pvGetStepCount count + 1) (Tr.hs_pvGetStepCount count) 0 count
        (Tr.hs_findHash_start itemHash count) :=
  TrEq.findHash_translated M s count itemHash

/-- **One iteration of the interpolation loop of `pvFindHash`, with the translated index arithmetic.** For hashes that are
`size_t` and `leftIndex ≤ middleIndex < count ≤ 2^63` (what holds in the C++ at that point) the model loop `findHashLoop`
— the function `C17_find_*` / `C17_bounds_*` are about — moves `middleIndex` exactly as the statements
`middleIndex += pvMultShift(itemHash - middleHash, count)`, `diff = pvMultShift(middleHash - itemHash, count)`,
`if (leftIndex + diff > middleIndex) break`, `middleIndex -= diff` translated from the header do (64-bit wrap explicit). -/
theorem C17_findHashLoop_translated {σ : Type} (M : Mem σ α) (s : σ) (count itemHash f step left right mid mh : Nat)
    (hc : M.code s mid = some mh) (hh : itemHash < 2 ^ 64) (hmh : mh < 2 ^ 64)
    (hl : left ≤ mid) (hmid : mid < count) (hn : count ≤ 2 ^ 63) :
    findHashLoop M s count itemHash (f + 1) step left right mid =
      if mh < itemHash then
        if step = 0 then
          (csub right (mid + 1)).bind fun n =>
            (exponentialSearch (hashCmp (M.fwd s (mid + 1)) itemHash) n).map fun r => (mid + 1 + r.1, r.2)
        else if Tr.hs_findHash_up mid itemHash mh count ≥ right then
          (csub right (mid + 1)).bind fun n => binarySearchAt (hashCmp (M.fwd s 0) itemHash) (mid + 1) n
        else findHashLoop M s count itemHash f (step - 1) (mid + 1) right (Tr.hs_findHash_up mid itemHash mh count)
      else if mh > itemHash then
        if step = 0 then
          (csub mid left).bind fun n =>
            (exponentialSearch (revHashCmp (M.rev s mid) itemHash) n).bind fun r =>
              (csub mid (r.1 + (if r.2 then 1 else 0))).map fun idx => (idx, r.2)
        else if Tr.hs_findHash_downBreak left (Tr.hs_findHash_diff itemHash mh count) mid = true then
          (csub mid left).bind fun n => binarySearchAt (hashCmp (M.fwd s 0) itemHash) left n
        else findHashLoop M s count itemHash f (step - 1) left mid
          (Tr.hs_findHash_down mid (Tr.hs_findHash_diff itemHash mh count))
      else some (mid, true) :=
  TrEq.findHashLoop_translated M s count itemHash f step left right mid mh hc hh hmh hl hmid hn

/-- one iteration of `pvExponentialSearch` / `pvBinarySearch` with the translated probe indexes `i = i * 2 + 2` and
`(leftIndex + rightIndex) / 2` (sequences of at most 2^62 resp. 2^63 items: nothing wraps). -/
theorem C17_search_steps_translated (cmp : Cmp) (count f i left l r : Nat) (hi : i < count) (hn : count ≤ 2 ^ 62)
    (hlr : l < r) (hr : r ≤ 2 ^ 63) :
    expLoop cmp count (f + 1) i left =
      ((cmp i).bind fun c =>
        if c > 0 then (csub i left).bind fun n => binarySearchAt cmp left n
        else if c = 0 then some (i, true)
        else expLoop cmp count f (Tr.hs_expSearch_next i) (i + 1)) ∧
    binLoop cmp (f + 1) l r =
      ((cmp (Tr.hs_binSearch_middle l r)).bind fun c =>
        if c < 0 then binLoop cmp f (Tr.hs_binSearch_middle l r + 1) r
        else if c > 0 then binLoop cmp f l (Tr.hs_binSearch_middle l r)
        else some (Tr.hs_binSearch_middle l r, true)) :=
  ⟨TrEq.expLoop_translated cmp count f i left hi hn, TrEq.binLoop_translated cmp f l r hlr hr⟩

/-- **`RadixSorter::pvGetRadix` as translated** is the model's digit extraction, and the digit indexes the `radixCount`
(translated `size_t{1} << radixSize`) counters — for every radix size the header admits (`radixSize ≤ 16`; here `< 64`). -/
theorem C17_getRadix_translated (R code shift : Nat) (hR : R < 64) :
    Tr.rs_pvGetRadix R code shift = getRadix R code shift ∧ Tr.rs_pvGetRadix R code shift < Tr.rs_radixCount R := by
  rw [TrEq.tr_getRadix R code shift hR, TrEq.tr_radixCount R hR]
  refine ⟨rfl, ?_⟩
  unfold getRadix
  rw [Nat.and_two_pow_sub_one_eq_mod]
  exact Nat.mod_lt _ (Nat.two_pow_pos R)

/-- **The shift schedule of `RadixSorter` as translated**: the clamp `(8 * sizeof(Code) > radixSize) ? … : 0` of `Sort` (the
F6 fix), `nextShift`, and `selectionSortMaxCount` are the expressions of the model `radixSorterSortWith` / `nextShift` /
`selectionSortMaxCount` that `C17_radix_sorts` and `C17_sort_*` are about. -/
theorem C17_radix_shifts_translated {σ : Type} (M : Mem σ α) (R sz : Nat) (hR : R ≤ Extracted.rsMaxRadixSize) (hsz : sz < 2 ^ 61)
    (G : GroupFn σ) (P : PartFn σ) (s : σ) (count : Nat) :
    radixSorterSortWith M R (8 * sz) G P s count =
      pvSortWith M R G (fun s b n => radixSortF M R G P (Tr.rs_Sort_shift R sz + 1) s b n (Tr.rs_Sort_shift R sz)) s 0 count ∧
    (∀ shift, Tr.rs_nextShift R shift = nextShift R shift) ∧
    Tr.rs_selectionSortMaxCount R = selectionSortMaxCount R := by
  simp only [Extracted.rsMaxRadixSize] at hR
  refine ⟨?_, TrEq.tr_nextShift R, TrEq.tr_selectionSortMaxCount R (by omega)⟩
  rw [TrEq.tr_sortShift R sz hsz]
  rfl

example : Tr.hs_pvMultShift (2 ^ 63) 1000 = 500 := by decide
example : Tr.rs_pvGetRadix 8 0xABCD 8 = 0xAB ∧ Tr.rs_Sort_shift 16 1 = 0 ∧ Tr.rs_Sort_shift 8 8 = 56 ∧ Tr.rs_nextShift 8 4 = 0 := by decide

end Momo.Sort
