import Momo.Model.Sort
/-! # C17 (under construction) -/
namespace Momo.Sort

theorem C17_stub : stepCount 0 = 0 := by decide

end Momo.Sort
