import Momo.Proof.ArrSegSqrt
import Momo.Proof.TrEqMisc
import Momo.Proof.TrEqWave2Arr
/-!
# C05 — Array-like containers equal the abstract sequence, even with aliased/empty args

Property theorems only. Models: `Momo/Model/Arr.lean` (ArrayShifter, Array / ArrayIntCap, on which
stdish::vector / vector_intcap are thin wrappers), `Momo/Model/ArrSeg.lean` (SegmentedArray);
lemmas: `Momo/Proof/Arr*.lean`.

Statement (properties.jsonl): Array, ArrayIntCap, SegmentedArray and stdish::vector/vector_intcap behave as a
sequence: after any history of append, emplace, insert (one value, n copies, iterator range, initializer list),
remove (index, index range, predicate), resize, reserve, shrink, assign, copy, move and swap, the element
sequence equals that of a reference sequence. This includes calls whose value argument refers to an element of
the same container, and calls whose inserted or removed range is empty (which change nothing). After reserving
capacity n, growing the size up to n performs no allocation.

Quantifiers of the theorems: every configuration `cfg` (item kind: `keeps` = move is a copy / move is
destructive, nothrow-relocatable or not, nothrow-move-constructible or not; internal capacity any `Nat`;
memory manager with or without `Reallocate` / `ReallocateInplace`, any answer of the latter; both segment
sizings, any `logInitialItemCount`), every state satisfying the representation invariant, every operation
argument (every index, every count including 0, every list of values, every predicate, value arguments that are
fresh values or *any* element `j` of the same container), every history.  No size bound appears anywhere.
-/
namespace Momo.Arr
variable {α : Type} [Inhabited α]
set_option linter.unusedSectionVars false

/-! ## A. `ArrayShifter` on arbitrary cells (live or moved-from) -/

/-- **C05 (insert n copies, shifter level).** `ArrayShifter::InsertNogrow(array, index, count, item)` — both
branches, every index, every count *including 0*, `item` a value outside the array or an element below `index`
(the only aliases `Array::Insert` lets through) — yields `take index ++ count copies ++ drop index`: no cell is
lost, duplicated, reordered or left moved-from, whatever the cells are and however hostile a self-move is. -/
theorem C05_shifter_insert_n (keeps : Bool) (a : Cells α) (index count : Nat) (item : Ref α) (v : Cell α)
    (hi : index ≤ a.length) (hitem : item = .ext v ∨ ∃ j, j < index ∧ item = .elem j ∧ v = cellAt a j) :
    insertNogrowN keeps a index count item = a.take index ++ List.replicate count v ++ a.drop index := by
  rcases hitem with rfl | ⟨j, hj, rfl, rfl⟩
  · exact insertNogrowN_cells keeps a index count _ v hi (good_ext false index a v)
  · exact insertNogrowN_cells keeps a index count _ _ hi (good_elem index a j hj)

/-- **C05 (insert a range, shifter level).** `ArrayShifter::InsertNogrow(array, index, begin, count)` for forward
iterators (plain or `std::move_iterator`) over objects outside the array: every index, every length including 0. -/
theorem C05_shifter_insert_range (keeps mv : Bool) (a : Cells α) (index : Nat) (vs : Cells α) (hi : index ≤ a.length) :
    insertNogrowR keeps mv a index (vs.map .ext) = a.take index ++ vs ++ a.drop index :=
  insertNogrowR_cells keeps mv a index _ vs hi (goodAll_ext mv index a vs)

/-- **C05 (remove a range, shifter level).** `ArrayShifter::Remove(array, index, count)` + `RemoveBack(count)`:
exactly the cells `[index, index+count)` disappear, every index, every count including 0. -/
theorem C05_shifter_remove (keeps : Bool) (a : Cells α) (index count : Nat) (h : index + count ≤ a.length) :
    remove keeps a index count = a.take index ++ a.drop (index + count) :=
  remove_cells keeps a index count h

/-- **C05 (remove by predicate, shifter level).** `ArrayShifter::Remove(array, itemFilter)`: the cells the filter
rejects remain, in order; the returned number is the number removed. -/
theorem C05_shifter_remove_if (keeps : Bool) (p : Cell α → Bool) (a : Cells α) :
    removeIf keeps p a = (a.filter (fun c => !p c), a.length - (a.filter (fun c => !p c)).length) :=
  removeIf_spec keeps p a

/-! ## B. `Array` / `ArrayIntCap` / `stdish::vector` / `vector_intcap` -/

/-- **C05 (one operation).** From any state that represents the sequence `xs` (all items live) and satisfies the
invariant of `Array::Data`, any operation — append by copy, emplace_back, emplace, insert of n copies (n ≥ 0),
of a forward range / initializer list, of an input range, RemoveBack, Remove(index,count), Remove(pred),
SetCount (shrinking or growing, in place or reallocating), Reserve, Shrink, Clear, assign(n,x), assign(range),
element assignment — with a value argument that is a fresh value or *element j of the same array, any j* —
yields the state that represents `Spec.step xs op`, all items live, invariant kept (so the capacity obtained
by growing always suffices for the shifting that follows). -/
theorem C05_array_step_refines (cfg : Cfg) (s : State α) (xs : List α) (op : Op α) (w : WF cfg s)
    (hs : s.cells = xs.map Cell.live) (hv : Spec.valid xs op) :
    (step cfg s op).1.cells = (Spec.step xs op).map Cell.live ∧ WF cfg (step cfg s op).1 :=
  ⟨step_cells cfg s xs op hs hv, step_wf cfg s xs op w hs hv⟩

/-- **C05 (any history).** After any history of operations that meet their preconditions, starting from an empty
array, the element sequence equals the reference sequence. -/
theorem C05_array_history (cfg : Cfg) (ops : List (Op α)) (hv : Spec.validAll [] ops) :
    (run cfg (State.init cfg) ops).1.cells = (Spec.run [] ops).map Cell.live ∧
    WF cfg (run cfg (State.init cfg) ops).1 :=
  run_refines cfg ops (State.init cfg) [] (wf_init cfg) rfl hv

/-- **C05 (empty ranges change nothing).** Inserting zero copies / an empty range and removing zero items leave
the whole `Array::Data` — items, capacity, storage — as it is and call the memory manager not at all; this
holds for *arbitrary* cells (finding F3 was a self-move-assignment of every item behind `index`). -/
theorem C05_array_empty_ranges (cfg : Cfg) (s : State α) (index : Nat) (item : Ref α) (w : WF cfg s) :
    step cfg s (.insertN index 0 item) = (s, []) ∧ step cfg s (.insertRange index []) = (s, []) ∧
    step cfg s (.insertInput index []) = (s, []) ∧ step cfg s (.remove index 0) = (s, []) ∧
    step cfg s (.removeBack 0) = (s, []) := by
  have hc := w.count_le
  have e : ({ s with cells := s.cells } : State α) = s := by cases s; rfl
  refine ⟨?_, ?_, rfl, ?_, ?_⟩
  · simp only [step, insertN, Nat.add_zero]
    rw [if_neg (by omega)]
    split <;> simp [insertNogrowN]
  · simp only [step, insertRange, List.map_nil, List.length_nil, Nat.add_zero]
    rw [if_neg (by omega)]
    simp [insertNogrowR]
  · simp [step, removeOp, remove]
  · simp [step, removeBack]

/-- **C05 (rvalue argument that is an element: `Insert(index, std::move(array[j]))`)**, including the aliasing
analysis of `Array::Insert(size_t, Item&&)`: the new element is `xs[j]`, all other elements are unchanged and
live; the source element (now at `j`, or `j+1` when it was shifted) holds what a move leaves behind. -/
theorem C05_array_insert_moved_element (cfg : Cfg) (s : State α) (xs : List α) (index j : Nat)
    (hs : s.cells = xs.map Cell.live) (hi : index ≤ xs.length) (hj : j < xs.length) :
    (insertMove cfg s index (.elem j)).1.cells =
      ((Spec.insertN xs index 1 xs[j]).map Cell.live).set (if j < index then j else j + 1)
        (afterMove cfg.keeps (.live xs[j])) :=
  insertMove_elem cfg s xs index j hs hi hj

/-- **C05 (`InsertVar(index, std::move(array[j]))` = `emplace(pos, std::move(v[j]))`).** -/
theorem C05_array_emplace_moved_element (cfg : Cfg) (s : State α) (xs : List α) (index j : Nat)
    (hs : s.cells = xs.map Cell.live) (hi : index ≤ xs.length) (hj : j < xs.length) :
    (insertCrt cfg s index true (.elem j)).1.cells =
      ((Spec.insertN xs index 1 xs[j]).map Cell.live).set (if j < index then j else j + 1)
        (afterMove cfg.keeps (.live xs[j])) :=
  insertCrt_move_elem cfg s xs index j hs hi hj

/-- **C05 (`AddBack(std::move(array[j]))` and `AddBackVar(std::move(array[j]))`)**, all code paths (no growth;
growth with `pvIndexOf` + move from the relocated item; `RelocateCreate` creating first; `RelocateCreate` copying
first): the appended element is `xs[j]`, element `j` keeps its value or is moved-from, the rest is unchanged. -/
theorem C05_array_append_moved_element (cfg : Cfg) (s : State α) (xs : List α) (j : Nat)
    (hs : s.cells = xs.map Cell.live) (hj : j < xs.length) :
    (∃ c, LeftBehind cfg xs[j] c ∧
      (addBackMoveOp cfg s (.elem j)).1.cells = ((xs ++ [xs[j]]).map Cell.live).set j c) ∧
    (∃ c, LeftBehind cfg xs[j] c ∧
      (addBackCrt cfg s true (.elem j)).1.cells = ((xs ++ [xs[j]]).map Cell.live).set j c) :=
  ⟨addBackMove_elem cfg s xs j hs hj, addBackCrt_move_elem cfg s xs j hs hj⟩

/-- **C05 (copy, move, swap).** Copy construction (with or without `shrink`) and copy assignment reproduce the
source's sequence and leave the source alone; move construction and move assignment transfer the sequence and
leave an empty, valid source; `Swap` exchanges the sequences. All results satisfy the invariant. -/
theorem C05_array_copy_move_swap (cfg : Cfg) (a b : State α) (f : Bool) (wa : WF cfg a) (wb : WF cfg b) :
    ((copyCtor cfg a f).1.cells = a.cells ∧ WF cfg (copyCtor cfg a f).1) ∧
    ((copyAssign cfg b a).1.cells = a.cells ∧ WF cfg (copyAssign cfg b a).1) ∧
    ((moveCtor cfg a).1.cells = a.cells ∧ (moveCtor cfg a).2.cells = [] ∧
      WF cfg (moveCtor cfg a).1 ∧ WF cfg (moveCtor cfg a).2) ∧
    ((moveAssign cfg b a).1.cells = a.cells ∧ (moveAssign cfg b a).2.1.cells = [] ∧
      WF cfg (moveAssign cfg b a).1 ∧ WF cfg (moveAssign cfg b a).2.1) ∧
    ((swap a b).1.cells = b.cells ∧ (swap a b).2.cells = a.cells ∧ WF cfg (swap a b).1 ∧ WF cfg (swap a b).2) :=
  ⟨copyCtor_spec cfg a f wa, copyAssign_spec cfg b a wa, moveCtor_spec cfg a wa, moveAssign_spec cfg b a wa,
   swap_spec cfg a b wa wb⟩

/-- **C05 (growth policy).** `ArraySettings::GrowCapacity` (constants extracted from Array.h) never returns less
than the requested minimum. -/
theorem C05_growCapacity_ge (g : Bool) (capacity minNew : Nat) (reserve linear : Bool) :
    minNew ≤ growCapacity g capacity minNew reserve linear :=
  growCapacity_ge g capacity minNew reserve linear

/-- **C05 (reserve clause).** After `Reserve(n)` the capacity is at least `n` and the items are unchanged; then
any history of size-changing operations (appends, emplaces, inserts of any kind, removals, SetCount, element
assignment) during which the size never exceeds `n` makes *no call at all* to the memory manager. -/
theorem C05_array_reserve_no_alloc (cfg : Cfg) (s : State α) (xs : List α) (n : Nat) (ops : List (Op α))
    (w : WF cfg s) (hs : s.cells = xs.map Cell.live) (hop : ∀ op ∈ ops, op.sizeOp)
    (hv : Spec.validAll xs ops) (hsz : sizesLe xs ops n) :
    n ≤ capacity cfg (reserve cfg s n).1 ∧ (reserve cfg s n).1.cells = s.cells ∧
    (run cfg (reserve cfg s n).1 ops).2 = [] := by
  obtain ⟨hc, hcells, w'⟩ := reserve_spec cfg s n w
  exact ⟨hc, hcells, run_noalloc cfg n ops _ xs w' (by rw [hcells]; exact hs) hc hop hv hsz⟩

/-! ## C. `SegmentedArray` (constant and sqrt sizing, every `logInitialItemCount`) -/

/-- **C05 (SegmentedArray, one operation and any history).** Every operation refines the reference sequence; the
sizing only influences the memory-manager calls. -/
theorem C05_segarray_step_refines (cfg : Seg.SCfg) (s : Seg.SState α) (xs : List α) (op : Op α)
    (hs : s.cells = xs.map Cell.live) (hv : Spec.valid xs op) :
    (Seg.step cfg s op).1.cells = (Spec.step xs op).map Cell.live :=
  Seg.step_cells cfg s xs op hs hv

theorem C05_segarray_history (cfg : Seg.SCfg) (ops : List (Op α)) (hv : Spec.validAll [] ops) :
    (Seg.run cfg Seg.SState.init ops).1.cells = (Spec.run [] ops).map Cell.live :=
  Seg.run_refines cfg ops Seg.SState.init [] rfl hv

/-- **C05 (SegmentedArray, room for every item).** After any history `mCount <= GetCapacity()`: every index the
shifter and `AddBackNogrow` touch lies in an allocated segment (with the sizing laws this is the
`MOMO_CHECK(segIndex < mSegments.GetCount())` of `AddBackNogrowCrt`). -/
theorem C05_segarray_capacity_suffices (cfg : Seg.SCfg) (ops : List (Op α)) (hv : Spec.validAll [] ops) :
    (Seg.run cfg Seg.SState.init ops).1.cells.length ≤ Seg.capacity cfg (Seg.run cfg Seg.SState.init ops).1 :=
  Seg.run_inv cfg (Seg.layout_ok cfg.lay) ops Seg.SState.init [] (Nat.zero_le _) rfl hv

/-- **C05 (SegmentedArray, reserve clause).** For both sizings and every `logInitialItemCount` (the sizing laws
are those proved for C16): after `Reserve(n)` the capacity is at least `n`, and while the size stays within `n`
neither a segment nor the segment-pointer array is (re)allocated. -/
theorem C05_segarray_reserve_no_alloc (cfg : Seg.SCfg) (s : Seg.SState α) (xs : List α) (n : Nat) (ops : List (Op α))
    (hs : s.cells = xs.map Cell.live) (hop : ∀ op ∈ ops, op.sizeOp)
    (hv : Spec.validAll xs ops) (hsz : sizesLe xs ops n) :
    n ≤ Seg.capacity cfg (Seg.reserveOp cfg s n).1 ∧ (Seg.reserveOp cfg s n).1.cells = s.cells ∧
    (Seg.run cfg (Seg.reserveOp cfg s n).1 ops).2 = [] := by
  have ok := Seg.layout_ok cfg.lay
  have hc := Seg.reserveOp_cap cfg ok s n
  have hcells := Seg.reserveOp_cells cfg s n
  exact ⟨hc, hcells, Seg.run_noalloc cfg ok n ops _ xs (by rw [hcells]; exact hs) hc hop hv hsz⟩

/-! ## Non-vacuity: concrete states and histories that meet the hypotheses -/

/-- `std::string`-like items in an `ArrayIntCap<2>` -/
def exCfg : Cfg := { intCap := 2 }
/-- push 1 2 3, insert 2 copies of element 2 (aliased, at its own index → handler path), insert 0 copies, erase
    an empty range, `Remove(x odd)`, resize with an aliased value -/
def exOps : List (Op Nat) :=
  [.addBackCopy (.ext (.live 1)), .addBackCopy (.ext (.live 2)), .addBackCopy (.elem 0), .insertN 2 2 (.elem 2),
   .insertN 1 0 (.elem 3), .remove 2 0, .insertRange 1 [7, 8], .removeIf (fun x => x % 2 == 1), .setCount 6 (.elem 1)]

example : Spec.validAll ([] : List Nat) exOps := by
  simp [exOps, Spec.validAll, Spec.valid, Spec.refOk, Spec.step, Spec.refVal, Spec.insertN, Spec.insertList, Spec.remove]
example : (run exCfg (State.init exCfg) exOps).1.cells = [.live 8, .live 2, .live 2, .live 2, .live 2, .live 2] := by
  decide
example : Spec.run ([] : List Nat) exOps = [8, 2, 2, 2, 2, 2] := by decide
example : WF exCfg (State.init exCfg : State Nat) := wf_init exCfg
/-- the growing history allocates (so the reserve theorem is not about a model that never allocates) … -/
example : (run exCfg (State.init exCfg) exOps).2 = [.alloc 4, .alloc 8, .dealloc 4] := by decide
/-- … and after `Reserve(8)` the same history allocates nothing -/
example : (run exCfg (reserve exCfg (State.init exCfg) 8).1 exOps).2 = [] := by decide
example : sizesLe ([] : List Nat) exOps 8 := by
  simp [exOps, sizesLe, Spec.step, Spec.refVal, Spec.insertN, Spec.insertList, Spec.remove, Spec.setCount]
/-- a hostile self-move in the model: the zero-count insert of F3 (before the repair the loops ran with
    `count = 0`) would have produced moved-from cells; `loop2` with `count = 0` indeed self-move-assigns -/
example : loop2 false [Cell.live 1, .live 2, .live 3] 0 3 2 = [.live 1, .moved, .moved] := by decide
/-- an rvalue alias leaves a moved-from cell exactly where the theorem says -/
example : (insertMove exCfg { cells := [.live 5, .live 6, .live 7], cap := 4 } 1 (.elem 2)).1.cells
    = [Cell.live 5, .live 7, .live 6, .moved] := by decide
/-- SegmentedArray, sqrt sizing with `logInitialItemCount = 1` -/
def exSeg : Seg.SCfg := { lay := { sqrt := true, L := 1 } }
example : (Seg.run exSeg Seg.SState.init exOps).1.cells = [.live 8, .live 2, .live 2, .live 2, .live 2, .live 2] := by
  decide
example : (Seg.run exSeg (Seg.reserveOp exSeg Seg.SState.init 8).1 exOps).2 = [] := by decide

/-! ### The code itself, not only the hand-written model (T1b)

`Momo.Tr.*` are Lean definitions regenerated on every check by tools/translate.py from the *function bodies* in the
current headers (C++ integer semantics explicit: wrap-around of `size_t`, promotion and truncation of the byte fields,
the `while` loop). The theorems below are about those generated definitions. -/
/-- `ArraySettings::GrowCapacity` as translated from the current header is the model's growth rule (capacities
below 2^62 items: nothing wraps), hence never returns less than the requested minimum. -/
theorem C05_growCapacity_translated (g : Bool) (capacity minNew : Nat) (reserve linear : Bool) (hc : capacity < 2 ^ 62) :
    Tr.arr_GrowCapacity g capacity minNew reserve linear = growCapacity g capacity minNew reserve linear ∧
    minNew ≤ Tr.arr_GrowCapacity g capacity minNew reserve linear := by
  rw [TrEq.tr_growCapacity g capacity minNew reserve linear hc]
  exact ⟨rfl, growCapacity_ge g capacity minNew reserve linear⟩

example : Tr.arr_GrowCapacity true 200 201 false false = 292 := by decide

/-! #### second wave (tools/trspecs/Wave2.py → `Momo/Translated/Wave2.lean`; equivalences: `Proof/TrEqWave2Arr.lean`) -/

/-- **`Array` capacity tests, from the header text.** The model's `Data::Reallocate` is its C++ text with the three tests
(`GetCapacity() == internalCapacity`, `capacityLin <= internalCapacity || capacityExp <= internalCapacity`,
`!canReallocate || capacityLin < capacityExp`) and `Data::GetCapacity` translated from Array.h; `Reserve` and `Shrink(capacity)`
are their text with the translated tests and the translated shrink target; `Data::Reset` takes its heap branch exactly when the
translated `capacity > internalCapacity` holds. -/
theorem C05_capacity_tests_translated {α : Type} (cfg : Cfg) (s : State α) (lin exp n : Nat) (newCells : Cells α) :
    (reallocate cfg s lin exp =
      if Tr.arr_Reallocate_internal cfg.intCap (Tr.arr_Data_GetCapacity cfg.intCap s.internal s.cap) = true then (false, s, [])
      else if Tr.arr_Reallocate_small cfg.intCap lin exp = true then (false, s, [])
      else if (Tr.arr_Reallocate_tryInplace cfg.canRealloc lin exp && cfg.canInplace) = true then
        if s.cap = lin then (true, s, [])
        else if s.oracle then (true, { s with cap := lin }, [.inplace s.cap lin true])
        else if cfg.canRealloc then (true, { s with cap := exp }, .inplace s.cap lin false :: reallocEv s.cap exp)
        else (false, s, [.inplace s.cap lin false])
      else if cfg.canRealloc then (true, { s with cap := exp }, reallocEv s.cap exp)
      else (false, s, [])) ∧
    reserve cfg s n = (if Tr.arr_Reserve_grows n (Tr.arr_Data_GetCapacity cfg.intCap s.internal s.cap) = true
                       then grow cfg s n true else (s, [])) ∧
    shrink cfg s n = (if Tr.arr_Shrink_keeps cfg.intCap (Tr.arr_Data_GetCapacity cfg.intCap s.internal s.cap) n = true then (s, [])
                      else moveTo cfg s (Tr.arr_Shrink_target s.cells.length n) (Tr.arr_Shrink_target s.cells.length n)) ∧
    (Tr.arr_Reset_heap cfg.intCap n = true →
      reset cfg s n newCells = ({ s with cells := newCells, cap := n, internal := false },
        .alloc n :: (if capacity cfg s > cfg.intCap then [.dealloc s.cap] else []))) :=
  ⟨TrEq.reallocate_translated cfg s lin exp, TrEq.reserve_shrink_translated cfg s n newCells⟩

example : Tr.arr_Shrink_target 7 3 = 7 ∧ Tr.arr_Reallocate_small 4 4 9 = true ∧ Tr.arr_Data_GetCapacity 4 true 100 = 4 := by decide

end Momo.Arr
