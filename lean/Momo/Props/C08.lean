import Momo.Proof.MMapHist
import Momo.Proof.MMapHT
import Momo.Proof.TrEqMisc2Bucket
import Momo.Proof.TrEqWave2MMap
import Momo.Proof.MMLedgerRefine
/-!
# C08 — Hash multimap equals the abstract key → value-list map

Property theorems only. Model: `Momo/Model/MMap.lean` (value array of `details/ArrayBucket.h`,
`HashMultiMap.h` on top of a key map, `stdish/unordered_multimap.h` decision logic); the key map run by
the driver is the C01 hash-table model `Momo/Model/HashTable.lean`. Lemmas: `Momo/Proof/MMap*.lean`.

Statement (properties.jsonl): after any history of add (by key or key position), key insertion, value
removal by position or predicate, removal of all values of a key, key removal, key reset, clear, copy,
move and swap, a hash multimap holds exactly the reference mapping from keys to value lists: per-key
value counts and order are exact, the total count equals the sum over keys, a key whose last value is
removed stays present with zero values until it is removed as a key, and traversal visits every
(key, value) pair exactly once. The std-style wrapper never exposes value-less keys: its count,
equal_range, erase and equality results depend only on the multiset of (key, value) pairs.
Quantifier: all histories × hash functions × bucket types × value-array fast counts 1..15 × keys with
0, 1, few and many values.

How the quantifier appears below: `ops : List Op2` = every history (with every fault outcome the
operations can meet); `K : KeyMap σ` with `L : K.Lawful` = every key-map implementation that meets the
key-map contract — for the hash-table model that is `htLawful sp hf ok`, for **every** bucket
description `sp` with `SpecOK` (all bucket types, `mkSpec_ok_c08`) and **every** hash function `hf`
(theorems `C08_ht_*`); `mf` with `1 ≤ mf < 16` = every value-array fast count; value lists are arbitrary
lists, so keys with 0, 1, few and many values are all covered.
-/
namespace Momo.MMap
open Momo

/-! ## The value array: state byte and representation machine -/

/-- **State byte round trip for all maxFast ≤ 15.** For every `maxFastCount` the header admits
(`0 < maxFastCount < 16`) and every fast array state that can occur (`count ≤ pool index ≤ maxFastCount`):
`pvMakeState` fits into the byte, `pvGetMemPoolIndex` / `pvGetFastCount` recover pool index and count,
a fast state is never 0 (0 marks the heap array), and the in-place updates `state + 1` (room left in
the block) and `state - 1` (`RemoveBack`) equal the re-encoded state — no carry into the pool nibble. -/
theorem C08_state_byte_roundtrip (mf pool count : Nat) (hmf : mf < Extracted.abMaxFastLimit)
    (hp : pool ≤ mf) (hc : count ≤ pool) :
    mkState pool count < 256 ∧ statePool (mkState pool count) = pool ∧ stateCount (mkState pool count) = count ∧
    (pool ≠ 0 → mkState pool count ≠ 0) ∧
    (count < pool → toByte (mkState pool count + 1) = mkState pool (count + 1)) ∧
    (0 < count → toByte (mkState pool count + 255) = mkState pool (count - 1)) :=
  state_facts pool count (by omega) (by omega)

/-- **Value array = list, for every history.** Starting from the empty array, after any sequence of
`AddBackCrt`, `Remove` (position, with or without a failing shrink), `RemoveAll`, copy construction and
predicate scans, for every fast count `1 ≤ mf ≤ 15`: the representation invariant holds and the visible
contents (`GetBounds`) are exactly what the same operations do to a plain list — order included. -/
theorem C08_value_array_refines (mf : Nat) (h1 : 1 ≤ mf) (hmf : mf < Extracted.abMaxFastLimit) (ops : List VOp) :
    (ops.foldl (VArr.step mf) VArr.empty).WF mf ∧
    (ops.foldl (VArr.step mf) VArr.empty).bounds = ops.foldl listStep [] := by
  suffices H : ∀ (a : VArr) (l : List Nat), a.WF mf → a.bounds = l →
      (ops.foldl (VArr.step mf) a).WF mf ∧ (ops.foldl (VArr.step mf) a).bounds = ops.foldl listStep l from
    H VArr.empty [] (VArr.empty_wf mf) rfl
  induction ops with
  | nil => intro a l h e; exact ⟨h, e⟩
  | cons op ops ih =>
    intro a l h e
    obtain ⟨s1, s2⟩ := VArr.step_spec h1 hmf a h op
    simp only [List.foldl_cons]
    exact ih _ _ s1 (by rw [s2, e])

/-- **What the representation tag means** (read by the harness from the real object): in every
well-formed array `mPtr == nullptr` iff there are no values; a fast array has
`1 ≤ count ≤ pool index ≤ maxFastCount` (the items fit the pool block) and its state byte is the
non-zero encoding of (pool, count); a heap array has `1 ≤ count ≤ capacity`. -/
theorem C08_value_array_rep (mf : Nat) (hmf : mf < Extracted.abMaxFastLimit) (a : VArr) (h : a.WF mf) :
    (a.rep = .none ↔ a.bounds = []) ∧
    (match a.rep with
     | .none => a.count = 0
     | .fast s => a.count = stateCount s ∧ 1 ≤ stateCount s ∧ stateCount s ≤ statePool s ∧ statePool s ≤ mf
                  ∧ s = mkState (statePool s) (stateCount s) ∧ s < 256 ∧ s ≠ 0
     | .heap cap => 1 ≤ a.count ∧ a.count ≤ cap) :=
  ⟨h.none_iff hmf, h.fits hmf⟩

/-! ## The multimap: refinement to `Key → Option (List Value)` -/

section generic
variable {σ : Type} (K : KeyMap σ) (L : K.Lawful) (mf : Nat)

/-- **Main theorem (every history, two objects).** Start with two empty multimaps `a`, `b`. Run any
history of: Add by key / by key position (with any fault the key map or the value array can meet),
InsertKey / AddKeyCrt, Remove(key position, value index), Remove(predicate), RemoveValues, RemoveKey,
ResetKey, Clear on `a`, and copy (`b = a`), move (`b = std::move(a)`) and swap between them. Then both
objects satisfy the invariant (key-map invariant, all value arrays well formed, arrays only next to
present keys, `mValueCount` = sum of the per-key counts), and their abstractions are exactly what the
abstract operations on `Key → Option (List Value)` produce from the empty map — per-key value order
included (`AMap.step`: append, move-last-into-hole, …). -/
theorem C08_mm_refines (h1 : 1 ≤ mf) (hmf : mf < Extracted.abMaxFastLimit) (ops : List Op2)
    (hF : ∀ op ∈ ops, Op2.FOK K L op) :
    MM.Inv K L mf (runBoth K mf ops ((MM.empty K, MM.empty K), (fun _ => none, fun _ => none))).1.1 ∧
    MM.Inv K L mf (runBoth K mf ops ((MM.empty K, MM.empty K), (fun _ => none, fun _ => none))).1.2 ∧
    (MM.abs K (runBoth K mf ops ((MM.empty K, MM.empty K), (fun _ => none, fun _ => none))).1.1,
     MM.abs K (runBoth K mf ops ((MM.empty K, MM.empty K), (fun _ => none, fun _ => none))).1.2)
      = (runBoth K mf ops ((MM.empty K, MM.empty K), (fun _ => none, fun _ => none))).2 :=
  runBoth_spec K L mf h1 hmf ops _ hF (MM.empty_inv K L mf) (MM.empty_inv K L mf)
    (by simp only [MM.empty_abs K L])

/-- one step, from any state that satisfies the invariant (the induction step of the main theorem,
stated separately because the harness checks the implementation step by step) -/
theorem C08_step_refines (h1 : 1 ≤ mf) (hmf : mf < Extracted.abMaxFastLimit) (s : MM σ × MM σ)
    (hA : MM.Inv K L mf s.1) (hB : MM.Inv K L mf s.2) (op : Op2) (hF : Op2.FOK K L op) :
    MM.Inv K L mf (MM.step2 K mf s op).1.1 ∧ MM.Inv K L mf (MM.step2 K mf s op).1.2 ∧
    (MM.abs K (MM.step2 K mf s op).1.1, MM.abs K (MM.step2 K mf s op).1.2)
      = AMap.step2 (MM.abs K s.1, MM.abs K s.2) (MM.step2 K mf s op).2 op :=
  MM.step2_spec K L mf h1 hmf s hA hB op hF

/-- **Failed operations change nothing** (strong guarantee of `Add` / `InsertKey`): when the key map
refuses (allocation refused, table full) or the value array cannot allocate, the abstract map is
untouched and the invariant still holds. -/
theorem C08_failed_add_unchanged (h1 : 1 ≤ mf) (hmf : mf < Extracted.abMaxFastLimit) (m : MM σ)
    (hI : MM.Inv K L mf m) (k tg v : Nat) (f : HT.Faults) (hF : L.FOK f) (fv : Bool)
    (hfail : (MM.add K mf m k tg v f fv).2 ≠ .ok) :
    MM.Inv K L mf (MM.add K mf m k tg v f fv).1 ∧ MM.abs K (MM.add K mf m k tg v f fv).1 = MM.abs K m := by
  obtain ⟨i1, i2⟩ := MM.add_spec K L mf h1 hmf m hI k tg v f hF fv
  exact ⟨i1, by rw [i2, if_neg hfail]⟩

/-- **Total count = sum over keys** and **= number of pairs**: in every state that satisfies the
invariant `GetCount()` equals the sum of the value-list lengths over the keys of the key map and the
length of the pair traversal. -/
theorem C08_total_is_sum (m : MM σ) (hI : MM.Inv K L mf m) :
    m.count = ((K.keys m.km).map (fun k => (MM.vals K m k).length)).sum ∧ m.count = (MM.pairs K m).length := by
  refine ⟨?_, (MM.pairs_length K L mf m hI).symm⟩
  rw [hI.total]
  congr 1
  exact List.map_congr_left (fun k hk => by rw [MM.vals_of_mem K hk])

/-- **A key whose last value is removed stays present with zero values**: removal by position of the
only value, `RemoveValues`, and a predicate scan that removes everything all leave `some []`
(present, no values) — never `none`. -/
theorem C08_key_stays_after_last_value (hmf : mf < Extracted.abMaxFastLimit) (m : MM σ) (hI : MM.Inv K L mf m)
    (k v : Nat) (hk : MM.abs K m k = some [v]) (sf : Bool) (p : Nat → Nat → Bool) (hp : p k v = true) :
    MM.abs K (MM.removeValue K m k 0 sf) k = some [] ∧
    MM.abs K (MM.removeValues K m k) k = some [] ∧
    MM.abs K (MM.removeIf K m p).1 k = some [] ∧
    K.has (MM.removeValue K m k 0 sf).km k = true := by
  have hmem : k ∈ K.keys m.km := by
    apply Decidable.byContradiction; intro h; rw [MM.abs_of_not_mem K h] at hk; cases hk
  have hb : (getArr m.arrs k).bounds = [v] := by
    rw [MM.abs_of_mem K hmem] at hk; exact Option.some.inj hk
  obtain ⟨r1, r2, _⟩ := MM.removeValue_spec K L mf hmf m hI k 0 sf hmem (by rw [hb]; simp)
  obtain ⟨_, v2⟩ := MM.removeValues_spec K L mf hmf m hI k
  obtain ⟨_, p2, _⟩ := MM.removeIf_spec K L mf hmf m hI p
  refine ⟨?_, ?_, ?_, ?_⟩
  · rw [r2]; simp [AMap.removeValue, hk, swapRemove]
  · rw [v2]; simp [AMap.removeValues, hk]
  · rw [p2]; simp [AMap.removeIf, hk, swapFilter, hp, swapRemove]
  · have : MM.abs K (MM.removeValue K m k 0 sf) k = some [] := by
      rw [r2]; simp [AMap.removeValue, hk, swapRemove]
    apply (L.has_iff _ k r1.km).mpr
    apply Decidable.byContradiction; intro h; rw [MM.abs_of_not_mem K h] at this; cases this

/-- **… until it is removed as a key**: the only operations after which a present key is absent are
`RemoveKey` of that key and `Clear`; every other operation (successful or failed) keeps every present
key present, whatever happens to its values. -/
theorem C08_key_persists (h1 : 1 ≤ mf) (hmf : mf < Extracted.abMaxFastLimit) (m : MM σ) (hI : MM.Inv K L mf m)
    (op : Op) (hF : Op.FOK K L op) (k : Nat) (hk : MM.abs K m k ≠ none)
    (hop : op ≠ .removeKey k ∧ op ≠ .clear) :
    MM.abs K (MM.step K mf m op).1 k ≠ none := by
  obtain ⟨_, i2⟩ := MM.step_spec K L mf h1 hmf m hI op hF
  rw [i2]
  cases hx : MM.abs K m k with
  | none => exact absurd hx hk
  | some l =>
    cases op with
    | add k' tg v f fv =>
      simp only [AMap.step]; split
      · simp only [AMap.add]; split <;> simp [hx]
      · simp [hx]
    | insertKey k' tg f =>
      simp only [AMap.step]; split
      · simp only [AMap.insertKey]; split <;> simp [hx]
      · simp [hx]
    | removeValue k' i sf =>
      simp only [AMap.step]; split
      · simp only [AMap.removeValue]; split
        · rename_i e; subst e; simp [hx]
        · simp [hx]
      · simp [hx]
    | removeValues k' =>
      simp only [AMap.step, AMap.removeValues]; split
      · rename_i e; subst e; simp [hx]
      · simp [hx]
    | removeKey k' =>
      simp only [AMap.step, AMap.removeKey]
      have : k ≠ k' := fun e => hop.1 (e ▸ rfl)
      simp [this, hx]
    | removeIf p => simp [AMap.step, AMap.removeIf, hx]
    | resetKey k' tg => simp [AMap.step, hx]
    | clear => exact absurd rfl hop.2

/-- **RemoveKey** returns the number of values the key had, removes exactly that key, and the total
drops by that number; **Remove(predicate)** returns the number of pairs that satisfied the predicate. -/
theorem C08_remove_results (hmf : mf < Extracted.abMaxFastLimit) (m : MM σ) (hI : MM.Inv K L mf m)
    (k : Nat) (p : Nat → Nat → Bool) :
    (MM.removeKey K m k).2 = (MM.vals K m k).length ∧
    (MM.removeKey K m k).1.count + (MM.removeKey K m k).2 = m.count ∧
    (MM.removeIf K m p).2 = (MM.pairs K m).countP (fun e => p e.1 e.2) ∧
    (MM.removeIf K m p).1.count + (MM.removeIf K m p).2 = m.count := by
  obtain ⟨_, _, k3, k4⟩ := MM.removeKey_spec K L mf hmf m hI k
  obtain ⟨_, _, _, p4⟩ := MM.removeIf_spec K L mf hmf m hI p
  obtain ⟨_, _, q3⟩ := MM.removeIf_pairs K L mf hmf m hI p
  exact ⟨k3, k4, q3, p4⟩

/-- **Traversal visits every (key, value) pair exactly once.** The pair iterator (`GetBegin`,
`operator++` with `pvMove` stepping over value-less keys, until the end) yields a sequence in which
every pair `(k, v)` occurs exactly as often as `v` occurs in the value list of `k` (so: once per stored
pair, never a pair of an absent or value-less key), and whose length is `GetCount()`. -/
theorem C08_traversal_once (hmf : mf < Extracted.abMaxFastLimit) (m : MM σ) (hI : MM.Inv K L mf m) :
    MM.iterAll K m = MM.pairs K m ∧
    (∀ k v, (MM.iterAll K m).count (k, v) = (MM.vals K m k).count v) ∧
    (MM.iterAll K m).length = m.count := by
  have e := MM.iterAll_eq K L mf hmf m hI
  exact ⟨e, fun k v => by rw [e]; exact MM.pairs_count K L mf m hI k v,
    by rw [e]; exact MM.pairs_length K L mf m hI⟩

/-! ## The std-style wrapper -/

/-- **The multiset of pairs ignores value-less keys**: two multimaps — even over different key-map
implementations, with different key orders and different value-less keys — hold the same multiset of
pairs iff for every key their value lists are rearrangements of each other, where a value-less key
and an absent key both have the empty list. -/
theorem C08_pairs_multiset {σ₂ : Type} (K₂ : KeyMap σ₂) (L₂ : K₂.Lawful) (m1 : MM σ) (m2 : MM σ₂)
    (h1 : MM.Inv K L mf m1) (h2 : MM.Inv K₂ L₂ mf m2) :
    (MM.pairs K m1).Perm (MM.pairs K₂ m2) ↔ ∀ k, (MM.vals K m1 k).Perm (MM.vals K₂ m2 k) :=
  MM.pairs_perm_iff K L mf K₂ L₂ m1 m2 h1 h2

/-- **count / equal_range / find** are functions of the multiset of pairs: `count(k)` is the number of
pairs with key `k`, `equal_range(k)` yields exactly those pairs (nothing for a value-less key, so
`find(k) == end()` iff no pair has the key). -/
theorem C08_wrapper_count_range (hmf : mf < Extracted.abMaxFastLimit) (m : MM σ) (hI : MM.Inv K L mf m) (k : Nat) :
    MM.wCount K m k = ((MM.pairs K m).filter (fun e => e.1 == k)).length ∧
    MM.wRange K m k = ((MM.pairs K m).filter (fun e => e.1 == k)).map (·.2) :=
  ⟨MM.wCount_eq K L mf hmf m hI k, MM.wRange_eq K L mf m hI k⟩

/-- **erase(key)** returns the number of pairs with the key and leaves exactly the other pairs. -/
theorem C08_wrapper_erase_key (hmf : mf < Extracted.abMaxFastLimit) (m : MM σ) (hI : MM.Inv K L mf m) (k : Nat) :
    MM.Inv K L mf (MM.wEraseKey K m k).1 ∧
    (MM.wEraseKey K m k).2 = ((MM.pairs K m).filter (fun e => e.1 == k)).length ∧
    (MM.pairs K (MM.wEraseKey K m k).1).Perm ((MM.pairs K m).filter (fun e => e.1 != k)) :=
  MM.wEraseKey_spec K L mf hmf m hI k

/-- **erase(iterator)**: exactly the addressed pair leaves the multiset (the key goes with its last
value, so the wrapper itself never creates a value-less key this way). -/
theorem C08_wrapper_erase_iterator (hmf : mf < Extracted.abMaxFastLimit) (m : MM σ) (hI : MM.Inv K L mf m)
    (k i v : Nat) (hk : k ∈ K.keys m.km) (hv : (getArr m.arrs k).bounds[i]? = some v) :
    MM.Inv K L mf (MM.wEraseAt K m k i) ∧
    (MM.pairs K (MM.wEraseAt K m k i)).Perm ((MM.pairs K m).erase (k, v)) ∧
    ((getArr m.arrs k).count = 1 → K.has (MM.wEraseAt K m k i).km k = false) := by
  obtain ⟨i1, i2⟩ := MM.wEraseAt_spec K L mf hmf m hI k i v hk hv
  refine ⟨i1, i2, ?_⟩
  intro hone
  have hh := (L.has_iff _ k hI.km).mpr hk
  obtain ⟨d1, d2⟩ := L.del_ok m.km k hI.km hh
  have hnd : (k :: K.keys (K.del m.km k)).Nodup := d2.nodup_iff.mpr (L.nodup _ hI.km)
  have hnot : k ∉ K.keys (K.del m.km k) := (List.nodup_cons.mp hnd).1
  simp only [MM.wEraseAt, hone, if_true, MM.removeKey, hh]
  cases hb : K.has (K.del m.km k) k with
  | false => rfl
  | true => exact absurd ((L.has_iff _ k d1).mp hb) hnot

/-- **erase(first, last)**: whenever the range `[i, j)` of the traversal is accepted, exactly its pairs
leave the multiset (accepted: empty, one element, exactly one key's whole group, the whole container —
`MM.wEraseRange`; anything else is `std::invalid_argument` and changes nothing). -/
theorem C08_wrapper_erase_range (hmf : mf < Extracted.abMaxFastLimit) (m m' : MM σ) (hI : MM.Inv K L mf m)
    (i j : Nat) (h : MM.wEraseRange K m i j = some m') :
    MM.Inv K L mf m' ∧ (MM.pairs K m').Perm ((MM.pairs K m).take i ++ (MM.pairs K m).drop j) :=
  MM.wEraseRange_spec K L mf hmf m m' hI i j h

/-- **erase_if**: exactly the pairs that satisfy the predicate leave; their number is returned (this is
the operation that leaves value-less keys behind the wrapper). -/
theorem C08_wrapper_erase_if (hmf : mf < Extracted.abMaxFastLimit) (m : MM σ) (hI : MM.Inv K L mf m)
    (p : Nat → Nat → Bool) :
    MM.Inv K L mf (MM.removeIf K m p).1 ∧
    (MM.pairs K (MM.removeIf K m p).1).Perm ((MM.pairs K m).filter (fun e => !p e.1 e.2)) ∧
    (MM.removeIf K m p).2 = (MM.pairs K m).countP (fun e => p e.1 e.2) :=
  MM.removeIf_pairs K L mf hmf m hI p

/-- **operator==** is `true` exactly when both containers hold the same multiset of pairs (the repaired
F4: value-less keys, key order and per-key value order have no influence). -/
theorem C08_wrapper_eq (hmf : mf < Extracted.abMaxFastLimit) (m1 m2 : MM σ)
    (h1 : MM.Inv K L mf m1) (h2 : MM.Inv K L mf m2) :
    MM.wEq K m1 m2 = true ↔ (MM.pairs K m1).Perm (MM.pairs K m2) :=
  MM.wEq_iff K L mf hmf m1 m2 h1 h2

/-- **The wrapper's answers depend only on the multiset of pairs**: two states with the same multiset
of pairs (whatever their value-less keys, key order, value order, representation of the arrays) give
the same `count`, `equal_range` contents (as multisets), `erase(key)` result and remaining multiset,
`erase_if` result and remaining multiset, and compare equal to the same third container. -/
theorem C08_wrapper_depends_only_on_pairs (hmf : mf < Extracted.abMaxFastLimit) (m1 m2 m3 : MM σ)
    (h1 : MM.Inv K L mf m1) (h2 : MM.Inv K L mf m2) (h3 : MM.Inv K L mf m3)
    (hp : (MM.pairs K m1).Perm (MM.pairs K m2)) (k : Nat) (p : Nat → Nat → Bool) :
    MM.wCount K m1 k = MM.wCount K m2 k ∧
    (MM.wRange K m1 k).Perm (MM.wRange K m2 k) ∧
    (MM.wEraseKey K m1 k).2 = (MM.wEraseKey K m2 k).2 ∧
    (MM.pairs K (MM.wEraseKey K m1 k).1).Perm (MM.pairs K (MM.wEraseKey K m2 k).1) ∧
    (MM.removeIf K m1 p).2 = (MM.removeIf K m2 p).2 ∧
    (MM.pairs K (MM.removeIf K m1 p).1).Perm (MM.pairs K (MM.removeIf K m2 p).1) ∧
    MM.wEq K m1 m3 = MM.wEq K m2 m3 := by
  obtain ⟨c1, r1⟩ := C08_wrapper_count_range K L mf hmf m1 h1 k
  obtain ⟨c2, r2⟩ := C08_wrapper_count_range K L mf hmf m2 h2 k
  obtain ⟨_, e1, f1⟩ := MM.wEraseKey_spec K L mf hmf m1 h1 k
  obtain ⟨_, e2, f2⟩ := MM.wEraseKey_spec K L mf hmf m2 h2 k
  obtain ⟨_, g1, n1⟩ := MM.removeIf_pairs K L mf hmf m1 h1 p
  obtain ⟨_, g2, n2⟩ := MM.removeIf_pairs K L mf hmf m2 h2 p
  refine ⟨?_, ?_, ?_, ?_, ?_, ?_, ?_⟩
  · rw [c1, c2]; exact (hp.filter _).length_eq
  · rw [r1, r2]; exact (hp.filter _).map _
  · rw [e1, e2]; exact (hp.filter _).length_eq
  · exact f1.trans ((hp.filter _).trans f2.symm)
  · rw [n1, n2]; exact hp.countP_eq _
  · exact g1.trans ((hp.filter _).trans g2.symm)
  · have a := MM.wEq_iff K L mf hmf m1 m3 h1 h3
    have b := MM.wEq_iff K L mf hmf m2 m3 h2 h3
    cases hx : MM.wEq K m1 m3 with
    | true =>
      have := a.mp hx
      exact (b.mpr (hp.symm.trans this)).symm
    | false =>
      cases hy : MM.wEq K m2 m3 with
      | false => rfl
      | true =>
        have := b.mp hy
        rw [a.mpr (hp.trans this)] at hx; cases hx

end generic

/-! ## The instance the driver runs: the C01 hash-table model, all bucket types × all hash functions -/

/-- **Every bucket type × every hash function × every fast count.** For the key map the correspondence
harness runs — the C01 model with any bucket description satisfying `SpecOK` (all kinds built by
`Driver.HashTable.mkSpec`, see `mkSpec_ok_c08`) and any hash function — every history keeps the
invariant and refines the abstract map. Faults covered: refused bucket array, failing element
creation, full table, interrupted migration (`relocStop`, for bucket kinds whose lookup consults all
generations), refused value-array allocation, failing shrink. -/
theorem C08_ht_refines (sp : HT.Spec) (hf : Nat → Nat) (ok : HT.SpecOK sp) (mf : Nat) (h1 : 1 ≤ mf)
    (hmf : mf < Extracted.abMaxFastLimit) (ops : List Op2)
    (hF : ∀ op ∈ ops, Op2.FOK (htKeyMap sp hf) (htLawful sp hf ok) op) :
    let r := runBoth (htKeyMap sp hf) mf ops ((MM.empty (htKeyMap sp hf), MM.empty (htKeyMap sp hf)), (fun _ => none, fun _ => none))
    MM.Inv (htKeyMap sp hf) (htLawful sp hf ok) mf r.1.1 ∧ MM.Inv (htKeyMap sp hf) (htLawful sp hf ok) mf r.1.2 ∧
    (MM.abs (htKeyMap sp hf) r.1.1, MM.abs (htKeyMap sp hf) r.1.2) = r.2 :=
  C08_mm_refines (htKeyMap sp hf) (htLawful sp hf ok) mf h1 hmf ops hF

/-- the bucket descriptions of the C08 harness (LimP4<n>, Open8, Open2N2<n> — the latter is what
`HashBucketOpen8` becomes for hashes that are not "fast") satisfy `SpecOK` for every item size,
alignment, hash-code-part setting and start size -/
theorem C08_ht_specs_ok (kind : String) (hk : kind = "LimP4" ∨ kind = "Open8" ∨ kind = "Open2N2")
    (n isz ial : Nat) (part fast reloc : Bool) (fullFrom logStart : Nat) (hn : 0 < n) :
    HT.SpecOK (Driver.HashTable.mkSpec kind n isz ial part fast reloc fullFrom logStart) :=
  mkSpec_ok_c08 kind hk n isz ial part fast reloc fullFrom logStart hn

/-- the reference key map (association list) meets the contract too: the contract is satisfiable by a
trivially correct implementation, and the theorems above hold for it without any assumption -/
theorem C08_list_refines (mf : Nat) (h1 : 1 ≤ mf) (hmf : mf < Extracted.abMaxFastLimit) (ops : List Op2) :
    let r := runBoth listKeyMap mf ops ((MM.empty listKeyMap, MM.empty listKeyMap), (fun _ => none, fun _ => none))
    MM.Inv listKeyMap listLawful mf r.1.1 ∧ MM.Inv listKeyMap listLawful mf r.1.2 ∧
    (MM.abs listKeyMap r.1.1, MM.abs listKeyMap r.1.2) = r.2 :=
  C08_mm_refines listKeyMap listLawful mf h1 hmf ops (fun op _ => by
    cases op with
    | onA o => cases o <;> trivial
    | copyTo => trivial
    | moveTo => trivial
    | swap => trivial)

/-! ## Non-vacuity: concrete, non-trivial states meeting the hypotheses -/

/-- key map of the examples: LimP4<4> buckets, 16-byte items, start size 2^1, identity hash -/
def exSpec : HT.Spec := Driver.HashTable.mkSpec "LimP4" 4 16 8 false true true 4 1
theorem exSpec_ok : HT.SpecOK exSpec := mkSpec_ok_c08 "LimP4" (Or.inl rfl) 4 16 8 false true true 4 1 (by decide)
def exK : KeyMap HT.Table := htKeyMap exSpec id

/-- a history that reaches every representation with `maxFastCount = 2`: key 5 gets 5 values
(none → fast 1 → fast 2 → heap 4 → heap 8), key 7 one value, key 9 none; then a removal by position,
a predicate removal that empties key 7, a copy, a key removal, a swap -/
def exOps : List Op2 :=
  [.onA (.add 5 1 100 {} false), .onA (.add 5 1 101 {} false), .onA (.add 5 1 102 {} false),
   .onA (.add 5 1 103 {} false), .onA (.add 5 1 104 {} false), .onA (.add 7 2 200 {} false),
   .onA (.insertKey 9 3 {}), .onA (.add 5 0 105 {} true), .onA (.removeValue 5 0 false),
   .onA (.removeIf (fun _ v => v % 100 == 0)), .copyTo, .onA (.removeKey 5), .swap]

example : ∀ op ∈ exOps, Op2.FOK exK (htLawful exSpec id exSpec_ok) op := by
  intro op h
  simp only [exOps, List.mem_cons, List.mem_nil_iff, or_false] at h
  rcases h with rfl | rfl | rfl | rfl | rfl | rfl | rfl | rfl | rfl | rfl | rfl | rfl | rfl <;>
    first | trivial | exact (fun _ => rfl)

/-- the state the history ends in: `a` (the former copy) holds key 5 with 4 values in a heap array and
the value-less keys 7 and 9; `b` holds the value-less keys 7 and 9 only -/
example :
    let r := runBoth exK 2 exOps ((MM.empty exK, MM.empty exK), (fun _ => none, fun _ => none))
    (exK.keys r.1.1.km).map (fun k => (k, (getArr r.1.1.arrs k).rep, (getArr r.1.1.arrs k).bounds))
      = [(5, .heap 4, [104, 101, 102, 103]), (7, .none, []), (9, .none, [])] ∧
    r.1.1.count = 4 ∧ r.1.2.count = 0 ∧ (exK.keys r.1.2.km) = [7, 9] ∧
    [5, 7, 9, 11].map r.2.1 = [some [104, 101, 102, 103], some [], some [], none] := by decide

/-- the wrapper on that state: `count`, `equal_range`, `==` against a differently ordered container -/
example :
    let r := runBoth exK 2 exOps ((MM.empty exK, MM.empty exK), (fun _ => none, fun _ => none))
    MM.wCount exK r.1.1 5 = 4 ∧ MM.wCount exK r.1.1 7 = 0 ∧ MM.wRange exK r.1.1 7 = [] ∧
    MM.wEq exK r.1.1 r.1.2 = false ∧
    MM.wEq exK (MM.removeKey exK r.1.1 5).1 r.1.2 = true := by decide

/-- state byte examples: fast pool 15 with 15 items is 0xFF; pool 3 with 2 items is 0x32 -/
example : mkState 15 15 = 255 ∧ mkState 3 2 = 50 ∧ statePool 50 = 3 ∧ stateCount 50 = 2 := by decide

/-- a value array with `maxFastCount = 1` after 3 additions and a removal: heap array of capacity 2 -/
example : ([VOp.add 1, .add 2, .add 3, .removeAt 0 false].foldl (VArr.step 1) VArr.empty)
    = ⟨.heap 4, [3, 2]⟩ := by decide

/-! ### The code itself, not only the hand-written model (T1b)

`Momo.Tr.*` are Lean definitions regenerated on every check by tools/translate.py from the *function bodies* in the
current headers (area Misc: tools/trspecs/Misc.py → `Momo/Translated/Misc.lean`; C++ integer semantics explicit: `size_t`
wrap-around, promotion of the state byte to `int` and truncation back to `uint8_t`). Equivalences with the model:
`Proof/TrEqMisc2Bucket.lean`. -/

/-- **State byte round trip for the code as translated from details/ArrayBucket.h.** `pvMakeState`, `pvGetMemPoolIndex`,
`pvGetFastCount` as translated are the model's `mkState / statePool / stateCount`; for every `maxFastCount < 16` and every
fast state that can occur the translated decoders recover pool index and count from the translated encoder, a fast state is
never 0, and the translated in-place updates `pvSetState(pvGetState() + 1)` (AddBackCrt) and `pvSetState(pvGetState() - 1)`
(RemoveBack; an `int` subtraction truncated to a byte) equal the re-encoded state. -/
theorem C08_state_byte_roundtrip_translated (mf pool count : Nat) (hmf : mf < Extracted.abMaxFastLimit)
    (hp : pool ≤ mf) (hc : count ≤ pool) :
    Tr.ab_pvMakeState pool count < 256 ∧
    Tr.ab_pvGetMemPoolIndex (Tr.ab_pvMakeState pool count) = pool ∧
    Tr.ab_pvGetFastCount (Tr.ab_pvMakeState pool count) = count ∧
    (pool ≠ 0 → Tr.ab_pvMakeState pool count ≠ 0) ∧
    (count < pool → Tr.ab_AddBack_incState (Tr.ab_pvMakeState pool count) = Tr.ab_pvMakeState pool (count + 1)) ∧
    (0 < count → Tr.ab_RemoveBack_decState (Tr.ab_pvMakeState pool count) = Tr.ab_pvMakeState pool (count - 1)) := by
  simp only [TrEq.tr_mkState, TrEq.tr_statePool, TrEq.tr_stateCount, TrEq.tr_incState, TrEq.tr_decState]
  exact C08_state_byte_roundtrip mf pool count hmf hp hc

/-- **`AddBackCrt` / `RemoveBack` with the translated arithmetic.** The value-array operations `C08_value_array_refines` is
about (`VArr.addBack`, `VArr.removeBack`) choose pool, state byte, first heap capacity (`maxFastCount * 2`) and the shrink
rule (`2 < count && count <= capacity / 4` → `Shrink(count * 2)`) exactly as the code translated from the header does. -/
theorem C08_value_array_ops_translated (mf : Nat) (hmf : mf < Extracted.abMaxFastLimit) (a : VArr) (v : Nat) (shrinkFails : Bool)
    (hlen : a.items.length < 2 ^ 63) :
    VArr.addBack mf a v =
      (match a.rep with
      | .none => ⟨.fast (Tr.ab_pvMakeState (Tr.ab_pvGetFastMemPoolIndex 1) 1), [v]⟩
      | .fast s =>
        if Tr.ab_pvGetFastCount s = Tr.ab_pvGetMemPoolIndex s then
          if Tr.ab_pvGetFastCount s + 1 ≤ mf then
            ⟨.fast (Tr.ab_pvMakeState (Tr.ab_pvGetFastMemPoolIndex (Tr.ab_pvGetFastCount s + 1)) (Tr.ab_pvGetFastCount s + 1)),
              a.items.take (Tr.ab_pvGetFastCount s) ++ [v]⟩
          else ⟨.heap (Tr.ab_AddBack_heapCap mf), a.items.take (Tr.ab_pvGetFastCount s) ++ [v]⟩
        else ⟨.fast (Tr.ab_AddBack_incState s), a.items.take (Tr.ab_pvGetFastCount s) ++ [v]⟩
      | .heap cap =>
        if a.items.length < cap then ⟨.heap cap, a.items ++ [v]⟩
        else ⟨.heap (growCap cap (a.items.length + 1)), a.items ++ [v]⟩) ∧
    VArr.removeBack a shrinkFails =
      (if a.count = 1 then VArr.empty
      else
        match a.rep with
        | .none => a
        | .fast s => ⟨.fast (Tr.ab_RemoveBack_decState s), a.items.take (Tr.ab_pvGetFastCount s - 1)⟩
        | .heap cap =>
          if Tr.ab_RemoveBack_shrinkCond a.items.length cap = true ∧ shrinkFails = false then
            ⟨.heap (shrinkCap cap (a.items.length - 1) (Tr.ab_RemoveBack_shrinkCap a.items.length)), a.items.dropLast⟩
          else ⟨.heap cap, a.items.dropLast⟩) := by
  simp only [Extracted.abMaxFastLimit] at hmf
  exact ⟨TrEq.addBack_translated mf (by omega) a v, TrEq.removeBack_translated a shrinkFails hlen⟩

example : Tr.ab_pvMakeState 15 15 = 255 ∧ Tr.ab_pvMakeState 3 2 = 50 ∧ Tr.ab_pvGetMemPoolIndex 50 = 3 ∧ Tr.ab_pvGetFastCount 50 = 2 ∧
    Tr.ab_RemoveBack_decState 50 = 49 ∧ Tr.ab_AddBack_incState 49 = 50 ∧ Tr.ab_RemoveBack_shrinkCond 4 16 = true := by decide

/-! #### second wave (tools/trspecs/Wave2.py → `Momo/Translated/Wave2.lean`; equivalences: `Proof/TrEqWave2MMap.lean`) -/

/-- **The branch tests of the value array, from the header text.** `AddBackCrt` of the model with every test
(`count == memPoolIndex`, `newCount <= maxFastCount`) and every count (`newCount = 1`, `newCount = count + 1`) taken from the
translated details/ArrayBucket.h on top of the translated state-byte arithmetic of `C08_value_array_ops_translated`; the first
test of `RemoveBack` (`count == 1`); and the translated `memPoolIndex > 0` tells the representations apart: false on the state
byte written for a heap bucket (`uint8_t{0}`), true on the state byte of the first value. -/
theorem C08_value_array_tests_translated (mf : Nat) (hmf : mf < Extracted.abMaxFastLimit) (a : VArr) (v : Nat) (shrinkFails : Bool) :
    VArr.addBack mf a v =
      (match a.rep with
      | .none => ⟨.fast (Tr.ab_pvMakeState (Tr.ab_pvGetFastMemPoolIndex Tr.ab_AddBack_firstCount) Tr.ab_AddBack_firstCount), [v]⟩
      | .fast s =>
        if Tr.ab_AddBack_isFull (Tr.ab_pvGetFastCount s) (Tr.ab_pvGetMemPoolIndex s) = true then
          if Tr.ab_AddBack_staysFast mf (Tr.ab_AddBack_newCount (Tr.ab_pvGetFastCount s)) = true then
            ⟨.fast (Tr.ab_pvMakeState (Tr.ab_pvGetFastMemPoolIndex (Tr.ab_AddBack_newCount (Tr.ab_pvGetFastCount s)))
                (Tr.ab_AddBack_newCount (Tr.ab_pvGetFastCount s))),
              a.items.take (Tr.ab_pvGetFastCount s) ++ [v]⟩
          else ⟨.heap (Tr.ab_AddBack_heapCap mf), a.items.take (Tr.ab_pvGetFastCount s) ++ [v]⟩
        else ⟨.fast (Tr.ab_AddBack_incState s), a.items.take (Tr.ab_pvGetFastCount s) ++ [v]⟩
      | .heap cap =>
        if a.items.length < cap then ⟨.heap cap, a.items ++ [v]⟩
        else ⟨.heap (growCap cap (a.items.length + 1)), a.items ++ [v]⟩) ∧
    VArr.removeBack a shrinkFails =
      (if Tr.ab_RemoveBack_last a.count = true then VArr.empty else VArr.removeBack a shrinkFails) ∧
    Tr.ab_AddBack_isFast (Tr.ab_pvGetMemPoolIndex Tr.ab_AddBack_heapState) = false ∧
    Tr.ab_RemoveBack_isFast (Tr.ab_pvGetMemPoolIndex Tr.ab_AddBack_heapState) = false ∧
    Tr.ab_AddBack_isFast (Tr.ab_pvGetMemPoolIndex
      (Tr.ab_pvMakeState (Tr.ab_pvGetFastMemPoolIndex Tr.ab_AddBack_firstCount) Tr.ab_AddBack_firstCount)) = true := by
  simp only [Extracted.abMaxFastLimit] at hmf
  exact ⟨(TrEq.addBack_tests_translated mf (by omega) a v shrinkFails).1, (TrEq.addBack_tests_translated mf (by omega) a v shrinkFails).2,
    TrEq.tr_ab_rep_tests⟩

end Momo.MMap

/-! ## the ledger layer (`Momo/Model/MMLedger.lean`, C03 / C04 of `HashMultiMap`) refines the abstract map

The ledger model keeps, per key, the C08 value array next to the value objects and the heap block.  Its contents as an abstract
multimap: `St.abs st k = (getArr st.mm.arrs k).bounds` (`Proof/MMLedgerRefine.lean`). -/
namespace Momo.MML
open Momo Momo.HT Momo.MMap

/-- every value operation of the ledger model, when it answers `done ok` (`Clear`, `RemoveValues`: always), commutes with the
abstract operation on `Key → List Value`: `Add` appends at the end of the key's list, `Remove(keyIter, i)` moves the last value
into place `i` (`swapRemove`, the list-level specification of C08), `RemoveValues` / `RemoveKey` empty the key's list, `Clear`
empties every list, `InsertKey` / `ResetKey` change no list -/
def RefinesAt (cfg : Cfg) (hf : Nat → Nat) (st : St) : Prop :=
  (∀ k tg v f w, (addL cfg hf st k tg v f w).2.2 = .done .ok →
      (addL cfg hf st k tg v f w).1.abs = st.abs.set k (st.abs k ++ [v])) ∧
  (∀ k v f w, (addAtL cfg hf st k v f w).2.2 = .done .ok →
      (addAtL cfg hf st k v f w).1.abs = st.abs.set k (st.abs k ++ [v])) ∧
  (∀ k i f w, (removeValueL cfg hf st k i f w).2.2 = .done .ok →
      (removeValueL cfg hf st k i f w).1.abs = st.abs.set k (swapRemove (st.abs k) i)) ∧
  (∀ k w, (removeValuesL cfg hf st k w).1.abs = st.abs.set k []) ∧
  (∀ k f w, (removeKeyL cfg hf st k f w).2.2.1 = .done .ok → (removeKeyL cfg hf st k f w).1.abs = st.abs.set k []) ∧
  (∀ w, (clearL cfg st w).1.abs = fun _ => []) ∧
  (∀ k tg f w, (insertKeyL cfg hf st k tg f w).1.abs = st.abs) ∧
  (∀ k tg w, (resetKeyL cfg hf st k tg w).1.abs = st.abs)

/-- **the full statement** ("after any history … the container equals the abstract map", for the ledger model): in every state
reachable from two new containers, both containers refine the abstract operations.  NOT proved: it needs that reachable states
satisfy `St.Good` and `St.Tied` (distinct keys on the books, a key outside the key table has no array), i.e. the
lookup-after-update lemmas of the key table for `HTL`. -/
def C08_multimap_ledger_refines_spec : Prop :=
  ∀ (cfg : Cfg) (hf : Nat → Nat) (ops : List OpT), 1 ≤ cfg.mf → cfg.mf < Extracted.abMaxFastLimit →
    RefinesAt cfg hf (run cfg hf (Sys.init cfg) ops).a ∧ RefinesAt cfg hf (run cfg hf (Sys.init cfg) ops).b

/-- **proved part: one step from every state whose books are `Good`** (distinct keys, well-formed value arrays) **and `Tied`**
(no array for a key outside the key table), for every `maxFastCount` in `1 … 15` and every fault schedule of the step. -/
theorem C08_multimap_ledger_refines_spec_partial (cfg : Cfg) (hf : Nat → Nat) (st : St) (h1 : 1 ≤ cfg.mf)
    (hmf : cfg.mf < Extracted.abMaxFastLimit) (g : st.Good cfg) (ht : ∀ k, st.Tied cfg hf k) : RefinesAt cfg hf st :=
  ⟨fun k tg v f w hok => addL_abs cfg hf st k tg v f w h1 hmf g (ht k) hok,
   fun k v f w hok => addAtL_abs cfg hf st k v f w h1 hmf g hok,
   fun k i f w hok => removeValueL_abs cfg hf st k i f w hmf g hok,
   fun k w => removeValuesL_abs cfg hf st k w g (ht k),
   fun k f w hok => removeKeyL_abs cfg hf st k f w g hok,
   fun w => clearL_abs cfg st w,
   fun k tg f w => insertKeyL_abs cfg hf st k tg f w,
   fun k tg w => resetKeyL_abs cfg hf st k tg w⟩

/-- **`Add(key, value)` for one key** needs `Tied` for this key only: the new value is the last of the key's list, every other
list is untouched - whichever representation change (`fast -> bigger fast -> heap`, heap growth) the step made on the books. -/
theorem C08_multimap_ledger_add_appends (cfg : Cfg) (hf : Nat → Nat) (st : St) (k tg v : Nat) (f : Flt) (w : W) (h1 : 1 ≤ cfg.mf)
    (hmf : cfg.mf < Extracted.abMaxFastLimit) (g : st.Good cfg) (ht : st.Tied cfg hf k)
    (hok : (addL cfg hf st k tg v f w).2.2 = .done .ok) :
    (addL cfg hf st k tg v f w).1.abs k = st.abs k ++ [v] ∧ ∀ k', k' ≠ k → (addL cfg hf st k tg v f w).1.abs k' = st.abs k' := by
  rw [addL_abs cfg hf st k tg v f w h1 hmf g ht hok]
  exact ⟨by simp [Spec.set], fun k' hk => by simp [Spec.set, hk]⟩

/-- **the system of two containers, one step**: every operation of the ledger model except copy assignment and
`Remove(pairFilter)` (`Op.plain`) - `Add` into A or B, `Add(keyIter, …)`, `InsertKey`, `Remove(keyIter, i)`, `RemoveValues`,
`RemoveKey`, `ResetKey`, `Clear`, move assignment, `Swap` - with any fault schedule and any pool traffic, acts on the pair of
abstract multimaps as `absStep` says: the abstract operation if it answered "done", nothing otherwise. -/
theorem C08_multimap_ledger_step_refines_spec_partial (cfg : Cfg) (hf : Nat → Nat) (s : Sys) (o : OpT) (h1 : 1 ≤ cfg.mf)
    (hmf : cfg.mf < Extracted.abMaxFastLimit) (g : SysGood cfg hf s) (hp : o.op.plain = true) :
    (stepT cfg hf s o).1.abs = absStep (stepT cfg hf s o).2.ok s.abs o.op :=
  stepT_abs cfg hf s o h1 hmf g hp

/-- **the full statement for histories**: every history of plain operations from two new containers refines the fold of the
abstract operations.  NOT proved (the states passed through must be shown `SysGood`). -/
def C08_multimap_ledger_history_refines_spec : Prop :=
  ∀ (cfg : Cfg) (hf : Nat → Nat) (ops : List OpT), 1 ≤ cfg.mf → cfg.mf < Extracted.abMaxFastLimit →
    (∀ o ∈ ops, o.op.plain = true) →
    (run cfg hf (Sys.init cfg) ops).abs = absRun cfg hf (Sys.init cfg) (Sys.init cfg).abs ops

/-- **proved part: whole histories from any state, as long as the states passed through are `SysGood`** -/
theorem C08_multimap_ledger_history_refines_spec_partial (cfg : Cfg) (hf : Nat → Nat) (h1 : 1 ≤ cfg.mf)
    (hmf : cfg.mf < Extracted.abMaxFastLimit) (ops : List OpT) (s : Sys)
    (hg : ∀ pre, pre <+: ops → SysGood cfg hf (run cfg hf s pre)) (hp : ∀ o ∈ ops, o.op.plain = true) :
    (run cfg hf s ops).abs = absRun cfg hf s s.abs ops :=
  run_abs cfg hf h1 hmf ops s hg hp

/-- **`St.Good` discharged from reachability**: two new containers are `Good` (distinct keys on the books, every value array
well-formed) and every plain operation keeps both `Good`; so for histories FROM TWO NEW CONTAINERS only `Tied` (a key outside the
key table has no value array on the books - a fact about the key table's lookup after its updates, not proved) is asked of the
states passed through. -/
theorem C08_multimap_ledger_history_refines_spec_partial2 (cfg : Cfg) (hf : Nat → Nat) (h1 : 1 ≤ cfg.mf)
    (hmf : cfg.mf < Extracted.abMaxFastLimit) (ops : List OpT)
    (ht : ∀ pre, pre <+: ops → SysTied cfg hf (run cfg hf (Sys.init cfg) pre)) (hp : ∀ o ∈ ops, o.op.plain = true) :
    (run cfg hf (Sys.init cfg) ops).abs = absRun cfg hf (Sys.init cfg) (Sys.init cfg).abs ops :=
  run_abs_tied cfg hf h1 hmf ops (Sys.init cfg) (init_good cfg).1 (init_good cfg).2 ht hp

/-- one plain step keeps both containers `Good` (given `Tied` before the step) -/
theorem C08_multimap_ledger_good_preserved (cfg : Cfg) (hf : Nat → Nat) (s : Sys) (o : OpT) (h1 : 1 ≤ cfg.mf)
    (hmf : cfg.mf < Extracted.abMaxFastLimit) (ga : s.a.Good cfg) (gb : s.b.Good cfg) (t : SysTied cfg hf s)
    (hp : o.op.plain = true) : (stepT cfg hf s o).1.a.Good cfg ∧ (stepT cfg hf s o).1.b.Good cfg :=
  stepT_good cfg hf s o h1 hmf ga gb t.1 t.2 hp

/-! Non-vacuity: container A after six `Add`s (Open8-like key table, `maxFastCount = 2`: key 1 with five values in a heap array of
capacity 8, key 2 with one value in a fast block) is `Good`, key 1 is `Tied`; `Add(1, 99)` succeeds and appends. -/
def x8Cfg : Cfg :=
  { h := { sp := { maxCount := 7, quad := true, fullFrom := 7, unlimited := false, bound := .none, cap := .base, baseShift := true,
                   logStart := 1, nothrowReloc := true },
           cat := .nmove, hdr := 24, bsz := 120, psz := 8, csz := 16 },
    mf := 2, vcat := .nmove, isz := 8, vsz := 200 }
def x8Sys : Sys := run x8Cfg id (Sys.init x8Cfg)
  [{ op := .add false 1 0 10 {} }, { op := .add false 1 0 11 {} }, { op := .add false 1 0 12 {} }, { op := .add false 1 0 13 {} },
   { op := .add false 1 0 14 {} }, { op := .add false 2 0 20 {} }]
theorem x8_good : x8Sys.a.Good x8Cfg := by
  refine ⟨by decide +kernel, ?_⟩
  intro p hp
  have hm : p.2.arr ∈ x8Sys.a.vbs.map (·.2.arr) := List.mem_map_of_mem hp
  rw [show x8Sys.a.vbs.map (·.2.arr) = [⟨.fast 17, [20]⟩, ⟨.heap 8, [10, 11, 12, 13, 14]⟩] by decide +kernel] at hm
  simp only [List.mem_cons, List.not_mem_nil, or_false] at hm
  rcases hm with h | h <;> rw [h]
  · exact ⟨1, 1, by decide, by decide, by decide, by decide, rfl⟩
  · simp [VArr.WF]

example : x8Sys.a.abs 1 = [10, 11, 12, 13, 14] ∧ x8Sys.a.abs 2 = [20] ∧
    (addL x8Cfg id x8Sys.a 1 0 99 {} x8Sys.w).2.2 = .done .ok := by decide +kernel

example : (addL x8Cfg id x8Sys.a 1 0 99 {} x8Sys.w).1.abs 1 = [10, 11, 12, 13, 14, 99] :=
  (C08_multimap_ledger_add_appends x8Cfg id x8Sys.a 1 0 99 {} x8Sys.w (by decide) (by decide) x8_good
    (fun h => absurd h (by decide +kernel)) (by decide +kernel)).1.trans
    (by rw [show x8Sys.a.abs 1 = [10, 11, 12, 13, 14] by decide +kernel]; rfl)

/-- the conclusion of the history theorem on the six `Add`s, by evaluation -/
example : (absRun x8Cfg id (Sys.init x8Cfg) (Sys.init x8Cfg).abs
    [{ op := .add false 1 0 10 {} }, { op := .add false 1 0 11 {} }, { op := .add false 1 0 12 {} }, { op := .add false 1 0 13 {} },
     { op := .add false 1 0 14 {} }, { op := .add false 2 0 20 {} }]).1 1 = x8Sys.a.abs 1 := by decide +kernel

end Momo.MML
