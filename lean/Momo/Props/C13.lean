import Momo.Proof.ProbeAdd
import Momo.Proof.TrEqProbe
import Momo.Proof.TrEqOpenBytes
/-!
# C13 — Open-addressing lookups examine every slot where the key can be

Property theorems only. Models: `Momo/Model/Probe.lean`; lemmas: `Momo/Proof/Probe*.lean`.

Statement (properties.jsonl): the search bound recorded for a home bucket is never smaller than
the displacement of any element that was ever placed from that home bucket, for every
displacement value including those too large to store exactly; and the probe sequence visits
every bucket of a power-of-two table before insertion reports the table full. Hence a present key
is always found and an insertion fails only when no bucket has room.
-/
namespace Momo.Probe

/-- **C13 (a), Open2N2<1..3>.** For every sequence of `UpdateMaxProbe` calls with arbitrary 64-bit
probe values, in any order, the decoded bound `pvGetMaxProbe` is ≥ every probe ever recorded. -/
theorem C13_bound_open2n2 (ps : List Nat) (h : ∀ p ∈ ps, p < 2 ^ 64) :
    ∀ p ∈ ps, p ≤ (ps.foldl MP2.upd MP2.init).dec := by
  suffices H : ∀ (s : MP2), s.Ok → ∀ p, (p ∈ ps ∨ p ≤ s.dec) → p ≤ (ps.foldl MP2.upd s).dec by
    intro p hp; exact H MP2.init MP2.init_ok p (Or.inl hp)
  induction ps with
  | nil => intro s _ p hp; rcases hp with hp | hp; · cases hp
           · simpa using hp
  | cons a as ih =>
    intro s hs p hp
    obtain ⟨hok, hge, hmono⟩ := MP2.upd_ok s a hs (h a (by simp))
    simp only [List.foldl_cons]
    apply ih (fun q hq => h q (by simp [hq])) (s.upd a) hok p
    rcases hp with hp | hp
    · rcases List.mem_cons.mp hp with rfl | hp
      · exact Or.inr hge
      · exact Or.inl hp
    · exact Or.inr (Nat.le_trans hp hmono)

/-- the byte fields never overflow: mantissa ≤ 255 and exponent ≤ 57 < 64 (6 bits of `mState[1]`) -/
theorem C13_state_fits_open2n2 (ps : List Nat) (h : ∀ p ∈ ps, p < 2 ^ 64) :
    (ps.foldl MP2.upd MP2.init).m ≤ 255 ∧ (ps.foldl MP2.upd MP2.init).e ≤ 57 := by
  suffices H : ∀ (s : MP2), (s.m ≤ 255 ∧ s.e ≤ 57) → ((ps.foldl MP2.upd s).m ≤ 255 ∧ (ps.foldl MP2.upd s).e ≤ 57) by
    exact H MP2.init (by simp [MP2.init])
  induction ps with
  | nil => intro s hs; simpa using hs
  | cons a as ih =>
    intro s hs
    simp only [List.foldl_cons]
    exact ih (fun q hq => h q (by simp [hq])) _ (MP2.upd_fits s a hs (h a (by simp)))

/-- **C13 (a), OpenN1<1..7> and Open8.** Probes handed to `UpdateMaxProbe` are displacements inside a
table of `2^L` buckets (`pvAddNogrow` throws before `probe` reaches `bucketCount`), `L ≤ 64`.
`GetMaxProbe(L)` is ≥ every probe ever recorded — including those whose exponent does not fit
(`255` = unbounded). -/
theorem C13_bound_openN1 (L : Nat) (hL : L ≤ 64) (ps : List Nat) (h : ∀ p ∈ ps, p < 2 ^ L) :
    ∀ p ∈ ps, p ≤ getMax3 L (ps.foldl upd3 0) := by
  suffices H : ∀ (b : Nat), b < 256 → ∀ p, (p ∈ ps ∨ (p ≤ getMax3 L b ∧ p < 2 ^ L)) →
      p ≤ getMax3 L (ps.foldl upd3 b) by
    intro p hp; exact H 0 (by decide) p (Or.inl hp)
  induction ps with
  | nil => intro b _ p hp; rcases hp with hp | hp; · cases hp
           · simpa using hp.1
  | cons a as ih =>
    intro b hb p hp
    obtain ⟨hlt, hge, hmono⟩ := upd3_ok L b a hb (h a (by simp)) hL
    simp only [List.foldl_cons]
    apply ih (fun q hq => h q (by simp [hq])) (upd3 b a) hlt p
    rcases hp with hp | ⟨hp, hpl⟩
    · rcases List.mem_cons.mp hp with rfl | hp
      · exact Or.inr ⟨hge, h _ (by simp)⟩
      · exact Or.inl hp
    · refine Or.inr ⟨?_, hpl⟩
      -- the bound never shrinks below a legal probe it already covered
      unfold upd3
      split
      · exact hp
      · split
        · exact hp
        · rename_i h0 hh
          have hnb : b ≠ infProbeExp := fun e => hh (Or.inl e)
          have hpb : p ≤ dec3 b := by simpa [getMax3, hnb] using hp
          have : dec3 b < a := by omega
          have hge' : a ≤ getMax3 L (upd3 b a) := hge
          unfold upd3 at hge'
          simp only [h0, hh, if_false] at hge'
          omega

/-- **C13 (b).** Within the first `2^L` probes both probe sequences (linear: LimP*, One, OpenN1;
triangular: Open2N2, Open8) visit every bucket of a table with `2^L` buckets, whatever the home
bucket — for every `L` (no bound on the table size). -/
theorem C13_seq_visits_all (quad : Bool) (L home b : Nat) (hh : home < 2 ^ L) (hb : b < 2 ^ L) :
    ∃ p, p < 2 ^ L ∧ seqOf quad L home p = b :=
  seqOf_surj quad L home b hh hb

/-- **C13 (c).** The insertion loop of `pvAddNogrow` reports "Hash table is full" only when no
bucket has room; otherwise it returns the first non-full bucket of the probe sequence together
with its displacement `p < 2^L` (the value then passed to `UpdateMaxProbe`). -/
theorem C13_insert_fails_only_when_full (quad : Bool) (L : Nat) (isFull : Nat → Bool) (home : Nat)
    (hh : home < 2 ^ L) :
    (addProbe quad L isFull home = none → ∀ b, b < 2 ^ L → isFull b = true) ∧
    (∀ p idx, addProbe quad L isFull home = some (p, idx) →
        p < 2 ^ L ∧ idx = seqOf quad L home p ∧ isFull idx = false) := by
  have hs := addProbe_spec quad L isFull home
  constructor
  · intro hnone b hb
    rw [hnone] at hs
    obtain ⟨p, hp, rfl⟩ := seqOf_surj quad L home b hh hb
    exact hs p hp
  · intro p idx hsome
    rw [hsome] at hs
    exact ⟨hs.1, hs.2.1, hs.2.2.1⟩

/-- **C13 (d): a present key is always found.** If an element was placed at displacement `p` from
its home bucket and the home bucket's recorded bound covers `p` (which (a) guarantees), then the
lookup loop of `pvFind` examines the bucket that holds it. -/
theorem C13_lookup_examines (quad : Bool) (L home maxProbe p : Nat) (hp : p ≤ maxProbe) :
    seqOf quad L home p ∈ findSeq quad L home maxProbe := by
  unfold findSeq
  refine List.mem_map.mpr ⟨p, List.mem_range.mpr (by omega), ?_⟩
  cases quad <;> simp [seqOf]

/-! Non-vacuity: concrete states meeting the hypotheses. -/
example : (MP2.upd (MP2.upd MP2.init 300) 7).dec = 300 := by decide
example : ([300, 7, 100000].foldl MP2.upd MP2.init).dec = 100352 := by decide
example : getMax3 20 ([5, 9, 1000].foldl upd3 0) = 1024 := by decide
example : addProbe true 2 (fun i => i != 0) 1 = some (2, 0) := by decide
example : addProbe false 2 (fun _ => true) 1 = none := by decide

/-! ### The code itself, not only the hand-written model (T1b)

`Momo.Tr.*` are Lean definitions regenerated on every check by tools/translate.py from the *function bodies* in the
current headers (C++ integer semantics explicit: wrap-around of `size_t`, promotion and truncation of the byte fields,
the `while` loop). The theorems below are about those generated definitions. -/
/-- **C13 (a) for the code as translated from the header**: after any sequence of
`BucketOpen2N2::UpdateMaxProbe` calls (from the cleared state, any item-count bits `c`) with probes that are
displacements of a table (≤ 2^63), `pvGetMaxProbe` of the resulting bytes is ≥ every probe recorded. -/
theorem C13_bound_open2n2_translated (c : Nat) (hc : c < 4) (ps : List Nat) (h : ∀ p ∈ ps, p ≤ 2 ^ 63) :
    ∀ p ∈ ps, p ≤ Tr.open2n2_pvGetMaxProbe (TrEq.runOpen2N2 c ps).1 (TrEq.runOpen2N2 c ps).2 := by
  intro p hp
  obtain ⟨r1, r2, _, r4⟩ := TrEq.runOpen2N2_rel c hc ps h
  have hb := C13_bound_open2n2 ps (fun q hq => by have := h q hq; omega) p hp
  rw [TrEq.tr_open2n2_getMaxProbe _ _ r4.dec_lt]
  have hsh : (TrEq.runOpen2N2 c ps).2 >>> 2 = (TrEq.runOpen2N2 c ps).2 / 4 := by rw [Nat.shiftRight_eq_div_pow]
  rw [hsh]
  simp only [MP2.dec] at hb ⊢
  rw [r1, r2]; exact hb


/-- **C13 (a) for `BucketOpenN1` / `BucketOpen8` as translated from the header**: in a table of `2^L` buckets
(`L < 64`), after any sequence of `UpdateMaxProbe` calls with displacements `< 2^L`, `GetMaxProbe(L)` of the
resulting byte is ≥ every displacement recorded (255 = unbounded included). -/
theorem C13_bound_openN1_translated (L : Nat) (hL : L < 64) (ps : List Nat) (h : ∀ p ∈ ps, p < 2 ^ L) :
    ∀ p ∈ ps, p ≤ Tr.openN1_GetMaxProbe (TrEq.runOpenN1 ps) L := by
  intro p hp
  have h64 : ∀ q ∈ ps, q < 2 ^ 64 := fun q hq =>
    Nat.lt_of_lt_of_le (h q hq) (Nat.pow_le_pow_right (by decide) (by omega))
  obtain ⟨e, hlt⟩ := TrEq.runOpenN1_eq ps h64
  rw [TrEq.tr_openN1_getMaxProbe L _ hL hlt, e]
  exact C13_bound_openN1 L (by omega) ps h p hp



/-- non-vacuity: the translated code run on a concrete sequence (rounded bound 132096 covers 131073) -/
example : Tr.open2n2_pvGetMaxProbe (TrEq.runOpen2N2 1 [3, 300, 131073, 7]).1 (TrEq.runOpen2N2 1 [3, 300, 131073, 7]).2 = 132096 := by decide
example : Tr.openN1_GetMaxProbe (TrEq.runOpenN1 [3, 300, 9]) 10 = 320 := by decide

end Momo.Probe

/-! ## Byte level: `BucketOpenN1` / `BucketOpen8` (the in-bucket part of "a present key is always found")

Model `Momo/Model/OpenBytes.lean` (`Momo.OpenB`): the bytes `mData[0 .. maxCount]` of one bucket exactly as laid out in
HashBucketOpenN1.h (short hashes, the last logical slot doubling as state / count byte, max-probe byte), `ptCalcShortHash`,
`AddCrt`, `Remove` with its compaction, `IsFull` / `WasFull`, `Find` of `BucketOpenN1` (scalar loop, forward or reverse item
order) and of `BucketOpen8` (SSE2 movemask by the specification of the intrinsics; the 64-bit SWAR expression as written).
Lemmas: `Momo/Proof/OpenBytes*.lean`; run against the real bucket classes by `harness/c13_openbytes.cpp` (both `Find`
variants of `BucketOpen8` are compiled). -/
namespace Momo.OpenB

/-- **byte-level bucket invariant, every history.** From the constructed (or cleared) bucket, for every `maxCount` in 1..7, both
item orders and every sequence of legal `AddCrt` / `Remove` calls (the source's assertions: room left / item present; 64-bit
hash codes): the short-hash byte of every occupied slot is the short hash of the item there, every other slot holds the empty
marker, and the slot of the last logical index holds `emptyShortHash + count` until the bucket is full (`Bucket.Inv`, stated
through `expByte`). `hs` is the ghost content: the items' hash codes in storage order, which is the abstract bucket of C01. -/
theorem C13_openbytes_inv_history (mc : Nat) (rev : Bool) (h0 : 0 < mc) (h8 : mc < Extracted.openN1MaxCountLimit)
    (ops : List Op) (hl : legalHist mc [] ops) :
    (ops.foldl Bucket.step (Bucket.new mc rev)).Inv (ops.foldl absStep []) :=
  run_inv ops (Bucket.new mc rev) [] (new_inv mc rev h0 h8) hl

/-- **what the invariant says, slot by slot**: the count decoded from the state byte is the number of items, `IsFull` holds
exactly at `maxCount` items, an occupied slot holds its item's short hash, and the byte of a slot WITHOUT item (248, or the
count byte 248 .. 254) is not the short hash of any 64-bit hash code — `ptCalcShortHash` never reaches `emptyShortHash`. -/
theorem C13_openbytes_inv_meaning (b : Bucket) (hs : List Nat) (hI : b.Inv hs) :
    b.count = hs.length ∧ (b.isFull = true ↔ hs.length = b.maxCount) ∧
    (∀ j, j < b.maxCount → phys b.maxCount b.reverse j < hs.length →
        b.data j = calcShortHash (hs.getD (phys b.maxCount b.reverse j) 0)) ∧
    (∀ j, j < b.maxCount → ¬ phys b.maxCount b.reverse j < hs.length →
        ∀ h, h < 2 ^ 64 → b.data j ≠ calcShortHash h) ∧
    (∀ h, h < 2 ^ 64 → calcShortHash h < emptyShortHash) := by
  refine ⟨inv_count_eq hI, ?_, ?_, ?_, calcShortHash_lt⟩
  · rw [inv_isFull_eq hI]; simp
  · intro j hj hocc
    rw [hI.2.2.2.2 j hj]; unfold expByte; rw [if_pos hocc]
  · intro j hj hocc h hh e
    have := (cand_iff hI h hh j hj).mp (by rw [e]; simp)
    exact hocc this.1

/-- **`Find`, every scan order.** Under the invariant, for every 64-bit hash code, every predicate and EVERY order in which the
slots `< maxCount` might be scanned (`scan order` = test the slots of `order` whose byte equals the short hash, in that order):
(1) every slot tested holds an item whose short hash matches — a slot without item is never read as a candidate;
(2) a returned slot holds such an item and satisfies the predicate; (3) if some slot of the order does, the search succeeds;
(4) if exactly one slot does (distinct keys), every order returns it; (5) `BucketOpenN1::Find` is the scan of `0, 1, …`. -/
theorem C13_openbytes_find_every_order (b : Bucket) (hs : List Nat) (hI : b.Inv hs) (h : Nat) (hh : h < 2 ^ 64)
    (pred : Nat → Bool) (order : List Nat) (ho : ∀ p ∈ order, p < b.maxCount) :
    (∀ p ∈ order.filter (fun i => b.data i == calcShortHash h),
        phys b.maxCount b.reverse p < hs.length ∧ calcShortHash (itemAt b hs p) = calcShortHash h) ∧
    (∀ p, scan order b.data (calcShortHash h) pred = some p → p ∈ order ∧ Hit b hs h pred p) ∧
    (∀ p ∈ order, Hit b hs h pred p → (scan order b.data (calcShortHash h) pred).isSome = true) ∧
    (∀ p ∈ order, Hit b hs h pred p → (∀ q, Hit b hs h pred q → q = p) →
        scan order b.data (calcShortHash h) pred = some p) ∧
    b.findN1 h pred = scan (List.range b.maxCount) b.data (calcShortHash h) pred :=
  ⟨scan_cands_occupied hI h hh order ho, fun p => scan_sound hI h hh pred order ho p,
   fun p hp hit => scan_complete hI h hh pred order p hp hit,
   fun p hp hit hu => scan_unique hI h hh pred order ho p hp hit hu, findN1_eq b h pred⟩

/-- **the 64-bit SWAR expression of `BucketOpen8::Find`, bit level.** For every short-hash byte and every 8-byte word,
`(x - 0x0101010101010101) & ~x & 0x0080808080808080` with `x = (shortHash * 0x0101010101010101) ^ word`, all in 64-bit
arithmetic as written, has exactly the bits `8j + 7` of the FLAGGED lanes `j < 7` set, where lane `j` is flagged iff its byte
equals the short hash, or it equals `shortHash ^ 1` and lane `j - 1` is flagged (`swarFlag`: the borrow of the subtraction
leaves a matching lane and enters a lane that differs in bit 0 only). -/
theorem C13_open8_swar_mask (sh : Nat) (hsh : sh < 256) (d : Nat → Nat) (hd : ∀ j, j < 8 → d j < 256) :
    swarMask sh (word8 d) =
      ofLanes [128 * b2n (swarFlag sh d 0), 128 * b2n (swarFlag sh d 1), 128 * b2n (swarFlag sh d 2),
               128 * b2n (swarFlag sh d 3), 128 * b2n (swarFlag sh d 4), 128 * b2n (swarFlag sh d 5),
               128 * b2n (swarFlag sh d 6), 0] :=
  swarMask_eq sh hsh d hd

/-- the set specification the SWAR mask is compared with: a matching lane is always flagged, a flagged lane holds the short
hash or its bit-0 neighbour, and the LOWEST flagged lane always matches -/
theorem C13_open8_swar_flags (sh : Nat) (d : Nat → Nat) (j : Nat) :
    ((d j == sh) = true → swarFlag sh d j = true) ∧
    (swarFlag sh d j = true → d j = sh ∨ d j = sh ^^^ 1) ∧
    (swarFlag sh d j = true → (∀ i, i < j → swarFlag sh d i = false) → d j = sh) :=
  ⟨exact_imp_flag sh d j, flag_imp sh d j, flag_first_exact sh d j⟩

/-- **`BucketOpen8::Find`, both variants, against the scalar scan of `BucketOpenN1<., 7, false>`.**
SSE2 (mask = set of lanes equal to the short hash, the specified meaning of `_mm_cmpeq_epi8` + `_mm_movemask_epi8`): the
`ctz` / `mask &= mask - 1` loop visits exactly the candidates of the scalar loop in the same order, so the two searches
coincide for every bucket and every predicate.
SWAR: the loop visits the flagged lanes in ascending order — a superset of the scalar candidates (`C13_open8_swar_not_exact`
shows it can be a proper one); in a bucket satisfying the invariant every flagged lane, the false candidates included, holds
an item (never a slot without item), and for every predicate that can only hold where the short-hash byte matches
(equal keys have equal hash codes) the SWAR search returns exactly what the scalar search returns. -/
theorem C13_open8_find (b : Bucket) (h : Nat) (pred : Nat → Bool) :
    (ssePositions 32 (sseMask (calcShortHash h) b.data) = candsN1 b.data (calcShortHash h) 7 ∧
     (b.maxCount = 7 → b.find8sse h pred = b.findN1 h pred)) ∧
    ((∀ j, j < 8 → b.data j < 256) →
      swarPositions 64 (swarMask (calcShortHash h) (word8 b.data)) = (List.range 7).filter (swarFlag (calcShortHash h) b.data) ∧
      b.find8swar h pred = ((List.range 7).filter (swarFlag (calcShortHash h) b.data)).find? pred ∧
      candsN1 b.data (calcShortHash h) 7
        = ((List.range 7).filter (swarFlag (calcShortHash h) b.data)).filter (fun j => b.data j == calcShortHash h) ∧
      (b.maxCount = 7 → (∀ j, j < 7 → pred j = true → (b.data j == calcShortHash h) = true) →
        b.find8swar h pred = b.findN1 h pred)) ∧
    (∀ hs, b.Inv hs → h < 2 ^ 64 → ∀ j, j < b.maxCount → swarFlag (calcShortHash h) b.data j = true →
      phys b.maxCount b.reverse j < hs.length) := by
  refine ⟨⟨(find8sse_eq b h pred).2, fun hmc => ?_⟩, fun hd => ⟨(find8swar_eq b h pred hd).2, (find8swar_eq b h pred hd).1,
    cands7_eq_filter _ _, fun hmc hc => find8swar_eq_findN1 hmc hd h pred hc⟩, fun hs hI hh j hj hf => flag_occupied hI h hh j hj hf⟩
  rw [(find8sse_eq b h pred).1, findN1_eq, hmc]

/-- the eight bytes `247 248 248 247 246 249 249 247` (a state the harness reproduces on the real bucket), short hash 247 -/
def exWord : Nat → Nat := fun j => [247, 248, 248, 247, 246, 249, 249, 247].getD j 0

/-- **the SWAR variant does test a slot the scalar scan skips**: lane 4 holds `246 = 247 ^ 1` above the matching lane 3 -/
theorem C13_open8_swar_not_exact :
    swarPositions 64 (swarMask 247 (word8 exWord)) = [0, 3, 4] ∧ candsN1 exWord 247 7 = [0, 3] ∧
    ssePositions 32 (sseMask 247 exWord) = [0, 3] := by decide +kernel

/-! ### the byte-level code itself (T1b): `Momo.Tr.openN1_*`, `Momo.Tr.open8_*` are regenerated from the headers on every check -/

/-- **the invariant for the bytes the TRANSLATED `AddCrt` / `Remove` write**: along every legal history from the constructed
bucket, the byte array computed by `Tr.openN1_AddCrt` / `Tr.openN1_Remove` (which use the translated `pvGetCount`, `pvGetState`,
`pvGetShortHash` index, `ptCalcShortHash`) holds at every slot the byte the invariant prescribes for the abstract content, and the
translated `pvGetCount` / `IsFull` / `WasFull` read the item count / fullness / `true` off those bytes. -/
theorem C13_openbytes_inv_history_translated (mc : Nat) (rev : Bool) (h0 : 0 < mc) (h8 : mc < Extracted.openN1MaxCountLimit)
    (ops : List Op) (hl : legalHist mc [] ops) :
    (∀ j, j < mc → ops.foldl (TrEq.trObStep rev mc) (Bucket.new mc rev).data j = expByte mc rev (ops.foldl absStep []) j) ∧
    Tr.openN1_pvGetCount (ops.foldl (TrEq.trObStep rev mc) (Bucket.new mc rev).data) rev mc = (ops.foldl absStep []).length ∧
    Tr.openN1_IsFull (ops.foldl (TrEq.trObStep rev mc) (Bucket.new mc rev).data) rev mc
      = decide ((ops.foldl absStep []).length = mc) ∧
    Tr.openN1_WasFull = true := by
  have hI := C13_openbytes_inv_history mc rev h0 h8 ops hl
  have hrun := TrEq.trObRun_eq ops (Bucket.new mc rev) [] (new_inv mc rev h0 h8) hl
  have hmc : (ops.foldl Bucket.step (Bucket.new mc rev)).maxCount = mc := run_maxCount ops _
  have hrev : (ops.foldl Bucket.step (Bucket.new mc rev)).reverse = rev := run_reverse ops _
  have hrun' : ops.foldl (TrEq.trObStep rev mc) (Bucket.new mc rev).data = (ops.foldl Bucket.step (Bucket.new mc rev)).data := hrun
  rw [hrun']
  generalize ops.foldl Bucket.step (Bucket.new mc rev) = B at *
  subst hmc hrev
  refine ⟨fun j hj => hI.2.2.2.2 j hj, ?_, ?_, rfl⟩
  · rw [TrEq.tr_ob_getCount B h0, inv_count_eq hI]
  · rw [TrEq.tr_ob_isFull B h0, inv_isFull_eq hI]

/-- **the SWAR mask of the translated statements**: `Tr.open8_swarMask` (the two statements of the `#else` branch with their
64-bit multiplication, subtraction and complement) applied to the translated short hash and the 8-byte word of the bucket is
exactly the flag bits of `C13_open8_swar_mask`; the translated lane index, loop test and loop step, assembled into the loop
(`TrEq.trFind8swar`), visit the flagged lanes in ascending order; the translated candidate test of the scalar loop is the byte
comparison; and the table variant of `pvCountTrailingZeros15` is count-trailing-zeros on `0 < mask < 128`. -/
theorem C13_open8_find_translated (b : Bucket) (h : Nat) (pred : Nat → Bool) (hd : ∀ j, j < 8 → b.data j < 256) :
    Tr.open8_swarMask (Tr.openN1_ptCalcShortHash h) (word8 b.data) =
      ofLanes [128 * b2n (swarFlag (calcShortHash h) b.data 0), 128 * b2n (swarFlag (calcShortHash h) b.data 1),
               128 * b2n (swarFlag (calcShortHash h) b.data 2), 128 * b2n (swarFlag (calcShortHash h) b.data 3),
               128 * b2n (swarFlag (calcShortHash h) b.data 4), 128 * b2n (swarFlag (calcShortHash h) b.data 5),
               128 * b2n (swarFlag (calcShortHash h) b.data 6), 0] ∧
    TrEq.trFind8swar b.data h pred = ((List.range 7).filter (swarFlag (calcShortHash h) b.data)).find? pred ∧
    (∀ i sh, Tr.openN1_Find_candidate b.data i sh = (b.data i == sh)) ∧
    (∀ m, m < 128 → 0 < m → Tr.open8_ctz15_table m = ctz 32 m) := by
  refine ⟨?_, ?_, fun i sh => TrEq.tr_ob_candidate b.data i sh, TrEq.tr_ob_ctz15_table⟩
  · rw [TrEq.tr_ob_calcShortHash, TrEq.tr_ob_swarMask _ _ (TrEq.ob_word8_lt _ hd)]
    exact swarMask_eq _ (calcShortHash_lt256 h) _ hd
  · rw [TrEq.trFind8swar_eq b h pred hd]
    exact (find8swar_eq b h pred hd).1

/-! Non-vacuity: concrete histories and words. -/
/-- `BucketOpenN1<3, true>`: three items, the first removed — the last item moves into its slot, the count byte returns -/
example : (List.range 4).map ([Op.add (5 <<< 40), .add (70000 <<< 40), .add (2 ^ 64 - 1), .rem 0].foldl Bucket.step (Bucket.new 3 true)).data
    = [250, 1, 247, 0] := by decide +kernel
example : legalHist 3 [] [Op.add (5 <<< 40), .add (70000 <<< 40), .add (2 ^ 64 - 1), .rem 0] := by decide
/-- a full `BucketOpen8`-shaped bucket: all seven lanes equal; SSE2 and scalar visit all seven, first accepted wins -/
example : ((List.replicate 7 (Op.add (2 ^ 64 - 1))).foldl Bucket.step (Bucket.new 7 false)).find8sse (2 ^ 64 - 1) (fun p => p == 5) = some 5 := by
  decide +kernel
example : ((List.replicate 7 (Op.add (2 ^ 64 - 1))).foldl Bucket.step (Bucket.new 7 false)).find8swar (2 ^ 64 - 1) (fun p => p == 5) = some 5 := by
  decide +kernel
example : TrEq.trFind8swar exWord (2 ^ 64 - 1) (fun p => p == 4) = some 4 ∧ findLoopN1 exWord 247 (fun p => p == 4) 7 0 = none := by
  decide +kernel

end Momo.OpenB
