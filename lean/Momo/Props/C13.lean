import Momo.Proof.ProbeAdd
import Momo.Proof.TrEqProbe
/-!
# C13 — Open-addressing lookups examine every slot where the key can be

Property theorems only. Models: `Momo/Model/Probe.lean`; lemmas: `Momo/Proof/Probe*.lean`.

Statement (properties.jsonl): the search bound recorded for a home bucket is never smaller than
the displacement of any element that was ever placed from that home bucket, for every
displacement value including those too large to store exactly; and the probe sequence visits
every bucket of a power-of-two table before insertion reports the table full. Hence a present key
is always found and an insertion fails only when no bucket has room.
-/
namespace Momo.Probe

/-- **C13 (a), Open2N2<1..3>.** For every sequence of `UpdateMaxProbe` calls with arbitrary 64-bit
probe values, in any order, the decoded bound `pvGetMaxProbe` is ≥ every probe ever recorded. -/
theorem C13_bound_open2n2 (ps : List Nat) (h : ∀ p ∈ ps, p < 2 ^ 64) :
    ∀ p ∈ ps, p ≤ (ps.foldl MP2.upd MP2.init).dec := by
  suffices H : ∀ (s : MP2), s.Ok → ∀ p, (p ∈ ps ∨ p ≤ s.dec) → p ≤ (ps.foldl MP2.upd s).dec by
    intro p hp; exact H MP2.init MP2.init_ok p (Or.inl hp)
  induction ps with
  | nil => intro s _ p hp; rcases hp with hp | hp; · cases hp
           · simpa using hp
  | cons a as ih =>
    intro s hs p hp
    obtain ⟨hok, hge, hmono⟩ := MP2.upd_ok s a hs (h a (by simp))
    simp only [List.foldl_cons]
    apply ih (fun q hq => h q (by simp [hq])) (s.upd a) hok p
    rcases hp with hp | hp
    · rcases List.mem_cons.mp hp with rfl | hp
      · exact Or.inr hge
      · exact Or.inl hp
    · exact Or.inr (Nat.le_trans hp hmono)

/-- the byte fields never overflow: mantissa ≤ 255 and exponent ≤ 57 < 64 (6 bits of `mState[1]`) -/
theorem C13_state_fits_open2n2 (ps : List Nat) (h : ∀ p ∈ ps, p < 2 ^ 64) :
    (ps.foldl MP2.upd MP2.init).m ≤ 255 ∧ (ps.foldl MP2.upd MP2.init).e ≤ 57 := by
  suffices H : ∀ (s : MP2), (s.m ≤ 255 ∧ s.e ≤ 57) → ((ps.foldl MP2.upd s).m ≤ 255 ∧ (ps.foldl MP2.upd s).e ≤ 57) by
    exact H MP2.init (by simp [MP2.init])
  induction ps with
  | nil => intro s hs; simpa using hs
  | cons a as ih =>
    intro s hs
    simp only [List.foldl_cons]
    exact ih (fun q hq => h q (by simp [hq])) _ (MP2.upd_fits s a hs (h a (by simp)))

/-- **C13 (a), OpenN1<1..7> and Open8.** Probes handed to `UpdateMaxProbe` are displacements inside a
table of `2^L` buckets (`pvAddNogrow` throws before `probe` reaches `bucketCount`), `L ≤ 64`.
`GetMaxProbe(L)` is ≥ every probe ever recorded — including those whose exponent does not fit
(`255` = unbounded). -/
theorem C13_bound_openN1 (L : Nat) (hL : L ≤ 64) (ps : List Nat) (h : ∀ p ∈ ps, p < 2 ^ L) :
    ∀ p ∈ ps, p ≤ getMax3 L (ps.foldl upd3 0) := by
  suffices H : ∀ (b : Nat), b < 256 → ∀ p, (p ∈ ps ∨ (p ≤ getMax3 L b ∧ p < 2 ^ L)) →
      p ≤ getMax3 L (ps.foldl upd3 b) by
    intro p hp; exact H 0 (by decide) p (Or.inl hp)
  induction ps with
  | nil => intro b _ p hp; rcases hp with hp | hp; · cases hp
           · simpa using hp.1
  | cons a as ih =>
    intro b hb p hp
    obtain ⟨hlt, hge, hmono⟩ := upd3_ok L b a hb (h a (by simp)) hL
    simp only [List.foldl_cons]
    apply ih (fun q hq => h q (by simp [hq])) (upd3 b a) hlt p
    rcases hp with hp | ⟨hp, hpl⟩
    · rcases List.mem_cons.mp hp with rfl | hp
      · exact Or.inr ⟨hge, h _ (by simp)⟩
      · exact Or.inl hp
    · refine Or.inr ⟨?_, hpl⟩
      -- the bound never shrinks below a legal probe it already covered
      unfold upd3
      split
      · exact hp
      · split
        · exact hp
        · rename_i h0 hh
          have hnb : b ≠ infProbeExp := fun e => hh (Or.inl e)
          have hpb : p ≤ dec3 b := by simpa [getMax3, hnb] using hp
          have : dec3 b < a := by omega
          have hge' : a ≤ getMax3 L (upd3 b a) := hge
          unfold upd3 at hge'
          simp only [h0, hh, if_false] at hge'
          omega

/-- **C13 (b).** Within the first `2^L` probes both probe sequences (linear: LimP*, One, OpenN1;
triangular: Open2N2, Open8) visit every bucket of a table with `2^L` buckets, whatever the home
bucket — for every `L` (no bound on the table size). -/
theorem C13_seq_visits_all (quad : Bool) (L home b : Nat) (hh : home < 2 ^ L) (hb : b < 2 ^ L) :
    ∃ p, p < 2 ^ L ∧ seqOf quad L home p = b :=
  seqOf_surj quad L home b hh hb

/-- **C13 (c).** The insertion loop of `pvAddNogrow` reports "Hash table is full" only when no
bucket has room; otherwise it returns the first non-full bucket of the probe sequence together
with its displacement `p < 2^L` (the value then passed to `UpdateMaxProbe`). -/
theorem C13_insert_fails_only_when_full (quad : Bool) (L : Nat) (isFull : Nat → Bool) (home : Nat)
    (hh : home < 2 ^ L) :
    (addProbe quad L isFull home = none → ∀ b, b < 2 ^ L → isFull b = true) ∧
    (∀ p idx, addProbe quad L isFull home = some (p, idx) →
        p < 2 ^ L ∧ idx = seqOf quad L home p ∧ isFull idx = false) := by
  have hs := addProbe_spec quad L isFull home
  constructor
  · intro hnone b hb
    rw [hnone] at hs
    obtain ⟨p, hp, rfl⟩ := seqOf_surj quad L home b hh hb
    exact hs p hp
  · intro p idx hsome
    rw [hsome] at hs
    exact ⟨hs.1, hs.2.1, hs.2.2.1⟩

/-- **C13 (d): a present key is always found.** If an element was placed at displacement `p` from
its home bucket and the home bucket's recorded bound covers `p` (which (a) guarantees), then the
lookup loop of `pvFind` examines the bucket that holds it. -/
theorem C13_lookup_examines (quad : Bool) (L home maxProbe p : Nat) (hp : p ≤ maxProbe) :
    seqOf quad L home p ∈ findSeq quad L home maxProbe := by
  unfold findSeq
  refine List.mem_map.mpr ⟨p, List.mem_range.mpr (by omega), ?_⟩
  cases quad <;> simp [seqOf]

/-! Non-vacuity: concrete states meeting the hypotheses. -/
example : (MP2.upd (MP2.upd MP2.init 300) 7).dec = 300 := by decide
example : ([300, 7, 100000].foldl MP2.upd MP2.init).dec = 100352 := by decide
example : getMax3 20 ([5, 9, 1000].foldl upd3 0) = 1024 := by decide
example : addProbe true 2 (fun i => i != 0) 1 = some (2, 0) := by decide
example : addProbe false 2 (fun _ => true) 1 = none := by decide

/-! ### The code itself, not only the hand-written model (T1b)

`Momo.Tr.*` are Lean definitions regenerated on every check by tools/translate.py from the *function bodies* in the
current headers (C++ integer semantics explicit: wrap-around of `size_t`, promotion and truncation of the byte fields,
the `while` loop). The theorems below are about those generated definitions. -/
/-- **C13 (a) for the code as translated from the header**: after any sequence of
`BucketOpen2N2::UpdateMaxProbe` calls (from the cleared state, any item-count bits `c`) with probes that are
displacements of a table (≤ 2^63), `pvGetMaxProbe` of the resulting bytes is ≥ every probe recorded. -/
theorem C13_bound_open2n2_translated (c : Nat) (hc : c < 4) (ps : List Nat) (h : ∀ p ∈ ps, p ≤ 2 ^ 63) :
    ∀ p ∈ ps, p ≤ Tr.open2n2_pvGetMaxProbe (TrEq.runOpen2N2 c ps).1 (TrEq.runOpen2N2 c ps).2 := by
  intro p hp
  obtain ⟨r1, r2, _, r4⟩ := TrEq.runOpen2N2_rel c hc ps h
  have hb := C13_bound_open2n2 ps (fun q hq => by have := h q hq; omega) p hp
  rw [TrEq.tr_open2n2_getMaxProbe _ _ r4.dec_lt]
  have hsh : (TrEq.runOpen2N2 c ps).2 >>> 2 = (TrEq.runOpen2N2 c ps).2 / 4 := by rw [Nat.shiftRight_eq_div_pow]
  rw [hsh]
  simp only [MP2.dec] at hb ⊢
  rw [r1, r2]; exact hb


/-- **C13 (a) for `BucketOpenN1` / `BucketOpen8` as translated from the header**: in a table of `2^L` buckets
(`L < 64`), after any sequence of `UpdateMaxProbe` calls with displacements `< 2^L`, `GetMaxProbe(L)` of the
resulting byte is ≥ every displacement recorded (255 = unbounded included). -/
theorem C13_bound_openN1_translated (L : Nat) (hL : L < 64) (ps : List Nat) (h : ∀ p ∈ ps, p < 2 ^ L) :
    ∀ p ∈ ps, p ≤ Tr.openN1_GetMaxProbe (TrEq.runOpenN1 ps) L := by
  intro p hp
  have h64 : ∀ q ∈ ps, q < 2 ^ 64 := fun q hq =>
    Nat.lt_of_lt_of_le (h q hq) (Nat.pow_le_pow_right (by decide) (by omega))
  obtain ⟨e, hlt⟩ := TrEq.runOpenN1_eq ps h64
  rw [TrEq.tr_openN1_getMaxProbe L _ hL hlt, e]
  exact C13_bound_openN1 L (by omega) ps h p hp



/-- non-vacuity: the translated code run on a concrete sequence (rounded bound 132096 covers 131073) -/
example : Tr.open2n2_pvGetMaxProbe (TrEq.runOpen2N2 1 [3, 300, 131073, 7]).1 (TrEq.runOpen2N2 1 [3, 300, 131073, 7]).2 = 132096 := by decide
example : Tr.openN1_GetMaxProbe (TrEq.runOpenN1 [3, 300, 9]) 10 = 320 := by decide

end Momo.Probe
