import Momo.Proof.LedgerObj
import Momo.Proof.LedgerPool
import Momo.Proof.LedgerVal
import Momo.Props.C09
import Momo.Proof.HTLedgerCons
import Momo.Proof.MMLedgerSys
/-!
# C03 — Every byte and every element is released exactly once, never touched after

The property speaks about what a container does to the memory manager and to its element objects — a list of
events (`Momo.Ledger.Ev`: alloc / dealloc with manager class and size, construct / destroy / relocate / use of an
element, touch of a block). This file states

1. what C03 demands of such a list, on the list itself (`Disciplined`, `NothingLeft` — Proof/Ledger.lean), and that the
   executable monitor `Ledger.run` (the judge of every harness history) accepts exactly the disciplined lists and ends
   clean exactly when nothing is left: the monitor is sound and complete;
2. what discipline means event by event, by positions and by counting: each block given back exactly once, with its
   size, through an equal manager, nothing touched outside live blocks, each element destroyed exactly once, never
   used afterwards;
3. that the event traces PRODUCED by the container-level models are disciplined for every history and fault schedule
   they quantify over (`C03_obj_…`, `C03_pool_…`, `C03_val_…`).

`C03_full` is the whole-library claim; it is not provable here (it quantifies over the C++ containers). What is
proved is named `…_partial` where it is a part of it. Memory safety proper — no read or write outside live blocks by
the container's own code — is visible to the ledger only through `touch` events of element objects; beyond that it is
run-time evidence (ASan/UBSan on every harness), never a theorem.
-/
namespace Momo.Ledger

variable {β : Type} [DecidableEq β]

/-- **C03 at full strength** for a family of observed histories: every event list a momo container can produce
(`Produces tr`: `tr` is the complete list of manager calls and element life-cycle events of some history of operations,
exceptions included, up to and including the destruction of the containers) is disciplined and leaves nothing behind.
The theorems below discharge this for the traces of the models; for the real containers the verified monitor checks it
history by history at run time. -/
def C03_full (Produces : List (Ev β) → Prop) : Prop :=
  ∀ tr, Produces tr → Disciplined tr ∧ NothingLeft tr

/-! ## 1. the monitor is the specification -/

/-- **Soundness of the monitor.** If the monitor accepts a history, every event in it is admissible where it stands:
no block is handed out while live, each `dealloc` names a block that is outstanding *with that manager class and that
size*, each construction happens where no object lives, each destruction / use / relocation concerns a living object,
each touch lies inside a live block. -/
theorem C03_monitor_sound (tr : List (Ev β)) (s : St β) (h : run St.init tr = some s) : Disciplined tr :=
  disciplined_of_run h

/-- **Completeness of the monitor.** A history with those properties is accepted: the monitor raises no false alarm. -/
theorem C03_monitor_complete (tr : List (Ev β)) (h : Disciplined tr) : ∃ s, run St.init tr = some s :=
  run_of_disciplined h

/-- the monitor's verdict "accepted and clean" is exactly "disciplined and nothing left" -/
theorem C03_balanced_iff (tr : List (Ev β)) : balanced tr = true ↔ Disciplined tr ∧ NothingLeft tr := by
  unfold balanced
  constructor
  · intro h
    cases hr : run St.init tr with
    | none => rw [hr] at h; cases h
    | some s => rw [hr] at h; exact ⟨disciplined_of_run hr, (clean_iff_nothingLeft hr).mp h⟩
  · rintro ⟨hd, hn⟩
    obtain ⟨s, hr⟩ := run_of_disciplined hd
    rw [hr]; exact (clean_iff_nothingLeft hr).mpr hn

/-- "Clearing with shrink and destruction leave zero outstanding blocks and zero live elements": the numbers the
monitor prints at the end of a history are zero iff no block is open and no element alive after the trace. -/
theorem C03_outstanding_zero_iff (tr : List (Ev β)) (s : St β) (h : run St.init tr = some s) :
    s.outstanding = (0, 0) ↔ NothingLeft tr := by
  rw [← clean_iff_nothingLeft h]
  unfold St.outstanding St.clean
  cases s.blocks <;> cases s.elems <;> simp

/-! ## 2. what an accepted, clean history looks like -/

/-- **Every block is given back exactly once, with the size it was requested with, through an equal manager.**
After any `alloc m b n` the next event that concerns the life of block `b` is `dealloc m b n` — same manager class,
same size; nothing in between allocates or frees `b`. -/
theorem C03_block_released_once (tr pre post : List (Ev β)) (s : St β) (b : β) (m n : Nat)
    (h : run St.init tr = some s) (hclean : s.clean = true) (htr : tr = pre ++ .alloc m b n :: post) :
    ∃ mid post', post = mid ++ .dealloc m b n :: post' ∧ ∀ ev ∈ mid, ev.lifeB b = false :=
  released_once (disciplined_of_run h) (((clean_iff_nothingLeft h).mp hclean).1 b) htr

/-- … and conversely every `dealloc m b n` answers an earlier `alloc m b n` of the same block that has not been
answered yet (no double free, no free of a foreign block, no wrong size, no unequal manager). -/
theorem C03_dealloc_matches_alloc (tr pre post : List (Ev β)) (s : St β) (b : β) (m n : Nat)
    (h : run St.init tr = some s) (htr : tr = pre ++ .dealloc m b n :: post) :
    ∃ p1 p2, pre = p1 ++ .alloc m b n :: p2 ∧ ∀ ev ∈ p2, ev.lifeB b = false :=
  dealloc_matches (disciplined_of_run h) htr

/-- counting form: as many `dealloc`s as `alloc`s of every block — with fresh block ids (each id allocated once, as the
harness numbers them) exactly one `dealloc` per block. -/
theorem C03_block_counts (tr : List (Ev β)) (s : St β) (b : β) (h : run St.init tr = some s) (hclean : s.clean = true) :
    deallocs b tr = allocs b tr := by
  have := count_blocks b tr St.init s h
  unfold St.clean at hclean
  simp only [Bool.and_eq_true, List.isEmpty_iff] at hclean
  simp [openCount, St.init, findB, hclean.1] at this
  omega

/-- **No memory is touched outside live blocks** (as far as events report it): every `touch b off len` falls between
the `alloc` of `b` and its `dealloc`, inside the requested size. -/
theorem C03_touch_inside_live (tr pre post : List (Ev β)) (s : St β) (b : β) (off len : Nat)
    (h : run St.init tr = some s) (htr : tr = pre ++ .touch b off len :: post) :
    ∃ m n p1 p2, pre = p1 ++ .alloc m b n :: p2 ∧ (∀ ev ∈ p2, ev.lifeB b = false) ∧ off + len ≤ n := by
  obtain ⟨m, n, ho, hle⟩ := disciplined_of_run h pre _ post htr
  obtain ⟨p1, p2, h1, h2⟩ := (openAs_iff_split b m n pre).mp ho
  exact ⟨m, n, p1, p2, h1, h2, hle⟩

/-- **Every element that is constructed is destroyed exactly once.** After any event that brings element `e` into
existence (a constructor, or a relocation to `e`) the next life-cycle event of `e` is its end: its destructor, or a
relocation away from it; no second construction, no second end in between. -/
theorem C03_element_ended_once (tr pre post : List (Ev β)) (s : St β) (e : Nat) (ev : Ev β)
    (h : run St.init tr = some s) (hclean : s.clean = true) (htr : tr = pre ++ ev :: post) (hb : ev.begins e = true) :
    ∃ mid x post', post = mid ++ x :: post' ∧ x.ends e = true ∧ x.begins e = false ∧ ∀ y ∈ mid, y.lifeE e = false :=
  ended_once (disciplined_of_run h) (((clean_iff_nothingLeft h).mp hclean).2 e) htr hb

/-- **… and is never used after destruction or relocation**: a `use e` that follows an end of `e` is separated from
it by a new beginning of `e`. -/
theorem C03_no_use_after_end (tr pre mid post : List (Ev β)) (s : St β) (e : Nat) (x : Ev β)
    (h : run St.init tr = some s) (htr : tr = pre ++ x :: (mid ++ .use e :: post)) (hx : x.ends e = true) :
    ∃ y ∈ mid, y.begins e = true :=
  no_use_after_end (disciplined_of_run h) htr hx

/-- every use, destruction and relocation concerns an element that is alive at that moment: the last life-cycle event
before it is a beginning -/
theorem C03_use_alive (tr pre post : List (Ev β)) (s : St β) (e : Nat)
    (h : run St.init tr = some s) (htr : tr = pre ++ .use e :: post) :
    ∃ p1 ev p2, pre = p1 ++ ev :: p2 ∧ ev.begins e = true ∧ ev.ends e = false ∧ ∀ x ∈ p2, x.lifeE e = false :=
  (alive_iff_split e pre).mp (disciplined_of_run h pre _ post htr)

/-- counting form: every element ends as often as it begins -/
theorem C03_element_counts (tr : List (Ev β)) (s : St β) (e : Nat) (h : run St.init tr = some s) (hclean : s.clean = true) :
    ended e tr = begun e tr := by
  have := count_elems e tr St.init s h
  unfold St.clean at hclean
  simp only [Bool.and_eq_true, List.isEmpty_iff] at hclean
  simp [aliveCount, St.init, memE, hclean.2] at this
  omega

/-! ## 3. the traces of the models are disciplined -/

/-- **Object life-cycle model, `RelocateCreate`** (growth of buckets, nodes, arrays), for every relocation category,
every element count and every fault schedule: the construction / destruction trace recorded by the model is accepted
by the ledger monitor, and the elements alive afterwards are exactly the objects of the resulting memory — all sources
gone and all destinations alive on success, everything as before on failure (`C04_relocateCreate_strong/ok`). -/
theorem C03_obj_relocateCreate {occ0 : Nat → Bool} (c : Obj.Cat) (st : Obj.St) (src dst count newAddr v : Nat)
    (ht : Obj.TraceOK occ0 st) (pre : Obj.Pre st src dst count newAddr) (s : St Nat) (hs : Represents s occ0) :
    ∃ s', run s ((Obj.relocateCreate c st src dst count newAddr v).1.evs.map ofObj) = some s' ∧
      Represents s' (Obj.occOf (Obj.relocateCreate c st src dst count newAddr v).1.mem) :=
  let ⟨s', h1, _, h3⟩ := traceOK_accepted (Obj.relocateCreate_spec c st src dst count newAddr v ht pre).1 hs
  ⟨s', h1, h3⟩

/-- **`CopyExec`** (creation of a key together with its value), every fault schedule: accepted, and the live elements
are those of the resulting memory. -/
theorem C03_obj_copyExec {occ0 : Nat → Bool} (st : Obj.St) (src dst newAddr v : Nat) (ht : Obj.TraceOK occ0 st)
    (h1 : st.mem src ≠ .raw) (h2 : st.mem dst = .raw) (h3 : st.mem newAddr = .raw) (hne : newAddr ≠ dst)
    (s : St Nat) (hs : Represents s occ0) :
    ∃ s', run s ((Obj.copyExec st src dst newAddr v).1.evs.map ofObj) = some s' ∧
      Represents s' (Obj.occOf (Obj.copyExec st src dst newAddr v).1.mem) :=
  let ⟨s', h1, _, h3⟩ := traceOK_accepted (Obj.copyExec_spec st src dst newAddr v ht h1 h2 h3 hne).1 hs
  ⟨s', h1, h3⟩

/-- `Obj.replay` (the trace check inside C04's and C10's theorems) is the element part of the C03 monitor: the two
agree on every trace from every occupancy, so each `TraceOK` proved anywhere in the library is a C03 statement. -/
theorem C03_obj_replay_is_monitor (evs : List Obj.Ev) (occ : Nat → Bool) (s : St Nat) (hs : Represents s occ) :
    (Obj.replay occ evs).isSome = (run s (evs.map ofObj)).isSome := by
  have := replay_agrees evs occ s hs
  cases hr : Obj.replay occ evs with
  | none => rw [hr] at this; simp [this]
  | some occ' => rw [hr] at this; obtain ⟨s', h1, _⟩ := this; simp [h1]

/-- **MemPool, every legal history** (`Pool.Reach`: any sequence of `Allocate` - succeeding or refused by the manager -,
`Deallocate` of live blocks, `DeallocateIf`, `DeallocateAll`, `MergeFrom`; Props/C09.lean), `blockCount > 1`: the calls
made to the memory manager up to any point are accepted by the C03 monitor, and once `DeallocateAll` has run - at any
time - the history is balanced: every buffer obtained from the manager has been given back exactly once with the size
it was requested with (`C03_block_released_once` applies to it). Hypothesis `FreshMallocs`: the manager never answers
with an address that is still outstanding (its contract; not implied by `Pool.Contract`, which speaks about one
answer at a time). -/
theorem C03_pool_history_all_returned (m : Nat) (P : Pool.Params) (hL : P.Legal) (hN2 : 2 ≤ P.N) (p : Pool.Pool)
    (es : List Pool.Ev) (h : Pool.Reach P p es) :
    ∃ evs, Pool.deallocateAll P p = .ok () Pool.Pool.empty evs ∧
      (FreshMallocs [] (es ++ evs) → balanced ((es ++ evs).map (ofPool m)) = true) := by
  obtain ⟨_, _, _, ⟨evs, h1, h2⟩, _⟩ := Pool.C09_history P hL hN2 p es h
  exact ⟨evs, h1, fun hf => poolLedger_balanced m _ h2 hf⟩

/-- … and the destructor of a pool without live blocks leaves nothing outstanding either. -/
theorem C03_pool_destroy_all_returned (m : Nat) (P : Pool.Params) (hL : P.Legal) (hN2 : 2 ≤ P.N) (p : Pool.Pool)
    (es : List Pool.Ev) (h : Pool.Reach P p es) (hlive : p.live P = []) :
    ∃ evs, Pool.destroy P p = .ok () Pool.Pool.empty evs ∧
      (FreshMallocs [] (es ++ evs) → balanced ((es ++ evs).map (ofPool m)) = true) := by
  obtain ⟨_, _, _, _, hd⟩ := Pool.C09_history P hL hN2 p es h
  obtain ⟨evs, h1, h2⟩ := hd hlive
  exact ⟨evs, h1, fun hf => poolLedger_balanced m _ h2 hf⟩

/-- the pool's own multiset ledger (the one C09's theorems speak about) and the C03 monitor agree on every event list
that respects the manager's contract: whatever C09 proves exact is accepted here -/
theorem C03_pool_ledger_is_monitor (m : Nat) (evs : List Pool.Ev) (L' : List (Int × Int))
    (h : Pool.ledger [] evs = some L') (hf : FreshMallocs [] evs) :
    ∃ st, run St.init (evs.map (ofPool m)) = some st ∧ Holds m st L' := by
  obtain ⟨st, h1, h2, _, _⟩ := poolLedger_accepted m evs [] L' St.init h (by simp [NodupKeys]) hf
    (by intro a; simp [St.init, findB, lk])
  exact ⟨st, h1, h2⟩

/-- **Value-semantics model, every history** (`Momo.Val`, C14: constructors, copy / move construction and assignment,
Swap, Clear, destructors, mutations with any reported layout, the allocator-aware operations of the stdish wrappers, over
any number of objects and manager identities): the manager calls the model makes are accepted by the C03 monitor -
in particular every block goes back to the manager class that allocated it, whatever moves, swaps and assignments
happened in between - and the blocks outstanding in the monitor are exactly the cells of the model's heap. -/
theorem C03_val_history_accepted (cfg : Val.Cfg) (ops : List Val.Op) (w : Val.World) (evs : List Val.Ev)
    (h : runOpsEv cfg Val.World.init ops = some (w, evs)) :
    ∃ st, run St.init (blockEvs evs) = some st ∧ Sync st w.heap := by
  have hs0 : Sync (St.init : St Nat) Val.World.init.heap := by
    intro x; simp [St.init, findB, Val.World.init, Val.Heap.empty, Val.Heap.get, Val.lookupH]
  obtain ⟨st, h1, _, h3, _⟩ := runOps_sync cfg ops Val.WF.init h hs0
  exact ⟨st, h1, h3⟩

/-- **… and destruction leaves zero outstanding blocks**: any history of value operations after which every object has
been destroyed is balanced - each block the managers handed out was given back exactly once through an equal manager
(`C03_block_released_once`, `C03_block_counts` apply). -/
theorem C03_val_history_all_destroyed (cfg : Val.Cfg) (ops : List Val.Op) (w : Val.World) (evs : List Val.Ev)
    (h : runOpsEv cfg Val.World.init ops = some (w, evs)) (hdead : ∀ i, w.objs i = none) :
    balanced (blockEvs evs) = true :=
  runOps_all_destroyed_balanced cfg ops h hdead

/-! ## non-vacuity -/

/-- a history with two managers, a growth step with relocation, a copy, and complete release -/
def exTrace : List (Ev Nat) :=
  [.alloc 1 10 64, .construct 1, .touch 10 0 8, .construct 2, .touch 10 8 8,
   .alloc 1 11 128, .relocate 1 3, .relocate 2 4, .dealloc 1 10 64,
   .alloc 2 12 32, .use 3, .construct 5, .destroy 5, .dealloc 2 12 32,
   .destroy 3, .destroy 4, .dealloc 1 11 128]

example : balanced exTrace = true := by decide
example : Disciplined exTrace ∧ NothingLeft exTrace := (C03_balanced_iff exTrace).mp (by decide)
-- the monitor rejects: double free, wrong size, unequal manager, use after relocation, destroy twice, touch after free
example : firstReject St.init [Ev.alloc 1 10 64, .dealloc 1 10 64, .dealloc 1 10 64] 0 = some (2, .deallocNotLive) := by decide
example : firstReject St.init [Ev.alloc 1 10 64, .dealloc 1 10 32] 0 = some (1, .deallocWrongSize) := by decide
example : firstReject St.init [Ev.alloc 1 10 64, .dealloc 2 10 64] 0 = some (1, .deallocWrongManager) := by decide
example : firstReject (β := Nat) St.init [.construct 1, .relocate 1 2, .use 1] 0 = some (2, .useNotLive) := by decide
example : firstReject (β := Nat) St.init [.construct 1, .destroy 1, .destroy 1] 0 = some (2, .destroyNotLive) := by decide
example : firstReject St.init [Ev.alloc 1 10 64, .dealloc 1 10 64, .touch 10 0 1] 0 = some (2, .touchDeadBlock) := by decide
example : firstReject St.init [Ev.alloc 1 10 64, .touch 10 60 8] 0 = some (1, .touchOutOfBounds) := by decide
-- a leak is accepted event by event but not clean
example : balanced [Ev.alloc 1 10 64, .construct 1, .destroy 1] = false := by decide
-- the object-model instance: `Obj.exSt` (Props/C04.lean's start memory) is represented by a three-element state
example : Represents ({ elems := [100, 101, 102] } : St Nat) (Obj.occOf (fun a => if 100 ≤ a ∧ a < 103 then .live (1000 + (a - 100)) else .raw)) := by
  intro a
  simp only [memE, Obj.occOf]
  by_cases h0 : a = 100
  · subst h0; decide
  · by_cases h1 : a = 101
    · subst h1; decide
    · by_cases h2 : a = 102
      · subst h2; decide
      · have : ¬ (100 ≤ a ∧ a < 103) := by omega
        have e0 : ¬ 100 = a := fun h => h0 h.symm
        have e1 : ¬ 101 = a := fun h => h1 h.symm
        have e2 : ¬ 102 = a := fun h => h2 h.symm
        simp [this, e0, e1, e2]

-- a value-model history: two hash-set-like objects (crew block + one body block each) with managers 1 and 2, a move
-- assignment, a swap, destruction of both: accepted and balanced
def exValOps : List Val.Op :=
  [.new 0 1, .new 1 2, .mutate 0 [] [[1, 2, 3]] 0, .mutate 1 [] [[7]] 0, .copyCtor 2 0, .moveAssign 1 0,
   .swap 1 2, .destroy 0, .destroy 1, .destroy 2]
def exValCfg : Val.Cfg := { k := { crewPtr := true } }
example : ((runOpsEv exValCfg Val.World.init exValOps).map (fun r => balanced (blockEvs r.2))) = some true := by decide
-- a pool event list: two buffers obtained, both returned
example : balanced ([Pool.Ev.malloc 4096 264, .malloc 8192 264, .free 4096 264, .free 8192 264].map (ofPool 1)) = true := by decide
example : FreshMallocs [] [Pool.Ev.malloc 4096 264, .malloc 8192 264, .free 4096 264, .free 8192 264] := by
  simp [FreshMallocs]

end Momo.Ledger

/-!
# C03 for the hash family: `momo::HashSet` / `momo::HashMap` (model `Momo/Model/HTLedger.lean`)

The ledger layer over the hash-table model of C01 / C11: every operation of HashSet.h emits, in program order, the calls it
makes to the memory manager (bucket array of every generation, `BucketParams` block, crew block, pool buffers of the chained
bucket kinds) and the life-cycle events of its element objects (construction by the item creator, `ObjectRelocator::Relocate`
by category, `ObjectManager::Replace` / `ReplaceRelocate`, copies and their roll-back, destruction), under an explicit fault
record per operation (`Flt`: throwing hash / equality functor, refused bucket array / `BucketParams` / crew block, throwing
creator or copy, throwing assignment, the migration `pvRelocateItems` interrupted after ANY number of items with any number of
generations alive, a copy construction failing after any number of items) and arbitrary pool traffic (`PoolT`). The system
`Sys` is what the correspondence harness drives: two containers A and B and a node handle.

Quantifiers of this section: EVERY configuration `cfg` - every bucket description `cfg.sp` (no `SpecOK` needed for the ledger
theorems), relocation category, sizes, manager class -, every hash function `hf`, every history `ops : List OpT`, every fault
record and pool traffic inside it. Lemmas: `Momo/Proof/HTLedger*.lean`.
-/
namespace Momo.HTL
open Momo Momo.HT Momo.Ledger

/-- **C03, hash containers, every history under every fault schedule: the event list is disciplined and the ledger is exactly
what the containers own.** "Across any history of operations …, including operations that exit with an exception, every block
obtained from the … memory manager is given back exactly once, with the size it was requested with, through the same or an equal
manager … Every element object that is constructed is destroyed exactly once and is never used after destruction or
relocation." The verified monitor `Ledger.run` accepts the complete event list of the history (so by `C03_monitor_sound` it is
`Disciplined`: each `dealloc` answers an outstanding `alloc` of that block with the same size and manager class, nothing is
constructed over a live object, destroyed / used / relocated when not alive), and AT EVERY MOMENT what the monitor holds is
exactly what the books of A, B and the handle list - bucket arrays, `BucketParams`, crew blocks, pool buffers; one element object
per stored or extracted item: no leak while alive. -/
theorem C03_hash_history_ledger (cfg : Cfg) (hf : Nat → Nat) (ops : List OpT) :
    ∃ s, Ledger.run Ledger.St.init (run cfg hf (Sys.init cfg) ops).w.evs = some s ∧
      Holds s ((run cfg hf (Sys.init cfg) ops).blocks cfg) (run cfg hf (Sys.init cfg) ops).elems ∧
      Disciplined (run cfg hf (Sys.init cfg) ops).w.evs :=
  let ⟨s, h1, h2⟩ := (run_ok cfg hf ops _ (sysOK_init cfg)).led.acc
  ⟨s, h1, h2, disciplined_of_run h1⟩

/-- **… and destruction leaves nothing.** "… no later than the container's destruction … destruction leave[s] zero outstanding
blocks and zero live elements": after any history, once the handle, B and A are destroyed (`finish`: `~SetExtractedItem`,
`~HashSet` = `pvDestroy` + `~SetCrew`), the monitor's verdict on the whole event list is "accepted and clean" - by
`C03_balanced_iff` the list is disciplined and nothing is left; by `C03_block_released_once` / `C03_element_ended_once` every block
was given back exactly once with its size through its manager class and every element object ended exactly once. -/
theorem C03_hash_history_balanced (cfg : Cfg) (hf : Nat → Nat) (ops : List OpT) :
    Ledger.balanced (finish cfg (run cfg hf (Sys.init cfg) ops)).evs = true :=
  led_nil_balanced (finish_clean cfg _ (run_ok cfg hf ops _ (sysOK_init cfg)))

/-- **Clear with shrink leaves zero outstanding blocks and zero live elements** (of that container, besides the crew block that a
live container keeps until its destruction): after `Clear(true)` in any reachable state the books of A list no bucket array, no
`BucketParams`, no pool buffer and no element object - and the monitor holds exactly the books (`C03_hash_history_ledger`), so
everything else of A has been given back / destroyed. -/
theorem C03_hash_clear_shrink (cfg : Cfg) (hf : Nat → Nat) (ops : List OpT) :
    let s := run cfg hf (Sys.init cfg) (ops ++ [{ op := .clear true }])
    s.a.blocks cfg = (optL s.a.crew).map (fun b => (b, cfg.mgr, cfg.csz)) ∧ s.a.elems = [] ∧ s.a.t.gens = [] := by
  have hrun : ∀ (l1 l2 : List OpT) (s : Sys), run cfg hf s (l1 ++ l2) = run cfg hf (run cfg hf s l1) l2 := by
    intro l1; induction l1 with
    | nil => intro l2 s; rfl
    | cons o r ih => intro l2 s; exact ih l2 _
  simp only [hrun, run]
  generalize hs : run cfg hf (Sys.init cfg) ops = s0
  have h0 : SysOK cfg s0 := by rw [← hs]; exact run_ok cfg hf ops _ (sysOK_init cfg)
  have hp : ∀ st : St, st.params = none → ∀ (p : PoolT) (w : W), poolTraffic cfg st p w = (st, w) := by
    intro st hpn p w; simp [poolTraffic, hpn]
  have key : (clearL cfg s0.a true s0.w).1.params = none ∧ (clearL cfg s0.a true s0.w).1.arrs = [] ∧
      (clearL cfg s0.a true s0.w).1.bufs = [] ∧ (clearL cfg s0.a true s0.w).1.els = [] ∧
      (clearL cfg s0.a true s0.w).1.t.gens = [] := by
    unfold clearL
    cases harr : s0.a.arrs with
    | nil =>
      obtain ⟨p1, p2, p3⟩ := h0.a.nil harr
      exact ⟨p1, harr, p2, p3, List.eq_nil_of_length_eq_zero (by rw [← h0.a.len, harr]; rfl)⟩
    | cons a older =>
      have hg : s0.a.t.gens ≠ [] := by intro hc; have := h0.a.len; rw [harr, hc] at this; simp at this
      simp only [if_true]
      refine ⟨trivial, trivial, trivial, trivial, ?_⟩
      cases hgs : s0.a.t.gens with
      | nil => exact absurd hgs hg
      | cons g rest => simp [clear, hgs, emptyTable]
  obtain ⟨k1, k2, k3, k4, k5⟩ := key
  simp only [stepT, step]
  rw [hp _ k1]
  simp only [St.blocks_eq, St.elems, k1, k2, k3, k4, k5, optL, List.map_nil, List.append_nil]
  exact ⟨trivial, trivial, trivial⟩

/-- **The books are the table** (`Consistent`, for both containers, in every reachable state): the table of the ledger layer is
the C01 / C11 table and satisfies their invariant `TableInv` (so every theorem of Props/C01.lean, Props/C11.lean applies: each key
found, traversed once, removable in every generation); the books hold exactly one element object per stored item - the same
keys -, exactly one bucket-array block of `pvGetBufferSize(logCount)` bytes per generation in the same order, and the
`BucketParams` block iff a table exists; hence the number of live element objects is the container's count. Together with
`C03_hash_history_ledger`: at every moment the monitor holds exactly what the TABLE STATE owns. Hypotheses: `SpecOK` (every bucket
kind of the library, `mkSpec_ok`) and `RunFits` - the side condition of the hash-table model's copy constructor that C01's own
history theorem carries (`C01_copy_fits`: it holds whenever the count does not exceed the capacity of `2^(logStart+63)` buckets). -/
theorem C03_hash_books_are_table (cfg : Cfg) (hf : Nat → Nat) (ok : SpecOK cfg.sp) (ops : List OpT)
    (hfit : RunFits cfg hf (Sys.init cfg) ops) :
    Consistent cfg hf (run cfg hf (Sys.init cfg) ops).a ∧ Consistent cfg hf (run cfg hf (Sys.init cfg) ops).b ∧
    (run cfg hf (Sys.init cfg) ops).a.elems.length = (run cfg hf (Sys.init cfg) ops).a.t.count ∧
    (run cfg hf (Sys.init cfg) ops).b.elems.length = (run cfg hf (Sys.init cfg) ops).b.t.count :=
  let ⟨ha, hb⟩ := run_cons cfg hf ok ops _ (sysCons_init cfg hf) hfit
  ⟨ha, hb, ha.count, hb.count⟩

/-! Non-vacuity: a LimP4-like table of copy-only items (the migration can be interrupted) whose history leaves THREE
generations alive (the migrations of two insertions and of a `Reserve` stopped after 0, 0 and 1 items), with a refused
bucket array, a throwing creator and a throwing hash functor on the way; a copy assignment failing after two items; an
extraction; then destruction. -/
def exCfg : Cfg :=
  { sp := { maxCount := 4, quad := false, fullFrom := 4, unlimited := false, bound := .none, cap := .base, baseShift := true,
            logStart := 1, nothrowReloc := false },
    cat := .copyOnly, assign := false,
    hdr := 24, bsz := 16, psz := 384, csz := 16, chained := true }
def exOps : List OpT :=
  [{ op := .ins false 1 10 {} }, { op := .ins false 2 20 {} }, { op := .ins false 3 30 { grow := true } },
   { op := .ins false 4 40 { create := true } }, { op := .ins false 4 40 {}, pa := { gets := [414] } },
   { op := .ins false 5 50 { mig := some 0 } }, { op := .ins false 6 60 { hashThrows := true } },
   { op := .ins false 6 60 { mig := some 0 } }, { op := .reserve 100 { mig := some 1 } },
   { op := .copyTo { copyStop := some 2 } }, { op := .ext 2 {} }, { op := .rem 5 { assignThrows := true } }]

/-- three generations: 64, 8 and 2 buckets, holding 1, 2 and 2 items (one was extracted into the handle) -/
example : (run exCfg id (Sys.init exCfg) exOps).a.t.gens.map (fun g => (g.L, genCount g)) = [(6, 1), (3, 2), (1, 2)] := by decide
/-- the books of A: crew, `BucketParams`, three bucket arrays of 24 + 16·2^L bytes, one pool buffer -/
example : ((run exCfg id (Sys.init exCfg) exOps).a.blocks exCfg).map (·.2.2) = [16, 384, 1048, 152, 56, 414] := by decide +kernel
/-- five element objects in A, none in B (the copy failed), one in the handle -/
example : ((run exCfg id (Sys.init exCfg) exOps).a.elems.length, (run exCfg id (Sys.init exCfg) exOps).b.elems.length,
    (run exCfg id (Sys.init exCfg) exOps).h.isSome) = (5, 0, true) := by decide
/-- the monitor has accepted all events of this history and holds the 7 blocks and 6 element objects of the books … -/
example : (Ledger.run Ledger.St.init (run exCfg id (Sys.init exCfg) exOps).w.evs).map (fun s => s.outstanding) = some (7, 6) := by
  decide
/-- … and after destruction nothing (`C03_hash_history_balanced`, here by evaluation) -/
example : Ledger.balanced (finish exCfg (run exCfg id (Sys.init exCfg) exOps)).evs = true := by decide
/-- the monitor is not vacuous on such traces: dropping the last event (the crew block of A is not given back) is a leak -/
example : Ledger.balanced (finish exCfg (run exCfg id (Sys.init exCfg) exOps)).evs.dropLast = false := by decide
example : RunFits exCfg id (Sys.init exCfg) exOps := by
  simp only [exOps, RunFits, OpFits, and_true, true_and]
  decide +kernel

theorem exCfg_ok : SpecOK exCfg.sp where
  maxPos := by decide
  fullLe := fun _ => by decide
  zeroUnl := fun h => by cases h
  capLe := fun _ L => by
    show 2 ^ L * 2 ≤ 2 ^ L * 4
    exact Nat.mul_le_mul_left _ (by decide)
  capMono := capacityOf_mono _ (fun _ _ h => by cases h)
/-- … so the three-generation state satisfies the invariant of C01 / C11 and its books are its table -/
example : Consistent exCfg id (run exCfg id (Sys.init exCfg) exOps).a :=
  (C03_hash_books_are_table exCfg id exCfg_ok exOps (by
    simp only [exOps, RunFits, OpFits, and_true, true_and]
    decide +kernel)).1

end Momo.HTL


/-!
## C03 for `momo::HashMultiMap`: the ledger of whole histories under every fault schedule

`Momo/Model/MMLedger.lean` is a ledger layer over the C08 model of the multimap: the key table is the ledger layer of the hash
family (`Momo.HTL`, above) used unchanged; next to every key the value array (`VArr` of the C08 model: none | fast pool k | heap
array of capacity c) carries its books - the value objects in storage order and the storage block of the heap `momo::Array`
(`capacity * sizeof(Value)` bytes); the container also holds the `ValueCrew::Data` block and the buffers of the value-array
pools (observed traffic, as in `HTL`; `Clear` / destruction / a failed copy return all of them).  Every operation - `Add(key,
value)`, `Add(keyIter, value)`, `InsertKey`, `Remove(keyIter, index)`, `Remove(pairFilter)`, `RemoveValues`, `RemoveKey`,
`ResetKey`, `Clear`, copy assignment, move assignment, `Swap`, the destructor - emits its manager calls and its key / value
object events in program order (order of allocation and release inside `ArrayBucket::AddBackCrt` / `RemoveBack` as listed in
the model's header), for an explicit fault record: functors, bucket array, `BucketParams`, crews, key copy (key table), refused
pool block, refused heap storage, throwing value creator / copy, refused `Array::Shrink`, throwing value assignment, a copy
stopping after any number of values / keys.  Universally quantified: configuration `cfg` (any key table description, relocation
categories of key and value, `maxFastCount`, sizes), hash function, history, fault records, pool traffic.
Lemmas: `Momo/Proof/MMLedger*.lean`.
-/
namespace Momo.MML
open Momo Momo.HT Momo.Ledger Momo.HTL

/-- **C03, hash multimap, every history under every fault schedule: the event list is disciplined and the ledger is exactly what
the two containers own.** "Across any history of operations …, including operations that exit with an exception, every block
obtained from the … memory manager is given back exactly once, with the size it was requested with … Every element object that is
constructed is destroyed exactly once and is never used after destruction or relocation."  The verified monitor `Ledger.run`
accepts the complete event list (hence `Disciplined`), and AT EVERY MOMENT it holds exactly the books of A and B: bucket arrays,
`BucketParams`, both crews, the heap array of every big value array with its byte size, pool buffers; one object per stored key and
per stored value. -/
theorem C03_multimap_history_ledger (cfg : Cfg) (hf : Nat → Nat) (ops : List OpT) :
    ∃ s, Ledger.run Ledger.St.init (run cfg hf (Sys.init cfg) ops).w.evs = some s ∧
      Holds s ((run cfg hf (Sys.init cfg) ops).blocks cfg) (run cfg hf (Sys.init cfg) ops).elems ∧
      Disciplined (run cfg hf (Sys.init cfg) ops).w.evs :=
  let ⟨s, h1, h2⟩ := (run_ok cfg hf ops _ (sysOK_init cfg)).led.acc
  ⟨s, h1, h2, disciplined_of_run h1⟩

/-- **… and destruction leaves nothing**: after any history, once B and A are destroyed (`~HashMultiMap`: `pvClearValueArrays`,
`ValueCrew::Destroy`, `~HashMap`), the monitor's verdict on the whole event list is "accepted and clean". -/
theorem C03_multimap_history_balanced (cfg : Cfg) (hf : Nat → Nat) (ops : List OpT) :
    Ledger.balanced (finish cfg (run cfg hf (Sys.init cfg) ops)).evs = true :=
  led_nil_balanced (finish_clean cfg _ (run_ok cfg hf ops _ (sysOK_init cfg)))

/-- **`Clear` leaves zero outstanding blocks and zero live elements** (of that container, besides the two crew blocks a live
container keeps until its destruction; `HashMultiMap::Clear` always shrinks the key table): in every reachable state the books of A
after `Clear()` list the key table's crew and the value crew and nothing else - no bucket array, no `BucketParams`, no heap array,
no pool buffer, no key and no value object - and the monitor holds exactly the books (`C03_multimap_history_ledger`). -/
theorem C03_multimap_clear (cfg : Cfg) (hf : Nat → Nat) (ops : List OpT) :
    (step cfg hf (run cfg hf (Sys.init cfg) ops) .clear).1.a.blocks cfg =
      (optL (run cfg hf (Sys.init cfg) ops).a.kt.crew).map (fun b => (b, cfg.h.mgr, cfg.h.csz)) ++
      (optL (run cfg hf (Sys.init cfg) ops).a.vcrew).map (fun b => (b, cfg.h.mgr, cfg.vsz)) ∧
    (step cfg hf (run cfg hf (Sys.init cfg) ops) .clear).1.a.elems = [] :=
  clearL_books cfg _ _ (run_ok cfg hf ops _ (sysOK_init cfg)).a

/-- **one value array through every transition of `ArrayBucket::AddBackCrt`** (none -> fast -> bigger fast -> heap -> grown heap),
under every fault: a failure leaves the monitor holding exactly what it held (a heap storage obtained before a throwing creator
has been given back); a success leaves it holding the array's new heap block (if any) and new value objects, plus the frame. -/
theorem C03_multimap_array_add (cfg : Cfg) (b : VB) (v : Nat) (f : VFlt) (w : W) (FB : List Blk) (FE : List Nat)
    (h : Led w (hbk cfg b ++ FB) (b.objs ++ FE)) : VPost cfg b FB FE (vbAdd cfg b v f w) :=
  vbAdd_led cfg b v f w FB FE h

/-- **… and of `RemoveBack` / `Remove(iter)`** (fast: the last object is destroyed; heap: destroyed, then `Array::Shrink` allocates
the smaller storage, relocates, frees the old one - a refused allocation is swallowed; last value: `pvRemoveAll` destroys the
values and frees the heap storage). -/
theorem C03_multimap_array_remove (cfg : Cfg) (b : VB) (i : Nat) (f : VFlt) (w : W) (FB : List Blk) (FE : List Nat)
    (h : Led w (hbk cfg b ++ FB) (b.objs ++ FE)) : VPost cfg b FB FE (vbRemoveAt cfg b i f w) :=
  vbRemoveAt_led cfg b i f w FB FE h

/-! Non-vacuity: Open8-like key table, nothrow-move keys and values, `maxFastCount = 2`: key 1 gains five values (fast 1 -> fast
2 -> heap of capacity 4 -> grown heap), with a refused heap storage and a throwing creator on the way; a second key; a copy
assignment that fails at the second key; removals that shrink and finally release the heap array; destruction. -/
def exCfg : Cfg :=
  { h := { sp := { maxCount := 7, quad := true, fullFrom := 7, unlimited := false, bound := .none, cap := .base, baseShift := true,
                   logStart := 1, nothrowReloc := true },
           cat := .nmove, hdr := 24, bsz := 120, psz := 8, csz := 16 },
    mf := 2, vcat := .nmove, isz := 8, vsz := 200 }
def exOps : List OpT :=
  [{ op := .add false 1 0 10 {}, pa := { gets := [414] } }, { op := .add false 1 0 11 {} },
   { op := .add false 1 0 12 { v := { heap := true } } }, { op := .add false 1 0 12 { v := { create := true } } },
   { op := .add false 1 0 12 {} }, { op := .add false 1 0 13 {} }, { op := .add false 1 0 14 {} },
   { op := .add false 2 0 20 { k := { create := true } } }, { op := .add false 2 0 20 {} },
   { op := .copyTo {} (fun n => if n = 1 then { v := { create := true } } else {}) }, { op := .copyTo {} (fun _ => {}) },
   { op := .removeValue 1 0 {} }]

/-- key 1 holds four values in a heap array of capacity 8 (64 bytes); B is a copy (heap array of capacity 4 = 32 bytes) -/
example : ((getV (run exCfg id (Sys.init exCfg) exOps).a.vbs 1).arr.rep, (getV (run exCfg id (Sys.init exCfg) exOps).a.vbs 1).heap.map (·.2),
    (getV (run exCfg id (Sys.init exCfg) exOps).b.vbs 1).heap.map (·.2)) = (.heap 8, some 64, some 40) := by decide +kernel
/-- the monitor has accepted all events of this history and holds exactly the blocks and objects of the books … -/
example : (Ledger.run Ledger.St.init (run exCfg id (Sys.init exCfg) exOps).w.evs).map (fun s => s.outstanding) =
    some (((run exCfg id (Sys.init exCfg) exOps).blocks exCfg).length, (run exCfg id (Sys.init exCfg) exOps).elems.length) := by
  decide +kernel
example : (((run exCfg id (Sys.init exCfg) exOps).blocks exCfg).length, (run exCfg id (Sys.init exCfg) exOps).elems.length) = (11, 15) := by
  decide +kernel
/-- … and after destruction nothing -/
example : Ledger.balanced (finish exCfg (run exCfg id (Sys.init exCfg) exOps)).evs = true := by decide +kernel
/-- the monitor is not vacuous on such traces: dropping the last event (a crew block is not given back) is a leak -/
example : Ledger.balanced (finish exCfg (run exCfg id (Sys.init exCfg) exOps)).evs.dropLast = false := by decide +kernel

end Momo.MML
