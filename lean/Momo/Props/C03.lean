import Momo.Proof.LedgerObj
import Momo.Proof.LedgerPool
import Momo.Proof.LedgerVal
import Momo.Props.C09
/-!
# C03 — Every byte and every element is released exactly once, never touched after

The property speaks about what a container does to the memory manager and to its element objects — a list of
events (`Momo.Ledger.Ev`: alloc / dealloc with manager class and size, construct / destroy / relocate / use of an
element, touch of a block). This file states

1. what C03 demands of such a list, on the list itself (`Disciplined`, `NothingLeft` — Proof/Ledger.lean), and that the
   executable monitor `Ledger.run` (the judge of every harness history) accepts exactly the disciplined lists and ends
   clean exactly when nothing is left: the monitor is sound and complete;
2. what discipline means event by event, by positions and by counting: each block given back exactly once, with its
   size, through an equal manager, nothing touched outside live blocks, each element destroyed exactly once, never
   used afterwards;
3. that the event traces PRODUCED by the container-level models are disciplined for every history and fault schedule
   they quantify over (`C03_obj_…`, `C03_pool_…`, `C03_val_…`).

`C03_full` is the whole-library claim; it is not provable here (it quantifies over the C++ containers). What is
proved is named `…_partial` where it is a part of it. Memory safety proper — no read or write outside live blocks by
the container's own code — is visible to the ledger only through `touch` events of element objects; beyond that it is
run-time evidence (ASan/UBSan on every harness), never a theorem.
-/
namespace Momo.Ledger

variable {β : Type} [DecidableEq β]

/-- **C03 at full strength** for a family of observed histories: every event list a momo container can produce
(`Produces tr`: `tr` is the complete list of manager calls and element life-cycle events of some history of operations,
exceptions included, up to and including the destruction of the containers) is disciplined and leaves nothing behind.
The theorems below discharge this for the traces of the models; for the real containers the verified monitor checks it
history by history at run time. -/
def C03_full (Produces : List (Ev β) → Prop) : Prop :=
  ∀ tr, Produces tr → Disciplined tr ∧ NothingLeft tr

/-! ## 1. the monitor is the specification -/

/-- **Soundness of the monitor.** If the monitor accepts a history, every event in it is admissible where it stands:
no block is handed out while live, each `dealloc` names a block that is outstanding *with that manager class and that
size*, each construction happens where no object lives, each destruction / use / relocation concerns a living object,
each touch lies inside a live block. -/
theorem C03_monitor_sound (tr : List (Ev β)) (s : St β) (h : run St.init tr = some s) : Disciplined tr :=
  disciplined_of_run h

/-- **Completeness of the monitor.** A history with those properties is accepted: the monitor raises no false alarm. -/
theorem C03_monitor_complete (tr : List (Ev β)) (h : Disciplined tr) : ∃ s, run St.init tr = some s :=
  run_of_disciplined h

/-- the monitor's verdict "accepted and clean" is exactly "disciplined and nothing left" -/
theorem C03_balanced_iff (tr : List (Ev β)) : balanced tr = true ↔ Disciplined tr ∧ NothingLeft tr := by
  unfold balanced
  constructor
  · intro h
    cases hr : run St.init tr with
    | none => rw [hr] at h; cases h
    | some s => rw [hr] at h; exact ⟨disciplined_of_run hr, (clean_iff_nothingLeft hr).mp h⟩
  · rintro ⟨hd, hn⟩
    obtain ⟨s, hr⟩ := run_of_disciplined hd
    rw [hr]; exact (clean_iff_nothingLeft hr).mpr hn

/-- "Clearing with shrink and destruction leave zero outstanding blocks and zero live elements": the numbers the
monitor prints at the end of a history are zero iff no block is open and no element alive after the trace. -/
theorem C03_outstanding_zero_iff (tr : List (Ev β)) (s : St β) (h : run St.init tr = some s) :
    s.outstanding = (0, 0) ↔ NothingLeft tr := by
  rw [← clean_iff_nothingLeft h]
  unfold St.outstanding St.clean
  cases s.blocks <;> cases s.elems <;> simp

/-! ## 2. what an accepted, clean history looks like -/

/-- **Every block is given back exactly once, with the size it was requested with, through an equal manager.**
After any `alloc m b n` the next event that concerns the life of block `b` is `dealloc m b n` — same manager class,
same size; nothing in between allocates or frees `b`. -/
theorem C03_block_released_once (tr pre post : List (Ev β)) (s : St β) (b : β) (m n : Nat)
    (h : run St.init tr = some s) (hclean : s.clean = true) (htr : tr = pre ++ .alloc m b n :: post) :
    ∃ mid post', post = mid ++ .dealloc m b n :: post' ∧ ∀ ev ∈ mid, ev.lifeB b = false :=
  released_once (disciplined_of_run h) (((clean_iff_nothingLeft h).mp hclean).1 b) htr

/-- … and conversely every `dealloc m b n` answers an earlier `alloc m b n` of the same block that has not been
answered yet (no double free, no free of a foreign block, no wrong size, no unequal manager). -/
theorem C03_dealloc_matches_alloc (tr pre post : List (Ev β)) (s : St β) (b : β) (m n : Nat)
    (h : run St.init tr = some s) (htr : tr = pre ++ .dealloc m b n :: post) :
    ∃ p1 p2, pre = p1 ++ .alloc m b n :: p2 ∧ ∀ ev ∈ p2, ev.lifeB b = false :=
  dealloc_matches (disciplined_of_run h) htr

/-- counting form: as many `dealloc`s as `alloc`s of every block — with fresh block ids (each id allocated once, as the
harness numbers them) exactly one `dealloc` per block. -/
theorem C03_block_counts (tr : List (Ev β)) (s : St β) (b : β) (h : run St.init tr = some s) (hclean : s.clean = true) :
    deallocs b tr = allocs b tr := by
  have := count_blocks b tr St.init s h
  unfold St.clean at hclean
  simp only [Bool.and_eq_true, List.isEmpty_iff] at hclean
  simp [openCount, St.init, findB, hclean.1] at this
  omega

/-- **No memory is touched outside live blocks** (as far as events report it): every `touch b off len` falls between
the `alloc` of `b` and its `dealloc`, inside the requested size. -/
theorem C03_touch_inside_live (tr pre post : List (Ev β)) (s : St β) (b : β) (off len : Nat)
    (h : run St.init tr = some s) (htr : tr = pre ++ .touch b off len :: post) :
    ∃ m n p1 p2, pre = p1 ++ .alloc m b n :: p2 ∧ (∀ ev ∈ p2, ev.lifeB b = false) ∧ off + len ≤ n := by
  obtain ⟨m, n, ho, hle⟩ := disciplined_of_run h pre _ post htr
  obtain ⟨p1, p2, h1, h2⟩ := (openAs_iff_split b m n pre).mp ho
  exact ⟨m, n, p1, p2, h1, h2, hle⟩

/-- **Every element that is constructed is destroyed exactly once.** After any event that brings element `e` into
existence (a constructor, or a relocation to `e`) the next life-cycle event of `e` is its end: its destructor, or a
relocation away from it; no second construction, no second end in between. -/
theorem C03_element_ended_once (tr pre post : List (Ev β)) (s : St β) (e : Nat) (ev : Ev β)
    (h : run St.init tr = some s) (hclean : s.clean = true) (htr : tr = pre ++ ev :: post) (hb : ev.begins e = true) :
    ∃ mid x post', post = mid ++ x :: post' ∧ x.ends e = true ∧ x.begins e = false ∧ ∀ y ∈ mid, y.lifeE e = false :=
  ended_once (disciplined_of_run h) (((clean_iff_nothingLeft h).mp hclean).2 e) htr hb

/-- **… and is never used after destruction or relocation**: a `use e` that follows an end of `e` is separated from
it by a new beginning of `e`. -/
theorem C03_no_use_after_end (tr pre mid post : List (Ev β)) (s : St β) (e : Nat) (x : Ev β)
    (h : run St.init tr = some s) (htr : tr = pre ++ x :: (mid ++ .use e :: post)) (hx : x.ends e = true) :
    ∃ y ∈ mid, y.begins e = true :=
  no_use_after_end (disciplined_of_run h) htr hx

/-- every use, destruction and relocation concerns an element that is alive at that moment: the last life-cycle event
before it is a beginning -/
theorem C03_use_alive (tr pre post : List (Ev β)) (s : St β) (e : Nat)
    (h : run St.init tr = some s) (htr : tr = pre ++ .use e :: post) :
    ∃ p1 ev p2, pre = p1 ++ ev :: p2 ∧ ev.begins e = true ∧ ev.ends e = false ∧ ∀ x ∈ p2, x.lifeE e = false :=
  (alive_iff_split e pre).mp (disciplined_of_run h pre _ post htr)

/-- counting form: every element ends as often as it begins -/
theorem C03_element_counts (tr : List (Ev β)) (s : St β) (e : Nat) (h : run St.init tr = some s) (hclean : s.clean = true) :
    ended e tr = begun e tr := by
  have := count_elems e tr St.init s h
  unfold St.clean at hclean
  simp only [Bool.and_eq_true, List.isEmpty_iff] at hclean
  simp [aliveCount, St.init, memE, hclean.2] at this
  omega

/-! ## 3. the traces of the models are disciplined -/

/-- **Object life-cycle model, `RelocateCreate`** (growth of buckets, nodes, arrays), for every relocation category,
every element count and every fault schedule: the construction / destruction trace recorded by the model is accepted
by the ledger monitor, and the elements alive afterwards are exactly the objects of the resulting memory — all sources
gone and all destinations alive on success, everything as before on failure (`C04_relocateCreate_strong/ok`). -/
theorem C03_obj_relocateCreate {occ0 : Nat → Bool} (c : Obj.Cat) (st : Obj.St) (src dst count newAddr v : Nat)
    (ht : Obj.TraceOK occ0 st) (pre : Obj.Pre st src dst count newAddr) (s : St Nat) (hs : Represents s occ0) :
    ∃ s', run s ((Obj.relocateCreate c st src dst count newAddr v).1.evs.map ofObj) = some s' ∧
      Represents s' (Obj.occOf (Obj.relocateCreate c st src dst count newAddr v).1.mem) :=
  let ⟨s', h1, _, h3⟩ := traceOK_accepted (Obj.relocateCreate_spec c st src dst count newAddr v ht pre).1 hs
  ⟨s', h1, h3⟩

/-- **`CopyExec`** (creation of a key together with its value), every fault schedule: accepted, and the live elements
are those of the resulting memory. -/
theorem C03_obj_copyExec {occ0 : Nat → Bool} (st : Obj.St) (src dst newAddr v : Nat) (ht : Obj.TraceOK occ0 st)
    (h1 : st.mem src ≠ .raw) (h2 : st.mem dst = .raw) (h3 : st.mem newAddr = .raw) (hne : newAddr ≠ dst)
    (s : St Nat) (hs : Represents s occ0) :
    ∃ s', run s ((Obj.copyExec st src dst newAddr v).1.evs.map ofObj) = some s' ∧
      Represents s' (Obj.occOf (Obj.copyExec st src dst newAddr v).1.mem) :=
  let ⟨s', h1, _, h3⟩ := traceOK_accepted (Obj.copyExec_spec st src dst newAddr v ht h1 h2 h3 hne).1 hs
  ⟨s', h1, h3⟩

/-- `Obj.replay` (the trace check inside C04's and C10's theorems) is the element part of the C03 monitor: the two
agree on every trace from every occupancy, so each `TraceOK` proved anywhere in the library is a C03 statement. -/
theorem C03_obj_replay_is_monitor (evs : List Obj.Ev) (occ : Nat → Bool) (s : St Nat) (hs : Represents s occ) :
    (Obj.replay occ evs).isSome = (run s (evs.map ofObj)).isSome := by
  have := replay_agrees evs occ s hs
  cases hr : Obj.replay occ evs with
  | none => rw [hr] at this; simp [this]
  | some occ' => rw [hr] at this; obtain ⟨s', h1, _⟩ := this; simp [h1]

/-- **MemPool, every legal history** (`Pool.Reach`: any sequence of `Allocate` - succeeding or refused by the manager -,
`Deallocate` of live blocks, `DeallocateIf`, `DeallocateAll`, `MergeFrom`; Props/C09.lean), `blockCount > 1`: the calls
made to the memory manager up to any point are accepted by the C03 monitor, and once `DeallocateAll` has run - at any
time - the history is balanced: every buffer obtained from the manager has been given back exactly once with the size
it was requested with (`C03_block_released_once` applies to it). Hypothesis `FreshMallocs`: the manager never answers
with an address that is still outstanding (its contract; not implied by `Pool.Contract`, which speaks about one
answer at a time). -/
theorem C03_pool_history_all_returned (m : Nat) (P : Pool.Params) (hL : P.Legal) (hN2 : 2 ≤ P.N) (p : Pool.Pool)
    (es : List Pool.Ev) (h : Pool.Reach P p es) :
    ∃ evs, Pool.deallocateAll P p = .ok () Pool.Pool.empty evs ∧
      (FreshMallocs [] (es ++ evs) → balanced ((es ++ evs).map (ofPool m)) = true) := by
  obtain ⟨_, _, _, ⟨evs, h1, h2⟩, _⟩ := Pool.C09_history P hL hN2 p es h
  exact ⟨evs, h1, fun hf => poolLedger_balanced m _ h2 hf⟩

/-- … and the destructor of a pool without live blocks leaves nothing outstanding either. -/
theorem C03_pool_destroy_all_returned (m : Nat) (P : Pool.Params) (hL : P.Legal) (hN2 : 2 ≤ P.N) (p : Pool.Pool)
    (es : List Pool.Ev) (h : Pool.Reach P p es) (hlive : p.live P = []) :
    ∃ evs, Pool.destroy P p = .ok () Pool.Pool.empty evs ∧
      (FreshMallocs [] (es ++ evs) → balanced ((es ++ evs).map (ofPool m)) = true) := by
  obtain ⟨_, _, _, _, hd⟩ := Pool.C09_history P hL hN2 p es h
  obtain ⟨evs, h1, h2⟩ := hd hlive
  exact ⟨evs, h1, fun hf => poolLedger_balanced m _ h2 hf⟩

/-- the pool's own multiset ledger (the one C09's theorems speak about) and the C03 monitor agree on every event list
that respects the manager's contract: whatever C09 proves exact is accepted here -/
theorem C03_pool_ledger_is_monitor (m : Nat) (evs : List Pool.Ev) (L' : List (Int × Int))
    (h : Pool.ledger [] evs = some L') (hf : FreshMallocs [] evs) :
    ∃ st, run St.init (evs.map (ofPool m)) = some st ∧ Holds m st L' := by
  obtain ⟨st, h1, h2, _, _⟩ := poolLedger_accepted m evs [] L' St.init h (by simp [NodupKeys]) hf
    (by intro a; simp [St.init, findB, lk])
  exact ⟨st, h1, h2⟩

/-- **Value-semantics model, every history** (`Momo.Val`, C14: constructors, copy / move construction and assignment,
Swap, Clear, destructors, mutations with any reported layout, the allocator-aware operations of the stdish wrappers, over
any number of objects and manager identities): the manager calls the model makes are accepted by the C03 monitor -
in particular every block goes back to the manager class that allocated it, whatever moves, swaps and assignments
happened in between - and the blocks outstanding in the monitor are exactly the cells of the model's heap. -/
theorem C03_val_history_accepted (cfg : Val.Cfg) (ops : List Val.Op) (w : Val.World) (evs : List Val.Ev)
    (h : runOpsEv cfg Val.World.init ops = some (w, evs)) :
    ∃ st, run St.init (blockEvs evs) = some st ∧ Sync st w.heap := by
  have hs0 : Sync (St.init : St Nat) Val.World.init.heap := by
    intro x; simp [St.init, findB, Val.World.init, Val.Heap.empty, Val.Heap.get, Val.lookupH]
  obtain ⟨st, h1, _, h3, _⟩ := runOps_sync cfg ops Val.WF.init h hs0
  exact ⟨st, h1, h3⟩

/-- **… and destruction leaves zero outstanding blocks**: any history of value operations after which every object has
been destroyed is balanced - each block the managers handed out was given back exactly once through an equal manager
(`C03_block_released_once`, `C03_block_counts` apply). -/
theorem C03_val_history_all_destroyed (cfg : Val.Cfg) (ops : List Val.Op) (w : Val.World) (evs : List Val.Ev)
    (h : runOpsEv cfg Val.World.init ops = some (w, evs)) (hdead : ∀ i, w.objs i = none) :
    balanced (blockEvs evs) = true :=
  runOps_all_destroyed_balanced cfg ops h hdead

/-! ## non-vacuity -/

/-- a history with two managers, a growth step with relocation, a copy, and complete release -/
def exTrace : List (Ev Nat) :=
  [.alloc 1 10 64, .construct 1, .touch 10 0 8, .construct 2, .touch 10 8 8,
   .alloc 1 11 128, .relocate 1 3, .relocate 2 4, .dealloc 1 10 64,
   .alloc 2 12 32, .use 3, .construct 5, .destroy 5, .dealloc 2 12 32,
   .destroy 3, .destroy 4, .dealloc 1 11 128]

example : balanced exTrace = true := by decide
example : Disciplined exTrace ∧ NothingLeft exTrace := (C03_balanced_iff exTrace).mp (by decide)
-- the monitor rejects: double free, wrong size, unequal manager, use after relocation, destroy twice, touch after free
example : firstReject St.init [Ev.alloc 1 10 64, .dealloc 1 10 64, .dealloc 1 10 64] 0 = some (2, .deallocNotLive) := by decide
example : firstReject St.init [Ev.alloc 1 10 64, .dealloc 1 10 32] 0 = some (1, .deallocWrongSize) := by decide
example : firstReject St.init [Ev.alloc 1 10 64, .dealloc 2 10 64] 0 = some (1, .deallocWrongManager) := by decide
example : firstReject (β := Nat) St.init [.construct 1, .relocate 1 2, .use 1] 0 = some (2, .useNotLive) := by decide
example : firstReject (β := Nat) St.init [.construct 1, .destroy 1, .destroy 1] 0 = some (2, .destroyNotLive) := by decide
example : firstReject St.init [Ev.alloc 1 10 64, .dealloc 1 10 64, .touch 10 0 1] 0 = some (2, .touchDeadBlock) := by decide
example : firstReject St.init [Ev.alloc 1 10 64, .touch 10 60 8] 0 = some (1, .touchOutOfBounds) := by decide
-- a leak is accepted event by event but not clean
example : balanced [Ev.alloc 1 10 64, .construct 1, .destroy 1] = false := by decide
-- the object-model instance: `Obj.exSt` (Props/C04.lean's start memory) is represented by a three-element state
example : Represents ({ elems := [100, 101, 102] } : St Nat) (Obj.occOf (fun a => if 100 ≤ a ∧ a < 103 then .live (1000 + (a - 100)) else .raw)) := by
  intro a
  simp only [memE, Obj.occOf]
  by_cases h0 : a = 100
  · subst h0; decide
  · by_cases h1 : a = 101
    · subst h1; decide
    · by_cases h2 : a = 102
      · subst h2; decide
      · have : ¬ (100 ≤ a ∧ a < 103) := by omega
        have e0 : ¬ 100 = a := fun h => h0 h.symm
        have e1 : ¬ 101 = a := fun h => h1 h.symm
        have e2 : ¬ 102 = a := fun h => h2 h.symm
        simp [this, e0, e1, e2]

-- a value-model history: two hash-set-like objects (crew block + one body block each) with managers 1 and 2, a move
-- assignment, a swap, destruction of both: accepted and balanced
def exValOps : List Val.Op :=
  [.new 0 1, .new 1 2, .mutate 0 [] [[1, 2, 3]] 0, .mutate 1 [] [[7]] 0, .copyCtor 2 0, .moveAssign 1 0,
   .swap 1 2, .destroy 0, .destroy 1, .destroy 2]
def exValCfg : Val.Cfg := { k := { crewPtr := true } }
example : ((runOpsEv exValCfg Val.World.init exValOps).map (fun r => balanced (blockEvs r.2))) = some true := by decide
-- a pool event list: two buffers obtained, both returned
example : balanced ([Pool.Ev.malloc 4096 264, .malloc 8192 264, .free 4096 264, .free 8192 264].map (ofPool 1)) = true := by decide
example : FreshMallocs [] [Pool.Ev.malloc 4096 264, .malloc 8192 264, .free 4096 264, .free 8192 264] := by
  simp [FreshMallocs]

end Momo.Ledger
