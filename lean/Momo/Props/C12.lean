import Momo.Proof.HashMetaChain
import Momo.Proof.HashMetaBucket
import Momo.Proof.TrEqHashMeta
import Momo.Proof.TrEqWave2Bucket
import Momo.Proof.TrEqWave3
/-!
# C12 — Growth reusing stored hash bits places elements where a full rehash would

Property theorems only. Model: `Momo/Model/HashMeta.lean`; lemmas: `Momo/Proof/HashMeta*.lean`.

Statement (properties.jsonl): for every hash value, every table size, every collision displacement and every
growth step, an element stored in a hash table is still found after the table grows, whether the table recomputes
its hash or reconstructs the needed hash bits from what it stored next to the element; reconstruction is used only
when the stored bits suffice. The same holds across any chain of successive growths.

Quantifier: all 64-bit hash codes × log2(bucket count) 0..57 × growth steps × probe distance × slot ×
bucket types that store hash parts (LimP4, Open2N2, One) × chains of growth steps.
-/
namespace Momo.HashMeta

/-- **C12 (a), LimP4: "reconstructs the needed hash bits from what it stored next to the element".**
For every 64-bit hash code `h`, every table size `2^L` (`L ≤ 57`), every displacement `p` (the byte was written by
`pvSetHashProbe(h, L, p)` for the element that linear probing put `p` buckets after its start bucket) and every new
size `2^L'`: whenever `GetHashCodePart` does not call the full getter, the code it returns is exactly the low
`knownBits L` bits of `h` plus the seven top bits of `h`; it selects the same start bucket in the new table, has the same short hash,
and makes `pvSetHashProbe` write the same byte for every displacement `p'` in the new table. -/
theorem C12_limp4_reconstruct (h L L' p full : Nat) (hh : h < 2 ^ 64) (hL : L ≤ 57)
    (hu : P4.useFull (P4.encByte h L p) L L' = false) :
    P4.getHashCodePart (P4.encByte h L p) (P4.shortHash h) (Probe.seqLin L (Probe.start L h) p) L L' full
        = partOf (P4.knownBits L) h ∧
    Probe.start L' (P4.getHashCodePart (P4.encByte h L p) (P4.shortHash h) (Probe.seqLin L (Probe.start L h) p) L L' full)
        = Probe.start L' h ∧
    P4.shortHash (P4.getHashCodePart (P4.encByte h L p) (P4.shortHash h) (Probe.seqLin L (Probe.start L h) p) L L' full)
        = P4.shortHash h ∧
    ∀ p', P4.encByte (P4.getHashCodePart (P4.encByte h L p) (P4.shortHash h) (Probe.seqLin L (Probe.start L h) p) L L' full) L' p'
        = P4.encByte h L' p' := by
  have hidx : Probe.seqLin L (Probe.start L h) p = (h % 2 ^ L + p) % 2 ^ L := by
    rw [Probe.seqLin_closed L _ p (Probe.start_lt L h), start_eq]
  simp only [P4.useFull, Bool.or_eq_false_iff, decide_eq_false_iff_not, bne_eq_false_iff_eq] at hu
  obtain ⟨hu1, hgrp⟩ := hu
  have hp := P4.usable_inrange h L p hu1
  have hval : P4.getHashCodePart (P4.encByte h L p) (P4.shortHash h) (Probe.seqLin L (Probe.start L h) p) L L' full
      = partOf (P4.knownBits L) h := by
    unfold P4.getHashCodePart
    have : P4.useFull (P4.encByte h L p) L L' = false := by
      simp only [P4.useFull, Bool.or_eq_false_iff, decide_eq_false_iff_not, bne_eq_false_iff_eq]; exact ⟨hu1, hgrp⟩
    rw [this, hidx]
    simp only [Bool.false_eq_true, if_false]
    exact P4.decode_enc h L p hh hL hp
  rw [hval, P4.knownBits_eq]
  have hag : Agree (gbits L') (partOf (gbits L) h) h := by
    rw [← P4.gbits_of_group hgrp]; exact partOf_agree _ h (gbits_le L hL)
  refine ⟨rfl, ?_, P4.agree_short hag, fun p' => P4.agree_enc L' p' hag⟩
  rw [start_eq, start_eq]; exact hag.low L' (le_gbits L')

/-- **C12 (a), Open2N2** (triangular displacement, eight payload bits). Growth always enlarges the table (`L < L'`:
`pvGetNewLogBucketCount` checks `shift > 0`). Whenever the full getter is not called, the returned code is exactly
the low `knownBits L` bits plus the seven top bits of `h`, selects the same start bucket, has the same short hash, and —
unless the new size is the first of its group, whose byte is never read (`C12_open2n2_first_size_byte_never_read`) —
makes `AddCrt` write the same byte. -/
theorem C12_open2n2_reconstruct (h L L' p full : Nat) (hh : h < 2 ^ 64) (hL : L ≤ 57) (hlt : L < L')
    (hu : O2.useFull (O2.encByte h L p) L L' = false) :
    O2.getHashCodePart (O2.encByte h L p) (O2.shortHash h) (Probe.seqQuad L (Probe.start L h) p) L L' full
        = partOf (O2.knownBits L) h ∧
    Probe.start L' (O2.getHashCodePart (O2.encByte h L p) (O2.shortHash h) (Probe.seqQuad L (Probe.start L h) p) L L' full)
        = Probe.start L' h ∧
    O2.shortHash (O2.getHashCodePart (O2.encByte h L p) (O2.shortHash h) (Probe.seqQuad L (Probe.start L h) p) L L' full)
        = O2.shortHash h ∧
    (0 < O2.probeShift L' → ∀ p',
      O2.encByte (O2.getHashCodePart (O2.encByte h L p) (O2.shortHash h) (Probe.seqQuad L (Probe.start L h) p) L L' full) L' p'
        = O2.encByte h L' p') := by
  have hidx : Probe.seqQuad L (Probe.start L h) p = (h % 2 ^ L + Probe.tri p) % 2 ^ L := by
    rw [Probe.seqQuad_closed L _ p (Probe.start_lt L h), start_eq]
  have hu' := hu
  simp only [O2.useFull, Bool.or_eq_false_iff, beq_eq_false_iff_ne, ne_eq, bne_eq_false_iff_eq] at hu
  obtain ⟨hu1, hgrp⟩ := hu
  have hp := O2.usable_inrange h L p hu1
  have hs0 := O2.probeShift_pos hlt hgrp
  have hval : O2.getHashCodePart (O2.encByte h L p) (O2.shortHash h) (Probe.seqQuad L (Probe.start L h) p) L L' full
      = partOf (O2.knownBits L) h := by
    unfold O2.getHashCodePart
    rw [hu', hidx]
    simp only [Bool.false_eq_true, if_false]
    exact O2.decode_enc h L p hh hL hs0 hp
  rw [hval, O2.knownBits_eq L hs0]
  have hag : Agree (gbits L') (partOf (gbits L) h) h := by
    rw [← O2.gbits_of_group hgrp]; exact partOf_agree _ h (gbits_le L hL)
  refine ⟨rfl, ?_, O2.agree_short hag, fun hs' p' => O2.agree_enc L' p' hs' hag⟩
  rw [start_eq, start_eq]; exact hag.low L' (le_gbits L')

/-- **C12 (a), One** (8-byte state `(hashCode << 1) | 1`): `GetHashCodePart` returns the hash code without its top
bit; for every table size up to `2^63` this selects the same start bucket, and `AddCrt` stores the same state
(so `Find`, which compares whole states, still matches). With a smaller state the full getter is always called. -/
theorem C12_one_reconstruct (h full L' : Nat) (hL' : L' ≤ 63) :
    One.getHashCodePart 8 (One.hashState 8 h) full = h % 2 ^ 63 ∧
    Probe.start L' (One.getHashCodePart 8 (One.hashState 8 h) full) = Probe.start L' h ∧
    One.hashState 8 (One.getHashCodePart 8 (One.hashState 8 h) full) = One.hashState 8 h ∧
    (∀ stateSize state, stateSize < 8 → One.getHashCodePart stateSize state full = full) := by
  rw [One.part8]
  refine ⟨rfl, ?_, One.state8_congr (Nat.mod_mod _ _), ?_⟩
  · rw [start_eq, start_eq, Nat.mod_mod_of_dvd h (Nat.pow_dvd_pow 2 hL')]
  · intro s st hs; simp [One.getHashCodePart, hs]

/-- **C12 (b): "reconstruction is used only when the stored bits suffice".** If `GetHashCodePart` of LimP4 does not
call the full getter then the consumed byte is a genuine hash-probe byte (marker bit set, not the empty value — in
particular not a short hash that took over the slot) and every index bit of the new size lies among the bits the
byte and the bucket index yield (`L' ≤ knownBits L`). For Open2N2 (growth `L < L'`) likewise, and the probe shift is
positive (the `MOMO_ASSERT(probeShift > 0)` of the source can not fire). -/
theorem C12_reconstruction_only_when_bits_suffice (byte L L' : Nat) (hb : byte < 256) :
    (P4.useFull byte L L' = false → 128 ≤ byte ∧ byte ≠ 255 ∧ L' ≤ P4.knownBits L ∧ P4.knownBits L' = P4.knownBits L) ∧
    (O2.useFull byte L L' = false → L < L' →
        byte ≠ 255 ∧ 0 < O2.probeShift L ∧ L' ≤ O2.knownBits L) := by
  constructor
  · intro hu
    simp only [P4.useFull, Bool.or_eq_false_iff, decide_eq_false_iff_not, bne_eq_false_iff_eq] at hu
    obtain ⟨hu1, hgrp⟩ := hu
    have h1 : ¬ (u8 (byte + 1) ≤ 128) := hu1
    unfold u8 at h1
    rw [P4.knownBits_eq, P4.knownBits_eq, ← P4.gbits_of_group hgrp]
    refine ⟨by omega, by omega, ?_, rfl⟩
    rw [P4.gbits_of_group hgrp]; exact le_gbits L'
  · intro hu hlt
    simp only [O2.useFull, Bool.or_eq_false_iff, beq_eq_false_iff_ne, ne_eq, bne_eq_false_iff_eq] at hu
    obtain ⟨hu1, hgrp⟩ := hu
    have hs0 := O2.probeShift_pos hlt hgrp
    refine ⟨hu1, hs0, ?_⟩
    rw [O2.knownBits_eq L hs0, O2.gbits_of_group hgrp]; exact le_gbits L'

/-- Open2N2's payload boundary is offset by one from the sufficiency test: a byte written at the first size of a group
(`probeShift = 0`, i.e. `L ≡ 1 mod 8`) from a reconstructed code may hold bits the code does not have — and no later
growth ever reads it. -/
theorem C12_open2n2_first_size_byte_never_read (byte L L' : Nat) (hs : O2.probeShift L = 0) (hlt : L < L') :
    O2.useFull byte L L' = true := by
  by_cases hu : O2.useFull byte L L' = true
  · exact hu
  · exfalso
    simp only [O2.useFull, Bool.or_eq_true, beq_iff_eq, bne_iff_ne, ne_eq, not_or, Decidable.not_not] at hu
    have := O2.probeShift_pos hlt hu.2
    omega

/-- **C12 (c): "placed exactly where a full rehash would place it … across any chain of successive growths".**
For every bucket kind, every 64-bit hash code, every initial table `2^L0` with any occupancy `f0`, and every chain of
growth steps (strictly increasing sizes up to `2^57`, each with an arbitrary occupancy of the new table at the moment
the element is re-inserted): re-inserting at every step with the code from `GetHashCodePart` (`chainPart`) yields the
same start bucket, displacement, landing bucket, short hash and hash-probe byte as recomputing the hash at every step
(`chainFull`) — and fails ("Hash table is full") exactly when that fails. (The byte may differ only for Open2N2 at the
first size of a group, where it is never read: `Placed.sameAs`.) -/
theorem C12_chain (k : Kind) (h : Nat) (hh : h < 2 ^ 64) (L0 : Nat) (hL0 : L0 ≤ 57) (f0 : Nat → Bool)
    (steps : List (Nat × (Nat → Bool))) (hch : GrowthChain 57 L0 steps) :
    sameAsOpt k (chainPart k h (place k L0 f0 h) steps) (chainFull k h (place k L0 f0 h) steps) :=
  chain_same k h hh steps L0 _ _ (rel_of_place k h L0 h f0 hh hL0 (AgreeK.refl k L0 h)) hch

/-- one growth step is the chain of length one -/
theorem C12_growth_step (k : Kind) (h : Nat) (hh : h < 2 ^ 64) (L L' : Nat) (hlt : L < L') (hL' : L' ≤ 57)
    (f f' : Nat → Bool) (st : Placed) (hst : place k L f h = some st) :
    sameAsOpt k (relocate k h st L' f') (rehash k h L' f') := by
  have := C12_chain k h hh L (by omega) f [(L', f')] ⟨hlt, hL', trivial⟩
  rw [hst] at this
  simpa [chainPart, chainFull] using this

/-- **C12 (d): "an element stored in a hash table is still found after the table grows".** Wherever a chain of
growths (performed with the stored bits) leaves the element, a lookup with the true hash code finds it: the start
bucket of the element is the start bucket `pvFind` computes from `h` (so the max-probe bound that `UpdateMaxProbe`
recorded there covers it, C13), its bucket is the one the probe sequence of `h` reaches after `probe` steps, hence among the buckets
`pvFind` examines for any bound `≥ probe`, and the stored short hash / hash state is the one `Find` compares with. -/
theorem C12_still_found (k : Kind) (h : Nat) (hh : h < 2 ^ 64) (L0 : Nat) (hL0 : L0 ≤ 57) (f0 : Nat → Bool)
    (steps : List (Nat × (Nat → Bool))) (hch : GrowthChain 57 L0 steps) (st : Placed)
    (hres : chainPart k h (place k L0 f0 h) steps = some st) (maxProbe : Nat) (hmp : st.probe ≤ maxProbe) :
    st.start = Probe.start st.L h ∧ st.short = k.short h ∧
    st.idx = Probe.seqOf k.quad st.L (Probe.start st.L h) st.probe ∧
    st.idx ∈ Probe.findSeq k.quad st.L (Probe.start st.L h) maxProbe := by
  have hs := C12_chain k h hh L0 hL0 f0 steps hch
  rw [hres] at hs
  cases hf : chainFull k h (place k L0 f0 h) steps with
  | none => rw [hf] at hs; simp [sameAsOpt] at hs
  | some b =>
    rw [hf] at hs
    obtain ⟨hL, hstart, hprobe, hidx, hshort, _⟩ := hs
    obtain ⟨L, f, hpl⟩ := chainFull_some k h steps _ b (fun x hx => ⟨L0, f0, hx⟩) hf
    unfold place at hpl
    have hspec := Probe.addProbe_spec k.quad L f (Probe.start L h)
    cases hadd : Probe.addProbe k.quad L f (Probe.start L h) with
    | none => rw [hadd] at hpl; cases hpl
    | some pi =>
      obtain ⟨p, idx⟩ := pi
      rw [hadd] at hpl hspec
      simp only [Option.some.injEq] at hpl
      subst hpl
      simp only at hL hstart hprobe hidx hshort
      rw [hL, hstart, hprobe, hidx, hshort]
      refine ⟨rfl, rfl, hspec.2.1, ?_⟩
      rw [hspec.2.1]
      unfold Probe.findSeq
      refine List.mem_map.mpr ⟨p, List.mem_range.mpr (by omega), ?_⟩
      cases k.quad <;> simp [Probe.seqOf]

/-- **C12 (e), LimP4 `meta_inv` + `count_decode`.** Over every legal add/remove history of one bucket (any
`hashCount ≥ 4`, `maxCount ≤ 4`), with `a` the abstract content (which element is at which array position now):
`pvGetCount` decodes the number of elements, `IsFull` is `count = maxCount`, every short hash belongs to the element
at its position, and every byte that `GetHashCodePart` would consume without calling the full getter is the byte
`pvSetHashProbe` wrote for the element that is at that position *now* (the compaction rules of `Remove`). -/
theorem C12_limp4_meta_inv (hc maxCount minMpi : Nat) (h4 : 4 ≤ hc) (hm : maxCount ≤ 4) (ops : List Op)
    (hl : legalHistP4 maxCount Abs.init ops) :
    (ops.foldl P4.Bucket.step (P4.Bucket.new hc maxCount minMpi)).count = (ops.foldl Abs.stepP4 Abs.init).n ∧
    (0 < maxCount → (ops.foldl P4.Bucket.step (P4.Bucket.new hc maxCount minMpi)).isFull
        = decide ((ops.foldl Abs.stepP4 Abs.init).n = maxCount)) ∧
    ∀ i, i < (ops.foldl Abs.stepP4 Abs.init).n →
      ((ops.foldl Abs.stepP4 Abs.init).it i).h < 2 ^ 64 ∧
      (ops.foldl P4.Bucket.step (P4.Bucket.new hc maxCount minMpi)).sh i
        = P4.shortHash ((ops.foldl Abs.stepP4 Abs.init).it i).h ∧
      ∀ L L', P4.useFull ((ops.foldl P4.Bucket.step (P4.Bucket.new hc maxCount minMpi)).sh
                ((ops.foldl P4.Bucket.step (P4.Bucket.new hc maxCount minMpi)).hc - 1 - i)) L L' = false →
        (ops.foldl P4.Bucket.step (P4.Bucket.new hc maxCount minMpi)).sh
            ((ops.foldl P4.Bucket.step (P4.Bucket.new hc maxCount minMpi)).hc - 1 - i)
          = P4.encByte ((ops.foldl Abs.stepP4 Abs.init).it i).h ((ops.foldl Abs.stepP4 Abs.init).it i).L
              ((ops.foldl Abs.stepP4 Abs.init).it i).p := by
  have hinv := P4.inv_hist ops (P4.Bucket.new hc maxCount minMpi) Abs.init (P4.inv_new hc maxCount minMpi h4 hm) hl
  have hmc : ∀ (ops : List Op) (b : P4.Bucket), (ops.foldl P4.Bucket.step b).maxCount = b.maxCount := by
    intro ops
    induction ops with
    | nil => intro b; rfl
    | cons op rest ih => intro b; simp only [List.foldl_cons]; rw [ih, P4.step_maxCount]
  refine ⟨P4.count_decode hinv, ?_, ?_⟩
  · intro hpos
    have := P4.isFull_decode hinv (by rw [hmc]; exact hpos)
    rw [hmc] at this
    exact this
  · intro i hi
    obtain ⟨h64, hsh⟩ := hinv.short i hi
    refine ⟨h64, hsh, ?_⟩
    intro L L' hu
    apply hinv.probe i hi
    simp only [P4.useFull, Bool.or_eq_false_iff, decide_eq_false_iff_not] at hu
    exact hu.1

/-- **C12 (e), Open2N2.** Over every legal add/remove history of one bucket (`maxCount ≤ 3`): the count field, the
short hash and the hash-probe byte of every occupied position belong to the element that is at that position now
(`Remove` moves both bytes together with the element), free positions hold the empty short hash (so `IsFull` reads
position 0 correctly). -/
theorem C12_open2n2_meta_inv (maxCount : Nat) (hm : maxCount ≤ 3) (ops : List Op)
    (hl : legalHistO2 maxCount Abs.init ops) :
    (ops.foldl O2.Bucket.step (O2.Bucket.new maxCount)).cnt = (ops.foldl (Abs.stepO2 maxCount) Abs.init).n ∧
    (∀ i, maxCount - (ops.foldl (Abs.stepO2 maxCount) Abs.init).n ≤ i → i < maxCount →
      (ops.foldl O2.Bucket.step (O2.Bucket.new maxCount)).sh i
        = O2.shortHash ((ops.foldl (Abs.stepO2 maxCount) Abs.init).it i).h ∧
      (ops.foldl O2.Bucket.step (O2.Bucket.new maxCount)).hp i
        = O2.encByte ((ops.foldl (Abs.stepO2 maxCount) Abs.init).it i).h
            ((ops.foldl (Abs.stepO2 maxCount) Abs.init).it i).L ((ops.foldl (Abs.stepO2 maxCount) Abs.init).it i).p) ∧
    (∀ i, i < maxCount - (ops.foldl (Abs.stepO2 maxCount) Abs.init).n →
      (ops.foldl O2.Bucket.step (O2.Bucket.new maxCount)).sh i = O2.emptyShortHash) := by
  have hinv := O2.inv_hist ops (O2.Bucket.new maxCount) Abs.init (O2.inv_new maxCount hm) hl
  have hmc : ∀ (ops : List Op) (b : O2.Bucket), (ops.foldl O2.Bucket.step b).maxCount = b.maxCount := by
    intro ops
    induction ops with
    | nil => intro b; rfl
    | cons op rest ih => intro b; simp only [List.foldl_cons]; rw [ih, O2.step_maxCount]
  have hmc' : (ops.foldl O2.Bucket.step (O2.Bucket.new maxCount)).maxCount = maxCount := by rw [hmc]; rfl
  have hnew : (O2.Bucket.new maxCount).maxCount = maxCount := rfl
  rw [hnew] at hinv
  refine ⟨hinv.cnt, ?_, ?_⟩
  · intro i h1 h2
    have := hinv.live i (by rw [hmc']; exact h1) (by rw [hmc']; exact h2)
    exact ⟨this.2.1, this.2.2⟩
  · intro i h1
    exact hinv.free i (by rw [hmc']; exact h1)

/-- **C12, bucket level end to end (LimP4).** After any legal history of a bucket, for the element now at position
`i` — added with hash code `h` at table size `2^L` (`L ≤ 57`) with displacement `p`, the bucket sitting where linear
probing puts it — the code `GetHashCodePart` returns for any new size `2^L'` of the same or a later group (the full
getter returning the true hash code `h`) selects the same start bucket as `h`, has the same short hash and makes
`pvSetHashProbe` write the same byte. -/
theorem C12_limp4_bucket_part (hc maxCount minMpi : Nat) (h4 : 4 ≤ hc) (hm : maxCount ≤ 4) (ops : List Op)
    (hl : legalHistP4 maxCount Abs.init ops) (i : Nat) (hi : i < (ops.foldl Abs.stepP4 Abs.init).n)
    (hL : ((ops.foldl Abs.stepP4 Abs.init).it i).L ≤ 57) (L' : Nat) :
    let b := ops.foldl P4.Bucket.step (P4.Bucket.new hc maxCount minMpi)
    let e := (ops.foldl Abs.stepP4 Abs.init).it i
    let c := b.getHashCodePart i (Probe.seqLin e.L (Probe.start e.L e.h) e.p) e.L L' e.h
    Probe.start L' c = Probe.start L' e.h ∧ P4.shortHash c = P4.shortHash e.h ∧
      ∀ p', P4.encByte c L' p' = P4.encByte e.h L' p' := by
  intro b e c
  obtain ⟨_, _, hall⟩ := C12_limp4_meta_inv hc maxCount minMpi h4 hm ops hl
  obtain ⟨h64, hsh, hprobe⟩ := hall i hi
  by_cases hu : P4.useFull (b.sh (b.hc - 1 - i)) e.L L' = true
  · have hc' : c = e.h := by
      show P4.getHashCodePart _ _ _ _ _ _ = _
      unfold P4.getHashCodePart; rw [hu]; rfl
    rw [hc']; exact ⟨rfl, rfl, fun _ => rfl⟩
  · have hu' : P4.useFull (b.sh (b.hc - 1 - i)) e.L L' = false := by
      cases hx : P4.useFull (b.sh (b.hc - 1 - i)) e.L L' <;> simp_all
    have hbyte := hprobe e.L L' hu'
    have hc' : c = P4.getHashCodePart (P4.encByte e.h e.L e.p) (P4.shortHash e.h)
        (Probe.seqLin e.L (Probe.start e.L e.h) e.p) e.L L' e.h := by
      show P4.getHashCodePart _ _ _ _ _ _ = _
      rw [hbyte, hsh]
    rw [hbyte] at hu'
    have := C12_limp4_reconstruct e.h e.L L' e.p e.h h64 hL hu'
    rw [hc']
    exact ⟨this.2.1, this.2.2.1, this.2.2.2⟩

/-! ## The same statements for the code as translated from the headers

`Momo.Tr.*` (lean/Momo/Translated/HashMeta.lean, HashProbe.lean) are regenerated by tools/translate.py from the current text of
`pvCalcShortHash`, `pvGetProbeShift`, `pvSetHashProbe`, `GetHashCodePart`, `AddCrt`, `Remove`, `pvGetHashState`,
`GetStartBucketIndex`, `GetNextBucketIndex` on every check; `Momo/Proof/TrEqHashMeta.lean`, `TrEqHashProbe.lean` prove them equal
to the model functions used above. -/

/-- **C12 (a) for `BucketLimP4` as translated from the header.** An element with 64-bit hash code `h` is added at table size
`2^L` (`L ≤ 57`) after `p` steps of the translated probe sequence, at position `index` of a bucket with `hashCount = hc` metadata
bytes whose hash-probe slot `hc-1-index` is not taken by a short hash: the translated `pvSetHashProbe` then the short-hash write
of `AddCrt`. For every new size `2^L'` the code the translated `GetHashCodePart` returns (the full getter returning the true hash
code) selects the same start bucket as `h` (translated `GetStartBucketIndex`), has the same short hash (translated
`pvCalcShortHash`) and makes the translated `pvSetHashProbe` write the same bytes for every displacement. -/
theorem C12_limp4_reconstruct_translated (sh : Nat → Nat) (hc index h L L' p : Nat) (hh : h < 2 ^ 64) (hL : L ≤ 57)
    (hL' : L' ≤ 63) (hp : p ≤ 2 ^ L) (hpos : index < hc - 1 - index) :
    let sh1 := Tr.upd (Tr.limp4_pvSetHashProbe sh true hc index h L p) index (Tr.limp4_pvCalcShortHash h)
    let c := Tr.limp4_GetHashCodePart sh1 true hc index h (TrEq.trSeq .limp4 L h p) L L'
    Tr.base_GetStartBucketIndex c (2 ^ L') = Tr.base_GetStartBucketIndex h (2 ^ L') ∧
    Tr.limp4_pvCalcShortHash c = Tr.limp4_pvCalcShortHash h ∧
    ∀ sh' p', Tr.limp4_pvSetHashProbe sh' true hc index c L' p' = Tr.limp4_pvSetHashProbe sh' true hc index h L' p' := by
  intro sh1 c
  have hi : index < hc := by omega
  have hne : hc - 1 - index ≠ index := by omega
  have hbyte : sh1 (hc - 1 - index) = P4.encByte h L p := by
    show Tr.upd _ _ _ _ = _
    rw [TrEq.tr_limp4_setHashProbe sh hc index h L p hi (by omega)]
    simp only [Tr.upd, P4.setHashProbe, hne, if_false]
    rw [if_neg (by omega)]
    simp [upd]
  have hshort : sh1 index = P4.shortHash h := by
    show Tr.upd _ _ _ _ = _
    simp [Tr.upd, TrEq.tr_limp4_shortHash]
  have hseq : TrEq.trSeq .limp4 L h p = Probe.seqLin L (Probe.start L h) p := by
    rw [TrEq.trSeq_eq .limp4 L h p (by omega) hp]; simp [Probe.seqOf, TrEq.NextFn.quad]
  have hc' : c = P4.getHashCodePart (P4.encByte h L p) (P4.shortHash h) (Probe.seqLin L (Probe.start L h) p) L L' h := by
    show Tr.limp4_GetHashCodePart sh1 true hc index h _ L L' = _
    have hb : sh1 (hc - 1 - index) < 256 := by rw [hbyte]; have := (P4.encByte_ge h L p).2; omega
    have hidx : TrEq.trSeq .limp4 L h p < 2 ^ L := by
      rw [hseq, Probe.seqLin_closed L _ p (Probe.start_lt L h)]; exact Nat.mod_lt _ (Nat.two_pow_pos L)
    rw [TrEq.tr_limp4_getHashCodePart sh1 hc index h _ L L' hi hb hidx (by omega) hL', hbyte, hshort, hseq]
  have key : Probe.start L' c = Probe.start L' h ∧ P4.shortHash c = P4.shortHash h ∧ ∀ p', P4.encByte c L' p' = P4.encByte h L' p' := by
    by_cases hu : P4.useFull (P4.encByte h L p) L L' = true
    · have : c = h := by rw [hc']; unfold P4.getHashCodePart; rw [hu]; rfl
      rw [this]; exact ⟨rfl, rfl, fun _ => rfl⟩
    · have hu' : P4.useFull (P4.encByte h L p) L L' = false := by
        cases hx : P4.useFull (P4.encByte h L p) L L' <;> simp_all
      have := C12_limp4_reconstruct h L L' p h hh hL hu'
      rw [hc']; exact ⟨this.2.1, this.2.2.1, this.2.2.2⟩
  refine ⟨?_, ?_, ?_⟩
  · rw [TrEq.tr_start, TrEq.tr_start]; exact key.1
  · rw [TrEq.tr_limp4_shortHash, TrEq.tr_limp4_shortHash]; exact key.2.1
  · intro sh' p'
    rw [TrEq.tr_limp4_setHashProbe sh' hc index c L' p' hi hL', TrEq.tr_limp4_setHashProbe sh' hc index h L' p' hi hL']
    unfold P4.setHashProbe
    rw [key.2.2 p']

/-- **C12 (a) for `BucketOpen2N2` as translated from the header.** The element is added by the translated `AddCrt` (metadata part) to a
bucket `b` (`mState[1] = s1` holding the count) of a table of `2^L` buckets after `p` steps of the translated quadratic probe
sequence; the table grows to `2^L'` (`L < L' ≤ 63`). The code returned by the translated `GetHashCodePart` for that element selects
the same start bucket as `h`, has the same short hash, and — unless the new size is the first of its group, whose byte is never
read — makes the translated `AddCrt` write the same bytes into any bucket `b'`. -/
theorem C12_open2n2_reconstruct_translated (b : O2.Bucket) (s1 h L L' p : Nat) (hs : s1 < 256) (hcnt : s1 % 4 = b.cnt)
    (hlt : b.cnt < b.maxCount) (hm : b.maxCount ≤ 3) (hh : h < 2 ^ 64) (hL : L ≤ 57) (hLL : L < L') (hL' : L' ≤ 63) (hp : p ≤ 2 ^ L) :
    let r := Tr.open2n2_AddCrt b.sh b.hp s1 true b.maxCount h L p
    let c := Tr.open2n2_GetHashCodePart r.1 r.2.1 true (b.maxCount - 1 - b.cnt) h (TrEq.trSeq .open2n2 L h p) L L'
    Tr.base_GetStartBucketIndex c (2 ^ L') = Tr.base_GetStartBucketIndex h (2 ^ L') ∧
    Tr.open2n2_pvCalcShortHash c = Tr.open2n2_pvCalcShortHash h ∧
    (0 < O2.probeShift L' → ∀ (b' : O2.Bucket) (s1' p' : Nat), s1' < 256 → s1' % 4 = b'.cnt → b'.cnt < b'.maxCount → b'.maxCount ≤ 3 →
      (Tr.open2n2_AddCrt b'.sh b'.hp s1' true b'.maxCount c L' p').1 = (Tr.open2n2_AddCrt b'.sh b'.hp s1' true b'.maxCount h L' p').1 ∧
      (Tr.open2n2_AddCrt b'.sh b'.hp s1' true b'.maxCount c L' p').2.1 = (Tr.open2n2_AddCrt b'.sh b'.hp s1' true b'.maxCount h L' p').2.1) := by
  intro r c
  obtain ⟨e1, e2, _, _, _⟩ := TrEq.tr_open2n2_addCrt b s1 h L p hs hcnt hlt hm (by omega)
  have hbyte : r.2.1 (b.maxCount - 1 - b.cnt) = O2.encByte h L p := by
    show (Tr.open2n2_AddCrt b.sh b.hp s1 true b.maxCount h L p).2.1 _ = _
    rw [e2]; simp [O2.Bucket.addCrt, upd]
  have hshort : r.1 (b.maxCount - 1 - b.cnt) = O2.shortHash h := by
    show (Tr.open2n2_AddCrt b.sh b.hp s1 true b.maxCount h L p).1 _ = _
    rw [e1]; simp [O2.Bucket.addCrt, upd]
  have hseq : TrEq.trSeq .open2n2 L h p = Probe.seqQuad L (Probe.start L h) p := by
    rw [TrEq.trSeq_eq .open2n2 L h p (by omega) hp]; simp [Probe.seqOf, TrEq.NextFn.quad]
  have hc' : c = O2.getHashCodePart (O2.encByte h L p) (O2.shortHash h) (Probe.seqQuad L (Probe.start L h) p) L L' h := by
    show Tr.open2n2_GetHashCodePart r.1 r.2.1 true _ h _ L L' = _
    have hb : r.2.1 (b.maxCount - 1 - b.cnt) < 256 := by rw [hbyte]; exact TrEq.enc_lt .open2 h L p
    have h63 : (2:Nat) ^ L ≤ 2 ^ 63 := Nat.pow_le_pow_right (by decide) (by omega)
    have hidx : TrEq.trSeq .open2n2 L h p < 2 ^ 64 := by
      rw [hseq, Probe.seqQuad_closed L _ p (Probe.start_lt L h)]
      have := Nat.mod_lt (Probe.start L h + Probe.tri p) (Nat.two_pow_pos L); omega
    rw [TrEq.tr_open2n2_getHashCodePart r.1 r.2.1 _ h _ L L' hb hidx (by omega) hL', hbyte, hshort, hseq]
  have key : Probe.start L' c = Probe.start L' h ∧ O2.shortHash c = O2.shortHash h ∧
      (0 < O2.probeShift L' → ∀ p', O2.encByte c L' p' = O2.encByte h L' p') := by
    by_cases hu : O2.useFull (O2.encByte h L p) L L' = true
    · have : c = h := by rw [hc']; unfold O2.getHashCodePart; rw [hu]; rfl
      rw [this]; exact ⟨rfl, rfl, fun _ _ => rfl⟩
    · have hu' : O2.useFull (O2.encByte h L p) L L' = false := by
        cases hx : O2.useFull (O2.encByte h L p) L L' <;> simp_all
      have := C12_open2n2_reconstruct h L L' p h hh hL hLL hu'
      rw [hc']; exact ⟨this.2.1, this.2.2.1, this.2.2.2⟩
  refine ⟨?_, ?_, ?_⟩
  · rw [TrEq.tr_start, TrEq.tr_start]; exact key.1
  · rw [TrEq.tr_open2n2_shortHash, TrEq.tr_open2n2_shortHash]; exact key.2.1
  · intro hs' b' s1' p' h1 h2 h3 h4
    obtain ⟨a1, a2, _, _, _⟩ := TrEq.tr_open2n2_addCrt b' s1' c L' p' h1 h2 h3 h4 hL'
    obtain ⟨b1, b2, _, _, _⟩ := TrEq.tr_open2n2_addCrt b' s1' h L' p' h1 h2 h3 h4 hL'
    rw [a1, a2, b1, b2]
    simp only [O2.Bucket.addCrt, key.2.1, key.2.2 hs' p']
    exact ⟨trivial, trivial⟩

/-- **C12 (a) for `BucketOne` as translated from the header** (8-byte state): the translated `GetHashCodePart` applied to the state
the translated `pvGetHashState` stored selects the same start bucket for every table size up to `2^63` and is stored as the same
state; with a narrower state the translated function returns what the full getter returns. -/
theorem C12_one_reconstruct_translated (h full L' : Nat) (hL' : L' ≤ 63) :
    Tr.base_GetStartBucketIndex (Tr.one_GetHashCodePart (Tr.one_pvGetHashState8 h) 8 full) (2 ^ L') = Tr.base_GetStartBucketIndex h (2 ^ L') ∧
    Tr.one_pvGetHashState8 (Tr.one_GetHashCodePart (Tr.one_pvGetHashState8 h) 8 full) = Tr.one_pvGetHashState8 h ∧
    (∀ stateSize state, stateSize < 8 → Tr.one_GetHashCodePart state stateSize full = full) := by
  have := C12_one_reconstruct h full L' hL'
  simp only [TrEq.tr_start, TrEq.tr_one_hashState8, TrEq.tr_one_getHashCodePart]
  exact ⟨this.2.1, this.2.2.1, this.2.2.2⟩

/-- **C12 (b) for the translated `GetHashCodePart`: the stored bits are used exactly when they suffice.** LimP4: the translated
function returns the value of the full getter for every value of it iff the model's `useFull` flag is set; and whenever it
returns the same code for two different values of the full getter (i.e. it did not consult it), the byte it consumed is a
genuine hash-probe byte and every index bit of the new size lies among the stored bits. -/
theorem C12_reconstruction_only_when_bits_suffice_translated (sh : Nat → Nat) (hc index idx L L' : Nat) (hi : index < hc)
    (hb : sh (hc - 1 - index) < 256) (hidx : idx < 2 ^ L) (hL : L ≤ 63) (hL' : L' ≤ 63) :
    ((∀ full, Tr.limp4_GetHashCodePart sh true hc index full idx L L' = full) ↔ P4.useFull (sh (hc - 1 - index)) L L' = true) ∧
    (∀ full1 full2, full1 ≠ full2 →
      Tr.limp4_GetHashCodePart sh true hc index full1 idx L L' = Tr.limp4_GetHashCodePart sh true hc index full2 idx L L' →
      128 ≤ sh (hc - 1 - index) ∧ sh (hc - 1 - index) ≠ 255 ∧ L' ≤ P4.knownBits L) := by
  have e : ∀ full, Tr.limp4_GetHashCodePart sh true hc index full idx L L'
      = P4.getHashCodePart (sh (hc - 1 - index)) (sh index) idx L L' full :=
    fun full => TrEq.tr_limp4_getHashCodePart sh hc index full idx L L' hi hb hidx hL hL'
  constructor
  · constructor
    · intro hall
      cases hu : P4.useFull (sh (hc - 1 - index)) L L'
      · have h0 := hall 0
        have h1 := hall 1
        rw [e] at h0 h1
        simp only [P4.getHashCodePart, hu, Bool.false_eq_true, if_false] at h0 h1
        omega
      · rfl
    · intro hu full
      rw [e]; simp [P4.getHashCodePart, hu]
  · intro full1 full2 hne hsame
    rw [e, e] at hsame
    cases hu : P4.useFull (sh (hc - 1 - index)) L L'
    · have := (C12_reconstruction_only_when_bits_suffice (sh (hc - 1 - index)) L L' hb).1 hu
      exact ⟨this.1, this.2.1, this.2.2.1⟩
    · simp only [P4.getHashCodePart, hu, if_true] at hsame
      exact absurd hsame hne

/-- **C12 (b), Open2N2, translated** (growth `L < L'`): the same, and the probe shift is positive (the `MOMO_ASSERT(probeShift > 0)`
the translator lists as dropped cannot fire). -/
theorem C12_open2n2_only_when_bits_suffice_translated (sh hp : Nat → Nat) (index idx L L' : Nat) (hb : hp index < 256)
    (hidx : idx < 2 ^ 64) (hL : L ≤ 63) (hLL : L < L') (hL' : L' ≤ 63) :
    ((∀ full, Tr.open2n2_GetHashCodePart sh hp true index full idx L L' = full) ↔ O2.useFull (hp index) L L' = true) ∧
    (∀ full1 full2, full1 ≠ full2 →
      Tr.open2n2_GetHashCodePart sh hp true index full1 idx L L' = Tr.open2n2_GetHashCodePart sh hp true index full2 idx L L' →
      hp index ≠ 255 ∧ 0 < Tr.open2n2_pvGetProbeShift L ∧ L' ≤ O2.knownBits L) := by
  have e : ∀ full, Tr.open2n2_GetHashCodePart sh hp true index full idx L L'
      = O2.getHashCodePart (hp index) (sh index) idx L L' full :=
    fun full => TrEq.tr_open2n2_getHashCodePart sh hp index full idx L L' hb hidx hL hL'
  constructor
  · constructor
    · intro hall
      cases hu : O2.useFull (hp index) L L'
      · have h0 := hall 0
        have h1 := hall 1
        rw [e] at h0 h1
        simp only [O2.getHashCodePart, hu, Bool.false_eq_true, if_false] at h0 h1
        omega
      · rfl
    · intro hu full
      rw [e]; simp [O2.getHashCodePart, hu]
  · intro full1 full2 hne hsame
    rw [e, e] at hsame
    cases hu : O2.useFull (hp index) L L'
    · have := (C12_reconstruction_only_when_bits_suffice (hp index) L L' hb).2 hu hLL
      rw [TrEq.tr_open2n2_probeShift L hL]
      exact this
    · simp only [O2.getHashCodePart, hu, if_true] at hsame
      exact absurd hsame hne

/-- **C12 (c) for the translated functions: along any chain of growths the element lands where a full rehash puts it.**
`TrEq.trPlace` is `pvAddNogrow` for one element (probe loop over the translated `GetStartBucketIndex` / `GetNextBucketIndex`, short
hash and hash-probe byte by the translated `pvCalcShortHash` / `pvSetHashProbe` / `AddCrt` / `pvGetHashState`), `TrEq.trCodeOf` the
translated `GetHashCodePart` on those bytes; `trChainPart` re-inserts with that code at every step, `trChainFull` with the true hash. -/
theorem C12_chain_translated (k : Kind) (h : Nat) (hh : h < 2 ^ 64) (L0 : Nat) (hL0 : L0 ≤ 57) (f0 : Nat → Bool)
    (steps : List (Nat × (Nat → Bool))) (hch : GrowthChain 57 L0 steps) :
    sameAsOpt k (TrEq.trChainPart k h (TrEq.trPlace k L0 f0 h) steps) (TrEq.trChainFull k h (TrEq.trPlace k L0 f0 h) steps) := by
  rw [TrEq.trPlace_eq k L0 f0 h (by omega),
    TrEq.trChainPart_eq k h steps L0 _ (fun st hst => TrEq.place_wf k L0 f0 h st hst) hL0 hch,
    TrEq.trChainFull_eq k h steps L0 _ hch]
  exact C12_chain k h hh L0 hL0 f0 steps hch

/-- **C12 (d) for the translated functions: the element is still found.** Wherever the translated chain leaves the element, its
start bucket is the one the translated `GetStartBucketIndex` computes from the true hash (so `pvFind` starts there), its bucket is
the one the translated probe sequence of `h` reaches after `probe` steps, and the stored short hash / state is the translated
short hash of `h`. -/
theorem C12_still_found_translated (k : Kind) (h : Nat) (hh : h < 2 ^ 64) (L0 : Nat) (hL0 : L0 ≤ 57) (f0 : Nat → Bool)
    (steps : List (Nat × (Nat → Bool))) (hch : GrowthChain 57 L0 steps) (st : Placed)
    (hres : TrEq.trChainPart k h (TrEq.trPlace k L0 f0 h) steps = some st) :
    st.start = Tr.base_GetStartBucketIndex h (2 ^ st.L) ∧ st.short = TrEq.trShort k h ∧
    st.idx = TrEq.trSeq (TrEq.trNext k) st.L h st.probe := by
  rw [TrEq.trPlace_eq k L0 f0 h (by omega),
    TrEq.trChainPart_eq k h steps L0 _ (fun st hst => TrEq.place_wf k L0 f0 h st hst) hL0 hch] at hres
  obtain ⟨hp, hL⟩ := TrEq.chainPart_bounds k h steps L0 _ (fun st hst => TrEq.place_probe_lt k L0 f0 h st hst) hL0 hch st hres
  obtain ⟨a, b, c, _⟩ := C12_still_found k h hh L0 hL0 f0 steps hch st hres st.probe (Nat.le_refl _)
  refine ⟨?_, ?_, ?_⟩
  · rw [TrEq.tr_start]; exact a
  · rw [TrEq.trShort_eq]; exact b
  · rw [TrEq.trSeq_eq _ st.L h st.probe (by omega) (by omega), TrEq.trNext_quad]; exact c

/-- **C12 (e) for the translated byte compaction of `BucketLimP4::Remove` and the translated `pvGetCount` / `IsFull`**: over every
legal add/remove history of a bucket, the translated `pvGetCount` and `IsFull` applied to the model's byte array decode the number of elements
/ fullness, and the byte array after a `Remove` of the model is the one the translated `else` block computes. -/
theorem C12_limp4_meta_translated (hc maxCount minMpi : Nat) (h4 : 4 ≤ hc) (hm : maxCount ≤ 4) (hpos : 0 < maxCount) (ops : List Op)
    (hl : legalHistP4 maxCount Abs.init ops) :
    let b := ops.foldl P4.Bucket.step (P4.Bucket.new hc maxCount minMpi)
    Tr.limp4_pvGetCount b.sh = (ops.foldl Abs.stepP4 Abs.init).n ∧
    Tr.limp4_IsFull b.sh maxCount = decide ((ops.foldl Abs.stepP4 Abs.init).n = maxCount) ∧
    (∀ index, 1 < b.count → index < hc → (b.remove index).sh = Tr.limp4_Remove_compact b.sh true hc b.count index) := by
  intro b
  obtain ⟨h1, h2, _⟩ := C12_limp4_meta_inv hc maxCount minMpi h4 hm ops hl
  have hmc : ∀ (ops : List Op) (b : P4.Bucket), (ops.foldl P4.Bucket.step b).maxCount = b.maxCount ∧ (ops.foldl P4.Bucket.step b).hc = b.hc := by
    intro ops
    induction ops with
    | nil => intro b; exact ⟨rfl, rfl⟩
    | cons op rest ih =>
      intro b; simp only [List.foldl_cons]
      obtain ⟨i1, i2⟩ := ih (b.step op)
      rw [i1, i2, P4.step_maxCount]
      refine ⟨rfl, ?_⟩
      cases op <;> simp only [P4.Bucket.step, P4.Bucket.addCrt, P4.Bucket.remove, P4.Bucket.empty] <;> (repeat' split) <;> rfl
  have hbm : b.maxCount = maxCount := (hmc ops _).1
  have hbh : b.hc = hc := (hmc ops _).2
  refine ⟨?_, ?_, ?_⟩
  · rw [TrEq.tr_limp4_getCount]; exact h1
  · have := TrEq.tr_limp4_isFull b (by omega)
    rw [hbm] at this
    rw [this]; exact h2 hpos
  · intro index hcnt hidx
    have hcl : b.count ≤ 4 := by
      show P4.countOf b.sh ≤ 4
      unfold P4.countOf; repeat' split
      all_goals omega
    rw [TrEq.tr_limp4_removeBytes b.sh hc b.count index (by omega) (by omega) hidx]
    unfold P4.Bucket.remove
    rw [if_neg (by omega), hbh]

/-- **`BucketLimP4::AddCrt`, all five paths, from the header text (second wave; area Wave2Meta, Proof/TrEqWave2Bucket.lean).** The
metadata writes of the real `AddCrt` — `items == nullptr` (`pvSetHashProbe(0, …)` then `pvAdd0`), the `switch (memPoolIndex)` with
`case 1`, `case 2`, `default` (each `pvSetHashProbe(k, …)` then `pvAdd<k>`: short hash at `count = k`, pool index `k + 1`), and the
in-place block (`pvSetHashProbe(count, …)`, `mShortHashes[count] = pvCalcShortHash(hashCode)`), each translated from its own
fragment of details/HashBucketLimP4.h and composed from the translated `pvSetHashProbe` / `pvCalcShortHash` (`TrEq.trLimp4AddCrt`) —
are the model's `P4.Bucket.addCrt`, the step `C12_limp4_meta_inv` and `C12_limp4_meta_translated` are about, under the assertions of
the source (`count < maxCount ≤ 4 ≤ hashCount`, `0 < count` for a non-null bucket) and `logBucketCount ≤ 63`. -/
theorem C12_limp4_addCrt_translated (b : P4.Bucket) (h L p : Nat) (hL : L ≤ 63) (h4 : 4 ≤ b.hc) (hm : b.maxCount ≤ 4)
    (hroom : b.count < b.maxCount) (hassert : b.nonnull = true → 0 < b.count) :
    TrEq.trLimp4AddCrt b h L p = b.addCrt h L p :=
  TrEq.tr_limp4_addCrt b h L p hL h4 (by omega) (fun hn hg => by have := hassert hn; omega)

-- the translated `AddCrt` run on concrete values: second element of a bucket whose array has one slot (case 1 of the switch)
example : (TrEq.trLimp4AddCrt (TrEq.trLimp4AddCrt (P4.Bucket.new 4 4 1) 0x123456789ABCDEF0 10 0) 0xFEDCBA9876543210 10 1).mpi = 2 := by
  decide

/-! #### third wave (tools/trspecs/Wave3.py → `Momo/Translated/Wave3.lean`; equivalences: `Proof/TrEqWave3.lean`) -/

/-- **The layout constants of `BucketLimP4` from the header text.** `hashCodeShift`, `maskEmpty`, `emptyHashProbe` as translated from
    details/HashBucketLimP4.h are the constants the model `P4` (and therefore every `C12_limp4_*` theorem) is stated with. -/
theorem C12_limp4_constants_translated :
    Tr.limp4_hashCodeShift = P4.hashCodeShift ∧ Tr.limp4_maskEmpty = P4.maskEmpty ∧ Tr.limp4_emptyHashProbe = P4.emptyHashProbe :=
  ⟨TrEq.tr_limp4_hashCodeShift, TrEq.tr_limp4_maskEmpty, TrEq.tr_limp4_emptyHashProbe⟩

/-- **`BucketOpen2N2::hashCodeShift` from the header text** is the model's `O2.hashCodeShift`. -/
theorem C12_open2n2_hashCodeShift_translated : Tr.open2n2_hashCodeShift = O2.hashCodeShift := TrEq.tr_open2n2_hashCodeShift

/-- **`BucketLimP4::WasFull` from the header text** is the model's `P4.Bucket.wasFull` (with `pvGetMemPoolIndex()` = `mpi`). -/
theorem C12_limp4_WasFull_translated (b : P4.Bucket) : Tr.limp4_WasFull b.maxCount b.mpi = b.wasFull := TrEq.tr_limp4_WasFull b

/-- **`UIntMath::DivByConst` / `BucketLim4::pvGetMemPoolIndex()` / `BucketOne::hashCodeShift` from the header text** compute the plain
    quotient / remainder, `state / 2^(32 - logMaxCount) + 1` and `(8 - stateSize) * 8` (no wrap under the stated bounds). -/
theorem C12_lim4_arith_translated (v m L s k : Nat) (hv : v < 2 ^ 64) (hL : L ≤ 32) (hs : s < 2 ^ 32) (hk : k ≤ 8) :
    Tr.um_DivByConst_quotient v m = v / m ∧ Tr.um_DivByConst_remainder v m (Tr.um_DivByConst_quotient v m) = v % m ∧
    Tr.lim4_pvGetMemPoolIndex L s = s / 2 ^ (32 - L) + 1 ∧ Tr.lim4_maxCount L = 2 ^ L ∧ Tr.one_hashCodeShift k = (8 - k) * 8 :=
  ⟨(TrEq.tr_um_DivByConst v m hv).1, (TrEq.tr_um_DivByConst v m hv).2, TrEq.tr_lim4_pvGetMemPoolIndex L s hL hs,
   TrEq.tr_lim4_maxCount L (by omega), TrEq.tr_one_hashCodeShift k hk⟩

/-! Non-vacuity: concrete states meeting the hypotheses. -/

-- a byte that is consumed: L = 10 → L' = 11 (same group), displacement 0
example : P4.useFull (P4.encByte 0x123456789ABCDEF0 10 0) 10 11 = false := by decide
example : P4.getHashCodePart (P4.encByte 0x123456789ABCDEF0 10 0) (P4.shortHash 0x123456789ABCDEF0)
    (Probe.seqLin 10 (Probe.start 10 0x123456789ABCDEF0) 0) 10 11 0 = 0x120000000000DEF0 := by decide
-- a displaced element: L = 15 (probe shift 5), displacement 19
example : P4.useFull (P4.encByte 0xFEDCBA9876543210 15 19) 15 17 = false := by decide
-- group boundary: 17 → 18 needs more bits than are stored, the full getter is called
example : P4.useFull (P4.encByte 0x123456789ABCDEF0 17 0) 17 18 = true := by decide
example : O2.useFull (O2.encByte 0xFEDCBA9876543210 12 5) 12 14 = false := by decide
example : O2.probeShift 9 = 0 ∧ O2.useFull 77 9 10 = true := by decide
-- a chain 4 → 6 → 9 → 10 with collisions in the new tables
example : GrowthChain 57 4 [(6, fun i => i == 16), (9, fun _ => false), (10, fun i => i < 600)] := by
  simp [GrowthChain]
example : (place .limp4 4 (fun i => i == 0) 0x123456789ABCDE10).map (·.probe) = some 1 := by decide
example : legalHistP4 4 Abs.init [.add 5 4 0, .add (2 ^ 63) 4 1, .rem 0, .add 77 4 2] := by
  simp [legalHistP4, Op.legalP4, Abs.stepP4, Abs.init]
example : legalHistO2 3 Abs.init [.add 5 4 0, .add (2 ^ 63) 4 1, .rem 2, .add 77 4 2] := by
  simp [legalHistO2, Op.legalO2, Abs.stepO2, Abs.init]
-- the translated code run on concrete values: L = 10 → L' = 11, displacement 0, element at position 0 of a 4-byte LimP4 bucket
example : Tr.limp4_GetHashCodePart
    (Tr.upd (Tr.limp4_pvSetHashProbe (fun _ => 255) true 4 0 0x123456789ABCDEF0 10 0) 0 (Tr.limp4_pvCalcShortHash 0x123456789ABCDEF0))
    true 4 0 0 (TrEq.trSeq .limp4 10 0x123456789ABCDEF0 0) 10 11 = 0x120000000000DEF0 := by decide
example : (TrEq.trPlace .limp4 4 (fun i => i == 0) 0x123456789ABCDE10).map (·.probe) = some 1 := by decide
example : TrEq.trCodeOf .open2 ⟨12, 0x210, 5, TrEq.trSeq .open2n2 12 0xFEDCBA9876543210 5, Tr.open2n2_pvCalcShortHash 0xFEDCBA9876543210,
    TrEq.trEnc .open2 0xFEDCBA9876543210 12 5⟩ 14 0 % 2 ^ 14 = 0xFEDCBA9876543210 % 2 ^ 14 := by decide

end Momo.HashMeta
