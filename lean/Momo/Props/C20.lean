import Momo.Proof.PoolAllocMove
import Momo.Proof.PoolAllocRoute
/-!
# C20 — Pool allocator is a transparent, leak-free std::allocator replacement

Property theorems only. Model: `Momo/Model/PoolAlloc.lean`; lemmas: `Momo/Proof/PoolAlloc*.lean`.

Statement (properties.jsonl): std::list, std::forward_list, std::map/set and std::unordered_map/set
instantiated with momo's unsynchronized_pool_allocator behave exactly as with std::allocator for every
operation sequence; every node is freed into the pool or raw memory it came from, copies of a container
use independent pools, moved and swapped containers carry their pool along, and when the last container
sharing a pool is destroyed all memory has been returned to the base allocator.

What is a theorem here and what is not.  Layer A (`Op`, `run`) is the allocator as written
(allocate / deallocate decision rule, re-parameterisation, sharing of the pool through the shared_ptr).
Layer C (`COp`, `crun`) adds entities = allocator-aware containers and allocator objects, with the
propagation traits of pool_allocator.h.  The histories quantified over are *all* lists of operations,
with all value-type parameters, counts, addresses and all answers of the pool about its buffers; an
operation whose C++ precondition is violated (freeing a block twice, through another allocator, with
another type; using a destroyed container; splicing between unequal allocators) ends the history with
`Err.illegal`.  `MemPool` (C09) is the environment "parameters, count, buffers held; the destructor and
the re-parameterisation give every buffer back".  "Behave exactly as with std::allocator" (contents of
libstdc++'s containers) is differential evidence of the harness, not a theorem.
-/
namespace Momo.PoolAlloc

/-! ## every node is freed into the pool or raw memory it came from -/

/-- **C20 dealloc_provenance.**  Hypothesis, stated explicitly: *one single-object type per shared pool*
(`OneTypePerPool κ`: every `allocate(1)` / `deallocate(·,1)` through pool `p` is for a value type with
parameters `κ p`; arrays are unrestricted).  Then for every history the machine never records a
provenance error: each `deallocate` routes the block to the kind of memory it was allocated from —
`MemPool::Deallocate` for pool blocks, the memory manager for raw blocks — and the invariant holds
(in particular `GetAllocateCount()` = number of live pool blocks).  The only way such a history can end
early is a violated precondition of the call (`illegal`). -/
theorem C20_dealloc_provenance (κ : Nat → Cls) (ops : List Op) (h : OneTypePerPool κ ops) :
    ((run Sys.init ops).err = none ∧ Inv (run Sys.init ops)) ∨ (run Sys.init ops).err = some .illegal :=
  run_err inv_init rfl ops (run_oneType (K_init κ) rfl ops h)

/-- the weakest form of the hypothesis: no `allocate(1)` was ever served from the memory manager because
the pool was busy with another type (ghost flag `rawSingle`).  Pools may change their type while idle. -/
theorem C20_dealloc_provenance_no_raw_single (ops : List Op) (h : (run Sys.init ops).rawSingle = false) :
    ((run Sys.init ops).err = none ∧ Inv (run Sys.init ops)) ∨ (run Sys.init ops).err = some .illegal :=
  run_err inv_init rfl ops h

/-- **the unrestricted statement is false today (finding F13).**  One allocator object shared by a list and
a set: `l.push_back(1); s.insert(1); l.clear(); s.insert(2); s.erase(1)` hands a block of the memory manager
to `MemPool::Deallocate`.  All five calls satisfy their preconditions. -/
theorem C20_dealloc_provenance_unrestricted_false :
    ¬ (∀ ops : List Op, (run Sys.init ops).err = none ∨ (run Sys.init ops).err = some .illegal) := by
  intro h
  have := h f13
  revert this
  decide

/-- the same witness at container level -/
theorem C20_dealloc_provenance_unrestricted_false_containers :
    ¬ (∀ ops : List COp, (crun CSys.init ops).sys.err = none ∨ (crun CSys.init ops).sys.err = some .illegal) := by
  intro h
  have := h f13c
  revert this
  decide

/-- container histories: unless a single object was served raw, no provenance error, and the container-level
invariant holds at the end: every live block is held by a live container whose allocator points to the pool
the block came from, `use_count()` = number of containers / allocator objects attached. -/
theorem C20_dealloc_provenance_containers (ops : List COp) (h : (crun CSys.init ops).sys.rawSingle = false) :
    ((crun CSys.init ops).sys.err = none ∧ CInv (crun CSys.init ops)) ∨
    (crun CSys.init ops).sys.err = some .illegal := by
  obtain ⟨l, hl⟩ := crun_lowers CSys.init ops
  have h' : (run Sys.init l).rawSingle = false := by
    have : CSys.init.sys = Sys.init := rfl
    rw [← this, ← hl]; exact h
  rcases run_err inv_init rfl l h' with ⟨he, _⟩ | he
  · left
    have he' : (crun CSys.init ops).sys.err = none := by rw [hl]; exact he
    exact ⟨he', crun_cinv cinv_init ops he'⟩
  · right; rw [hl]; exact he

/-- in every state reached by a container history (without a raw single), a container that frees a block it
holds succeeds: the block goes back, through the container's own allocator, to where it came from -/
theorem C20_owner_free_succeeds (ops : List COp) (hok : (crun CSys.init ops).sys.err = none)
    (hrs : (crun CSys.init ops).sys.rawSingle = false)
    {en : Ent} (hen : en ∈ (crun CSys.init ops).ents) {b : Block} (hb : b ∈ (crun CSys.init ops).sys.blocks)
    (ho : (crun CSys.init ops).own b.id = en.eid) (frees : List Nat) :
    (actStep en.eid en.pid (crun CSys.init ops) (.free b.id frees)).sys.err = none :=
  owner_free_succeeds (crun_cinv cinv_init ops hok) hok hrs hen hb ho frees

/-! ## copies of a container use independent pools -/

/-- **C20 copy_independent_pools (a).**  After any history, `Container d(c)` (which takes
`select_on_container_copy_construction()`): `d`'s allocator points to a pool that did not exist before;
every other container keeps its allocator (and it is a different pool); every pool that existed — `c`'s
included — has the same parameters, count and owners as before; no old block is touched, every new block
comes from the new pool; the ledger entries of all other pools are unchanged. -/
theorem C20_copy_independent_pools (ops : List COp) (hok0 : (crun CSys.init ops).sys.err = none)
    (d c : Nat) (cls : Cls) (cb : Nat) (acts : List Act)
    (hok : (cstep (crun CSys.init ops) (.copyConstruct d c cls cb acts)).sys.err = none) :
    let cs := crun CSys.init ops
    let cs' := cstep cs (.copyConstruct d c cls cb acts)
    (⟨d, cs.sys.pools.length⟩ : Ent) ∈ cs'.ents ∧
    (∀ e ∈ cs.ents, e.pid ≠ cs.sys.pools.length ∧ e.eid ≠ d ∧ e ∈ cs'.ents) ∧
    (∀ (j : Nat) (st : PoolSt), cs.sys.pools[j]? = some st → cs'.sys.pools[j]? = some st) ∧
    (∀ b ∈ cs.sys.blocks, b ∈ cs'.sys.blocks ∧ cs'.own b.id = cs.own b.id) ∧
    (∀ b ∈ cs'.sys.blocks, b ∈ cs.sys.blocks ∨ (b.pid = cs.sys.pools.length ∧ cs'.own b.id = d)) ∧
    (∀ x : Base, x.pid ≠ cs.sys.pools.length → (x ∈ cs'.sys.base ↔ x ∈ cs.sys.base)) :=
  copyConstruct_spec (crun_cinv cinv_init ops hok0) hok0 d c cls cb acts hok

/-- **C20 copy_independent_pools (b): a container touches only its own pool.**  Whatever a container `e`
(allocator -> pool `p`) allocates and frees (insert, erase, clear, rehash, copy assignment — POCCA is false,
so the target keeps its pool): every other pool keeps its state, every block held by another container stays
live with its holder, new blocks come from `p`, ledger entries of other pools are unchanged.  Together with
(a): operations on a copy never reach the original's pool and vice versa. -/
theorem C20_container_touches_only_own_pool (ops : List COp) (hok0 : (crun CSys.init ops).sys.err = none)
    (e : Nat) (acts : List Act) (hok : (cstep (crun CSys.init ops) (.mutate e acts)).sys.err = none) :
    ∃ en ∈ (crun CSys.init ops).ents, en.eid = e ∧
      Frame e en.pid (crun CSys.init ops) (cstep (crun CSys.init ops) (.mutate e acts)) ∧
      (cstep (crun CSys.init ops) (.mutate e acts)).ents = (crun CSys.init ops).ents := by
  have hc := crun_cinv cinv_init ops hok0
  unfold cstep at hok ⊢
  have he : ¬ (crun CSys.init ops).sys.err.isSome = true := by simp [hok0]
  rw [if_neg he] at hok ⊢
  simp only at hok ⊢
  cases hs : findEnt (crun CSys.init ops) e with
  | none => simp only [hs] at hok; rw [cfail_err _ hok0] at hok; cases hok
  | some en =>
    simp only [hs] at hok ⊢
    exact ⟨en, (findEnt_some hs).1, (findEnt_some hs).2,
      acts_frame hc (findEnt_some hs).1 (findEnt_some hs).2 rfl acts hok0 hok, acts_ents _ _ _ _⟩

/-! ## moved and swapped containers carry their pool along -/

/-- **C20 move_swap_carry_pool (move construction).**  `Container d(std::move(c))`: `d`'s allocator points to
the pool `c`'s allocator points to, no block is allocated or freed, the ledger is unchanged, `c`'s blocks are
now `d`'s. -/
theorem C20_move_construct_carries_pool (ops : List COp) (hok0 : (crun CSys.init ops).sys.err = none) (d c : Nat)
    (hok : (cstep (crun CSys.init ops) (.moveConstruct d c)).sys.err = none) :
    let cs := crun CSys.init ops
    let cs' := cstep cs (.moveConstruct d c)
    ∃ ce, ce ∈ cs.ents ∧ ce.eid = c ∧ (⟨d, ce.pid⟩ : Ent) ∈ cs'.ents ∧ ce ∈ cs'.ents ∧
      cs'.sys.blocks = cs.sys.blocks ∧ cs'.sys.base = cs.sys.base ∧
      (∀ i, cs.own i = c → cs'.own i = d) ∧ (∀ i, cs.own i ≠ c → cs'.own i = cs.own i) :=
  moveConstruct_spec hok0 d c hok

/-- **C20 move_swap_carry_pool (move assignment, POCMA = true).**  `d = std::move(c)`: afterwards `d`'s
allocator points to `c`'s pool; every block `c` held is still live, is now held by `d`, and comes from exactly
that pool; `c` holds nothing; the blocks `d` held before are gone (freed through `d`'s old allocator —
`C20_owner_free_succeeds`); blocks of third containers are untouched. -/
theorem C20_move_assign_carries_pool (ops : List COp) (hok0 : (crun CSys.init ops).sys.err = none) (d c : Nat)
    (acts : List Act) (hok : (cstep (crun CSys.init ops) (.moveAssign d c acts)).sys.err = none) :
    let cs := crun CSys.init ops
    let cs' := cstep cs (.moveAssign d c acts)
    ∃ de ce, de ∈ cs.ents ∧ de.eid = d ∧ ce ∈ cs.ents ∧ ce.eid = c ∧ d ≠ c ∧
      (⟨d, ce.pid⟩ : Ent) ∈ cs'.ents ∧ ce ∈ cs'.ents ∧
      (∀ b ∈ cs.sys.blocks, cs.own b.id = c → b ∈ cs'.sys.blocks ∧ cs'.own b.id = d ∧ b.pid = ce.pid) ∧
      (∀ b ∈ cs'.sys.blocks, cs'.own b.id ≠ c) ∧
      (∀ b ∈ cs.sys.blocks, cs.own b.id = d → b ∉ cs'.sys.blocks) ∧
      (∀ b ∈ cs.sys.blocks, cs.own b.id ≠ d → cs.own b.id ≠ c → b ∈ cs'.sys.blocks ∧ cs'.own b.id = cs.own b.id) :=
  moveAssign_spec (crun_cinv cinv_init ops hok0) hok0 d c acts hok

/-- **C20 move_swap_carry_pool (swap, POCS = true).**  `d.swap(c)`: the allocators exchange their pools, the
containers exchange their blocks, the allocator-level state (pools, blocks, ledger) does not change at all. -/
theorem C20_swap_carries_pool (ops : List COp) (hok0 : (crun CSys.init ops).sys.err = none) (d c : Nat)
    (hok : (cstep (crun CSys.init ops) (.swap d c)).sys.err = none) :
    let cs := crun CSys.init ops
    let cs' := cstep cs (.swap d c)
    ∃ de ce, de ∈ cs.ents ∧ de.eid = d ∧ ce ∈ cs.ents ∧ ce.eid = c ∧
      (⟨d, ce.pid⟩ : Ent) ∈ cs'.ents ∧ (⟨c, de.pid⟩ : Ent) ∈ cs'.ents ∧ cs'.sys = cs.sys ∧
      (∀ i, cs.own i = c → cs'.own i = d) ∧ (∀ i, cs.own i = d → cs'.own i = c) ∧
      (∀ i, cs.own i ≠ c → cs.own i ≠ d → cs'.own i = cs.own i) :=
  swap_spec hok0 d c hok

/-- **C20 move_swap_carry_pool (invariant form).**  After every container history — copies, moves, swaps,
splices, assignments in any order — every live block is held by a live container whose allocator points to the
pool the block was allocated from, names of containers are unique, and the owner count of every pool equals the
number of containers / allocator objects attached to it.  (So a later `erase` or destructor returns each node to
the right pool.) -/
theorem C20_blocks_follow_their_pool (ops : List COp) (hok : (crun CSys.init ops).sys.err = none) :
    (∀ b ∈ (crun CSys.init ops).sys.blocks,
        ∃ e ∈ (crun CSys.init ops).ents, e.eid = (crun CSys.init ops).own b.id ∧ e.pid = b.pid) ∧
    ((crun CSys.init ops).ents.map (·.eid)).Nodup ∧
    (∀ (p : Nat) (st : PoolSt), (crun CSys.init ops).sys.pools[p]? = some st →
        st.refs = (crun CSys.init ops).ents.countP (fun e => e.pid == p)) :=
  let hc := crun_cinv cinv_init ops hok
  ⟨hc.owned, hc.nodupE, hc.refs⟩

/-! ## when the last container sharing a pool is destroyed all memory has been returned -/

/-- **C20 last_owner_returns_all.**  After every container history: a pool to which no live container or
allocator object is attached any more is dead (`~MemPool` has run, `use_count() == 0`) and the ledger of the base
allocator holds nothing that was requested for it — no control block, no buffer, no raw block. -/
theorem C20_last_owner_returns_all (ops : List COp) (hok : (crun CSys.init ops).sys.err = none) (p : Nat)
    (hlast : ∀ e ∈ (crun CSys.init ops).ents, e.pid ≠ p) :
    (∀ x ∈ (crun CSys.init ops).sys.base, x.pid ≠ p) ∧
    (∀ st, (crun CSys.init ops).sys.pools[p]? = some st → st.dead = true ∧ st.refs = 0) ∧
    (∀ b ∈ (crun CSys.init ops).sys.blocks, b.pid ≠ p) := by
  have hc := crun_cinv cinv_init ops hok
  refine ⟨no_entity_no_base hc p hlast, fun st hst => no_entity_pool_dead hc p hlast hst, ?_⟩
  intro b hb hbp
  obtain ⟨e, he, _, hep⟩ := hc.owned b hb
  exact hlast e he (hep.trans hbp)

/-- corollary: when every container and allocator object has been destroyed the ledger is empty -/
theorem C20_all_destroyed_ledger_empty (ops : List COp) (hok : (crun CSys.init ops).sys.err = none)
    (hnone : (crun CSys.init ops).ents = []) :
    (crun CSys.init ops).sys.base = [] ∧ (crun CSys.init ops).sys.blocks = [] := by
  have h := fun p => C20_last_owner_returns_all ops hok p (by rw [hnone]; intro e he; cases he)
  constructor
  · cases hb : (crun CSys.init ops).sys.base with
    | nil => rfl
    | cons x t => exact absurd rfl ((h x.pid).1 x (by rw [hb]; exact List.mem_cons_self))
  · cases hb : (crun CSys.init ops).sys.blocks with
    | nil => rfl
    | cons x t => exact absurd rfl ((h x.pid).2.2 x (by rw [hb]; exact List.mem_cons_self))

/-- the destructor call that makes this happen never fails: in every reachable state, a container that has freed
all its blocks can drop its allocator; if it was the last owner, the pool then has no live block and
`GetAllocateCount() == 0` (so `MOMO_EXTRA_CHECK(allocCount == 0)` in `~MemPool` holds) -/
theorem C20_destructor_drop_succeeds (ops : List COp) (hok : (crun CSys.init ops).sys.err = none)
    {en : Ent} (hen : en ∈ (crun CSys.init ops).ents) (hnone : ownsNone (crun CSys.init ops) en.eid = true) :
    (step (crun CSys.init ops).sys (.adrop en.pid)).err = none :=
  drop_succeeds (crun_cinv cinv_init ops hok) hok hen hnone

/-! ## non-vacuity: concrete histories that meet the hypotheses and end without error -/

/-- list-like scenario: allocator object 0 (for `int`), list 1 built from it, three inserts, a copy 2, an erase,
a container 3 with a pool of its own, `3 = std::move(1)`, swap of 2 and 3, splice from 3 into 1, destruction of everything -/
def demo : List COp :=
  [.newAlloc 0 (8, 4) 900, .newFrom 1 0,
   .mutate 1 [.alloc (24, 8) 1 10 [500], .alloc (24, 8) 1 11 [], .alloc (24, 8) 1 12 [501]],
   .copyConstruct 2 1 (24, 8) 901 [.alloc (24, 8) 1 20 [600], .alloc (24, 8) 1 21 [], .alloc (24, 8) 1 22 []],
   .mutate 1 [.free 11 []],
   .newAlloc 3 (24, 8) 902, .mutate 3 [.alloc (24, 8) 1 30 [700]],
   .moveAssign 3 1 [.free 30 [700]],
   .swap 2 3,
   .newFrom 4 2, .splice 4 2 [10],
   .mutate 4 [.alloc (16, 8) 7 40 []],        -- an array (bucket table): raw
   .destroy 4 [.free 10 [], .free 40 []],
   .destroy 2 [.free 12 [500, 501]],
   .destroy 3 [.free 20 [], .free 21 [], .free 22 [600]],
   .destroy 1 [], .destroy 0 []]

example : (crun CSys.init demo).sys.err = none := by decide
example : (crun CSys.init demo).sys.rawSingle = false := by decide
example : (crun CSys.init demo).ents = [] := by decide
example : (crun CSys.init demo).sys.base = [] := by decide
example : ((crun CSys.init (demo.take 12)).sys.pools.map (·.dead)) = [false, false, true] := by decide
/-- before the destructors run: 6 ledger entries, 6 live blocks; the pool container 3 had of its own died at the move
    assignment (3 was its last owner) and took its control block and buffer along -/
example : ((crun CSys.init (demo.take 12)).sys.base.length, (crun CSys.init (demo.take 12)).sys.blocks.length) = (6, 6) := by decide
/-- a pool may change its type while idle without any error (weaker than one type per pool) -/
example : (run Sys.init [.anew (8, 4) 1, .alloc 0 (24, 8) 1 5 [9], .dealloc 0 (24, 8) 1 5 [],
    .alloc 0 (40, 8) 1 6 [10], .dealloc 0 (40, 8) 1 6 [], .adrop 0]) = ⟨[⟨(40, 8), 0, 0, true⟩], [], [], false, none⟩ := by decide
example : OneTypePerPool (fun _ => (24, 8)) [.anew (8, 4) 1, .alloc 0 (24, 8) 1 5 [9], .alloc 0 (8, 8) 3 6 [], .dealloc 0 (24, 8) 1 5 []] := by
  intro op hop
  simp only [List.mem_cons, List.not_mem_nil, or_false] at hop
  rcases hop with rfl | rfl | rfl | rfl <;> simp
/-- F13 is a legal history: the flag is what goes up, one step before the error -/
example : (run Sys.init (f13.take 5)).err = none ∧ (run Sys.init (f13.take 5)).rawSingle = true := by decide

/-! ## a failing base allocator (`bad_alloc` inside `allocate` / the constructor)

Model: `Momo/Model/PoolAllocFault.lean` (`FOp`, `frun`: allocator level; `FCOp`, `fcrun`: container level).  A fault is an
explicit operation of the history, so every theorem below quantifies over every placement of faults. -/

/-- **C20 failed_allocate_changes_nothing (allocator level).**  `allocate(n)` through a live pool `p` that ends with
`bad_alloc`: no error is recorded; the live blocks, the ghost flag, every other pool, and of pool `p` the count, the
owner count and the liveness are what they were; nothing was obtained from the base allocator (every ledger entry left
was there before), control blocks, raw blocks and the entries of other pools are all still there.  The parameters of
`p` change in exactly one case — a single object of another type requested from an idle pool: line 119 ran before the
throw, the pool now has the parameters of that type (and the buffers of the replaced pool object went back).  In every
other case the state is *identical*. -/
theorem C20_failed_allocate_changes_nothing {s : Sys} (h0 : s.err = none) {p : Nat} {st : PoolSt}
    (hl : livePool s p = some st) (cls : Cls) {n : Nat} (hn : n ≠ 0) :
    let s' := fstep s (.allocFail p cls n)
    s'.err = none ∧ s'.blocks = s.blocks ∧ s'.rawSingle = s.rawSingle ∧
    (∀ j, j ≠ p → s'.pools[j]? = s.pools[j]?) ∧
    s'.pools[p]? = some { st with params := if n = 1 ∧ cls ≠ st.params ∧ st.allocCount = 0 then cls else st.params } ∧
    (∀ x ∈ s'.base, x ∈ s.base) ∧
    (∀ x ∈ s.base, x.pid ≠ p ∨ x.kind ≠ .buf → x ∈ s'.base) ∧
    (n ≠ 1 ∨ cls = st.params ∨ st.allocCount ≠ 0 → s' = s) := by
  simp only
  rw [fstep_eq_of_ok h0]
  simp only
  obtain ⟨hother, hp⟩ := doAllocFail_pools hl cls hn
  refine ⟨?_, doAllocFail_blocks _ _ _ _, doAllocFail_rawSingle _ _ _ _, hother, hp, doAllocFail_base_sub _ _ _ _,
    fun x hx h => doAllocFail_base_keep _ _ _ _ x hx h, fun h => doAllocFail_same hl cls hn h⟩
  rw [doAllocFail_eq hl cls hn]
  split <;> exact h0

/-- **C20 dealloc_provenance, every history with faults.**  With one single-object type per shared pool — only the
*successful* single-object requests are restricted, a request that throws may be for any type — no history, wherever
the base allocator throws, records a provenance error, and the invariant holds (`GetAllocateCount()` = live pool
blocks, every ledger entry accounted for, …). -/
theorem C20_fault_dealloc_provenance (κ : Nat → Cls) (ops : List FOp) (h : FOneTypePerPool κ ops) :
    ((frun Sys.init ops).err = none ∧ Inv (frun Sys.init ops)) ∨ (frun Sys.init ops).err = some .illegal :=
  frun_err inv_init rfl ops (frun_oneType (K_init κ) rfl ops h).2

/-- the weakest form of the hypothesis (ghost flag), histories with faults -/
theorem C20_fault_dealloc_provenance_no_raw_single (ops : List FOp) (h : (frun Sys.init ops).rawSingle = false) :
    ((frun Sys.init ops).err = none ∧ Inv (frun Sys.init ops)) ∨ (frun Sys.init ops).err = some .illegal :=
  frun_err inv_init rfl ops h

/-- histories without faults are the histories of the fault-free machine (so the theorems above contain the ones of
the first section) -/
theorem C20_fault_free_histories (ops : List Op) : frun Sys.init (ops.map .ok) = run Sys.init ops := frun_ok _ _

/-- **C20 failed_allocate_changes_nothing (container level): no block is lost.**  In every state reached by a container
history with faults, an `allocate` of container `e` that throws: no error; the containers and allocator objects, who
holds which block, and the live blocks are what they were; only the pool of `e`'s allocator can have changed (and of
it only the parameters, see the allocator-level theorem); ledger entries of other pools are untouched. -/
theorem C20_fault_container_alloc_fail (ops : List FCOp) (hok0 : (fcrun CSys.init ops).sys.err = none)
    {en : Ent} (hen : en ∈ (fcrun CSys.init ops).ents) (cls : Cls) {n : Nat} (hn : n ≠ 0) :
    let cs := fcrun CSys.init ops
    let cs' := factStep en.eid en.pid cs (.allocFail cls n)
    cs'.sys.err = none ∧ cs'.ents = cs.ents ∧ cs'.own = cs.own ∧ cs'.sys.blocks = cs.sys.blocks ∧
    (∀ e, cs'.ownedBy e = cs.ownedBy e) ∧ Frame en.eid en.pid cs cs' ∧ CInv cs' := by
  have hc := fcrun_cinv cinv_init ops hok0
  obtain ⟨st, hl, _⟩ := ent_pool_live hc hen
  have hs := C20_failed_allocate_changes_nothing hok0 hl cls hn
  simp only at hs ⊢
  have hok : (factStep en.eid en.pid (fcrun CSys.init ops) (.allocFail cls n)).sys.err = none := hs.1
  refine ⟨hok, rfl, rfl, hs.2.1, ?_, factStep_frame hc _ _ _ hok0 hok, factStep_cinv hc hen rfl rfl _ hok0 hok⟩
  intro e
  simp only [CSys.ownedBy, factStep, hs.2.1]

/-- **container histories with faults**: unless a single object was served raw, no provenance error, and the
container-level invariant holds at the end -/
theorem C20_fault_dealloc_provenance_containers (ops : List FCOp) (h : (fcrun CSys.init ops).sys.rawSingle = false) :
    ((fcrun CSys.init ops).sys.err = none ∧ CInv (fcrun CSys.init ops)) ∨
    (fcrun CSys.init ops).sys.err = some .illegal :=
  fcrun_err ops h

/-- **C20 move_swap_carry_pool (invariant form), histories with faults.**  After every container history — copies, moves,
swaps, splices, assignments, calls that threw `bad_alloc` half way, copy constructions that threw — every live block is
held by a live container whose allocator points to the pool the block was allocated from, names are unique, and the
owner count of every pool equals the number of containers / allocator objects attached to it. -/
theorem C20_fault_blocks_follow_their_pool (ops : List FCOp) (hok : (fcrun CSys.init ops).sys.err = none) :
    (∀ b ∈ (fcrun CSys.init ops).sys.blocks,
        ∃ e ∈ (fcrun CSys.init ops).ents, e.eid = (fcrun CSys.init ops).own b.id ∧ e.pid = b.pid) ∧
    ((fcrun CSys.init ops).ents.map (·.eid)).Nodup ∧
    (∀ (p : Nat) (st : PoolSt), (fcrun CSys.init ops).sys.pools[p]? = some st →
        st.refs = (fcrun CSys.init ops).ents.countP (fun e => e.pid == p)) :=
  let hc := fcrun_cinv cinv_init ops hok
  ⟨hc.owned, hc.nodupE, hc.refs⟩

/-- **C20 last_owner_returns_all, histories with faults (leak freedom).**  After every container history with faults: a pool
to which no live container or allocator object is attached any more is dead and the ledger of the base allocator holds
nothing that was requested for it — no control block, no buffer, no raw block; no live block came from it. -/
theorem C20_fault_last_owner_returns_all (ops : List FCOp) (hok : (fcrun CSys.init ops).sys.err = none) (p : Nat)
    (hlast : ∀ e ∈ (fcrun CSys.init ops).ents, e.pid ≠ p) :
    (∀ x ∈ (fcrun CSys.init ops).sys.base, x.pid ≠ p) ∧
    (∀ st, (fcrun CSys.init ops).sys.pools[p]? = some st → st.dead = true ∧ st.refs = 0) ∧
    (∀ b ∈ (fcrun CSys.init ops).sys.blocks, b.pid ≠ p) := by
  have hc := fcrun_cinv cinv_init ops hok
  refine ⟨no_entity_no_base hc p hlast, fun st hst => no_entity_pool_dead hc p hlast hst, ?_⟩
  intro b hb hbp
  obtain ⟨e, he, _, hep⟩ := hc.owned b hb
  exact hlast e he (hep.trans hbp)

/-- corollary: when every container and allocator object has been destroyed the ledger is empty, whatever threw on the way -/
theorem C20_fault_all_destroyed_ledger_empty (ops : List FCOp) (hok : (fcrun CSys.init ops).sys.err = none)
    (hnone : (fcrun CSys.init ops).ents = []) :
    (fcrun CSys.init ops).sys.base = [] ∧ (fcrun CSys.init ops).sys.blocks = [] := by
  have h := fun p => C20_fault_last_owner_returns_all ops hok p (by rw [hnone]; intro e he; cases he)
  constructor
  · cases hb : (fcrun CSys.init ops).sys.base with
    | nil => rfl
    | cons x t => exact absurd rfl ((h x.pid).1 x (by rw [hb]; exact List.mem_cons_self))
  · cases hb : (fcrun CSys.init ops).sys.blocks with
    | nil => rfl
    | cons x t => exact absurd rfl ((h x.pid).2.2 x (by rw [hb]; exact List.mem_cons_self))

/-- after any history with faults, freeing a block it holds (e.g. while unwinding from the exception) and the final
destructor call of a container that holds nothing succeed -/
theorem C20_fault_cleanup_succeeds (ops : List FCOp) (hok : (fcrun CSys.init ops).sys.err = none)
    {en : Ent} (hen : en ∈ (fcrun CSys.init ops).ents) :
    ((fcrun CSys.init ops).sys.rawSingle = false → ∀ b ∈ (fcrun CSys.init ops).sys.blocks,
        (fcrun CSys.init ops).own b.id = en.eid → ∀ frees,
        (actStep en.eid en.pid (fcrun CSys.init ops) (.free b.id frees)).sys.err = none) ∧
    (ownsNone (fcrun CSys.init ops) en.eid = true → (step (fcrun CSys.init ops).sys (.adrop en.pid)).err = none) :=
  let hc := fcrun_cinv cinv_init ops hok
  ⟨fun hrs _ hb ho frees => owner_free_succeeds hc hok hrs hen hb ho frees, fun hnone => drop_succeeds hc hok hen hnone⟩

/-- a container touches only its own pool and its own blocks also in calls in which allocations throw -/
theorem C20_fault_container_touches_only_own_pool (ops : List FCOp) (hok0 : (fcrun CSys.init ops).sys.err = none)
    (e : Nat) (acts : List FAct) (hok : (fcstep (fcrun CSys.init ops) (.mutateF e acts)).sys.err = none) :
    ∃ en ∈ (fcrun CSys.init ops).ents, en.eid = e ∧
      Frame e en.pid (fcrun CSys.init ops) (fcstep (fcrun CSys.init ops) (.mutateF e acts)) ∧
      (fcstep (fcrun CSys.init ops) (.mutateF e acts)).ents = (fcrun CSys.init ops).ents := by
  have hc := fcrun_cinv cinv_init ops hok0
  rw [fcstep_eq_of_ok hok0] at hok ⊢
  simp only at hok ⊢
  cases hs : findEnt (fcrun CSys.init ops) e with
  | none => simp only [hs] at hok; rw [cfail_err _ hok0] at hok; cases hok
  | some en =>
    simp only [hs] at hok ⊢
    exact ⟨en, (findEnt_some hs).1, (findEnt_some hs).2,
      facts_frame hc (findEnt_some hs).1 (findEnt_some hs).2 rfl acts hok0 hok, facts_ents _ _ _ _⟩

/-- `Container d(c)` that throws inside `select_on_container_copy_construction` (the control block of the new allocator
object cannot be allocated; catchable since the function is no longer `noexcept`): after any history, nothing at all
changes — no pool, no container, no ledger entry. -/
theorem C20_fault_copy_construct_control_block_fail (ops : List FCOp) (hok0 : (fcrun CSys.init ops).sys.err = none)
    (d c : Nat) (cls : Cls) (hok : (fcstep (fcrun CSys.init ops) (.copyConstructNewFail d c cls)).sys.err = none) :
    fcstep (fcrun CSys.init ops) (.copyConstructNewFail d c cls) = fcrun CSys.init ops := by
  rw [fcstep_eq_of_ok hok0] at hok ⊢
  simp only at hok ⊢
  cases hs : findEnt (fcrun CSys.init ops) c with
  | none => simp only [hs] at hok; rw [cfail_err _ hok0] at hok; cases hok
  | some ce =>
    simp only [hs] at hok ⊢
    by_cases hf : (findEnt (fcrun CSys.init ops) d).isSome = true
    · rw [if_pos hf] at hok; rw [cfail_err _ hok0] at hok; cases hok
    · rw [if_neg hf]

/-! ## the decision logic of `allocate` / `deallocate` for value types of every size and alignment -/

/-- **C20 allocate_route.**  For a value type of any size and alignment (`paramsOf N M size align` is
`pvGetMemPoolParams()`, `M = UIntConst::maxAlignment`, `N` blocks per buffer): a legal `allocate(n)` succeeds; the block
comes from the pool iff `n = 1` and (the pool has the parameters of the type, or `GetAllocateCount() == 0`), otherwise
from the memory manager; on the pool path the pool afterwards has the parameters of the type. -/
theorem C20_allocate_route {s : Sys} {p : Nat} {st : PoolSt} (h0 : s.err = none) (hl : livePool s p = some st)
    (N M size align : Nat) {n : Nat} (hn : n ≠ 0) {id : Nat} (hfresh : ∀ b ∈ s.blocks, b.id ≠ id) (ms : List Nat) :
    let cls := paramsOf N M size align
    let s' := step s (.alloc p cls n id ms)
    s'.err = none ∧
    s'.blocks = ⟨id, p, cls, n, if n = 1 ∧ (cls = st.params ∨ st.allocCount = 0) then .pool cls else .raw⟩ :: s.blocks ∧
    (n = 1 ∧ (cls = st.params ∨ st.allocCount = 0) →
      s'.pools[p]? = some { st with params := cls, allocCount := st.allocCount + 1 }) ∧
    (¬ (n = 1 ∧ (cls = st.params ∨ st.allocCount = 0)) → s'.pools = s.pools) :=
  alloc_route h0 hl _ hn hfresh ms

/-- **C20 deallocate_route.**  In a state satisfying the invariant, a legal `deallocate(ptr, n)` (block live, allocated
through an allocator on the same pool, same value type, same count): the block is handed to `MemPool::Deallocate` iff
`n = 1` and the parameters of the value type equal the pool's *current* parameters, and to the memory manager otherwise.
The call is an error exactly when that is not where the block came from (`rawIntoPool` = F13 / `poolIntoRaw`); otherwise
the count drops by one resp. the raw ledger entry disappears, and nothing else changes. -/
theorem C20_deallocate_route {s : Sys} (hi : Inv s) {p : Nat} {st : PoolSt} (h0 : s.err = none) (hl : livePool s p = some st)
    {b : Block} (hb : b ∈ s.blocks) (hp : b.pid = p) (frees : List Nat) :
    (b.n = 1 ∧ b.cls = st.params →
      (b.prov = .raw → (step s (.dealloc p b.cls b.n b.id frees)).err = some (.rawIntoPool b.id)) ∧
      (b.prov ≠ .raw →
        (step s (.dealloc p b.cls b.n b.id frees)).err = none ∧
        (step s (.dealloc p b.cls b.n b.id frees)).pools[p]? = some { st with allocCount := st.allocCount - 1 } ∧
        (step s (.dealloc p b.cls b.n b.id frees)).blocks = s.blocks.filter (fun x => x.id != b.id) ∧
        (∀ x ∈ s.base, x.kind ≠ .buf → x ∈ (step s (.dealloc p b.cls b.n b.id frees)).base))) ∧
    (¬ (b.n = 1 ∧ b.cls = st.params) →
      (b.prov ≠ .raw → (step s (.dealloc p b.cls b.n b.id frees)).err = some (.poolIntoRaw b.id)) ∧
      (b.prov = .raw →
        (step s (.dealloc p b.cls b.n b.id frees)).err = none ∧
        (step s (.dealloc p b.cls b.n b.id frees)).pools = s.pools ∧
        (step s (.dealloc p b.cls b.n b.id frees)).blocks = s.blocks.filter (fun x => x.id != b.id) ∧
        (step s (.dealloc p b.cls b.n b.id frees)).base =
          s.base.filter (fun e => !(e.pid == p && e.kind == .raw && e.id == b.id)))) :=
  dealloc_route hi h0 hl hb hp frees

/-- **C20 pool_params_closed_form.**  `pvGetMemPoolParams()` of every C++ value type (size a positive multiple of the
alignment, alignments powers of two — `CppType`): block alignment `min(alignof(T), maxAlignment)`; block size
`sizeof(T)`, except that with more than one block per buffer a type whose size equals that alignment gets twice it. -/
theorem C20_pool_params_closed_form {N M s a : Nat} (hM : 0 < M) (h : CppType M s a) :
    paramsOf N M s a = (if N ≠ 1 ∧ s = min a M then Extracted.poolCorrectSmallMul * s else s, min a M) :=
  paramsOf_cpp hM h

/-- **C20 same_pool_parameters_iff (`pvIsEqual` between two value types).**  `N > 1`: two value types are interchangeable for
the pool (a single object of the one is served by / returned to a pool parameterised for the other) iff their clamped
alignments agree and their sizes are equal or one is the alignment and the other twice it.  `N = 1`: iff clamped
alignments and sizes agree. -/
theorem C20_same_pool_parameters_iff {N M s1 a1 s2 a2 : Nat} (hM : 0 < M) (h1 : CppType M s1 a1) (h2 : CppType M s2 a2) :
    (N ≠ 1 → (paramsOf N M s1 a1 = paramsOf N M s2 a2 ↔
      min a1 M = min a2 M ∧ (s1 = s2 ∨ (s1 = min a1 M ∧ s2 = 2 * s1) ∨ (s2 = min a2 M ∧ s1 = 2 * s2)))) ∧
    (paramsOf 1 M s1 a1 = paramsOf 1 M s2 a2 ↔ min a1 M = min a2 M ∧ s1 = s2) :=
  ⟨fun hN => same_class_iff hM hN h1 h2, same_class_iff_one hM h1 h2⟩

/-- **C20 overaligned_value_types.**  `alignof(T) > maxAlignment`: the pool is parameterised with
`(sizeof(T), maxAlignment)`.  The model covers such types like all others (every theorem of this file holds for them);
what it says about them is that the alignment the allocator works with is `maxAlignment`, strictly smaller than the
type's — the pool's blocks (and the raw path, whose memory manager is given no alignment) are only
`maxAlignment`-aligned (reported finding: `std::list<T, unsynchronized_pool_allocator<T>>` with `alignas(32) T`). -/
theorem C20_overaligned_value_types {N M s a : Nat} (hM : 0 < M) (h : CppType M s a) (ho : M < a) :
    paramsOf N M s a = (s, M) ∧ (paramsOf N M s a).2 < a := by
  rw [paramsOf_overaligned hM h ho]; exact ⟨rfl, ho⟩

/-- **C20 reparameterisation_params_valid.**  The pool object line 119 creates passes every `MOMO_CHECK` of
`MemPool::pvCheckParams` for value types of every size and alignment, for every legal `MemPoolParams<N, …>` and every
`maxAlignment ≤ 1024` (only `std::length_error` for `blockSize > maxSize / N` remains, not modelled). -/
theorem C20_reparameterisation_params_valid {N M : Nat} (hN : 0 < N) (hN2 : N < Extracted.poolBlockCountLimit) (hM : 0 < M)
    (hM2 : M ≤ Extracted.poolMaxBlockAlignment) (size : Nat) {align : Nat} (ha : 0 < align) :
    checkParams N (paramsOf N M size align) :=
  paramsOf_checks hN hN2 hM hM2 size ha

/-! ## the propagation traits of the class and what the standard prescribes under exactly these -/

/-- **C20 traits_as_extracted.**  T1 reads the four typedefs from pool_allocator.h on every run: POCCA = `false_type`,
POCMA = `true_type`, POCS = `true_type`, `is_always_equal` not declared and the class not empty, hence `false_type`; the
extractor also checks that there is no second declaration.  The container-level machine `cstep` branches on `pocca`,
`pocma`, `pocs`; with these values the branches "unmodelled trait combination" are dead code: no other combination can
occur as long as this theorem builds. -/
theorem C20_traits_as_extracted : pocca = false ∧ pocma = true ∧ pocs = true ∧ alwaysEqual = false :=
  traits_as_extracted

/-- **C20 copy assignment, POCCA = false.**  `d = c` after any history: no container or allocator object changes its
pool (`d` keeps its own, `c` too), and whatever `d` frees, reuses and allocates touches only the pool `d`'s allocator
pointed to before and only `d`'s blocks; ledger entries of every other pool — `c`'s included, unless they share — are
untouched. -/
theorem C20_copy_assign_keeps_pools (ops : List COp) (hok0 : (crun CSys.init ops).sys.err = none) (d c : Nat) (acts : List Act)
    (hok : (cstep (crun CSys.init ops) (.copyAssign d c acts)).sys.err = none) :
    ∃ de ∈ (crun CSys.init ops).ents, de.eid = d ∧ (∃ ce ∈ (crun CSys.init ops).ents, ce.eid = c) ∧
      (cstep (crun CSys.init ops) (.copyAssign d c acts)).ents = (crun CSys.init ops).ents ∧
      Frame d de.pid (crun CSys.init ops) (cstep (crun CSys.init ops) (.copyAssign d c acts)) :=
  copyAssign_spec (crun_cinv cinv_init ops hok0) hok0 d c acts hok

/-- **C20 swap, POCS = true.**  After any history, `d.swap(c)` of any two live containers is defined — whether or not their
allocators are equal (with `is_always_equal = false` and POCS = false, unequal allocators would be undefined behaviour;
what the swap does is `C20_swap_carries_pool`). -/
theorem C20_swap_defined_for_unequal_allocators (ops : List COp) (hok0 : (crun CSys.init ops).sys.err = none)
    {de ce : Ent} (hde : de ∈ (crun CSys.init ops).ents) (hce : ce ∈ (crun CSys.init ops).ents) :
    (cstep (crun CSys.init ops) (.swap de.eid ce.eid)).sys.err = none :=
  swap_any_pools_ok (crun_cinv cinv_init ops hok0) hok0 hde hce

/-- **C20 move assignment, POCMA = true.**  After any history, `d = std::move(c)` of any two different live containers —
equal allocators or not — needs no allocation: once `d` has freed what it held, handing over `c`'s allocator succeeds (the
old pool dies if `d` was its last owner; what the assignment does is `C20_move_assign_carries_pool`). -/
theorem C20_move_assign_defined_for_unequal_allocators (ops : List COp) (hok0 : (crun CSys.init ops).sys.err = none)
    {de ce : Ent} (hde : de ∈ (crun CSys.init ops).ents) (hce : ce ∈ (crun CSys.init ops).ents) (hne : de.eid ≠ ce.eid)
    (hnone : ownsNone (crun CSys.init ops) de.eid = true) :
    (cstep (crun CSys.init ops) (.moveAssign de.eid ce.eid [])).sys.err = none :=
  moveAssign_any_pools_ok (crun_cinv cinv_init ops hok0) hok0 hde hce hne hnone

/-! ## allocator objects shared by containers of the same node type (the positive side of F13) -/

/-- **C20 same_node_type_sharing.**  Container histories — with faults — in which every successful single-object request
is for value types with one and the same pool parameters `κ0` (several `std::list<int>`, say, constructed from one
allocator object, from each other's `get_allocator()`, copied, moved, swapped, spliced, assigned in any order; arrays
of any type are unrestricted): no `allocate(1)` is ever served from the memory manager, no provenance error is ever
recorded, and the container-level invariant holds.  (F13 needs two node types on one pool.) -/
theorem C20_same_node_type_sharing (κ0 : Cls) (ops : List FCOp) (h : ∀ op ∈ ops, ∀ c ∈ op.singleCls, c = κ0) :
    (fcrun CSys.init ops).sys.rawSingle = false ∧
    (((fcrun CSys.init ops).sys.err = none ∧ CInv (fcrun CSys.init ops)) ∨
      (fcrun CSys.init ops).sys.err = some .illegal) :=
  ⟨fcrun_oneNodeType κ0 ops h, fcrun_err ops (fcrun_oneNodeType κ0 ops h)⟩

/-- the same for histories without faults (`crun`) -/
theorem C20_same_node_type_sharing_no_faults (κ0 : Cls) (ops : List COp) (h : ∀ op ∈ ops, ∀ c ∈ op.singleCls, c = κ0) :
    (crun CSys.init ops).sys.rawSingle = false ∧
    (((crun CSys.init ops).sys.err = none ∧ CInv (crun CSys.init ops)) ∨
      (crun CSys.init ops).sys.err = some .illegal) := by
  have := C20_same_node_type_sharing κ0 (ops.map .ok) (by
    intro op hop c hc
    obtain ⟨o, ho, rfl⟩ := List.mem_map.mp hop
    exact h o ho c hc)
  rw [fcrun_ok] at this
  exact this

/-- **C20 shared_pool_splice_migrates.**  In every state such a history reaches: `d.splice(…, c, …)` / `merge` / node
hand-over between two containers that share a pool (equal allocators) is legal; the allocator-level state is unchanged;
the nodes named, held by `c`, are now held by `d`; every other block keeps its holder; and `d` can free each migrated
node through its own allocator — it goes back into the pool it came from. -/
theorem C20_shared_pool_splice_migrates (κ0 : Cls) (ops : List FCOp) (h : ∀ op ∈ ops, ∀ c ∈ op.singleCls, c = κ0)
    (hok : (fcrun CSys.init ops).sys.err = none) {de ce : Ent} (hde : de ∈ (fcrun CSys.init ops).ents)
    (hce : ce ∈ (fcrun CSys.init ops).ents) (hp : de.pid = ce.pid) (ids : List Nat) :
    let cs := fcrun CSys.init ops
    let cs' := cstep cs (.splice de.eid ce.eid ids)
    cs'.sys = cs.sys ∧ cs'.ents = cs.ents ∧
    (∀ b ∈ cs.sys.blocks, b.id ∈ ids → cs.own b.id = ce.eid →
      cs'.own b.id = de.eid ∧ ∀ frees, (actStep de.eid de.pid cs' (.free b.id frees)).sys.err = none) ∧
    (∀ i, ¬ (i ∈ ids ∧ cs.own i = ce.eid) → cs'.own i = cs.own i) :=
  splice_spec (fcrun_cinv cinv_init ops hok) hok (fcrun_oneNodeType κ0 ops h) hde hce hp ids

/-! ## non-vacuity of the new sections -/

/-- list-like scenario with faults: allocator object 0, lists 1 and 2 sharing its pool, a `push_back` that throws on the
idle pool (re-parameterised, nothing else), inserts, an insert that throws while the pool is busy (nothing changes), a
splice from 1 to 2, a copy construction that throws after two nodes (pool 1 is born and dies), one that throws inside
select_on_container_copy_construction, destruction of everything -/
def demoFault : List FCOp :=
  [.ok (.newAlloc 0 (8, 4) 900), .ok (.newFrom 1 0), .ok (.newFrom 2 0),
   .mutateF 1 [.allocFail (24, 8) 1],
   .mutateF 1 [.ok (.alloc (24, 8) 1 10 [500]), .ok (.alloc (24, 8) 1 11 [])],
   .mutateF 2 [.ok (.alloc (24, 8) 1 12 []), .allocFail (24, 8) 1],
   .ok (.splice 2 1 [10]),
   .copyConstructF 3 2 (24, 8) 901 [.ok (.alloc (24, 8) 1 20 [600]), .ok (.alloc (24, 8) 1 21 []), .allocFail (24, 8) 1,
      .ok (.free 21 []), .ok (.free 20 [600])],
   .newAllocFail 4 (24, 8), .copyConstructNewFail 4 2 (24, 8),
   .ok (.destroy 2 [.free 10 [], .free 12 []]), .ok (.destroy 1 [.free 11 [500]]), .ok (.destroy 0 [])]

example : (fcrun CSys.init demoFault).sys.err = none := by decide
example : (fcrun CSys.init demoFault).ents = [] ∧ (fcrun CSys.init demoFault).sys.base = [] := by decide
example : ∀ op ∈ demoFault, ∀ c ∈ op.singleCls, c = (24, 8) := by decide
/-- after the failed `push_back` on the idle pool: parameters of the list node, count 0, three owners, only the control block -/
example : (fcrun CSys.init (demoFault.take 4)).sys = ⟨[⟨(24, 8), 0, 3, false⟩], [], [⟨900, 0, .cb⟩], false, none⟩ := by decide
/-- the failed copy construction leaves pool 1 dead and everything of pool 0 as it was -/
example : ((fcrun CSys.init (demoFault.take 8)).sys.pools.map (·.dead)) = [false, true] ∧
    (fcrun CSys.init (demoFault.take 8)).sys.base = (fcrun CSys.init (demoFault.take 7)).sys.base ∧
    (fcrun CSys.init (demoFault.take 8)).sys.blocks = (fcrun CSys.init (demoFault.take 7)).sys.blocks := by decide
/-- the F13 history with failing requests in front: same error, the faults change nothing -/
example : (frun Sys.init f13f).err = (run Sys.init f13).err := by decide
example : FOneTypePerPool (fun _ => (24, 8)) [.ok (.anew (8, 4) 1), .allocFail 0 (40, 8) 1, .ok (.alloc 0 (24, 8) 1 5 [9]),
    .allocFail 0 (40, 8) 1, .allocFail 0 (24, 8) 1, .ok (.dealloc 0 (24, 8) 1 5 [9])] := by
  intro op hop
  simp only [List.mem_cons, List.not_mem_nil, or_false] at hop
  rcases hop with rfl | rfl | rfl | rfl | rfl | rfl <;> simp
/-- value types: `int`-sized (4/4) and 8/4 share pool parameters for `N > 1`; an over-aligned 64/32 type is (64, 16) -/
example : paramsOf 32 16 4 4 = paramsOf 32 16 8 4 ∧ paramsOf 32 16 64 32 = (64, 16) ∧ paramsOf 1 16 4 4 ≠ paramsOf 1 16 8 4 := by decide
example : CppType 16 64 32 := ⟨by decide, ⟨2, rfl⟩, by decide, Or.inr ⟨2, rfl⟩⟩

end Momo.PoolAlloc
