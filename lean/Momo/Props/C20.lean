import Momo.Proof.PoolAllocMove
/-!
# C20 — Pool allocator is a transparent, leak-free std::allocator replacement

Property theorems only. Model: `Momo/Model/PoolAlloc.lean`; lemmas: `Momo/Proof/PoolAlloc*.lean`.

Statement (properties.jsonl): std::list, std::forward_list, std::map/set and std::unordered_map/set
instantiated with momo's unsynchronized_pool_allocator behave exactly as with std::allocator for every
operation sequence; every node is freed into the pool or raw memory it came from, copies of a container
use independent pools, moved and swapped containers carry their pool along, and when the last container
sharing a pool is destroyed all memory has been returned to the base allocator.

What is a theorem here and what is not.  Layer A (`Op`, `run`) is the allocator as written
(allocate / deallocate decision rule, re-parameterisation, sharing of the pool through the shared_ptr).
Layer C (`COp`, `crun`) adds entities = allocator-aware containers and allocator objects, with the
propagation traits of pool_allocator.h.  The histories quantified over are *all* lists of operations,
with all value-type parameters, counts, addresses and all answers of the pool about its buffers; an
operation whose C++ precondition is violated (freeing a block twice, through another allocator, with
another type; using a destroyed container; splicing between unequal allocators) ends the history with
`Err.illegal`.  `MemPool` (C09) is the environment "parameters, count, buffers held; the destructor and
the re-parameterisation give every buffer back".  "Behave exactly as with std::allocator" (contents of
libstdc++'s containers) is differential evidence of the harness, not a theorem.
-/
namespace Momo.PoolAlloc

/-! ## every node is freed into the pool or raw memory it came from -/

/-- **C20 dealloc_provenance.**  Hypothesis, stated explicitly: *one single-object type per shared pool*
(`OneTypePerPool κ`: every `allocate(1)` / `deallocate(·,1)` through pool `p` is for a value type with
parameters `κ p`; arrays are unrestricted).  Then for every history the machine never records a
provenance error: each `deallocate` routes the block to the kind of memory it was allocated from —
`MemPool::Deallocate` for pool blocks, the memory manager for raw blocks — and the invariant holds
(in particular `GetAllocateCount()` = number of live pool blocks).  The only way such a history can end
early is a violated precondition of the call (`illegal`). -/
theorem C20_dealloc_provenance (κ : Nat → Cls) (ops : List Op) (h : OneTypePerPool κ ops) :
    ((run Sys.init ops).err = none ∧ Inv (run Sys.init ops)) ∨ (run Sys.init ops).err = some .illegal :=
  run_err inv_init rfl ops (run_oneType (K_init κ) rfl ops h)

/-- the weakest form of the hypothesis: no `allocate(1)` was ever served from the memory manager because
the pool was busy with another type (ghost flag `rawSingle`).  Pools may change their type while idle. -/
theorem C20_dealloc_provenance_no_raw_single (ops : List Op) (h : (run Sys.init ops).rawSingle = false) :
    ((run Sys.init ops).err = none ∧ Inv (run Sys.init ops)) ∨ (run Sys.init ops).err = some .illegal :=
  run_err inv_init rfl ops h

/-- **the unrestricted statement is false today (finding F13).**  One allocator object shared by a list and
a set: `l.push_back(1); s.insert(1); l.clear(); s.insert(2); s.erase(1)` hands a block of the memory manager
to `MemPool::Deallocate`.  All five calls satisfy their preconditions. -/
theorem C20_dealloc_provenance_unrestricted_false :
    ¬ (∀ ops : List Op, (run Sys.init ops).err = none ∨ (run Sys.init ops).err = some .illegal) := by
  intro h
  have := h f13
  revert this
  decide

/-- the same witness at container level -/
theorem C20_dealloc_provenance_unrestricted_false_containers :
    ¬ (∀ ops : List COp, (crun CSys.init ops).sys.err = none ∨ (crun CSys.init ops).sys.err = some .illegal) := by
  intro h
  have := h f13c
  revert this
  decide

/-- container histories: unless a single object was served raw, no provenance error, and the container-level
invariant holds at the end: every live block is held by a live container whose allocator points to the pool
the block came from, `use_count()` = number of containers / allocator objects attached. -/
theorem C20_dealloc_provenance_containers (ops : List COp) (h : (crun CSys.init ops).sys.rawSingle = false) :
    ((crun CSys.init ops).sys.err = none ∧ CInv (crun CSys.init ops)) ∨
    (crun CSys.init ops).sys.err = some .illegal := by
  obtain ⟨l, hl⟩ := crun_lowers CSys.init ops
  have h' : (run Sys.init l).rawSingle = false := by
    have : CSys.init.sys = Sys.init := rfl
    rw [← this, ← hl]; exact h
  rcases run_err inv_init rfl l h' with ⟨he, _⟩ | he
  · left
    have he' : (crun CSys.init ops).sys.err = none := by rw [hl]; exact he
    exact ⟨he', crun_cinv cinv_init ops he'⟩
  · right; rw [hl]; exact he

/-- in every state reached by a container history (without a raw single), a container that frees a block it
holds succeeds: the block goes back, through the container's own allocator, to where it came from -/
theorem C20_owner_free_succeeds (ops : List COp) (hok : (crun CSys.init ops).sys.err = none)
    (hrs : (crun CSys.init ops).sys.rawSingle = false)
    {en : Ent} (hen : en ∈ (crun CSys.init ops).ents) {b : Block} (hb : b ∈ (crun CSys.init ops).sys.blocks)
    (ho : (crun CSys.init ops).own b.id = en.eid) (frees : List Nat) :
    (actStep en.eid en.pid (crun CSys.init ops) (.free b.id frees)).sys.err = none :=
  owner_free_succeeds (crun_cinv cinv_init ops hok) hok hrs hen hb ho frees

/-! ## copies of a container use independent pools -/

/-- **C20 copy_independent_pools (a).**  After any history, `Container d(c)` (which takes
`select_on_container_copy_construction()`): `d`'s allocator points to a pool that did not exist before;
every other container keeps its allocator (and it is a different pool); every pool that existed — `c`'s
included — has the same parameters, count and owners as before; no old block is touched, every new block
comes from the new pool; the ledger entries of all other pools are unchanged. -/
theorem C20_copy_independent_pools (ops : List COp) (hok0 : (crun CSys.init ops).sys.err = none)
    (d c : Nat) (cls : Cls) (cb : Nat) (acts : List Act)
    (hok : (cstep (crun CSys.init ops) (.copyConstruct d c cls cb acts)).sys.err = none) :
    let cs := crun CSys.init ops
    let cs' := cstep cs (.copyConstruct d c cls cb acts)
    (⟨d, cs.sys.pools.length⟩ : Ent) ∈ cs'.ents ∧
    (∀ e ∈ cs.ents, e.pid ≠ cs.sys.pools.length ∧ e.eid ≠ d ∧ e ∈ cs'.ents) ∧
    (∀ (j : Nat) (st : PoolSt), cs.sys.pools[j]? = some st → cs'.sys.pools[j]? = some st) ∧
    (∀ b ∈ cs.sys.blocks, b ∈ cs'.sys.blocks ∧ cs'.own b.id = cs.own b.id) ∧
    (∀ b ∈ cs'.sys.blocks, b ∈ cs.sys.blocks ∨ (b.pid = cs.sys.pools.length ∧ cs'.own b.id = d)) ∧
    (∀ x : Base, x.pid ≠ cs.sys.pools.length → (x ∈ cs'.sys.base ↔ x ∈ cs.sys.base)) :=
  copyConstruct_spec (crun_cinv cinv_init ops hok0) hok0 d c cls cb acts hok

/-- **C20 copy_independent_pools (b): a container touches only its own pool.**  Whatever a container `e`
(allocator -> pool `p`) allocates and frees (insert, erase, clear, rehash, copy assignment — POCCA is false,
so the target keeps its pool): every other pool keeps its state, every block held by another container stays
live with its holder, new blocks come from `p`, ledger entries of other pools are unchanged.  Together with
(a): operations on a copy never reach the original's pool and vice versa. -/
theorem C20_container_touches_only_own_pool (ops : List COp) (hok0 : (crun CSys.init ops).sys.err = none)
    (e : Nat) (acts : List Act) (hok : (cstep (crun CSys.init ops) (.mutate e acts)).sys.err = none) :
    ∃ en ∈ (crun CSys.init ops).ents, en.eid = e ∧
      Frame e en.pid (crun CSys.init ops) (cstep (crun CSys.init ops) (.mutate e acts)) ∧
      (cstep (crun CSys.init ops) (.mutate e acts)).ents = (crun CSys.init ops).ents := by
  have hc := crun_cinv cinv_init ops hok0
  unfold cstep at hok ⊢
  have he : ¬ (crun CSys.init ops).sys.err.isSome = true := by simp [hok0]
  rw [if_neg he] at hok ⊢
  simp only at hok ⊢
  cases hs : findEnt (crun CSys.init ops) e with
  | none => simp only [hs] at hok; rw [cfail_err _ hok0] at hok; cases hok
  | some en =>
    simp only [hs] at hok ⊢
    exact ⟨en, (findEnt_some hs).1, (findEnt_some hs).2,
      acts_frame hc (findEnt_some hs).1 (findEnt_some hs).2 rfl acts hok0 hok, acts_ents _ _ _ _⟩

/-! ## moved and swapped containers carry their pool along -/

/-- **C20 move_swap_carry_pool (move construction).**  `Container d(std::move(c))`: `d`'s allocator points to
the pool `c`'s allocator points to, no block is allocated or freed, the ledger is unchanged, `c`'s blocks are
now `d`'s. -/
theorem C20_move_construct_carries_pool (ops : List COp) (hok0 : (crun CSys.init ops).sys.err = none) (d c : Nat)
    (hok : (cstep (crun CSys.init ops) (.moveConstruct d c)).sys.err = none) :
    let cs := crun CSys.init ops
    let cs' := cstep cs (.moveConstruct d c)
    ∃ ce, ce ∈ cs.ents ∧ ce.eid = c ∧ (⟨d, ce.pid⟩ : Ent) ∈ cs'.ents ∧ ce ∈ cs'.ents ∧
      cs'.sys.blocks = cs.sys.blocks ∧ cs'.sys.base = cs.sys.base ∧
      (∀ i, cs.own i = c → cs'.own i = d) ∧ (∀ i, cs.own i ≠ c → cs'.own i = cs.own i) :=
  moveConstruct_spec hok0 d c hok

/-- **C20 move_swap_carry_pool (move assignment, POCMA = true).**  `d = std::move(c)`: afterwards `d`'s
allocator points to `c`'s pool; every block `c` held is still live, is now held by `d`, and comes from exactly
that pool; `c` holds nothing; the blocks `d` held before are gone (freed through `d`'s old allocator —
`C20_owner_free_succeeds`); blocks of third containers are untouched. -/
theorem C20_move_assign_carries_pool (ops : List COp) (hok0 : (crun CSys.init ops).sys.err = none) (d c : Nat)
    (acts : List Act) (hok : (cstep (crun CSys.init ops) (.moveAssign d c acts)).sys.err = none) :
    let cs := crun CSys.init ops
    let cs' := cstep cs (.moveAssign d c acts)
    ∃ de ce, de ∈ cs.ents ∧ de.eid = d ∧ ce ∈ cs.ents ∧ ce.eid = c ∧ d ≠ c ∧
      (⟨d, ce.pid⟩ : Ent) ∈ cs'.ents ∧ ce ∈ cs'.ents ∧
      (∀ b ∈ cs.sys.blocks, cs.own b.id = c → b ∈ cs'.sys.blocks ∧ cs'.own b.id = d ∧ b.pid = ce.pid) ∧
      (∀ b ∈ cs'.sys.blocks, cs'.own b.id ≠ c) ∧
      (∀ b ∈ cs.sys.blocks, cs.own b.id = d → b ∉ cs'.sys.blocks) ∧
      (∀ b ∈ cs.sys.blocks, cs.own b.id ≠ d → cs.own b.id ≠ c → b ∈ cs'.sys.blocks ∧ cs'.own b.id = cs.own b.id) :=
  moveAssign_spec (crun_cinv cinv_init ops hok0) hok0 d c acts hok

/-- **C20 move_swap_carry_pool (swap, POCS = true).**  `d.swap(c)`: the allocators exchange their pools, the
containers exchange their blocks, the allocator-level state (pools, blocks, ledger) does not change at all. -/
theorem C20_swap_carries_pool (ops : List COp) (hok0 : (crun CSys.init ops).sys.err = none) (d c : Nat)
    (hok : (cstep (crun CSys.init ops) (.swap d c)).sys.err = none) :
    let cs := crun CSys.init ops
    let cs' := cstep cs (.swap d c)
    ∃ de ce, de ∈ cs.ents ∧ de.eid = d ∧ ce ∈ cs.ents ∧ ce.eid = c ∧
      (⟨d, ce.pid⟩ : Ent) ∈ cs'.ents ∧ (⟨c, de.pid⟩ : Ent) ∈ cs'.ents ∧ cs'.sys = cs.sys ∧
      (∀ i, cs.own i = c → cs'.own i = d) ∧ (∀ i, cs.own i = d → cs'.own i = c) ∧
      (∀ i, cs.own i ≠ c → cs.own i ≠ d → cs'.own i = cs.own i) :=
  swap_spec hok0 d c hok

/-- **C20 move_swap_carry_pool (invariant form).**  After every container history — copies, moves, swaps,
splices, assignments in any order — every live block is held by a live container whose allocator points to the
pool the block was allocated from, names of containers are unique, and the owner count of every pool equals the
number of containers / allocator objects attached to it.  (So a later `erase` or destructor returns each node to
the right pool.) -/
theorem C20_blocks_follow_their_pool (ops : List COp) (hok : (crun CSys.init ops).sys.err = none) :
    (∀ b ∈ (crun CSys.init ops).sys.blocks,
        ∃ e ∈ (crun CSys.init ops).ents, e.eid = (crun CSys.init ops).own b.id ∧ e.pid = b.pid) ∧
    ((crun CSys.init ops).ents.map (·.eid)).Nodup ∧
    (∀ (p : Nat) (st : PoolSt), (crun CSys.init ops).sys.pools[p]? = some st →
        st.refs = (crun CSys.init ops).ents.countP (fun e => e.pid == p)) :=
  let hc := crun_cinv cinv_init ops hok
  ⟨hc.owned, hc.nodupE, hc.refs⟩

/-! ## when the last container sharing a pool is destroyed all memory has been returned -/

/-- **C20 last_owner_returns_all.**  After every container history: a pool to which no live container or
allocator object is attached any more is dead (`~MemPool` has run, `use_count() == 0`) and the ledger of the base
allocator holds nothing that was requested for it — no control block, no buffer, no raw block. -/
theorem C20_last_owner_returns_all (ops : List COp) (hok : (crun CSys.init ops).sys.err = none) (p : Nat)
    (hlast : ∀ e ∈ (crun CSys.init ops).ents, e.pid ≠ p) :
    (∀ x ∈ (crun CSys.init ops).sys.base, x.pid ≠ p) ∧
    (∀ st, (crun CSys.init ops).sys.pools[p]? = some st → st.dead = true ∧ st.refs = 0) ∧
    (∀ b ∈ (crun CSys.init ops).sys.blocks, b.pid ≠ p) := by
  have hc := crun_cinv cinv_init ops hok
  refine ⟨no_entity_no_base hc p hlast, fun st hst => no_entity_pool_dead hc p hlast hst, ?_⟩
  intro b hb hbp
  obtain ⟨e, he, _, hep⟩ := hc.owned b hb
  exact hlast e he (hep.trans hbp)

/-- corollary: when every container and allocator object has been destroyed the ledger is empty -/
theorem C20_all_destroyed_ledger_empty (ops : List COp) (hok : (crun CSys.init ops).sys.err = none)
    (hnone : (crun CSys.init ops).ents = []) :
    (crun CSys.init ops).sys.base = [] ∧ (crun CSys.init ops).sys.blocks = [] := by
  have h := fun p => C20_last_owner_returns_all ops hok p (by rw [hnone]; intro e he; cases he)
  constructor
  · cases hb : (crun CSys.init ops).sys.base with
    | nil => rfl
    | cons x t => exact absurd rfl ((h x.pid).1 x (by rw [hb]; exact List.mem_cons_self))
  · cases hb : (crun CSys.init ops).sys.blocks with
    | nil => rfl
    | cons x t => exact absurd rfl ((h x.pid).2.2 x (by rw [hb]; exact List.mem_cons_self))

/-- the destructor call that makes this happen never fails: in every reachable state, a container that has freed
all its blocks can drop its allocator; if it was the last owner, the pool then has no live block and
`GetAllocateCount() == 0` (so `MOMO_EXTRA_CHECK(allocCount == 0)` in `~MemPool` holds) -/
theorem C20_destructor_drop_succeeds (ops : List COp) (hok : (crun CSys.init ops).sys.err = none)
    {en : Ent} (hen : en ∈ (crun CSys.init ops).ents) (hnone : ownsNone (crun CSys.init ops) en.eid = true) :
    (step (crun CSys.init ops).sys (.adrop en.pid)).err = none :=
  drop_succeeds (crun_cinv cinv_init ops hok) hok hen hnone

/-! ## non-vacuity: concrete histories that meet the hypotheses and end without error -/

/-- list-like scenario: allocator object 0 (for `int`), list 1 built from it, three inserts, a copy 2, an erase,
a container 3 with a pool of its own, `3 = std::move(1)`, swap of 2 and 3, splice from 3 into 1, destruction of everything -/
def demo : List COp :=
  [.newAlloc 0 (8, 4) 900, .newFrom 1 0,
   .mutate 1 [.alloc (24, 8) 1 10 [500], .alloc (24, 8) 1 11 [], .alloc (24, 8) 1 12 [501]],
   .copyConstruct 2 1 (24, 8) 901 [.alloc (24, 8) 1 20 [600], .alloc (24, 8) 1 21 [], .alloc (24, 8) 1 22 []],
   .mutate 1 [.free 11 []],
   .newAlloc 3 (24, 8) 902, .mutate 3 [.alloc (24, 8) 1 30 [700]],
   .moveAssign 3 1 [.free 30 [700]],
   .swap 2 3,
   .newFrom 4 2, .splice 4 2 [10],
   .mutate 4 [.alloc (16, 8) 7 40 []],        -- an array (bucket table): raw
   .destroy 4 [.free 10 [], .free 40 []],
   .destroy 2 [.free 12 [500, 501]],
   .destroy 3 [.free 20 [], .free 21 [], .free 22 [600]],
   .destroy 1 [], .destroy 0 []]

example : (crun CSys.init demo).sys.err = none := by decide
example : (crun CSys.init demo).sys.rawSingle = false := by decide
example : (crun CSys.init demo).ents = [] := by decide
example : (crun CSys.init demo).sys.base = [] := by decide
example : ((crun CSys.init (demo.take 12)).sys.pools.map (·.dead)) = [false, false, true] := by decide
/-- before the destructors run: 6 ledger entries, 6 live blocks; the pool container 3 had of its own died at the move
    assignment (3 was its last owner) and took its control block and buffer along -/
example : ((crun CSys.init (demo.take 12)).sys.base.length, (crun CSys.init (demo.take 12)).sys.blocks.length) = (6, 6) := by decide
/-- a pool may change its type while idle without any error (weaker than one type per pool) -/
example : (run Sys.init [.anew (8, 4) 1, .alloc 0 (24, 8) 1 5 [9], .dealloc 0 (24, 8) 1 5 [],
    .alloc 0 (40, 8) 1 6 [10], .dealloc 0 (40, 8) 1 6 [], .adrop 0]) = ⟨[⟨(40, 8), 0, 0, true⟩], [], [], false, none⟩ := by decide
example : OneTypePerPool (fun _ => (24, 8)) [.anew (8, 4) 1, .alloc 0 (24, 8) 1 5 [9], .alloc 0 (8, 8) 3 6 [], .dealloc 0 (24, 8) 1 5 []] := by
  intro op hop
  simp only [List.mem_cons, List.not_mem_nil, or_false] at hop
  rcases hop with rfl | rfl | rfl | rfl <;> simp
/-- F13 is a legal history: the flag is what goes up, one step before the error -/
example : (run Sys.init (f13.take 5)).err = none ∧ (run Sys.init (f13.take 5)).rawSingle = true := by decide

end Momo.PoolAlloc
