import Momo.Model.HashTable
/-! # C01 — property theorems (in progress: see Momo/Proof/HashTable*.lean) -/
