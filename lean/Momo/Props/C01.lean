import Momo.Proof.HashTableSummary
import Momo.Proof.TrEqHashProbe
import Momo.Proof.TrEqOpenBytes
import Driver.HashTable
/-!
# C01 — Hash set/map contents always equal the abstract set/map

Property theorems only. Model: `Momo/Model/HashTable.lean` (namespace `Momo.HT`, run against the real
`momo::HashSet`/`HashMap` by `harness/c01_hash.cpp` on every check); lemmas:
`Momo/Proof/HashTable*.lean`.

Statement (properties.jsonl): after any sequence of operations on a hash set or hash map (insert,
add-at-position, find, remove by key, iterator or predicate, extract and re-insert, key reset,
reserve, clear, copy, move, swap, merge), every key that should be present is found with its value,
no other key is found, the reported count is exact, and one full traversal visits each element
exactly once. This holds for every bucket layout the library offers (chained small-array buckets
and open addressing), for every key/value size, alignment and relocation category, and for any
hash function however badly it distributes.

Everything below is stated for an arbitrary bucket description `sp : Spec` with `SpecOK sp`
(`mkSpec_ok`: every description the driver builds for the library's bucket kinds satisfies it) and
an arbitrary hash function `hf : Nat → Nat`.
-/
namespace Momo.HT
open Momo Momo.Probe

/-! ## Every bucket kind of the library is covered -/

/-- **all bucket layouts.** The description `Driver.HashTable.mkSpec` builds for LimP4, LimP, LimP1,
Lim4, UnlimP, One, Open2N2, OpenN1, Open8 (and its fallback) — for every item size, alignment,
relocation category and hash-code-part setting — satisfies `SpecOK`, provided `maxCount ≥ 1`
(UnlimP has none) and `WasFull` turns true no later than at `maxCount` items. -/
theorem mkSpec_ok (kind : String) (n isz ial : Nat) (part fast reloc : Bool) (fullFrom logStart : Nat)
    (hn : 0 < n) (hff : fullFrom ≤ n) :
    SpecOK (Driver.HashTable.mkSpec kind n isz ial part fast reloc fullFrom logStart) := by
  have hbase : ∀ (L m : Nat), 0 < m →
      (if (m == 1) = true then 2 ^ L * 5 / 8 else if (m == 2) = true then 2 ^ L + 2 ^ L / 2 else 2 ^ L * 2)
        ≤ 2 ^ L * m := by
    intro L m hm
    generalize 2 ^ L = N
    split
    · rename_i h; have : m = 1 := by simpa using h
      subst this; omega
    · split
      · rename_i h; have : m = 2 := by simpa using h
        subst this; omega
      · rename_i h1 h2
        have h1' : m ≠ 1 := by simpa using h1
        have h2' : m ≠ 2 := by simpa using h2
        exact Nat.mul_le_mul_left N (by omega)
  have hratio : ∀ (L m num den : Nat), num ≤ den → 2 ^ L * m * num / den ≤ 2 ^ L * m := by
    intro L m num den h
    generalize 2 ^ L * m = X
    by_cases hd : den = 0
    · subst hd; simp
    · exact Nat.div_le_of_le_mul (by rw [Nat.mul_comm den X]; exact Nat.mul_le_mul_left X h)
  have hite : ∀ (c : Prop) [Decidable c], (if c then 0 else n) ≤ n := by
    intro c _; split <;> omega
  have hmonoB : ∀ sp : Spec, sp.cap = .base → ∀ L, capacityOf sp L < capacityOf sp (L + 1) :=
    fun sp h => capacityOf_mono sp (fun _ _ h' => by rw [h] at h'; cases h')
  have hmonoR : ∀ (sp : Spec) (num den : Nat), sp.cap = .ratio num den → 0 < den → den ≤ 2 * (sp.maxCount * num) →
      ∀ L, capacityOf sp L < capacityOf sp (L + 1) :=
    fun sp num den h h1 h2 => capacityOf_mono sp (fun _ _ h' => by rw [h] at h'; cases h'; exact ⟨h1, h2⟩)
  unfold Driver.HashTable.mkSpec
  simp only
  split
  · -- LimP4
    refine ⟨hn, fun _ => ?_, (fun h => by cases h), fun _ L => hbase L n hn, hmonoB _ rfl⟩
    exact hite _
  · exact ⟨hn, fun _ => hff, (fun h => by cases h), fun _ L => hbase L n hn, hmonoB _ rfl⟩
  · exact ⟨hn, fun _ => hff, (fun h => by cases h), fun _ L => hbase L n hn, hmonoB _ rfl⟩
  · exact ⟨hn, fun _ => hff, (fun h => by cases h), fun _ L => hbase L n hn, hmonoB _ rfl⟩
  · exact ⟨(by simp), (fun h => by cases h), fun _ => rfl, (fun h => by cases h), hmonoB _ rfl⟩
  · exact ⟨(by simp), fun _ => Nat.le_refl _, (fun h => by cases h), fun _ L => hbase L 1 (by decide), hmonoB _ rfl⟩
  · exact ⟨hn, fun _ => Nat.zero_le _, (fun h => by cases h), fun _ L => hratio L n 11 12 (by decide), hmonoR _ 11 12 rfl (by decide) (by simp only; omega)⟩
  · exact ⟨hn, fun _ => Nat.zero_le _, (fun h => by cases h), fun _ L => hratio L n 5 6 (by decide), hmonoR _ 5 6 rfl (by decide) (by simp only; omega)⟩
  · exact ⟨(by simp), fun _ => Nat.zero_le _, (fun h => by cases h), fun _ L => hratio L 7 13 14 (by decide), hmonoR _ 13 14 rfl (by decide) (by show 14 ≤ 2 * (7 * 13); decide)⟩
  · exact ⟨hn, fun _ => Nat.le_refl _, (fun h => by cases h), fun _ L => hbase L n hn, hmonoB _ rfl⟩

/-- UnlimP has no `maxCount` template argument (the harness passes `n = 0`) -/
theorem mkSpec_ok_unlimP (n isz ial : Nat) (part fast reloc : Bool) (fullFrom logStart : Nat) :
    SpecOK (Driver.HashTable.mkSpec "UnlimP" n isz ial part fast reloc fullFrom logStart) :=
  by
  unfold Driver.HashTable.mkSpec
  simp only []
  exact ⟨(by simp), (fun h => by cases h), fun _ => rfl, (fun h => by cases h),
    capacityOf_mono _ (fun _ _ h => by cases h)⟩

/-! ## Single operations (each for every `Faults` value) -/

/-- **every key that should be present is found, no other key is found** — whatever the number of
coexisting generations, the probing rule, the search-bound encoder and the hash function -/
theorem C01_find_iff (sp : Spec) (hf : Nat → Nat) (t : Table) (hI : TableInv sp hf t) (k : Nat) :
    (findTable sp hf t k).isSome ↔ k ∈ (traverse t).map (·.key) :=
  findTable_spec sp hf t hI k

/-- **… with its value**: the position `pvFind` returns holds the value the traversal (= the
abstract map, see `C01_history_partial`) associates with the key -/
theorem C01_find_value (sp : Spec) (hf : Nat → Nat) (t : Table) (hI : TableInv sp hf t) (k : Nat) :
    findVal sp hf t k = lookup (traverse t) k :=
  findVal_eq sp hf t hI k

/-- **the reported count is exact and one full traversal visits each element exactly once**
(the iterator's list has no duplicate key, and its length is `GetCount()`) -/
theorem C01_count_traverse (sp : Spec) (hf : Nat → Nat) (t : Table) (hI : TableInv sp hf t) :
    t.count = (traverse t).length ∧ ((traverse t).map (·.key)).Nodup :=
  ⟨hI.core.count, hI.core.nodup⟩

/-- **insertion without a fault always succeeds** (the capacity rule grows the table before a
bucket array can be completely full) -/
theorem C01_insert_succeeds (sp : Spec) (hf : Nat → Nat) (ok : SpecOK sp) (t : Table) (it : Item)
    (f : Faults) (hI : TableInv sp hf t) (hrg : f.refuseGrow = false) (hra : f.refuseAdd = false) :
    (add sp hf t it f).2 = .ok :=
  add_nofault_ok sp hf ok t it f hI.core hrg hra

/-! ## Histories: the model state machine refines the abstract map -/

/-- the two containers a history works on and the handle of an extracted element -/
structure St where
  a : Table := emptyTable
  b : Table := emptyTable
  handle : Option Item := none

/-- abstract state: the two maps as association lists (no duplicate keys) and the handle -/
structure ASt where
  A : List Item := []
  B : List Item := []
  handle : Option Item := none

/-- operations of a history. Faults are part of the operation: ANY `Faults` value may accompany
any insertion / reservation (C11). `ins true` works on the second container. Add-at-position,
key reset and the iterator/extract variants of remove are forwarders to `ins`/`rem`/`ext` in the
library (`not_modelled` in the registry). -/
inductive Op
  | ins (toB : Bool) (k v : Nat) (f : Faults)
  | find (k : Nat)
  | rem (k : Nat)
  | remPred (pred : Item → Bool)
  | reserve (c : Nat) (f : Faults)
  | clear (shrink : Bool)
  | copyTo | moveTo | swap | mergeTo
  | ext (k : Nat)
  | reins (f : Faults)

/-- what an operation reports -/
inductive Res
  | unit
  | val (v : Option Nat)
  | ins (present : Bool) (out : Outcome)
  | num (n : Nat)
  | out (o : Outcome)

/-- the (fault-dependent) outcome contained in a result -/
def Res.outcome : Res → Outcome
  | .ins _ o => o
  | .out o => o
  | _ => .ok

/-- one operation on the model (the same composition of model functions as `Driver.HashTable.step`) -/
def step (sp : Spec) (hf : Nat → Nat) (s : St) : Op → St × Res
  | .ins toB k v f =>
    match findTable sp hf (if toB then s.b else s.a) k with
    | some _ => (s, .ins true .ok)
    | none =>
      ((if toB then { s with b := (add sp hf s.b ⟨k, v⟩ f).1 } else { s with a := (add sp hf s.a ⟨k, v⟩ f).1 }),
        .ins false (add sp hf (if toB then s.b else s.a) ⟨k, v⟩ f).2)
  | .find k => (s, .val (findVal sp hf s.a k))
  | .rem k =>
    match findTable sp hf s.a k with
    | some (gi, b, j) => ({ s with a := removePos sp s.a gi b j }, .num 1)
    | none => (s, .num 0)
  | .remPred p => ({ s with a := (removePred s.a p).1 }, .num (removePred s.a p).2)
  | .reserve c f => ({ s with a := (reserve sp hf s.a c f).1 }, .out (reserve sp hf s.a c f).2)
  | .clear sh => ({ s with a := clear sp s.a sh }, .unit)
  | .copyTo => ({ s with b := copyOf sp hf s.a }, .unit)
  | .moveTo => ({ s with b := s.a, a := emptyTable }, .unit)
  | .swap => ({ s with a := s.b, b := s.a }, .unit)
  | .mergeTo => ({ s with a := (mergeTo sp hf s.a s.b).1, b := (mergeTo sp hf s.a s.b).2 }, .unit)
  | .ext k =>
    match findTable sp hf s.a k with
    | some (gi, b, j) =>
      ({ s with a := removePos sp s.a gi b j,
                handle := some ((bkt sp (s.a.gens.getD gi default).bs b).items.getD j default) },
        .val (some ((bkt sp (s.a.gens.getD gi default).bs b).items.getD j default).val))
    | none => (s, .val none)
  | .reins f =>
    match s.handle with
    | none => (s, .unit)
    | some it =>
      match findTable sp hf s.a it.key with
      | some _ => (s, .ins true .ok)
      | none =>
        if (add sp hf s.a it f).2 = .ok then ({ s with a := (add sp hf s.a it f).1, handle := none }, .ins false .ok)
        else (s, .ins false (add sp hf s.a it f).2)

/-- **the abstract specification**: the obvious finite map. `o` is the outcome the operation had
(an insertion that met a fault inserts nothing); everything else is determined. -/
def astep (s : ASt) (o : Outcome) : Op → ASt × Res
  | .ins toB k v _ =>
    if k ∈ akeys (if toB then s.B else s.A) then (s, .ins true .ok)
    else if o = .ok then
      ((if toB then { s with B := ⟨k, v⟩ :: s.B } else { s with A := ⟨k, v⟩ :: s.A }), .ins false .ok)
    else (s, .ins false o)
  | .find k => (s, .val (lookup s.A k))
  | .rem k =>
    if k ∈ akeys s.A then ({ s with A := s.A.filter (fun x => x.key != k) }, .num 1) else (s, .num 0)
  | .remPred p => ({ s with A := s.A.filter (fun x => !p x) }, .num (s.A.filter p).length)
  | .reserve _ _ => (s, .out o)
  | .clear _ => ({ s with A := [] }, .unit)
  | .copyTo => ({ s with B := s.A }, .unit)
  | .moveTo => ({ s with B := s.A, A := [] }, .unit)
  | .swap => ({ s with A := s.B, B := s.A }, .unit)
  | .mergeTo =>
    ({ s with A := s.A.filter (fun x => decide (x.key ∈ akeys s.B)),
              B := s.A.filter (fun x => !decide (x.key ∈ akeys s.B)) ++ s.B }, .unit)
  | .ext k =>
    match s.A.find? (fun x => x.key == k) with
    | some it => ({ s with A := s.A.filter (fun x => x.key != k), handle := some it }, .val (some it.val))
    | none => (s, .val none)
  | .reins _ =>
    match s.handle with
    | none => (s, .unit)
    | some it =>
      if it.key ∈ akeys s.A then (s, .ins true .ok)
      else if o = .ok then ({ s with A := it :: s.A, handle := none }, .ins false .ok)
      else (s, .ins false o)

/-- the refinement relation: both tables satisfy the invariant and their traversals are
rearrangements of the abstract contents -/
structure Rel (sp : Spec) (hf : Nat → Nat) (s : St) (as : ASt) : Prop where
  ia : TableInv sp hf s.a
  ib : TableInv sp hf s.b
  pa : (traverse s.a).Perm as.A
  pb : (traverse s.b).Perm as.B
  hd : s.handle = as.handle

/-- side conditions of an operation. Faults: an interrupted migration (`relocStop`) can only
accompany item categories whose relocation can throw (`FaultsOK`). Copy: the copy's bucket array
must have a slot for every element (`CopyFits`: true whenever the count is at most the capacity of
`2^(logStart+63)` buckets, `copyFits_of_cap`; the model's size search has fuel 64). -/
def OpOK (sp : Spec) (s : St) : Op → Prop
  | .ins _ _ _ f => FaultsOK sp f
  | .reserve _ f => FaultsOK sp f
  | .reins f => FaultsOK sp f
  | .copyTo => CopyFits sp s.a
  | _ => True

/-- insertion into one table against its abstract contents -/
theorem insert_refines_partial (sp : Spec) (hf : Nat → Nat) (ok : SpecOK sp) (t : Table) (M : List Item)
    (hI : TableInv sp hf t) (hp : (traverse t).Perm M) (it : Item) (f : Faults) (hF : FaultsOK sp f) :
    ((findTable sp hf t it.key).isSome ↔ it.key ∈ akeys M) ∧
    (findTable sp hf t it.key = none →
      TableInv sp hf (add sp hf t it f).1 ∧
      ((add sp hf t it f).2 = .ok → (traverse (add sp hf t it f).1).Perm (it :: M)) ∧
      ((add sp hf t it f).2 ≠ .ok → (add sp hf t it f).1 = t)) := by
  refine ⟨(findTable_spec sp hf t hI it.key).trans (mem_akeys_perm hp it.key), fun hnone => ?_⟩
  have hk := findTable_none sp hf t hI it.key hnone
  refine ⟨add_keeps_inv sp hf ok t it f hI hF hk, fun hok => ?_, add_fail_unchanged sp hf t it f⟩
  exact (add_ok sp hf ok t it f hI hF hk hok).2.trans (List.Perm.cons _ hp)

/-- **one step refines the specification**: from related states, any admissible operation with any
faults leads to related states and reports exactly what the specification reports -/
theorem step_refines_partial (sp : Spec) (hf : Nat → Nat) (ok : SpecOK sp) (s : St) (as : ASt)
    (hR : Rel sp hf s as) (op : Op) (hop : OpOK sp s op) :
    Rel sp hf (step sp hf s op).1 (astep as (step sp hf s op).2.outcome op).1 ∧
    (astep as (step sp hf s op).2.outcome op).2 = (step sp hf s op).2 := by
  obtain ⟨ia, ib, pa, pb, hd⟩ := hR
  have nA : (akeys as.A).Nodup := nodup_keys_perm pa.symm ia.core.nodup
  cases op with
  | ins toB k v f =>
    cases toB with
    | false =>
      obtain ⟨h1, h2⟩ := insert_refines_partial sp hf ok s.a as.A ia pa ⟨k, v⟩ f hop
      simp only [step, astep, Bool.false_eq_true, if_false]
      cases hfnd : findTable sp hf s.a k with
      | some pos =>
        have : k ∈ akeys as.A := h1.mp (by rw [hfnd]; rfl)
        simp only [this, if_true]
        exact ⟨⟨ia, ib, pa, pb, hd⟩, by first | trivial | rfl⟩
      | none =>
        have hnin : k ∉ akeys as.A := fun hin => by
          have := h1.mpr hin; rw [hfnd] at this; cases this
        obtain ⟨i1, i2, i3⟩ := h2 hfnd
        simp only [hnin, if_false, Res.outcome]
        by_cases hok : (add sp hf s.a ⟨k, v⟩ f).2 = .ok
        · simp only [hok, if_true]
          exact ⟨⟨i1, ib, i2 hok, pb, hd⟩, by first | trivial | rfl⟩
        · simp only [hok, if_false]
          refine ⟨⟨i1, ib, ?_, pb, hd⟩, by first | trivial | rfl⟩
          show (traverse (add sp hf s.a ⟨k, v⟩ f).1).Perm as.A
          rw [i3 hok]; exact pa
    | true =>
      obtain ⟨h1, h2⟩ := insert_refines_partial sp hf ok s.b as.B ib pb ⟨k, v⟩ f hop
      simp only [step, astep, if_true]
      cases hfnd : findTable sp hf s.b k with
      | some pos =>
        have : k ∈ akeys as.B := h1.mp (by rw [hfnd]; rfl)
        simp only [this, if_true]
        exact ⟨⟨ia, ib, pa, pb, hd⟩, by first | trivial | rfl⟩
      | none =>
        have hnin : k ∉ akeys as.B := fun hin => by
          have := h1.mpr hin; rw [hfnd] at this; cases this
        obtain ⟨i1, i2, i3⟩ := h2 hfnd
        simp only [hnin, if_false, Res.outcome]
        by_cases hok : (add sp hf s.b ⟨k, v⟩ f).2 = .ok
        · simp only [hok, if_true]
          exact ⟨⟨ia, i1, pa, i2 hok, hd⟩, by first | trivial | rfl⟩
        · simp only [hok, if_false]
          refine ⟨⟨ia, i1, pa, ?_, hd⟩, by first | trivial | rfl⟩
          show (traverse (add sp hf s.b ⟨k, v⟩ f).1).Perm as.B
          rw [i3 hok]; exact pb
  | find k =>
    simp only [step, astep]
    refine ⟨⟨ia, ib, pa, pb, hd⟩, ?_⟩
    rw [findVal_eq sp hf s.a ia k, lookup_perm _ _ k nA pa]
  | rem k =>
    simp only [step, astep]
    have hiff := (findTable_spec sp hf s.a ia k).trans (mem_akeys_perm pa k)
    cases hfnd : findTable sp hf s.a k with
    | some pos =>
      obtain ⟨gi, b, j⟩ := pos
      have hin : k ∈ akeys as.A := hiff.mp (by rw [hfnd]; rfl)
      simp only [hin, if_true]
      obtain ⟨g, hg, hj, hkey, _⟩ := found_item sp hf s.a k gi b j hfnd
      obtain ⟨i1, i2⟩ := removePos_spec sp hf s.a ia gi b j g _ hg hj
      refine ⟨⟨i1, ib, ?_, pb, hd⟩, by first | trivial | rfl⟩
      have := perm_filter_of_cons as.A _ _ nA (i2.trans pa)
      rw [hkey] at this; exact this
    | none =>
      have hnin : k ∉ akeys as.A := fun hin => by
        have := hiff.mpr hin; rw [hfnd] at this; cases this
      simp only [hnin, if_false]
      exact ⟨⟨ia, ib, pa, pb, hd⟩, by first | trivial | rfl⟩
  | remPred p =>
    simp only [step, astep]
    obtain ⟨i1, i2, i3⟩ := removePred_spec sp hf s.a p ia
    refine ⟨⟨i1, ib, i2.trans (pa.filter _), pb, hd⟩, ?_⟩
    rw [i3, (pa.filter p).length_eq]
  | reserve c f =>
    simp only [step, astep, Res.outcome]
    obtain ⟨i1, i2, _⟩ := reserve_spec sp hf ok s.a c f ia hop
    exact ⟨⟨i1, ib, i2.trans pa, pb, hd⟩, by first | trivial | rfl⟩
  | clear sh =>
    simp only [step, astep]
    obtain ⟨i1, i2⟩ := clear_spec sp hf ok s.a sh ia
    refine ⟨⟨i1, ib, ?_, pb, hd⟩, by first | trivial | rfl⟩
    show (traverse (clear sp s.a sh)).Perm []
    rw [i2]
  | copyTo =>
    simp only [step, astep]
    obtain ⟨i1, i2⟩ := copyOf_spec sp hf ok s.a ia hop
    exact ⟨⟨ia, i1, pa, i2.trans pa, hd⟩, by first | trivial | rfl⟩
  | moveTo =>
    simp only [step, astep]
    exact ⟨⟨emptyTable_inv sp hf, ia, List.Perm.refl _, pa, hd⟩, by first | trivial | rfl⟩
  | swap =>
    simp only [step, astep]
    exact ⟨⟨ib, ia, pb, pa, hd⟩, by first | trivial | rfl⟩
  | mergeTo =>
    simp only [step, astep]
    obtain ⟨i1, i2, i3, i4⟩ := mergeTo_spec sp hf ok s.a s.b ia ib
    obtain ⟨e1, e2⟩ := filter_congr_keys (traverse s.a) (traverse s.b) as.B pb
    rw [e1] at i3; rw [e2] at i4
    exact ⟨⟨i1, i2, i3.trans (pa.filter _), i4.trans (List.Perm.append (pa.filter _) pb), hd⟩, by first | trivial | rfl⟩
  | ext k =>
    simp only [step, astep]
    have hiff := (findTable_spec sp hf s.a ia k).trans (mem_akeys_perm pa k)
    cases hfnd : findTable sp hf s.a k with
    | some pos =>
      obtain ⟨gi, b, j⟩ := pos
      obtain ⟨g, hg, hj, hkey, hmem⟩ := found_item sp hf s.a k gi b j hfnd
      obtain ⟨i1, i2⟩ := removePos_spec sp hf s.a ia gi b j g _ hg hj
      have hfind := find?_of_mem_nodup as.A _ nA ((pa.mem_iff).mp hmem)
      rw [hkey] at hfind
      simp only [hfind]
      refine ⟨⟨i1, ib, ?_, pb, by first | trivial | rfl⟩, by first | trivial | rfl⟩
      have := perm_filter_of_cons as.A _ _ nA (i2.trans pa)
      rw [hkey] at this; exact this
    | none =>
      have hnone : as.A.find? (fun x => x.key == k) = none := by
        rw [List.find?_eq_none]
        intro x hx
        have := findTable_none sp hf s.a ia k hfnd x ((pa.mem_iff).mpr hx)
        simpa using this
      simp only [hnone]
      exact ⟨⟨ia, ib, pa, pb, hd⟩, by first | trivial | rfl⟩
  | reins f =>
    obtain ⟨sa, sb, sh⟩ := s
    obtain ⟨A, B, ah⟩ := as
    simp only at hd pa pb nA ia ib hop
    subst hd
    cases sh with
    | none =>
      simp only [step, astep]
      exact ⟨⟨ia, ib, pa, pb, rfl⟩, by first | trivial | rfl⟩
    | some it =>
      simp only [step, astep]
      obtain ⟨h1, h2⟩ := insert_refines_partial sp hf ok sa A ia pa it f hop
      cases hfnd : findTable sp hf sa it.key with
      | some pos =>
        have : it.key ∈ akeys A := h1.mp (by rw [hfnd]; rfl)
        simp only [this, if_true]
        exact ⟨⟨ia, ib, pa, pb, rfl⟩, by first | trivial | rfl⟩
      | none =>
        have hnin : it.key ∉ akeys A := fun hin => by
          have := h1.mpr hin; rw [hfnd] at this; cases this
        obtain ⟨i1, i2, i3⟩ := h2 hfnd
        simp only [hnin, if_false]
        by_cases hok : (add sp hf sa it f).2 = .ok
        · simp only [hok, if_true, Res.outcome]
          exact ⟨⟨i1, ib, i2 hok, pb, rfl⟩, by first | trivial | rfl⟩
        · simp only [hok, if_false, Res.outcome]
          exact ⟨⟨ia, ib, pa, pb, rfl⟩, by first | trivial | rfl⟩

/-- run a history on the model: final state and the list of results -/
def run (sp : Spec) (hf : Nat → Nat) : St → List Op → St × List Res
  | s, [] => (s, [])
  | s, op :: ops =>
    ((run sp hf (step sp hf s op).1 ops).1, (step sp hf s op).2 :: (run sp hf (step sp hf s op).1 ops).2)

/-- run the specification; `outs` are the outcomes the operations had (only insertions and
reservations can have one other than `ok`, and only because of a fault) -/
def arun : ASt → List Op → List Outcome → ASt × List Res
  | s, op :: ops, o :: outs =>
    ((arun (astep s o op).1 ops outs).1, (astep s o op).2 :: (arun (astep s o op).1 ops outs).2)
  | s, _, _ => (s, [])

/-- every operation of the history is admissible in the state it is executed in -/
def RunOK (sp : Spec) (hf : Nat → Nat) : St → List Op → Prop
  | _, [] => True
  | s, op :: ops => OpOK sp s op ∧ RunOK sp hf (step sp hf s op).1 ops

theorem run_refines_partial (sp : Spec) (hf : Nat → Nat) (ok : SpecOK sp) :
    ∀ (ops : List Op) (s : St) (as : ASt), Rel sp hf s as → RunOK sp hf s ops →
      Rel sp hf (run sp hf s ops).1 (arun as ops ((run sp hf s ops).2.map Res.outcome)).1 ∧
      (arun as ops ((run sp hf s ops).2.map Res.outcome)).2 = (run sp hf s ops).2 := by
  intro ops
  induction ops with
  | nil => intro s as hR _; exact ⟨hR, rfl⟩
  | cons op ops ih =>
    intro s as hR hok
    obtain ⟨h1, h2⟩ := step_refines_partial sp hf ok s as hR op hok.1
    obtain ⟨h3, h4⟩ := ih _ _ h1 hok.2
    simp only [run, List.map_cons, arun]
    exact ⟨h3, by rw [h2, h4]⟩

/-- **what C01 asserts about the state a history reaches** (from two empty containers):
* every result reported along the way equals the specification's,
* both tables satisfy the invariant,
* every lookup returns exactly what the abstract map holds (present keys with their value, no
  other key),
* `GetCount()` is the size of the abstract map,
* one full traversal is a rearrangement of the abstract map's contents, which has no duplicate key
  (each element is visited exactly once). -/
def HistoryOK (sp : Spec) (hf : Nat → Nat) (ops : List Op) : Prop :=
  (arun {} ops ((run sp hf {} ops).2.map Res.outcome)).2 = (run sp hf {} ops).2 ∧
  TableInv sp hf (run sp hf {} ops).1.a ∧ TableInv sp hf (run sp hf {} ops).1.b ∧
  (∀ k, findVal sp hf (run sp hf {} ops).1.a k
      = lookup (arun {} ops ((run sp hf {} ops).2.map Res.outcome)).1.A k) ∧
  (∀ k, findVal sp hf (run sp hf {} ops).1.b k
      = lookup (arun {} ops ((run sp hf {} ops).2.map Res.outcome)).1.B k) ∧
  (run sp hf {} ops).1.a.count = (arun {} ops ((run sp hf {} ops).2.map Res.outcome)).1.A.length ∧
  (run sp hf {} ops).1.b.count = (arun {} ops ((run sp hf {} ops).2.map Res.outcome)).1.B.length ∧
  (traverse (run sp hf {} ops).1.a).Perm (arun {} ops ((run sp hf {} ops).2.map Res.outcome)).1.A ∧
  (traverse (run sp hf {} ops).1.b).Perm (arun {} ops ((run sp hf {} ops).2.map Res.outcome)).1.B ∧
  (akeys (arun {} ops ((run sp hf {} ops).2.map Res.outcome)).1.A).Nodup ∧
  (akeys (arun {} ops ((run sp hf {} ops).2.map Res.outcome)).1.B).Nodup

/-- the statement without any side condition on fault values and sizes. It is FALSE for the model
(`C01_history_full_false`): the model's `Faults` type lets a migration be "interrupted" even for
item categories whose relocation cannot throw, in which case lookups (which then read the newest
generation only) miss the elements left behind. -/
def C01_history_full : Prop :=
  ∀ (sp : Spec) (hf : Nat → Nat), SpecOK sp → ∀ ops : List Op, HistoryOK sp hf ops

/-- **C01, the history theorem.** For ANY list of operations with ANY fault choices that are
admissible in the sense of `OpOK` (no interrupted migration for nothrow-relocatable items; copies
of at most `capacity(2^(logStart+63))` elements), the state reached satisfies `HistoryOK`. Since
every prefix of a history is a history, this covers every reachable state. -/
theorem C01_history_partial (sp : Spec) (hf : Nat → Nat) (ok : SpecOK sp) (ops : List Op)
    (hok : RunOK sp hf {} ops) : HistoryOK sp hf ops := by
  have h0 : Rel sp hf {} {} :=
    ⟨emptyTable_inv sp hf, emptyTable_inv sp hf, List.Perm.refl _, List.Perm.refl _, rfl⟩
  obtain ⟨⟨ia, ib, pa, pb, _⟩, hres⟩ := run_refines_partial sp hf ok ops {} {} h0 hok
  have nA := nodup_keys_perm pa.symm ia.core.nodup
  have nB := nodup_keys_perm pb.symm ib.core.nodup
  refine ⟨hres, ia, ib, fun k => ?_, fun k => ?_, ?_, ?_, pa, pb, nA, nB⟩
  · rw [findVal_eq sp hf _ ia k, lookup_perm _ _ k nA pa]
  · rw [findVal_eq sp hf _ ib k, lookup_perm _ _ k nB pb]
  · rw [ia.core.count, pa.length_eq]
  · rw [ib.core.count, pb.length_eq]

/-- the side condition of `copyTo` holds for every count up to the capacity of `2^(logStart+63)`
buckets -/
theorem C01_copy_fits (sp : Spec) (ok : SpecOK sp) (t : Table)
    (h : t.count ≤ capacityOf sp (sp.logStart + 63)) : CopyFits sp t :=
  copyFits_of_cap sp ok t ⟨63, by decide, h⟩

/-! ## The index and capacity arithmetic as translated from the headers

`Momo.Tr.*` (lean/Momo/Translated/HashProbe.lean) are regenerated by tools/translate.py on every check from the current text of
`BucketBase::GetStartBucketIndex / GetNextBucketIndex / GetMaxProbe`, the `GetNextBucketIndex` of `BucketLimP4`, `BucketOpen2N2`,
`BucketOpen8`, `HashBucketBase::GetBucketCountShift / CalcCapacity`, the constant shifts of the open-addressing policies and
`HashSet::pvGetNewLogBucketCount`; `Momo/Proof/TrEqHashProbe.lean` proves them equal to the functions of the model. -/

/-- **the probe path of the translated code is the model's**: in a table of `2^L` buckets (`L ≤ 63`, `bucketCount = size_t{1} << L`)
the bucket reached after `p ≤ 2^L` rounds of `bucketIndex = GetNextBucketIndex(bucketIndex, hashCode, bucketCount, ++probe)` from
`GetStartBucketIndex(hashCode, bucketCount)` — all translated — is the model's `seqOf` (linear for BucketBase / LimP4, triangular for
Open2N2 / Open8); every step is the model's `nextIdx`; and the path reaches every bucket within `2^L` probes. -/
theorem C01_probe_path_translated (f : TrEq.NextFn) (L h : Nat) (hL : L ≤ 63) :
    (∀ p, p ≤ 2 ^ L → TrEq.trSeq f L h p = seqOf f.quad L (start L h) p) ∧
    (∀ (sp : Spec), sp.quad = f.quad → ∀ idx p, idx + p + 1 < 2 ^ 64 → f.next idx (2 ^ L) p = nextIdx sp L idx p) ∧
    (∀ b, b < 2 ^ L → ∃ p, p < 2 ^ L ∧ TrEq.trSeq f L h p = b) :=
  ⟨fun p hp => TrEq.trSeq_eq f L h p hL hp, fun sp hq idx p hi => TrEq.tr_nextIdx f sp hq L idx p hi,
   fun b hb => TrEq.trSeq_surj f L h b hL hb⟩

/-- **the slot search of `pvAddNogrow` over the translated index functions** is the model's `findSlot` (whose result
`addNogrowGen` uses), and `BucketBase::GetMaxProbe` is the search bound of buckets without an encoder. -/
theorem C01_slot_search_translated (f : TrEq.NextFn) (sp : Spec) (hq : sp.quad = f.quad) (g : Gen) (h : Nat) (hL : g.L ≤ 63) :
    findSlot sp g (2 ^ g.L) 0 (start g.L h) = TrEq.trAddProbe f g.L (fun i => isFull sp (bkt sp g.bs i)) h ∧
    (sp.bound = BoundKind.none → ∀ b, Tr.base_GetMaxProbe g.L = maxProbe sp g.L b) := by
  refine ⟨TrEq.findSlot_eq_tr f sp hq g h hL, ?_⟩
  intro hb b
  rw [TrEq.tr_maxProbe_base g.L (by omega)]
  simp [maxProbe, hb]

/-- **growth arithmetic as translated**: `HashSet::pvGetNewLogBucketCount` (with `HashBucketBase::GetBucketCountShift` or the constant
shift of the open-addressing policies) is the model's `newLog` for tables of at most `2^61` buckets, and
`HashBucketBase::CalcCapacity(1 << L, maxCount)` is the model's `capacityOf` (`L ≤ 62`) — for `maxCount = 1` given the exact value
`⌊n·5/8⌋` of the one floating-point expression, which the translator leaves uninterpreted. -/
theorem C01_growth_translated (sp : Spec) (t : Table) (hL : ∀ g ∈ t.gens.head?, g.L ≤ 61) :
    (if sp.baseShift then Tr.hs_pvGetNewLogBucketCount_base t.gens.isEmpty sp.logStart (t.gens.headD default).L sp.maxCount
     else Tr.hs_pvGetNewLogBucketCount_open t.gens.isEmpty sp.logStart (t.gens.headD default).L sp.maxCount) = newLog sp t ∧
    (sp.cap = CapKind.base → ∀ (L : Nat) (capFloat58 : Nat → Nat), L ≤ 62 → (sp.maxCount = 1 → capFloat58 (2 ^ L) = 2 ^ L * 5 / 8) →
      Tr.base_CalcCapacity capFloat58 (2 ^ L) sp.maxCount = capacityOf sp L) :=
  ⟨TrEq.tr_newLog sp t hL, fun hc L f hL62 hf => TrEq.tr_capacity_base sp L f hc hL62 hf⟩

/-! ## Non-vacuity: concrete states satisfying the hypotheses -/

-- the translated functions on concrete values: triangular path 7, 8, 10, 13 in 16 buckets; growth 2^10 -> 2^12 (maxCount 4), capacity 2n
example : (List.range 4).map (TrEq.trSeq .open2n2 4 0x127) = [7, 8, 10, 13] := by decide
example : Tr.hs_pvGetNewLogBucketCount_base false 4 10 4 = 12 ∧ Tr.hs_pvGetNewLogBucketCount_open false 4 10 3 = 11 := by decide
example : Tr.base_CalcCapacity (fun _ => 0) 1024 4 = 2048 ∧ Tr.base_CalcCapacity (fun _ => 0) 1024 2 = 1536 := by decide


instance decOpOK (sp : Spec) (s : St) : (op : Op) → Decidable (OpOK sp s op)
  | .ins _ _ _ f => inferInstanceAs (Decidable (FaultsOK sp f))
  | .reserve _ f => inferInstanceAs (Decidable (FaultsOK sp f))
  | .reins f => inferInstanceAs (Decidable (FaultsOK sp f))
  | .copyTo => inferInstanceAs (Decidable (CopyFits sp s.a))
  | .find _ | .rem _ | .remPred _ | .clear _ | .moveTo | .swap | .mergeTo | .ext _ => isTrue trivial

instance decRunOK (sp : Spec) (hf : Nat → Nat) : (s : St) → (ops : List Op) → Decidable (RunOK sp hf s ops)
  | _, [] => isTrue trivial
  | s, op :: ops => @instDecidableAnd _ _ (decOpOK sp s op) (decRunOK sp hf _ ops)

/-- LimP4<4> with 8-byte items, first table of 2 buckets -/
def exLimP4 : Spec := Driver.HashTable.mkSpec "LimP4" 4 8 8 false true false 4 1
/-- Open2N2<1>: open addressing, one item per bucket, triangular probing, first table of 2 buckets -/
def exOpen : Spec := Driver.HashTable.mkSpec "Open2N2" 1 8 8 false true false 0 1

theorem exLimP4_ok : SpecOK exLimP4 := mkSpec_ok _ _ _ _ _ _ _ _ _ (by decide) (by decide)
theorem exOpen_ok : SpecOK exOpen := mkSpec_ok _ _ _ _ _ _ _ _ _ (by decide) (by decide)

/-- five insertions; the fifth grows the table and its migration is interrupted after one item -/
def exTwoGens : List Op :=
  [.ins false 1 10 {}, .ins false 2 20 {}, .ins false 3 30 {}, .ins false 4 40 {},
   .ins false 5 50 { relocStop := some 1 }]

/-- a concrete LimP4 table with TWO coexisting generations (8 and 2 buckets) … -/
example : (run exLimP4 id {} exTwoGens).1.a.gens.map (·.L) = [3, 1] := by decide
/-- … is reachable by an admissible history, hence satisfies the invariant, … -/
example : TableInv exLimP4 id (run exLimP4 id {} exTwoGens).1.a :=
  (C01_history_partial exLimP4 id exLimP4_ok exTwoGens (by decide)).2.1
/-- … holds its five items across both generations, each visited once, all found with their value -/
example : (traverse (run exLimP4 id {} exTwoGens).1.a).map (·.key) = [4, 5, 2, 3, 1] := by decide
example : [1, 2, 3, 4, 5, 6].map (findVal exLimP4 id (run exLimP4 id {} exTwoGens).1.a)
    = [some 10, some 20, some 30, some 40, some 50, none] := by decide

/-- Open2N2<1> with a constant hash: the second insertion meets a refused growth and falls back to
the existing 2-bucket table, which is then FULL; the third is refused with "table is full" -/
def exFull : List Op :=
  [.ins false 1 10 {}, .ins false 2 20 { refuseGrow := true }, .ins false 3 30 { refuseGrow := true },
   .find 2, .rem 1, .ins false 3 30 { refuseGrow := true }]

example : (run exOpen (fun _ => 0) {} (exFull.take 3)).1.a.gens.map (fun g => g.bs.map (isFull exOpen))
    = [[true, true]] := by decide
example : TableInv exOpen (fun _ => 0) (run exOpen (fun _ => 0) {} (exFull.take 3)).1.a :=
  (C01_history_partial exOpen (fun _ => 0) exOpen_ok (exFull.take 3) (by decide)).2.1
example : ((run exOpen (fun _ => 0) {} exFull).2.map Res.outcome)
    = [.ok, .ok, .full, .ok, .ok, .ok] := by decide

/-- a longer history: growth, interrupted migration, removal, second container, copy, merge,
predicate removal, extract + re-insert, refused reservation, swap -/
def exOps : List Op :=
  [.ins false 1 10 {}, .ins false 2 20 {}, .ins false 3 30 {}, .ins false 4 40 {},
   .ins false 5 50 { relocStop := some 1 }, .find 3, .rem 2, .ins true 4 44 {}, .ins true 9 99 {}, .copyTo,
   .ins true 7 70 {}, .mergeTo, .remPred (fun it => it.key % 2 == 0), .ext 1, .reins {},
   .reserve 40 { refuseGrow := true }, .swap]

example : RunOK exLimP4 id {} exOps := by decide
example : (traverse (run exLimP4 id {} exOps).1.a).map (·.key) = [1, 3, 4, 5, 7] := by decide
example : (arun {} exOps ((run exLimP4 id {} exOps).2.map Res.outcome)).1.A.map (·.key) = [7, 5, 4, 3, 1] := by
  decide

/-! ## Why the side condition on faults is needed: a concrete counterexample -/

/-- Open2N2<1> with nothrow-relocatable items and a fast nothrow hash (`nothrowReloc`) -/
def exNR : Spec := Driver.HashTable.mkSpec "Open2N2" 1 8 8 false true true 0 1
/-- the second insertion grows the table and its migration is "interrupted" before the first item -/
def exNROps : List Op := [.ins false 1 10 {}, .ins false 2 20 { relocStop := some 0 }]

theorem exNR_ok : SpecOK exNR := mkSpec_ok _ _ _ _ _ _ _ _ _ (by decide) (by decide)

/-- two generations are left although lookups of this item category read only the newest one:
key 1 is traversed but not found -/
theorem unrestricted_faults_counterexample :
    exNR.nothrowReloc = true ∧
    (run exNR id {} exNROps).1.a.gens.map (fun g => (g.L, genCount g)) = [(2, 1), (1, 1)] ∧
    (traverse (run exNR id {} exNROps).1.a).map (·.key) = [2, 1] ∧
    findVal exNR id (run exNR id {} exNROps).1.a 1 = none ∧
    lookup (arun {} exNROps ((run exNR id {} exNROps).2.map Res.outcome)).1.A 1 = some 10 := by
  decide

/-- hence the history statement without side conditions is false for the model -/
theorem C01_history_full_false : ¬ C01_history_full := by
  intro h
  have h1 := (h exNR id exNR_ok exNROps).2.2.2.1 1
  have h2 := unrestricted_faults_counterexample
  rw [h2.2.2.2.1, h2.2.2.2.2] at h1
  cases h1

end Momo.HT

/-! ## Byte level: the open-addressing buckets `BucketOpenN1` / `BucketOpen8` under the C01 model

`HT` keeps a bucket as the list of its items in storage order plus flags. For the two bucket classes with one state byte
the byte array is modelled as laid out in the headers (`Momo/Model/OpenBytes.lean`, invariant and `Find` theorems in
`Props/C13.lean`). Below: the abstract bucket is the abstraction of the byte-level bucket, `AddCrt` / `Remove` / `IsFull` commute
with it, `HT`'s in-bucket lookup (`keyIdx`) agrees with the byte-level `Find` of every variant (scalar loop in forward or
reverse item order, SSE2 mask, SWAR mask), hence `pvFind` over byte-level buckets is `HT.findTable` and `C01_find_iff`
holds for it. Hash codes are 64-bit (`hf x < 2^64`). -/
namespace Momo.OpenB
open Momo

/-- **abstraction.** For a bucket of the C01 model with at most `maxCount` items, the bytes `bytesOf` assigns to it satisfy
the byte-level invariant for its items' hash codes; `IsFull` and the count read off the bytes are the model's; the bytes after
a byte-level `AddCrt` are the bytes of `HT.pushItem`, the bytes after a byte-level `Remove` those of `HT.removeAt`
(swap-with-last); and every byte-level bucket that satisfies the invariant carries exactly the canonical item bytes. -/
theorem C01_bucket_abstraction_bytes (v : Variant) (mc : Nat) (rev : Bool) (hf : Nat → Nat) (sp : HT.Spec) (bk : HT.Bucket)
    (hfit : v.fits mc rev) (hmc : sp.maxCount = mc) (hunl : sp.unlimited = false) (hlen : bk.items.length ≤ mc)
    (hhf : ∀ x, hf x < 2 ^ 64) :
    (bytesOf mc rev hf bk).Inv (hashes hf bk.items) ∧
    ((bytesOf mc rev hf bk).isFull = HT.isFull sp bk) ∧
    ((bytesOf mc rev hf bk).count = bk.items.length) ∧
    (∀ it, bk.items.length < mc → ∀ j, j < mc →
        ((bytesOf mc rev hf bk).addCrt (hf it.key)).data j = (bytesOf mc rev hf (HT.pushItem sp it bk)).data j) ∧
    (∀ index, index < bk.items.length → ∀ j, j < mc →
        ((bytesOf mc rev hf bk).remove index).data j = (bytesOf mc rev hf (HT.removeAt index bk)).data j) ∧
    (∀ (b : Bucket) (hs : List Nat), b.Inv hs → ∀ j, j < b.maxCount →
        b.data j = (encode b.maxCount b.reverse hs b.maxProbeExp).data j) :=
  ⟨bytesOf_inv v mc rev hf bk hfit hlen hhf, (bytesOf_step v mc rev hf sp bk hfit hmc hunl hlen hhf).1,
   (bytesOf_step v mc rev hf sp bk hfit hmc hunl hlen hhf).2.1, (bytesOf_step v mc rev hf sp bk hfit hmc hunl hlen hhf).2.2.1,
   (bytesOf_step v mc rev hf sp bk hfit hmc hunl hlen hhf).2.2.2, fun _ _ hI j hj => inv_eq_encode hI j hj⟩

/-- **in-bucket lookup.** For every bucket with distinct keys, `Find` on its bytes — searching the short hash of `hf k` with the
predicate `key(item) == k`, by the scalar loop (either item order), the SSE2 mask or the SWAR mask — returns the logical
position `HT.keyIdx` returns, or nothing when it returns nothing. -/
theorem C01_bucket_lookup_bytes (v : Variant) (mc : Nat) (rev : Bool) (hf : Nat → Nat) (bk : HT.Bucket) (k : Nat)
    (hfit : v.fits mc rev) (hlen : bk.items.length ≤ mc) (hhf : ∀ x, hf x < 2 ^ 64)
    (hnd : (bk.items.map (·.key)).Nodup) :
    lookupB v mc rev hf bk k = HT.keyIdx bk.items k :=
  lookupB_eq_keyIdx v mc rev hf bk k hfit hlen hhf hnd

/-- **`C01_find_iff` at byte level.** For every table satisfying the C01 invariant with an `OpenN1<maxCount, reverse>` /
`Open8` bucket description, `pvFind` evaluated with the byte-level `Find` in every bucket it visits returns the position
`HT.findTable` returns; hence every key that should be present is found and no other key is. -/
theorem C01_find_iff_bytes (v : Variant) (mc : Nat) (rev : Bool) (sp : HT.Spec) (hf : Nat → Nat) (t : HT.Table)
    (hI : HT.TableInv sp hf t) (hfit : v.fits mc rev) (hmc : sp.maxCount = mc) (hunl : sp.unlimited = false)
    (hhf : ∀ x, hf x < 2 ^ 64) (k : Nat) :
    findTableB (fun bk => lookupB v mc rev hf bk k) sp hf t k = HT.findTable sp hf t k ∧
    ((findTableB (fun bk => lookupB v mc rev hf bk k) sp hf t k).isSome ↔ k ∈ (HT.traverse t).map (·.key)) := by
  have e := findTableB_eq v mc rev sp hf t hI hfit hmc hunl hhf k
  exact ⟨e, by rw [e]; exact HT.findTable_spec sp hf t hI k⟩

/-- the slot arithmetic as translated from the header: `ptGetItemPtr(index)` and `pvGetShortHash(index)` address the slot `phys`
(so item and short hash of one logical index share a slot), `pvGetState()` is the byte of the last logical index -/
theorem C01_slots_translated (b : Bucket) (h0 : 0 < b.maxCount) (i : Nat) (hi : i < b.maxCount) :
    Tr.openN1_itemIndex b.reverse b.maxCount i = phys b.maxCount b.reverse i ∧
    Tr.openN1_shortHashIndex b.reverse b.maxCount i = phys b.maxCount b.reverse i ∧
    Tr.openN1_stateIndex b.reverse b.maxCount = phys b.maxCount b.reverse (b.maxCount - 1) := by
  refine ⟨TrEq.tr_ob_itemIndex _ _ i hi, TrEq.tr_ob_shortHashIndex b i hi, ?_⟩
  rw [TrEq.tr_ob_stateIndex b h0, stateIdx_eq b h0]

/-! Non-vacuity: the three variants on concrete buckets of the C01 model. -/
def exItems : List HT.Item := [⟨10, 1⟩, ⟨11, 2⟩, ⟨12, 3⟩]
def exBk : HT.Bucket := ⟨exItems, true, (0, 0)⟩
/-- every key has the same hash code: all short hashes equal, the key predicate decides -/
example : [10, 11, 12, 13].map (lookupB .n1 3 true (fun _ => 2 ^ 63) exBk) = [some 0, some 1, some 2, none] := by decide +kernel
example : [10, 11, 12, 13].map (lookupB .sse 7 false (fun _ => 2 ^ 63) exBk) = [some 0, some 1, some 2, none] := by decide +kernel
example : [10, 11, 12, 13].map (lookupB .swar 7 false (fun x => x <<< 40) exBk) = [some 0, some 1, some 2, none] := by decide +kernel
example : [10, 11, 12, 13].map (HT.keyIdx exItems) = [some 0, some 1, some 2, none] := by decide
example : Variant.fits .swar 7 false := ⟨by decide, by decide, fun _ => ⟨rfl, rfl⟩⟩

/-- a real `Open8` table of the C01 model (7 slots per bucket, triangular probing) reached by a history … -/
def exOpen8 : HT.Spec := Driver.HashTable.mkSpec "Open8" 7 8 8 false true false 0 1
def exHf8 : Nat → Nat := fun x => (x * 11400714819323198485) % 2 ^ 64
def exOps8 : List HT.Op := [.ins false 1 10 {}, .ins false 2 20 {}, .ins false 3 30 {}, .rem 2]
theorem exOpen8_ok : HT.SpecOK exOpen8 := HT.mkSpec_ok _ _ _ _ _ _ _ _ _ (by decide) (by decide)
/-- … satisfies the invariant, so its byte-level lookup (SWAR variant) finds exactly the keys it holds -/
example (k : Nat) :
    (findTableB (fun bk => lookupB .swar 7 false exHf8 bk k) exOpen8 exHf8 (HT.run exOpen8 exHf8 {} exOps8).1.a k).isSome
      ↔ k ∈ (HT.traverse (HT.run exOpen8 exHf8 {} exOps8).1.a).map (·.key) :=
  (C01_find_iff_bytes .swar 7 false exOpen8 exHf8 _ (HT.C01_history_partial exOpen8 exHf8 exOpen8_ok exOps8 (by decide)).2.1
    ⟨by decide, by decide, fun _ => ⟨rfl, rfl⟩⟩ rfl rfl (fun x => Nat.mod_lt _ (by decide)) k).2
example : [1, 2, 3].map (fun k => (findTableB (fun bk => lookupB .swar 7 false exHf8 bk k) exOpen8 exHf8
    (HT.run exOpen8 exHf8 {} exOps8).1.a k).isSome) = [true, false, true] := by decide +kernel

end Momo.OpenB
