import Momo.Proof.HashTableMerge
import Momo.Proof.HashTableSummary
import Momo.Proof.ObjMain
import Momo.Proof.ArrFaultDone
import Momo.Proof.ArrSegFaultOps
import Momo.Proof.BTreeFaultMergeTo
import Momo.Proof.BTreeHistory
/-!
# C10 — Bulk operations stay valid on failure; merge/extract never copy or lose items

Property theorems for the modelled parts:
* hash set / map merge (`pvMergeTo`) — conservation, refused elements stay in the source, no
  duplicate keys, both containers valid (`TableInv`), for every bucket kind, hash function, number
  of coexisting generations in either table;
* `Remove(pred)` and extraction + re-insertion as item transfers;
* the object-level step behind extraction (`ReplaceRelocate`) lives in `Momo.Obj`
  (trace well-formedness: no element is copied for the nothrow categories — see `relocate1_ok`).
B-tree merges (linear, fast, generic) are stated in `Props/C02.lean`.
-/
namespace Momo.HT

/-- **merge conserves elements.** `src.MergeTo(dst)`: afterwards both tables satisfy the invariant
(valid and usable), and the elements of source and destination together are exactly those before —
nothing lost, nothing duplicated. -/
theorem C10_merge_conserves (sp : Spec) (hf : Nat → Nat) (ok : SpecOK sp) (src dst : Table)
    (hS : TableInv sp hf src) (hD : TableInv sp hf dst) :
    TableInv sp hf (mergeTo sp hf src dst).1 ∧ TableInv sp hf (mergeTo sp hf src dst).2 ∧
    (traverse (mergeTo sp hf src dst).1 ++ traverse (mergeTo sp hf src dst).2).Perm
      (traverse src ++ traverse dst) :=
  mergeTo_inv sp hf ok src dst hS hD

/-- **an element refused by the destination stays in the source**, and only those: the source keeps
exactly its elements whose key the destination already had; the destination gains exactly the
others (so it keeps every element it had and, by its invariant, has no duplicate key). -/
theorem C10_merge_refused_stay (sp : Spec) (hf : Nat → Nat) (ok : SpecOK sp) (src dst : Table)
    (hS : TableInv sp hf src) (hD : TableInv sp hf dst) :
    (traverse (mergeTo sp hf src dst).1).Perm
      ((traverse src).filter (fun x => decide (x.key ∈ (traverse dst).map (·.key)))) ∧
    (traverse (mergeTo sp hf src dst).2).Perm
      ((traverse src).filter (fun x => !decide (x.key ∈ (traverse dst).map (·.key))) ++ traverse dst) ∧
    ((traverse (mergeTo sp hf src dst).2).map (·.key)).Nodup :=
  ⟨(mergeTo_spec sp hf ok src dst hS hD).2.2.1, (mergeTo_spec sp hf ok src dst hS hD).2.2.2,
   (mergeTo_spec sp hf ok src dst hS hD).2.1.1.nodup⟩

/-- **removal by predicate** removes exactly the selected elements and reports their number -/
theorem C10_removePred_exact (sp : Spec) (hf : Nat → Nat) (t : Table) (pred : Item → Bool)
    (hI : TableInv sp hf t) :
    TableInv sp hf (removePred t pred).1 ∧
    (traverse (removePred t pred).1).Perm ((traverse t).filter (fun x => !pred x)) ∧
    (removePred t pred).2 = ((traverse t).filter pred).length :=
  removePred_spec sp hf t pred hI

/-- **extraction transfers one element**: the extracted item together with what remains is what was
there; the remaining table is valid. (Re-insertion is `C11_add_every_fault_partial`: on failure the
table is unchanged and the item is still in the handle.) -/
theorem C10_extract_transfers (sp : Spec) (hf : Nat → Nat) (t : Table) (hI : TableInv sp hf t) (gi b j : Nat)
    (g : Gen) (it : Item) (hg : t.gens[gi]? = some g) (hj : (bkt sp g.bs b).items[j]? = some it) :
    TableInv sp hf (removePos sp t gi b j) ∧ (it :: traverse (removePos sp t gi b j)).Perm (traverse t) :=
  removePos_spec sp hf t hI gi b j g it hg hj

end Momo.HT

/-!
## Arrays: positional insert / remove of `momo::Array` under every fault schedule (model `Momo/Model/ArrFault.lean`)

`InsertCrt / InsertVar`, `Insert(index, Item&&)`, `Insert(index, count, const Item&)` (= `Insert(index, const Item&)` for
count 1), `Insert(index, begin, end)` for forward iterators, `Remove(index, count)`, `Remove(itemFilter)` as written in
Array.h and ArrayUtility.h (`ArrayShifter`: no `try` anywhere - an exception leaves the array after the statements
already executed; the `ArrayItemHandler` is destroyed by unwinding).  Notation as in Props/C04.lean.
In the model the array *is* the list of its constructed items (`Cell = live v | moved`), so "every slot below count holds
a live (possibly moved-from) element" is carried by the ledger: exactly as many item objects exist as the array has
cells (`objs = cells.length + k`, no bad destruction), none outside `[0, count)`, none destroyed twice.
-/
namespace Momo.ArrF
open Momo.Arr
variable {α : Type}

/-- **C10, arrays.** "Operations documented as only basically exception-safe (… positional insert/remove in arrays)
leave, after an exception, a valid and usable container with no leak: … in arrays the count is consistent and every slot
holds a live (possibly moved-from) element."  Under EVERY fault schedule, for every index, count, range and every value
argument (also one that is an element of the same array): a completed call yields exactly the state of the fault-free
model `Momo.Arr`; a call that throws leaves `Valid`: the representation invariant holds (count within capacity,
storage consistent), the outstanding blocks are exactly the array's own block (+ `rest`), exactly `count` item objects
exist (+ `k`), nothing was deallocated or destroyed twice; and the count lies between the old count and the
intended new count (`Remove` that throws never changes the count). -/
theorem C10_array_basic_every_fault (cfg : Cfg) (thr : Thr) (rest : List Nat) (k : Nat) (op : FOp α)
    (x : Sys α) (v : Valid cfg rest k x) (hpre : op.pre cfg x.arr) :
    Post (stepF cfg thr op) x
      (fun _ y => y.arr = (pureStep cfg x.arr op).1 ∧ Valid cfg rest k y)
      (fun y => Valid cfg rest k y ∧ x.arr.cells.length ≤ y.arr.cells.length ∧
        y.arr.cells.length ≤ x.arr.cells.length + op.maxAdd) :=
  basic_step cfg thr rest k op x v hpre

/-- **C10, the ledger clauses spelled out** for a state reached by an exception (or by success):
count ≤ capacity, constructed objects = count (+ the `k` of the environment), blocks = own block (+ `rest`),
no double destroy / bad deallocation. -/
theorem C10_array_valid_means (cfg : Cfg) (rest : List Nat) (k : Nat) (y : Sys α) (v : Valid cfg rest k y) :
    y.arr.cells.length ≤ capacity cfg y.arr ∧ y.objs = y.arr.cells.length + k ∧
    y.blocks = (if capacity cfg y.arr > cfg.intCap then [y.arr.cap] else []) ++ rest ∧ y.bad = false :=
  ⟨v.wf.count_le, v.objs, v.frame, v.good⟩

/-- **C10, what a failed shifter call leaves** (`ArrayShifter::InsertNogrow` / `Remove` have no `try`): the cells are
exactly those after a proper prefix of the loop statements, and as many objects were constructed as items appended. -/
theorem C10_shifter_stops_after_prefix (cfg : Cfg) (thr : Thr) (ps : List (Prim α)) (x : Sys α) :
    Post (execPrims cfg thr ps) x
      (fun _ y => y.arr = { x.arr with cells := runPrims cfg.keeps x.arr.cells ps } ∧ y.blocks = x.blocks ∧
        y.objs = x.objs + adds ps ∧ y.bad = x.bad)
      (fun y => ∃ n, n < ps.length ∧ y.arr = { x.arr with cells := runPrims cfg.keeps x.arr.cells (ps.take n) } ∧
        y.blocks = x.blocks ∧ y.objs = x.objs + adds (ps.take n) ∧ y.bad = x.bad) :=
  execPrims_spec cfg thr ps x

/-- the programs are the loops of the fault-free model (`Momo.Arr.insertNogrowN / insertNogrowR`) -/
theorem C10_shifter_programs_are_the_loops (keeps mv : Bool) (a : Cells α) (index count : Nat) (item : Ref α) (rs : List (Ref α)) :
    runPrims keeps a (progN a.length index count item) = insertNogrowN keeps a index count item ∧
    runPrims keeps a (progR mv a.length index rs) = insertNogrowR keeps mv a index rs :=
  ⟨runPrims_progN keeps a index count item, runPrims_progR keeps mv a index rs⟩

/-! Non-vacuity: a string-like item type (destructive moves) with throwing assignment; `Insert(1, 2, array[3])` takes the
aliasing path (item handler), room for two more items. -/
def exCfgB : Cfg := {}
def exThrB : Thr := { copy := true, move := false, assign := true }
def exSysB (faults : List Bool) : Sys Nat :=
  { arr := { cells := [.live 10, .live 11, .live 12, .live 13], cap := 8 }, faults := faults, blocks := [8], objs := 4 }
def outcomeB {β : Type} (r : Res β × Sys Nat) : Bool × Cells Nat × List Nat × Nat × Bool :=
  (match r.1 with | .ok _ => true | .threw => false, r.2.arr.cells, r.2.blocks, r.2.objs, r.2.bad)

example : Valid exCfgB [] 0 (exSysB []) := by
  refine ⟨⟨by decide, ?_, ?_, ?_⟩, by unfold Frame; decide, by decide, rfl⟩ <;> simp [exSysB, exCfgB]
/-- the first copy assignment of the filling loop throws (after the handler copy and one move assignment): two items
    appended, two items moved-from, handler destroyed -/
example : outcomeB ((stepF exCfgB exThrB (.insertN 1 2 (.elem 3))).run (exSysB [false, false, true]))
    = (false, [.live 10, .moved, .moved, .live 11, .live 12, .live 13], [8], 6, false) := by decide
/-- no fault: two copies of the old `array[3]` at index 1 -/
example : outcomeB ((stepF exCfgB exThrB (.insertN 1 2 (.elem 3))).run (exSysB []))
    = (true, [.live 10, .live 13, .live 13, .live 11, .live 12, .live 13], [8], 6, false) := by decide
/-- `Remove(0, 2)`: the second assignment throws; count unchanged, one item moved-from -/
example : outcomeB ((stepF exCfgB exThrB (.remove 0 2)).run (exSysB [false, true]))
    = (false, [.live 12, .live 11, .moved, .live 13], [8], 4, false) := by decide

end Momo.ArrF

/-! # B-tree family (`momo::TreeSet` / `momo::TreeMap`): bulk operations and transfers under every fault schedule

Model: `Momo/Model/BTreeFault.lean` (see Props/C04.lean). `Insert(begin, end)`, `Remove(filter)`, `MergeTo` (dispatch, swap into
an empty destination, `pvMergeFast` with its roll-back, `pvMergeTo`, `pvMergeToLinear`), extraction and node re-insertion,
for EVERY fault schedule, configuration, item category (outside the documented exception 5), well-formed sorted containers.
`Frame` / `Frame2`: the ledger moved exactly by the change of what the container(s) own — no leak, no double release.
`SortedBy lt false l` is strict (`lt a b` for every earlier `a` and later `b`): no duplicate keys. -/
namespace Momo.BTreeF
open Momo.BTree Momo.BTree.Node
variable {α : Type}

/-- **Insert(begin, end)** (basic guarantee). Under any fault schedule — a throwing comparison of the "right behind the
previous element" test or of a search, a refused allocation, a throwing element copy — the container is exactly what the
fault-free `Insert` of a prefix of the range produces (all of it when nothing was thrown), node for node. Hence: it is
well-formed and sorted (unique keys stay unique), it kept every element it had, every element is an old one or one of the
range, and the ledger moved exactly with what the container owns. -/
theorem C10_tree_insertRange_basic (S : Sched) (ic : ICfg α) (cfg : Cfg) (hmax : 0 < cfg.maxCap) (lt : α → α → Bool)
    (ho : Order lt) (ft : FTree α) (hw : ft.WF cfg) (hs : SortedBy lt cfg.multi ft.tree.toList) (xs : List α) (w : W)
    {t : Bool} {ft' : FTree α} {w' : W} (h : insertRangeF S ic cfg lt ft xs w = (t, ft', w')) :
    ∃ j, j ≤ xs.length ∧ (t = false → j = xs.length) ∧
      ft'.tree = Tree.insertRange lt cfg ft.tree (xs.take j) ∧
      ft'.tree.toList = (xs.take j).foldl (Spec.insert1 lt cfg.multi) ft.tree.toList ∧
      ft'.WF cfg ∧ SortedBy lt cfg.multi ft'.tree.toList ∧
      ft.tree.toList.Sublist ft'.tree.toList ∧ (∀ z ∈ ft'.tree.toList, z ∈ ft.tree.toList ∨ z ∈ xs) ∧
      Frame w ft w' ft' := by
  obtain ⟨j, j1, j2, j3, j4, j5⟩ := insertRangeF_spec lt S ic cfg hmax ho ft hw hs xs w h
  obtain ⟨a, _, c⟩ := tree_insertRange_spec lt ho cfg hmax ft.tree hw.tree hs (xs.take j)
  obtain ⟨f1, f2⟩ := foldl_insert1_facts lt cfg.multi (xs.take j) ft.tree.toList
  refine ⟨j, j1, j3, j2, by rw [j2]; exact a, j4, by rw [j2]; exact c, by rw [j2, a]; exact f1, fun z hz => ?_, j5⟩
  rw [j2, a] at hz
  rcases f2 z hz with h' | h'
  · exact Or.inl h'
  · exact Or.inr (List.mem_of_mem_take h')

/-- **Remove(filter)** (basic guarantee). Under any fault schedule — a throwing filter, a throwing assignment of `Replace`
when an internal item is removed, element copies refused inside `pvRebalance` (swallowed) — the container is well-formed and
sorted, its elements are a sub-sequence of the old ones, every element that does not satisfy the filter is still there, the
ledger moved exactly with what the container owns; when nothing was thrown exactly the elements satisfying the filter are gone. -/
theorem C10_tree_removeIf_basic (S : Sched) (ic : ICfg α) (hu : ic.unsafeRepl = false) (cfg : Cfg) (lt : α → α → Bool)
    (f : α → Bool) (ft : FTree α) (hw : ft.WF cfg) (hs : SortedBy lt cfg.multi ft.tree.toList) (w : W)
    {t : Bool} {ft' : FTree α} {w' : W} (h : removeIfF S ic cfg f ft w = (t, ft', w')) :
    ft'.WF cfg ∧ SortedBy lt cfg.multi ft'.tree.toList ∧ Frame w ft w' ft' ∧
    ft'.tree.toList.Sublist ft.tree.toList ∧ (ft.tree.toList.filter (fun y => !f y)).Sublist ft'.tree.toList ∧
    (t = false → ft'.tree.toList = ft.tree.toList.filter (fun y => !f y)) := by
  obtain ⟨a, b, c, d, e⟩ := removeIfF_spec S ic hu cfg f ft hw w h
  exact ⟨a, sortedBy_sublist lt cfg.multi c hs, b, c, d, e⟩

/-- **MergeTo(TreeSet&)** by whatever path it takes (generic `pvMergeTo` for a non-empty traits class; nothing for an empty
source; swap into an empty destination; `pvMergeFast` on either side with its wrappers rolled back on failure; `pvMergeTo` /
`pvMergeToLinear` by the size rule). At every stopping point — after success and after a failure at any comparison,
allocation, element copy or assignment —: both containers are well-formed and sorted (no duplicate keys in a unique-key
destination), **source + destination hold exactly the elements they held before** (a permutation: nothing duplicated,
nothing lost; between calls the node handle of the extraction is empty), the source only lost elements, the destination
only gained elements — so an element the destination refused, or whose transfer failed, is still in the source —, and the
ledger moved exactly with what the two containers own. When nothing was thrown the destination is the reference merge
(`Spec.merge`, resp. one stable insertion after the other for a non-empty traits class). -/
theorem C10_tree_merge_conserves (S : Sched) (ic : ICfg α) (hu : ic.unsafeRepl = false) (cfg : Cfg) (hmax : 0 < cfg.maxCap)
    (lt : α → α → Bool) (ho : Order lt) (src dst : FTree α) (hws : src.WF cfg) (hwd : dst.WF cfg)
    (hss : SortedBy lt cfg.multi src.tree.toList) (hsd : SortedBy lt cfg.multi dst.tree.toList) (w : W)
    {t : Bool} {src' dst' : FTree α} {w' : W} (h : mergeToF S ic cfg lt src dst w = (t, src', dst', w')) :
    src'.WF cfg ∧ dst'.WF cfg ∧ SortedBy lt cfg.multi src'.tree.toList ∧ SortedBy lt cfg.multi dst'.tree.toList ∧
    (src'.tree.toList ++ dst'.tree.toList).Perm (src.tree.toList ++ dst.tree.toList) ∧
    src'.tree.toList.Sublist src.tree.toList ∧ dst.tree.toList.Sublist dst'.tree.toList ∧
    Frame2 w src dst w' src' dst' ∧
    (t = false → dst'.tree.toList =
      (if ic.statefulTraits then src.tree.toList.foldl (Spec.insert1 lt cfg.multi) dst.tree.toList
       else Spec.merge lt cfg.multi src.tree.toList dst.tree.toList)) := by
  obtain ⟨a, b⟩ := mergeToF_spec lt S ic hu cfg hmax ho src dst ⟨hws, hwd, hss, hsd⟩ w h
  exact ⟨a.inv.ws, a.inv.wd, a.inv.ss, a.inv.sd, a.perm, a.subS, a.subD, a.frame, b⟩

/-- **Extraction transfers, never copies or loses.** `Extract(iter)` / `Remove(iter, extItem)` that returns: the element the
iterator named together with what remains is what was there, and the ledger's item count is unchanged (the element lives
on in the handle — for items that are not nothrow relocatable it was copied and the source destroyed, one for one). An
extraction that throws leaves container and ledger as they were (and the handle empty). -/
theorem C10_tree_extract_transfers (S : Sched) (ic : ICfg α) (hu : ic.unsafeRepl = false) (cfg : Cfg) (ft : FTree α)
    (hw : ft.WF cfg) (pos : Pos) (hv : ft.tree.ValidElem pos) (x : α) (hx : ft.tree.elemAt? pos = some x) (w : W)
    {t : Bool} {ft' : FTree α} {p : Pos} {w' : W} (h : removeF S ic cfg .extract ft pos w = (t, ft', p, w')) :
    (t = true → ft' = ft ∧ w'.led = w.led) ∧
    (t = false → (x :: ft'.tree.toList).Perm ft.tree.toList ∧ ft'.WF cfg ∧ w'.led = w.led + (ft'.nodeLed - ft.nodeLed)) := by
  obtain ⟨a1, a2, _⟩ := removeF_spec S ic cfg .extract ft hw pos hv w h
  refine ⟨fun ht => ⟨(a1 ht).2 hu, (a1 ht).1⟩, fun ht => ?_⟩
  obtain ⟨b1, b2, _, _, b5⟩ := a2 ht
  obtain ⟨y, hy1, hy2⟩ := tree_elemAt_spec cfg ft.tree hw.tree pos hv
  rw [hx] at hy1; cases hy1
  refine ⟨by rw [b1]; exact perm_cons_eraseIdx _ _ x hy2, b2, ?_⟩
  rw [b5]; apply Ledger.ext' <;> simp [itemsDelta]

/-- **Node re-insertion.** `Insert(ExtractedItem&&)`: when the call throws or the destination refuses the element (its key is
present), the tree is the old tree — the element is still in the handle, which the creator never touched —; when the
element is accepted the tree is that of the fault-free insertion and the ledger's item count is unchanged (the element
moved, it was not copied). -/
theorem C10_tree_reinsert_refused_stays (S : Sched) (ic : ICfg α) (cfg : Cfg) (hmax : 0 < cfg.maxCap) (lt : α → α → Bool)
    (ho : Order lt) (ft : FTree α) (hw : ft.WF cfg) (hs : SortedBy lt cfg.multi ft.tree.toList) (x : α) (w : W)
    {t : Bool} {s : Unit} {ft' : FTree α} {p : Pos} {ins : Bool} {w' : W}
    (h : insertF S ic cfg lt ft x (handleCreator S ic) () w = (t, s, ft', p, ins, w')) :
    ((t = true ∨ ins = false) → ft'.tree = ft.tree) ∧
    (t = false → ins = true → ft'.tree = (Tree.insert lt cfg ft.tree x).1 ∧
        w'.led = w.led + (ft'.nodeLed - ft.nodeLed)) ∧ ft'.WF cfg := by
  obtain ⟨a1, a2, a3⟩ := insertF_spec S ic cfg hmax lt ho ft hw hs x (handleCreator S ic) () _ (handleCreator_spec S ic) w h
  refine ⟨fun hh => ?_, fun ht hi => ?_, a3⟩
  · cases t with
    | true => exact (a1 rfl).1
    | false =>
      rcases hh with hh | hh
      · cases hh
      · obtain ⟨_, _, _, b4, _⟩ := a2 rfl
        rw [(b4 hh).2.1]
  · obtain ⟨b1, _, _, _, b5⟩ := a2 ht
    refine ⟨b1, ?_⟩
    rw [b5 hi]; apply Ledger.ext' <;> simp

/-! Non-vacuity: two sorted capacity-2 trees with interleaved keys and one common key; the merge interrupted at the third
transfer by an allocation failure, by a comparison, and uninterrupted. -/
def x10Lt (a b : Nat × Nat) : Bool := a.1 < b.1
def x10Cfg : Cfg := { maxCap := 2, step := 1, blockGt1 := false, linear := false, multi := false }
def x10Ic : ICfg (Nat × Nat) := { reloc := true, assign := true }
def x10Src : FTree (Nat × Nat) :=
  { tree := { root := some (inner [(5, 1)] [leaf 2 [(1, 1), (3, 1)], leaf 2 [(7, 1), (9, 1)]]), count := 5 }, params := true }
def x10Dst : FTree (Nat × Nat) :=
  { tree := { root := some (inner [(6, 2)] [leaf 2 [(2, 2), (4, 2)], leaf 2 [(7, 2), (8, 2)]]), count := 5 }, params := true }
def x10W : W := { led := { leaves := 4, inners := 2, items := 10, params := 2 } }
def x10Fail (kind : Nat) (k : Nat) : Sched :=
  { cmp := fun i => kind == 0 && i == k, alloc := fun i => kind == 1 && i == k, ctor := fun i => kind == 2 && i == k,
    repl := fun i => kind == 3 && i == k, filt := fun _ => false }
def x10Out (r : Bool × FTree (Nat × Nat) × FTree (Nat × Nat) × W) : Bool × List (Nat × Nat) × List (Nat × Nat) × Ledger :=
  (r.1, r.2.1.tree.toList, r.2.2.1.tree.toList, r.2.2.2.led)

/-- no fault: 7:1 is refused (key present) and stays in the source -/
example : x10Out (mergeToF Sched.clean x10Ic x10Cfg x10Lt x10Src x10Dst x10W) =
    (false, [(7, 1)], [(1, 1), (2, 2), (3, 1), (4, 2), (5, 1), (6, 2), (7, 2), (8, 2), (9, 1)],
     { leaves := 6, inners := 3, items := 10, params := 2 }) := by decide +kernel
/-- the first node allocation of the merge is refused (the transfer of 1:1 needs a leaf split): 1:1 is still in the source -/
example : x10Out (mergeToF (x10Fail 1 0) x10Ic x10Cfg x10Lt x10Src x10Dst x10W) =
    (true, [(1, 1), (3, 1), (5, 1), (7, 1), (9, 1)], [(2, 2), (4, 2), (6, 2), (7, 2), (8, 2)], x10W.led) := by decide +kernel
/-- a comparison throws later: the two elements transferred so far are in the destination, the rest still in the source -/
example : x10Out (mergeToF (x10Fail 0 9) x10Ic x10Cfg x10Lt x10Src x10Dst x10W) =
    (true, [(5, 1), (7, 1), (9, 1)], [(1, 1), (2, 2), (3, 1), (4, 2), (6, 2), (7, 2), (8, 2)],
     { leaves := 5, inners := 2, items := 10, params := 2 }) := by decide +kernel
/-- `Insert(range)` interrupted by the copy of the third element: exactly the first two went in -/
example : (insertRangeF (x10Fail 2 2) x10Ic x10Cfg x10Lt x10Dst [(1, 3), (3, 3), (5, 3), (9, 3)] x10W).1 = true ∧
    (insertRangeF (x10Fail 2 2) x10Ic x10Cfg x10Lt x10Dst [(1, 3), (3, 3), (5, 3), (9, 3)] x10W).2.1.tree.toList =
      [(1, 3), (2, 2), (3, 3), (4, 2), (6, 2), (7, 2), (8, 2)] := by decide +kernel

end Momo.BTreeF

/-!
## `momo::SegmentedArray`: positional insert / remove under every fault schedule (model `Momo/Model/ArrSegFault.lean`)
`InsertCrt / InsertVar / Insert(index, item)`, `Insert(index, count, item)`, `Insert(index, begin, end)`,
`Remove(index, count)`, `Remove(filter)`: `ItemHandler`, `Reserve(mCount + count)`, then the same `ArrayShifter` programs
as for `Array`, run on the item sequence.  `SValid` as in Props/C04.lean.
-/
namespace Momo.ArrF.Seg
open Momo.Arr Momo.Arr.Seg Momo.ArrF
variable {α : Type}

/-- **C10, SegmentedArray.** Under EVERY fault schedule every operation of the model - the basic ones and the strong
ones - leaves a valid array with an exact ledger (`SValid`: count within the capacity of the allocated segments, exactly
`count` item objects, exactly the segments `0 .. segCount)` and the pointer-array block outstanding, no double release);
a completed call yields the state of the fault-free model `Momo.Arr.Seg` (for `Shrink`: a valid state with the same
items - the swallowed failure of `mSegments.Shrink()` leaves the pointer array larger); after an exception the count lies
between the old and the intended new count. -/
theorem C10_segarray_basic_every_fault (cfg : SCfg) (thr : Thr) (k : Nat) (op : SOp α) (x : SSys α)
    (v : SValid cfg k x) (hpre : op.pre x.st) :
    SPost (stepS cfg thr op) x
      (fun _ y => SValid cfg k y ∧ ((∀ n, op ≠ .shrink n) → y.st = (pureStepS cfg x.st op).1))
      (fun y => SValid cfg k y ∧ x.cells.length ≤ y.cells.length ∧ y.cells.length ≤ x.cells.length + op.maxAdd) :=
  basic_stepS cfg thr k op x v hpre

/-! Non-vacuity: constant sizing with segments of 2 items, 3 items in 2 segments, pointer array of capacity 4;
`Insert(0, 2, array[2])` needs one more segment and shifts three items. -/
def exCfgT : SCfg := { lay := { sqrt := false, L := 1 } }
def exSysT (faults : List Bool) : SSys Nat :=
  { cells := [.live 10, .live 11, .live 12], segs := { cells := [.live 0, .live 1], cap := 4 }, faults := faults,
    sblocks := [2, 2], pblocks := [4], objs := 3 }
def outcomeT {β : Type} (r : Res β × SSys Nat) : Bool × Cells Nat × Nat × List Nat × List Nat × Nat × Bool :=
  (match r.1 with | .ok _ => true | .threw => false, r.2.cells, r.2.segs.cells.length, r.2.sblocks, r.2.pblocks, r.2.objs, r.2.bad)

example : SValid exCfgT 0 (exSysT []) := by
  refine ⟨⟨⟨by decide, ?_, ?_, ?_⟩, ?_, by decide, rfl⟩, by decide, by decide⟩
  · intro _ _; decide
  · intro h; simp [exSysT] at h
  · intro _ h; simp [exSysT] at h
  · show List.Perm [2, 2] (segSizes exCfgT 2)
    have : segSizes exCfgT 2 = [2, 2] := by decide
    rw [this]
/-- an item type whose move constructor can throw: the second move construction of the shifting loop throws - one item
    appended (its source is moved-from), handler destroyed, the new segment stays (owned) -/
example : outcomeT ((stepS exCfgT { copy := true, move := true } (.insertN 0 2 (.elem 2))).run (exSysT [false, false, false, true]))
    = (false, [.live 10, .moved, .live 12, .live 11], 3, [2, 2, 2], [4], 4, false) := by decide
example : outcomeT ((stepS exCfgT { copy := true, move := true } (.insertN 0 2 (.elem 2))).run (exSysT []))
    = (true, [.live 12, .live 12, .live 10, .live 11, .live 12], 3, [2, 2, 2], [4], 5, false) := by decide

end Momo.ArrF.Seg
