import Momo.Proof.HashTableMerge
import Momo.Proof.HashTableSummary
import Momo.Proof.ObjMain
/-!
# C10 — Bulk operations stay valid on failure; merge/extract never copy or lose items

Property theorems for the modelled parts:
* hash set / map merge (`pvMergeTo`) — conservation, refused elements stay in the source, no
  duplicate keys, both containers valid (`TableInv`), for every bucket kind, hash function, number
  of coexisting generations in either table;
* `Remove(pred)` and extraction + re-insertion as item transfers;
* the object-level step behind extraction (`ReplaceRelocate`) lives in `Momo.Obj`
  (trace well-formedness: no element is copied for the nothrow categories — see `relocate1_ok`).
B-tree merges (linear, fast, generic) are stated in `Props/C02.lean`.
-/
namespace Momo.HT

/-- **merge conserves elements.** `src.MergeTo(dst)`: afterwards both tables satisfy the invariant
(valid and usable), and the elements of source and destination together are exactly those before —
nothing lost, nothing duplicated. -/
theorem C10_merge_conserves (sp : Spec) (hf : Nat → Nat) (ok : SpecOK sp) (src dst : Table)
    (hS : TableInv sp hf src) (hD : TableInv sp hf dst) :
    TableInv sp hf (mergeTo sp hf src dst).1 ∧ TableInv sp hf (mergeTo sp hf src dst).2 ∧
    (traverse (mergeTo sp hf src dst).1 ++ traverse (mergeTo sp hf src dst).2).Perm
      (traverse src ++ traverse dst) :=
  mergeTo_inv sp hf ok src dst hS hD

/-- **an element refused by the destination stays in the source**, and only those: the source keeps
exactly its elements whose key the destination already had; the destination gains exactly the
others (so it keeps every element it had and, by its invariant, has no duplicate key). -/
theorem C10_merge_refused_stay (sp : Spec) (hf : Nat → Nat) (ok : SpecOK sp) (src dst : Table)
    (hS : TableInv sp hf src) (hD : TableInv sp hf dst) :
    (traverse (mergeTo sp hf src dst).1).Perm
      ((traverse src).filter (fun x => decide (x.key ∈ (traverse dst).map (·.key)))) ∧
    (traverse (mergeTo sp hf src dst).2).Perm
      ((traverse src).filter (fun x => !decide (x.key ∈ (traverse dst).map (·.key))) ++ traverse dst) ∧
    ((traverse (mergeTo sp hf src dst).2).map (·.key)).Nodup :=
  ⟨(mergeTo_spec sp hf ok src dst hS hD).2.2.1, (mergeTo_spec sp hf ok src dst hS hD).2.2.2,
   (mergeTo_spec sp hf ok src dst hS hD).2.1.1.nodup⟩

/-- **removal by predicate** removes exactly the selected elements and reports their number -/
theorem C10_removePred_exact (sp : Spec) (hf : Nat → Nat) (t : Table) (pred : Item → Bool)
    (hI : TableInv sp hf t) :
    TableInv sp hf (removePred t pred).1 ∧
    (traverse (removePred t pred).1).Perm ((traverse t).filter (fun x => !pred x)) ∧
    (removePred t pred).2 = ((traverse t).filter pred).length :=
  removePred_spec sp hf t pred hI

/-- **extraction transfers one element**: the extracted item together with what remains is what was
there; the remaining table is valid. (Re-insertion is `C11_add_every_fault_partial`: on failure the
table is unchanged and the item is still in the handle.) -/
theorem C10_extract_transfers (sp : Spec) (hf : Nat → Nat) (t : Table) (hI : TableInv sp hf t) (gi b j : Nat)
    (g : Gen) (it : Item) (hg : t.gens[gi]? = some g) (hj : (bkt sp g.bs b).items[j]? = some it) :
    TableInv sp hf (removePos sp t gi b j) ∧ (it :: traverse (removePos sp t gi b j)).Perm (traverse t) :=
  removePos_spec sp hf t hI gi b j g it hg hj

end Momo.HT
