import Momo.Proof.BTreeHistory
import Momo.Proof.TrEqMisc
import Momo.Proof.TrEqWave2Tree
/-!
# C02 — B-tree set/map always equals the abstract sorted (multi)sequence

Property theorems only. Model: `Momo/Model/BTree.lean` (mirrors `TreeSet.h`, `details/TreeNode.h`; `TreeMap` forwards to a
`TreeSet` of pairs). Lemmas: `Momo/Proof/BTree*.lean`.

Statement (properties.jsonl): after any sequence of operations on an ordered set/map or multiset/multimap (insert, hinted
add, range insert, remove by key, iterator, iterator range or predicate, extract and re-insert, key reset, clear, copy,
move, swap, merge), forward traversal yields exactly the reference sequence in non-decreasing key order and backward
traversal yields its reverse; equivalent keys keep insertion order. Lower bound, upper bound, find, contains, key count
and every iterator returned by insert/remove denote the same positions as in the reference sequence, for every node
capacity, capacity step, node layout (contiguous or indexed), search strategy (linear or binary) and item relocation
category.

How the quantifier is met: every theorem holds for every `Cfg` (node capacity `maxCap ≥ 1`, capacity step, block-count
rule, linear/binary search, unique/multi), every item type `α`, every comparison `lt` that satisfies `Order`
(asymmetric, "not greater" transitive — what a strict weak order gives), every tree that satisfies the invariant
`Tree.WF` (which allows empty leaves and empty internal nodes), every iterator of it. `C02_history` shows that all
states reachable from the empty container by any finite history of the operations satisfy the hypotheses. The node layout (contiguous / indexed) and the
item relocation category do not occur in the model (items are values); they are covered by the correspondence run.
-/
namespace Momo.BTree
open Node
variable {α : Type}

/-- **Lower bound, upper bound.** On every well-formed tree whose in-order list is sorted, with linear or binary
in-node search (`cfg.linear` arbitrary), `GetLowerBound(k)` / `GetUpperBound(k)` are iterators whose in-order index is
the index `std::lower_bound` / `std::upper_bound` give on the reference sequence. -/
theorem C02_bounds (lt : α → α → Bool) (ho : Order lt) (cfg : Cfg) (t : Tree α) (hw : t.WF cfg)
    (hs : SortedBy lt cfg.multi t.toList) (k : α) :
    t.idxOf (Tree.lowerBound lt cfg t k) = lowerIdx lt t.toList k ∧ t.ValidPos (Tree.lowerBound lt cfg t k) ∧
    t.idxOf (Tree.upperBound lt cfg t k) = upperIdx lt t.toList k ∧ t.ValidPos (Tree.upperBound lt cfg t k) := by
  obtain ⟨a, b⟩ := lowerBound_spec lt ho cfg t hw k (hs.weak ho)
  obtain ⟨c, d⟩ := upperBound_spec lt ho cfg t hw k (hs.weak ho)
  exact ⟨a, b, c, d⟩

/-- **Find, contains.** `ContainsKey(k)` holds exactly when the reference sequence has an element equivalent to `k`;
`Find(k)` is then the lower-bound position, otherwise `GetEnd()` (index = length). -/
theorem C02_find_contains (lt : α → α → Bool) (ho : Order lt) (cfg : Cfg) (t : Tree α) (hw : t.WF cfg)
    (hs : SortedBy lt cfg.multi t.toList) (k : α) :
    (Tree.contains lt cfg t k = true ↔ ∃ y ∈ t.toList, equiv lt y k = true) ∧
    t.idxOf (Tree.find lt cfg t k) = (if Tree.contains lt cfg t k then lowerIdx lt t.toList k else t.toList.length) :=
  tree_find_spec lt ho cfg t hw (hs.weak ho) k

/-- **Forward and backward traversal.** Iterating `operator++` from `GetBegin()` to `GetEnd()` yields exactly the
in-order list; iterating `operator--` from `GetEnd()` to `GetBegin()` yields its reverse — on every well-formed tree,
including trees with empty leaves and empty internal nodes. -/
theorem C02_traversal (cfg : Cfg) (t : Tree α) (hw : t.WF cfg) :
    t.traverse = t.toList ∧ t.traverseBack = t.toList.reverse :=
  ⟨tree_traverse_spec cfg t hw, tree_traverseBack_spec cfg t hw⟩

/-- **Iterator steps.** `++` moves an element iterator to index + 1, `--` moves an iterator with positive index to
index − 1; `GetBegin()` has index 0 and `GetEnd()` index = length. Two iterators with the same index are equal. -/
theorem C02_iterator_steps (cfg : Cfg) (t : Tree α) (hw : t.WF cfg) :
    (∀ pos, t.ValidElem pos → t.idxOf (t.next pos) = t.idxOf pos + 1 ∧ t.ValidPos (t.next pos)) ∧
    (∀ pos, t.ValidPos pos → 0 < t.idxOf pos → t.idxOf (t.prev pos) + 1 = t.idxOf pos ∧ t.ValidElem (t.prev pos)) ∧
    t.idxOf t.beginPos = 0 ∧ t.idxOf t.endPos = t.toList.length ∧
    (∀ pos, t.ValidElem pos → ∃ x, t.elemAt? pos = some x ∧ t.toList[t.idxOf pos]? = some x) := by
  obtain ⟨b1, _, b3, _⟩ := tree_begin_end_spec cfg t hw
  exact ⟨fun pos h => tree_next_spec cfg t hw pos h, fun pos h hp => tree_prev_spec cfg t hw pos h hp, b1, b3,
    fun pos h => tree_elemAt_spec cfg t hw pos h⟩

/-- **Hinted add (`Add(iter, item)`, `pvAdd`).** For every iterator of a well-formed tree — in a leaf, in an internal
node or `GetEnd()` — and every capacity function (in place, `pvAddGrow`, `pvAddSplit` with cascading splits up to a new
root): the in-order list gets the item at the iterator's index, the invariant is kept, and the returned iterator names
the new element at that index. No order assumption is needed. -/
theorem C02_hinted_add (cfg : Cfg) (hmax : 0 < cfg.maxCap) (t : Tree α) (hw : t.WF cfg) (pos : Pos)
    (hv : t.ValidPos pos) (x : α) :
    (t.add cfg pos x).1.toList = t.toList.insertIdx (t.idxOf pos) x ∧ (t.add cfg pos x).1.WF cfg ∧
    (t.add cfg pos x).1.idxOf (t.add cfg pos x).2 = t.idxOf pos ∧ (t.add cfg pos x).1.ValidElem (t.add cfg pos x).2 :=
  tree_add_spec cfg hmax t hw pos hv x

/-- **Insert (`pvInsert`): equivalent keys keep insertion order.** On a sorted well-formed tree the item goes to the
upper-bound index (behind all equivalent keys); with unique keys nothing is inserted when an equivalent key is present
and the returned iterator names that element. Invariant and sortedness are kept; the returned iterator is valid. -/
theorem C02_insert_stable (lt : α → α → Bool) (ho : Order lt) (cfg : Cfg) (hmax : 0 < cfg.maxCap) (t : Tree α)
    (hw : t.WF cfg) (hs : SortedBy lt cfg.multi t.toList) (x : α) :
    (if cfg.multi = false ∧ ∃ y ∈ t.toList, equiv lt y x = true then
        (Tree.insert lt cfg t x).1 = t ∧ (Tree.insert lt cfg t x).2.2 = false ∧
        ∃ z, t.toList[t.idxOf (Tree.insert lt cfg t x).2.1]? = some z ∧ equiv lt z x = true
      else
        (Tree.insert lt cfg t x).1.toList = t.toList.insertIdx (upperIdx lt t.toList x) x ∧
        (Tree.insert lt cfg t x).2.2 = true ∧
        (Tree.insert lt cfg t x).1.idxOf (Tree.insert lt cfg t x).2.1 = upperIdx lt t.toList x) ∧
    (Tree.insert lt cfg t x).1.WF cfg ∧ SortedBy lt cfg.multi (Tree.insert lt cfg t x).1.toList ∧
    (Tree.insert lt cfg t x).1.ValidElem (Tree.insert lt cfg t x).2.1 :=
  tree_insert_spec lt ho cfg hmax t hw hs x

/-- **Remove by iterator / extract (`pvRemove`, `pvRemoveInternal`, `pvRebalance`).** For every element iterator —
a leaf item, or an internal item whose predecessor is pulled up from a leaf or from an internal node of the left
subtree, or whose left subtree is an empty chain that is destroyed — followed by the whole rebalancing loop (sibling
merges, `fast` stop rule, saved node, root collapse): the in-order list loses exactly that element, the invariant is
kept, and the returned iterator denotes the same index (the element that followed, or `GetEnd()`). -/
theorem C02_remove_iterator (cfg : Cfg) (t : Tree α) (hw : t.WF cfg) (pos : Pos) (hv : t.ValidElem pos) :
    (t.remove cfg pos).1.toList = t.toList.eraseIdx (t.idxOf pos) ∧ (t.remove cfg pos).1.WF cfg ∧
    (t.remove cfg pos).1.idxOf (t.remove cfg pos).2 = t.idxOf pos ∧ (t.remove cfg pos).1.ValidPos (t.remove cfg pos).2 :=
  tree_remove_spec cfg t hw pos hv

/-- **Rebalancing alone.** `pvRebalance(node, savedNode, fast)` from any node towards the root, with any saved leaf
and either stop rule, keeps the in-order list, the balance and the capacities; the saved leaf is still a leaf with the
same number of elements before it. -/
theorem C02_rebalance_preserves (cfg : Cfg) (fast : Bool) {d : Nat} {r : Node α} (hb : Bal d r) (path saved : List Nat) :
    toList (rebalance cfg fast r path saved).1 = toList r ∧ (∃ d', Bal d' (rebalance cfg fast r path saved).1) ∧
    (∀ cap its, nodeAt? r saved = some (leaf cap its) →
      ∃ cap' its', nodeAt? (rebalance cfg fast r path saved).1 (rebalance cfg fast r path saved).2 = some (leaf cap' its') ∧
        its.length ≤ its'.length ∧
        offsetOf (rebalance cfg fast r path saved).1 (rebalance cfg fast r path saved).2 = offsetOf r saved) ∧
    (Caps cfg.maxCap r → Caps cfg.maxCap (rebalance cfg fast r path saved).1) :=
  rebalance_spec cfg fast hb path saved

/-- **Key reset.** `ResetKey(iter, key)` replaces the element at the iterator's index and nothing else. -/
theorem C02_reset_key (cfg : Cfg) (t : Tree α) (hw : t.WF cfg) (pos : Pos) (hv : t.ValidElem pos) (x : α) :
    (t.resetKey pos x).toList = t.toList.set (t.idxOf pos) x ∧ (t.resetKey pos x).WF cfg :=
  tree_resetKey_spec cfg t hw pos hv x

/-- **Key count.** `GetKeyCount(k)` is the distance between the bounds, for unique keys (0 or 1) and for multi keys
(the loop of `pvGetKeyCount`). -/
theorem C02_key_count (lt : α → α → Bool) (ho : Order lt) (cfg : Cfg) (t : Tree α) (hw : t.WF cfg)
    (hs : SortedBy lt cfg.multi t.toList) (k : α) :
    Tree.keyCount lt cfg t k = upperIdx lt t.toList k - lowerIdx lt t.toList k :=
  tree_keyCount_spec lt ho cfg t hw hs k

/-- **Remove an iterator range (`Remove(begin, end)`, `pvRemoveRange`).** For any two iterators `b ≤ e` of a
well-formed tree — same leaf, or the general path through the common parent (predecessor moved into the separator,
both boundary subtrees truncated, `pvDestroyInternal` in between, two non-fast rebalancing passes), or everything
(`Clear`) — the in-order list loses exactly the elements `idx b ..< idx e`, the invariant is kept and the returned
iterator has index `idx b`. -/
theorem C02_remove_range (cfg : Cfg) (t : Tree α) (hw : t.WF cfg) (b e : Pos) (hvb : t.ValidPos b)
    (hve : t.ValidPos e) (hle : t.idxOf b ≤ t.idxOf e) :
    (Tree.removeRange cfg t b e (t.idxOf e - t.idxOf b)).1.toList =
        t.toList.take (t.idxOf b) ++ t.toList.drop (t.idxOf e) ∧
    (Tree.removeRange cfg t b e (t.idxOf e - t.idxOf b)).1.WF cfg ∧
    (Tree.removeRange cfg t b e (t.idxOf e - t.idxOf b)).1.idxOf (Tree.removeRange cfg t b e (t.idxOf e - t.idxOf b)).2 =
        t.idxOf b ∧
    (Tree.removeRange cfg t b e (t.idxOf e - t.idxOf b)).1.ValidPos (Tree.removeRange cfg t b e (t.idxOf e - t.idxOf b)).2 :=
  tree_removeRange_spec cfg t hw b e hvb hve hle

/-- **Remove by key.** `Remove(key)` removes exactly the elements equivalent to the key (one iterator removal for
unique keys, the run between the bounds as an iterator range for multi keys) and returns their number. -/
theorem C02_remove_key (lt : α → α → Bool) (ho : Order lt) (cfg : Cfg) (t : Tree α) (hw : t.WF cfg)
    (hs : SortedBy lt cfg.multi t.toList) (k : α) :
    (Tree.removeKey lt cfg t k).1.toList = t.toList.filter (fun y => !equiv lt y k) ∧
    (Tree.removeKey lt cfg t k).1.WF cfg ∧
    (Tree.removeKey lt cfg t k).2 = upperIdx lt t.toList k - lowerIdx lt t.toList k :=
  tree_removeKey_spec lt ho cfg t hw hs k

/-- **Remove by predicate.** `Remove(filter)` removes exactly the elements satisfying the predicate. -/
theorem C02_remove_if (cfg : Cfg) (f : α → Bool) (t : Tree α) (hw : t.WF cfg) :
    (Tree.removeIf cfg f t).toList = t.toList.filter (fun y => !f y) ∧ (Tree.removeIf cfg f t).WF cfg :=
  tree_removeIf_spec cfg f t hw

/-- **Range insert.** `Insert(begin, end)` with its "right after the previous element" shortcut equals inserting
the elements one after the other by stable insertion. -/
theorem C02_insert_range (lt : α → α → Bool) (ho : Order lt) (cfg : Cfg) (hmax : 0 < cfg.maxCap) (t : Tree α)
    (hw : t.WF cfg) (hs : SortedBy lt cfg.multi t.toList) (xs : List α) :
    (Tree.insertRange lt cfg t xs).toList = xs.foldl (Spec.insert1 lt cfg.multi) t.toList ∧
    (Tree.insertRange lt cfg t xs).WF cfg ∧ SortedBy lt cfg.multi (Tree.insertRange lt cfg t xs).toList :=
  tree_insertRange_spec lt ho cfg hmax t hw hs xs

/-- **Fast merge (`pvMergeFast`).** Two non-empty balanced trees of any heights, the keys of the first before the
keys of the second: one balanced tree with the concatenated sequence (separator taken from the shorter tree,
wrapper nodes when the spine of the taller tree is full, new root when it is full up to the top). -/
theorem C02_merge_fast (cfg : Cfg) (hmax : 0 < cfg.maxCap) {d1 d2 : Nat} {r1 r2 : Node α} (hb1 : Bal d1 r1)
    (hb2 : Bal d2 r2) (hne1 : toList r1 ≠ []) (hne2 : toList r2 ≠ []) :
    toList (mergeFast cfg r1 r2) = toList r1 ++ toList r2 ∧ (∃ d, Bal d (mergeFast cfg r1 r2)) ∧
    (Caps cfg.maxCap r1 → Caps cfg.maxCap r2 → Caps cfg.maxCap (mergeFast cfg r1 r2)) :=
  mergeFast_spec cfg hmax hb1 hb2 hne1 hne2

/-- **Merge (`MergeTo(TreeSet&)`), every path.** Source empty, destination empty (swap), whole source before or
behind the destination (`pvMergeFast`), otherwise `pvMergeTo` or `pvMergeToLinear` by the size rule: the destination
ends with the reference merge `Spec.merge` (concatenation when ordered, else stable insertion of the source
elements in order), sorted and well-formed; what stays in the source is well-formed too. -/
theorem C02_merge (lt : α → α → Bool) (ho : Order lt) (cfg : Cfg) (hmax : 0 < cfg.maxCap) (src dst : Tree α)
    (hws : src.WF cfg) (hss : SortedBy lt cfg.multi src.toList) (hwd : dst.WF cfg)
    (hsd : SortedBy lt cfg.multi dst.toList) :
    (Tree.mergeTo lt cfg src dst).2.toList = Spec.merge lt cfg.multi src.toList dst.toList ∧
    (Tree.mergeTo lt cfg src dst).2.WF cfg ∧ SortedBy lt cfg.multi (Tree.mergeTo lt cfg src dst).2.toList ∧
    (Tree.mergeTo lt cfg src dst).1.WF cfg :=
  tree_mergeTo_spec lt ho cfg hmax src dst hws hss hwd hsd

/-- **Copy.** The copy constructor (`pvCopy`, every leaf re-created with the capacity its pool rule gives) yields a
well-formed container with the same sequence. -/
theorem C02_copy (cfg : Cfg) (t : Tree α) (hw : t.WF cfg) :
    (Tree.copy cfg t).toList = t.toList ∧ (Tree.copy cfg t).WF cfg :=
  tree_copy_spec cfg t hw

/-- **The property over histories.** For every finite history of the operations of `OpFull` — insert, hinted add
(every valid hint), remove by iterator / extract (+ re-insert = insert), key reset, clear, remove by key, by
iterator range and by predicate, range insert, merge from another well-formed sorted container by every path of
`MergeTo`, copy — from the empty container, for every configuration and every order: the model's in-order list equals
the reference sequence computed by `Spec`, the invariant holds and the sequence is sorted. Hence every reachable state
satisfies the hypotheses of the theorems above (bounds, find, key count, traversals, returned iterators).
Move and swap only exchange whole containers and are not operations of a single container's history. -/
theorem C02_history (lt : α → α → Bool) (ho : Order lt) (cfg : Cfg) (hmax : 0 < cfg.maxCap)
    (ops : List (OpFull α)) (l' : List α) (h : Spec.runFull lt cfg [] ops = some l') :
    (ops.foldl (Tree.runOpFull lt cfg) {}).toList = l' ∧ (ops.foldl (Tree.runOpFull lt cfg) {}).WF cfg ∧
    SortedBy lt cfg.multi (ops.foldl (Tree.runOpFull lt cfg) {}).toList := by
  have hs0 : SortedBy lt cfg.multi ({} : Tree α).toList := by unfold SortedBy; split <;> simp [Tree.toList]
  exact runFull_spec lt ho cfg hmax ops {} (Tree.wf_empty cfg) hs0 l' (by simpa [Tree.toList] using h)

/-- the same for the positional core (insert, hinted add, remove by iterator, key reset, clear) with a decidable
reference run — used by the examples below -/
theorem C02_history_core (lt : α → α → Bool) (ho : Order lt) (cfg : Cfg) (hmax : 0 < cfg.maxCap)
    (ops : List (Op α)) (l' : List α) (h : Spec.run lt cfg.multi [] ops = some l') :
    (ops.foldl (Tree.runOp lt cfg) {}).toList = l' ∧ (ops.foldl (Tree.runOp lt cfg) {}).WF cfg ∧
    SortedBy lt cfg.multi (ops.foldl (Tree.runOp lt cfg) {}).toList := by
  have hs0 : SortedBy lt cfg.multi ({} : Tree α).toList := by unfold SortedBy; split <;> simp [Tree.toList]
  exact run_spec lt ho cfg hmax ops {} (Tree.wf_empty cfg) hs0 l' (by simpa [Tree.toList] using h)

/-! Non-vacuity: concrete configurations, orders, histories and trees meeting the hypotheses. -/

/-- keys with identities: the order looks at the key only -/
def exLt (a b : Nat × Nat) : Bool := a.1 < b.1

theorem exLt_order : Order exLt :=
  ⟨fun a b h => by simp only [exLt, decide_eq_true_eq, decide_eq_false_iff_not] at h ⊢; omega,
   fun a b c h1 h2 => by simp only [exLt, decide_eq_false_iff_not] at h1 h2 ⊢; omega⟩

def exCfg : Cfg := { maxCap := 2, step := 1, blockGt1 := false, linear := false, multi := true }

/-- a history with duplicates, a hinted add, an internal removal and a key reset: defined in `Spec`, and the model
    (splits, merges and all) ends with the same sequence -/
def exOps : List (Op (Nat × Nat)) :=
  [.insert (5, 1), .insert (3, 2), .insert (5, 3), .insert (7, 4), .insert (1, 5), .insert (5, 6), .addHint 2 (5, 7),
   .insert (9, 8), .removeAt 3, .removeAt 0, .resetKey 0 (4, 2), .insert (2, 9)]

example : Spec.run exLt true [] exOps = some [(2, 9), (4, 2), (5, 7), (5, 3), (5, 6), (7, 4), (9, 8)] := by decide
example : (exOps.foldl (Tree.runOp exLt exCfg) {}).toList = [(2, 9), (4, 2), (5, 7), (5, 3), (5, 6), (7, 4), (9, 8)] := by
  decide
example : ((exOps.foldl (Tree.runOp exLt exCfg) {}).shape exCfg) =
    some [(false, 0, 2), (false, 2, 2), (true, 2, 2), (true, 2, 2), (true, 1, 1)] := by
  decide   -- the root is an empty internal node left behind by lazy rebalancing

/-- the state reached by that history satisfies every hypothesis of the theorems above -/
example : (exOps.foldl (Tree.runOp exLt exCfg) {}).WF exCfg ∧
    SortedBy exLt exCfg.multi (exOps.foldl (Tree.runOp exLt exCfg) {}).toList :=
  ((C02_history_core exLt exLt_order exCfg (by decide) exOps
    [(2, 9), (4, 2), (5, 7), (5, 3), (5, 6), (7, 4), (9, 8)] (by decide)).2)

/-- range removal through the common parent, removal by key of a run of duplicates and a fast merge, on the model -/
example : ((Tree.removeRange exCfg (exOps.foldl (Tree.runOp exLt exCfg) {})
      ((exOps.foldl (Tree.runOp exLt exCfg) {}).posOfIdx 1) ((exOps.foldl (Tree.runOp exLt exCfg) {}).posOfIdx 5) 4).1.toList)
    = [(2, 9), (7, 4), (9, 8)] := by decide +kernel
example : ((Tree.removeKey exLt exCfg (exOps.foldl (Tree.runOp exLt exCfg) {}) (5, 0)).1.toList,
           (Tree.removeKey exLt exCfg (exOps.foldl (Tree.runOp exLt exCfg) {}) (5, 0)).2)
    = ([(2, 9), (4, 2), (7, 4), (9, 8)], 3) := by decide +kernel

/-- a tree of capacity 1 with an empty leaf and an empty internal node satisfies the structure predicate -/
example : Bal 2 (inner [(5, 1)] [inner [] [leaf 1 [(3, 2)]], inner [(7, 3)] [leaf 1 ([] : List (Nat × Nat)), leaf 1 [(9, 4)]]]) := by
  refine Bal.inner 1 _ _ rfl ?_
  intro c hc
  simp only [List.mem_cons, List.not_mem_nil, or_false] at hc
  rcases hc with rfl | rfl
  · exact Bal.inner 0 _ _ rfl (by intro c hc; simp at hc; subst hc; exact Bal.leaf _ _)
  · exact Bal.inner 0 _ _ rfl (by
      intro c hc; simp only [List.mem_cons, List.not_mem_nil, or_false] at hc
      rcases hc with rfl | rfl <;> exact Bal.leaf _ _)

/-! ### The code itself, not only the hand-written model (T1b)

`Momo.Tr.*` are Lean definitions regenerated on every check by tools/translate.py from the *function bodies* in the
current headers (C++ integer semantics explicit: wrap-around of `size_t`, promotion and truncation of the byte fields,
the `while` loop). The theorems below are about those generated definitions. -/
/-- `TreeNode::GetSplitItemIndex` as translated from the current header is the split rule `splitIdx` of the model -/
theorem C02_splitIdx_translated (itemCount newItemIndex : Nat) :
    Tr.tree_GetSplitItemIndex itemCount newItemIndex = splitIdx itemCount newItemIndex :=
  TrEq.tr_splitIdx itemCount newItemIndex

example : Tr.tree_GetSplitItemIndex 8 2 = 3 ∧ Tr.tree_GetSplitItemIndex 8 5 = 4 := by decide

/-! #### second wave (area Wave2, lean/Momo/Translated/Wave2.lean; proofs in Proof/TrEqWave2Tree.lean) -/

/-- **Node capacities come from the header text.** The capacity the real `Node::Create(params, isLeaf, count)` gives a node —
`pvGetLeafMemPoolIndex` (first-pool rule, `(maxCapacity - count) / capacityStep` clamped to `leafMemPoolCount - 1`), the
constructor's `static_cast<uint8_t>`, `IsLeaf()`, `GetCapacity()`, all translated from details/TreeNode.h — is the model's
`leafCap` for a leaf and `maxCapacity` (`capOf` of an internal node) for an internal node, for every legal instantiation
(`maxCapacity < 256` is the static assertion of the class, `count ≤ maxCapacity` the assertion of `Create`). -/
theorem C02_node_capacity_translated (cfg : Cfg) (bc ia count : Nat) (hM : cfg.maxCap < 256) (hs0 : 0 < cfg.step)
    (hs : cfg.step < 2 ^ 63) (hc : count ≤ cfg.maxCap) (hb : cfg.blockGt1 = decide (bc > 1)) :
    Tr.tree_leafMemPoolCount cfg.maxCap cfg.step = lastLeafPool cfg + 1 ∧
    Tr.tree_GetCapacity cfg.maxCap cfg.step
        (Tr.tree_ctorMemPoolIndex (Tr.tree_pvGetLeafMemPoolIndex cfg.maxCap cfg.step bc ia count)) = leafCap cfg ia count ∧
    Tr.tree_IsLeaf cfg.maxCap cfg.step (Tr.tree_ctorMemPoolIndex (Tr.tree_internalMemPoolIndex cfg.maxCap cfg.step)) = false ∧
    Tr.tree_GetCapacity cfg.maxCap cfg.step (Tr.tree_ctorMemPoolIndex (Tr.tree_internalMemPoolIndex cfg.maxCap cfg.step))
      = capOf cfg (Node.inner ([] : List Nat) []) :=
  ⟨TrEq.tr_tree_leafMemPoolCount cfg hs (by omega), TrEq.tr_tree_leafCap cfg bc ia count hM hs hc hb,
   TrEq.tr_tree_innerCap cfg hM hs0 hs⟩

/-- **`pvAdd` at a leaf, written with the code of the headers.** The model's `addLeaf` (about which `C02_hinted_add` and the
history theorem speak) is the case analysis of the real `pvAdd` with every test (`itemCount < GetCapacity()`,
`itemCount < nodeMaxCapacity`, `newItemIndex <= splitItemIndex`), the split point (`GetSplitItemIndex`), every node size
handed to `CreateNode` by `GrowLeafNode` / `pvSplitNode` and the new item's index in the right half taken from the
translated TreeSet.h / TreeNode.h. -/
theorem C02_add_leaf_translated {α : Type} (cfg : Cfg) (ia cap : Nat) (items : List α) (i : Nat) (x : α)
    (hn : items.length < 2 ^ 64 - 1) :
    addLeaf cfg ia cap items i x =
      if Tr.tree_add_fits items.length cap = true then .ok (.leaf cap (items.insertIdx i x)) ⟨[], i⟩
      else if Tr.tree_add_grows items.length cfg.maxCap = true then
        .ok (.leaf (leafCap cfg ia (Tr.tree_grow_count items.length)) (items.insertIdx i x)) ⟨[], i⟩
      else if Tr.tree_split_left i (Tr.tree_GetSplitItemIndex items.length i) = true then
        match (items.insertIdx i x)[Tr.tree_GetSplitItemIndex items.length i + 1]? with
        | some sep => .split
            (.leaf (leafCap cfg ia (Tr.tree_split_count1L (Tr.tree_GetSplitItemIndex items.length i)))
              ((items.insertIdx i x).take (Tr.tree_GetSplitItemIndex items.length i + 1)))
            sep
            (.leaf (leafCap cfg ia (Tr.tree_split_count2L items.length (Tr.tree_GetSplitItemIndex items.length i)))
              ((items.insertIdx i x).drop (Tr.tree_GetSplitItemIndex items.length i + 2)))
            false ⟨[], i⟩
        | none => .ok (.leaf cap items) ⟨[], i⟩
      else
        match (items.insertIdx i x)[Tr.tree_GetSplitItemIndex items.length i]? with
        | some sep => .split
            (.leaf (leafCap cfg ia (Tr.tree_split_count1R (Tr.tree_GetSplitItemIndex items.length i)))
              ((items.insertIdx i x).take (Tr.tree_GetSplitItemIndex items.length i)))
            sep
            (.leaf (leafCap cfg ia (Tr.tree_split_count2R items.length (Tr.tree_GetSplitItemIndex items.length i)))
              ((items.insertIdx i x).drop (Tr.tree_GetSplitItemIndex items.length i + 1)))
            true ⟨[], Tr.tree_split_newIndexR i (Tr.tree_GetSplitItemIndex items.length i)⟩
        | none => .ok (.leaf cap items) ⟨[], i⟩ :=
  TrEq.addLeaf_translated cfg ia cap items i x hn

/-- **The merge test of `pvRebalance`, from the header text.** The model's `tryMerge … i` (the step `C02_rebalance_preserves`
and the removal theorems are about) is the real `pvRebalance(parentNode, i + 1, savedNode)`: it gives up on the translated
`index == 0 || index > GetCount()`, works on the pair at the translated `--index`, and merges exactly when the translated
`itemCount1 + itemCount2 + 1 > node1->GetCapacity()` is false (and the right node is not the saved one). -/
theorem C02_merge_test_translated {α : Type} (cfg : Cfg) (items : List α) (cs : List (Node α)) (i : Nat) (saved : Option (List Nat))
    (hi : i < items.length) (hcs : cs.length = items.length + 1) (hcnt : ∀ n ∈ cs, n.count < 2 ^ 63) :
    tryMerge cfg items cs i saved =
      if Tr.tree_reb_noPair (i + 1) items.length = true then none
      else
        match items[Tr.tree_reb_leftIndex (i + 1)]?, cs[Tr.tree_reb_leftIndex (i + 1)]?, cs[Tr.tree_reb_leftIndex (i + 1) + 1]? with
        | some sep, some n1, some n2 =>
          if saved = some [Tr.tree_reb_leftIndex (i + 1) + 1] then none
          else if Tr.tree_reb_tooBig n1.count n2.count (capOf cfg n1) = true then none
          else some (.inner (items.eraseIdx (Tr.tree_reb_leftIndex (i + 1)))
                      (cs.take (Tr.tree_reb_leftIndex (i + 1)) ++ mergeNodes n1 sep n2 :: cs.drop (Tr.tree_reb_leftIndex (i + 1) + 2)),
                     saved.map (mergeSaved (Tr.tree_reb_leftIndex (i + 1)) n1.count))
        | _, _, _ => none :=
  TrEq.tryMerge_translated cfg items cs i saved hi hcs hcnt

/-- **The in-node binary search, from the header text (the whole loop).** The binary-search branch of the real
`pvFindFirst(node, pred)` — `leftIndex`, `rightIndex`, `middleIndex = (leftIndex + rightIndex) / 2`, the `while` loop — run on the
answers of the predicate is the model's `findIn false` (= `findBin`), the function `C02_bounds` / `C02_find_contains` are about. -/
theorem C02_find_bin_translated {α : Type} (p : α → Bool) (items : List α) (pred : Nat → Nat)
    (hpred : ∀ i (h : i < items.length), pred i ≠ 0 ↔ p items[i] = true) (hlen : items.length < 2 ^ 63) :
    Tr.tree_findFirst_bin pred items.length = Node.findIn false p items :=
  TrEq.tr_tree_findFirst_bin p items pred hpred hlen

example : Tr.tree_GetCapacity 32 4 (Tr.tree_ctorMemPoolIndex (Tr.tree_pvGetLeafMemPoolIndex 32 4 8 2 5)) = 16
    ∧ Tr.tree_leafMemPoolCount 32 4 = 5 ∧ Tr.tree_findFirst_bin (fun i => if i ≥ 3 then 1 else 0) 7 = 3 := by decide

end Momo.BTree
