import Momo.Proof.SegMachine
import Momo.Proof.SegArr
import Momo.Proof.TrEqSeg
import Momo.Proof.TrEqWave2Seg
import Momo.Proof.TrEqMisc2Math
/-!
# C16 — SegmentedArray never moves elements and indexes them consistently

Property theorems only. Models: `Momo/Model/Seg.lean`; lemmas: `Momo/Proof/Seg*.lean`.

Statement (properties.jsonl): Growing a SegmentedArray (append, reserve, resize upward) never changes the
address of an existing element, for both constant and square-root segment sizing. The mapping between an
element index and its (segment, offset) is a bijection that enumerates segments in order and fills each
segment completely before the next, for every index representable in size_t, so capacity, element access
and shrinking always refer to the same elements.

Layers (see the model file): `segItem64 / getIndex64 / itemCount64` are the C++ functions as written
(64-bit wrap-around, de Bruijn `Log2`); `getSeg / getIndex / itemCount` are the same formulas over unbounded
naturals; `Arr` is the container's segment list. `f : Func` ranges over both sizings, `L0` is
`logInitialItemCount` (every value, not only 0..16, unless a hypothesis bounds it).
-/
namespace Momo.Seg

/-! ## A. `UIntMath::Log2` -/

/-- **C16 (log2, 8-byte `size_t`).** The de Bruijn code of `UIntMath<size_t>::Log2` (smear, isolate top bit,
multiply, table) returns `⌊log2 v⌋` for every `0 < v < 2^64`; tables and multiplier are the extracted ones. -/
theorem C16_log2_debruijn64 (v : Nat) (h0 : 0 < v) (h : v < 2 ^ 64) : log2db64 v = Nat.log2 v :=
  log2db64_eq v (by omega) h

/-- **C16 (log2, 4-byte variant).** Same for `UIntMath<uint32_t>::Log2` and every `0 < v < 2^32`. -/
theorem C16_log2_debruijn32 (v : Nat) (h0 : 0 < v) (h : v < 2 ^ 32) : log2db32 v = Nat.log2 v :=
  log2db32_eq v (by omega) h

/-! ## B. index ↔ (segment, offset): every natural index, both sizings, every `logInitialItemCount` -/

/-- **C16 (bijection, injective half).** `GetIndex(GetSegItemIndexes(i)) = i` for every natural `i`. -/
theorem C16_roundtrip (f : Func) (L0 i : Nat) :
    getIndex f L0 (getSeg f L0 i).1 (getSeg f L0 i).2 = i :=
  (sizing_lawful f L0).roundtrip i

/-- **C16 (offsets stay inside the segment).** The offset of every index is smaller than
`GetItemCount(segment)`. -/
theorem C16_offset_in_segment (f : Func) (L0 i : Nat) :
    (getSeg f L0 i).2 < itemCount f L0 (getSeg f L0 i).1 :=
  (sizing_lawful f L0).item_lt i

/-- **C16 (bijection, surjective half).** Every slot `(s, o)` with `o < GetItemCount(s)` of every segment
is the image of exactly the index `GetIndex(s, o)`. -/
theorem C16_inverse (f : Func) (L0 s o : Nat) (ho : o < itemCount f L0 s) :
    getSeg f L0 (getIndex f L0 s o) = (s, o) :=
  (sizing_lawful f L0).inverse s o ho

/-- **C16 (segments in order, each filled completely before the next).** Index 0 is slot 0 of segment 0, and
the index after `i` is the next offset of the same segment — or offset 0 of the next segment exactly when
`i` was the last slot of its segment. Together with (bijection) this pins the mapping down completely. -/
theorem C16_in_order_fill (f : Func) (L0 : Nat) :
    getSeg f L0 0 = (0, 0) ∧
    ∀ i, getSeg f L0 (i + 1) =
      if (getSeg f L0 i).2 + 1 < itemCount f L0 (getSeg f L0 i).1
      then ((getSeg f L0 i).1, (getSeg f L0 i).2 + 1) else ((getSeg f L0 i).1 + 1, 0) := by
  have h := sizing_lawful f L0
  refine ⟨?_, fun i => h.succ_contiguous i⟩
  have := h.getSeg_cap 0
  rw [h.base_zero] at this
  exact this

/-- **C16 (order).** Larger indexes are lexicographically later: a later segment, or the same segment and a
larger offset. -/
theorem C16_monotone (f : Func) (L0 i j : Nat) (hij : i < j) :
    (getSeg f L0 i).1 < (getSeg f L0 j).1 ∨
    ((getSeg f L0 i).1 = (getSeg f L0 j).1 ∧ (getSeg f L0 i).2 < (getSeg f L0 j).2) :=
  (sizing_lawful f L0).lex_mono hij

/-- **C16 (capacity).** `GetCapacity() = GetIndex(segCount, 0)` is the number of slots of the first
`segCount` segments, and an index is below it iff its segment is one of them — so capacity, element access
(`pvGetItem`) and shrinking (`pvDecCapacity`) agree about which elements the allocated segments hold. -/
theorem C16_capacity_counts_slots (f : Func) (L0 n : Nat) :
    getIndex f L0 n 0 = ((List.range n).map (itemCount f L0)).sum ∧
    ∀ i, (getSeg f L0 i).1 < n ↔ i < getIndex f L0 n 0 := by
  have h := sizing_lawful f L0
  refine ⟨?_, fun i => h.seg_lt_iff i n⟩
  induction n with
  | zero => exact h.base_zero
  | succ n ih =>
    have e : getIndex f L0 (n + 1) 0 = getIndex f L0 n 0 + itemCount f L0 n := h.base_succ n
    rw [e, ih, List.range_succ]
    simp

/-! ## C. the same for the functions as written (64-bit), every index representable in `size_t` -/

/-- **C16 (the 64-bit hypothesis excludes exactly one point).** `Fits L0 i` — `i` is a `size_t` and
`(i >> L0) + 1` does not wrap — holds for every `size_t` index except `L0 = 0, i = 2^64 - 1` (finding F14). -/
theorem C16_w64_excludes_one_point (L0 i : Nat) :
    Fits L0 i ↔ i < 2 ^ 64 ∧ ¬ (L0 = 0 ∧ i = 2 ^ 64 - 1) :=
  fits_iff L0 i

/-- **C16 (machine = ideal).** With 64-bit wrap-around, shifts, masks and the de Bruijn `Log2`,
`GetSegItemIndexes` computes the ideal mapping for every fitting index (`L0 < 64`; a larger shift is
undefined behaviour). -/
theorem C16_machine_segItem (f : Func) (L0 i : Nat) (hL : L0 < 64) (hf : Fits L0 i) :
    segItem64 f L0 i = getSeg f L0 i :=
  segItem64_eq f L0 i hL hf

/-- **C16 (machine = ideal, `GetIndex` and `GetItemCount`).** For every slot `(s, o)` whose ideal index fits,
`GetIndex` as written computes it; `GetItemCount` as written is the ideal segment size whenever the shift
`1 << (logItemCount + L0)` is defined (`s * 2 + 4 < 2^64`: the sqrt sizing evaluates that expression). -/
theorem C16_machine_getIndex_itemCount (f : Func) (L0 s o : Nat) (hL : L0 < 64) (hs : s * 2 + 4 < 2 ^ 64) :
    (Fits L0 (getIndex f L0 s o) → getIndex64 f L0 s o = getIndex f L0 s o) ∧
    (segLog s + L0 < 64 → itemCount64 f L0 s = itemCount f L0 s) := by
  cases f
  · exact ⟨fun hf => getIndex64_sqrt_eq L0 s o hL hs hf, fun hk => itemCount64_sqrt_eq L0 s hs hk⟩
  · exact ⟨fun hf => getIndex64_cnst_eq L0 s o hf.1, fun _ => itemCount64_cnst_eq L0 s hL⟩

/-- **C16 (round trip, as written).** `GetIndex(GetSegItemIndexes(i)) = i` for the 64-bit functions, for
every index representable in `size_t` except the F14 point. -/
theorem C16_roundtrip64 (f : Func) (L0 i : Nat) (hL : L0 < 64) (hf : Fits L0 i) :
    getIndex64 f L0 (segItem64 f L0 i).1 (segItem64 f L0 i).2 = i :=
  roundtrip64 f L0 i hL hf

/-- **C16 (the constant sizing has no excluded point).** For `SegmentedArraySettings<cnst, L0>` the round trip
holds for every `size_t` index, `2^64 - 1` included. -/
theorem C16_roundtrip64_cnst (L0 i : Nat) (hL : L0 < 64) (hi : i < 2 ^ 64) :
    getIndex64 .cnst L0 (segItem64 .cnst L0 i).1 (segItem64 .cnst L0 i).2 = i := by
  rw [segItem64_cnst_eq L0 i hL]
  have hr : getIndex .cnst L0 (getSeg .cnst L0 i).1 (getSeg .cnst L0 i).2 = i := C16_roundtrip .cnst L0 i
  rw [getIndex64_cnst_eq L0 _ _ (by rw [hr]; exact hi)]
  exact hr

/-- **C16 (offset inside segment, as written)**, for `logInitialItemCount ≤ 31` (so that
`1 << (logItemCount + L0)` is a defined shift). -/
theorem C16_offset_in_segment64 (f : Func) (L0 i : Nat) (hL : L0 ≤ 31) (hf : Fits L0 i) :
    (segItem64 f L0 i).2 < itemCount64 f L0 (segItem64 f L0 i).1 := by
  rw [segItem64_eq f L0 i (by omega) hf, itemCount64_getSeg f L0 i hL hf]
  exact C16_offset_in_segment f L0 i

/-- **C16 (inverse, as written).** For every slot whose index fits: `GetSegItemIndexes(GetIndex(s, o)) = (s, o)`
(`s * 2 + 4 < 2^64`: the sqrt sizing evaluates that expression). -/
theorem C16_inverse64 (f : Func) (L0 s o : Nat) (hL : L0 < 64) (ho : o < itemCount f L0 s)
    (hs : s * 2 + 4 < 2 ^ 64) (hf : Fits L0 (getIndex f L0 s o)) :
    segItem64 f L0 (getIndex64 f L0 s o) = (s, o) :=
  inverse64 f L0 s o hL ho hs hf

/-- **C16 (in-order fill, as written).** For consecutive fitting indexes the 64-bit functions step to the
next offset, or to offset 0 of the next segment exactly when the segment is full. -/
theorem C16_in_order_fill64 (f : Func) (L0 i : Nat) (hL : L0 ≤ 31) (hf : Fits L0 i) (hf1 : Fits L0 (i + 1)) :
    segItem64 f L0 (i + 1) =
      if (segItem64 f L0 i).2 + 1 < itemCount64 f L0 (segItem64 f L0 i).1
      then ((segItem64 f L0 i).1, (segItem64 f L0 i).2 + 1) else ((segItem64 f L0 i).1 + 1, 0) := by
  rw [segItem64_eq f L0 i (by omega) hf, segItem64_eq f L0 (i + 1) (by omega) hf1,
    itemCount64_getSeg f L0 i hL hf]
  exact (C16_in_order_fill f L0).2 i

/-- **F14 (known finding, the excluded point is a real failure).** `SegmentedArraySettings<sqrt, 0>`:
`GetSegItemIndexes(2^64 - 1)` answers segment `2^32 - 2`, offset 0, whose `GetIndex` is `2^62 - 1`. -/
theorem C16_f14_point :
    segItem64 .sqrt 0 (2 ^ 64 - 1) = (2 ^ 32 - 2, 0) ∧ getIndex64 .sqrt 0 (2 ^ 32 - 2) 0 = 2 ^ 62 - 1 :=
  f14_point

/-! ## D. the container: all grow / shrink histories -/

/-- **C16 (reachable states).** Every state reached from the empty array by any history of `AddBack`,
`Reserve`, `SetCount` (up or down), `Shrink`, `Clear`, `RemoveBack`, `Insert` satisfies the invariant `WF`:
`mCount ≤ GetCapacity()`, segment `s` was requested with `GetItemCount(s)` slots, allocation ids distinct. -/
theorem C16_reachable_wf (f : Func) (L0 : Nat) (ops : List Op) :
    WF (sizing f L0) (run (sizing f L0) {} ops) :=
  run_wf (sizing_lawful f L0) {} ops (wf_init _)

/-- **C16 (growth appends only).** `AddBack`, `Reserve`, `SetCount` upward and `Insert` leave every existing
entry of the segment list in place (same allocation, same position) and only append new segments. -/
theorem C16_growth_appends_only (f : Func) (L0 : Nat) (a : Arr) (op : Op) (w : WF (sizing f L0) a)
    (hg : op.isGrow a = true) :
    ∃ extra, (step (sizing f L0) a op).segs = a.segs ++ extra :=
  (grow_spec (sizing_lawful f L0) a op w hg).1

/-- **C16 (growing never changes the address of an existing element).** For every reachable state, every
growth operation and every existing element `i`, the place (allocation id of the segment, offset) of `i` is
the same before and after. -/
theorem C16_growth_keeps_addresses (f : Func) (L0 : Nat) (a : Arr) (op : Op) (w : WF (sizing f L0) a)
    (hg : op.isGrow a = true) (i : Nat) (hi : i < a.count) :
    (step (sizing f L0) a op).addr (sizing f L0) i = a.addr (sizing f L0) i := by
  have h := sizing_lawful f L0
  exact addr_stable_step h a op w i hi (by have := (grow_spec h a op w hg).2; omega)

/-- **C16 (shrinking too).** Any single operation — growing or shrinking — keeps every element that is live
before and after where it is (shrinking only frees segments beyond the live items). -/
theorem C16_any_op_keeps_addresses (f : Func) (L0 : Nat) (a : Arr) (op : Op) (w : WF (sizing f L0) a)
    (i : Nat) (h1 : i < a.count) (h2 : i < (step (sizing f L0) a op).count) :
    (step (sizing f L0) a op).addr (sizing f L0) i = a.addr (sizing f L0) i :=
  addr_stable_step (sizing_lawful f L0) a op w i h1 h2

/-- **C16 (all grow / shrink histories).** Through any history, an element that stays live at every step
is at the end where it was at the start. -/
theorem C16_history_keeps_addresses (f : Func) (L0 : Nat) (a : Arr) (ops : List Op) (w : WF (sizing f L0) a)
    (i : Nat) (live : ∀ n, n ≤ ops.length → i < (run (sizing f L0) a (ops.take n)).count) :
    (run (sizing f L0) a ops).addr (sizing f L0) i = a.addr (sizing f L0) i :=
  addr_stable_run (sizing_lawful f L0) a ops w i live

/-- **C16 (element access hits allocated memory).** A live element's segment exists and its offset is inside
the block requested for that segment. -/
theorem C16_element_inside_its_segment (f : Func) (L0 : Nat) (a : Arr) (w : WF (sizing f L0) a) (i : Nat)
    (hi : i < a.count) :
    ∃ seg, a.segs[(getSeg f L0 i).1]? = some seg ∧ (getSeg f L0 i).2 < seg.size :=
  addr_in_segment (sizing_lawful f L0) a w i hi

/-- **C16 (no two elements share a place).** -/
theorem C16_distinct_elements_distinct_places (f : Func) (L0 : Nat) (a : Arr) (w : WF (sizing f L0) a)
    (i j : Nat) (hi : i < a.count) (hj : j < a.count)
    (he : a.addr (sizing f L0) i = a.addr (sizing f L0) j) : i = j :=
  addr_injective (sizing_lawful f L0) a w i j hi hj he

/-- **C16 (the assertion in `AddBackCrt`).** When the slot for the next item is not in an allocated segment,
it is slot 0 of the very next segment (`MOMO_ASSERT(itemIndex == 0)`; the new segment is appended). -/
theorem C16_addBack_new_segment_is_next (f : Func) (L0 : Nat) (a : Arr) (w : WF (sizing f L0) a)
    (hn : ¬ (getSeg f L0 a.count).1 < a.segs.length) :
    getSeg f L0 a.count = (a.segs.length, 0) :=
  addBack_new_segment (sizing_lawful f L0) a w hn

/-- **C16 (capacity = allocated slots; Reserve suffices).** `GetCapacity()` equals the total number of slots
of the allocated segments, and after `Reserve(c)` it is at least `c`. -/
theorem C16_capacity_is_total_slots (f : Func) (L0 : Nat) (a : Arr) (w : WF (sizing f L0) a) (c : Nat) :
    a.capacity (sizing f L0) = (a.segs.map Segment.size).sum ∧
    c ≤ (a.reserve (sizing f L0) c).capacity (sizing f L0) :=
  ⟨capacity_eq_slots (sizing_lawful f L0) a w.toSegsOK, (reserve_spec (sizing_lawful f L0) a c w).2.2.2⟩

/-- **C16 (Reserve / Shrink keep exactly the segments that are needed).** `segsFor c` — the segment count
computed at the head of `pvIncCapacity` / `pvDecCapacity` (`GetSegItemIndexes(c)`, plus one when the offset is
not 0) — is the least number of segments whose slots hold `c` items. -/
theorem C16_segment_count_for_capacity_is_least (f : Func) (L0 c n : Nat) :
    Arr.segsFor (sizing f L0) c ≤ n ↔ c ≤ getIndex f L0 n 0 :=
  (sizing_lawful f L0).segsFor_le_iff c n

/-! ## Non-vacuity: concrete states meeting the hypotheses -/

example : Fits 0 (2 ^ 64 - 2) := by unfold Fits; decide
example : Fits 3 (2 ^ 64 - 1) := by unfold Fits; decide
example : ¬ Fits 0 (2 ^ 64 - 1) := by unfold Fits; decide
example : segItem64 .sqrt 3 1000 = (21, 48) ∧ getIndex64 .sqrt 3 21 48 = 1000 ∧ itemCount64 .sqrt 3 21 = 64 := by
  decide +kernel
example : segItem64 .sqrt 0 (2 ^ 64 - 2) = (8589934589, 4294967295) := by decide +kernel
example : segItem64 .cnst 5 1000 = (31, 8) := by decide +kernel
example : getSeg .sqrt 0 6 = (3, 1) ∧ itemCount .sqrt 0 3 = 2 ∧ getSeg .sqrt 0 7 = (4, 0) := by decide +kernel
/-- a history with growth, resize and shrink; element 2 stays in segment id 1 at offset 1 -/
example :
    let S := sizing .sqrt 0
    let a := run S {} [.addBack, .addBack, .addBack]
    let b := run S a [.reserve 20, .setCount 30, .shrinkFit, .removeBack 5, .shrink 0]
    a.addr S 2 = (some 1, 1) ∧ b.addr S 2 = (some 1, 1) ∧ b.count = 25 ∧ b.segs.length = 9 ∧
    (Op.reserve 20).isGrow a = true := by
  decide +kernel

/-- the `live` hypothesis of the history theorem is met by a concrete mixed history: element 2 stays live
    while the array grows to 30, shrinks its capacity, loses 5 elements and is resized to 3 -/
example :
    let S := sizing .cnst 2
    let a := run S {} [.addBack, .addBack, .addBack, .addBack]
    let ops := [Op.reserve 20, .setCount 30, .shrinkFit, .removeBack 5, .setCount 3, .insert]
    (∀ n, n ≤ ops.length → 2 < (run S a (ops.take n)).count) ∧ (run S a ops).addr S 2 = (some 0, 2) := by
  decide +kernel
/-- the branch of `AddBackCrt` that allocates: 3 items fill segments 0 and 1 of the sqrt sizing with `L0 = 0` -/
example :
    let S := sizing .sqrt 0
    let a := run S {} [.addBack, .addBack, .addBack]
    ¬ (getSeg .sqrt 0 a.count).1 < a.segs.length ∧ getSeg .sqrt 0 a.count = (2, 0) := by
  decide +kernel

/-! ### The code itself, not only the hand-written model (T1b)

`Momo.Tr.*` are Lean definitions regenerated on every check by tools/translate.py from the *function bodies* in the
current headers (C++ integer semantics explicit: wrap-around of `size_t`, promotion and truncation of the byte fields,
the `while` loop). The theorems below are about those generated definitions. -/
/-- **C16 round trip for the code as translated from the header** (both sizings): `GetIndex(GetSegItemIndexes(i)) = i`
for every `size_t` index except the single point excluded by `Fits` (finding F14). -/
theorem C16_roundtrip_translated_sqrt (L0 index : Nat) (hL : L0 < 64) (hf : Fits L0 index) :
    Tr.segSqrt_GetIndex L0 (Tr.segSqrt_GetSegItemIndexes L0 index).1 (Tr.segSqrt_GetSegItemIndexes L0 index).2 = index := by
  rw [TrEq.tr_sqrt_getSegItemIndexes, TrEq.tr_sqrt_getIndex]
  exact roundtrip64 .sqrt L0 index hL hf

theorem C16_roundtrip_translated_cnst (L0 index : Nat) (hL : L0 < 64) (hf : Fits L0 index) :
    Tr.segCnst_GetIndex L0 (Tr.segCnst_GetSegItemIndexes L0 index).1 (Tr.segCnst_GetSegItemIndexes L0 index).2 = index := by
  rw [TrEq.tr_cnst_getSegItemIndexes, TrEq.tr_cnst_getIndex]
  exact roundtrip64 .cnst L0 index hL hf


example : Tr.segSqrt_GetSegItemIndexes 3 1000 = (21, 48) := by decide
example : Tr.segSqrt_GetIndex 3 21 48 = 1000 := by decide

/-! #### area Misc (tools/trspecs/Misc.py → `Momo/Translated/Misc.lean`; equivalences: `Proof/TrEqMisc2Math.lean`) -/

/-- **C16 (log2) for the code as translated from Utility.h**, 8-byte `size_t`: `UIntMath<>::Log2` and the de Bruijn
`pvLog2` it calls — table, the six `value |= value >> s` lines, `value -= value >> 1`, multiplier and final shift all read
from the current header text — return `⌊log2 v⌋` for every `0 < v < 2^64`. -/
theorem C16_log2_translated (v : Nat) (h0 : 0 < v) (h : v < 2 ^ 64) :
    Tr.um_Log2 v = Nat.log2 v ∧ Tr.um_pvLog2_64 v = Nat.log2 v := by
  rw [TrEq.tr_Log2 v h, TrEq.tr_pvLog2_64 v h]
  exact ⟨C16_log2_debruijn64 v h0 h, C16_log2_debruijn64 v h0 h⟩

/-- **C16 (log2, 4-byte variant) for the code as translated** (`uint32_t` arithmetic: the product wraps mod 2^32). -/
theorem C16_log2_32_translated (v : Nat) (h0 : 0 < v) (h : v < 2 ^ 32) : Tr.um_pvLog2_32 v = Nat.log2 v := by
  rw [TrEq.tr_pvLog2_32 v h]
  exact C16_log2_debruijn32 v h0 h

/-- **No hand-written `Log2` is left under the translated index functions**: the two log helpers of the sqrt sizing
(translated by the base table with their call of `UIntMath<>::Log2` bound to the model `log2db64`) are their own text with that
call bound to the *translated* `Log2` — so `C16_roundtrip_translated_sqrt` is about header text only. -/
theorem C16_log_helpers_use_translated_log2 (i1 s : Nat) (h : i1 < 2 ^ 64) :
    Tr.segSqrt_pvIndexToLogItemCount i1 = (add64 (Tr.um_Log2 i1) 1) / 2 ∧
    Tr.segSqrt_pvSegIndexToLogItemCount s = Tr.um_Log2 ((add64 (mul64 s 2) 4) / 3) :=
  ⟨TrEq.tr_sqrt_indexToLog_um i1 h, TrEq.tr_sqrt_segToLog_um s⟩

/-- `SegmentedArraySettings<cnst>::GetItemCount` as translated is the machine-level model, hence the ideal segment size. -/
theorem C16_itemCount_translated_cnst (L0 s : Nat) (hL : L0 < 64) : Tr.segCnst_GetItemCount L0 = itemCount .cnst L0 s := by
  rw [TrEq.tr_cnst_getItemCount L0 s]
  exact itemCount64_cnst_eq L0 s hL

example : Tr.um_Log2 1000 = 9 ∧ Tr.um_pvLog2_32 (2 ^ 31) = 31 ∧ Tr.um_Log2 (2 ^ 64 - 1) = 63 := by decide +kernel

/-! #### second wave (tools/trspecs/Wave2.py → `Momo/Translated/Wave2.lean`; equivalences: `Proof/TrEqWave2Seg.lean`) -/

/-- **C16 (capacity arithmetic of the container, from the header text).** For every sizing, the container model's
`pvIncCapacity` / `pvDecCapacity` (number of segments a capacity needs: `if (itemIndex > 0) ++segIndex`; segments removed:
`segCount - segIndex`), `Reserve`, `Shrink(capacity)` (keep test and target `max(capacity, mCount)`), `AddBackCrt` (room test) and
`SetCountCrt` / `pvIncCount` (growth test) are their C++ text: every test and every segment count is the definition translated
from SegmentedArray.h. -/
theorem C16_capacity_ops_translated (S : Sizing) (a : Arr) (cap : Nat) (hseg : (S.getSeg cap).1 < 2 ^ 64 - 1) :
    a.incCapacity S cap = Arr.allocSegs S (Tr.seg_incCap_segCount (S.getSeg cap).1 (S.getSeg cap).2 - a.segs.length) a ∧
    a.decCapacity S cap = { a with segs := a.segs.take (Tr.seg_decCap_segCount (S.getSeg cap).1 (S.getSeg cap).2) } ∧
    (Tr.seg_decCap_segCount (S.getSeg cap).1 (S.getSeg cap).2 ≤ a.segs.length →
      (a.decCapacity S cap).segs.length
        = a.segs.length - Tr.seg_decCap_removed a.segs.length (Tr.seg_decCap_segCount (S.getSeg cap).1 (S.getSeg cap).2)) ∧
    a.reserve S cap = (if Tr.seg_Reserve_grows cap (a.capacity S) = true then a.incCapacity S cap else a) ∧
    a.shrink S cap = (if Tr.seg_Shrink_keeps (a.capacity S) cap = true then a
                      else a.decCapacity S (Tr.seg_Shrink_target a.count cap)) ∧
    a.addBack S = (if Tr.seg_AddBack_hasRoom (S.getSeg a.count).1 a.segs.length = true then { a with count := a.count + 1 }
                   else { (Arr.allocSegs S 1 a) with count := a.count + 1 }) ∧
    a.setCount S cap = (if cap < a.count then { a with count := cap }
                        else if cap > a.count then
                          { (if Tr.seg_incCount_grows cap (a.capacity S) = true then a.incCapacity S cap else a) with count := cap }
                        else a) :=
  TrEq.seg_capacity_ops_translated S a cap hseg

/-- **C16 (the allocation loop of `pvIncCapacity`, from the header text).** One round of
`for (segCount = GetCount(); segCount < segIndex; ++segCount)`: the translated loop test decides whether one more segment of
`GetItemCount(segCount)` items is appended. -/
theorem C16_incCapacity_loop_translated (S : Sizing) (n : Nat) (a : Arr) (target : Nat) (h : target - a.segs.length = n) :
    Arr.allocSegs S n a =
      (if Tr.seg_incCap_more a.segs.length target = true then
        Arr.allocSegs S (n - 1) { a with segs := a.segs ++ [⟨a.next, S.itemCount a.segs.length⟩], next := a.next + 1 }
       else a) :=
  TrEq.allocSegs_loop S n a target h

example : Tr.seg_incCap_segCount 21 48 = 22 ∧ Tr.seg_incCap_segCount 21 0 = 21 ∧ Tr.seg_Shrink_target 10 3 = 10 := by decide

end Momo.Seg
