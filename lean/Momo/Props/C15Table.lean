import Momo.Props.C15
import Momo.Model.VerTableX
/-!
  C15 for the entry points of Model/VerTableX.lean (repairs F31 / F32): a detached row of another table given to
  `TryUpdate(rowNumber, Row&&)`, and advancing / dereferencing the iterator of the row bounds of `FindByMultiHash`.
-/
namespace Momo.Ver
open BWorld

/-- "an iterator of another container ... throws std::invalid_argument and leaves the container unchanged", for the detached row
    handed to `TryUpdate(rowNumber, Row&&)` / `Update(rowNumber, Row&&)`: a row made by the other table is rejected for every row
    number and every content, and nothing changes -/
theorem C15_table_update_foreign_row_rejected (w : BWorld) (hw : w.WF) (o : Bool) (i a b : Nat) :
    w.stepX (.updRowOf o (!o) i a b) = (w, none) := by
  have hne : ((w.obj (!o)).id == (w.obj o).id) = false := by
    have h7 := hw.2.2.2.2.2.2
    cases o <;> simp [BWorld.obj, h7, Ne.symm h7]
  simp [BWorld.stepX, Table.tryUpdateRowOf, hne, chk]

/-- with a row of its own the repaired entry point is exactly `BOp.updRow` (so every theorem about `updRow` - bump_on_mutation,
    the index rejection table, the history theorems - speaks about it) -/
theorem C15_table_update_own_row (w : BWorld) (o : Bool) (i a b : Nat) :
    w.stepX (.updRowOf o o i a b) = w.step (.updRow o i a b) := by
  have h : (w.obj o).tryUpdateRowOf w.cs (w.obj o).id i a b = (w.obj o).tryUpdateRow w.cs i a b := by
    simp [Table.tryUpdateRowOf, chk]
  simp only [BWorld.stepX, BWorld.step, h]
  cases (w.obj o).tryUpdateRow w.cs i a b <;> rfl

/-- a rejected call of the additional entry points returns the world unchanged -/
theorem C15_tableX_rejected_unchanged (w : BWorld) (op : BOpX) (h : (w.stepX op).2 = none) : w.stepX op = (w, none) := by
  cases op with
  | updRowOf o src i a b =>
    simp only [BWorld.stepX] at h ⊢
    split at h
    · simp at h
    · rfl
  | mbAdv m i => simp only [BWorld.stepX] at h ⊢; rw [h]
  | mbIt m i => simp only [BWorld.stepX] at h ⊢; rw [h]

/-- the iterator entry points never change the world -/
theorem C15_tableX_iter_world (w : BWorld) (m : MBounds) (i : Nat) :
    (w.stepX (.mbAdv m i)).1 = w ∧ (w.stepX (.mbIt m i)).1 = w := ⟨rfl, rfl⟩

/-- `*(GetBegin() + i)` answers exactly like `bounds[i]`: the decision table, stale_rejected, fresh_accepted and the history
    theorems of `BOp.mbAt` hold for it (in particular the END position and every position above it are rejected) -/
theorem C15_bounds_iter_eq_index (w : BWorld) (m : MBounds) (i : Nat) : w.stepX (.mbIt m i) = w.step (.mbAt m i) := by
  simp only [BWorld.stepX, BWorld.step, MBounds.iterAt, MBounds.advance, MBounds.derefAt, MBounds.at_]
  by_cases hi : i = 0
  · subst hi
    cases hc : m.ckp.check w.cs <;> cases hr : m.raws[0]? <;> simp [chk]
  · cases hc : m.ckp.check w.cs
    · cases hr : m.raws[i]? <;> simp [chk, hi]
    · cases hr : m.raws[i]? with
      | none => simp [chk, hi]
      | some raw =>
        have hlt : i < m.raws.length := by
          rcases Nat.lt_or_ge i m.raws.length with h | h
          · exact h
          · rw [List.getElem?_eq_none h] at hr; cases hr
        have hne : m.raws.isEmpty = false := by
          cases hl : m.raws with
          | nil => rw [hl] at hlt; simp at hlt
          | cons x xs => rfl
        simp [chk, hi, hne, Nat.le_of_lt hlt]

/-- the decision table of `it += i` from the begin position -/
theorem C15_bounds_advance_table (m : MBounds) (cs : Cells) (i : Nat) :
    (m.advance cs i).isSome = (decide (i = 0) || (m.ckp.check cs && !m.raws.isEmpty && decide (i ≤ m.raws.length))) := by
  unfold MBounds.advance
  by_cases hi : i = 0
  · simp [hi]
  · cases hc : m.ckp.check cs <;> cases he : m.raws.isEmpty <;> by_cases hl : i ≤ m.raws.length <;> simp [chk, hi, hl]

/-- stale_rejected / out of range: moving the iterator of stale bounds, moving it above the end, or moving the iterator of empty
    bounds at all throws and changes nothing -/
theorem C15_bounds_advance_rejected (w : BWorld) (m : MBounds) (i : Nat) (hi : 0 < i)
    (h : Stale m.ckp w.cs ∨ m.raws.length < i ∨ m.raws = []) : w.stepX (.mbAdv m i) = (w, none) := by
  have hn : (m.advance w.cs i).isSome = false := by
    rw [C15_bounds_advance_table]
    have hi0 : decide (i = 0) = false := by simp; omega
    rcases h with h | h | h
    · simp [hi0, h.check]
    · have : decide (i ≤ m.raws.length) = false := by simp; omega
      simp [hi0, this]
    · simp [hi0, h]
  cases hx : m.advance w.cs i with
  | none => simp [BWorld.stepX, hx]
  | some x => rw [hx] at hn; simp at hn

/-- fresh_accepted: the iterator of bounds whose keeper is current may be moved to every position up to and including the end;
    not moving it (`+= 0`) is never rejected -/
theorem C15_bounds_advance_accepted (w : BWorld) (m : MBounds) (i : Nat)
    (h : i = 0 ∨ (m.ckp.check w.cs = true ∧ i ≤ m.raws.length ∧ m.raws ≠ [])) : w.stepX (.mbAdv m i) = (w, some .unit) := by
  have hn : (m.advance w.cs i).isSome = true := by
    rw [C15_bounds_advance_table]
    rcases h with h | ⟨h1, h2, h3⟩
    · simp [h]
    · have : m.raws.isEmpty = false := by cases hl : m.raws with | nil => exact absurd hl h3 | cons x xs => rfl
      simp [h1, h2, this]
  cases hx : m.advance w.cs i with
  | none => rw [hx] at hn; simp at hn
  | some x => simp [BWorld.stepX, hx]

/-- history: bounds taken in `w0` - after any history that changed the rows of their table the iterator can neither be moved nor
    dereferenced; after any history that did not, it can be moved to every position and dereferenced below the end -/
theorem C15_bounds_iter_history (w0 : BWorld) (hw : w0.WF) (ops : List BOp) (o : Bool) (m : MBounds)
    (hk : m.ckp = snap w0.cs (w0.obj o).ccell) :
    (SomeChange o w0 ops → (w0.run ops).cs (w0.obj o).ccell < w0.cs (w0.obj o).ccell + W →
      ∀ i, (w0.run ops).stepX (.mbIt m i) = (w0.run ops, none) ∧ (0 < i → (w0.run ops).stepX (.mbAdv m i) = (w0.run ops, none))) ∧
    (AllQuiet o true w0 ops →
      (∀ i, i < m.raws.length → ((w0.run ops).stepX (.mbIt m i)).2.isSome = true) ∧
      (∀ i, i ≤ m.raws.length → m.raws ≠ [] → (w0.run ops).stepX (.mbAdv m i) = (w0.run ops, some .unit))) := by
  refine ⟨fun hch hlt i => ⟨?_, fun hi => ?_⟩, fun hq => ⟨fun i hi => ?_, fun i hi hne => ?_⟩⟩
  · rw [C15_bounds_iter_eq_index]; exact history_bounds_stale_rejected w0 hw ops o m hk hch hlt i
  · exact C15_bounds_advance_rejected _ m i hi (Or.inl (hk ▸ snap_stale (run_change o ops w0 hw hch) hlt))
  · rw [C15_bounds_iter_eq_index]; exact history_bounds_fresh_accepted w0 hw ops o hq m hk i hi
  · have hcell := (run_quiet o true ops w0 hw hq).2 rfl
    have hc : m.ckp.check (w0.run ops).cs = true := by rw [hk]; exact check_of_cell_eq hcell
    exact C15_bounds_advance_accepted _ m i (Or.inr ⟨hc, hi, hne⟩)

/-! non-vacuity: the example world of Props/C15 (`exBW`) -/
example : exBW.WF := by simp [BWorld.WF, exBW, exTbl]
example : (exBW.stepX (.updRowOf false true 0 1 1)).2 = none ∧ (exBW.stepX (.updRowOf false false 0 77 1)).2.isSome = true := by
  constructor <;> decide
example : (exBW.stepX (.mbIt (exBW.a.findMulti exBW.cs 5) 1)).2.isSome = true ∧ (exBW.stepX (.mbIt (exBW.a.findMulti exBW.cs 5) 2)).2 = none ∧
    (exBW.stepX (.mbAdv (exBW.a.findMulti exBW.cs 5) 2)).2.isSome = true ∧ (exBW.stepX (.mbAdv (exBW.a.findMulti exBW.cs 5) 3)).2 = none := by
  refine ⟨?_, ?_, ?_, ?_⟩ <;> decide

end Momo.Ver
