import Momo.Model.HashTable
/-! # C11 — property theorems (in progress) -/
