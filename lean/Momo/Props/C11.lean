import Momo.Props.C01
/-!
# C11 — Hash tables survive failures during growth

Property theorems only. Model: `Momo/Model/HashTable.lean` with its explicit fault arguments
(`Faults`: refused bucket array, throwing item creation, migration stopped after any number of
items); lemmas: `Momo/Proof/HashTable*.lean`; the operation/specification vocabulary (`Op`, `step`,
`astep`, `Rel`, `run`) is that of `Props/C01.lean`.

Statement (properties.jsonl): when a hash table has to grow but the memory manager refuses the new
bucket array, a single-element insertion still succeeds using the existing table unless literally
every slot on the probe path is taken; and when a failure (allocation, or a throwing hash function
for keys whose hash must be recomputed) interrupts the migration of elements to a larger table, no
element becomes unreachable. In every such intermediate state all elements remain findable, are
visited exactly once by traversal, can be removed, and later operations complete the migration.
-/
namespace Momo.HT
open Momo Momo.Probe

/-- **refused growth falls back to the existing table.** If `Buckets::Create` of the larger bucket
array fails (`refuseGrow`) and a table exists, `pvAdd` inserts into the existing newest bucket
array: the outcome is success or "Hash table is full" (never `bad_alloc`), and it is "full" iff
literally every bucket of that array is full. This holds in EVERY state — no invariant is assumed —, in particular in the
overloaded states (`count ≥ capacity`, by any amount) that earlier refused growths leave behind: the sizing loop of
`pvAddGrow`, which runs before the allocation, finds its size for every capacity rule that grows with the bucket count
(`SpecOK.capMono`, `growLog_spec`). -/
theorem C11_refused_growth_fallback (sp : Spec) (hf : Nat → Nat) (ok : SpecOK sp) (t : Table) (it : Item) (f : Faults)
    (g : Gen) (rest : List Gen) (hg : t.gens = g :: rest) (hov : sp.overloadIfCannotGrow = true)
    (hrg : f.refuseGrow = true) (hra : f.refuseAdd = false) :
    ((add sp hf t it f).2 = .ok ∨ (add sp hf t it f).2 = .full) ∧
    ((add sp hf t it f).2 = .full ↔ ∀ b, b < 2 ^ g.L → isFull sp (bkt sp g.bs b) = true) := by
  obtain ⟨nl, hgl, _⟩ := growLog_spec sp ok t
  exact add_refused_fallback sp hf t it f g rest hg hov hrg hra nl hgl

/-- **`pvAddNogrow` fails iff every bucket is full**: the probe path of any home bucket visits all
`2^L` buckets (C13), so "every slot on the probe path is taken" = "every bucket is full" — for
linear and triangular probing, any table size, any hash code. -/
theorem C11_full_iff_all_buckets_full (sp : Spec) (g : Gen) (h : Nat) (it : Item) :
    addNogrowGen sp g h it = none ↔ ∀ b, b < 2 ^ g.L → isFull sp (bkt sp g.bs b) = true :=
  addNogrowGen_none_iff sp g h it

/-- **"Hash table is full" only when every bucket is full — for the index functions as translated from the headers.** The loop of
`pvAddNogrow` over the translated `GetStartBucketIndex` / `GetNextBucketIndex` (any of the four bucket classes that define one, any
table size `2^L` with `L ≤ 63`, any hash code, any occupancy) gives up only if every bucket is full; otherwise it returns the
first non-full bucket of the translated probe path and its displacement, which is below the bucket count. -/
theorem C11_full_only_when_all_buckets_full_translated (f : TrEq.NextFn) (L : Nat) (full : Nat → Bool) (h : Nat) (hL : L ≤ 63) :
    match TrEq.trAddProbe f L full h with
    | none => ∀ b, b < 2 ^ L → full b = true
    | some (p, idx) => p < 2 ^ L ∧ idx = TrEq.trSeq f L h p ∧ full idx = false ∧ ∀ q, q < p → full (TrEq.trSeq f L h q) = true :=
  TrEq.trAddProbe_spec f L full h hL

/-- **strong guarantee under every fault.** Whatever fault accompanies an insertion — refused bucket
array, throwing item creation, full table — a failed insertion leaves the table exactly as it was;
a successful one (even if its migration was cut short at an arbitrary point) adds exactly the item
and keeps the invariant. PARTIAL: `hF` excludes an interrupted migration for item categories whose
relocation cannot throw (`unrestricted_faults_counterexample` in `Props/C01.lean`). -/
theorem C11_add_every_fault_partial (sp : Spec) (hf : Nat → Nat) (ok : SpecOK sp) (t : Table) (it : Item)
    (f : Faults) (hI : TableInv sp hf t) (hF : FaultsOK sp f) (hk : ∀ x ∈ traverse t, x.key ≠ it.key) :
    ((add sp hf t it f).2 ≠ .ok → (add sp hf t it f).1 = t) ∧
    ((add sp hf t it f).2 = .ok →
      TableInv sp hf (add sp hf t it f).1 ∧ (traverse (add sp hf t it f).1).Perm (it :: traverse t)) :=
  ⟨add_fail_unchanged sp hf t it f, add_ok sp hf ok t it f hI hF hk⟩

/-- **an interrupted migration loses nothing.** Wherever `pvRelocateItems` stops — after any number
`stop` of moved items (allocation failure inside `AddCrt`, throwing hash functor), or because the
head table is full — and however many generations coexist, the table invariant holds afterwards
and the traversal is a rearrangement of the traversal before. By `C01_find_iff`,
`C01_find_value`, `C01_count_traverse` (which only need the invariant) every element is then still
found with its value and visited exactly once. -/
theorem C11_migration_interrupted (sp : Spec) (hf : Nat → Nat) (ok : SpecOK sp) (t : Table)
    (hI : TableInv sp hf t) (stop : Option Nat) :
    TableInv sp hf (relocate sp hf t stop) ∧ (traverse (relocate sp hf t stop)).Perm (traverse t) :=
  relocate_inv sp hf ok t hI stop

/-- the same for the state in the middle of `pvAdd`/`Reserve`, where a fresh generation has just
been put in front of the old ones (invariant without the "single generation" clause) -/
theorem C11_migration_interrupted_core (sp : Spec) (hf : Nat → Nat) (ok : SpecOK sp) (t : Table)
    (hI : TableCore sp hf t) (stop : Option Nat) :
    TableCore sp hf (relocate sp hf t stop) ∧ (traverse (relocate sp hf t stop)).Perm (traverse t) :=
  ⟨(relocate_core sp hf ok t hI stop).1, (relocate_core sp hf ok t hI stop).2.1⟩

/-- **elements of an interrupted table can be removed**, from whichever generation holds them:
removal at the position `pvFind` returned keeps the invariant and takes away exactly that item. -/
theorem C11_remove_in_any_generation (sp : Spec) (hf : Nat → Nat) (t : Table) (hI : TableInv sp hf t)
    (k gi b j : Nat) (hfnd : findTable sp hf t k = some (gi, b, j)) :
    ∃ it, it.key = k ∧ it ∈ traverse t ∧ TableInv sp hf (removePos sp t gi b j) ∧
      (it :: traverse (removePos sp t gi b j)).Perm (traverse t) := by
  obtain ⟨g, hg, hj, hkey, hmem⟩ := found_item sp hf t k gi b j hfnd
  obtain ⟨i1, i2⟩ := removePos_spec sp hf t hI gi b j g _ hg hj
  exact ⟨_, hkey, hmem, i1, i2⟩

/-- **the migration completes when it is not interrupted**, as long as the newest bucket array has a
slot for every element: exactly one generation remains. -/
theorem C11_migration_completes (sp : Spec) (hf : Nat → Nat) (ok : SpecOK sp) (t : Table)
    (hI : TableCore sp hf t) (head : Gen) (olds : List Gen) (hg : t.gens = head :: olds)
    (hroom : sp.unlimited = true ∨ (traverse t).length ≤ 2 ^ head.L * sp.maxCount) :
    (relocate sp hf t none).gens.length = 1 :=
  relocate_complete sp hf ok t hI head olds hg hroom

/-- **later operations complete the migration**: an insertion (into a table with any number of
leftover generations) whose own migration is not interrupted leaves exactly one generation,
provided the table is not overloaded afterwards (`count ≤ capacity`; overload only arises from
refused growth). -/
theorem C11_later_insert_completes (sp : Spec) (hf : Nat → Nat) (ok : SpecOK sp) (t : Table) (it : Item)
    (f : Faults) (hI : TableInv sp hf t) (hk : ∀ x ∈ traverse t, x.key ≠ it.key)
    (hstop : f.relocStop = none) (hok : (add sp hf t it f).2 = .ok)
    (hcap : (add sp hf t it f).1.count ≤ (add sp hf t it f).1.cap) :
    (add sp hf t it f).1.gens.length = 1 :=
  add_completes sp hf ok t it f hI hk hstop hok hcap

/-- **growth of an overloaded table reaches a capacity above the count.** Take ANY state satisfying the invariant in which
`pvAdd` has to grow (`capacity ≤ count`): a full table, or a table overloaded by ANY number of refused growths, whose count
may exceed the capacity of the next bucket count, of the one after it, … (`HashBucketUnlimP` with 16 buckets holds 128 items
while 32 buckets are meant for 64). If this time the bucket array is granted (and the item creation does not throw), then
for every migration outcome (`relocStop` arbitrary)
* the insertion succeeds, the invariant holds and the contents are the old contents plus the new item (it refines the
  abstract insertion);
* the new bucket count `2^nl` is the FIRST one `≥ pvGetNewLogBucketCount()` whose capacity exceeds the old count
  (`growLog`: the loop of HashSet.h:1135-1142), it is the newest generation, and `mCapacity` is its capacity;
* hence the table is not overloaded any more: `count ≤ capacity` (`newCapacity > mCount` before `++mCount`) — the next
  insertion needs no growth unless the count has reached the capacity exactly, as after every ordinary growth —
  and by `C11_later_insert_completes` an uninterrupted migration then leaves one generation.
(Before the repair 8fc462c the code took `nl = pvGetNewLogBucketCount()` and checked `capacity(nl) > count`: every
insertion into such a state failed.) -/
theorem C11_overloaded_growth_reaches_capacity (sp : Spec) (hf : Nat → Nat) (ok : SpecOK sp) (t : Table) (it : Item)
    (f : Faults) (hI : TableInv sp hf t) (hF : FaultsOK sp f) (hk : ∀ x ∈ traverse t, x.key ≠ it.key)
    (hov : t.cap ≤ t.count) (hrg : f.refuseGrow = false) (hra : f.refuseAdd = false) :
    (add sp hf t it f).2 = .ok ∧
    TableInv sp hf (add sp hf t it f).1 ∧ (traverse (add sp hf t it f).1).Perm (it :: traverse t) ∧
    (add sp hf t it f).1.count = t.count + 1 ∧
    t.count < (add sp hf t it f).1.cap ∧ (add sp hf t it f).1.count ≤ (add sp hf t it f).1.cap ∧
    ∃ nl head olds, (add sp hf t it f).1.gens = head :: olds ∧ head.L = nl ∧
      (add sp hf t it f).1.cap = capacityOf sp nl ∧ newLog sp t ≤ nl ∧
      ∀ l, newLog sp t ≤ l → l < nl → capacityOf sp l ≤ t.count := by
  obtain ⟨nl, _, hge, hgt, hmin, hok, hcnt, hcap, head, olds, hg, hL⟩ :=
    add_grow_shape sp hf ok t it f hI.core hk hov hrg hra
  obtain ⟨i1, i2⟩ := add_ok sp hf ok t it f hI hF hk hok
  refine ⟨hok, i1, i2, hcnt, by rw [hcap]; exact hgt, by rw [hcap, hcnt]; omega,
    nl, head, olds, hg, hL, hcap, hge, hmin⟩

/-- **no insertion answers `std::invalid_argument`.** The only check `pvAdd` can fail after its lookup is
`MOMO_CHECK(nextCapacity > newCapacity)` inside the sizing loop of `pvAddGrow` (HashSet.h:1140; model outcome `invalid`).
For every bucket description with `SpecOK` (every bucket kind of the library: `mkSpec_ok`) it never fails — in ANY state
(no invariant assumed: arbitrarily overloaded, any generations) and under ANY fault. The hypothesis that matters is
`SpecOK.capMono`: `C11_invalid_only_if_capacity_stalls` shows the check fails only for a capacity rule that does not
grow from some bucket count to the next. -/
theorem C11_insert_after_overload_never_invalid (sp : Spec) (hf : Nat → Nat) (ok : SpecOK sp) (t : Table) (it : Item)
    (f : Faults) : (add sp hf t it f).2 ≠ .invalid :=
  add_never_invalid sp hf ok t it f

/-- for an ARBITRARY capacity rule (no `SpecOK`): an insertion answers `invalid` only if the table has to grow and the
capacity stalls at some bucket count `2^l ≥ 2^pvGetNewLogBucketCount()` that is still too small for the count — what the
C15 probe with a capped `CalcCapacity` provokes — and then the table is unchanged -/
theorem C11_invalid_only_if_capacity_stalls (sp : Spec) (hf : Nat → Nat) (t : Table) (it : Item) (f : Faults)
    (h : (add sp hf t it f).2 = .invalid) :
    (add sp hf t it f).1 = t ∧ t.cap ≤ t.count ∧
    ∃ l, newLog sp t ≤ l ∧ capacityOf sp l ≤ t.count ∧ capacityOf sp (l + 1) ≤ capacityOf sp l :=
  ⟨add_fail_unchanged sp hf t it f (by rw [h]; simp), add_invalid_stalls sp hf t it f h⟩

/-- `Reserve` under every fault: a refused bucket array leaves the table unchanged, an interrupted
migration keeps invariant and contents. PARTIAL: side condition `hF` as above. -/
theorem C11_reserve_every_fault_partial (sp : Spec) (hf : Nat → Nat) (ok : SpecOK sp) (t : Table) (c : Nat)
    (f : Faults) (hI : TableInv sp hf t) (hF : FaultsOK sp f) :
    TableInv sp hf (reserve sp hf t c f).1 ∧ (traverse (reserve sp hf t c f).1).Perm (traverse t) ∧
    ((reserve sp hf t c f).2 ≠ .ok → (reserve sp hf t c f).1 = t) :=
  reserve_spec sp hf ok t c f hI hF

/-- **what C11 asserts about the state a history reaches**, however many generations coexist in it:
* the results reported so far are the specification's, and both tables satisfy the invariant
  (`Rel`);
* every element of the abstract map is found, with its value, and nothing else is found;
* the abstract contents have no duplicate key and the traversal is a rearrangement of them
  (part of `Rel`): each element is visited exactly once;
* every present key can be removed: `rem k` reports 1 and leads to a state related to the
  abstract map without `k`. -/
def C11HistoryOK (sp : Spec) (hf : Nat → Nat) (ops : List Op) : Prop :=
  (arun {} ops ((run sp hf {} ops).2.map Res.outcome)).2 = (run sp hf {} ops).2 ∧
  Rel sp hf (run sp hf {} ops).1 (arun {} ops ((run sp hf {} ops).2.map Res.outcome)).1 ∧
  (∀ k, findVal sp hf (run sp hf {} ops).1.a k
      = lookup (arun {} ops ((run sp hf {} ops).2.map Res.outcome)).1.A k) ∧
  (akeys (arun {} ops ((run sp hf {} ops).2.map Res.outcome)).1.A).Nodup ∧
  (∀ k, k ∈ akeys (arun {} ops ((run sp hf {} ops).2.map Res.outcome)).1.A →
    (step sp hf (run sp hf {} ops).1 (.rem k)).2 = .num 1 ∧
    Rel sp hf (step sp hf (run sp hf {} ops).1 (.rem k)).1
      { (arun {} ops ((run sp hf {} ops).2.map Res.outcome)).1 with
        A := (arun {} ops ((run sp hf {} ops).2.map Res.outcome)).1.A.filter (fun x => x.key != k) })

/-- the statement for every `Faults` value without side condition — false for the model, see
`C11_history_full_false` -/
def C11_history_full : Prop :=
  ∀ (sp : Spec) (hf : Nat → Nat), SpecOK sp → ∀ ops : List Op, C11HistoryOK sp hf ops

/-- **C11, the history theorem.** Take ANY history in which every insertion and reservation carries
an ARBITRARY `Faults` value — growth refused or not, item creation throwing or not, migration
stopped after ANY number of items (`relocStop`), repeatedly, so that any number of generations
may coexist. The state reached satisfies `C11HistoryOK`. PARTIAL: `RunOK`/`OpOK` exclude an
interrupted migration for item categories whose relocation cannot throw, and a copy of more than
`capacity(2^(logStart+63))` elements. -/
theorem C11_history_partial (sp : Spec) (hf : Nat → Nat) (ok : SpecOK sp) (ops : List Op)
    (hok : RunOK sp hf {} ops) : C11HistoryOK sp hf ops := by
  have h0 : Rel sp hf {} {} :=
    ⟨emptyTable_inv sp hf, emptyTable_inv sp hf, List.Perm.refl _, List.Perm.refl _, rfl⟩
  obtain ⟨hR, hres⟩ := run_refines_partial sp hf ok ops {} {} h0 hok
  have nA := nodup_keys_perm hR.pa.symm hR.ia.core.nodup
  refine ⟨hres, hR, fun k => ?_, nA, fun k hk => ?_⟩
  · rw [findVal_eq sp hf _ hR.ia k, lookup_perm _ _ k nA hR.pa]
  · obtain ⟨h1, h2⟩ := step_refines_partial sp hf ok _ _ hR (.rem k) trivial
    simp only [astep, hk, if_true] at h1 h2
    exact ⟨h2.symm, h1⟩

theorem C11_history_full_false : ¬ C11_history_full := by
  intro h
  have h1 := (h exNR id exNR_ok exNROps).2.2.1 1
  have h2 := unrestricted_faults_counterexample
  rw [h2.2.2.2.1, h2.2.2.2.2] at h1
  cases h1

/-! ## Non-vacuity -/

/-- the two-generation LimP4 state of `Props/C01.lean` (migration of the fifth insertion stopped
after one item): all five elements found; one is removed from the OLD generation; a later
fault-free insertion completes the migration -/
def exAfter : List Op := exTwoGens ++ [.rem 2, .ins false 6 60 {}]

example : (run exLimP4 id {} exTwoGens).1.a.gens.map (fun g => (g.L, genCount g)) = [(3, 2), (1, 3)] := by
  decide
example : (run exLimP4 id {} (exTwoGens ++ [.rem 2])).1.a.gens.map (fun g => (g.L, genCount g))
    = [(3, 2), (1, 2)] := by decide
example : (run exLimP4 id {} exAfter).1.a.gens.map (fun g => (g.L, genCount g)) = [(3, 5)] := by decide
example : RunOK exLimP4 id {} exAfter := by decide
example : [1, 2, 3, 4, 5, 6].map (findVal exLimP4 id (run exLimP4 id {} exAfter).1.a)
    = [some 10, none, some 30, some 40, some 50, some 60] := by decide

/-- refused growth on a full Open2N2 table (constant hash): the hypotheses of
`C11_refused_growth_fallback` hold and the outcome is `full`; after one removal the same insertion
succeeds in the existing table -/
example : (run exOpen (fun _ => 0) {} (exFull.take 2)).1.a.gens.map (·.L) = [1] := by decide
example : exOpen.overloadIfCannotGrow = true := by decide
example : (run exOpen (fun _ => 0) {} exFull).2.map Res.outcome = [.ok, .ok, .full, .ok, .ok, .ok] := by
  decide

/-- repeated interruptions: three generations alive at once -/
def exThreeGens : List Op :=
  [.ins false 1 10 {}, .ins false 2 20 {}, .ins false 3 30 {}, .ins false 4 40 {},
   .ins false 5 50 { relocStop := some 0 }, .ins false 6 60 { relocStop := some 0 },
   .reserve 100 { relocStop := some 1 }]

example : (run exLimP4 id {} exThreeGens).1.a.gens.map (fun g => (g.L, genCount g))
    = [(6, 1), (3, 2), (1, 3)] := by decide
example : TableInv exLimP4 id (run exLimP4 id {} exThreeGens).1.a :=
  (C11_history_partial exLimP4 id exLimP4_ok exThreeGens (by decide)).2.1.ia
example : [1, 2, 3, 4, 5, 6, 7].map (findVal exLimP4 id (run exLimP4 id {} exThreeGens).1.a)
    = [some 10, some 20, some 30, some 40, some 50, some 60, none] := by decide

/-- an overloaded `HashBucketUnlimP` table: first table of 1 bucket (capacity 2); after two insertions every growth is
refused seven times: 9 items in 1 bucket, although 4 buckets (`pvGetNewLogBucketCount() = 2`) are meant for 8 -/
def exUnl : Spec := Driver.HashTable.mkSpec "UnlimP" 0 8 8 false true true 0 0
theorem exUnl_ok : SpecOK exUnl := mkSpec_ok_unlimP _ _ _ _ _ _ _ _
def exOverload : List Op :=
  [.ins false 1 10 {}, .ins false 2 20 {}] ++
  ([3, 4, 5, 6, 7, 8, 9].map fun k => Op.ins false k (10 * k) { refuseGrow := true })

example : (fun t : Table => (t.gens.map (·.L), t.count, t.cap)) (run exUnl id {} exOverload).1.a = ([0], 9, 2) := by decide
example : (run exUnl id {} exOverload).2.map Res.outcome = List.replicate 9 .ok := by decide
example : RunOK exUnl id {} exOverload := by decide
/-- the size the old code asked for is too small for the count; the loop goes one step further -/
example : newLog exUnl (run exUnl id {} exOverload).1.a = 2 ∧ capacityOf exUnl 2 = 8 ∧
    growLog exUnl (run exUnl id {} exOverload).1.a = some 3 := by decide
/-- the hypotheses of `C11_overloaded_growth_reaches_capacity` hold in this state (invariant by `C11_history_partial`,
`capacity ≤ count`) and memory is back: 8 buckets, capacity 16 > 10 = count, one generation, every key found -/
example : TableInv exUnl id (run exUnl id {} exOverload).1.a :=
  (C11_history_partial exUnl id exUnl_ok exOverload (by decide)).2.1.ia
example : (fun t : Table => (t.gens.map (·.L), t.count, t.cap))
    (run exUnl id {} (exOverload ++ [.ins false 10 100 {}])).1.a = ([3], 10, 16) := by decide
example : [1, 5, 9, 10, 11].map (findVal exUnl id (run exUnl id {} (exOverload ++ [.ins false 10 100 {}])).1.a)
    = [some 10, some 50, some 90, some 100, none] := by decide
/-- `C11_invalid_only_if_capacity_stalls` is not vacuous: a capacity rule with load factor 0 stalls at once -/
example : (add { exUnl with cap := .ratio 0 1 } id emptyTable ⟨1, 10⟩ {}).2 = .invalid := by decide

end Momo.HT
