import Momo.Model.Table
/-! C07 property theorems (under construction) -/
namespace Momo.Table
end Momo.Table
