import Momo.Proof.TableProject
import Momo.Proof.TableIdxUpd
import Momo.Proof.TableIdxEx
/-!
# C07 — DataTable queries equal a brute-force scan; unique indexes are never violated

Property theorems only. Model: `Momo/Model/Table.lean`; lemmas: `Momo/Proof/Table*.lean`.

Statement (properties.jsonl): a DataTable behaves as an ordered list of rows under any history of add, insert,
update (whole row or one column), remove (by number, reference, range, predicate), extract, assign, clear and copy,
with every unique index enforced: an operation that would make two rows equal on a unique index's columns is
refused, reports the conflicting row, and leaves the table unchanged, as does any row-level operation interrupted
by an allocation failure. Every query - Select/SelectCount with any combination of column equalities and filter,
FindByUniqueHash, FindByMultiHash (including values that match no row), … - returns exactly what a brute-force
scan of the current rows returns, regardless of which unique/multi indexes exist or when they were created. Row
numbers, when kept, equal list positions.

Universally quantified parameters of every theorem: `vis` (the order in which an index hash table visits its
entries on a lookup; only the C01/C13 contract `Complete vis` is assumed), `acc` (`DataTraits::AccumulateHashCode`,
any function; for queries by key tuple it must not depend on the column order, `AccComm`), the row addresses, the
fault position `f`, `keep` (`keepRowNumber`), `maxEq` (`selectEqualityMaxCount`).

`Inv acc keep t` = distinct raws at distinct addresses, row numbers = positions (when kept), every unique index holds
exactly the rows, each under the hash code of its current key, and no two rows agree on its columns; every multi
index partitions the rows into groups of equal keys, different groups have different keys, full segments sorted.
`scan t eqs filt` = the brute-force scan (ids of the rows, in table order, that satisfy the equalities and the filter).
-/
namespace Momo.Table
open List

/-! ### queries = brute-force scan -/

/-- *"Every query - Select/SelectCount with any combination of column equalities and filter … returns exactly what
a brute-force scan of the current rows returns"*: `Select` returns exactly the rows of the scan (as a multiset: the
order through a multi index is the storage order of the group, which the property does not specify) and
`SelectCount` its size - for every number of equalities (more than `selectEqualityMaxCount` included), every filter. -/
theorem C07_select_eq_scan {vis : Vis} (hc : Complete vis) (acc : Acc) (hacc : AccComm acc) (keep : Bool) (maxEq : Nat)
    (t : Table) (hinv : Inv acc keep t) (eqs : List (Nat × Nat)) (filt : Row → Bool) (hnd : (eqs.map (·.1)).Nodup) :
    (select vis acc maxEq t eqs filt).Perm (scan t eqs filt) ∧
    selectCount vis acc maxEq t eqs filt = (scan t eqs filt).length :=
  ⟨select_perm_scan hc acc hacc keep maxEq t hinv eqs filt hnd,
   selectCount_eq_scan hc acc hacc keep maxEq t hinv eqs filt hnd⟩

/-- *"regardless of which unique/multi indexes exist"*: whichever admissible index `pvSelect` could pick (any unique
or multi index all of whose columns are among the equalities, or none), the selection is the scan; through the full
scan or a unique index even in table order. -/
theorem C07_select_any_index {vis : Vis} (hc : Complete vis) (acc : Acc) (hacc : AccComm acc) (keep : Bool)
    (t : Table) (hinv : Inv acc keep t) (eqs : List (Nat × Nat)) (hnd : (eqs.map (·.1)).Nodup) (filt : Row → Bool)
    (path : Path) (hv : ValidPath t (eqs.map (·.1)) path) :
    (selectVia vis acc t eqs filt path).Perm (scan t eqs filt) ∧
    ((∀ i, path ≠ .multi i) → selectVia vis acc t eqs filt path = scan t eqs filt) :=
  selectVia_perm_scan hc acc hacc keep t hinv eqs hnd filt path hv

/-- the index `pvSelect` picks is always admissible -/
theorem C07_choosePath_valid (t : Table) (eqs : List (Nat × Nat)) : ValidPath t (eqs.map (·.1)) (choosePath t eqs) :=
  choosePath_valid t eqs

/-- *"FindByUniqueHash … (including values that match no row)"*: the answer (for the index named or the one found by
its columns) is the scan: the one row with these values, or nothing. -/
theorem C07_findByUnique_eq_scan {vis : Vis} (hc : Complete vis) (acc : Acc) (hacc : AccComm acc) (keep : Bool)
    (t : Table) (hinv : Inv acc keep t) (idx : Option Nat) (eqs : List (Nat × Nat)) (hnd : (eqs.map (·.1)).Nodup)
    (hidx : ∀ i, idx = some i → ∃ u, t.uidx[i]? = some u ∧ sameCols u.cols (eqs.map (·.1)) = true)
    (L : List Nat) (h : findByUnique vis acc t idx eqs = some L) :
    L = scan t eqs (fun _ => true) ∧ L.length ≤ 1 := by
  have hL := findByUnique_eq_scan hc acc hacc keep t hinv idx eqs hnd hidx L h
  refine ⟨hL, ?_⟩
  unfold findByUnique at h
  cases hti : trueIndex (t.uidx.map (·.cols)) idx (eqs.map (·.1)) with
  | none => rw [hti] at h; simp at h
  | some i =>
    rw [hti] at h
    simp only [Option.some.injEq] at h
    rw [← h]
    unfold findRawsU
    split
    · simp
    · split <;> simp

/-- *"FindByMultiHash (including values that match no row)"*: exactly the rows of the scan (F8 was the case of an
absent value). -/
theorem C07_findByMulti_eq_scan {vis : Vis} (hc : Complete vis) (acc : Acc) (hacc : AccComm acc) (keep : Bool)
    (t : Table) (hinv : Inv acc keep t) (idx : Option Nat) (eqs : List (Nat × Nat)) (hnd : (eqs.map (·.1)).Nodup)
    (hidx : ∀ i, idx = some i → ∃ m, t.midx[i]? = some m ∧ sameCols m.cols (eqs.map (·.1)) = true)
    (L : List Nat) (h : findByMulti vis acc t idx eqs = some L) : L.Perm (scan t eqs (fun _ => true)) :=
  findByMulti_perm_scan hc acc hacc keep t hinv idx eqs hnd hidx L h

/-- *"Project"*: the projection of the rows that pass the filter, in table order. -/
theorem C07_project (vis : Vis) (acc : Acc) (t : Table) (cols : List Nat) (filt : Row → Bool) :
    project vis acc t cols false filt = (t.rows.filter filt).map (fun r => cols.map (item r.vals)) :=
  project_all vis acc t cols filt

/-- *"ProjectDistinct"*: the first occurrence of every projected tuple, in table order (`dedupFirst` = brute force) -
the temporary unique index over all result columns refuses exactly the tuples already present. -/
theorem C07_projectDistinct {vis : Vis} (hc : Complete vis) (acc : Acc) (t : Table) (cols : List Nat) (filt : Row → Bool) :
    project vis acc t cols true filt = dedupFirst [] ((t.rows.filter filt).map (fun r => cols.map (item r.vals))) :=
  project_distinct hc acc t cols filt

/-! ### add -/

/-- *"an operation that would make two rows equal on a unique index's columns is refused, reports the conflicting
row, and leaves the table unchanged, as does any row-level operation (add …) interrupted by an allocation failure"*,
for `TryAdd` of a new raw (fresh identity, address not in use), every fault position `f`:
the invariant is kept; the answer is `ok` only if no row agrees with the new one on the columns of any unique index,
and then the row is appended with its position as number; `dup x j` names a row `x` that agrees with the new one on
the columns of unique index `j`, the first index with such a row, and the table is unchanged; `bad_alloc` only under
a fault, table unchanged. (`TEquiv`: same rows, same unique indexes, multi indexes equal up to the order inside a
group - `pvAdd` may have sorted a segment before the failure.) -/
theorem C07_add {vis : Vis} (hc : Complete vis) (acc : Acc) (keep : Bool) (t : Table) (hinv : Inv acc keep t) (r : Row)
    (hr : r.id ∉ ids t.rows) (hra : r.addr ∉ t.rows.map (·.addr)) (f : Fault) :
    Inv acc keep (tryAdd vis acc keep t r f).1 ∧
    match (tryAdd vis acc keep t r f).2 with
    | .ok => (tryAdd vis acc keep t r f).1.rows = t.rows ++ [setNum keep r t.rows.length] ∧
             (∀ u ∈ t.uidx, ∀ x ∈ t.rows, keyEq u.cols r.vals x.vals = false)
    | .dup x j => TEquiv t (tryAdd vis acc keep t r f).1 ∧
             ∃ u row, t.uidx[j]? = some u ∧ row ∈ t.rows ∧ row.id = x ∧ keyEq u.cols r.vals row.vals = true ∧
               ∀ i' u', i' < j → t.uidx[i']? = some u' → ∀ y ∈ t.rows, keyEq u'.cols r.vals y.vals = false
    | .badAlloc => TEquiv t (tryAdd vis acc keep t r f).1 ∧ f ≠ .none
    | .outOfRange => False :=
  tryAdd_spec hc acc keep t hinv r hr hra f

/-- without a fault `TryAdd` never answers `bad_alloc`: it is accepted exactly when the brute-force check finds no
row with the same key in a unique index -/
theorem C07_add_ok_iff {vis : Vis} (hc : Complete vis) (acc : Acc) (keep : Bool) (t : Table) (hinv : Inv acc keep t)
    (r : Row) (hr : r.id ∉ ids t.rows) (hra : r.addr ∉ t.rows.map (·.addr)) :
    (tryAdd vis acc keep t r .none).2 = .ok ↔ ∀ u ∈ t.uidx, ∀ x ∈ t.rows, keyEq u.cols r.vals x.vals = false := by
  have h := (tryAdd_spec hc acc keep t hinv r hr hra .none).2
  constructor
  · intro e; rw [e] at h; exact h.2
  · intro hno
    cases hres : (tryAdd vis acc keep t r .none).2 with
    | ok => rfl
    | dup x j =>
      rw [hres] at h
      obtain ⟨_, u, row, hu, hrow, _, hk, _⟩ := h
      rw [hno u (mem_of_getElem? hu) row hrow] at hk
      exact absurd hk (by simp)
    | badAlloc => rw [hres] at h; exact absurd rfl h.2
    | outOfRange => rw [hres] at h; exact h.elim

/-- *"clear"*: no rows, the invariant holds -/
theorem C07_clear (acc : Acc) (keep : Bool) (t : Table) (hinv : Inv acc keep t) :
    Inv acc keep (clear t) ∧ (clear t).rows = [] :=
  clear_spec acc keep t hinv

/-! ### insert, remove, extract, assign, copy, index creation -/

/-- *"insert"*: `TryInsert(n, row)` is `TryAdd` with the accepted row standing at position `n` (rows from there on
renumbered); refused / failed: table unchanged, conflicting row reported; `n` beyond the end: `out_of_range`, table
untouched. -/
theorem C07_insert {vis : Vis} (hc : Complete vis) (acc : Acc) (keep : Bool) (t : Table) (hinv : Inv acc keep t) (n : Nat)
    (r : Row) (hr : r.id ∉ ids t.rows) (hra : r.addr ∉ t.rows.map (·.addr)) (f : Fault) :
    Inv acc keep (tryInsert vis acc keep t n r f).1 ∧
    match (tryInsert vis acc keep t n r f).2 with
    | .ok => n ≤ t.rows.length ∧
             (tryInsert vis acc keep t n r f).1.rows =
               setNumbers keep n (t.rows.take n ++ setNum keep r t.rows.length :: t.rows.drop n) ∧
             (∀ u ∈ t.uidx, ∀ x ∈ t.rows, keyEq u.cols r.vals x.vals = false)
    | .dup x j => TEquiv t (tryInsert vis acc keep t n r f).1 ∧
             ∃ u row, t.uidx[j]? = some u ∧ row ∈ t.rows ∧ row.id = x ∧ keyEq u.cols r.vals row.vals = true ∧
               ∀ i' u', i' < j → t.uidx[i']? = some u' → ∀ y ∈ t.rows, keyEq u'.cols r.vals y.vals = false
    | .badAlloc => TEquiv t (tryInsert vis acc keep t n r f).1 ∧ f ≠ .none
    | .outOfRange => t.rows.length < n ∧ (tryInsert vis acc keep t n r f).1 = t :=
  tryInsert_spec hc acc keep t hinv n r hr hra f

/-- *"remove (by number …), extract"*: `pvExtractRaw(n, keepOrder)` (`ExtractRow`, `Remove(number)`): the row at
position `n` leaves the table and every index (invariant kept); with `keepOrder` the later rows move up and are
renumbered, without it the last row takes its place and its number. Out of range: nothing happens. The lookups of
`RemoveRaw` do not allocate, so there is no failure case. -/
theorem C07_extract {vis : Vis} (hc : Complete vis) (acc : Acc) (keep : Bool) (t : Table) (hinv : Inv acc keep t) (n : Nat)
    (keepOrder : Bool) :
    Inv acc keep (extract vis acc keep t n keepOrder).1 ∧
    match t.rows[n]? with
    | none => extract vis acc keep t n keepOrder = (t, none)
    | some r => (extract vis acc keep t n keepOrder).2 = some r ∧
        (extract vis acc keep t n keepOrder).1.rows =
          if keepOrder then setNumbers keep n (t.rows.eraseIdx n)
          else if n < t.rows.length - 1 then (t.rows.set n (setNum keep (t.rows.getLastD r) n)).dropLast
          else t.rows.dropLast :=
  extract_spec hc acc keep t hinv n keepOrder

/-- *"remove (by … reference)"*: the row with this identity (found through its stored number, or by searching when
numbers are not kept) leaves the table, order kept; an identity that is not in the table: nothing happens. -/
theorem C07_extractRef {vis : Vis} (hc : Complete vis) (acc : Acc) (keep : Bool) (t : Table) (hinv : Inv acc keep t)
    (id : Nat) :
    Inv acc keep (extractRef vis acc keep t id).1 ∧
    ((id ∉ ids t.rows ∧ extractRef vis acc keep t id = (t, none)) ∨
     (∃ n r, t.rows[n]? = some r ∧ r.id = id ∧ (extractRef vis acc keep t id).2 = some r ∧
        (extractRef vis acc keep t id).1.rows = setNumbers keep n (t.rows.eraseIdx n))) :=
  extractRef_spec hc acc keep t hinv id

/-- *"remove (by … range …)"*: the rows named leave, the others keep their order and are renumbered. -/
theorem C07_removeRows (acc : Acc) (keep : Bool) (t : Table) (hinv : Inv acc keep t) (rm : List Nat) :
    Inv acc keep (removeRows keep t rm) ∧
    (removeRows keep t rm).rows = setNumbers keep 0 (t.rows.filter (fun r => !rm.contains r.id)) :=
  removeRows_spec acc keep t hinv rm

/-- *"remove (by … predicate)"* -/
theorem C07_removePred (acc : Acc) (keep : Bool) (t : Table) (hinv : Inv acc keep t) (p : Row → Bool) :
    Inv acc keep (removePred keep t p) ∧
    (removePred keep t p).rows = setNumbers keep 0 (t.rows.filter (fun r => !p r)) :=
  removePred_spec acc keep t hinv p

/-- *"assign"*: the rows named, in the order of their first mention, renumbered; all others leave. -/
theorem C07_assign (acc : Acc) (keep : Bool) (t : Table) (hinv : Inv acc keep t) (named : List Nat) :
    Inv acc keep (assign keep t named) ∧
    (assign keep t named).rows = setNumbers keep 0 ((firstOccs [] named).filterMap (rowOf t.rows)) :=
  assign_spec acc keep t hinv named

/-- *"copy"*: the copy (optionally filtered) holds the imported rows in order, renumbered, with the same index
definitions, and satisfies the invariant. Hypothesis on the imported rows: distinct identities and addresses, pairwise
different on the columns of every unique index - which rows taken from a table are (`C07_rows_distinct`). -/
theorem C07_copy {vis : Vis} (hc : Complete vis) (acc : Acc) (keep : Bool) (t : Table) (hinv : Inv acc keep t)
    (newRows : List Row) (hnd : (ids newRows).Nodup) (hai : AddrInj newRows)
    (hpw : ∀ u ∈ t.uidx, newRows.Pairwise (fun a b => keyEq u.cols a.vals b.vals = false)) :
    Inv acc keep (copyOf vis acc keep t newRows) ∧ (copyOf vis acc keep t newRows).rows = setNumbers keep 0 newRows ∧
    (copyOf vis acc keep t newRows).uidx.map (·.cols) = t.uidx.map (·.cols) ∧
    (copyOf vis acc keep t newRows).midx.map (·.cols) = t.midx.map (·.cols) :=
  copyOf_spec hc acc keep t hinv newRows hnd hai hpw

/-- *"unique indexes are never violated"*: in a table that satisfies the invariant no two rows agree on the columns of a
unique index. -/
theorem C07_rows_distinct {acc : Acc} {keep : Bool} {t : Table} (hinv : Inv acc keep t) {u : UIdx} (hu : u ∈ t.uidx) :
    t.rows.Pairwise (fun a b => keyEq u.cols a.vals b.vals = false) :=
  rows_pairwise_distinct hinv hu

/-- *"regardless of … when they were created"*: a unique index created on a table with data satisfies the invariant
(so every query theorem applies to it); if two rows agree on its columns the table is unchanged and a row that agrees
with an earlier one is reported (`UniqueIndexViolation`). -/
theorem C07_createUnique {vis : Vis} (hc : Complete vis) (acc : Acc) (keep : Bool) (t : Table) (hinv : Inv acc keep t)
    (cols : List Nat) (hcn : cols.Nodup) :
    Inv acc keep (createUnique vis acc t cols).1 ∧ (createUnique vis acc t cols).1.rows = t.rows ∧
    match (createUnique vis acc t cols).2 with
    | .ok i => ∃ u, (createUnique vis acc t cols).1.uidx[i]? = some u ∧ sameCols u.cols cols = true
    | .error raw => (createUnique vis acc t cols).1 = t ∧
        ∃ r x, r ∈ t.rows ∧ x ∈ t.rows ∧ r.id = raw ∧ x.id ≠ r.id ∧ keyEq cols r.vals x.vals = true :=
  createUnique_spec hc acc keep t hinv cols hcn

/-- … and a multi index created on a table with data. -/
theorem C07_createMulti {vis : Vis} (hc : Complete vis) (acc : Acc) (keep : Bool) (t : Table) (hinv : Inv acc keep t)
    (cols : List Nat) (hcn : cols.Nodup) :
    Inv acc keep (createMulti vis acc t cols).1 ∧ (createMulti vis acc t cols).1.rows = t.rows ∧
    ∃ m, (createMulti vis acc t cols).1.midx[(createMulti vis acc t cols).2]? = some m ∧ sameCols m.cols cols = true :=
  createMulti_spec hc acc keep t hinv cols hcn

/-- *"Row numbers, when kept, equal list positions"* (part of the invariant every operation keeps). -/
theorem C07_numbers_eq_positions {acc : Acc} {t : Table} (hinv : Inv acc true t) (i : Nat) (r : Row)
    (h : t.rows[i]? = some r) : r.num = i :=
  hinv.nums rfl i r h

/-! ### update (whole row) -/

/-- *"update (whole row …)"*, `TryUpdate(rowNumber, row)` with a new raw (fresh identity, address not in use), every
fault position: the invariant is kept; `ok` only if no *other* row agrees with the new row on the columns of a unique
index, and then the new row stands at position `n` with number `n`; `dup x j`: table unchanged, `x` is another row
that agrees with the new one on the columns of unique index `j`, the first such index; `bad_alloc` only under a fault,
table unchanged; no row `n`: `out_of_range`, nothing happens. -/
theorem C07_update {vis : Vis} (hc : Complete vis) (acc : Acc) (keep : Bool) (t : Table) (hinv : Inv acc keep t) (n : Nat)
    (r : Row) (hr : r.id ∉ ids t.rows) (hra : r.addr ∉ t.rows.map (·.addr)) (f : Fault) :
    Inv acc keep (tryUpdate vis acc keep t n r f).1 ∧
    match t.rows[n]? with
    | none => tryUpdate vis acc keep t n r f = (t, .outOfRange)
    | some old =>
      match (tryUpdate vis acc keep t n r f).2 with
      | .ok => (tryUpdate vis acc keep t n r f).1.rows = t.rows.set n (setNum keep r n) ∧
               (∀ u ∈ t.uidx, ∀ y ∈ t.rows, y.id ≠ old.id → keyEq u.cols r.vals y.vals = false)
      | .dup x j => TEquiv t (tryUpdate vis acc keep t n r f).1 ∧
               ∃ u row, t.uidx[j]? = some u ∧ row ∈ t.rows ∧ row.id = x ∧ x ≠ old.id ∧ keyEq u.cols r.vals row.vals = true ∧
                 ∀ i' u', i' < j → t.uidx[i']? = some u' → ∀ y ∈ t.rows, y.id ≠ old.id → keyEq u'.cols r.vals y.vals = false
      | .badAlloc => TEquiv t (tryUpdate vis acc keep t n r f).1 ∧ f ≠ .none
      | .outOfRange => False :=
  tryUpdate_spec hc acc keep t hinv n r hr hra f

/-! ### single-column update: finding F9 -/

/-- the full statement for the single-column update (`col` a column of the table): the invariant is kept for every
hash-table behaviour allowed by the contract. It is **false** for the code as it is (finding F9): see
`C07_updateCol_F9_witness`. -/
def C07_updateCol_correct : Prop :=
  ∀ (vis : Vis), Complete vis → ∀ (acc : Acc) (keep : Bool) (t : Table), Inv acc keep t →
    ∀ (n col v : Nat) (f : Fault), (∀ r, t.rows[n]? = some r → col < r.vals.length) →
      Inv acc keep (tryUpdateCol vis acc t n col v f).1

/-- *"update (… one column)"* **under the hypothesis the proof forces** (`NoF9`: in every index over the column in which
the update has to add an entry, the lookup of the raw's old key that follows - `PrepareRemove(raw)` - does not return
the entry just added; the entry has the same `Raw*`, whose items still read as the old key): the invariant is kept;
`ok`: the row shows the new item (nothing else changes) and no row had the new key in a unique index over the column;
`dup x j`: table unchanged, `x` is another row with the new key in unique index `j`; `bad_alloc` only under a fault,
table unchanged. -/
theorem C07_updateCol_partial {vis : Vis} (hc : Complete vis) (acc : Acc) (keep : Bool) (t : Table) (hinv : Inv acc keep t)
    (n col v : Nat) (f : Fault) (hcol : ∀ r, t.rows[n]? = some r → col < r.vals.length)
    (hF : ∀ r, t.rows[n]? = some r → NoF9 vis acc t r.id col v) :
    Inv acc keep (tryUpdateCol vis acc t n col v f).1 ∧
    match t.rows[n]? with
    | none => tryUpdateCol vis acc t n col v f = (t, .outOfRange)
    | some r =>
      match (tryUpdateCol vis acc t n col v f).2 with
      | .ok => (tryUpdateCol vis acc t n col v f).1.rows = setVals t.rows n (mixVals r.vals col v) ∧
               (item r.vals col ≠ v → ∀ u ∈ t.uidx, col ∈ u.cols → ∀ y ∈ t.rows,
                  keyEq u.cols (mixVals r.vals col v) y.vals = false)
      | .dup x j => TEquiv t (tryUpdateCol vis acc t n col v f).1 ∧
               ∃ u row, t.uidx[j]? = some u ∧ col ∈ u.cols ∧ row ∈ t.rows ∧ row.id = x ∧ x ≠ r.id ∧
                 keyEq u.cols (mixVals r.vals col v) row.vals = true
      | .badAlloc => TEquiv t (tryUpdateCol vis acc t n col v f).1 ∧ f ≠ .none
      | .outOfRange => False :=
  tryUpdateCol_partial hc acc keep t hinv n col v f hcol hF

namespace C07ex

/-- a hash table with 4 buckets and probe sequences of length 2: a lookup of hash code `h` examines the entries of
buckets `h % 4` and `(h + 1) % 4`, newest first -/
def visW : Vis := fun h hs =>
  (List.range hs.length).reverse.filter (fun i => hs.getD i 0 % 4 == h % 4 || hs.getD i 0 % 4 == (h + 1) % 4)

theorem visW_complete : Complete visW := by
  intro h hs i hi
  rcases List.getElem?_eq_some_iff.mp hi with ⟨h1, h2⟩
  simp [visW, h1, h2]

def accW : Acc := fun h _ v => h + v

theorem accW_comm : AccComm accW := by
  intro h c1 v1 c2 v2; simp only [accW]; omega

/-- one unique index over column 0, one row with the value 4 -/
def w1 : Table := (tryAdd visW accW false { uidx := [{ cols := [0] }] } ⟨1, 10, 0, [4]⟩ .none).1

/-- … after `row[col0] = 5` -/
def w2 : Table := (tryUpdateCol visW accW w1 0 0 5 .none).1

theorem w1_inv : Inv accW false w1 :=
  (tryAdd_spec visW_complete accW false _ (Inv_empty _ _ _ rfl (by decide) (by decide)) _ (by decide) (by decide) .none).1

end C07ex

open C07ex in
/-- **F9 witness.** A table with the unique index (col 0) and the single row `(4)`, in a hash table where the new
entry for key 5 lies on the probe path of key 4 and is met first: `Update(row, col0, 5)` answers `ok`, the row reads 5,
but `PrepareRemove` found the entry just added, `AcceptRemove` erased it, and the index keeps the row where key 4
belongs: `FindByUniqueHash(col0 = 5)` returns nothing although the scan finds row 1. Hence the invariant is lost. -/
theorem C07_updateCol_F9_witness :
    (tryUpdateCol visW accW w1 0 0 5 .none).2 = .ok ∧ w2.rows.map (·.vals) = [[5]] ∧
    scan w2 [(0, 5)] (fun _ => true) = [1] ∧ findByUnique visW accW w2 (some 0) [(0, 5)] = some [] ∧
    ¬ C07_updateCol_correct := by
  refine ⟨by decide, by decide, by decide, by decide, ?_⟩
  intro hcorrect
  have hinv : Inv accW false w2 := hcorrect visW visW_complete accW false w1 w1_inv 0 0 5 .none (by
    intro r hr
    have : w1.rows[0]? = some ⟨1, 10, 0, [4]⟩ := by decide
    rw [this] at hr; rw [← Option.some.inj hr]; decide)
  have := findByUnique_eq_scan visW_complete accW accW_comm false w2 hinv (some 0) [(0, 5)] (by decide)
    (fun i hi => by
      simp only [Option.some.injEq] at hi; subst hi
      exact ⟨{ cols := [0], ents := [⟨1, 4⟩] }, by decide, by decide⟩) [] (by decide)
  exact absurd this (by decide)

/-! ### histories -/

/-- the full statement for histories: after **every** history of operations from the empty table (every operation meeting
only its environment condition `Op.OkFull`: new raws have unused identities and addresses, copies get distinct
addresses, index columns are distinct, updated columns exist) the invariant holds. **False** today because of the
single-column update (F9): `C07_history_F9`. -/
def C07_history_full : Prop :=
  ∀ (vis : Vis), Complete vis → ∀ (acc : Acc) (keep : Bool) (ops : List Op),
    ValidHistFull vis acc keep {} ops → Inv acc keep (run vis acc keep {} ops)

/-- *"A DataTable behaves as an ordered list of rows under any history of add, insert, update (whole row or one column),
remove (by number, reference, range, predicate), extract, assign, clear and copy, with every unique index enforced …
Every query … returns exactly what a brute-force scan of the current rows returns, regardless of which unique/multi
indexes exist or when they were created. Row numbers, when kept, equal list positions."*
For every list of operations from the empty table (add, insert, update, column update, extract by number with and
without order, extract by reference, remove rows / by predicate, assign, clear, replace by a filtered copy, create a
unique / multi index at any time, drop the indexes; every fault position) in which each operation meets its environment
condition `Op.Ok` - which for the single-column update includes `NoF9`, hence **partial** -: the invariant holds in the
final state (so no two rows agree on the columns of a unique index and numbers equal positions) and every query
equals the brute-force scan of the rows. What each operation does to the row list is stated by `C07_add` … `C07_copy`. -/
theorem C07_history_partial {vis : Vis} (hc : Complete vis) (acc : Acc) (hacc : AccComm acc) (keep : Bool) (maxEq : Nat)
    (ops : List Op) (hv : ValidHist vis acc keep {} ops) :
    Inv acc keep (run vis acc keep {} ops) ∧
    (∀ u ∈ (run vis acc keep {} ops).uidx,
        (run vis acc keep {} ops).rows.Pairwise (fun a b => keyEq u.cols a.vals b.vals = false)) ∧
    (keep = true → ∀ (i : Nat) (r : Row), (run vis acc keep {} ops).rows[i]? = some r → r.num = i) ∧
    (∀ eqs filt, (eqs.map (·.1)).Nodup →
        (select vis acc maxEq (run vis acc keep {} ops) eqs filt).Perm (scan (run vis acc keep {} ops) eqs filt) ∧
        selectCount vis acc maxEq (run vis acc keep {} ops) eqs filt = (scan (run vis acc keep {} ops) eqs filt).length) ∧
    (∀ idx eqs L, (eqs.map (·.1)).Nodup →
        (∀ i, idx = some i → ∃ u, (run vis acc keep {} ops).uidx[i]? = some u ∧ sameCols u.cols (eqs.map (·.1)) = true) →
        findByUnique vis acc (run vis acc keep {} ops) idx eqs = some L → L = scan (run vis acc keep {} ops) eqs (fun _ => true)) ∧
    (∀ idx eqs L, (eqs.map (·.1)).Nodup →
        (∀ i, idx = some i → ∃ m, (run vis acc keep {} ops).midx[i]? = some m ∧ sameCols m.cols (eqs.map (·.1)) = true) →
        findByMulti vis acc (run vis acc keep {} ops) idx eqs = some L →
        L.Perm (scan (run vis acc keep {} ops) eqs (fun _ => true))) := by
  have hinv : Inv acc keep (run vis acc keep {} ops) :=
    run_inv hc acc keep ops {} (Inv_empty acc keep {} rfl (by intro u hu; cases hu) (by intro m hm; cases hm)) hv
  exact ⟨hinv, fun u hu => rows_pairwise_distinct hinv hu, hinv.nums,
    fun eqs filt hnd => ⟨select_perm_scan hc acc hacc keep maxEq _ hinv eqs filt hnd,
      selectCount_eq_scan hc acc hacc keep maxEq _ hinv eqs filt hnd⟩,
    fun idx eqs L hnd hidx h => findByUnique_eq_scan hc acc hacc keep _ hinv idx eqs hnd hidx L h,
    fun idx eqs L hnd hidx h => findByMulti_perm_scan hc acc hacc keep _ hinv idx eqs hnd hidx L h⟩

/-- every single operation keeps the invariant (the induction step of the history theorem) -/
theorem C07_step_inv {vis : Vis} (hc : Complete vis) (acc : Acc) (keep : Bool) (t : Table) (hinv : Inv acc keep t) (op : Op)
    (hok : op.Ok vis acc t) : Inv acc keep (applyOp vis acc keep t op) :=
  applyOp_inv hc acc keep t hinv op hok

open C07ex in
/-- **F9 at the level of histories**: create unique(col0), add the row `(4)`, set its col0 to 5 - the invariant is lost
(`FindByUniqueHash(col0 = 5)` finds nothing). -/
theorem C07_history_F9 : ¬ C07_history_full := by
  intro hfull
  have hv : ValidHistFull visW accW false {} [.createUnique [0], .add ⟨1, 10, 0, [4]⟩ .none, .updateCol 0 0 5 .none] := by
    refine ⟨by show List.Nodup _; decide, ⟨by decide, by decide⟩, ?_, trivial⟩
    intro r hr
    have : (applyOp visW accW false (applyOp visW accW false {} (.createUnique [0])) (.add ⟨1, 10, 0, [4]⟩ .none)).rows[0]? =
        some ⟨1, 10, 0, [4]⟩ := by decide
    rw [this] at hr; rw [← Option.some.inj hr]; decide
  have hinv := hfull visW visW_complete accW false _ hv
  have := findByUnique_eq_scan visW_complete accW accW_comm false _ hinv (some 0) [(0, 5)] (by decide)
    (fun i hi => by
      simp only [Option.some.injEq] at hi; subst hi
      exact ⟨{ cols := [0], ents := [⟨1, 4⟩] }, by decide, by decide⟩) [] (by decide)
  exact absurd this (by decide)

/-! ### non-vacuity: a concrete table with a unique and a multi index -/

namespace C07ex

def visAll : Vis := fun _ hs => List.range hs.length

theorem visAll_complete : Complete visAll := by
  intro h hs i hi
  rcases List.getElem?_eq_some_iff.mp hi with ⟨h1, _⟩
  simp [visAll, h1]

def accSum : Acc := fun h c v => h + (c + 1) * (v + 1)

theorem accSum_comm : AccComm accSum := by
  intro h c1 v1 c2 v2; simp only [accSum]; omega

/-- unique(col0, col1), multi(col0), no rows -/
def t0 : Table := { uidx := [{ cols := [0, 1] }], midx := [{ cols := [0] }] }
def t1 : Table := (tryAdd visAll accSum true t0 ⟨1, 10, 0, [5, 1, 7]⟩ .none).1
def t2 : Table := (tryAdd visAll accSum true t1 ⟨2, 20, 0, [5, 2, 7]⟩ .none).1
/-- three rows, two of them with the same key in the multi index -/
def t3 : Table := (tryAdd visAll accSum true t2 ⟨3, 5, 0, [6, 1, 7]⟩ .none).1

theorem t0_inv : Inv accSum true t0 := Inv_empty _ _ _ rfl (by decide) (by decide)
theorem t1_inv : Inv accSum true t1 := (tryAdd_spec visAll_complete accSum true t0 t0_inv _ (by decide) (by decide) .none).1
theorem t2_inv : Inv accSum true t2 := (tryAdd_spec visAll_complete accSum true t1 t1_inv _ (by decide) (by decide) .none).1
theorem t3_inv : Inv accSum true t3 := (tryAdd_spec visAll_complete accSum true t2 t2_inv _ (by decide) (by decide) .none).1

end C07ex

open C07ex in
/-- the hypotheses of the query theorems hold for a table with three rows, a unique and a multi index … -/
example : Inv accSum true t3 ∧ Complete visAll ∧ AccComm accSum := ⟨t3_inv, visAll_complete, accSum_comm⟩
open C07ex in
example : t3.rows.map (fun r => (r.id, r.num, r.vals)) = [(1, 0, [5, 1, 7]), (2, 1, [5, 2, 7]), (3, 2, [6, 1, 7])] := by decide
open C07ex in
example : t3.midx.map (·.groups) = [[⟨1, 6, [2]⟩, ⟨3, 7, []⟩]] := by decide
open C07ex in
/-- … `Select(col0 = 5)` goes through the multi index and returns both rows, … -/
example : choosePath t3 [(0, 5)] = .multi 0 ∧ select visAll accSum 6 t3 [(0, 5)] (fun _ => true) = [1, 2] ∧
    scan t3 [(0, 5)] (fun _ => true) = [1, 2] := by decide
open C07ex in
/-- … `Select(col0 = 5, col1 = 2)` through the unique index, `Select(col1 = 1)` by a full scan, an absent value
returns nothing, … -/
example : choosePath t3 [(0, 5), (1, 2)] = .unique 0 ∧ select visAll accSum 6 t3 [(0, 5), (1, 2)] (fun _ => true) = [2] ∧
    choosePath t3 [(1, 1)] = .scan ∧ select visAll accSum 6 t3 [(1, 1)] (fun _ => true) = [1, 3] ∧
    findByMulti visAll accSum t3 none [(0, 9)] = some [] ∧ findByUnique visAll accSum t3 none [(1, 1), (0, 6)] = some [3] := by
  decide
open C07ex in
/-- … a row with the key (5, 1) is refused and row 1 reported; with a different key it is accepted; a failure inside
the multi index (step 1) leaves the table unchanged. -/
example : (tryAdd visAll accSum true t3 ⟨4, 30, 0, [5, 1, 9]⟩ .none).2 = .dup 1 0 ∧
    (tryAdd visAll accSum true t3 ⟨4, 30, 0, [5, 1, 9]⟩ .none).1 = t3 ∧
    (tryAdd visAll accSum true t3 ⟨4, 30, 0, [5, 3, 9]⟩ .none).2 = .ok ∧
    tryAdd visAll accSum true t3 ⟨4, 30, 0, [5, 3, 9]⟩ (.step 1) = (t3, .badAlloc) := by decide

open C07ex in
/-- … removing row 1 (order kept) leaves rows 2 and 3 renumbered and the multi group of key 5 with row 2 alone; indexes
created after the data answer the same queries. -/
example : (extract visAll accSum true t3 0 true).1.rows.map (fun r => (r.id, r.num)) = [(2, 0), (3, 1)] ∧
    (extract visAll accSum true t3 0 true).1.midx.map (·.groups) = [[⟨2, 6, []⟩, ⟨3, 7, []⟩]] ∧
    (createMulti visAll accSum t3 [1]).2 = 1 ∧
    select visAll accSum 6 (createMulti visAll accSum t3 [1]).1 [(1, 1)] (fun _ => true) = [1, 3] ∧
    (createUnique visAll accSum t3 [0]).2 = .error 2 := by decide

open C07ex in
/-- a valid history (indexes created before and after the data, a refused add, a column update that satisfies `NoF9`
because this hash table meets old entries first, a removal) and the state it leads to -/
example : ValidHist visAll accSum true {} [.createUnique [0, 1], .add ⟨1, 10, 0, [5, 1, 7]⟩ .none,
      .add ⟨2, 20, 0, [5, 2, 7]⟩ .none, .add ⟨3, 30, 0, [5, 2, 8]⟩ .none, .createMulti [0], .updateCol 1 1 3 .none,
      .extract 0 false] ∧
    (run visAll accSum true {} [.createUnique [0, 1], .add ⟨1, 10, 0, [5, 1, 7]⟩ .none,
      .add ⟨2, 20, 0, [5, 2, 7]⟩ .none, .add ⟨3, 30, 0, [5, 2, 8]⟩ .none, .createMulti [0], .updateCol 1 1 3 .none,
      .extract 0 false]).rows.map (fun r => (r.id, r.num, r.vals)) = [(2, 0, [5, 3, 7])] := by
  refine ⟨⟨by show List.Nodup _; decide, ⟨by decide, by decide⟩, ⟨by decide, by decide⟩, ⟨by decide, by decide⟩,
      by show List.Nodup _; decide, ⟨?_, ?_⟩, trivial, trivial⟩,
    by decide⟩
  · intro r hr
    have : (run visAll accSum true {} [.createUnique [0, 1], .add ⟨1, 10, 0, [5, 1, 7]⟩ .none,
      .add ⟨2, 20, 0, [5, 2, 7]⟩ .none, .add ⟨3, 30, 0, [5, 2, 8]⟩ .none, .createMulti [0]]).rows[1]? = some ⟨2, 20, 1, [5, 2, 7]⟩ := by
      decide
    have hr' : (run visAll accSum true {} [.createUnique [0, 1], .add ⟨1, 10, 0, [5, 1, 7]⟩ .none,
      .add ⟨2, 20, 0, [5, 2, 7]⟩ .none, .add ⟨3, 30, 0, [5, 2, 8]⟩ .none, .createMulti [0]]).rows[1]? = some r := hr
    rw [this] at hr'; rw [← Option.some.inj hr']; decide
  · intro r hr
    have : (run visAll accSum true {} [.createUnique [0, 1], .add ⟨1, 10, 0, [5, 1, 7]⟩ .none,
      .add ⟨2, 20, 0, [5, 2, 7]⟩ .none, .add ⟨3, 30, 0, [5, 2, 8]⟩ .none, .createMulti [0]]).rows[1]? = some ⟨2, 20, 1, [5, 2, 7]⟩ := by
      decide
    have hr' : (run visAll accSum true {} [.createUnique [0, 1], .add ⟨1, 10, 0, [5, 1, 7]⟩ .none,
      .add ⟨2, 20, 0, [5, 2, 7]⟩ .none, .add ⟨3, 30, 0, [5, 2, 8]⟩ .none, .createMulti [0]]).rows[1]? = some r := hr
    rw [this] at hr'; rw [← Option.some.inj hr']
    unfold NoF9; decide

open C07ex in
/-- projections of the three-row table -/
example : project visAll accSum t3 [0, 2] false (fun _ => true) = [[5, 7], [5, 7], [6, 7]] ∧
    project visAll accSum t3 [0, 2] true (fun _ => true) = [[5, 7], [6, 7]] ∧
    dedupFirst [] [[5, 7], [5, 7], [6, 7]] = [[5, 7], [6, 7]] := by decide

end Momo.Table

/-!
## Finding F9 at bucket level (refined index model `Momo/Model/TableIdx.lean`, lemmas `Momo/Proof/TableIdx{Find,Upd}.lean`)

The theorems above abstract the index hash tables to their lookup contract and therefore carry F9 as the hypothesis `NoF9`.
Here one unique hash index is the bucket-level hash table of C01 (`HT.Table`, any bucket description `bs.sp` with `SpecOK`, any
hash function `acc`, any fault value allowed by `FaultsOK`) holding entries `(entry identity, raw)`, with the lookups of
`HashSet::pvFind` spelled out as "first examined position whose stored short hash and whose raw's CURRENT values match"; the
single-column update runs the steps of `DataIndexes::UpdateRaw(raw, offset, item, assigner)` in their order. `IdxInv` = the C01
table invariant + entries = rows + every entry inserted under the hash code of its row's current key + rows pairwise different
on the index columns. Only the unique hash index is modelled at this level (the multi-hash index has the same two steps on a
`HashMultiMap`; not done).
-/
namespace Momo.TIdx
open Momo Momo.HT Momo.Table

/-- **C07 / F9 (a)**: starting from a consistent index, the single-column update (any answer of the memory manager that lets it
    complete) leaves the index consistent with the updated rows IF AND ONLY IF `PrepareRemove(raw)` did not settle on the entry
    `Add(hashMixedKey)` had just made (or the old and the new hash code are equal: the entries are then interchangeable);
    and it settles on the new entry exactly when the decidable layout condition `f9cond` holds in the table as `Add` left it:
    the new entry is examined before the old one on the OLD key's probe path (earlier bucket, or same bucket and earlier in the
    bucket's scan order) and its stored short hash equals the old hash code's short hash - the equality functor passes because
    both entries hold the same raw. -/
theorem C07_updcol_correct_iff (bs : BSpec) (acc : Acc) (st : Store) (u : UH) (raw col v : Nat) (f : Faults)
    (ok : SpecOK bs.sp) (hF : FaultsOK bs.sp f) (hI : IdxInv bs acc st u) (hraw : raw ∈ st.map (·.id))
    (u' : UH) (st' : Store) (hdone : updCol bs acc st u raw col v f = .done u' st')
    (eOld : Item) (hO : eOld ∈ traverse u.t) (hOv : eOld.val = raw) :
    (IdxInv bs acc st' u' ↔
      (remTarget bs acc st u raw col v f ≠ some u.next ∨ hOldOf acc st u raw = hNewOf acc st u raw col v)) ∧
    (remTarget bs acc st u raw col v f = some u.next ↔
      f9cond bs (t1Of bs acc st u raw col v f) (hOldOf acc st u raw) (hNewOf acc st u raw col v) eOld.key u.next = true) :=
  ⟨updcol_correct_iff bs acc st u raw col v f ok hF hI hraw u' st' hdone,
   remTarget_new_iff bs acc st u raw col v f ok hF hI hraw u' st' hdone eOld hO hOv⟩

/-- **C07 / F9 (c)**: a sufficient condition under which this code path is correct - so that a failure of a single-column
    update in a layout where it holds is NOT finding F9: the short hashes of the old and the new hash code differ, or the lookup
    of the old hash code does not examine the new entry at all (its bucket is not on the old key's probe path within the bound
    of the old key's home bucket), or it examines the old entry first. -/
theorem C07_updcol_safe_when_paths_disjoint (bs : BSpec) (acc : Acc) (st : Store) (u : UH) (raw col v : Nat) (f : Faults)
    (ok : SpecOK bs.sp) (hF : FaultsOK bs.sp f) (hI : IdxInv bs acc st u) (hraw : raw ∈ st.map (·.id))
    (u' : UH) (st' : Store) (hdone : updCol bs acc st u raw col v f = .done u' st')
    (eOld : Item) (hO : eOld ∈ traverse u.t) (hOv : eOld.val = raw)
    (hsafe : bs.short (hNewOf acc st u raw col v) ≠ bs.short (hOldOf acc st u raw) ∨
      visitRank bs (t1Of bs acc st u raw col v f) (hOldOf acc st u raw) u.next = none ∨
      before (visitRank bs (t1Of bs acc st u raw col v f) (hOldOf acc st u raw) u.next)
             (visitRank bs (t1Of bs acc st u raw col v f) (hOldOf acc st u raw) eOld.key) = false) :
    IdxInv bs acc st' u' := by
  apply updcol_safe bs acc st u raw col v f ok hF hI hraw u' st' hdone eOld hO hOv
  unfold f9cond
  rcases hsafe with h | h | h
  · have : (bs.short (hNewOf acc st u raw col v) == bs.short (hOldOf acc st u raw)) = false := by simpa using h
    rw [this]; rfl
  · rw [h]; simp [before]
  · rw [h]; simp

/-- **C07 / F9 (d)**: the stale state, exactly, with its frame. When `PrepareRemove` settled on the new entry, the update returns a
    hash set with the same entries as before the update, each still under the hash code it had (so the raw's only entry sits
    under the hash code of its OLD key while the row holds the new key - with different hash codes the index invariant is
    violated, by (a)); every OTHER row is still found by `Find(raw)` at its own entry (frame: nothing else is affected); and
    the updated row is found under its new key only in the accidental case that its old entry passes for the new key: equal
    short hashes and a position that the lookup of the NEW hash code examines (`visitRank ≠ none`) - otherwise lookups of the
    new key miss the row. -/
theorem C07_updcol_stale_state (bs : BSpec) (acc : Acc) (st : Store) (u : UH) (raw col v : Nat) (f : Faults)
    (ok : SpecOK bs.sp) (hF : FaultsOK bs.sp f) (hI : IdxInv bs acc st u) (hraw : raw ∈ st.map (·.id))
    (u' : UH) (st' : Store) (hdone : updCol bs acc st u raw col v f = .done u' st')
    (eOld : Item) (hO : eOld ∈ traverse u.t) (hOv : eOld.val = raw)
    (hf9 : remTarget bs acc st u raw col v f = some u.next) :
    (traverse u'.t).Perm (traverse u.t) ∧
    (∀ it ∈ traverse u'.t, u'.hs it.key = u.hs it.key) ∧
    (∀ it ∈ traverse u'.t, it.val = raw → u'.hs it.key = hOldOf acc st u raw) ∧
    (∀ id ∈ st.map (·.id), id ≠ raw →
      ∃ pos it, findRaw bs acc st' u' id = some pos ∧ itemAt bs.sp u'.t pos = some it ∧ it.val = id) ∧
    ((findRaw bs acc st' u' raw).isSome ↔
      ((bs.short (hOldOf acc st u raw) == bs.short (hNewOf acc st u raw col v)) = true ∧
        visitRank bs u'.t (hNewOf acc st u raw col v) eOld.key ≠ none)) := by
  obtain ⟨h1, h2, h3, h4⟩ := updcol_stale_state bs acc st u raw col v f ok hF hI hraw u' st' hdone eOld hO hOv hf9
  refine ⟨h1, h2, ?_, h3, h4⟩
  intro it hit hv
  have hin := h1.mem_iff.mp hit
  rw [h2 it hit, hI.stored it hin, hv]; rfl

namespace F9w
/-- the witness: 4 buckets of 3 slots (BucketOpen2N2<3>, 7-bit short hashes), index on column 0, hash code = the value.
    Rows 0..6 with values 0 4 8 (home bucket 0, full), 1 5 9 (bucket 1, full), 12 (home bucket 0, displaced over bucket 1 to
    bucket 3); then the row with value 5 is removed, so that bucket 1 has a free slot -/
def bs : BSpec := open2N2part 2
def acc : Acc := fun h _ v => h + v
def st0 : Store := [0, 4, 8, 1, 5, 9, 12].zipIdx.map (fun (v, i) => ⟨i, i, i, [v]⟩)
def st : Store := st0.filter (fun r => r.id != 4)
def u : UH := removeRaw bs acc st0 (buildIdx bs acc st0 [0] [0, 1, 2, 3, 4, 5, 6]) 4
/-- after `TryUpdate(row 6, column 0, 13)`: the row is not found under its new key, the other rows are, the entries and the hash
    codes they sit under are those from before the update (row 6 still under 12), the row itself holds 13 -/
def staleAfter : Bool :=
  match updCol bs acc st u 6 0 13 {} with
  | .done u' st' =>
    lookupVals bs acc st' u' [13] == none && lookupVals bs acc st' u' [12] == none &&
    [0, 4, 8, 1, 9].map (fun x => lookupVals bs acc st' u' [x]) == [some 0, some 1, some 2, some 3, some 5] &&
    (traverse u'.t).map (fun it => (it.val, u'.hs it.key)) == (traverse u.t).map (fun it => (it.val, u.hs it.key)) &&
    valsOf st' 6 == [13] && u'.hs 6 == 12
  | _ => false
end F9w

/-- **C07 / F9 (b)**: the kernel-checked replay of the finding. New key 13 has home bucket 1, which has a free slot; the lookup
    of the old key 12 walks bucket 0, then bucket 1, where it meets the entry just added (same raw, short hash 0 = 0) before it
    reaches the old entry in bucket 3: `PrepareRemove` settles on the new entry (`remTarget = some u.next`, `f9cond`), it is
    removed, and the row stays indexed under hash code 12 although its key is 13. -/
theorem C07_updcol_F9_witness :
    remTarget F9w.bs F9w.acc F9w.st F9w.u 6 0 13 {} = some F9w.u.next ∧
    f9cond F9w.bs (t1Of F9w.bs F9w.acc F9w.st F9w.u 6 0 13 {}) (hOldOf F9w.acc F9w.st F9w.u 6)
      (hNewOf F9w.acc F9w.st F9w.u 6 0 13) 6 F9w.u.next = true ∧
    hOldOf F9w.acc F9w.st F9w.u 6 ≠ hNewOf F9w.acc F9w.st F9w.u 6 0 13 ∧
    F9w.staleAfter = true := by
  refine ⟨by decide +kernel, by decide +kernel, by decide +kernel, by decide +kernel⟩

/-- non-vacuity: a one-row index (4 buckets of `BucketOpen2N2<3>`, the bucket kind of the DataTable indexes, which satisfies
    `SpecOK`) satisfies every hypothesis of the theorems above, the update of its row from 0 to 4 completes, and - both keys have
    home bucket 0, the bucket is scanned newest first, the short hashes are equal - `PrepareRemove` settles on the new entry:
    by (a) the index invariant is lost -/
example : SpecOK F9one.bs.sp ∧ FaultsOK F9one.bs.sp {} ∧ IdxInv F9one.bs F9one.acc F9one.st F9one.u ∧
    (0 ∈ F9one.st.map (·.id)) ∧
    ∃ u' st', updCol F9one.bs F9one.acc F9one.st F9one.u 0 0 4 {} = .done u' st' ∧
      ¬ IdxInv F9one.bs F9one.acc st' u' := by
  obtain ⟨u', st', hd⟩ := F9one.done
  refine ⟨open2N2part_ok 2, fun _ => rfl, F9one.inv, by decide, u', st', hd, ?_⟩
  intro hI'
  have h := (C07_updcol_correct_iff F9one.bs F9one.acc F9one.st F9one.u 0 0 4 {} (open2N2part_ok 2) (fun _ => rfl)
    F9one.inv (by decide) u' st' hd ⟨0, 0⟩ F9one.entry rfl).1.mp hI'
  have h1 : remTarget F9one.bs F9one.acc F9one.st F9one.u 0 0 4 {} = some F9one.u.next := by decide +kernel
  have h2 : hOldOf F9one.acc F9one.st F9one.u 0 ≠ hNewOf F9one.acc F9one.st F9one.u 0 0 4 := by decide +kernel
  rcases h with h | h
  · exact h h1
  · exact h2 h

end Momo.TIdx
