import Momo.Proof.StdWrapErase
import Momo.Proof.StdWrapEq
import Momo.Proof.StdWrapHint
import Momo.Proof.StdWrapFlags
import Momo.Proof.StdWOrdHist
import Momo.Proof.StdWVec
import Momo.Proof.StdWUnoHist
import Momo.Proof.StdWMmHist
import Momo.Proof.StdWNative
/-!
# C06 — stdish containers give the same answers as the std containers they replace

Property theorems only. Model: `Momo/Model/StdWrap.lean` (the decision logic the wrappers add on top
of the native containers); lemmas: `Momo/Proof/StdWrap*.lean`.

Statement (properties.jsonl): for every sequence of calls from the shared interface the momo container
returns the same results — inserted flags, found/not-found, counts, sorted positions including hinted
insertion and stable order of equivalent keys, bounds, positions returned by erase, node-handle
contents, `std::out_of_range` from `at()` — and ends with the same contents as the libstdc++
container; `==`, `!=` and the ordering operators agree with std. In particular `erase(first,last)`
removes exactly the elements of `[first,last)` and nothing else, and equality depends only on the
(multi)set of stored elements.

What is proved here (label: partial, see `C06_full`): everything the *wrappers* decide themselves.
The native containers the wrappers forward to are represented by their abstract specification
(C01, C02, C08 tie them to the code); agreement with libstdc++ on whole call histories is the
differential run of `harness/c06_*.cpp`, because libstdc++ has no formal model.
-/
namespace Momo.StdWrap
open List

/-- The full claim, kept visible: a wrapper and the libstdc++ container it replaces, driven by the
same call sequence over the shared interface, give equal observations. `Std` is a semantics of the
libstdc++ container (none exists as a formal object — this is why the statement stays a `def`);
`obs` runs a call sequence and lists the observable results and the final contents. -/
def C06_full (Call Obs : Type) (obsMomo obsStd : List Call → List Obs) (legal : List Call → Prop) : Prop :=
  ∀ calls, legal calls → obsMomo calls = obsStd calls

/-! ## `erase(first, last)` of the unordered wrappers -/

/-- **C06 eraseRange_exact (unordered_set, unordered_map).** For every container size, every pair
of iterators (lookup results included: `mv = false`) — whenever `erase(first,last)` does not throw,
the positions it removes are exactly those visited by `for (it = first; it != last; ++it)`, nothing
else; a throwing call removes nothing (`erasedU … invalid = []` by construction). -/
theorem C06_eraseRange_exact_set (n : Nat) (first last : It) (hf : first.pos ≤ n) (hl : last.pos ≤ n)
    (h : eraseRangeU n first last ≠ .invalid) :
    reachU n (n + 1) first last = some (erasedU n (eraseRangeU n first last)) :=
  eraseRangeU_exact' n first last hf hl h

/-- the documented legal ranges are accepted: empty, single element (also `erase(it, std::next(it))`
with `it` a lookup result), whole container -/
theorem C06_eraseRange_legal_set (n : Nat) (first last : It) :
    (first.pos = last.pos → eraseRangeU n first last = .unchanged) ∧
    (first.pos ≠ last.pos → first.pos < n → last.pos = (nextU n first).pos → eraseRangeU n first last = .one first.pos) ∧
    (0 < n → first = ⟨0, true⟩ → last.pos = n → eraseRangeU n first last = (if n = 1 then .one 0 else .all)) := by
  refine ⟨?_, ?_, ?_⟩
  · intro h; simp [eraseRangeU, h]
  · intro h1 h2 h3
    unfold eraseRangeU
    rw [if_neg h1, if_pos ⟨by omega, h3.symm⟩]
  · intro hn hf hl
    subst hf
    unfold eraseRangeU nextU
    by_cases h1 : n = 1
    · subst h1; simp [hl]
    · have : ¬ (0 = last.pos) := by omega
      simp only [this, if_false, if_true]
      have h2 : ¬ ((0 : Nat) ≠ n ∧ 0 + 1 = last.pos) := by omega
      rw [if_neg h2]; simp [hl, h1]

/-- **C06 eraseRange_exact (unordered_multimap).** `ks` = key of every flat traversal position,
equal keys adjacent (`Grouped`, the layout HashMultiMap guarantees). Whenever the call does not
throw, it removes exactly the positions the iterators enumerate from `first` to `last`; `RemoveKey`
(all values of the key) is chosen only when that enumeration is the whole key. -/
theorem C06_eraseRange_exact_multimap (ks : List Nat) (hg : Grouped ks) (first last : It)
    (hf : first.pos ≤ ks.length) (hl : last.pos ≤ ks.length)
    (h : eraseRangeMM ks first last ≠ .invalid) :
    reachMM ks (ks.length + 1) first last = some (erasedMM ks (eraseRangeMM ks first last)) :=
  eraseRangeMM_exact' ks hg first last hf hl h

/-- the documented legal ranges are accepted by the multimap: empty, single element, one whole key
(delimited by traversal iterators or by `equal_range`), whole container -/
theorem C06_eraseRange_legal_multimap (ks : List Nat) (first last : It) :
    (first.pos = last.pos → eraseRangeMM ks first last = .unchanged) ∧
    (first.pos ≠ last.pos → first.pos < ks.length → last.pos = (nextMM ks first).pos →
        eraseRangeMM ks first last = .one first.pos) ∧
    (first.pos < ks.length → isRunStart ks first.pos = true → last.pos = makeIterEnd ks first →
        eraseRangeMM ks first last ≠ .invalid) ∧
    (first.pos = 0 → last.pos = ks.length → eraseRangeMM ks first last ≠ .invalid) := by
  refine ⟨?_, ?_, ?_, ?_⟩
  · intro h; simp [eraseRangeMM, h]
  · intro h1 h2 h3
    unfold eraseRangeMM
    rw [if_neg h1, if_pos ⟨by omega, h3.symm⟩]
  · intro h1 h2 h3
    unfold eraseRangeMM
    split
    · simp
    · split
      · simp
      · rw [if_pos ⟨by omega, h2, h3⟩]; simp
  · intro h1 h2
    unfold eraseRangeMM
    split
    · simp
    · split
      · simp
      · split
        · simp
        · rw [if_pos ⟨h1, h2⟩]; simp

/-! ## `unordered_multimap::operator==` -/

/-- **C06 mm_eq_iff.** `a == b` iff the stored (key, value) pairs are equal as multisets — for all
tables with distinct keys, value-less keys included (they are ignored), any order of keys and of
values. -/
theorem C06_mm_eq_iff (a b : MM) (ha : (a.map (·.1)).Nodup) (hb : (b.map (·.1)).Nodup) :
    mmEq a b = true ↔ a.pairs.Perm b.pairs :=
  mm_eq_iff' a b ha hb

/-- **C06 equality of unordered_set / unordered_map.** With distinct keys on both sides `a == b` iff the
stored elements are the same set — elements compared with their own `==`, not only by `key_eq`. -/
theorem C06_uset_eq_iff (a b : List (Nat × Nat)) (ha : (a.map (·.1)).Nodup) (hb : (b.map (·.1)).Nodup) :
    usetEq a b = true ↔ a.Perm b :=
  usetEq_iff' a b ha hb

/-! ## hinted insertion of set / multiset / map / multimap -/

/-- **C06 hint_closest (multiset, multimap; `insert(hint, …)`, `emplace_hint`, `insert(hint, node)`).**
For every sorted sequence, every hint position and every key: the item is inserted at the valid
position (`lower_bound … upper_bound`) closest to the hint — the standard's rule —, at the hint itself
when the hint is valid; the set and the map wrapper decide identically; no other valid position is
closer; the sequence stays sorted (equivalent keys keep their relative order: `insertAt` moves nothing). -/
theorem C06_hint_closest (xs : List Item) (hs : Sorted xs) (h : Nat) (hl : h ≤ xs.length) (x : Item) :
    setInsertHint true xs h x = (insertAt xs (clamp h (lb x.1 xs) (ub x.1 xs)) x, clamp h (lb x.1 xs) (ub x.1 xs), true)
    ∧ mapInsert true xs (some h) x = setInsertHint true xs h x
    ∧ lb x.1 xs ≤ clamp h (lb x.1 xs) (ub x.1 xs) ∧ clamp h (lb x.1 xs) (ub x.1 xs) ≤ ub x.1 xs
    ∧ (lb x.1 xs ≤ h → h ≤ ub x.1 xs → clamp h (lb x.1 xs) (ub x.1 xs) = h)
    ∧ (∀ p, lb x.1 xs ≤ p → p ≤ ub x.1 xs →
         (if h ≤ clamp h (lb x.1 xs) (ub x.1 xs) then clamp h (lb x.1 xs) (ub x.1 xs) - h else h - clamp h (lb x.1 xs) (ub x.1 xs))
           ≤ (if h ≤ p then p - h else h - p))
    ∧ Sorted (setInsertHint true xs h x).1 := by
  have hlu := lb_le_ub x.1 xs
  have hc : setInsertHint true xs h x = (insertAt xs (clamp h (lb x.1 xs) (ub x.1 xs)) x, clamp h (lb x.1 xs) (ub x.1 xs), true) := by
    unfold setInsertHint
    rw [checkHint_multi xs hs h x.1 hl]
    by_cases hu : ub x.1 xs < h
    · have : clamp h (lb x.1 xs) (ub x.1 xs) = ub x.1 xs := by unfold clamp; omega
      simp [hu, treeInsert, treeFind_multi, this]
    · have : clamp h (lb x.1 xs) (ub x.1 xs) = max h (lb x.1 xs) := by unfold clamp; omega
      simp [hu, this]
  have hb1 : lb x.1 xs ≤ clamp h (lb x.1 xs) (ub x.1 xs) := by unfold clamp; omega
  have hb2 : clamp h (lb x.1 xs) (ub x.1 xs) ≤ ub x.1 xs := by unfold clamp; omega
  refine ⟨hc, mapInsert_hint true xs h x, hb1, hb2, ?_, ?_, ?_⟩
  · intro a b; unfold clamp; omega
  · intro p hp1 hp2; unfold clamp; split <;> split <;> omega
  · rw [hc]; exact insertAt_sorted xs hs x _ hb1 hb2

/-- un-hinted insertion into multiset / multimap: behind the last equivalent item (`upper_bound`),
which is where libstdc++'s `_M_insert_equal` puts it — the stable order of equivalent keys -/
theorem C06_insert_equal_stable (xs : List Item) (hs : Sorted xs) (x : Item) :
    treeInsert true xs x = (insertAt xs (ub x.1 xs) x, ub x.1 xs, true) ∧ Sorted (treeInsert true xs x).1 := by
  have h : treeInsert true xs x = (insertAt xs (ub x.1 xs) x, ub x.1 xs, true) := by
    simp [treeInsert, treeFind_multi]
  exact ⟨h, by rw [h]; exact insertAt_sorted xs hs x _ (lb_le_ub x.1 xs) (Nat.le_refl _)⟩

/-- **C06 inserted flags (set, map: `insert`, `emplace`, `emplace_hint`, `try_emplace`, `insert(node)`,
each with no hint or ANY hint).** With distinct keys the outcome does not depend on the hint: if an
item with the key exists nothing changes, the flag is `false` and the position is that item's; else the
item goes to the only valid position, flag `true`; the sequence stays strictly sorted. -/
theorem C06_hint_unique (xs : List Item) (hs : StrictSorted xs) (hint : Option Nat)
    (hl : ∀ h, hint = some h → h ≤ xs.length) (x : Item) :
    mapInsert false xs hint x =
      (if lb x.1 xs < ub x.1 xs then (xs, lb x.1 xs, false) else (insertAt xs (lb x.1 xs) x, lb x.1 xs, true))
    ∧ (∀ h, hint = some h → setInsertHint false xs h x = mapInsert false xs hint x)
    ∧ treeInsert false xs x = mapInsert false xs none x
    ∧ (lb x.1 xs < ub x.1 xs ↔ ∃ e ∈ xs, e.1 = x.1)
    ∧ StrictSorted (mapInsert false xs hint x).1 := by
  have hsr := strict_sorted xs hs
  have hlu := lb_le_ub x.1 xs
  have hnone : mapInsert false xs none x =
      (if lb x.1 xs < ub x.1 xs then (xs, lb x.1 xs, false) else (insertAt xs (lb x.1 xs) x, lb x.1 xs, true)) := by
    unfold mapInsert mapFind
    simp only [treeFind_unique xs hs x.1]
    split <;> simp
  have htree : treeInsert false xs x = mapInsert false xs none x := by
    unfold treeInsert mapInsert mapFind; rfl
  have hmain : mapInsert false xs hint x =
      (if lb x.1 xs < ub x.1 xs then (xs, lb x.1 xs, false) else (insertAt xs (lb x.1 xs) x, lb x.1 xs, true)) := by
    cases hint with
    | none => exact hnone
    | some h =>
      rw [mapInsert_hint]
      unfold setInsertHint
      rw [checkHint_unique xs hs h x.1 (hl h rfl)]
      by_cases hv : h ≤ lb x.1 xs ∧ ub x.1 xs ≤ h
      · have e1 : h = lb x.1 xs := by omega
        simp [hv, ← e1]
      · simp only [hv, if_false]
        rw [htree, hnone]
  refine ⟨hmain, ?_, htree, present_iff xs hsr x.1, ?_⟩
  · intro h hh; subst hh; rw [mapInsert_hint]
  · rw [hmain]
    by_cases hp : lb x.1 xs < ub x.1 xs
    · simp [hp]; exact hs
    · simp only [hp, if_false]
      exact insertAt_strict xs hs x _ (by omega) (Nat.le_refl _)

/-- **C06 bounds / equal_range.** The shortcut `set::equal_range` / `map::equal_range` take for unique keys
(`{it, next(it)}` instead of a second search) returns the pair (lower_bound, upper_bound) — the answer
of libstdc++ — for every strictly sorted sequence and key; the multi variants return the two bounds directly. -/
theorem C06_equal_range (xs : List Item) (hs : StrictSorted xs) (k : Nat) :
    ordEqualRange false xs k = (lb k xs, ub k xs) ∧ ordEqualRange true xs k = (lb k xs, ub k xs) :=
  ⟨ordEqualRange_spec xs hs k, by simp [ordEqualRange]⟩

/-- **C06 node-handle contents (set, map; `insert(node)`, `insert(hint, node)` with ANY hint).** With
distinct keys: if the key is present nothing changes, the position is the existing element's and the
handle still holds the element (libstdc++: "unchanged if the insertion fails"); else the element is
inserted at its sorted position and the handle is empty. The set and the map wrapper agree; an empty
handle yields `end()` and changes nothing. -/
theorem C06_node_handle (xs : List Item) (hs : StrictSorted xs) (h : Nat) (hl : h ≤ xs.length) (x : Item) :
    setInsertNodeHint false xs h (some x) =
      (if lb x.1 xs < ub x.1 xs then (xs, lb x.1 xs, some x) else (insertAt xs (lb x.1 xs) x, lb x.1 xs, none))
    ∧ mapInsertNodeHint false xs h (some x) = setInsertNodeHint false xs h (some x)
    ∧ insertNode false xs (some x) =
      (if lb x.1 xs < ub x.1 xs then (xs, lb x.1 xs, false, some x) else (insertAt xs (lb x.1 xs) x, lb x.1 xs, true, none))
    ∧ setInsertNodeHint false xs h none = (xs, xs.length, none)
    ∧ mapInsertNodeHint false xs h none = (xs, xs.length, none)
    ∧ insertNode false xs none = (xs, xs.length, false, none) := by
  have hlu := lb_le_ub x.1 xs
  have hset : setInsertNodeHint false xs h (some x) =
      (if lb x.1 xs < ub x.1 xs then (xs, lb x.1 xs, some x) else (insertAt xs (lb x.1 xs) x, lb x.1 xs, none)) := by
    unfold setInsertNodeHint
    simp only [checkHint_unique xs hs h x.1 hl]
    by_cases hv : h ≤ lb x.1 xs ∧ ub x.1 xs ≤ h
    · have e1 : h = lb x.1 xs := by omega
      have e2 : ¬ lb x.1 xs < ub x.1 xs := by omega
      rw [if_pos hv, if_neg e2, ← e1]
    · rw [if_neg hv]
      simp only [insertNode_unique xs hs x]
      split <;> simp
  refine ⟨hset, ?_, insertNode_unique xs hs x, rfl, rfl, rfl⟩
  rw [hset]
  unfold mapInsertNodeHint
  simp only [mapFind_hint, checkHint_unique xs hs h x.1 hl]
  by_cases hv : h ≤ lb x.1 xs ∧ ub x.1 xs ≤ h
  · have e1 : h = lb x.1 xs := by omega
    have e2 : ¬ lb x.1 xs < ub x.1 xs := by omega
    rw [if_pos hv, if_neg e2, ← e1]; simp
  · rw [if_neg hv]
    simp only [treeFind_unique xs hs x.1]
    split <;> simp

/-! ## `at`, `try_emplace`, `insert_or_assign` -/

/-- **C06 `map::at`.** `std::out_of_range` is thrown iff no item has the key; `find` returns the item's
rank or `end()` -/
theorem C06_map_at (xs : List Item) (hs : Sorted xs) (k : Nat) :
    (mapAt xs k = none ↔ ¬ ∃ e ∈ xs, e.1 = k) ∧
    ordFind xs k = (if lb k xs < ub k xs then lb k xs else xs.length) :=
  ⟨mapAt_none_iff xs hs k, ordFind_spec xs hs k⟩

/-- **C06 `map::insert_or_assign` (no hint or any hint).** Key absent: inserted at its sorted position,
flag `true`. Key present: flag `false`, the position of the existing item, and only its mapped value
changes. Afterwards `at(k)` yields the new value. -/
theorem C06_map_insert_or_assign (xs : List Item) (hs : StrictSorted xs) (hint : Option Nat)
    (hl : ∀ h, hint = some h → h ≤ xs.length) (k v : Nat) :
    mapInsertOrAssign xs hint (k, v) =
      (if lb k xs < ub k xs then (xs.set (lb k xs) (k, v), lb k xs, false)
       else (insertAt xs (lb k xs) (k, v), lb k xs, true)) := by
  have hsr := strict_sorted xs hs
  unfold mapInsertOrAssign
  have := (C06_hint_unique xs hs hint hl (k, v)).1
  simp only at this
  rw [this]
  by_cases hp : lb k xs < ub k xs
  · simp [hp, keyAt_lb_present xs hsr k hp]
  · simp [hp]

/-- **C06 `unordered_map::try_emplace` / `emplace` / `insert`.** flag = key was absent; a present key
keeps its value; every other key keeps its lookup result -/
theorem C06_umap_try_emplace (m : List Item) (k v : Nat) :
    ((umapTryEmplace m k v).2 = true ↔ m.lookup k = none) ∧
    (umapTryEmplace m k v).1.lookup k = some ((m.lookup k).getD v) ∧
    (∀ k', k' ≠ k → (umapTryEmplace m k v).1.lookup k' = m.lookup k') := by
  unfold umapTryEmplace
  cases h : m.lookup k with
  | some w => simp [h]
  | none =>
    refine ⟨by simp, ?_, ?_⟩
    · simp [lookup_append_single, h]
    · intro k' hk
      simp only [lookup_append_single, hk, if_false]
      cases m.lookup k' <;> rfl

/-- **C06 `unordered_map::insert_or_assign`, `at`.** flag = key was absent; afterwards the key maps to
the new value; every other key keeps its lookup result; `at` throws iff the key is absent -/
theorem C06_umap_insert_or_assign (m : List Item) (k v : Nat) :
    ((umapInsertOrAssign m k v).2 = true ↔ m.lookup k = none) ∧
    umapAt (umapInsertOrAssign m k v).1 k = some v ∧
    (∀ k', k' ≠ k → umapAt (umapInsertOrAssign m k v).1 k' = umapAt m k') ∧
    (umapAt m k = none ↔ k ∉ m.map (·.1)) := by
  unfold umapInsertOrAssign umapTryEmplace umapAt
  refine ⟨?_, ?_, ?_, ?_⟩
  · cases h : m.lookup k <;> simp
  · cases h : m.lookup k with
    | some w => simp [lookup_assign, h]
    | none => simp [lookup_append_single, h]
  · intro k' hk
    cases h : m.lookup k with
    | some w => simp [lookup_assign, hk]
    | none =>
      simp only [if_true, lookup_append_single, hk, if_false]
      cases m.lookup k' <;> rfl
  · rw [lookup_eq_none_iff]
    constructor
    · intro h hm
      obtain ⟨e, he, hk⟩ := mem_map.mp hm
      have := h e he
      simp [hk] at this
    · intro h e he
      simp only [bne_iff_ne, ne_eq]
      intro hk; exact h (mem_map.mpr ⟨e, he, hk.symm⟩)

/-! ## Non-vacuity: concrete states meeting the hypotheses, and the witnesses of the repaired defects -/

-- set {a,b,c,d,e}: erase(find(first element), end()) removes one element (F5: the pre-repair order of tests cleared all)
example : eraseRangeU 5 ⟨0, false⟩ ⟨5, false⟩ = .one 0 := by decide
example : reachU 5 6 ⟨0, false⟩ ⟨5, false⟩ = some [0] := by decide
example : eraseRangeU 5 ⟨0, true⟩ ⟨5, true⟩ = .all ∧ reachU 5 6 ⟨0, true⟩ ⟨5, true⟩ = some [0,1,2,3,4] := by decide
example : eraseRangeU 5 ⟨1, true⟩ ⟨3, true⟩ = .invalid := by decide
-- multimap with keys 7,7,7,2,9,9: whole key through equal_range (lookup result … end()) and through traversal
example : Grouped [7,7,7,2,9,9] := grouped_of_groupedB _ (by decide)
example : eraseRangeMM [7,7,7,2,9,9] ⟨0, false⟩ ⟨6, false⟩ = .key 0 ∧
          erasedMM [7,7,7,2,9,9] (.key 0) = [0,1,2] ∧
          reachMM [7,7,7,2,9,9] 7 ⟨0, false⟩ ⟨6, false⟩ = some [0,1,2] := by decide
example : eraseRangeMM [7,7,7,2,9,9] ⟨4, true⟩ ⟨6, true⟩ = .key 4 := by decide
-- a range that starts inside a key group is refused …
example : eraseRangeMM [7,7,7,2,9,9] ⟨1, true⟩ ⟨3, true⟩ = .invalid := by decide
-- … whereas the code before the repair removed the whole key, i.e. position 0 outside [first,last)
example : eraseRangeMM_old [7,7,7,2,9,9] ⟨1, true⟩ ⟨3, true⟩ = .key 1 ∧
          erasedMM [7,7,7,2,9,9] (.key 1) = [0,1,2] ∧
          reachMM [7,7,7,2,9,9] 7 ⟨1, true⟩ ⟨3, true⟩ = some [1,2] := by decide
-- F4: a value-less key (1 ↦ []) does not disturb equality
example : mmEq [(1, []), (2, [20, 21])] [(2, [21, 20])] = true := by decide
example : mmEq [(2, [20, 21])] [(2, [21, 22])] = false := by decide
-- F24: {(1,10)} vs {(1,11)} with key_eq on the first component: unequal now, "equal" before the repair
example : usetEq [(1,10)] [(1,11)] = false ∧ usetEq_old [(1,10)] [(1,11)] = true := by decide
example : usetEq [(1,10),(2,20)] [(2,20),(1,10)] = true := by decide
-- F25: a refused hinted node insertion keeps the element in the handle
example : setInsertNodeHint false [(1,0),(2,0),(3,0)] 0 (some (2,9)) = ([(1,0),(2,0),(3,0)], 1, some (2,9)) := by decide
-- hints on a multiset 1 3 3 5: valid hint, hint too far right, hint too far left
example : (setInsertHint true [(1,0),(3,1),(3,2),(5,3)] 2 (3,9)).2.1 = 2 := by decide
example : (setInsertHint true [(1,0),(3,1),(3,2),(5,3)] 4 (3,9)).2.1 = 3 := by decide
example : (setInsertHint true [(1,0),(3,1),(3,2),(5,3)] 0 (3,9)).2.1 = 1 := by decide
example : Sorted [(1,0),(3,1),(3,2),(5,3)] := by simp [Sorted]
example : StrictSorted [(1,10),(3,30),(5,50)] := by simp [StrictSorted]
example : mapInsertOrAssign [(1,10),(3,30),(5,50)] (some 0) (3,31) = ([(1,10),(3,31),(5,50)], 1, false) := by decide
example : mapAt [(1,10),(3,30),(5,50)] 4 = none ∧ mapAt [(1,10),(3,30),(5,50)] 5 = some 50 := by decide

end Momo.StdWrap


/-! # Whole call histories: the wrapper model refines the specification of the std containers

`Momo/Model/StdSpec.lean` is a hand-written formal specification of `std::set / multiset / map / multimap`, `std::vector`,
`std::unordered_set / unordered_map / unordered_multimap` as the C++ standard describes them (sorted sequence, stable for
equivalent keys, hinted insertion as close as possible to the hint; list; finite (multi)map with canonicalised observations). `Momo/Model/StdWrapOps.lean`
models every operation of the momo::stdish wrappers as written in the headers, over the abstract states of the native
containers (their contracts are C01 / C02 / C05 / C08). The theorems below close, INSIDE the model, the gap `C06_full` names:
for every legal call history the wrapper model and the specification produce the same list of observations (inserted
flags, positions, counts, bounds, erase results, node-handle contents, `out_of_range`, the six comparison results, full
traversals) — hence also the same contents, since `contents` is a call.

What stays differential (T2, not a theorem): "libstdc++ implements `StdSpec`" — checked on every run by
`harness/c06_hist.cpp`, which replays the calls made on libstdc++ on the specification (suites `hist_*_spec`), and
"momo::stdish is what `StdWrapOps` says" — suites `hist_*_wrap`. PARTIAL, because these parts of the shared interface are
not calls of the model: allocator propagation and unequal allocators (the histories run with equal allocators), the bucket
interface proper (`bucket`, `bucket_size`, `bucket_count`, local iterators, `load_factor` values), `capacity` values,
`max_size`, `key_comp` / `hash_function`, heterogeneous lookup, self-assignment / self-merge, and C++20 ranges / three-way
comparison (property level only: `harness/c06_api.cpp`). Calls of the model since the coverage round: construction from a
range / an initializer list, `rbegin … rend`, `reserve` / `rehash` / `max_load_factor(z)` (unordered; the wrapper REBUILDS the
table for a new load factor, `rebuild_eq`), `reserve` / `shrink_to_fit` (vector). One abstract call stands for all its C++
spellings (lvalue / rvalue / convertible-pair `insert`, `emplace` with arguments / a pair / `std::piecewise_construct`,
`const key_type&` / `key_type&&`, `erase(iterator)` / `erase(const_iterator)`, const / non-const lookups). Unordered range erase is covered for the documented shapes only (the others are a
documented deviation, outside the property). -/
namespace Momo.StdW
open Momo.StdSpec

/-- **C06 history, ordered containers (`set`, `multiset`, `map`, `multimap`: `kd.multi`, `kd.isMap`).** For every list of
calls from the shared interface — insert / emplace (value, hint, range, initializer list, node handle, hinted node handle),
`try_emplace`, `insert_or_assign`, `operator[]`, `at`, erase (key, iterator, iterator range, `erase_if`), extract (key,
iterator), merge, find, count, contains, lower_bound, upper_bound, equal_range, clear, size, empty, swap, copy / move
assignment and construction, construction from a range / an initializer list, assignment from an initializer list,
`== != < <= > >=`, traversal forwards and backwards (`rbegin … rend`) — that is legal (`ordLegal`:
every iterator argument denotes a position of the current sequence, erased / extracted positions are dereferenceable,
`first` is not behind `last`, the `map`-only members are called on `map` only): the wrapper model and the specification
give the same observations, call by call. -/
theorem C06_history_ordered (kd : Kind) (calls : List OCall) (hl : ordLegal kd calls = true) :
    ordRunWrap kd calls = ordRunSpec kd calls :=
  runWrapO_eq kd calls {} (invO_init kd) hl

/-- one call of an ordered container, from any pair of sorted containers: same new state, same observation, order kept -/
theorem C06_step_ordered (kd : Kind) (s : St) (hi : InvO kd s) (c : OCall) (hl : c.legal kd s = true) :
    wrapO kd s c = c.spec kd s ∧ InvO kd (c.spec kd s).1 :=
  wrapO_refines kd s hi c hl

/-- **C06 history, `vector`.** push_back / emplace_back, pop_back, insert (value, n copies, range / initializer list),
emplace, erase (iterator, range, by value), resize (both), assign (n copies, range / list), `at` (with `std::out_of_range`),
`operator[]`, front, back, clear, size, empty, swap, copy / move, construction `vector(n[, value])` / from a range / a list,
`reserve`, `shrink_to_fit`, the six comparisons, traversal forwards and backwards: every legal history
gives the same observations on the wrapper model and on the specification. -/
theorem C06_history_vector (calls : List VCall) (hl : vecLegal calls = true) : vecRunWrap calls = vecRunSpec calls :=
  runWrapV_eq calls {} hl

/-- **C06 history, `unordered_set` / `unordered_map`.** For EVERY way the native hash table may order its elements —
an oracle `ρ` re-arranges both tables after every call — and every legal history (iterator arguments denote present
elements; range erase limited to the documented empty / single-element / whole-container ranges, with `first` obtained by
traversal or as a lookup result): same observations as the specification, whose observations do not depend on any order
(lookups report the element, traversals are canonicalised, `==` is equality of the element multisets). Includes
construction from a range / an initializer list, `reserve`, `rehash` and `max_load_factor(z)` (which re-inserts every element
into a new table). -/
theorem C06_history_unordered_unique (isMap : Bool) (ρ : Nat → List (Nat × Nat) → List (Nat × Nat))
    (hρ : Rearranges ρ) (calls : List UCall) (hl : unoLegal isMap calls = true) :
    unoRunWrap ρ calls = unoRunSpec calls :=
  runWrapU_eq ρ hρ isMap calls 0 {} {} relU_init hl

/-- **C06 history, `unordered_multimap`.** The native table key -> value array (distinct keys; a key may stay without
values after `erase_if`; the key order re-arranged by an oracle after every call) against the multiset of pairs: insert /
emplace (plain, hinted, range, list), find, count, contains, equal_range (traversed), erase by key / iterator / `erase_if`,
`erase(first, last)` for the documented ranges — empty, one element (by traversal or through a lookup result), one whole
key (by traversal iterators or by `equal_range`), the whole container —, clear, size, empty, swap, copy / move, `==` / `!=`,
traversal: every legal history gives the same observations; in particular value-less keys are never observable. -/
theorem C06_history_unordered_multimap (ρ : Nat → Momo.StdWrap.MM → Momo.StdWrap.MM) (hρ : RearrangesM ρ)
    (calls : List MCall) (hl : mmLegal calls = true) : mmRunWrap ρ calls = mmRunSpec calls :=
  runWrapM_eq ρ hρ calls 0 {} {} relM_init hl

/-- **The native contract used for TreeSet / TreeMap is C02's reference semantics.** What the wrapper model assumes of the
native tree — lower / upper bound and the stable insertion `treeInsert` on the in-order list — is `Momo.BTree.lowerIdx`,
`upperIdx` and `Spec.insert1` for the order "compare the keys" (which satisfies `Order`), i.e. exactly what
`C02_bounds` / `C02_insert_stable` / `C02_history` prove the real B-tree model refines; the order invariant of the history
theorem is C02's `SortedBy`. -/
theorem C06_native_contract_is_C02_reference (multi : Bool) (xs : List (Nat × Nat)) (hs : SortedK multi xs) (x : Nat × Nat) :
    Momo.BTree.Order keyLt ∧ Momo.BTree.SortedBy keyLt multi xs ∧
    Momo.StdWrap.lb x.1 xs = Momo.BTree.lowerIdx keyLt xs x ∧ Momo.StdWrap.ub x.1 xs = Momo.BTree.upperIdx keyLt xs x ∧
    (Momo.StdWrap.treeInsert multi xs x).1 = Momo.BTree.Spec.insert1 keyLt multi xs x :=
  ⟨keyLt_order, (sortedK_iff_sortedBy multi xs).mp hs, lb_eq_lowerIdx xs x, ub_eq_upperIdx xs x,
   treeInsert_eq_insert1 multi xs hs x⟩

/-- **`C06_full`, instantiated with the specification as the semantics of the std containers**, for all eight container
kinds (the statement of `C06_full` with `obsStd` := the observations of `StdSpec`). -/
theorem C06_history_vs_spec :
    (∀ kd : Kind, Momo.StdWrap.C06_full OCall Obs (ordRunWrap kd) (ordRunSpec kd) (fun cs => ordLegal kd cs = true)) ∧
    Momo.StdWrap.C06_full VCall Obs vecRunWrap vecRunSpec (fun cs => vecLegal cs = true) ∧
    (∀ (isMap : Bool) (ρ : Nat → List (Nat × Nat) → List (Nat × Nat)), Rearranges ρ →
      Momo.StdWrap.C06_full UCall Obs (unoRunWrap ρ) unoRunSpec (fun cs => unoLegal isMap cs = true)) ∧
    (∀ (ρ : Nat → Momo.StdWrap.MM → Momo.StdWrap.MM), RearrangesM ρ →
      Momo.StdWrap.C06_full MCall Obs (mmRunWrap ρ) mmRunSpec (fun cs => mmLegal cs = true)) :=
  ⟨fun kd cs h => C06_history_ordered kd cs h, fun cs h => C06_history_vector cs h,
   fun isMap ρ hρ cs h => C06_history_unordered_unique isMap ρ hρ cs h,
   fun ρ hρ cs h => C06_history_unordered_multimap ρ hρ cs h⟩

/-! ## Non-vacuity: long legal histories -/

/-- multiset: duplicates, hints left of / inside / right of the equal range, range insert, node handles (plain and hinted,
into the other container), range erase (proper, empty), merge, comparisons, swap, erase by key, copy, move, `erase_if` -/
def exHistMultiset : List OCall := [
  .insert .a (3, 1), .insert .a (3, 2), .emplace .a (1, 3), .insertHint .a 0 (3, 4), .insertHint .a 4 (3, 5),
  .emplaceHint .a 2 (3, 6), .insertHint .a 0 (9, 7), .insertRange .b [(3, 8), (2, 9), (3, 10)], .contents .a,
  .equalRange .a 3, .count .a 3, .find .a 3, .lowerBound .a 2, .upperBound .a 3,
  .extractAt .a 2, .insertNodeHint .b 0, .extractKey .a 3, .insertNode .b, .insertNode .b,
  .eraseRange .a 1 3, .eraseRange .a 2 2, .contents .a, .contents .b, .merge .a, .compare, .swap, .eraseKey .b 3,
  .eraseAt .b 0, .assignCopy .b, .compare, .assignMove .a, .eraseIf .a 2 1, .contents .a, .contents .b, .size .a, .empty .b,
  -- reverse traversal, construction from a range / an initializer list
  .rcontents .a, .constructRange .b [(3, 1), (1, 2), (3, 3)], .constructList .a [(2, 5), (2, 6)], .rcontents .b, .contents .a]

example : ordLegal ⟨true, false⟩ exHistMultiset = true := by decide
-- the sequence after the hinted insertions: 3:4 went to the lower bound, 3:6 to the hint inside the range, 3:5 to its end
example : (ordRunSpec ⟨true, false⟩ exHistMultiset)[8]? = some (.items [(1, 3), (3, 4), (3, 6), (3, 1), (3, 2), (3, 5), (9, 7)]) := by
  decide
example : ordRunWrap ⟨true, false⟩ exHistMultiset = ordRunSpec ⟨true, false⟩ exHistMultiset :=
  C06_history_ordered _ _ (by decide)

/-- map: refused insertions with and without hints, `try_emplace`, `insert_or_assign`, `operator[]`, `at` on a missing key,
a refused node that stays in the handle, a refused hinted node, range erase, merge leaving the duplicates behind -/
def exHistMap : List OCall := [
  .insert .a (5, 50), .insert .a (5, 51), .insertHint .a 0 (2, 20), .insertHint .a 2 (2, 21), .tryEmplace .a none (7, 70),
  .tryEmplace .a (some 0) (7, 71), .insertOrAssign .a none (5, 55), .insertOrAssign .a (some 3) (9, 90), .index .a 4,
  .indexAssign .a 4 44, .at .a 4, .at .a 6, .insertList .b [(5, 1), (6, 2), (5, 3)], .extractKey .b 5, .insertNode .a,
  .insertNodeHint .a 0, .dropNode, .extractAt .b 0, .insertNodeHint .a 5, .contents .a, .eraseRange .a 1 3, .merge .b,
  .contents .a, .contents .b, .compare, .equalRange .b 9, .count .b 8, .contains .b 9, .constructMove .a, .compare]

example : ordLegal ⟨false, true⟩ exHistMap = true := by decide
example : ordRunWrap ⟨false, true⟩ exHistMap = ordRunSpec ⟨false, true⟩ exHistMap :=
  C06_history_ordered _ _ (by decide)
-- the refused node handle keeps its element (plain and hinted), `at(6)` throws
example : (ordRunSpec ⟨false, true⟩ exHistMap)[14]? = some (.posNode 2 false (some (5, 1))) ∧
          (ordRunSpec ⟨false, true⟩ exHistMap)[15]? = some (.posNode 2 false (some (5, 1))) ∧
          (ordRunSpec ⟨false, true⟩ exHistMap)[11]? = some .outOfRange := by decide

def exHistVector : List VCall := [
  .pushBack .a 1, .pushBack .a 2, .insert .a 1 9, .insertN .a 0 2 7, .insertN .a 3 0 5, .insertRange .a 5 [4, 4],
  .eraseRange .a 2 2, .eraseAt .a 0, .at .a 6, .at .a 5, .resize .a 8, .resizeVal .b 2 3, .compare, .swap, .popBack .b,
  .eraseVal .b 4, .assignN .a 3 1, .front .b, .back .b, .assignMove .a, .contents .a, .contents .b,
  .rcontents .a, .constructN .b 3 4, .constructRange .a [5, 6], .reserve .a 10, .shrinkToFit .a, .rcontents .a, .contents .b]

example : vecLegal exHistVector = true := by decide
example : vecRunWrap exHistVector = vecRunSpec exHistVector := C06_history_vector _ (by decide)

/-- unordered_map: refused insertions, `insert_or_assign`, `operator[]`, erase through a lookup iterator, the three legal
range shapes (single element through a lookup result and by traversal, whole container), node handles, merge, `==` -/
def exHistUmap : List UCall := [
  .insert .a (5, 50), .insert .a (5, 51), .emplaceHint .a (2, 20), .tryEmplace .a true (2, 21), .insertOrAssign .a false (5, 55),
  .index .a 4, .indexAssign .a 4 44, .at .a 6, .insertList .b [(5, 1), (6, 2), (5, 3)], .extractKey .b 5, .insertNode .a,
  .insertNodeHint .a, .eraseRange .a (.single 2 false), .eraseRange .b (.single 6 true), .eraseRange .b .empty,
  .insert .b (4, 44), .insert .b (5, 55), .compare, .eraseElem .a 4, .merge .a, .contents .a, .contents .b,
  .eraseRange .a .whole, .compare, .size .a,
  -- the table is rebuilt by max_load_factor(z), re-bucketed by rehash / reserve; construction from a range / a list
  .insert .a (1, 1), .insert .a (2, 2), .maxLoadFactor .a, .rehash .a 50, .reserve .b 9, .contents .a,
  .constructRange .b [(1, 5), (1, 6), (2, 7)], .constructList .a [(3, 3)], .contents .a, .contents .b]

example : unoLegal true exHistUmap = true := by decide
/-- an oracle that reverses both tables after every call -/
example : unoRunWrap (fun _ xs => xs.reverse) exHistUmap = unoRunSpec exHistUmap :=
  C06_history_unordered_unique true _ (fun _ xs => List.reverse_perm xs) _ (by decide)

/-- unordered_multimap: equal keys, `erase_if` leaving a value-less key, `==` afterwards, the four range shapes (single
through a lookup result, whole key by `equal_range` and by traversal, whole container), erase through an iterator -/
def exHistUmmap : List MCall := [
  .insert .a (1, 10), .insert .a (1, 11), .emplaceHint .a (2, 20), .insert .a (1, 12), .insertList .b [(2, 20), (1, 12), (1, 10)],
  .count .a 1, .equalRange .a 1, .eraseRange .a (.single (1, 11) false), .compare, .eraseIf .a 2 0, .contents .a,
  .eraseKey .b 2, .compare, .find .a 2, .insert .a (3, 30), .insert .a (3, 31), .eraseRange .a (.wholeKey 3 false),
  .eraseRange .a (.wholeKey 1 true), .size .a, .empty .a, .assignCopy .a, .eraseElem .a (1, 10), .eraseRange .a .empty,
  .contents .a, .eraseRange .a .whole, .size .a,
  .constructRange .a [(1, 1), (1, 2), (2, 1)], .constructList .b [(2, 2)], .contents .a, .compare]

example : mmLegal exHistUmmap = true := by decide
/-- an oracle that reverses the key entries of both tables after every call -/
example : mmRunWrap (fun _ m => m.reverse) exHistUmmap = mmRunSpec exHistUmmap :=
  C06_history_unordered_multimap _ (fun _ m => List.reverse_perm m) _ (by decide)
-- after `erase_if(a, key even)` the key 2 has no values in the wrapper's table, yet `a == b` holds once b dropped the key
example : (mmRunSpec exHistUmmap)[12]? = some (.eqne true false) := by decide

end Momo.StdW
