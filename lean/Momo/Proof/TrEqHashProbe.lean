import Momo.Translated.HashProbe
import Momo.Proof.SegMachine
import Momo.Proof.ProbeAdd
import Momo.Model.HashTable
/-!
  C01 / C11 (used by C12, C13): the bucket-index and capacity arithmetic of the hash table as translated from the headers
  (`Momo.Tr.*`, lean/Momo/Translated/HashProbe.lean, rewritten by tools/translate.py from the current headers on every check)
  computes the model functions `Probe.start / nextLin / nextQuad`, `HT.maxProbe` (BucketBase), `HT.shiftOf`, `HT.newLog`,
  `HT.capacityOf` the C01 / C11 / C12 theorems are about. A changed function body makes the equalities below fail.
  Hypotheses: a table has `2^L` buckets with `L ≤ 63` (`size_t{1} << L`), bucket indices are `< 2^L`, probes `≤ 2^L`.
-/
namespace Momo.TrEq
open Momo Momo.Seg Momo.Probe

/-! ### start bucket and next bucket -/

theorem tr_start (h L : Nat) : Tr.base_GetStartBucketIndex h (2 ^ L) = start L h := by
  unfold Tr.base_GetStartBucketIndex start
  rw [sub64_of_le (Nat.two_pow_pos L)]

theorem tr_nextLin (i L : Nat) (hi : i + 1 < 2 ^ 64) : Tr.base_GetNextBucketIndex i (2 ^ L) = nextLin L i := by
  unfold Tr.base_GetNextBucketIndex nextLin
  rw [sub64_of_le (Nat.two_pow_pos L), add64_of_lt hi]

theorem tr_nextLin_limp4 (i L : Nat) (hi : i + 1 < 2 ^ 64) : Tr.limp4_GetNextBucketIndex i (2 ^ L) = nextLin L i := by
  unfold Tr.limp4_GetNextBucketIndex nextLin
  rw [sub64_of_le (Nat.two_pow_pos L), add64_of_lt hi]

theorem tr_nextQuad (i p L : Nat) (hi : i + p < 2 ^ 64) : Tr.open2n2_GetNextBucketIndex i (2 ^ L) p = nextQuad L i p := by
  unfold Tr.open2n2_GetNextBucketIndex nextQuad
  rw [sub64_of_le (Nat.two_pow_pos L), add64_of_lt hi]

theorem tr_nextQuad_open8 (i p L : Nat) (hi : i + p < 2 ^ 64) : Tr.open8_GetNextBucketIndex i (2 ^ L) p = nextQuad L i p := by
  unfold Tr.open8_GetNextBucketIndex nextQuad
  rw [sub64_of_le (Nat.two_pow_pos L), add64_of_lt hi]

/-- `BucketBase::GetMaxProbe` = the bound `HT.maxProbe` uses for buckets without an encoder (`BoundKind.none`) -/
theorem tr_maxProbe_base (L : Nat) (hL : L < 64) : Tr.base_GetMaxProbe L = 2 ^ L - 1 := by
  unfold Tr.base_GetMaxProbe
  rw [shl64_one hL, sub64_of_le (Nat.two_pow_pos L)]

/-! ### the bucket visited at probe `p` by the loops of `pvFind` / `pvAddNogrow`, computed with the translated functions
(`bucketCount = buckets.GetCount() = size_t{1} << logBucketCount`) -/

/-- which `GetNextBucketIndex` a bucket class uses -/
inductive NextFn | base | limp4 | open2n2 | open8
deriving DecidableEq, Repr

def NextFn.quad : NextFn → Bool
  | .base => false
  | .limp4 => false
  | _ => true

/-- `Bucket::GetNextBucketIndex(bucketIndex, hashCode, bucketCount, probe)` of the class, translated -/
def NextFn.next : NextFn → Nat → Nat → Nat → Nat
  | .base, i, n, _ => Tr.base_GetNextBucketIndex i n
  | .limp4, i, n, _ => Tr.limp4_GetNextBucketIndex i n
  | .open2n2, i, n, p => Tr.open2n2_GetNextBucketIndex i n p
  | .open8, i, n, p => Tr.open8_GetNextBucketIndex i n p

/-- `bucketIndex` after `p` rounds of the probe loop (`++probe; bucketIndex = GetNextBucketIndex(bucketIndex, hashCode, bucketCount, probe)`) -/
def trSeq (f : NextFn) (L h : Nat) : Nat → Nat
  | 0 => Tr.base_GetStartBucketIndex h (shl64 1 L)
  | p+1 => f.next (trSeq f L h p) (shl64 1 L) (p+1)

theorem seqOf_lt (quad : Bool) (L home p : Nat) (hh : home < 2 ^ L) : seqOf quad L home p < 2 ^ L := by
  cases quad
  · simp only [seqOf, Bool.false_eq_true, if_false]; rw [seqLin_closed L home p hh]; exact Nat.mod_lt _ (Nat.two_pow_pos L)
  · simp only [seqOf, if_true]; rw [seqQuad_closed L home p hh]; exact Nat.mod_lt _ (Nat.two_pow_pos L)

/-- **the translated probe loop visits exactly the model's probe sequence** (every probe the loops can reach: `p ≤ 2^L`) -/
theorem trSeq_eq (f : NextFn) (L h p : Nat) (hL : L ≤ 63) (hp : p ≤ 2 ^ L) :
    trSeq f L h p = seqOf f.quad L (start L h) p := by
  have h63 : (2:Nat) ^ L ≤ 2 ^ 63 := Nat.pow_le_pow_right (by decide) hL
  induction p with
  | zero =>
    simp only [trSeq]
    rw [shl64_one (by omega), tr_start]
    cases f <;> simp [seqOf, NextFn.quad, seqLin, seqQuad]
  | succ q ih =>
    have ih' := ih (by omega)
    have hlt := seqOf_lt f.quad L (start L h) q (start_lt L h)
    simp only [trSeq]
    rw [ih', shl64_one (by omega), seqOf_succ]
    cases f <;> simp only [NextFn.next, NextFn.quad, Bool.false_eq_true, if_false, if_true] at hlt ⊢
    · exact tr_nextLin _ L (by omega)
    · exact tr_nextLin_limp4 _ L (by omega)
    · exact tr_nextQuad _ _ L (by omega)
    · exact tr_nextQuad_open8 _ _ L (by omega)

/-- every bucket of the table is reached by the translated probe loop within `2^L` probes (linear and quadratic) -/
theorem trSeq_surj (f : NextFn) (L h b : Nat) (hL : L ≤ 63) (hb : b < 2 ^ L) :
    ∃ p, p < 2 ^ L ∧ trSeq f L h p = b := by
  obtain ⟨p, hp, e⟩ := seqOf_surj f.quad L (start L h) b (start_lt L h) hb
  exact ⟨p, hp, by rw [trSeq_eq f L h p hL (by omega), e]⟩

open Momo.Probe in
/-- the loop of `HashSet::pvAddNogrow` (`while (bucket->IsFull()) { ++probe; if (probe >= bucketCount) throw …;
    bucketIndex = Bucket::GetNextBucketIndex(bucketIndex, hashCode, bucketCount, probe); }`) written out by hand (a `throw`
    inside a loop is outside the translator) over the TRANSLATED `GetStartBucketIndex` / `GetNextBucketIndex`;
    `bucketCount = size_t{1} << L`; `none` = "Hash table is full" -/
def trAddProbe (f : NextFn) (L : Nat) (isFull : Nat → Bool) (h : Nat) : Option (Nat × Nat) :=
  let rec go (fuel probe idx : Nat) : Option (Nat × Nat) :=
    match fuel with
    | 0 => none
    | n+1 =>
      if isFull idx then
        if add64 probe 1 ≥ shl64 1 L then none
        else go n (add64 probe 1) (f.next idx (shl64 1 L) (add64 probe 1))
      else some (probe, idx)
  go (2 ^ L) 0 (Tr.base_GetStartBucketIndex h (shl64 1 L))

theorem next_lt (quad : Bool) (L idx p : Nat) :
    (if quad then Probe.nextQuad L idx p else Probe.nextLin L idx) < 2 ^ L := by
  cases quad <;> simp only [Bool.false_eq_true, if_false, if_true, Probe.nextQuad, Probe.nextLin, Probe.and_mask] <;>
    exact Nat.mod_lt _ (Nat.two_pow_pos L)

theorem trAddProbe_go_eq (f : NextFn) (L : Nat) (isFull : Nat → Bool) (hL : L ≤ 63) :
    ∀ (fuel probe idx : Nat), probe < 2 ^ L → idx < 2 ^ L →
      trAddProbe.go f L isFull fuel probe idx = Probe.addProbe.go f.quad L isFull fuel probe idx := by
  have h63 : (2:Nat) ^ L ≤ 2 ^ 63 := Nat.pow_le_pow_right (by decide) hL
  intro fuel
  induction fuel with
  | zero => intro probe idx _ _; rfl
  | succ n ih =>
    intro probe idx hp hi
    unfold trAddProbe.go Probe.addProbe.go
    dsimp only
    rw [add64_of_lt (by omega), shl64_one (by omega)]
    split
    · split
      · rfl
      · rename_i hge
        have hnext : f.next idx (2 ^ L) (probe + 1) = (if f.quad then Probe.nextQuad L idx (probe + 1) else Probe.nextLin L idx) := by
          cases f <;> simp only [NextFn.next, NextFn.quad, Bool.false_eq_true, if_false, if_true]
          · exact tr_nextLin _ L (by omega)
          · exact tr_nextLin_limp4 _ L (by omega)
          · exact tr_nextQuad _ _ L (by omega)
          · exact tr_nextQuad_open8 _ _ L (by omega)
        rw [hnext]
        exact ih _ _ (by omega) (next_lt _ _ _ _)
    · rfl

/-- **the probe loop over the translated index functions = the model's `Probe.addProbe`** -/
theorem trAddProbe_eq (f : NextFn) (L : Nat) (isFull : Nat → Bool) (h : Nat) (hL : L ≤ 63) :
    trAddProbe f L isFull h = Probe.addProbe f.quad L isFull (Probe.start L h) := by
  unfold trAddProbe Probe.addProbe
  rw [shl64_one (by omega), tr_start]
  exact trAddProbe_go_eq f L isFull hL _ _ _ (Nat.two_pow_pos L) (Probe.start_lt L h)

/-- what the loop answers: "Hash table is full" only when every bucket is full; otherwise the first non-full bucket of the
    translated probe sequence, with its displacement -/
theorem trAddProbe_spec (f : NextFn) (L : Nat) (isFull : Nat → Bool) (h : Nat) (hL : L ≤ 63) :
    match trAddProbe f L isFull h with
    | none => ∀ b, b < 2 ^ L → isFull b = true
    | some (p, idx) => p < 2 ^ L ∧ idx = trSeq f L h p ∧ isFull idx = false ∧ ∀ q, q < p → isFull (trSeq f L h q) = true := by
  rw [trAddProbe_eq f L isFull h hL]
  have hspec := Probe.addProbe_spec f.quad L isFull (Probe.start L h)
  cases hadd : Probe.addProbe f.quad L isFull (Probe.start L h) with
  | none =>
    rw [hadd] at hspec
    intro b hb
    obtain ⟨p, hp, e⟩ := seqOf_surj f.quad L (start L h) b (start_lt L h) hb
    rw [← e]; exact hspec p hp
  | some pi =>
    obtain ⟨p, idx⟩ := pi
    rw [hadd] at hspec
    obtain ⟨h1, h2, h3, h4⟩ := hspec
    refine ⟨h1, ?_, h3, ?_⟩
    · rw [trSeq_eq f L h p hL (by omega)]; exact h2
    · intro q hq; rw [trSeq_eq f L h q hL (by omega)]; exact h4 q hq

/-- the translated `GetNextBucketIndex` of a bucket class is the stepping rule `HT.nextIdx` of a spec with the same probing kind -/
theorem tr_nextIdx (f : NextFn) (sp : HT.Spec) (hq : sp.quad = f.quad) (L idx p : Nat) (h : idx + p + 1 < 2 ^ 64) :
    f.next idx (2 ^ L) p = HT.nextIdx sp L idx p := by
  unfold HT.nextIdx
  rw [hq]
  cases f <;> simp only [NextFn.next, NextFn.quad, Bool.false_eq_true, if_false, if_true]
  · exact tr_nextLin _ L (by omega)
  · exact tr_nextLin_limp4 _ L (by omega)
  · exact tr_nextQuad _ _ L (by omega)
  · exact tr_nextQuad_open8 _ _ L (by omega)

/-- the slot search of the C01 model (`HT.findSlot`, the loop of `pvAddNogrow` over a generation) is the probe loop -/
theorem findSlot_eq_go (sp : HT.Spec) (g : HT.Gen) :
    ∀ (fuel probe idx : Nat), HT.findSlot sp g fuel probe idx
      = Probe.addProbe.go sp.quad g.L (fun i => HT.isFull sp (HT.bkt sp g.bs i)) fuel probe idx := by
  intro fuel
  induction fuel with
  | zero => intro probe idx; rfl
  | succ n ih =>
    intro probe idx
    unfold HT.findSlot Probe.addProbe.go
    dsimp only
    cases hf : HT.isFull sp (HT.bkt sp g.bs idx)
    · simp
    · simp only [Bool.not_true, Bool.false_eq_true, if_false, if_true]
      split
      · rfl
      · rw [ih]; rfl

/-- **the slot search of the C01 / C11 model run over the translated index functions**: `HT.findSlot` from the start bucket of `h`
in a generation of `2^L` buckets (`L ≤ 63`) is the hand-written loop over the translated `GetStartBucketIndex` /
`GetNextBucketIndex` of a bucket class with the same probing kind -/
theorem findSlot_eq_tr (f : NextFn) (sp : HT.Spec) (hq : sp.quad = f.quad) (g : HT.Gen) (h : Nat) (hL : g.L ≤ 63) :
    HT.findSlot sp g (2 ^ g.L) 0 (start g.L h) = trAddProbe f g.L (fun i => HT.isFull sp (HT.bkt sp g.bs i)) h := by
  rw [trAddProbe_eq f g.L _ h hL, findSlot_eq_go, hq]
  rfl

/-! ### growth: `GetBucketCountShift`, `pvGetNewLogBucketCount`, `CalcCapacity` -/

open Momo.HT in
/-- `HashBucketBase::GetBucketCountShift(1 << L, maxCount)` is `shiftOf` of a spec with `baseShift` -/
theorem tr_shift_base (sp : HT.Spec) (L : Nat) (hb : sp.baseShift = true) :
    Tr.base_GetBucketCountShift (2 ^ L) sp.maxCount = HT.shiftOf sp L := by
  unfold Tr.base_GetBucketCountShift HT.shiftOf
  simp only [hb, if_true, decide_eq_true_eq, beq_iff_eq]
  have e16 : (1 <<< 16 : Nat) = 65536 := by decide
  have e20 : (1 <<< 20 : Nat) = 1048576 := by decide
  rw [e16, e20]
  split
  · rfl
  · split
    · split <;> rfl
    · split <;> rfl

/-- the constant `GetBucketCountShift` of HashBucketOpen2N2 / OpenN1 / Open8 is `shiftOf` of a spec without `baseShift` -/
theorem tr_shift_open (sp : HT.Spec) (L n m : Nat) (hb : sp.baseShift = false) :
    Tr.open2n2_GetBucketCountShift n m = HT.shiftOf sp L ∧ Tr.openN1_GetBucketCountShift n m = HT.shiftOf sp L ∧
    Tr.open8_GetBucketCountShift n m = HT.shiftOf sp L := by
  unfold Tr.open2n2_GetBucketCountShift Tr.openN1_GetBucketCountShift Tr.open8_GetBucketCountShift HT.shiftOf
  simp [hb]

theorem shiftOf_le (sp : HT.Spec) (L : Nat) : 1 ≤ HT.shiftOf sp L ∧ HT.shiftOf sp L ≤ 2 := by
  unfold HT.shiftOf
  repeat' split
  all_goals omega

/-- **`HashSet::pvGetNewLogBucketCount` as written = the model's `newLog`** (current size `2^L`, `L ≤ 61`): for bucket
policies with the inherited `GetBucketCountShift` and for the open-addressing ones; the `MOMO_CHECK(shift > 0)` holds. -/
theorem tr_newLog (sp : HT.Spec) (t : HT.Table) (hL : ∀ g ∈ t.gens.head?, g.L ≤ 61) :
    (if sp.baseShift then Tr.hs_pvGetNewLogBucketCount_base t.gens.isEmpty sp.logStart (t.gens.headD default).L sp.maxCount
     else Tr.hs_pvGetNewLogBucketCount_open t.gens.isEmpty sp.logStart (t.gens.headD default).L sp.maxCount)
      = HT.newLog sp t := by
  unfold HT.newLog
  cases hg : t.gens with
  | nil =>
    simp [Tr.hs_pvGetNewLogBucketCount_base, Tr.hs_pvGetNewLogBucketCount_open]
  | cons g rest =>
    have hgL : g.L ≤ 61 := hL g (by simp [hg])
    obtain ⟨h1, h2⟩ := shiftOf_le sp g.L
    simp only [List.isEmpty_cons, List.headD_cons]
    cases hb : sp.baseShift
    · simp only [Bool.false_eq_true, if_false, Tr.hs_pvGetNewLogBucketCount_open]
      rw [(tr_shift_open sp g.L _ _ hb).1, add64_of_lt (by omega)]
    · simp only [if_true, Tr.hs_pvGetNewLogBucketCount_base, Bool.false_eq_true, if_false]
      rw [shl64_one (by omega), tr_shift_base sp g.L hb, add64_of_lt (by omega)]

/-- **`HashBucketBase::CalcCapacity(1 << L, maxCount)` = the model's `capacityOf`** for the integer branches
(`maxCount ≥ 2`), and for `maxCount = 1` as soon as the floating-point expression has its exact value `⌊n·5/8⌋`
(floating point is outside the translator: that value is compared with the real table at every growth by the C01 harness). -/
theorem tr_capacity_base (sp : HT.Spec) (L : Nat) (f : Nat → Nat) (hc : sp.cap = HT.CapKind.base) (hL : L ≤ 62)
    (hf : sp.maxCount = 1 → f (2 ^ L) = 2 ^ L * 5 / 8) :
    Tr.base_CalcCapacity f (2 ^ L) sp.maxCount = HT.capacityOf sp L := by
  have h62 : (2:Nat) ^ L ≤ 2 ^ 62 := Nat.pow_le_pow_right (by decide) hL
  unfold Tr.base_CalcCapacity HT.capacityOf
  simp only [hc, decide_eq_true_eq, beq_iff_eq]
  split
  · rename_i h1; exact hf h1
  · split
    · exact add64_of_lt (by omega)
    · exact mul64_of_lt (by omega)

end Momo.TrEq
