import Momo.Proof.PoolCache
namespace Momo.Pool

/-- what the buffer-deleting loops need: well-formed buffers, distinct pointers, lists = store -/
structure ListsWF (P : Params) (p : Pool) : Prop where
  bufwf : ∀ b ∈ p.store, BufWF P b
  nodup : (bufs p.store).Nodup
  lists : (p.pre ++ p.post).Perm (bufs p.store)

theorem CoreWF.listsWF {P : Params} {p : Pool} (h : CoreWF P p) : ListsWF P p := ⟨h.bufwf, h.nodup, h.lists⟩

/-- **`pvDeleteBuffer` (640-652)** gives the memory of a buffer back with the address and size it was obtained with -/
theorem deleteBuffer_ok {P : Params} {k : Int} (hM : Multi P k) (hA2 : P.A ≤ 1024) {p : Pool} (h : ListsWF P p)
    (a : Int) (ha : a ∈ p.pre ++ p.post) (hhead : p.post.head? ≠ some a) :
    ∃ evs, deleteBuffer P p a =
        .ok () { p with store := dropBuf p.store a, pre := p.pre.erase a, post := p.post.erase a } evs ∧
      ListsWF P { p with store := dropBuf p.store a, pre := p.pre.erase a, post := p.post.erase a } ∧
      LedgerOK P p.store evs (dropBuf p.store a) := by
  obtain ⟨b, hb, rfl⟩ := List.mem_map.mp (h.lists.subset ha)
  obtain ⟨s1, s2, hs, h1, h2⟩ := store_split hb h.nodup
  have hget : getBuf p.store b.buf = some b := by rw [hs]; exact getBuf_split h1
  have hbegin := (h.bufwf b hb).begin_eq hM hA2
  have hdrop : dropBuf p.store b.buf = s1 ++ s2 := by rw [hs]; exact dropBuf_split h1 h2
  have hlnd : (p.pre ++ p.post).Nodup := h.lists.nodup_iff.mpr h.nodup
  refine ⟨[.free b.base P.bufferSize], ?_, ⟨?_, ?_, ?_⟩, ?_⟩
  · unfold deleteBuffer; rw [hget]; simp only; rw [if_neg hhead, hbegin]
  · intro x hx
    have hx' : x ∈ dropBuf p.store b.buf := hx
    rw [hdrop] at hx'
    exact h.bufwf x (by rw [hs]; rcases List.mem_append.mp hx' with hm | hm <;> simp [hm])
  · show (bufs (dropBuf p.store b.buf)).Nodup
    rw [hdrop]
    have := h.nodup; rw [hs] at this
    simp only [bufs, List.map_append, List.map_cons] at this ⊢
    exact (List.nodup_cons.mp ((List.perm_middle.nodup_iff).mp this)).2
  · show (p.pre.erase b.buf ++ p.post.erase b.buf).Perm (bufs (dropBuf p.store b.buf))
    have e1 : (p.pre ++ p.post).erase b.buf = p.pre.erase b.buf ++ p.post.erase b.buf := by
      rw [List.erase_append]
      split
      · rename_i hm
        have : b.buf ∉ p.post := fun hp => (List.nodup_append.mp hlnd).2.2 _ hm _ hp rfl
        rw [List.erase_of_not_mem this]
      · rename_i hm; rw [List.erase_of_not_mem hm]
    rw [← e1, hdrop]
    have hp := h.lists.erase b.buf
    rw [hs] at hp
    refine hp.trans ?_
    simp only [bufs, List.map_append, List.map_cons]
    have : (List.map (fun x => x.buf) s1 ++ b.buf :: List.map (fun x => x.buf) s2).erase b.buf =
        List.map (fun x => x.buf) s1 ++ List.map (fun x => x.buf) s2 := by
      rw [List.erase_append]
      have hn : b.buf ∉ List.map (fun x => x.buf) s1 := by
        intro hm; obtain ⟨x, hx, hxe⟩ := List.mem_map.mp hm; exact h1 x hx hxe
      rw [if_neg hn]; simp
    rw [this]
  · have ho := owned_dropBuf (P := P) hb h.nodup
    have hm : (b.base, P.bufferSize) ∈ owned P p.store := ho.symm.subset (by simp)
    refine ⟨(owned P p.store).erase (b.base, P.bufferSize), by simp [ledger, hm], ?_⟩
    simpa using ho.erase (b.base, P.bufferSize)

/-- first loop of `DeallocateAll` (342-348) -/
theorem deleteAllPre_ok {P : Params} {k : Int} (hM : Multi P k) (hA2 : P.A ≤ 1024) :
    ∀ (fuel : Nat) (p : Pool), ListsWF P p → p.pre.length ≤ fuel →
    ∃ p' evs, deleteAllPre P fuel p = .ok () p' evs ∧ ListsWF P p' ∧ p'.pre = [] ∧ p'.post = p.post ∧
      p'.cache = p.cache ∧ p'.allocCount = p.allocCount ∧ p'.singles = p.singles ∧
      LedgerOK P p.store evs p'.store := by
  intro fuel
  induction fuel with
  | zero =>
    intro p h hl
    have : p.pre = [] := List.eq_nil_of_length_eq_zero (by omega)
    exact ⟨p, [], rfl, h, this, rfl, rfl, rfl, rfl, LedgerOK.nil rfl⟩
  | succ f ih =>
    intro p h hl
    cases hpre : p.pre with
    | nil => exact ⟨p, [], by simp [deleteAllPre, hpre], h, hpre, rfl, rfl, rfl, rfl, LedgerOK.nil rfl⟩
    | cons a t =>
      have hlnd : (p.pre ++ p.post).Nodup := h.lists.nodup_iff.mpr h.nodup
      have hap : a ∉ p.post := by
        intro hm; exact (List.nodup_append.mp hlnd).2.2 a (by rw [hpre]; simp) a hm rfl
      have hhead : p.post.head? ≠ some a := by
        intro e; exact hap (List.mem_of_head? e)
      obtain ⟨e1, hd1, hwf1, hl1⟩ := deleteBuffer_ok hM hA2 h a (by rw [hpre]; simp) hhead
      have e_pre : p.pre.erase a = t := by rw [hpre]; simp
      have e_post : p.post.erase a = p.post := List.erase_of_not_mem hap
      rw [e_pre, e_post] at hd1 hwf1
      obtain ⟨p2, e2, hd2, hwf2, hp2, hq2, hc2, ha2, hs2, hl2⟩ :=
        ih { p with store := dropBuf p.store a, pre := t, post := p.post } hwf1
          (by show t.length ≤ f; rw [hpre] at hl; simp at hl; omega)
      refine ⟨p2, e1 ++ e2, ?_, hwf2, hp2, hq2, hc2, ha2, hs2, hl1.trans hl2⟩
      simp only [deleteAllPre, hpre, hd1, Outcome.bind, hd2]

/-- second loop of `DeallocateAll` (349-354) -/
theorem deleteAllPost_ok {P : Params} {k : Int} (hM : Multi P k) (hA2 : P.A ≤ 1024) :
    ∀ (fuel : Nat) (p : Pool), ListsWF P p → p.pre = [] → p.post.length ≤ fuel →
    ∃ p' evs, deleteAllPost P fuel p = .ok () p' evs ∧ ListsWF P p' ∧ p'.pre = [] ∧ p'.post = [] ∧
      p'.cache = p.cache ∧ p'.allocCount = p.allocCount ∧ p'.singles = p.singles ∧
      LedgerOK P p.store evs p'.store := by
  intro fuel
  induction fuel with
  | zero =>
    intro p h hp hl
    have : p.post = [] := List.eq_nil_of_length_eq_zero (by omega)
    exact ⟨p, [], rfl, h, hp, this, rfl, rfl, rfl, LedgerOK.nil rfl⟩
  | succ f ih =>
    intro p h hp hl
    cases hpost : p.post with
    | nil => exact ⟨p, [], by simp [deleteAllPost, hpost], h, hp, hpost, rfl, rfl, rfl, LedgerOK.nil rfl⟩
    | cons a rest =>
      have hlnd : (p.pre ++ p.post).Nodup := h.lists.nodup_iff.mpr h.nodup
      rw [hp, hpost] at hlnd; simp only [List.nil_append] at hlnd
      have har : a ∉ rest := (List.nodup_cons.mp hlnd).1
      have hmid : ListsWF P { p with pre := a :: p.pre, post := rest } := by
        refine ⟨h.bufwf, h.nodup, ?_⟩
        have := h.lists; rw [hp, hpost] at this
        show ((a :: p.pre) ++ rest).Perm _
        rw [hp]; exact this
      have hhead : ({ p with pre := a :: p.pre, post := rest } : Pool).post.head? ≠ some a := by
        intro e; exact har (List.mem_of_head? e)
      obtain ⟨e1, hd1, hwf1, hl1⟩ := deleteBuffer_ok hM hA2 hmid a (by simp) hhead
      have e_pre : (a :: p.pre).erase a = [] := by rw [hp]; simp
      have e_post : rest.erase a = rest := List.erase_of_not_mem har
      simp only [e_pre, e_post] at hd1 hwf1
      obtain ⟨p2, e2, hd2, hwf2, hp2, hq2, hc2, ha2, hs2, hl2⟩ :=
        ih { p with store := dropBuf p.store a, pre := [], post := rest } hwf1 rfl
          (by show rest.length ≤ f; rw [hpost] at hl; simp at hl; omega)
      refine ⟨p2, e1 ++ e2, ?_, hwf2, hp2, hq2, hc2, ha2, hs2, hl1.trans hl2⟩
      simp only [deleteAllPost, hpost, hd1, Outcome.bind, hd2]

/-- **`DeallocateAll` (337-358) gives every buffer back**: afterwards the pool holds no memory, reports
    zero allocated blocks, and every `free` matched an outstanding allocation. -/
theorem deallocateAll_ok {P : Params} {k : Int} (hM : Multi P k) (hN2 : 2 ≤ P.N) (hA2 : P.A ≤ 1024) {p : Pool}
    (h : PoolWF P p) :
    ∃ p' evs, deallocateAll P p = .ok () p' evs ∧ p' = Pool.empty ∧ LedgerOK P p.store evs [] := by
  unfold deallocateAll
  rw [if_neg (by omega)]
  cases hpost : p.post with
  | nil =>
    have hpre := h.core.headNull hpost
    have hst : p.store = [] := by
      have := h.core.lists; rw [hpre, hpost] at this
      have := this.length_eq; simp [bufs] at this; exact List.eq_nil_of_length_eq_zero this.symm
    have hT : p.taken P = [] := by simp [Pool.taken, hst]
    have hc : p.cache = [] := by
      cases hcc : p.cache with
      | nil => rfl
      | cons c cs => have := h.cacheTaken c (by rw [hcc]; simp); rw [hT] at this; simp at this
    have ha : p.allocCount = 0 := by have := h.count; rw [hT, hc] at this; simpa using this
    have hsg := h.singlesNil
    refine ⟨p, [], rfl, ?_, by rw [hst]; exact LedgerOK.nil rfl⟩
    cases p; simp only [Pool.empty] at *; simp [hst, hpre, hpost, hc, ha, hsg]
  | cons a rest =>
    simp only
    obtain ⟨p1, e1, hd1, hwf1, hp1, hq1, _, _, hs1, hl1⟩ := deleteAllPre_ok hM hA2 p.pre.length p h.core.listsWF (Nat.le_refl _)
    obtain ⟨p2, e2, hd2, hwf2, hp2, hq2, _, _, hs2, hl2⟩ := deleteAllPost_ok hM hA2 p1.post.length p1 hwf1 hp1 (Nat.le_refl _)
    have hst : p2.store = [] := by
      have := hwf2.lists; rw [hp2, hq2] at this
      have := this.length_eq; simp [bufs] at this; exact List.eq_nil_of_length_eq_zero this.symm
    refine ⟨{ p2 with allocCount := 0, cache := [] }, e1 ++ (e2 ++ []), ?_, ?_, ?_⟩
    · simp only [hd1, Outcome.bind, hd2]
    · have hsg : p2.singles = [] := (hs2.trans hs1).trans h.singlesNil
      cases p2; simp only [Pool.empty] at *; simp [hst, hp2, hq2, hsg]
    · have := hl1.trans hl2; rw [hst] at this; simpa using this

theorem mergeMoveFull_eq (a b : List Int) : mergeMoveFull a b = a.reverse ++ b := by
  induction a generalizing b with
  | nil => rfl
  | cons x xs ih => simp [mergeMoveFull, ih]

/-- `~MemPool` (227-234), `blockCount > 1`: a pool without live blocks gives everything back -/
theorem destroy_ok {P : Params} {k : Int} (hM : Multi P k) (hN2 : 2 ≤ P.N) (hA2 : P.A ≤ 1024) {p : Pool}
    (h : PoolWF P p) (h0 : p.allocCount = 0) :
    ∃ evs, destroy P p = .ok () Pool.empty evs ∧ LedgerOK P p.store evs [] := by
  obtain ⟨p', evs, hd, he, hl⟩ := deallocateAll_ok hM hN2 hA2 h
  refine ⟨evs, ?_, hl⟩
  unfold destroy
  rw [if_neg (by simpa using h0), if_pos (by omega), hd, he]

/-- flushing the cache of a well-formed pool -/
theorem flush_ok {P : Params} {k : Int} (hM : Multi P k) (hN2 : 2 ≤ P.N) (hA2 : P.A ≤ 1024) {p : Pool}
    (h : PoolWF P p) :
    ∃ p' evs, flush P p = .ok () p' evs ∧ PoolWF P p' ∧ p'.cache = [] ∧ (p.live P).Perm (p'.live P) ∧
      p'.allocCount = p.allocCount ∧ LedgerOK P p.store evs p'.store ∧
      (∀ x ∈ bufs p'.store, x ∈ bufs p.store) := by
  have hTnd := h.taken_nodup hM
  obtain ⟨p1, e1, hf1, hwf1, hperm1, hc1, ha1, hs1, hl1, hsb1⟩ :=
    flushList_ok hM hN2 hA2 p.cache { p with cache := [] } (h.core.congr rfl rfl rfl) h.cacheNodup h.cacheTaken
  have hc1' : p1.cache = [] := hc1
  have ha1' : p1.allocCount = p.allocCount := ha1
  have hperm1' : (p.taken P).Perm (p.cache ++ p1.taken P) := hperm1
  have hnd2 : (p.cache ++ p1.taken P).Nodup := hperm1'.nodup_iff.mp hTnd
  have hlive1 : (p.live P).Perm (p1.taken P) := by
    rw [live_eq hN2]
    refine (hperm1'.filter _).trans ?_
    rw [List.filter_append]
    have e1 : p.cache.filter (fun x => !p.cache.contains x) = [] := by
      rw [List.filter_eq_nil_iff]; intro x hx; simp [hx]
    have e2 : (p1.taken P).filter (fun x => !p.cache.contains x) = p1.taken P := by
      rw [List.filter_eq_self]; intro x hx
      have : x ∉ p.cache := fun hm => (List.nodup_append.mp hnd2).2.2 x hm x hx rfl
      simpa using this
    rw [e1, e2]; simp
  refine ⟨p1, e1, hf1, ⟨hwf1, by rw [hc1']; simp, by rw [hc1']; simp, fun _ => hc1', ?_, hs1.trans h.singlesNil⟩, hc1', ?_, ha1', hl1, hsb1⟩
  · have hl := hperm1'.length_eq
    have hc := h.count
    rw [List.length_append] at hl
    rw [hc1', ha1']; simp only [List.length_nil]; omega
  · have : p1.live P = p1.taken P := by rw [live_eq hN2, hc1']; simp
    rw [this]; exact hlive1

theorem ledger_frame (X : List (Int × Int)) (evs : List Ev) :
    ∀ (L L' : List (Int × Int)), ledger L evs = some L' → ledger (L ++ X) evs = some (L' ++ X) := by
  induction evs with
  | nil => intro L L' h; simp [ledger] at h ⊢; exact h
  | cons e es ih =>
    intro L L' h
    cases e with
    | malloc b s => simp only [ledger] at h ⊢; exact ih _ _ h
    | free a s =>
      simp only [ledger] at h ⊢
      by_cases hm : (a, s) ∈ L
      · rw [if_pos hm] at h
        rw [if_pos (List.mem_append_left _ hm), List.erase_append_left _ hm]
        exact ih _ _ h
      · rw [if_neg hm] at h; simp at h

theorem LedgerOK.frame {P : Params} {s s' : List Buffer} {evs : List Ev} (X : List Buffer)
    (h : LedgerOK P s evs s') : LedgerOK P (X ++ s) evs (X ++ s') := by
  obtain ⟨L', hl, hp⟩ := h
  have h1 := ledger_frame (owned P X) evs _ _ hl
  obtain ⟨M, hm, hpm⟩ := ledger_perm (M := owned P (X ++ s)) evs
    (by simp only [owned, List.map_append]; exact List.perm_append_comm) _ h1
  refine ⟨M, hm, hpm.symm.trans ?_⟩
  simp only [owned, List.map_append] at hp ⊢
  exact List.perm_append_comm.trans (List.Perm.append_left _ hp)

theorem live_of_cache_nil {P : Params} (hN2 : 2 ≤ P.N) {p : Pool} (hc : p.cache = []) : p.live P = p.taken P := by
  rw [live_eq hN2, hc]; simp

theorem store_nil_of_post_nil {P : Params} {p : Pool} (h : CoreWF P p) (hpost : p.post = []) :
    p.store = [] ∧ p.pre = [] := by
  have hpre := h.headNull hpost
  have := h.lists; rw [hpre, hpost] at this
  have := this.length_eq; simp [bufs] at this
  exact ⟨List.eq_nil_of_length_eq_zero this.symm, hpre⟩

/-- the union of two well-formed pools over disjoint buffers, with any arrangement of the lists that keeps
    full buffers before the head -/
theorem CoreWF.union {P : Params} {a b : Pool} (ha : CoreWF P a) (hb : CoreWF P b)
    (hdis : ∀ x ∈ bufs a.store, x ∉ bufs b.store) (pre' post' : List Int)
    (hperm : (pre' ++ post').Perm ((a.pre ++ a.post) ++ (b.pre ++ b.post)))
    (hpre : ∀ x ∈ pre', x ∈ a.pre ∨ x ∈ b.pre) (hpost : ∀ x ∈ post', x ∈ a.post ∨ x ∈ b.post)
    (hnull : post' = [] → pre' = []) :
    CoreWF P { a with store := a.store ++ b.store, pre := pre', post := post' } := by
  have hAl : ∀ x, x ∈ a.pre ∨ x ∈ a.post → x ∈ bufs a.store := fun x hx =>
    ha.lists.subset (List.mem_append.mpr hx)
  have hBl : ∀ x, x ∈ b.pre ∨ x ∈ b.post → x ∈ bufs b.store := fun x hx =>
    hb.lists.subset (List.mem_append.mpr hx)
  refine ⟨?_, ?_, ?_, ?_, ?_, hnull⟩
  · intro x hx
    rcases List.mem_append.mp hx with hx | hx
    · exact ha.bufwf x hx
    · exact hb.bufwf x hx
  · simp only [bufs, List.map_append]
    exact List.nodup_append.mpr ⟨ha.nodup, hb.nodup, fun x hx y hy e => hdis x hx (e ▸ hy)⟩
  · simp only [bufs, List.map_append]
    exact hperm.trans (List.Perm.append ha.lists hb.lists)
  · intro c hc hcp
    rcases List.mem_append.mp hc with hc | hc
    · rcases hpre _ hcp with hp | hp
      · exact ha.preFull c hc hp
      · exact absurd (hBl _ (Or.inl hp)) (hdis _ (List.mem_map_of_mem hc))
    · rcases hpre _ hcp with hp | hp
      · exact absurd (List.mem_map_of_mem hc) (hdis _ (hAl _ (Or.inl hp)))
      · exact hb.preFull c hc hp
  · intro c hc hcp
    rcases List.mem_append.mp hc with hc | hc
    · rcases hpost _ hcp with hp | hp
      · exact ha.postFree c hc hp
      · exact absurd (hBl _ (Or.inr hp)) (hdis _ (List.mem_map_of_mem hc))
    · rcases hpost _ hcp with hp | hp
      · exact absurd (List.mem_map_of_mem hc) (hdis _ (hAl _ (Or.inr hp)))
      · exact hb.postFree c hc hp

/-- **`MergeFrom` (386-435), `blockCount > 1`**: the receiving pool stays well formed, its live blocks are
    exactly the live blocks of both pools (so each of them can be freed individually by `deallocate_ok`),
    the counts add up, the other pool is left empty, no memory is lost. -/
theorem mergeFrom_ok {P : Params} {k : Int} (hM : Multi P k) (hN2 : 2 ≤ P.N) (hA2 : P.A ≤ 1024) {a b : Pool}
    (ha : PoolWF P a) (hb : PoolWF P b) (hdis : ∀ x ∈ bufs a.store, x ∉ bufs b.store) :
    ∃ a' evs, mergeFrom P a b = .ok Pool.empty a' evs ∧ PoolWF P a' ∧
      (a'.live P).Perm (a.live P ++ b.live P) ∧ a'.allocCount = a.allocCount + b.allocCount ∧
      LedgerOK P (a.store ++ b.store) evs a'.store := by
  have hN : 0 ≤ P.N := by omega
  -- flush the other pool (or not): in both cases we get b1 with an empty cache
  have hfl : ∃ b1 evs, (if P.useCache = true then flush P b else Outcome.ok () b []) = .ok () b1 evs ∧ PoolWF P b1 ∧
      b1.cache = [] ∧ (b.live P).Perm (b1.live P) ∧ b1.allocCount = b.allocCount ∧
      LedgerOK P b.store evs b1.store ∧ (∀ x ∈ bufs b1.store, x ∈ bufs b.store) := by
    by_cases hu : P.useCache = true
    · rw [if_pos hu]; exact flush_ok hM hN2 hA2 hb
    · rw [if_neg hu]
      exact ⟨b, [], rfl, hb, hb.cacheOff (by simpa using hu), List.Perm.refl _, rfl, LedgerOK.nil rfl, fun _ h => h⟩
  obtain ⟨b1, evs, hfe, hb1, hc1, hlive1, hac1, hl1, hsub1⟩ := hfl
  have hdis1 : ∀ x ∈ bufs a.store, x ∉ bufs b1.store := fun x hx hm => hdis x hx (hsub1 x hm)
  have hlb1 : b1.live P = b1.taken P := live_of_cache_nil hN2 hc1
  have hcnt1 : b1.allocCount = (b1.taken P).length := by
    have := hb1.count; rw [hc1] at this; simpa using this
  have hledger : LedgerOK P (a.store ++ b.store) (evs ++ []) (a.store ++ b1.store) := by
    simpa using hl1.frame a.store
  -- cached blocks of `a` are not blocks of `b1`
  have hcross : ∀ x ∈ a.taken P, x ∉ b1.taken P := by
    intro x hxa hxb
    obtain ⟨c, hc, hxc⟩ := (mem_takenOf a.store x).mp hxa
    obtain ⟨d, hd, hxd⟩ := (mem_takenOf b1.store x).mp hxb
    obtain ⟨i, hi, _, hie⟩ := (mem_taken hN x).mp hxc
    obtain ⟨j, hj, _, hje⟩ := (mem_taken hN x).mp hxd
    have := (block_buffer_unique hM (ha.core.bufwf c hc) (hb1.core.bufwf d hd) i j hi hj (hie.trans hje.symm)).1
    exact hdis1 _ (List.mem_map_of_mem hc) (this ▸ List.mem_map_of_mem hd)
  have hliveU : ((a.taken P ++ b1.taken P).filter (fun x => !a.cache.contains x)).Perm (a.live P ++ b.live P) := by
    rw [List.filter_append, live_eq hN2 a]
    refine List.Perm.append_left _ ?_
    have : (b1.taken P).filter (fun x => !a.cache.contains x) = b1.taken P := by
      rw [List.filter_eq_self]; intro x hx
      have : x ∉ a.cache := fun hm => hcross x (ha.cacheTaken x hm) hx
      simpa using this
    rw [this, ← hlb1]; exact hlive1.symm
  unfold mergeFrom
  rw [hfe]; simp only [Outcome.bind]
  -- result for the two cases in which buffers change hands
  have hmain : ∀ (pre' post' : List Int),
      (pre' ++ post').Perm ((a.pre ++ a.post) ++ (b1.pre ++ b1.post)) →
      (∀ x ∈ pre', x ∈ a.pre ∨ x ∈ b1.pre) → (∀ x ∈ post', x ∈ a.post ∨ x ∈ b1.post) → (post' = [] → pre' = []) →
      PoolWF P { a with allocCount := a.allocCount + b1.allocCount, store := a.store ++ b1.store, pre := pre', post := post' } ∧
      (({ a with allocCount := a.allocCount + b1.allocCount, store := a.store ++ b1.store, pre := pre', post := post' } : Pool).live P).Perm
        (a.live P ++ b.live P) := by
    intro pre' post' h1 h2 h3 h4
    have hcore := ha.core.union hb1.core hdis1 pre' post' h1 h2 h3 h4
    have hT : ({ a with allocCount := a.allocCount + b1.allocCount, store := a.store ++ b1.store, pre := pre', post := post' } : Pool).taken P
        = a.taken P ++ b1.taken P := by simp [Pool.taken, List.flatMap_append]
    refine ⟨⟨hcore.congr rfl rfl rfl, ha.cacheNodup, ?_, ha.cacheOff, ?_, ha.singlesNil⟩, ?_⟩
    · intro c hc; rw [hT]; exact List.mem_append_left _ (ha.cacheTaken c hc)
    · rw [hT, List.length_append]
      show a.allocCount + b1.allocCount + a.cache.length = _
      have := ha.count; omega
    · rw [live_eq hN2, hT]; exact hliveU
  cases hbp : b1.post with
  | nil =>
    obtain ⟨hst, hpre⟩ := store_nil_of_post_nil hb1.core hbp
    have hT1 : b1.taken P = [] := by simp [Pool.taken, hst]
    simp only
    have hbe : ({ store := b1.store, pre := b1.pre, post := [], cache := b1.cache, allocCount := 0, singles := [] } : Pool)
        = Pool.empty := by simp [Pool.empty, hst, hpre, hc1]
    have hble : b.live P = [] := by
      have := hlive1.length_eq; rw [hlb1, hT1] at this
      exact List.eq_nil_of_length_eq_zero (by simpa using this)
    refine ⟨{ a with allocCount := a.allocCount + b1.allocCount, singles := a.singles ++ b1.singles }, evs ++ [],
      by rw [hbe], ?_, ?_, by show a.allocCount + b1.allocCount = _; rw [hac1], ?_⟩
    · refine ⟨ha.core.congr rfl rfl rfl, ha.cacheNodup, ha.cacheTaken, ha.cacheOff, ?_, ?_⟩
      · show a.allocCount + b1.allocCount + a.cache.length = (a.taken P).length
        rw [hcnt1, hT1]; have := ha.count; simpa using this
      · show a.singles ++ b1.singles = []
        rw [ha.singlesNil, hb1.singlesNil]; rfl
    · rw [hble, List.append_nil, live_eq hN2, live_eq hN2]
      exact List.Perm.refl _
    · rw [hst] at hledger; simpa using hledger
  | cons bh brest =>
    simp only
    have hbe : ({ b1 with allocCount := 0, store := [], pre := [], post := [] } : Pool) = Pool.empty := by
      have := hb1.singlesNil
      cases b1; simp only [Pool.empty] at *; simp [hc1, this]
    cases hap : a.post with
    | nil =>
      obtain ⟨hsta, hprea⟩ := store_nil_of_post_nil ha.core hap
      simp only
      obtain ⟨hwf, hlv⟩ := hmain b1.pre b1.post (by rw [hprea, hap]; simp)
        (fun x hx => Or.inr hx) (fun x hx => Or.inr hx) hb1.core.headNull
      rw [hbp] at hwf hlv
      exact ⟨_, evs ++ [], by rw [hbe], hwf, hlv, by show a.allocCount + b1.allocCount = _; rw [hac1], hledger⟩
    | cons ah arest =>
      simp only
      obtain ⟨hwf, hlv⟩ := hmain (mergeMoveFull b1.pre a.pre) (a.post ++ b1.post)
        (by rw [mergeMoveFull_eq]
            have e1 : (b1.pre.reverse ++ a.pre ++ (a.post ++ b1.post)).Perm (b1.pre ++ (a.pre ++ a.post) ++ b1.post) := by
              simp only [List.append_assoc]
              exact List.Perm.append_right _ (List.reverse_perm _)
            refine e1.trans ?_
            simp only [List.append_assoc]
            exact (List.perm_append_comm_assoc _ _ _).trans
              (List.Perm.append_left _ (List.perm_append_comm_assoc _ _ _)))
        (fun x hx => by rw [mergeMoveFull_eq] at hx; simp at hx; tauto)
        (fun x hx => by simpa using hx)
        (fun e => by rw [hap] at e; simp at e)
      rw [hap, hbp] at hwf hlv
      exact ⟨_, evs ++ [], by rw [hbe], hwf, hlv, by show a.allocCount + b1.allocCount = _; rw [hac1], hledger⟩

end Momo.Pool
