import Momo.Proof.SortSearch
/-!
  C17 lemmas, part 3: `pvIsGrouped` and `pvIsSorted` (HashSorter.h:227-265) decide exactly
  "codes non-decreasing and equal items contiguous" - on every sequence, sorted or not.
-/
namespace Momo.Sort
variable {σ α : Type}

theorem ContigF.mono {eq : α → α → Bool} {A : Nat → α × Nat} {n m : Nat} (h : ContigF eq A n) (hm : m ≤ n) : ContigF eq A m :=
  fun i j k hij hjk hk => h i j k hij hjk (by omega)

theorem SortedF.mono {A : Nat → α × Nat} {n m : Nat} (h : SortedF A n) (hm : m ≤ n) : SortedF A m :=
  fun i j hij hj => h i j hij (by omega)

/-- what the two loops of `pvIsGrouped` test: a cell that differs from its predecessor is followed by
no cell equal to that predecessor -/
def GroupedChk (eq : α → α → Bool) (A : Nat → α × Nat) (n : Nat) : Prop :=
  ∀ i, 1 ≤ i → i < n → eq (A (i - 1)).1 (A i).1 = false → ∀ j, i < j → j < n → eq (A (i - 1)).1 (A j).1 = false

theorem groupedChk_iff_contig {eq : α → α → Bool} (he : IsEqv eq) (A : Nat → α × Nat) (n : Nat) :
    GroupedChk eq A n ↔ ContigF eq A n := by
  constructor
  · intro h i j k hij hjk hk hik
    -- walk from i to j: the first cell not equal to cell i would contradict the check
    have key : ∀ d, i + d ≤ j → eq (A i).1 (A (i + d)).1 = true := by
      intro d
      induction d with
      | zero => intro _; exact he.refl _
      | succ d ih =>
        intro hd
        have h1 := ih (by omega)
        cases h2 : eq (A i).1 (A (i + (d + 1))).1 with
        | true => rfl
        | false =>
          exfalso
          have h3 : eq (A (i + (d + 1) - 1)).1 (A (i + (d + 1))).1 = false := by
            rw [show i + (d + 1) - 1 = i + d by omega]
            cases h4 : eq (A (i + d)).1 (A (i + (d + 1))).1 with
            | false => rfl
            | true => rw [he.trans _ _ _ h1 h4] at h2; cases h2
          have h5 := h (i + (d + 1)) (by omega) (by omega) h3 k (by omega) hk
          rw [show i + (d + 1) - 1 = i + d by omega] at h5
          have h6 := he.trans _ _ _ (he.symm _ _ h1) hik
          rw [h5] at h6; cases h6
    have := key (j - i) (by omega)
    rwa [show i + (j - i) = j by omega] at this
  · intro h i hi1 hi2 hne j hij hj
    cases h1 : eq (A (i - 1)).1 (A j).1 with
    | false => rfl
    | true =>
      have := h (i - 1) i j (by omega) hij hj h1
      rw [hne] at this; cases this

theorem isGroupedInner_spec (eq : α → α → Bool) (v : View α) (A : Nat → α × Nat) (n : Nat) (hv : VRepr v A n)
    (count i : Nat) (hcount : count ≤ n) (hi1 : 1 ≤ i) (hi : i < count) :
    ∀ (fuel j : Nat), 0 < fuel → count < fuel + j →
      ∃ b, isGroupedInner eq v count i fuel j = some b ∧
        (b = true ↔ ∀ j', j ≤ j' → j' < count → eq (A (i - 1)).1 (A j').1 = false) := by
  intro fuel
  induction fuel with
  | zero =>
    intro j hf
    omega
  | succ f ih =>
    intro j _ hf
    unfold isGroupedInner
    by_cases hj : j < count
    · simp only [hj, if_true, (hv (i - 1) (by omega)).1, (hv j (by omega)).1, Option.bind_some]
      by_cases he : eq (A (i - 1)).1 (A j).1 = true
      · simp only [he, if_true]
        refine ⟨false, rfl, ?_⟩
        simp only [Bool.false_eq_true, false_iff]
        intro hall
        have := hall j (Nat.le_refl _) hj
        rw [he] at this; cases this
      · simp only [he]
        obtain ⟨b, hb, hbi⟩ := ih (j + 1) (by omega) (by omega)
        refine ⟨b, hb, ?_⟩
        rw [hbi]
        constructor
        · intro hall j' hj1 hj2
          by_cases hjj : j' = j
          · subst hjj; simpa using he
          · exact hall j' (by omega) hj2
        · intro hall j' hj1 hj2
          exact hall j' (by omega) hj2
    · simp only [hj, if_false]
      refine ⟨true, rfl, ?_⟩
      simp only [true_iff]
      intro j' h1 h2; omega

theorem isGroupedOuter_spec (eq : α → α → Bool) (v : View α) (A : Nat → α × Nat) (n : Nat) (hv : VRepr v A n)
    (count : Nat) (hcount : count ≤ n) :
    ∀ (fuel i : Nat), 0 < fuel → count < fuel + i → 1 ≤ i →
      ∃ b, isGroupedOuter eq v count fuel i = some b ∧
        (b = true ↔ ∀ i', i ≤ i' → i' < count → eq (A (i' - 1)).1 (A i').1 = false →
          ∀ j, i' < j → j < count → eq (A (i' - 1)).1 (A j).1 = false) := by
  intro fuel
  induction fuel with
  | zero => intro i hf; omega
  | succ f ih =>
    intro i _ hf hi1
    unfold isGroupedOuter
    by_cases hi : i < count
    · simp only [hi, if_true, (hv (i - 1) (by omega)).1, (hv i (by omega)).1, Option.bind_some]
      obtain ⟨b, hb, hbi⟩ := ih (i + 1) (by omega) (by omega) (by omega)
      by_cases he : eq (A (i - 1)).1 (A i).1 = true
      · simp only [he, if_true]
        refine ⟨b, hb, ?_⟩
        rw [hbi]
        constructor
        · intro hall i' h1 h2 h3
          by_cases hii : i' = i
          · subst hii; rw [he] at h3; cases h3
          · exact hall i' (by omega) h2 h3
        · intro hall i' h1 h2 h3
          exact hall i' (by omega) h2 h3
      · simp only [he]
        obtain ⟨bi, hbi1, hbi2⟩ := isGroupedInner_spec eq v A n hv count i hcount hi1 hi (count + 1) (i + 1) (by omega) (by omega)
        rw [hbi1]
        simp only [Option.bind_some]
        cases hbv : bi with
        | true =>
          simp only [if_true]
          refine ⟨b, hb, ?_⟩
          rw [hbi]
          have hin := hbi2.1 hbv
          constructor
          · intro hall i' h1 h2 h3
            by_cases hii : i' = i
            · subst hii
              intro j hj1 hj2
              exact hin j (by omega) hj2
            · exact hall i' (by omega) h2 h3
          · intro hall i' h1 h2 h3
            exact hall i' (by omega) h2 h3
        | false =>
          simp only [Bool.false_eq_true, if_false]
          refine ⟨false, rfl, ?_⟩
          simp only [Bool.false_eq_true, false_iff]
          intro hall
          have : bi = true := hbi2.2 (fun j' h1 h2 => hall i (Nat.le_refl _) hi (by simpa using he) j' (by omega) h2)
          rw [hbv] at this; cases this
    · simp only [hi, if_false]
      refine ⟨true, rfl, ?_⟩
      simp only [true_iff]
      intro i' h1 h2; omega

/-- `pvIsGrouped` decides `ContigF` on the first `count` cells of the view -/
theorem isGrouped_spec (eq : α → α → Bool) (he : IsEqv eq) (v : View α) (A : Nat → α × Nat) (n : Nat) (hv : VRepr v A n)
    (count : Nat) (hcount : count ≤ n) :
    ∃ b, isGrouped eq v count = some b ∧ (b = true ↔ ContigF eq A count) := by
  unfold isGrouped
  obtain ⟨b, hb, hbi⟩ := isGroupedOuter_spec eq v A n hv count hcount (count + 1) 1 (by omega) (by omega) (by omega)
  refine ⟨b, hb, ?_⟩
  rw [hbi, ← groupedChk_iff_contig he]
  constructor
  · intro h i h1 h2 h3 j h4 h5; exact h i h1 h2 h3 j h4 h5
  · intro h i h1 h2 h3 j h4 h5; exact h i h1 h2 h3 j h4 h5

/-! ### pvIsSorted -/

/-- equal items have equal codes (`hashFunc` respects `equalFunc`) -/
def ConsF (eq : α → α → Bool) (A : Nat → α × Nat) (n : Nat) : Prop :=
  ∀ i j, i < n → j < n → eq (A i).1 (A j).1 = true → (A i).2 = (A j).2

/-- a grouped prefix followed by a grouped block that starts with a larger code is grouped -/
theorem contig_extend {eq : α → α → Bool} {A : Nat → α × Nat} {p m : Nat} (hpm : p ≤ m) (hs : SortedF A m)
    (hcons : ConsF eq A m) (hbd : p = 0 ∨ (A (p - 1)).2 < (A p).2) (h1 : ContigF eq A p)
    (h2 : ContigF eq (fun k => A (p + k)) (m - p)) : ContigF eq A m := by
  intro a b c hab hbc hc hac
  by_cases hcp : c < p
  · exact h1 a b c hab hbc hcp hac
  · by_cases hap : p ≤ a
    · have : eq (A (p + (a - p))).1 (A (p + (b - p))).1 = true := by
        apply h2 (a - p) (b - p) (c - p) (by omega) (by omega) (by omega)
        show eq (A (p + (a - p))).1 (A (p + (c - p))).1 = true
        rwa [show p + (a - p) = a by omega, show p + (c - p) = c by omega]
      rwa [show p + (a - p) = a by omega, show p + (b - p) = b by omega] at this
    · exfalso
      have hcode := hcons a c (by omega) hc hac
      rcases hbd with h0 | hlt
      · omega
      · have e1 := hs a (p - 1) (by omega) (by omega)
        have e2 := hs p c (by omega) hc
        omega

theorem isSortedLoop_spec (M : Mem σ α) (eq : α → α → Bool) (he : IsEqv eq) (s : σ) (A : Nat → α × Nat) (n : Nat)
    (hr : MRepr M s A n) (hcons : ConsF eq A n) :
    ∀ (fuel i prev : Nat), 0 < fuel → n < fuel + i → 1 ≤ i → i ≤ n → prev < i →
      SortedF A i → (∀ k, prev ≤ k → k < i → (A k).2 = (A prev).2) →
      (prev = 0 ∨ (A (prev - 1)).2 < (A prev).2) → ContigF eq A prev →
      ∃ b, isSortedLoop M eq s n fuel i prev (A prev).2 = some b ∧ (b = true ↔ SortedF A n ∧ ContigF eq A n) := by
  intro fuel
  induction fuel with
  | zero => intro i prev h; omega
  | succ f ih =>
    intro i prev _ hf hi1 hin hprev hsorted hrun hbd hpre
    unfold isSortedLoop
    have hcons' : ∀ m, m ≤ n → ConsF eq A m := fun m hm a b ha hb => hcons a b (by omega) (by omega)
    by_cases hi : i < n
    · simp only [hi, if_true, (hr i hi).2, Option.bind_some]
      have hlast : (A (i - 1)).2 = (A prev).2 := hrun (i - 1) (by omega) (by omega)
      by_cases hlt : (A i).2 < (A prev).2
      · simp only [hlt, if_true]
        refine ⟨false, rfl, ?_⟩
        simp only [Bool.false_eq_true, false_iff]
        intro ⟨hs, _⟩
        have := hs prev i (by omega) hi
        omega
      · simp only [hlt, if_false]
        by_cases hne : (A i).2 ≠ (A prev).2
        · rw [if_pos hne]
          have hsub : prev ≤ i := by omega
          simp only [csub, hsub, if_true, Option.bind_some]
          obtain ⟨b, hb, hbi⟩ := isGrouped_spec eq he (M.fwd s prev) _ (n - prev) (hr.fwd prev) (i - prev) (by omega)
          rw [hb]
          simp only [Option.bind_some]
          cases hbv : b with
          | true =>
            simp only [if_true]
            have hwin := hbi.1 hbv
            have hs' : SortedF A (i + 1) := by
              intro a c hac hc
              by_cases hci : c < i
              · exact hsorted a c hac hci
              · have hce : c = i := by omega
                subst hce
                by_cases hae : a = c
                · subst hae; exact Nat.le_refl _
                · have := hsorted a (c - 1) (by omega) (by omega)
                  omega
            apply ih (i + 1) i (by omega) (by omega) (by omega) (by omega) (by omega) hs'
            · intro k hk1 hk2
              have : k = i := by omega
              subst this; rfl
            · right; show (A (i - 1)).2 < (A i).2; omega
            · exact contig_extend hsub hsorted (hcons' i (by omega)) hbd hpre hwin
          | false =>
            simp only [Bool.false_eq_true, if_false]
            refine ⟨false, rfl, ?_⟩
            simp only [Bool.false_eq_true, false_iff]
            intro ⟨_, hc⟩
            have := hbi.2 ((hc.shift prev).mono (by omega))
            rw [hbv] at this; cases this
        · rw [if_neg hne]
          have heq : (A i).2 = (A prev).2 := Decidable.not_not.mp hne
          have hs' : SortedF A (i + 1) := by
            intro a c hac hc
            by_cases hci : c < i
            · exact hsorted a c hac hci
            · have hce : c = i := by omega
              subst hce
              by_cases hae : a = c
              · subst hae; exact Nat.le_refl _
              · have := hsorted a (c - 1) (by omega) (by omega)
                omega
          apply ih (i + 1) prev (by omega) (by omega) (by omega) (by omega) (by omega) hs' _ hbd hpre
          intro k hk1 hk2
          by_cases hki : k < i
          · exact hrun k hk1 hki
          · have : k = i := by omega
            subst this; exact heq
    · simp only [hi, if_false]
      have hin' : i = n := by omega
      subst hin'
      have hsub : prev ≤ i := by omega
      simp only [csub, hsub, if_true, Option.bind_some]
      obtain ⟨b, hb, hbi⟩ := isGrouped_spec eq he (M.fwd s prev) _ (i - prev) (hr.fwd prev) (i - prev) (Nat.le_refl _)
      refine ⟨b, hb, ?_⟩
      rw [hbi]
      constructor
      · intro hwin
        exact ⟨hsorted, contig_extend hsub hsorted hcons hbd hpre hwin⟩
      · intro ⟨_, hc⟩
        exact hc.shift prev

/-- **`pvIsSorted` = the linear-scan specification**, on every sequence (sorted or not, empty or not). -/
theorem isSorted_spec (M : Mem σ α) (eq : α → α → Bool) (he : IsEqv eq) (s : σ) (A : Nat → α × Nat) (n : Nat)
    (hr : MRepr M s A n) (hcons : ConsF eq A n) :
    ∃ b, isSorted M eq s n = some b ∧ (b = true ↔ SortedF A n ∧ ContigF eq A n) := by
  unfold isSorted
  by_cases hn : n = 0
  · subst hn
    simp only [if_true]
    refine ⟨true, rfl, ?_⟩
    simp only [true_iff]
    exact ⟨fun i j _ h => by omega, fun i j k _ _ h => by omega⟩
  · simp only [hn, if_false, (hr 0 (by omega)).2, Option.bind_some]
    apply isSortedLoop_spec M eq he s A n hr hcons (n + 1) 1 0 (by omega) (by omega) (by omega) (by omega) (by omega)
    · intro a c hac hc
      have : a = c := by omega
      subst this; exact Nat.le_refl _
    · intro k _ hk
      have : k = 0 := by omega
      subst this; rfl
    · left; rfl
    · intro a b c _ _ hc; omega

end Momo.Sort
