import Momo.Proof.TableSeg
/-!
  C07, index level: hash / equality through the row store, lookups under the completeness contract of the
  hash tables, invariants of one unique index and of one multi index.
-/
namespace Momo.Table
open List

/-- the contract of the index hash tables (C01 / C13): a lookup of hash code `h` examines every position whose
    entry was inserted under `h` (it may examine others, in any order) -/
def Complete (vis : Vis) : Prop := ∀ h hs i, hs[i]? = some h → i ∈ vis h hs

/-- `DataTraits::AccumulateHashCode` must not depend on the order in which the columns are accumulated
    (the default `hashCode += HashCoder(item)` does not): a key tuple of a query is hashed in query order,
    a raw in index order -/
def AccComm (acc : Acc) : Prop := ∀ h c1 v1 c2 v2, acc (acc h c1 v1) c2 v2 = acc (acc h c2 v2) c1 v1

/-! ### keys, hash codes -/

theorem keyEq_refl (cols : List Nat) (v : List Nat) : keyEq cols v v = true := by
  unfold keyEq; simp

theorem keyEq_symm (cols : List Nat) (v1 v2 : List Nat) : keyEq cols v1 v2 = keyEq cols v2 v1 := by
  unfold keyEq
  congr 1; funext c
  exact Bool.eq_iff_iff.mpr ⟨fun h => by simpa using (by simpa using h : item v1 c = item v2 c).symm,
    fun h => by simpa using (by simpa using h : item v2 c = item v1 c).symm⟩

theorem keyEq_iff (cols : List Nat) (v1 v2 : List Nat) : keyEq cols v1 v2 = true ↔ ∀ c ∈ cols, item v1 c = item v2 c := by
  unfold keyEq; simp

theorem keyEq_trans (cols : List Nat) (v1 v2 v3 : List Nat) (h12 : keyEq cols v1 v2 = true) (h23 : keyEq cols v2 v3 = true) :
    keyEq cols v1 v3 = true := by
  rw [keyEq_iff] at *
  intro c hc; rw [h12 c hc, h23 c hc]

theorem keyEq_congr_left (cols : List Nat) (v1 v2 v3 : List Nat) (h12 : keyEq cols v1 v2 = true) :
    keyEq cols v1 v3 = keyEq cols v2 v3 := by
  apply Bool.eq_iff_iff.mpr
  constructor
  · intro h; exact keyEq_trans cols v2 v1 v3 (by rw [keyEq_symm]; exact h12) h
  · intro h; exact keyEq_trans cols v1 v2 v3 h12 h

theorem hashVals_congr (acc : Acc) (cols : List Nat) (v1 v2 : List Nat) (h : keyEq cols v1 v2 = true) :
    hashVals acc cols v1 = hashVals acc cols v2 := by
  rw [keyEq_iff] at h
  unfold hashVals
  induction cols with
  | nil => rfl
  | cons c cs ih =>
    simp only [foldr_cons]
    rw [ih (fun c' hc' => h c' (mem_cons_of_mem _ hc')), h c mem_cons_self]

theorem tupleEq_iff (t : List (Nat × Nat)) (vals : List Nat) : tupleEq t vals = true ↔ ∀ p ∈ t, item vals p.1 = p.2 := by
  unfold tupleEq; simp

theorem hashTuple_eq (acc : Acc) (t : List (Nat × Nat)) (vals : List Nat) (h : tupleEq t vals = true) :
    hashTuple acc t = hashVals acc (t.map (·.1)) vals := by
  rw [tupleEq_iff] at h
  unfold hashTuple hashVals
  induction t with
  | nil => rfl
  | cons p ps ih =>
    simp only [foldr_cons, map_cons]
    rw [ih (fun q hq => h q (mem_cons_of_mem _ hq)), h p mem_cons_self]

theorem hashVals_perm (acc : Acc) (hc : AccComm acc) (vals : List Nat) {c1 c2 : List Nat} (hp : c1.Perm c2) :
    hashVals acc c1 vals = hashVals acc c2 vals := by
  unfold hashVals
  induction hp with
  | nil => rfl
  | cons x _ ih => simp only [foldr_cons]; rw [ih]
  | swap x y l => simp only [foldr_cons]; exact hc _ _ _ _ _
  | trans _ _ ih1 ih2 => exact ih1.trans ih2

theorem tupleEq_keyEq (t : List (Nat × Nat)) (cols : List Nat) (v1 v2 : List Nat) (hp : (t.map (·.1)).Perm cols)
    (h1 : tupleEq t v1 = true) : keyEq cols v1 v2 = tupleEq t v2 := by
  apply Bool.eq_iff_iff.mpr
  rw [keyEq_iff, tupleEq_iff]
  rw [tupleEq_iff] at h1
  constructor
  · intro h p hp'
    have : p.1 ∈ cols := hp.mem_iff.mp (mem_map_of_mem hp')
    rw [← h p.1 this, h1 p hp']
  · intro h c hc
    have : c ∈ t.map (·.1) := hp.mem_iff.mpr hc
    obtain ⟨p, hp', rfl⟩ := mem_map.mp this
    rw [h1 p hp', h p hp']

/-! ### lookups -/

theorem findPos_some {vis : Vis} {h : Nat} {hs : List Nat} {p : Nat → Bool} {i : Nat} (hf : findPos vis h hs p = some i) :
    i < hs.length ∧ p i = true := by
  unfold findPos at hf
  have := find?_some hf
  simpa using this

theorem findPos_none {vis : Vis} (hc : Complete vis) {h : Nat} {hs : List Nat} {p : Nat → Bool}
    (hf : findPos vis h hs p = none) : ∀ i, hs[i]? = some h → p i = false := by
  intro i hi
  unfold findPos at hf
  rw [find?_eq_none] at hf
  have := hf i (hc h hs i hi)
  have hlt : i < hs.length := by
    rcases List.getElem?_eq_some_iff.mp hi with ⟨h1, _⟩; exact h1
  simpa [hlt] using this

/-! ### the row store -/

def ids (st : Store) : List Nat := st.map (·.id)

theorem rowOf_some {st : Store} {id : Nat} {r : Row} (h : rowOf st id = some r) : r ∈ st ∧ r.id = id := by
  unfold rowOf at h
  exact ⟨mem_of_find?_eq_some h, by simpa using find?_some h⟩

theorem rowOf_mem {st : Store} (hnd : (ids st).Nodup) {r : Row} (hr : r ∈ st) : rowOf st r.id = some r := by
  unfold rowOf
  induction st with
  | nil => simp at hr
  | cons x xs ih =>
    unfold ids at hnd
    rw [map_cons, nodup_cons] at hnd
    rw [find?_cons]
    rcases mem_cons.mp hr with h | h
    · subst h; simp
    · have hne : x.id ≠ r.id := by
        intro e; exact hnd.1 (e ▸ mem_map_of_mem h)
      have : (x.id == r.id) = false := by simp [hne]
      rw [this]
      exact ih hnd.2 h

theorem rowOf_none {st : Store} {id : Nat} (h : id ∉ ids st) : rowOf st id = none := by
  unfold rowOf
  rw [find?_eq_none]
  intro r hr hid
  exact h (by simp at hid; exact hid ▸ mem_map_of_mem hr)

theorem valsOf_mem {st : Store} (hnd : (ids st).Nodup) {r : Row} (hr : r ∈ st) : valsOf st r.id = r.vals := by
  unfold valsOf; rw [rowOf_mem hnd hr]

theorem addrOf_mem {st : Store} (hnd : (ids st).Nodup) {r : Row} (hr : r ∈ st) : addrOf st r.id = r.addr := by
  unfold addrOf; rw [rowOf_mem hnd hr]

theorem mem_ids_iff {st : Store} {id : Nat} : id ∈ ids st ↔ ∃ r ∈ st, r.id = id := by
  unfold ids; simp

theorem rowOf_append_left {st : Store} (extra : Store) {id : Nat} (h : id ∈ ids st) : rowOf (st ++ extra) id = rowOf st id := by
  unfold rowOf
  rw [find?_append]
  obtain ⟨r, hr, hid⟩ := mem_ids_iff.mp h
  have : (st.find? (fun r => r.id == id)).isSome := by
    rw [find?_isSome]; exact ⟨r, hr, by simp [hid]⟩
  cases hh : st.find? (fun r => r.id == id) with
  | none => rw [hh] at this; simp at this
  | some x => simp

theorem rowOf_append_right {st : Store} (r : Row) (h : r.id ∉ ids st) : rowOf (st ++ [r]) r.id = some r := by
  unfold rowOf
  rw [find?_append]
  have := rowOf_none h
  unfold rowOf at this
  rw [this]; simp

theorem valsOf_append_left {st : Store} (extra : Store) {id : Nat} (h : id ∈ ids st) : valsOf (st ++ extra) id = valsOf st id := by
  unfold valsOf; rw [rowOf_append_left extra h]

theorem addrOf_append_left {st : Store} (extra : Store) {id : Nat} (h : id ∈ ids st) : addrOf (st ++ extra) id = addrOf st id := by
  unfold addrOf; rw [rowOf_append_left extra h]

theorem valsOf_append_right {st : Store} (r : Row) (h : r.id ∉ ids st) : valsOf (st ++ [r]) r.id = r.vals := by
  unfold valsOf; rw [rowOf_append_right r h]

theorem addrOf_append_right {st : Store} (r : Row) (h : r.id ∉ ids st) : addrOf (st ++ [r]) r.id = r.addr := by
  unfold addrOf; rw [rowOf_append_right r h]

/-! ### one unique index -/

/-- invariant of a unique hash index with respect to the rows `st` of the table -/
structure UInv (acc : Acc) (st : Store) (u : UIdx) : Prop where
  colsNodup : u.cols.Nodup
  noPos : u.posAdd = none ∧ u.posRem = none
  /-- the entries are exactly the rows -/
  perm : (u.ents.map (·.id)).Perm (ids st)
  /-- every entry sits where the hash code of its row's current key puts it -/
  hash : ∀ e ∈ u.ents, e.h0 = hashVals acc u.cols (valsOf st e.id)
  /-- no two rows are equal on the columns of the index -/
  uniq : ∀ x ∈ ids st, ∀ y ∈ ids st, keyEq u.cols (valsOf st x) (valsOf st y) = true → x = y

theorem UIdx.idAt_lt (u : UIdx) {i : Nat} (h : i < u.ents.length) : u.idAt i = u.ents[i].id := by
  unfold UIdx.idAt
  rw [getD_eq_getElem?_getD, getElem?_eq_getElem h]; rfl

theorem UIdx.idAt_mem (u : UIdx) {i : Nat} (h : i < u.ents.length) : u.idAt i ∈ u.ents.map (·.id) := by
  rw [u.idAt_lt h]; exact mem_map_of_mem (getElem_mem h)

/-- lookup in a unique index: `look` = the values the equality function reads for an entry -/
theorem UIdx.find_some {vis : Vis} (u : UIdx) (K : List Nat) (look : Nat → List Nat) (h : Nat) {p : Nat}
    (hf : u.find vis h (fun id => keyEq u.cols K (look id)) = some p) :
    p < u.ents.length ∧ keyEq u.cols K (look (u.idAt p)) = true := by
  unfold UIdx.find at hf
  have := findPos_some hf
  simpa using this

theorem UIdx.find_none {vis : Vis} (hc : Complete vis) (acc : Acc) (u : UIdx) (K : List Nat) (look : Nat → List Nat)
    (hh : ∀ e ∈ u.ents, e.h0 = hashVals acc u.cols (look e.id))
    (hf : u.find vis (hashVals acc u.cols K) (fun id => keyEq u.cols K (look id)) = none) :
    ∀ e ∈ u.ents, keyEq u.cols K (look e.id) = false := by
  intro e he
  obtain ⟨i, hi, rfl⟩ := getElem_of_mem he
  unfold UIdx.find at hf
  by_contra hne
  have hk : keyEq u.cols K (look u.ents[i].id) = true := by simpa using hne
  have hhash : u.ents[i].h0 = hashVals acc u.cols K := by
    rw [hh _ (getElem_mem hi)]; exact (hashVals_congr acc u.cols _ _ hk).symm
  have := findPos_none hc hf i (by rw [getElem?_map, getElem?_eq_getElem hi]; simp [hhash])
  rw [u.idAt_lt hi] at this
  simp only at this
  rw [hk] at this; exact absurd this (by simp)

/-- what `Add` leaves behind when the key was not there -/
def uAdded (acc : Acc) (u : UIdx) (raw : Nat) (vals : List Nat) : UIdx :=
  { u with ents := u.ents ++ [⟨raw, hashVals acc u.cols vals⟩], posAdd := some u.ents.length }

theorem rejectAdd_uAdded (acc : Acc) (u : UIdx) (raw : Nat) (vals : List Nat) (h : u.posAdd = none) :
    (uAdded acc u raw vals).rejectAdd = u := by
  unfold UIdx.rejectAdd uAdded
  simp only
  rw [eraseIdx_append_of_length_le (Nat.le_refl _)]
  cases u; simp_all

theorem rejectAdd_noPos (u : UIdx) (h : u.posAdd = none) : u.rejectAdd = u := by
  unfold UIdx.rejectAdd; rw [h]

section addNew
variable {vis : Vis} (hc : Complete vis) (acc : Acc) {st0 : Store} (hnd : (ids st0).Nodup) {r : Row} (hr : r.id ∉ ids st0)
include hc hnd hr

/-- `Add(raw)` for a raw that is not in the table yet: either the index already holds a row with this key
    (then it is returned and nothing changes), or no row has this key and the raw is appended -/
theorem UIdx.add_new (u : UIdx) (hu : UInv acc st0 u) (fail : Bool) :
    (∃ x ∈ st0, keyEq u.cols r.vals x.vals = true ∧
        u.add vis acc (st0 ++ [r]) r.id none fail = some (u, x.id)) ∨
    ((∀ x ∈ st0, keyEq u.cols r.vals x.vals = false) ∧
        u.add vis acc (st0 ++ [r]) r.id none fail = if fail then none else some (uAdded acc u r.id r.vals, r.id)) := by
  have hvr : valsOf (st0 ++ [r]) r.id = r.vals := valsOf_append_right r hr
  have hmem : ∀ e ∈ u.ents, e.id ∈ ids st0 := fun e he => hu.perm.mem_iff.mp (mem_map_of_mem he)
  have hlook : ∀ e ∈ u.ents, e.h0 = hashVals acc u.cols (valsOf (st0 ++ [r]) e.id) := by
    intro e he; rw [valsOf_append_left _ (hmem e he)]; exact hu.hash e he
  unfold UIdx.add UIdx.findRaw
  rw [hvr]
  cases hf : u.find vis (hashVals acc u.cols r.vals) (fun id => keyEq u.cols r.vals (valsOf (st0 ++ [r]) id)) with
  | some p =>
    left
    obtain ⟨hp, hk⟩ := u.find_some r.vals (valsOf (st0 ++ [r])) _ hf
    have hin : u.idAt p ∈ ids st0 := hu.perm.mem_iff.mp (u.idAt_mem hp)
    obtain ⟨x, hx, hxid⟩ := mem_ids_iff.mp hin
    refine ⟨x, hx, ?_, ?_⟩
    · rw [valsOf_append_left _ hin, ← hxid, valsOf_mem hnd hx] at hk; exact hk
    · simp [hxid]
  | none =>
    right
    have hn := UIdx.find_none hc acc u r.vals (valsOf (st0 ++ [r])) hlook hf
    refine ⟨?_, by simp [uAdded]⟩
    intro x hx
    have hxin : x.id ∈ u.ents.map (·.id) := hu.perm.mem_iff.mpr (mem_ids_iff.mpr ⟨x, hx, rfl⟩)
    obtain ⟨e, he, hex⟩ := mem_map.mp hxin
    have := hn e he
    rw [hex, valsOf_append_left _ (mem_ids_iff.mpr ⟨x, hx, rfl⟩), valsOf_mem hnd hx] at this
    exact this

end addNew

/-! ### one multi index -/

/-- invariant of a multi hash index with respect to the rows `st` of the table -/
structure MInv (acc : Acc) (st : Store) (m : MIdx) : Prop where
  colsNodup : m.cols.Nodup
  noPos : m.kAdd = none ∧ m.kRem = none
  /-- the groups together hold every row exactly once -/
  perm : (m.groups.flatMap Group.members).Perm (ids st)
  /-- every key sits where the hash code of its key row puts it -/
  hash : ∀ g ∈ m.groups, g.h0 = hashVals acc m.cols (valsOf st g.key)
  /-- every raw of a group has the key of the group -/
  same : ∀ g ∈ m.groups, ∀ x ∈ g.raws, keyEq m.cols (valsOf st g.key) (valsOf st x) = true
  /-- different groups have different keys -/
  distinct : (m.groups.map (·.key)).Pairwise (fun k1 k2 => keyEq m.cols (valsOf st k1) (valsOf st k2) = false)
  /-- full segments of every raw array are sorted by address -/
  sorted : ∀ g ∈ m.groups, SegSorted (addrOf st) g.raws

/-- injectivity of addresses on the rows of the store -/
def AddrInj (st : Store) : Prop := (st.map (·.addr)).Nodup

theorem Sorted_congr {addr addr' : Nat → Nat} {l : List Nat} (h : ∀ x ∈ l, addr x = addr' x) :
    Sorted addr l ↔ Sorted addr' l := by
  unfold Sorted
  apply Pairwise.iff_of_mem
  intro a b ha hb
  rw [h a ha, h b hb]

theorem SegSorted_congr {addr addr' : Nat → Nat} {l : List Nat} (h : ∀ x ∈ l, addr x = addr' x) :
    SegSorted addr l ↔ SegSorted addr' l := by
  unfold SegSorted
  constructor
  · intro hs k hk
    exact (Sorted_congr (fun x hx => h x ((slice_sublist l _ _).subset hx))).mp (hs k hk)
  · intro hs k hk
    exact (Sorted_congr (fun x hx => h x ((slice_sublist l _ _).subset hx))).mpr (hs k hk)

theorem MIdx.keyAt_lt (m : MIdx) {i : Nat} (h : i < m.groups.length) : m.keyAt i = m.groups[i].key := by
  unfold MIdx.keyAt
  rw [getD_eq_getElem?_getD, getElem?_eq_getElem h]; rfl

theorem MIdx.find_some {vis : Vis} (m : MIdx) (K : List Nat) (look : Nat → List Nat) (h : Nat) {p : Nat}
    (hf : m.find vis h (fun id => keyEq m.cols K (look id)) = some p) :
    p < m.groups.length ∧ keyEq m.cols K (look (m.keyAt p)) = true := by
  unfold MIdx.find at hf
  have := findPos_some hf
  simpa using this

theorem MIdx.find_none {vis : Vis} (hc : Complete vis) (acc : Acc) (m : MIdx) (K : List Nat) (look : Nat → List Nat)
    (hh : ∀ g ∈ m.groups, g.h0 = hashVals acc m.cols (look g.key))
    (hf : m.find vis (hashVals acc m.cols K) (fun id => keyEq m.cols K (look id)) = none) :
    ∀ g ∈ m.groups, keyEq m.cols K (look g.key) = false := by
  intro g hg
  obtain ⟨i, hi, rfl⟩ := getElem_of_mem hg
  unfold MIdx.find at hf
  by_contra hne
  have hk : keyEq m.cols K (look m.groups[i].key) = true := by simpa using hne
  have hhash : m.groups[i].h0 = hashVals acc m.cols K := by
    rw [hh _ (getElem_mem hi)]; exact (hashVals_congr acc m.cols _ _ hk).symm
  have := findPos_none hc hf i (by rw [getElem?_map, getElem?_eq_getElem hi]; simp [hhash])
  rw [m.keyAt_lt hi] at this
  simp only at this
  rw [hk] at this; exact absurd this (by simp)

theorem UIdx.find_none' {vis : Vis} (hc : Complete vis) (u : UIdx) (h : Nat) (pred : Nat → Bool)
    (hh : ∀ e ∈ u.ents, pred e.id = true → e.h0 = h) (hf : u.find vis h pred = none) : ∀ e ∈ u.ents, pred e.id = false := by
  intro e he
  obtain ⟨i, hi, rfl⟩ := getElem_of_mem he
  unfold UIdx.find at hf
  by_contra hne
  have hk : pred u.ents[i].id = true := by simpa using hne
  have := findPos_none hc hf i (by rw [getElem?_map, getElem?_eq_getElem hi]; simp [hh _ (getElem_mem hi) hk])
  rw [u.idAt_lt hi] at this
  rw [hk] at this; exact absurd this (by simp)

theorem UIdx.find_some' {vis : Vis} (u : UIdx) (h : Nat) (pred : Nat → Bool) {p : Nat} (hf : u.find vis h pred = some p) :
    p < u.ents.length ∧ pred (u.idAt p) = true := by
  unfold UIdx.find at hf
  simpa using findPos_some hf

theorem MIdx.find_none' {vis : Vis} (hc : Complete vis) (m : MIdx) (h : Nat) (pred : Nat → Bool)
    (hh : ∀ g ∈ m.groups, pred g.key = true → g.h0 = h) (hf : m.find vis h pred = none) : ∀ g ∈ m.groups, pred g.key = false := by
  intro g hg
  obtain ⟨i, hi, rfl⟩ := getElem_of_mem hg
  unfold MIdx.find at hf
  by_contra hne
  have hk : pred m.groups[i].key = true := by simpa using hne
  have := findPos_none hc hf i (by rw [getElem?_map, getElem?_eq_getElem hi]; simp [hh _ (getElem_mem hi) hk])
  rw [m.keyAt_lt hi] at this
  rw [hk] at this; exact absurd this (by simp)

theorem MIdx.find_some' {vis : Vis} (m : MIdx) (h : Nat) (pred : Nat → Bool) {p : Nat} (hf : m.find vis h pred = some p) :
    p < m.groups.length ∧ pred (m.keyAt p) = true := by
  unfold MIdx.find at hf
  simpa using findPos_some hf

theorem modify_split {α : Type} (l A B : List α) (g : α) (f : α → α) (h : l = A ++ g :: B) :
    l.modify A.length f = A ++ f g :: B := by
  subst h
  rw [modify_eq_take_drop]
  simp

theorem getD_split {α : Type} (A B : List α) (g d : α) : (A ++ g :: B).getD A.length d = g := by
  rw [getD_eq_getElem?_getD, getElem?_append_right (Nat.le_refl _)]; simp

theorem split_at {α : Type} (l : List α) (p : Nat) (h : p < l.length) : ∃ A B, l = A ++ l[p] :: B ∧ A.length = p :=
  ⟨l.take p, l.drop (p + 1), by rw [← List.drop_eq_getElem_cons h, take_append_drop], by rw [length_take]; omega⟩

/-- what `Add` leaves behind when the key was not there -/
def mAddedNew (acc : Acc) (m : MIdx) (raw : Nat) (vals : List Nat) : MIdx :=
  { m with groups := m.groups ++ [⟨raw, hashVals acc m.cols vals, []⟩], kAdd := some m.groups.length }

/-- two multi indexes that differ only in the order of the raws inside the groups -/
def MEquiv (m m' : MIdx) : Prop :=
  m'.cols = m.cols ∧ m'.kAdd = m.kAdd ∧ m'.kRem = m.kRem ∧
  Forall₂ (fun g g' => g'.key = g.key ∧ g'.h0 = g.h0 ∧ g'.raws.Perm g.raws) m.groups m'.groups

theorem MEquiv.refl (m : MIdx) : MEquiv m m :=
  ⟨rfl, rfl, rfl, forall₂_same.mpr (fun g _ => ⟨rfl, rfl, Perm.refl _⟩)⟩

theorem forall₂_split {α : Type} (R : α → α → Prop) (A B : List α) (g g' : α) (hr : ∀ x, R x x) (h : R g g') :
    Forall₂ R (A ++ g :: B) (A ++ g' :: B) := by
  apply rel_append
  · exact forall₂_same.mpr (fun x _ => hr x)
  · exact Forall₂.cons h (forall₂_same.mpr (fun x _ => hr x))

section addNewM
variable {vis : Vis} (hc : Complete vis) (acc : Acc) {st0 : Store} (hnd : (ids st0).Nodup) {r : Row} (hr : r.id ∉ ids st0)
include hc hnd hr

/-- `MultiHash::Add(raw)` for a raw that is not in the table yet: either a group with its key exists (position
    `p`) and `pvAdd` runs on it, or a new group is appended -/
theorem MIdx.add_new (m : MIdx) (hm : MInv acc st0 m) :
    (∃ A g B, m.groups = A ++ g :: B ∧ keyEq m.cols r.vals (valsOf st0 g.key) = true ∧
        ∀ fail, m.add vis acc (st0 ++ [r]) r.id fail =
          if fail then ({ m with groups := A ++ { g with raws := pvAddSort (addrOf (st0 ++ [r])) g.raws } :: B }, false)
          else ({ m with groups := A ++ { g with raws := pvAddSort (addrOf (st0 ++ [r])) g.raws ++ [r.id] } :: B,
                         kAdd := some A.length }, true)) ∨
    ((∀ g ∈ m.groups, keyEq m.cols r.vals (valsOf st0 g.key) = false) ∧
        ∀ fail, m.add vis acc (st0 ++ [r]) r.id fail = if fail then (m, false) else (mAddedNew acc m r.id r.vals, true)) := by
  have hvr : valsOf (st0 ++ [r]) r.id = r.vals := valsOf_append_right r hr
  have hkeymem : ∀ g ∈ m.groups, g.key ∈ ids st0 := fun g hg =>
    hm.perm.mem_iff.mp (mem_flatMap.mpr ⟨g, hg, by simp [Group.members]⟩)
  have hlook : ∀ g ∈ m.groups, g.h0 = hashVals acc m.cols (valsOf (st0 ++ [r]) g.key) := by
    intro g hg; rw [valsOf_append_left _ (hkeymem g hg)]; exact hm.hash g hg
  unfold MIdx.add MIdx.findRaw
  rw [hvr]
  cases hf : m.find vis (hashVals acc m.cols r.vals) (fun id => keyEq m.cols r.vals (valsOf (st0 ++ [r]) id)) with
  | some p =>
    left
    obtain ⟨hp, hk⟩ := m.find_some r.vals (valsOf (st0 ++ [r])) _ hf
    obtain ⟨A, g, B, hsplit, hA⟩ : ∃ A g B, m.groups = A ++ g :: B ∧ A.length = p := by
      obtain ⟨A, B, h1, h2⟩ := split_at m.groups p hp
      exact ⟨A, _, B, h1, h2⟩
    subst hA
    have hkey : m.keyAt A.length = g.key := by
      unfold MIdx.keyAt; rw [hsplit, getD_split]
    have hgm : g ∈ m.groups := by rw [hsplit]; simp
    refine ⟨A, g, B, hsplit, ?_, ?_⟩
    · rw [hkey, valsOf_append_left _ (hkeymem _ hgm)] at hk; exact hk
    · intro fail
      have hne : (m.keyAt A.length != r.id) = true := by
        rw [hkey]
        have : g.key ≠ r.id := fun e => hr (e ▸ hkeymem _ hgm)
        simpa using this
      simp only [hne, if_true]
      unfold MIdx.pvAdd
      cases fail <;> simp <;> exact modify_split m.groups A B _ _ hsplit
  | none =>
    right
    have hn := MIdx.find_none hc acc m r.vals (valsOf (st0 ++ [r])) hlook hf
    refine ⟨?_, fun fail => by cases fail <;> simp [mAddedNew]⟩
    intro g hg
    have := hn g hg
    rw [valsOf_append_left _ (hkeymem g hg)] at this
    exact this

end addNewM

/-! ### facts about the members of a group -/

theorem addrOf_inj {st : Store} (hnd : (ids st).Nodup) (hai : AddrInj st) {x y : Nat} (hx : x ∈ ids st) (hy : y ∈ ids st)
    (h : addrOf st x = addrOf st y) : x = y := by
  obtain ⟨rx, hrx, rfl⟩ := mem_ids_iff.mp hx
  obtain ⟨ry, hry, rfl⟩ := mem_ids_iff.mp hy
  rw [addrOf_mem hnd hrx, addrOf_mem hnd hry] at h
  unfold AddrInj at hai
  have := (nodup_map_iff_inj_on (Nodup.of_map _ hai)).mp hai rx hrx ry hry h
  rw [this]

theorem MInv.members_sub {acc : Acc} {st : Store} {m : MIdx} (hm : MInv acc st m) {g : Group} (hg : g ∈ m.groups) :
    ∀ x ∈ g.members, x ∈ ids st := fun x hx => hm.perm.mem_iff.mp (mem_flatMap.mpr ⟨g, hg, hx⟩)

theorem MInv.members_nodup {acc : Acc} {st : Store} {m : MIdx} (hm : MInv acc st m) (hnd : (ids st).Nodup) {g : Group}
    (hg : g ∈ m.groups) : g.members.Nodup :=
  (nodup_flatMap.mp (hm.perm.nodup_iff.mpr hnd)).1 g hg

theorem MInv.members_addr_nodup {acc : Acc} {st : Store} {m : MIdx} (hm : MInv acc st m) (hnd : (ids st).Nodup)
    (hai : AddrInj st) {g : Group} (hg : g ∈ m.groups) : (g.members.map (addrOf st)).Nodup :=
  Nodup.map_on (fun x hx y hy h => addrOf_inj hnd hai (hm.members_sub hg x hx) (hm.members_sub hg y hy) h)
    (hm.members_nodup hnd hg)

/-- every row is in exactly one group, the one with its key -/
theorem MInv.group_of {acc : Acc} {st : Store} {m : MIdx} (hm : MInv acc st m) {x : Nat} (hx : x ∈ ids st) :
    ∃ g ∈ m.groups, x ∈ g.members := by
  have := hm.perm.mem_iff.mpr hx
  obtain ⟨g, hg, hxg⟩ := mem_flatMap.mp this
  exact ⟨g, hg, hxg⟩

theorem MInv.member_key {acc : Acc} {st : Store} {m : MIdx} (hm : MInv acc st m) {g : Group} (hg : g ∈ m.groups)
    {x : Nat} (hx : x ∈ g.members) : keyEq m.cols (valsOf st g.key) (valsOf st x) = true := by
  unfold Group.members at hx
  rcases mem_cons.mp hx with h | h
  · rw [h]; exact keyEq_refl _ _
  · exact hm.same g hg x h

/-! ### adding a new row keeps the invariants -/

theorem ids_append (st : Store) (r : Row) : ids (st ++ [r]) = ids st ++ [r.id] := by
  unfold ids; simp

theorem UInv_add (acc : Acc) {st0 : Store} (hnd : (ids st0).Nodup) {r : Row} (hr : r.id ∉ ids st0) (u : UIdx)
    (hu : UInv acc st0 u) (hno : ∀ x ∈ st0, keyEq u.cols r.vals x.vals = false) :
    UInv acc (st0 ++ [r]) (uAdded acc u r.id r.vals).acceptAdd := by
  refine ⟨hu.colsNodup, ⟨rfl, hu.noPos.2⟩, ?_, ?_, ?_⟩
  · show ((u.ents ++ [UEntry.mk r.id (hashVals acc u.cols r.vals)]).map (·.id)).Perm _
    rw [map_append, ids_append]
    exact Perm.append_right _ hu.perm
  · intro e he
    have he' : e ∈ u.ents ++ [⟨r.id, hashVals acc u.cols r.vals⟩] := he
    rcases mem_append.mp he' with h | h
    · have hin : e.id ∈ ids st0 := hu.perm.mem_iff.mp (mem_map_of_mem h)
      show e.h0 = hashVals acc u.cols (valsOf (st0 ++ [r]) e.id)
      rw [valsOf_append_left _ hin]; exact hu.hash e h
    · simp at h; subst h
      show _ = hashVals acc u.cols (valsOf (st0 ++ [r]) r.id)
      rw [valsOf_append_right r hr]
  · intro x hx y hy hk
    show x = y
    replace hk : keyEq u.cols (valsOf (st0 ++ [r]) x) (valsOf (st0 ++ [r]) y) = true := hk
    rw [ids_append] at hx hy
    have conv : ∀ z ∈ ids st0, keyEq u.cols r.vals (valsOf st0 z) = false := by
      intro z hz
      obtain ⟨row, hrow, rfl⟩ := mem_ids_iff.mp hz
      rw [valsOf_mem hnd hrow]; exact hno row hrow
    rcases mem_append.mp hx with a | a <;> rcases mem_append.mp hy with b | b
    · rw [valsOf_append_left _ a, valsOf_append_left _ b] at hk
      exact hu.uniq x a y b hk
    · simp at b; subst b
      rw [valsOf_append_left _ a, valsOf_append_right r hr, keyEq_symm, conv x a] at hk
      exact absurd hk (by simp)
    · simp at a; subst a
      rw [valsOf_append_left _ b, valsOf_append_right r hr, conv y b] at hk
      exact absurd hk (by simp)
    · simp at a b; rw [a, b]

/-- replacing the raw array of one group by a rearrangement of it plus raws `extra` that have the key of the group
    (`extra = []`: what a rejected or failed `Add` leaves; `extra = [new raw]`: an accepted one) -/
theorem MInv_replace_raws (acc : Acc) {st0 st : Store} {m : MIdx} (hm : MInv acc st0 m)
    (hvals : ∀ x ∈ ids st0, valsOf st x = valsOf st0 x) (haddr : ∀ x ∈ ids st0, addrOf st x = addrOf st0 x)
    (A B : List Group) (g : Group) (hsplit : m.groups = A ++ g :: B) (raws' extra : List Nat)
    (hids : (ids st).Perm (ids st0 ++ extra))
    (hp : raws'.Perm (g.raws ++ extra))
    (hk : ∀ x ∈ extra, keyEq m.cols (valsOf st g.key) (valsOf st x) = true)
    (hs : SegSorted (addrOf st) raws') :
    MInv acc st { m with groups := A ++ { g with raws := raws' } :: B } := by
  have hkeymem : ∀ g' ∈ m.groups, g'.key ∈ ids st0 := fun g' hg' => hm.members_sub hg' _ (by simp [Group.members])
  have hgm : g ∈ m.groups := by rw [hsplit]; simp
  have hkeys : (A ++ { g with raws := raws' } :: B).map (·.key) = m.groups.map (·.key) := by rw [hsplit]; simp
  refine ⟨hm.colsNodup, hm.noPos, ?_, ?_, ?_, ?_, ?_⟩
  · -- perm
    show ((A ++ { g with raws := raws' } :: B).flatMap Group.members).Perm (ids st)
    refine Perm.trans ?_ hids.symm
    have h0 := hm.perm
    rw [hsplit] at h0
    simp only [flatMap_append, flatMap_cons] at h0 ⊢
    have h1 : (Group.members { g with raws := raws' }).Perm (g.members ++ extra) := by
      unfold Group.members; simp only [cons_append]; exact Perm.cons _ hp
    have h2 : (A.flatMap Group.members ++ (Group.members { g with raws := raws' } ++ B.flatMap Group.members)).Perm
        (A.flatMap Group.members ++ ((g.members ++ extra) ++ B.flatMap Group.members)) :=
      Perm.append_left _ (Perm.append_right _ h1)
    refine h2.trans ?_
    have h3 : (A.flatMap Group.members ++ ((g.members ++ extra) ++ B.flatMap Group.members)).Perm
        ((A.flatMap Group.members ++ (g.members ++ B.flatMap Group.members)) ++ extra) := by
      rw [append_assoc g.members, ← append_assoc (A.flatMap Group.members), ← append_assoc (A.flatMap Group.members),
        append_assoc (A.flatMap Group.members ++ g.members)]
      exact Perm.append_left _ perm_append_comm
    exact h3.trans (Perm.append_right _ h0)
  · -- hash
    intro g' hg'
    have : ∃ g0 ∈ m.groups, g0.key = g'.key ∧ g0.h0 = g'.h0 := by
      rcases mem_append.mp hg' with h | h
      · exact ⟨g', by rw [hsplit]; exact mem_append_left _ h, rfl, rfl⟩
      · rcases mem_cons.mp h with h | h
        · exact ⟨g, hgm, by rw [h], by rw [h]⟩
        · exact ⟨g', by rw [hsplit]; exact mem_append_right _ (mem_cons_of_mem _ h), rfl, rfl⟩
    obtain ⟨g0, hg0, hk0, hh0⟩ := this
    show g'.h0 = hashVals acc m.cols (valsOf st g'.key)
    rw [← hk0, ← hh0, hvals _ (hkeymem g0 hg0)]; exact hm.hash g0 hg0
  · -- same
    intro g' hg' x hx
    show keyEq m.cols (valsOf st g'.key) (valsOf st x) = true
    have old : ∀ g0 ∈ m.groups, ∀ y ∈ g0.raws, keyEq m.cols (valsOf st g0.key) (valsOf st y) = true := by
      intro g0 hg0 y hy
      rw [hvals _ (hkeymem g0 hg0), hvals _ (hm.members_sub hg0 y (by simp [Group.members, hy]))]
      exact hm.same g0 hg0 y hy
    rcases mem_append.mp hg' with h | h
    · exact old g' (by rw [hsplit]; exact mem_append_left _ h) x hx
    · rcases mem_cons.mp h with h | h
      · subst h
        simp only at hx ⊢
        rcases mem_append.mp (hp.mem_iff.mp hx) with h1 | h1
        · exact old g hgm x h1
        · exact hk x h1
      · exact old g' (by rw [hsplit]; exact mem_append_right _ (mem_cons_of_mem _ h)) x hx
  · -- distinct
    show ((A ++ { g with raws := raws' } :: B).map (·.key)).Pairwise _
    rw [hkeys]
    refine hm.distinct.imp_of_mem ?_
    intro a b ha hb hab
    obtain ⟨ga, hga, rfl⟩ := mem_map.mp ha
    obtain ⟨gb, hgb, rfl⟩ := mem_map.mp hb
    rw [hvals _ (hkeymem ga hga), hvals _ (hkeymem gb hgb)]; exact hab
  · -- sorted
    intro g' hg'
    have old : ∀ g0 ∈ m.groups, SegSorted (addrOf st) g0.raws := by
      intro g0 hg0
      refine (SegSorted_congr ?_).mpr (hm.sorted g0 hg0)
      intro y hy; exact haddr y (hm.members_sub hg0 y (by simp [Group.members, hy]))
    rcases mem_append.mp hg' with h | h
    · exact old g' (by rw [hsplit]; exact mem_append_left _ h)
    · rcases mem_cons.mp h with h | h
      · subst h; exact hs
      · exact old g' (by rw [hsplit]; exact mem_append_right _ (mem_cons_of_mem _ h))

/-- a new key: the group of a new row whose key no group has -/
theorem MInv_append_group (acc : Acc) {st0 : Store} {m : MIdx} (hm : MInv acc st0 m) {r : Row} (hr : r.id ∉ ids st0)
    (hno : ∀ g ∈ m.groups, keyEq m.cols r.vals (valsOf st0 g.key) = false) :
    MInv acc (st0 ++ [r]) (mAddedNew acc m r.id r.vals).acceptAdd := by
  have hkeymem : ∀ g' ∈ m.groups, g'.key ∈ ids st0 := fun g' hg' => hm.members_sub hg' _ (by simp [Group.members])
  have hvr : valsOf (st0 ++ [r]) r.id = r.vals := valsOf_append_right r hr
  refine ⟨hm.colsNodup, ⟨rfl, hm.noPos.2⟩, ?_, ?_, ?_, ?_, ?_⟩
  · show ((m.groups ++ [Group.mk r.id (hashVals acc m.cols r.vals) []]).flatMap Group.members).Perm _
    rw [flatMap_append, ids_append]
    simp only [flatMap_cons, flatMap_nil, Group.members, append_nil]
    exact Perm.append_right _ hm.perm
  · intro g hg
    have hg' : g ∈ m.groups ++ [Group.mk r.id (hashVals acc m.cols r.vals) []] := hg
    show g.h0 = hashVals acc m.cols (valsOf (st0 ++ [r]) g.key)
    rcases mem_append.mp hg' with h | h
    · rw [valsOf_append_left _ (hkeymem g h)]; exact hm.hash g h
    · simp at h; subst h; simp only; rw [hvr]
  · intro g hg x hx
    have hg' : g ∈ m.groups ++ [Group.mk r.id (hashVals acc m.cols r.vals) []] := hg
    show keyEq m.cols (valsOf (st0 ++ [r]) g.key) (valsOf (st0 ++ [r]) x) = true
    rcases mem_append.mp hg' with h | h
    · rw [valsOf_append_left _ (hkeymem g h), valsOf_append_left _ (hm.members_sub h x (by simp [Group.members, hx]))]
      exact hm.same g h x hx
    · simp at h; subst h; simp at hx
  · show ((m.groups ++ [Group.mk r.id (hashVals acc m.cols r.vals) []]).map (·.key)).Pairwise _
    rw [map_append, pairwise_append]
    refine ⟨?_, by simp, ?_⟩
    · refine hm.distinct.imp_of_mem ?_
      intro a b ha hb hab
      obtain ⟨ga, hga, rfl⟩ := mem_map.mp ha
      obtain ⟨gb, hgb, rfl⟩ := mem_map.mp hb
      rw [valsOf_append_left _ (hkeymem ga hga), valsOf_append_left _ (hkeymem gb hgb)]; exact hab
    · intro a ha b hb
      obtain ⟨ga, hga, rfl⟩ := mem_map.mp ha
      simp at hb; subst hb
      rw [valsOf_append_left _ (hkeymem ga hga), hvr, keyEq_symm]
      exact hno ga hga
  · intro g hg
    have hg' : g ∈ m.groups ++ [Group.mk r.id (hashVals acc m.cols r.vals) []] := hg
    rcases mem_append.mp hg' with h | h
    · refine (SegSorted_congr ?_).mpr (hm.sorted g h)
      intro y hy; exact addrOf_append_left _ (hm.members_sub h y (by simp [Group.members, hy]))
    · simp at h; subst h
      intro k hk; simp at hk

theorem rejectAdd_mAddedNew (acc : Acc) (m : MIdx) (raw : Nat) (vals : List Nat) (h : m.kAdd = none) :
    (mAddedNew acc m raw vals).rejectAdd = m := by
  unfold MIdx.rejectAdd mAddedNew
  simp only
  rw [getD_eq_getElem?_getD, getElem?_append_right (Nat.le_refl _)]
  simp only [Nat.sub_self, getElem?_cons_zero, Option.getD_some, length_nil, Nat.lt_irrefl, if_false]
  rw [eraseIdx_append_of_length_le (Nat.le_refl _)]
  cases m; simp_all

theorem rejectAdd_noPos_m (m : MIdx) (h : m.kAdd = none) : m.rejectAdd = m := by
  unfold MIdx.rejectAdd; rw [h]

/-! ### the invariants read the store only through `ids`, `valsOf`, `addrOf` -/

/-- two stores that hold the same raws with the same values at the same addresses (row numbers may differ) -/
def StoreSim (st st' : Store) : Prop :=
  (ids st').Perm (ids st) ∧ (∀ x, valsOf st' x = valsOf st x) ∧ (∀ x, addrOf st' x = addrOf st x)

theorem StoreSim.refl (st : Store) : StoreSim st st := ⟨Perm.refl _, fun _ => rfl, fun _ => rfl⟩

theorem StoreSim.trans {a b c : Store} (h1 : StoreSim a b) (h2 : StoreSim b c) : StoreSim a c :=
  ⟨h2.1.trans h1.1, fun x => (h2.2.1 x).trans (h1.2.1 x), fun x => (h2.2.2 x).trans (h1.2.2 x)⟩

theorem rowOf_forall₂ {st st' : Store}
    (h : Forall₂ (fun a b : Row => b.id = a.id ∧ b.vals = a.vals ∧ b.addr = a.addr) st st') (x : Nat) :
    (rowOf st' x).map (fun r => (r.vals, r.addr)) = (rowOf st x).map (fun r => (r.vals, r.addr)) := by
  unfold rowOf
  induction h with
  | nil => rfl
  | @cons a b l1 l2 hab _ ih =>
    rw [find?_cons, find?_cons, hab.1]
    by_cases hx : a.id = x
    · have : (a.id == x) = true := by simp [hx]
      rw [this]; simp [hab.2.1, hab.2.2]
    · have : (a.id == x) = false := by simp [hx]
      rw [this]; exact ih

theorem ids_forall₂ {st st' : Store}
    (h : Forall₂ (fun a b : Row => b.id = a.id ∧ b.vals = a.vals ∧ b.addr = a.addr) st st') : ids st' = ids st := by
  unfold ids
  induction h with
  | nil => rfl
  | cons hab _ ih => simp only [map_cons]; rw [hab.1, ih]

theorem storeSim_of_forall₂ {st st' : Store}
    (h : Forall₂ (fun a b : Row => b.id = a.id ∧ b.vals = a.vals ∧ b.addr = a.addr) st st') : StoreSim st st' := by
  refine ⟨Perm.of_eq (ids_forall₂ h), ?_, ?_⟩
  · intro x
    unfold valsOf
    have := rowOf_forall₂ h x
    cases h1 : rowOf st' x <;> cases h2 : rowOf st x <;> rw [h1, h2] at this <;> simp at this ⊢
    exact this.1
  · intro x
    unfold addrOf
    have := rowOf_forall₂ h x
    cases h1 : rowOf st' x <;> cases h2 : rowOf st x <;> rw [h1, h2] at this <;> simp at this ⊢
    exact this.2

theorem UInv_sim {acc : Acc} {st st' : Store} {u : UIdx} (h : StoreSim st st') (hu : UInv acc st u) : UInv acc st' u := by
  obtain ⟨hi, hv, _⟩ := h
  refine ⟨hu.colsNodup, hu.noPos, hu.perm.trans hi.symm, ?_, ?_⟩
  · intro e he; rw [hv]; exact hu.hash e he
  · intro x hx y hy hk
    rw [hv, hv] at hk
    exact hu.uniq x (hi.mem_iff.mp hx) y (hi.mem_iff.mp hy) hk

theorem MInv_sim {acc : Acc} {st st' : Store} {m : MIdx} (h : StoreSim st st') (hm : MInv acc st m) : MInv acc st' m := by
  obtain ⟨hi, hv, ha⟩ := h
  refine ⟨hm.colsNodup, hm.noPos, hm.perm.trans hi.symm, ?_, ?_, ?_, ?_⟩
  · intro g hg; rw [hv]; exact hm.hash g hg
  · intro g hg x hx; rw [hv, hv]; exact hm.same g hg x hx
  · refine hm.distinct.imp ?_
    intro a b hab; rw [hv, hv]; exact hab
  · intro g hg
    exact (SegSorted_congr (fun x _ => ha x)).mpr (hm.sorted g hg)

theorem storeSim_of_perm {st st' : Store} (hp : st.Perm st') (hnd : (ids st).Nodup) : StoreSim st st' := by
  have hnd' : (ids st').Nodup := (hp.map _).nodup_iff.mp hnd
  have key : ∀ x, rowOf st' x = rowOf st x := by
    intro x
    by_cases hx : x ∈ ids st
    · obtain ⟨row, hrow, rfl⟩ := mem_ids_iff.mp hx
      rw [rowOf_mem hnd hrow, rowOf_mem hnd' (hp.mem_iff.mp hrow)]
    · rw [rowOf_none hx, rowOf_none (fun h => hx ((hp.map _).mem_iff.mpr h))]
  exact ⟨(hp.map _).symm, fun x => by unfold valsOf; rw [key], fun x => by unfold addrOf; rw [key]⟩

end Momo.Table
