import Momo.Proof.RowsHBStep
/-!
  Lemmas for the row hand-off model (C19), part 9: the happens-before invariant `VInv` of the vector-clock race
  detector is preserved by every step, hence no access of any schedule races (`runHB_no_race`).
-/
namespace Momo.Rows

/-- the happens-before invariant: whoever may touch a block has the block's last access in its past; the last
access of a published block is in the past of what was released into the list head -/
structure VInv (s : St) (hb : HB) : Prop where
  held : ∀ t r, Holds s t r → epochLe (hb.last r) (hb.vc t)
  pub  : ∀ r, r ∈ s.L → epochLe (hb.last r) hb.headVC

theorem VInv_init (n : Nat) : VInv (init n) HB.init :=
  ⟨fun _ _ _ => trivial, fun _ _ => trivial⟩

/-- every access of an enabled action is ordered after the previous access to the same block -/
theorem raceFree_of_VInv {s s' : St} {hb : HB} {a : Act} (hs : step s a = some s') (hI : RInv s) (hV : VInv s hb) :
    raceFree s hb a = true := by
  unfold raceFree
  rw [List.all_eq_true]
  intro p hp
  obtain ⟨t, r⟩ := p
  exact ordered_iff.mpr (hV.held t r (access_holds hs hI hp))

theorem VInv_step {s s' : St} {hb : HB} {a : Act} (hs : step s a = some s') (hI : RInv s) (hV : VInv s hb) :
    VInv s' (hbStep s hb a) := by
  have hS := step_sound hs
  have hmono := hbStep_mono s hb a
  constructor
  · -- held
    intro u x hu
    -- a block touched in this step is touched by its holder
    have touched : ∀ t, ((t, x) ∈ accesses s a ∨ (t = 0 ∧ ∃ g, a = .grow x g)) → Holds s u x → t = u := by
      intro t ht hux
      rcases ht with ht | ⟨_, g, hg⟩
      · exact Holds_exclusive hI (access_holds hs hI ht) hux
      · -- fresh memory is held by nobody before
        subst hg
        cases hS with
        | grow r g' hm hr =>
          exfalso
          rcases Holds_count hux with ⟨_, hp⟩ | hd | ⟨pc, hpc, hr'⟩
          · apply hr; rw [mem_places_iff]
            by_cases h1 : x ∈ s.pool
            · exact Or.inr (Or.inr (Or.inr (Or.inl h1)))
            · by_cases h2 : x ∈ s.table
              · exact Or.inr (Or.inr (Or.inl h2))
              · have a1 := List.count_eq_zero.mpr h1; have a2 := List.count_eq_zero.mpr h2
                exact Or.inr (Or.inr (Or.inr (Or.inr (Or.inr (List.count_pos_iff.mp (by omega))))))
          · exact hr (mem_places_iff.mpr (Or.inr (Or.inl (mem_detRows hd))))
          · exact hr (mem_places_iff.mpr (Or.inl (mem_inflight hpc hr')))
    rcases Holds_step_back hS hI hu with hb0 | ⟨ha, hu0, hL⟩ | ⟨t, ha, hd⟩ | ⟨g, ha, hu0, hf⟩
    · -- the same thread held it before
      rcases hbStep_last s hb a x with hl | ⟨t, hl, hvc, _, ht⟩
      · rw [hl]; exact epochLe_mono (hV.held u x hb0) (hmono.1 u)
      · have : t = u := touched t ht hb0
        subst this
        rw [hl, hvc]; exact Nat.le_refl _
    · -- taken from the list by the owner's exchange
      subst ha; subst hu0
      have hl : (hbStep s hb .exchange).last = hb.last := (rmw_spec hb 0).2.2.1
      rw [hl]
      exact epochLe_mono (hV.pub x hL) (rmw_spec hb 0).2.2.2.1
    · -- the row object was handed over
      subst ha
      have hl : (hbStep s hb (.handoff x t u)).last = hb.last := (sync_spec hb t u).2.2.1
      rw [hl]
      exact epochLe_mono (hV.held t x (Or.inr (Or.inl hd))) (sync_spec hb t u).2.2.2
    · -- fresh memory
      subst ha; subst hu0
      have := (touch_spec hb 0 x).2.2.1
      show epochLe ((hb.touch 0 x).last x) ((hb.touch 0 x).vc 0)
      rw [this]; exact Nat.le_refl _
  · -- pub
    intro r hr
    -- a block that stays on the list is not touched
    have untouched : r ∈ s.L → (hbStep s hb a).last r = hb.last r := by
      intro hrL
      rcases hbStep_last s hb a r with hl | ⟨t, _, _, _, ht⟩
      · exact hl
      · exfalso
        rcases ht with ht | ⟨_, g, hg⟩
        · exact Holds_not_published hI (access_holds hs hI ht) hrL
        · subst hg
          cases hS with
          | grow r' g' hm hf => exact hf (mem_places_iff.mpr (Or.inr (Or.inr (Or.inr (Or.inr (Or.inl hrL))))))
    have keep : r ∈ s.L → epochLe ((hbStep s hb a).last r) (hbStep s hb a).headVC := fun hrL => by
      rw [untouched hrL]; exact epochLe_mono (hV.pub r hrL) hmono.2
    cases hS with
    | exchange b hm => cases hr
    | dCasOk t r0 h hpc hh =>
      rcases List.mem_cons.mp hr with rfl | hr
      · have hstep : hbStep s hb (.dCas t false) = hb.rmw t := by
          simp only [hbStep, hpc, hh, and_self, if_true]
        rw [hstep, (rmw_spec hb t).2.2.1]
        exact epochLe_mono (hV.held t r (Or.inr (Or.inr ⟨_, hpc, rfl⟩))) (rmw_spec hb t).2.2.2.2
      · exact keep hr
    | newBegin hm => exact keep hr
    | takeBegin hm => exact keep hr
    | walk b c g hm hc => exact keep hr
    | walkEnd b hm hc => exact keep hr
    | grow r0 g hm hf => exact keep hr
    | alloc r0 g hm hr0 => exact keep hr
    | add r0 hm hd => exact keep hr
    | extract i k r0 hm hi => exact keep hr
    | remove i k g r0 hm hi => exact keep hr
    | handoff r0 t u hd hu => exact keep hr
    | dBegin t r0 hpc hd => exact keep hr
    | dLoad t r0 hpc => exact keep hr
    | dWrite t r0 h hpc => exact keep hr
    | dCasFail t r0 h sp hpc => exact keep hr

/-- no step of any schedule races -/
theorem runHB_no_race : ∀ (acts : List Act) (s : St) (hb : HB) (racy : Bool) (s' : St) (hb' : HB) (racy' : Bool),
    RInv s → VInv s hb → runHB s hb racy acts = some (s', hb', racy') → racy' = racy
  | [], s, hb, racy, s', hb', racy', _, _, h => by
    simp only [runHB, Option.some.injEq, Prod.mk.injEq] at h; exact h.2.2.symm
  | a :: as, s, hb, racy, s', hb', racy', hI, hV, h => by
    simp only [runHB] at h
    cases hs : step s a with
    | none => simp [hs] at h
    | some s1 =>
      simp only [hs] at h
      have hrf := raceFree_of_VInv hs hI hV
      have := runHB_no_race as s1 (hbStep s hb a) (racy || !raceFree s hb a) s' hb' racy'
        (RInv_step (step_sound hs) hI) (VInv_step hs hI hV) h
      rw [this, hrf]; simp

/-- the instrumented run visits the same states as the plain run -/
theorem runHB_of_run : ∀ (acts : List Act) (s s' : St) (hb : HB) (racy : Bool), run s acts = some s' →
    ∃ hb' racy', runHB s hb racy acts = some (s', hb', racy')
  | [], s, s', hb, racy, h => by simp only [run, Option.some.injEq] at h; subst h; exact ⟨hb, racy, rfl⟩
  | a :: as, s, s', hb, racy, h => by
    simp only [run] at h
    cases hs : step s a with
    | none => simp [hs] at h
    | some s1 =>
      simp only [hs] at h
      obtain ⟨hb', racy', h'⟩ := runHB_of_run as s1 s' (hbStep s hb a) (racy || !raceFree s hb a) h
      exact ⟨hb', racy', by simp only [runHB, hs]; exact h'⟩

end Momo.Rows
