import Momo.Proof.PoolSingle
import Momo.Proof.PoolBulk
/-!
  State machine of `MemPool` (C09) for `blockCount == 1`: `MergeFrom` (386-397 of MemPool.h: flush of the other
  pool's cache, transfer of `allocCount`; there are no buffers to relink), and legal histories of single-block pools
  including merges.
-/
namespace Momo.Pool

/-- all events are `free`s of single-block allocations -/
def FreesOnly1 (P : Params) (evs : List Ev) : Prop := ∀ e ∈ evs, ∃ a, e = .free a P.singleSize

theorem Ledger1OK.frame {P : Params} {s s' : List (Int × Int)} {evs : List Ev} (X : List (Int × Int))
    (h : Ledger1OK P s evs s') : Ledger1OK P (X ++ s) evs (X ++ s') := by
  obtain ⟨L', hl, hp⟩ := h
  have h1 := ledger_frame (owned1 P X) evs _ _ hl
  obtain ⟨M, hm, hpm⟩ := ledger_perm (M := owned1 P (X ++ s)) evs
    (by simp only [owned1, List.map_append]; exact List.perm_append_comm) _ h1
  refine ⟨M, hm, hpm.symm.trans ?_⟩
  simp only [owned1, List.map_append] at hp ⊢
  exact List.perm_append_comm.trans (List.Perm.append_left _ hp)

/-- `pvDeleteBlock` for `blockCount == 1` makes exactly one call to the manager, a `free` -/
theorem deleteBlock_single_events {P : Params} (hN1 : P.N = 1) (p : Pool) (c : Int) {p' : Pool} {evs : List Ev}
    (h : deleteBlock P p c = .ok () p' evs) : FreesOnly1 P evs ∧ evs.length = 1 := by
  unfold deleteBlock at h
  rw [if_neg (by omega)] at h
  by_cases h0 : P.alignAddend = 0
  · rw [if_pos h0] at h
    cases h
    refine ⟨?_, rfl⟩
    intro e he; simp only [List.mem_singleton] at he
    exact ⟨c, by rw [he]; simp [Params.singleSize, h0]⟩
  · rw [if_neg h0] at h
    unfold deleteBlock1 at h
    cases hl : p.singles.lookup c with
    | none => rw [hl] at h; cases h
    | some off =>
      rw [hl] at h; cases h
      refine ⟨?_, rfl⟩
      intro e he; simp only [List.mem_singleton] at he
      exact ⟨c - off, by rw [he]; simp [Params.singleSize, h0]⟩

/-- `pvFlushDeallocate` for `blockCount == 1`: one `free` per cached block -/
theorem flushList_single_events {P : Params} (hN1 : P.N = 1) :
    ∀ (cs : List Int) (p p' : Pool) (evs : List Ev), flushList P cs p = .ok () p' evs →
      FreesOnly1 P evs ∧ evs.length = cs.length := by
  intro cs
  induction cs with
  | nil =>
    intro p p' evs h
    simp only [flushList] at h; cases h
    exact ⟨fun e he => by simp at he, rfl⟩
  | cons c cs ih =>
    intro p p' evs h
    simp only [flushList] at h
    cases hd : deleteBlock P p c with
    | stuck w => rw [hd] at h; simp [Outcome.bind] at h
    | badAlloc q e => rw [hd] at h; simp [Outcome.bind] at h
    | ok v q e1 =>
      rw [hd] at h
      simp only [Outcome.bind] at h
      cases hf : flushList P cs q with
      | stuck w => rw [hf] at h; simp at h
      | badAlloc q2 e2 => rw [hf] at h; simp at h
      | ok v2 q2 e2 =>
        rw [hf] at h; simp only at h
        obtain ⟨f1, l1⟩ := deleteBlock_single_events hN1 p c hd
        obtain ⟨f2, l2⟩ := ih q q2 e2 hf
        cases h
        refine ⟨?_, by simp [l1, l2]; omega⟩
        intro e he
        rcases List.mem_append.mp he with hm | hm
        · exact f1 e hm
        · exact f2 e hm

/-- **`MergeFrom` (386-397), `blockCount == 1`.** Two well-formed single-block pools whose recorded blocks are different
    addresses (they hold different memory of one manager): the call succeeds; the other pool is left EMPTY; the receiving
    pool is well formed; its live blocks are exactly the live blocks of both pools (so by `deallocate_single_ok` each of
    them can afterwards be freed individually through the receiving pool); the counts add up; the only calls to the
    manager are one `free` for each block that was in the other pool's cache - each naming an address and size of an
    outstanding allocation - and all other recorded blocks of the other pool are transferred: nothing is lost, nothing
    is given back twice. The cache of the receiving pool is untouched. -/
theorem mergeFrom_single_ok {P : Params} (hN1 : P.N = 1) {a b : Pool} (ha : SingleWF P a) (hb : SingleWF P b)
    (hdis : ∀ x ∈ a.singles.map (·.1), x ∉ b.singles.map (·.1)) :
    ∃ a' evs, mergeFrom P a b = .ok Pool.empty a' evs ∧ SingleWF P a' ∧
      (a'.live P).Perm (a.live P ++ b.live P) ∧ a'.allocCount = a.allocCount + b.allocCount ∧
      a'.cache = a.cache ∧
      Ledger1OK P (a.singles ++ b.singles) evs a'.singles ∧
      FreesOnly1 P evs ∧ evs.length = b.cache.length ∧
      (b.singles.map (·.1)).Perm (b.cache ++ (a'.singles.map (·.1)).filter (fun x => !(a.singles.map (·.1)).contains x)) := by
  -- flush the other pool (or not): in both cases we get b1 with an empty cache
  have hfl : ∃ b1 evs, (if P.useCache = true then flush P b else Outcome.ok () b []) = .ok () b1 evs ∧ SingleWF P b1 ∧
      b1.cache = [] ∧ (b.live P).Perm (b1.live P) ∧ b1.allocCount = b.allocCount ∧
      Ledger1OK P b.singles evs b1.singles ∧ (∀ x ∈ b1.singles.map (·.1), x ∈ b.singles.map (·.1)) ∧
      FreesOnly1 P evs ∧ evs.length = b.cache.length ∧
      (b.singles.map (·.1)).Perm (b.cache ++ b1.singles.map (·.1)) := by
    by_cases hu : P.useCache = true
    · rw [if_pos hu]
      obtain ⟨b1, e1, hf, hwf, hc, hlive, hal, hl, hsub⟩ := flush_single hN1 hb
      obtain ⟨f1, l1⟩ := flushList_single_events hN1 b.cache { b with cache := [] } b1 e1 hf
      refine ⟨b1, e1, hf, hwf, hc, hlive, hal, hl, hsub, f1, l1, ?_⟩
      obtain ⟨p1, e1', hf1, _, hperm1, _⟩ :=
        flushList_single hN1 b.cache { b with cache := [] } hb.singlesOK hb.cacheNodup hb.cacheKeys
      have : flush P b = flushList P b.cache { b with cache := [] } := rfl
      rw [this] at hf
      rw [hf1] at hf; cases hf
      exact hperm1
    · rw [if_neg hu]
      have hcnil : b.cache = [] := hb.cacheOff (by simpa using hu)
      exact ⟨b, [], rfl, hb, hcnil, List.Perm.refl _, rfl, Ledger1OK.nil _, fun _ hx => hx,
        fun e he => by simp at he, by rw [hcnil]; rfl, by rw [hcnil]; simp⟩
  obtain ⟨b1, e1, hf, hwf1, hc1, hlive1, hal1, hl1, hsub1, hfr1, hlen1, hkeys1⟩ := hfl
  have hpost1 : b1.post = [] := hwf1.noBuffers.2.2
  have hdis1 : ∀ x ∈ a.singles.map (·.1), x ∉ b1.singles.map (·.1) := fun x hx hm => hdis x hx (hsub1 x hm)
  have hb1cnt : b1.allocCount = b1.singles.length := by
    have := hwf1.count; rw [hc1] at this; simpa using this
  obtain ⟨hst1, hpre1, _⟩ := hwf1.noBuffers
  refine ⟨{ a with allocCount := a.allocCount + b1.allocCount, singles := a.singles ++ b1.singles }, e1 ++ [], ?_,
    ?_, ?_, by show a.allocCount + b1.allocCount = _; rw [hal1], rfl, ?_, by simpa using hfr1, by simpa using hlen1, ?_⟩
  · unfold mergeFrom
    rw [hf]; simp only [Outcome.bind, hpost1, hst1, hpre1, hc1, Pool.empty]
  · -- the invariant of the receiving pool
    refine ⟨ha.noBuffers, ?_, ?_, ha.cacheNodup, ?_, ha.cacheOff, ?_⟩
    · simp only [List.map_append]
      exact List.nodup_append.mpr ⟨ha.keys, hwf1.keys, fun x hx y hy e => hdis1 x hx (e ▸ hy)⟩
    · intro e he
      rcases List.mem_append.mp he with hm | hm
      · exact ha.entries e hm
      · exact hwf1.entries e hm
    · intro c hc
      simp only [List.map_append]
      exact List.mem_append_left _ (ha.cacheKeys c hc)
    · show a.allocCount + b1.allocCount + a.cache.length = (a.singles ++ b1.singles).length
      have := ha.count
      rw [List.length_append]; omega
  · -- live blocks
    rw [live1_eq hN1, live1_eq hN1]
    show (((a.singles ++ b1.singles).map (·.1)).filter (fun x => !a.cache.contains x)).Perm _
    rw [List.map_append, List.filter_append]
    apply List.Perm.append_left
    have e2 : (b1.singles.map (·.1)).filter (fun x => !a.cache.contains x) = b1.singles.map (·.1) := by
      rw [List.filter_eq_self]; intro x hx
      have : x ∉ a.cache := fun hm => hdis1 x (ha.cacheKeys x hm) hx
      simpa using this
    rw [e2]
    have : b1.live P = b1.singles.map (·.1) := by rw [live1_eq hN1, hc1]; simp
    rw [← this]; exact hlive1.symm
  · have := hl1.frame a.singles
    simpa using this
  · show (b.singles.map (·.1)).Perm (b.cache ++ (((a.singles ++ b1.singles).map (·.1)).filter _))
    rw [List.map_append, List.filter_append]
    have e1 : (a.singles.map (·.1)).filter (fun x => !(a.singles.map (·.1)).contains x) = [] := by
      rw [List.filter_eq_nil_iff]; intro x hx; simp [hx]
    have e2 : (b1.singles.map (·.1)).filter (fun x => !(a.singles.map (·.1)).contains x) = b1.singles.map (·.1) := by
      rw [List.filter_eq_self]; intro x hx
      have : x ∉ a.singles.map (·.1) := fun hm => hdis1 x hm hx
      simpa using this
    rw [e1, e2]; simpa using hkeys1

/-- legal histories of pools with `blockCount == 1`, with all calls made to the memory manager so far. `Deallocate` is
    applied to live blocks only; the manager honours `Contract1`; two pools are merged only if their recorded blocks are
    different addresses (they hold different memory of the manager they share). -/
inductive Reach1 (P : Params) : Pool → List Ev → Prop
  | init : Reach1 P Pool.empty []
  | alloc {p es orc blk p' evs} : Reach1 P p es → Contract1 P p orc →
      allocate P p orc = .ok blk p' evs → Reach1 P p' (es ++ evs)
  | allocFail {p es orc p' evs} : Reach1 P p es → Contract1 P p orc →
      allocate P p orc = .badAlloc p' evs → Reach1 P p' (es ++ evs)
  | dealloc {p es blk p' evs} : Reach1 P p es → blk ∈ p.live P →
      deallocate P p blk = .ok () p' evs → Reach1 P p' (es ++ evs)
  | merge {a ea b eb b' a' evs} : Reach1 P a ea → Reach1 P b eb →
      (∀ x ∈ a.singles.map (·.1), x ∉ b.singles.map (·.1)) →
      mergeFrom P a b = .ok b' a' evs → Reach1 P a' (ea ++ eb ++ evs)

/-- the ledger of all events so far is exactly the memory a single-block pool holds -/
def Ledger1Is (P : Params) (es : List Ev) (sg : List (Int × Int)) : Prop :=
  ∃ L, ledger [] es = some L ∧ L.Perm (owned1 P sg)

theorem Ledger1Is.step {P : Params} {es evs : List Ev} {sg sg' : List (Int × Int)} (h : Ledger1Is P es sg)
    (hl : Ledger1OK P sg evs sg') : Ledger1Is P (es ++ evs) sg' := by
  obtain ⟨L, h1, h2⟩ := h
  obtain ⟨L', h3, h4⟩ := hl
  obtain ⟨M, h5, h6⟩ := ledger_perm evs h2.symm L' h3
  exact ⟨M, by rw [ledger_append, h1]; exact h5, h6.symm.trans h4⟩

theorem Reach1.inv {P : Params} (hL : P.Legal) (hN1 : P.N = 1) {p : Pool} {es : List Ev} (h : Reach1 P p es) :
    SingleWF P p ∧ Ledger1Is P es p.singles := by
  induction h with
  | init => exact ⟨SingleWF.empty P, [], rfl, by simp [owned1, Pool.empty]⟩
  | @alloc p es orc blk p' evs _ hc he ih =>
    have := allocate_single_ok hL hN1 ih.1 hc
    rw [he] at this
    exact ⟨this.wf, ih.2.step this.ledger⟩
  | @allocFail p es orc p' evs _ hc he ih =>
    have := allocate_single_ok hL hN1 ih.1 hc
    rw [he] at this
    obtain ⟨rfl, rfl, _⟩ := this
    exact ⟨ih.1, by simpa using ih.2⟩
  | @dealloc p es blk p' evs _ hb he ih =>
    obtain ⟨p2, e2, h2, hs⟩ := deallocate_single_ok hN1 ih.1 blk hb
    rw [he] at h2; cases h2
    exact ⟨hs.wf, ih.2.step hs.ledger⟩
  | @merge a ea b eb b' a' evs _ _ hdis he iha ihb =>
    obtain ⟨a2, e2, h2, hwf, _, _, _, hl, _⟩ := mergeFrom_single_ok hN1 iha.1 ihb.1 hdis
    rw [he] at h2; cases h2
    refine ⟨hwf, ?_⟩
    have hboth : Ledger1Is P (ea ++ eb) (a.singles ++ b.singles) := by
      obtain ⟨La, ha1, ha2⟩ := iha.2
      obtain ⟨Lb, hb1, hb2⟩ := ihb.2
      have := ledger_frame La eb [] Lb hb1
      refine ⟨Lb ++ La, by rw [ledger_append, ha1]; simpa using this, ?_⟩
      simp only [owned1, List.map_append]
      exact List.perm_append_comm.trans (List.Perm.append ha2 hb2)
    exact hboth.step hl

end Momo.Pool
