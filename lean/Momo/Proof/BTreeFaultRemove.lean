import Momo.Proof.BTreeFaultRemoveG
import Momo.Proof.BTreeFaultAdd
/-!
  C04 for the B-tree family: `pvRemove` (`Remove(iter)`) and `pvExtract` (`Remove(iter, extItem)`) under every fault schedule.
  Thrown: root and ledger are the old ones (except the documented exception 5 of TreeMap.h, `unsafeRepl`). Returned — also
  when node merges of the rebalancing pass were refused by swallowed faults —: the in-order list lost exactly that element,
  balance and capacities hold, the returned iterator denotes the same index, the ledger moved by the node difference and
  by the destroyed item. Without construction / replacement faults it is the fault-free removal.
  Core Lean only.
-/
namespace Momo.BTreeF
open Momo Momo.BTree Momo.BTree.Node
variable {α : Type}

local macro "triv" : tactic => `(tactic| first | rfl | trivial | simp)

/-- items leaving the world by a successful removal: one for `Remove`, none for an extraction (it lives on in the handle) -/
def itemsDelta : RemMode → Int
  | .destroy => -1
  | .extract => 0

theorem rebOK_F (S : Sched) (ic : ICfg α) (cfg : Cfg) (fast : Bool) (w : W) :
    RebOK cfg (fun r p s => (rebalanceF S ic cfg fast r p s w).1) := by
  intro d r hb path saved
  obtain ⟨a, b, c, e, _, _⟩ := rebalanceF_spec S ic cfg fast hb path saved w
  exact ⟨a, b, c, e⟩

theorem removerStep_spec (S : Sched) (ic : ICfg α) (mode : RemMode) (w : W) :
    ((removerStep S ic mode w).1 = true → (removerStep S ic mode w).2.led = w.led) ∧
    ((removerStep S ic mode w).1 = false → (removerStep S ic mode w).2.led = w.led + Ledger.ofItems (itemsDelta mode)) ∧
    (S.NoCtor → (removerStep S ic mode w).1 = false) := by
  cases mode with
  | destroy =>
    simp only [removerStep, itemsDelta]
    refine ⟨fun hh => (by cases hh), fun _ => ?_, fun _ => (by triv)⟩
    apply Ledger.ext' <;> simp
  | extract =>
    simp only [removerStep, itemsDelta]
    by_cases hr : ic.reloc = true
    · simp only [hr, if_true]
      refine ⟨fun hh => (by cases hh), fun _ => ?_, fun _ => (by triv)⟩
      apply Ledger.ext' <;> simp
    · simp only [hr, Bool.false_eq_true, if_false]
      by_cases hf : S.ctor w.ctorN = true
      · simp only [hf, if_true]
        exact ⟨fun _ => (by triv), fun hh => (by cases hh), fun hn => (by rw [hn] at hf; cases hf)⟩
      · simp only [hf, Bool.false_eq_true, if_false]
        refine ⟨fun hh => (by cases hh), fun _ => ?_, fun _ => (by triv)⟩
        apply Ledger.ext' <;> simp

theorem replaceStep_spec (S : Sched) (ic : ICfg α) (src dst : α) (w : W) :
    ((replaceStep S ic src dst w).1 = true → (replaceStep S ic src dst w).2.2.led = w.led ∧
        (ic.unsafeRepl = false → (replaceStep S ic src dst w).2.1 = dst)) ∧
    ((replaceStep S ic src dst w).1 = false → (replaceStep S ic src dst w).2.1 = src ∧
        (replaceStep S ic src dst w).2.2.led = w.led + Ledger.ofItems (-1)) ∧
    (S.NoRepl → (replaceStep S ic src dst w).1 = false) := by
  unfold replaceStep
  by_cases ha : ic.assign = true
  · simp only [ha, if_true]
    refine ⟨fun hh => (by cases hh), fun _ => ⟨(by triv), ?_⟩, fun _ => (by triv)⟩
    apply Ledger.ext' <;> simp
  · simp only [ha, Bool.false_eq_true, if_false]
    by_cases hu : ic.unsafeRepl = true
    · simp only [hu, if_true]
      by_cases h1 : S.repl w.replN = true
      · simp only [h1, if_true]
        exact ⟨fun _ => ⟨(by triv), fun hh => (by cases hh)⟩, fun hh => (by cases hh), fun hn => (by rw [hn] at h1; cases h1)⟩
      · simp only [h1, Bool.false_eq_true, if_false]
        by_cases h2 : S.repl (w.replN + 1) = true
        · simp only [h2, if_true]
          exact ⟨fun _ => ⟨(by triv), fun hh => (by cases hh)⟩, fun hh => (by cases hh), fun hn => (by rw [hn] at h2; cases h2)⟩
        · simp only [h2, Bool.false_eq_true, if_false]
          refine ⟨fun hh => (by cases hh), fun _ => ⟨(by triv), ?_⟩, fun _ => (by triv)⟩
          apply Ledger.ext' <;> simp
    · simp only [hu, Bool.false_eq_true, if_false]
      by_cases h1 : S.repl w.replN = true
      · simp only [h1, if_true]
        exact ⟨fun _ => ⟨rfl, fun _ => (by triv)⟩, fun hh => (by cases hh), fun hn => (by rw [hn] at h1; cases h1)⟩
      · simp only [h1, Bool.false_eq_true, if_false]
        refine ⟨fun hh => (by cases hh), fun _ => ⟨(by triv), ?_⟩, fun _ => (by triv)⟩
        apply Ledger.ext' <;> simp

theorem replacerStep_spec (S : Sched) (ic : ICfg α) (mode : RemMode) (src dst : α) (w : W) :
    ((replacerStep S ic mode src dst w).1 = true → (replacerStep S ic mode src dst w).2.2.led = w.led ∧
        (ic.unsafeRepl = false → (replacerStep S ic mode src dst w).2.1 = dst)) ∧
    ((replacerStep S ic mode src dst w).1 = false →
        (replacerStep S ic mode src dst w).2.2.led = w.led + Ledger.ofItems (itemsDelta mode)) ∧
    (S.NoCtor → S.NoRepl → (replacerStep S ic mode src dst w).1 = false) := by
  cases mode with
  | destroy =>
    simp only [replacerStep, itemsDelta]
    obtain ⟨a, b, c⟩ := replaceStep_spec S ic src dst w
    exact ⟨a, fun hh => (b hh).2, fun _ hn => c hn⟩
  | extract =>
    simp only [replacerStep, itemsDelta]
    by_cases hr : ic.reloc = true
    · simp only [hr, if_true]
      refine ⟨fun hh => (by cases hh), fun _ => ?_, fun _ _ => (by triv)⟩
      apply Ledger.ext' <;> simp
    · simp only [hr, Bool.false_eq_true, if_false]
      by_cases hf : S.ctor w.ctorN = true
      · simp only [hf, if_true]
        exact ⟨fun _ => ⟨rfl, fun _ => (by triv)⟩, fun hh => (by cases hh), fun hn _ => (by rw [hn] at hf; cases hf)⟩
      · simp only [hf, Bool.false_eq_true, if_false]
        obtain ⟨a, b, c⟩ := replaceStep_spec S ic src dst (w.tickCtor.addItems 1)
        cases hrs : replaceStep S ic src dst (w.tickCtor.addItems 1) with
        | mk t rest =>
          obtain ⟨dd, w1⟩ := rest
          rw [hrs] at a b c
          simp only at a b c
          cases t with
          | true =>
            simp only
            refine ⟨fun _ => ⟨?_, (a rfl).2⟩, fun hh => (by cases hh), fun _ hn => (by have := c hn; cases this)⟩
            rw [addItems_led, (a rfl).1]; apply Ledger.ext' <;> simp <;> omega
          | false =>
            simp only
            refine ⟨fun hh => (by cases hh), fun _ => ?_, fun _ _ => (by triv)⟩
            rw [(b rfl).2]; apply Ledger.ext' <;> simp <;> omega

theorem set_getElem?_self (cs : List (Node α)) (c : Nat) (ch : Node α) (h : cs[c]? = some ch) : cs.set c ch = cs := by
  induction cs generalizing c with
  | nil => simp
  | cons x xs ih =>
    cases c with
    | zero => simp at h; subst h; simp
    | succ c => simp at h; simp [ih c h]

/-- assigning an item its own value changes nothing -/
theorem modifyAt_setItem_self (r : Node α) (path : List Nat) (i : Nat) (items : List α) (cs : List (Node α)) (x : α)
    (hm : nodeAt? r path = some (inner items cs)) (hx : items[i]? = some x) : modifyAt (setItem i x) r path = r := by
  induction path generalizing r with
  | nil =>
    simp at hm; subst hm
    have : items.set i x = items := by
      apply List.ext_getElem?
      intro j
      by_cases hj : j = i
      · subst hj; rw [List.getElem?_set_self (lt_of_getElem? hx)]; exact hx.symm
      · rw [List.getElem?_set_ne (Ne.symm hj)]
    simp [modifyAt, setItem, this]
  | cons c p ih =>
    cases r with
    | leaf cap is => simp at hm
    | inner is cs' =>
      simp only [nodeAt?_inner_cons] at hm
      cases hc : cs'[c]? with
      | none => simp [hc] at hm
      | some ch =>
        simp only [hc] at hm
        simp [modifyAt, hc, ih ch hm, set_getElem?_self cs' c ch hc]

theorem releaseNodes_led (w : W) (r r' : Node α) : (w.releaseNodes r r').led = w.led + nodeDelta r r' := by
  apply Ledger.ext' <;> simp [W.releaseNodes, nodeDelta]

/-- **`pvRemove` / `pvExtract` under every fault schedule** -/
theorem removeAtF_spec (S : Sched) (ic : ICfg α) (cfg : Cfg) (mode : RemMode) {d : Nat} {r : Node α} (hb : Bal d r)
    (pos : Pos) (hv : ValidElem r pos.path pos.idx) (w : W) {t : Bool} {r' : Node α} {p : Pos} {w' : W}
    (h : removeAtF S ic cfg mode r pos w = (t, r', p, w')) :
    (t = true → w'.led = w.led ∧ (ic.unsafeRepl = false → r' = r)) ∧
    (t = false →
      toList r' = (toList r).eraseIdx (idxOf r pos.path pos.idx) ∧ (∃ d', Bal d' r') ∧
      idxOf r' p.path p.idx = idxOf r pos.path pos.idx ∧ ValidPos r' p ∧
      (Caps cfg.maxCap r → Caps cfg.maxCap r') ∧
      w'.led = w.led + nodeDelta r r' + Ledger.ofItems (itemsDelta mode)) ∧
    (S.NoCtor → S.NoRepl → t = false ∧ (r', p) = removeAt cfg r pos) := by
  obtain ⟨m, hm, hi⟩ := hv
  unfold removeAtF at h
  cases m with
  | leaf cap items =>
    simp only [hm] at h
    obtain ⟨q1, q2, q3⟩ := removerStep_spec S ic mode w
    cases hrs : removerStep S ic mode w with
    | mk t1 w1 =>
      rw [hrs] at h q1 q2 q3
      simp only at h q1 q2 q3
      cases t1 with
      | true =>
        simp only [Prod.mk.injEq] at h
        obtain ⟨rfl, rfl, rfl, rfl⟩ := h
        exact ⟨fun _ => ⟨q1 rfl, fun _ => rfl⟩, fun hh => (by cases hh), fun hn _ => (by have := q3 hn; cases this)⟩
      | false =>
        simp only at h
        obtain ⟨_, _, _, _, g5, g6⟩ := rebalanceF_spec S ic cfg true
          (show Bal d (modifyAt (removeItem pos.idx) r pos.path) from by
            have hbm := (hb.nodeAt hm).1
            have hd0 := hbm.leaf_depth
            obtain ⟨_, _, _, _, _, e4, _⟩ := modifyAt_spec hb pos.path hm (removeItem pos.idx) (by rw [hd0]; exact Bal.leaf _ _)
            exact e4) pos.path pos.path w1
        have hG : removeAtG (fun r p s => (rebalanceF S ic cfg true r p s w1).1) r pos =
            ((rebalanceF S ic cfg true (modifyAt (removeItem pos.idx) r pos.path) pos.path pos.path w1).1.1,
             moveIf (rebalanceF S ic cfg true (modifyAt (removeItem pos.idx) r pos.path) pos.path pos.path w1).1.1
               ⟨(rebalanceF S ic cfg true (modifyAt (removeItem pos.idx) r pos.path) pos.path pos.path w1).1.2, pos.idx⟩) := by
          unfold removeAtG; simp only [hm]
        obtain ⟨s1, s2, s3, s4, s5⟩ := removeAtG_spec cfg _ (rebOK_F S ic cfg true w1) hb pos ⟨_, hm, hi⟩
        rw [hG] at s1 s2 s3 s4 s5
        cases hrb : rebalanceF S ic cfg true (modifyAt (removeItem pos.idx) r pos.path) pos.path pos.path w1 with
        | mk R w2 =>
          obtain ⟨r2, saved⟩ := R
          rw [hrb] at h g5 g6 s1 s2 s3 s4 s5
          simp only [Prod.mk.injEq] at h
          obtain ⟨rfl, rfl, rfl, rfl⟩ := h
          simp only at g5 g6 s1 s2 s3 s4 s5
          refine ⟨fun hh => (by cases hh), fun _ => ⟨s1, s2, s3, s4, s5, ?_⟩, fun hn _ => ⟨rfl, ?_⟩⟩
          · rw [releaseNodes_led, g5, q2 rfl]; apply Ledger.ext' <;> simp <;> omega
          · have e := g6 hn
            simp only [removeAt, hm]
            rw [← e]
  | inner items cs =>
    simp only [Node.count] at hi
    have hbm := (hb.nodeAt hm).1
    obtain ⟨dm, hdm, hall⟩ := hbm.inner_depth
    rw [hdm] at hbm
    have hlen := hbm.inner_len
    obtain ⟨left, hl⟩ := getElem?_of_lt (l := cs) (i := pos.idx) (by omega)
    obtain ⟨right, hr⟩ := getElem?_of_lt (l := cs) (i := pos.idx + 1) (by omega)
    obtain ⟨x, hx⟩ := getElem?_of_lt hi
    simp only [hm, hl, hr, hx] at h
    have s1 := fun w1 => removeAtG_spec cfg _ (rebOK_F S ic cfg true w1) hb pos ⟨_, hm, (by simpa [Node.count] using hi)⟩
    cases hp : popLast left with
    | none =>
      simp only [hp] at h
      obtain ⟨q1, q2, q3⟩ := removerStep_spec S ic mode w
      cases hrs : removerStep S ic mode w with
      | mk t1 w1 =>
        rw [hrs] at h q1 q2 q3
        simp only at h q1 q2 q3
        cases t1 with
        | true =>
          simp only [Prod.mk.injEq] at h
          obtain ⟨rfl, rfl, rfl, rfl⟩ := h
          exact ⟨fun _ => ⟨q1 rfl, fun _ => rfl⟩, fun hh => (by cases hh), fun hn _ => (by have := q3 hn; cases this)⟩
        | false =>
          simp only at h
          have hG : removeAtG (fun r p s => (rebalanceF S ic cfg true r p s w1).1) r pos =
              ((rebalanceF S ic cfg true (modifyAt (fun _ => destroyInternal items cs pos.idx false) r pos.path) pos.path
                  (pos.path ++ pos.idx :: leftPath right) w1).1.1,
               moveIf (rebalanceF S ic cfg true (modifyAt (fun _ => destroyInternal items cs pos.idx false) r pos.path) pos.path
                  (pos.path ++ pos.idx :: leftPath right) w1).1.1
                 ⟨(rebalanceF S ic cfg true (modifyAt (fun _ => destroyInternal items cs pos.idx false) r pos.path) pos.path
                  (pos.path ++ pos.idx :: leftPath right) w1).1.2, 0⟩) := by
            unfold removeAtG; simp only [hm, hl, hr, hp]
          obtain ⟨a1, a2, a3, a4, a5⟩ := s1 w1
          rw [hG] at a1 a2 a3 a4 a5
          have hbm' : Bal (d - pos.path.length) (destroyInternal items cs pos.idx false) := by
            rw [hdm]
            simp only [destroyInternal, Bool.false_eq_true, if_false]
            refine Bal.inner dm _ _ ?_ (fun z hz => hall z (List.mem_of_mem_eraseIdx hz))
            rw [List.length_eraseIdx_of_lt (by omega), List.length_eraseIdx_of_lt hi]; omega
          obtain ⟨_, _, _, _, _, e4, _⟩ := modifyAt_spec hb pos.path hm (fun _ => destroyInternal items cs pos.idx false) hbm'
          obtain ⟨_, _, _, _, g5, g6⟩ := rebalanceF_spec S ic cfg true e4 pos.path (pos.path ++ pos.idx :: leftPath right) w1
          cases hrb : rebalanceF S ic cfg true (modifyAt (fun _ => destroyInternal items cs pos.idx false) r pos.path) pos.path
              (pos.path ++ pos.idx :: leftPath right) w1 with
          | mk R w2 =>
            obtain ⟨r2, saved⟩ := R
            rw [hrb] at h g5 g6 a1 a2 a3 a4 a5
            simp only [Prod.mk.injEq] at h
            obtain ⟨rfl, rfl, rfl, rfl⟩ := h
            simp only at g5 g6 a1 a2 a3 a4 a5
            refine ⟨fun hh => (by cases hh), fun _ => ⟨a1, a2, a3, a4, a5, ?_⟩, fun hn _ => ⟨rfl, ?_⟩⟩
            · rw [releaseNodes_led, g5, q2 rfl]; apply Ledger.ext' <;> simp <;> omega
            · have e := g6 hn
              simp only [removeAt, hm, hl, hr, hp]
              rw [← e]
    | some res =>
      obtain ⟨left', y, cp⟩ := res
      simp only [hp] at h
      obtain ⟨q1, q2, q3⟩ := replacerStep_spec S ic mode y x w
      cases hrs : replacerStep S ic mode y x w with
      | mk t1 rest =>
        obtain ⟨dd, w1⟩ := rest
        rw [hrs] at h q1 q2 q3
        simp only at h q1 q2 q3
        cases t1 with
        | true =>
          simp only [Prod.mk.injEq] at h
          obtain ⟨rfl, rfl, rfl, rfl⟩ := h
          refine ⟨fun _ => ⟨(q1 rfl).1, fun hu => ?_⟩, fun hh => (by cases hh), fun hn hn2 => (by have := q3 hn hn2; cases this)⟩
          rw [(q1 rfl).2 hu]
          exact modifyAt_setItem_self r pos.path pos.idx items cs x hm hx
        | false =>
          simp only at h
          have hG : removeAtG (fun r p s => (rebalanceF S ic cfg true r p s w1).1) r pos =
              ((rebalanceF S ic cfg true (modifyAt (fun _ => inner (items.set pos.idx y) (cs.set pos.idx left')) r pos.path)
                  (pos.path ++ pos.idx :: cp) (pos.path ++ (pos.idx + 1) :: leftPath right) w1).1.1,
               moveIf (rebalanceF S ic cfg true (modifyAt (fun _ => inner (items.set pos.idx y) (cs.set pos.idx left')) r pos.path)
                  (pos.path ++ pos.idx :: cp) (pos.path ++ (pos.idx + 1) :: leftPath right) w1).1.1
                 ⟨(rebalanceF S ic cfg true (modifyAt (fun _ => inner (items.set pos.idx y) (cs.set pos.idx left')) r pos.path)
                  (pos.path ++ pos.idx :: cp) (pos.path ++ (pos.idx + 1) :: leftPath right) w1).1.2, 0⟩) := by
            unfold removeAtG; simp only [hm, hl, hr, hp]
          obtain ⟨a1, a2, a3, a4, a5⟩ := s1 w1
          rw [hG] at a1 a2 a3 a4 a5
          have hbl := hall left (List.mem_of_getElem? hl)
          obtain ⟨_, p2, _⟩ := popLast_spec hbl left' y cp hp
          have hbm' : Bal (d - pos.path.length) (inner (items.set pos.idx y) (cs.set pos.idx left')) := by
            rw [hdm]
            exact Bal.inner dm _ _ (by simpa using hlen) (fun z hz => by
              rcases List.mem_or_eq_of_mem_set hz with h' | rfl
              · exact hall z h'
              · exact p2)
          obtain ⟨_, _, _, _, _, e4, _⟩ := modifyAt_spec hb pos.path hm
            (fun _ => inner (items.set pos.idx y) (cs.set pos.idx left')) hbm'
          obtain ⟨_, _, _, _, g5, g6⟩ := rebalanceF_spec S ic cfg true e4 (pos.path ++ pos.idx :: cp)
            (pos.path ++ (pos.idx + 1) :: leftPath right) w1
          cases hrb : rebalanceF S ic cfg true (modifyAt (fun _ => inner (items.set pos.idx y) (cs.set pos.idx left')) r pos.path)
              (pos.path ++ pos.idx :: cp) (pos.path ++ (pos.idx + 1) :: leftPath right) w1 with
          | mk R w2 =>
            obtain ⟨r2, saved⟩ := R
            rw [hrb] at h g5 g6 a1 a2 a3 a4 a5
            simp only [Prod.mk.injEq] at h
            obtain ⟨rfl, rfl, rfl, rfl⟩ := h
            simp only at g5 g6 a1 a2 a3 a4 a5
            refine ⟨fun hh => (by cases hh), fun _ => ⟨a1, a2, a3, a4, a5, ?_⟩, fun hn _ => ⟨rfl, ?_⟩⟩
            · rw [releaseNodes_led, g5, q2 rfl]; apply Ledger.ext' <;> simp <;> omega
            · have e := g6 hn
              simp only [removeAt, hm, hl, hr, hp]
              rw [← e]

end Momo.BTreeF
