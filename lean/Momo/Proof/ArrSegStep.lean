import Momo.Proof.ArrStep
/-!
  C05, part 5 of the lemmas: `momo::SegmentedArray` refines the reference sequence; reserve clause under the
  sizing laws `Layout.Ok` (proved here for the constant sizing).
-/
namespace Momo.Arr.Seg
open Momo.Arr
variable {α : Type} [Inhabited α]
set_option linter.unusedSectionVars false

/-! ### SegmentedArray: capacity changes never touch an item -/

theorem addSeg_cells (cfg : SCfg) (s : SState α) : (addSeg cfg s).1.cells = s.cells := rfl

theorem addSegs_cells (cfg : SCfg) : ∀ (f : Nat) (s : SState α), (addSegs cfg f s).1.cells = s.cells
  | 0, _ => rfl
  | f+1, s => by simp only [addSegs]; rw [addSegs_cells cfg f]; rfl

theorem incCapacity_cells (cfg : SCfg) (s : SState α) (n : Nat) : (incCapacity cfg s n).1.cells = s.cells :=
  addSegs_cells cfg _ s

theorem reserveOp_cells (cfg : SCfg) (s : SState α) (n : Nat) : (reserveOp cfg s n).1.cells = s.cells := by
  unfold reserveOp; split
  · exact incCapacity_cells cfg s n
  · rfl

theorem insertCrt_cells (cfg : SCfg) (s : SState α) (xs : List α) (index : Nat) (item : Ref α)
    (hs : s.cells = xs.map Cell.live) (hi : index ≤ xs.length) (hr : Spec.refOk xs item) :
    (insertCrt cfg s index false item).1.cells = (Spec.insertN xs index 1 (Spec.refVal xs item)).map Cell.live := by
  unfold insertCrt
  simp only [Seg.withCells, reserveOp_cells, Ref.taken, Bool.false_eq_true, if_false, hs, read_live xs item hr]
  exact insert_handler cfg.keeps true xs index _ hi

theorem insertInput_cells (cfg : SCfg) : ∀ (ys : List α) (s : SState α) (xs : List α) (index : Nat),
    s.cells = xs.map Cell.live → index ≤ xs.length →
    (insertInput cfg s index (ys.map Cell.live)).1.cells = (Spec.insertList xs index ys).map Cell.live
  | [], s, xs, index, hs, _ => by simp [insertInput, Spec.insertList, hs]
  | y :: ys, s, xs, index, hs, hi => by
    simp only [List.map_cons, insertInput]
    have h1 := insertCrt_cells cfg s xs index (.ext (.live y)) hs hi trivial
    have hlen : index + 1 ≤ (Spec.insertN xs index 1 y).length := by
      simp [Spec.insertN]; omega
    rw [insertInput_cells cfg ys _ (Spec.insertN xs index 1 y) (index + 1) h1 hlen, insertList_cons xs index y ys hi]

theorem addBackCrt_cells (cfg : SCfg) (s : SState α) (item : Ref α) :
    (addBackCrt cfg s false item).1.cells = s.cells ++ [item.read s.cells] := by
  unfold addBackCrt
  split
  · simp [Ref.taken]
  · simp [Seg.withCells, addSeg_cells, Ref.taken]

theorem addAll_cells (cfg : SCfg) : ∀ (cs : Cells α) (s : SState α), (addAll cfg s cs).1.cells = s.cells ++ cs
  | [], s => by simp [addAll]
  | c :: cs, s => by
    simp only [addAll]
    rw [addAll_cells cfg cs, addBackCrt_cells]
    simp [Ref.read]

theorem setCount_cells (cfg : SCfg) (s : SState α) (xs : List α) (count : Nat) (item : Ref α)
    (hs : s.cells = xs.map Cell.live) (hr : Spec.refOk xs item) :
    (setCount cfg s count item).1.cells = (Spec.setCount xs count (Spec.refVal xs item)).map Cell.live := by
  have hn : s.cells.length = xs.length := by simp [hs]
  unfold setCount Spec.setCount
  rw [hn]
  by_cases h1 : count < xs.length
  · rw [if_pos h1, if_pos (by omega)]; simp [hs, List.map_take]
  · rw [if_neg h1]
    by_cases h2 : count > xs.length
    · have e : ¬ count ≤ xs.length := by omega
      rw [if_pos h2, if_neg e]
      simp only [Seg.withCells]
      have : (if count > capacity cfg s then incCapacity cfg s count else (s, [])).1.cells = s.cells := by
        split
        · exact incCapacity_cells cfg s count
        · rfl
      rw [this, hs, read_live xs item hr]; simp
    · rw [if_neg h2]
      have : count = xs.length := by omega
      subst this
      simp [hs]

/-- **every operation of `SegmentedArray` refines the reference sequence**, for both segment sizings and every
    `logInitialItemCount` (the sizing functions only influence the memory-manager calls) -/
theorem step_cells (cfg : SCfg) (s : SState α) (xs : List α) (op : Op α)
    (hs : s.cells = xs.map Cell.live) (hv : Spec.valid xs op) :
    (step cfg s op).1.cells = (Spec.step xs op).map Cell.live := by
  cases op with
  | addBackCopy item =>
    have hr : Spec.refOk xs item := hv
    simp only [step, Spec.step]; rw [addBackCrt_cells, hs, read_live xs item hr]; simp
  | addBackCrt item =>
    have hr : Spec.refOk xs item := hv
    simp only [step, Spec.step]; rw [addBackCrt_cells, hs, read_live xs item hr]; simp
  | insertCrt index item => exact insertCrt_cells cfg s xs index item hs hv.1 hv.2
  | insertN index count item =>
    simp only [step, Spec.step, insertN, Seg.withCells, reserveOp_cells, hs, read_live xs item hv.2]
    exact insertNogrowN_spec cfg.keeps xs index count _ _ hv.1 (good_ext false index _ _)
  | insertRange index ys =>
    simp only [step, Spec.step, insertRange, Seg.withCells, reserveOp_cells, hs]
    exact insertNogrowR_spec cfg.keeps false xs index _ ys hv (goodAll_ext false index _ _)
  | insertInput index ys => exact insertInput_cells cfg ys s xs index hs hv
  | removeBack count => simp [step, Spec.step, removeBackOp, hs, List.map_take]
  | remove index count =>
    simp only [step, Spec.step, removeOp, hs]
    exact remove_spec cfg.keeps xs index count hv
  | removeIf p => simp only [step, Spec.step, removeIfOp, hs, removeIf_spec, filter_map_live]
  | setCount count item => exact setCount_cells cfg s xs count item hs hv
  | reserve n => simp only [step, Spec.step, reserveOp_cells]; exact hs
  | shrink n =>
    simp only [step, Spec.step, shrinkOp]
    split
    · exact hs
    · exact hs
  | clear f =>
    simp only [step, Spec.step, clearOp]
    split <;> rfl
  | assignFill count item =>
    have hr : Spec.refOk xs item := hv
    simp only [step, Spec.step]
    have := setCount_cells cfg (SState.initO s.segs.oracle) [] count (.ext (item.read s.cells)) rfl
      (by rw [hs, read_live xs item hr]; trivial)
    rw [this, hs, read_live xs item hr]
    simp [Spec.setCount, Spec.refVal]
    cases count <;> simp
  | assignRange ys =>
    simp only [step, Spec.step]
    rw [addAll_cells]; simp [SState.initO]
  | setItem j x => simp [step, Spec.step, setItem, hs, List.map_set]
  | oracle b => simpa [step, Spec.step] using hs

theorem run_refines (cfg : SCfg) : ∀ (ops : List (Op α)) (s : SState α) (xs : List α),
    s.cells = xs.map Cell.live → Spec.validAll xs ops →
    (run cfg s ops).1.cells = (Spec.run xs ops).map Cell.live
  | [], _, _, hs, _ => hs
  | op :: ops, s, xs, hs, hv => by
    simp only [run, Spec.run]
    exact run_refines cfg ops _ _ (step_cells cfg s xs op hs hv.1) hv.2

/-! ### reserve clause for SegmentedArray -/

theorem cnst_ok (L : Nat) : Layout.Ok { sqrt := false, L := L } := by
  have hp : 0 < 2 ^ L := Nat.pow_pos (by omega)
  refine ⟨?_, ?_, ?_, ?_, ?_⟩
  · intro n
    simp only [Layout.index, Layout.segsFor, Layout.segItem, Bool.false_eq_true, if_false, Nat.add_zero]
    have := Nat.div_add_mod n (2 ^ L)
    have hm := Nat.mod_lt n hp
    split
    · rw [Nat.add_mul, Nat.mul_comm]; omega
    · rw [Nat.mul_comm]; omega
  · intro a b h
    simp only [Layout.index, Bool.false_eq_true, if_false, Nat.add_zero]
    exact Nat.mul_le_mul_right _ h
  · intro n k h
    simp only [Layout.index, Layout.segItem, Bool.false_eq_true, if_false, Nat.add_zero] at h ⊢
    exact (Nat.div_lt_iff_lt_mul hp).2 h
  · intro n k h
    simp only [Layout.index, Layout.segItem, Bool.false_eq_true, if_false, Nat.add_zero] at h ⊢
    exact (Nat.div_lt_iff_lt_mul hp).1 h
  · intro k
    simp only [Layout.index, Bool.false_eq_true, if_false, Nat.add_zero]
    rw [Nat.add_mul]; omega

theorem reserve_cells_arr (cfg : Cfg) (s : State Nat) (n : Nat) : (Arr.reserve cfg s n).1.cells = s.cells := by
  unfold Arr.reserve
  split
  · exact grow_cells cfg s n true (by omega)
  · rfl

theorem addSeg_segCount (cfg : SCfg) (s : SState α) : segCount (addSeg cfg s).1 = segCount s + 1 := by
  simp [addSeg, segCount, reserve_cells_arr]

theorem addSegs_segCount (cfg : SCfg) : ∀ (f : Nat) (s : SState α), segCount (addSegs cfg f s).1 = segCount s + f
  | 0, _ => rfl
  | f+1, s => by simp only [addSegs]; rw [addSegs_segCount cfg f, addSeg_segCount]; omega

/-- `Reserve(n)`: afterwards `GetCapacity() >= n` -/
theorem reserveOp_cap (cfg : SCfg) (ok : cfg.lay.Ok) (s : SState α) (n : Nat) :
    n ≤ capacity cfg (reserveOp cfg s n).1 := by
  unfold reserveOp
  split
  · unfold incCapacity capacity
    rw [addSegs_segCount]
    exact Nat.le_trans (ok.cap_segsFor n) (ok.cap_mono _ _ (by omega))
  · show n ≤ capacity cfg s
    omega

theorem reserveOp_noop (cfg : SCfg) (s : SState α) (n : Nat) (h : n ≤ capacity cfg s) : reserveOp cfg s n = (s, []) := by
  unfold reserveOp; rw [if_neg (by omega)]

theorem insertCrt_noalloc (cfg : SCfg) (s : SState α) (index : Nat) (item : Ref α)
    (h : s.cells.length + 1 ≤ capacity cfg s) :
    (insertCrt cfg s index false item).2 = [] ∧ capacity cfg (insertCrt cfg s index false item).1 = capacity cfg s := by
  unfold insertCrt
  rw [reserveOp_noop cfg _ _ (by exact h)]
  exact ⟨rfl, rfl⟩

theorem insertInput_noalloc (cfg : SCfg) : ∀ (ys : List α) (s : SState α) (xs : List α) (index : Nat),
    s.cells = xs.map Cell.live → index ≤ xs.length → xs.length + ys.length ≤ capacity cfg s →
    (insertInput cfg s index (ys.map Cell.live)).2 = [] ∧
    capacity cfg (insertInput cfg s index (ys.map Cell.live)).1 = capacity cfg s
  | [], s, _, _, _, _, _ => ⟨rfl, rfl⟩
  | y :: ys, s, xs, index, hs, hi, hc => by
    simp only [List.map_cons, insertInput]
    have hn : s.cells.length = xs.length := by simp [hs]
    simp only [List.length_cons] at hc
    obtain ⟨e1, c1⟩ := insertCrt_noalloc cfg s index (.ext (.live y)) (by omega)
    have h1 := insertCrt_cells cfg s xs index (.ext (.live y)) hs hi trivial
    have hlen : (Spec.insertN xs index 1 y).length = xs.length + 1 := by simp [Spec.insertN]; omega
    obtain ⟨e2, c2⟩ := insertInput_noalloc cfg ys _ (Spec.insertN xs index 1 y) (index + 1) h1 (by omega)
      (by rw [c1, hlen]; omega)
    exact ⟨by rw [e1, e2]; rfl, by rw [c2, c1]⟩

theorem addBackCrt_noalloc (cfg : SCfg) (ok : cfg.lay.Ok) (s : SState α) (item : Ref α)
    (h : s.cells.length + 1 ≤ capacity cfg s) :
    (addBackCrt cfg s false item).2 = [] ∧ capacity cfg (addBackCrt cfg s false item).1 = capacity cfg s := by
  unfold addBackCrt
  rw [if_pos (ok.seg_lt _ _ (by unfold capacity at h; omega))]
  exact ⟨rfl, rfl⟩

/-- a size-changing operation whose result fits into the current capacity allocates nothing -/
theorem step_noalloc (cfg : SCfg) (ok : cfg.lay.Ok) (s : SState α) (xs : List α) (op : Op α)
    (hs : s.cells = xs.map Cell.live) (hv : Spec.valid xs op) (hop : op.sizeOp)
    (hfit : (Spec.step xs op).length ≤ capacity cfg s) :
    (step cfg s op).2 = [] ∧ capacity cfg (step cfg s op).1 = capacity cfg s := by
  have hn : s.cells.length = xs.length := by simp [hs]
  cases op with
  | addBackCopy item =>
    simp only [Spec.step, List.length_append, List.length_singleton] at hfit
    exact addBackCrt_noalloc cfg ok s item (by omega)
  | addBackCrt item =>
    simp only [Spec.step, List.length_append, List.length_singleton] at hfit
    exact addBackCrt_noalloc cfg ok s item (by omega)
  | insertCrt index item =>
    have : (Spec.insertN xs index 1 (Spec.refVal xs item)).length = xs.length + 1 := by
      simp [Spec.insertN]; have := hv.1; omega
    simp only [Spec.step, this] at hfit
    exact insertCrt_noalloc cfg s index item (by omega)
  | insertN index count item =>
    have : (Spec.insertN xs index count (Spec.refVal xs item)).length = xs.length + count := by
      simp [Spec.insertN]; have := hv.1; omega
    simp only [Spec.step, this] at hfit
    simp only [step, insertN]
    rw [reserveOp_noop cfg s _ (by omega)]
    exact ⟨rfl, rfl⟩
  | insertRange index ys =>
    have : (Spec.insertList xs index ys).length = xs.length + ys.length := by
      simp [Spec.insertList]; have : index ≤ xs.length := hv; omega
    simp only [Spec.step, this] at hfit
    simp only [step, insertRange, List.length_map]
    rw [reserveOp_noop cfg s _ (by omega)]
    exact ⟨rfl, rfl⟩
  | insertInput index ys =>
    have : (Spec.insertList xs index ys).length = xs.length + ys.length := by
      simp [Spec.insertList]; have : index ≤ xs.length := hv; omega
    simp only [Spec.step, this] at hfit
    exact insertInput_noalloc cfg ys s xs index hs hv hfit
  | removeBack count => exact ⟨rfl, rfl⟩
  | remove index count => exact ⟨rfl, rfl⟩
  | removeIf p => exact ⟨rfl, rfl⟩
  | setCount count item =>
    simp only [step, setCount]
    split
    · exact ⟨rfl, rfl⟩
    · split
      · rename_i h1 h2
        have : (Spec.setCount xs count (Spec.refVal xs item)).length = count := by
          simp [Spec.setCount]; split <;> simp <;> omega
        simp only [Spec.step, this] at hfit
        rw [if_neg (by omega)]
        exact ⟨rfl, rfl⟩
      · exact ⟨rfl, rfl⟩
  | reserve n => exact hop.elim
  | shrink n => exact hop.elim
  | clear f =>
    have : f = false := hop
    subst this
    exact ⟨rfl, rfl⟩
  | assignFill count item => exact hop.elim
  | assignRange ys => exact hop.elim
  | setItem j x => exact ⟨rfl, rfl⟩
  | oracle b => exact ⟨rfl, rfl⟩

theorem run_noalloc (cfg : SCfg) (ok : cfg.lay.Ok) (n : Nat) : ∀ (ops : List (Op α)) (s : SState α) (xs : List α),
    s.cells = xs.map Cell.live → n ≤ capacity cfg s → (∀ op ∈ ops, op.sizeOp) →
    Spec.validAll xs ops → sizesLe xs ops n → (run cfg s ops).2 = []
  | [], _, _, _, _, _, _, _ => rfl
  | op :: ops, s, xs, hs, hc, hop, hv, hsz => by
    simp only [run]
    obtain ⟨e, c⟩ := step_noalloc cfg ok s xs op hs hv.1 (hop op (by simp)) (Nat.le_trans hsz.1 hc)
    rw [e, List.nil_append]
    exact run_noalloc cfg ok n ops _ _ (step_cells cfg s xs op hs hv.1) (by rw [c]; exact hc)
      (fun o ho => hop o (by simp [ho])) hv.2 hsz.2

/-! ### SegmentedArray: the allocated segments always have room for the items -/

/-- `mCount <= GetCapacity()` — with `Layout.Ok` this is what `MOMO_CHECK(segIndex < mSegments.GetCount())` of
    `AddBackNogrowCrt` and the `operator[]` calls of `ArrayShifter` need -/
def Inv (cfg : SCfg) (s : SState α) : Prop := s.cells.length ≤ capacity cfg s

theorem capacity_mono (cfg : SCfg) (ok : cfg.lay.Ok) (s t : SState α) (h : segCount s ≤ segCount t) :
    capacity cfg s ≤ capacity cfg t := ok.cap_mono _ _ h

theorem reserveOp_cap_old (cfg : SCfg) (ok : cfg.lay.Ok) (s : SState α) (n : Nat) :
    capacity cfg s ≤ capacity cfg (reserveOp cfg s n).1 := by
  unfold reserveOp
  split
  · unfold incCapacity
    exact capacity_mono cfg ok _ _ (by rw [addSegs_segCount]; omega)
  · exact Nat.le_refl _

theorem shrink_cells_arr (cfg : Cfg) (s : State Nat) (n : Nat) : (Arr.shrink cfg s n).1.cells = s.cells := by
  unfold Arr.shrink
  split
  · rfl
  · rw [moveTo_cells]
    intro h0
    have : s.cells.length ≤ Nat.max n s.cells.length := Nat.le_max_right _ _
    exact List.eq_nil_of_length_eq_zero (by omega)

theorem addBackCrt_inv (cfg : SCfg) (ok : cfg.lay.Ok) (s : SState α) (mv : Bool) (item : Ref α)
    (hi : Inv cfg s) (hlen : (addBackCrt cfg s mv item).1.cells.length = s.cells.length + 1) :
    Inv cfg (addBackCrt cfg s mv item).1 := by
  unfold Inv at hi ⊢
  rw [hlen]
  unfold addBackCrt
  split
  · rename_i h
    have := ok.lt_of_seg _ _ h
    show s.cells.length + 1 ≤ capacity cfg s
    unfold capacity; omega
  · show s.cells.length + 1 ≤ capacity cfg (addSeg cfg s).1
    unfold capacity at hi ⊢
    rw [addSeg_segCount]
    have := ok.cap_strict (segCount s)
    omega

theorem addAll_inv (cfg : SCfg) (ok : cfg.lay.Ok) : ∀ (cs : Cells α) (s : SState α), Inv cfg s →
    Inv cfg (addAll cfg s cs).1
  | [], _, h => h
  | c :: cs, s, h => by
    simp only [addAll]
    exact addAll_inv cfg ok cs _ (addBackCrt_inv cfg ok s false (.ext c) h (by rw [addBackCrt_cells]; simp))

theorem setCount_inv (cfg : SCfg) (ok : cfg.lay.Ok) (s : SState α) (count : Nat) (item : Ref α) (hi : Inv cfg s) :
    Inv cfg (setCount cfg s count item).1 := by
  unfold Inv at hi ⊢
  unfold setCount
  split
  · show (s.cells.take count).length ≤ capacity cfg s
    simp; omega
  · split
    · rename_i h1 h2
      simp only [Seg.withCells]
      split
      · rename_i h3
        rw [incCapacity_cells]
        have hc : count ≤ capacity cfg (incCapacity cfg s count).1 := by
          have := reserveOp_cap cfg ok s count
          unfold reserveOp at this
          rw [if_pos h3] at this
          exact this
        show (s.cells ++ List.replicate (count - s.cells.length) _).length ≤ capacity cfg (incCapacity cfg s count).1
        simp; omega
      · show (s.cells ++ List.replicate (count - s.cells.length) _).length ≤ capacity cfg s
        simp; omega
    · exact hi

theorem insertCrt_inv (cfg : SCfg) (ok : cfg.lay.Ok) (s : SState α) (xs : List α) (index : Nat) (item : Ref α)
    (hs : s.cells = xs.map Cell.live) (hi : index ≤ xs.length) (hr : Spec.refOk xs item) :
    Inv cfg (insertCrt cfg s index false item).1 := by
  unfold Inv
  rw [insertCrt_cells cfg s xs index item hs hi hr]
  unfold insertCrt
  simp only [Ref.taken, Bool.false_eq_true, if_false]
  have e : ({ s with cells := s.cells } : SState α) = s := by cases s; rfl
  rw [e]
  show _ ≤ capacity cfg (reserveOp cfg s (s.cells.length + 1)).1
  have := reserveOp_cap cfg ok s (s.cells.length + 1)
  simp [Spec.insertN, hs] at this ⊢
  omega

theorem insertInput_inv (cfg : SCfg) (ok : cfg.lay.Ok) : ∀ (ys : List α) (s : SState α) (xs : List α) (index : Nat),
    Inv cfg s → s.cells = xs.map Cell.live → index ≤ xs.length →
    Inv cfg (insertInput cfg s index (ys.map Cell.live)).1
  | [], _, _, _, h, _, _ => h
  | y :: ys, s, xs, index, _, hs, hi => by
    simp only [List.map_cons, insertInput]
    have h1 := insertCrt_cells cfg s xs index (.ext (.live y)) hs hi trivial
    have hlen : index + 1 ≤ (Spec.insertN xs index 1 y).length := by simp [Spec.insertN]; omega
    exact insertInput_inv cfg ok ys _ (Spec.insertN xs index 1 y) (index + 1)
      (insertCrt_inv cfg ok s xs index _ hs hi trivial) h1 hlen

/-- **the segments always have room**: every operation keeps `mCount <= GetCapacity()` -/
theorem step_inv (cfg : SCfg) (ok : cfg.lay.Ok) (s : SState α) (xs : List α) (op : Op α) (hi : Inv cfg s)
    (hs : s.cells = xs.map Cell.live) (hv : Spec.valid xs op) : Inv cfg (step cfg s op).1 := by
  have hn : s.cells.length = xs.length := by simp [hs]
  have hcells := step_cells cfg s xs op hs hv
  cases op with
  | addBackCopy item =>
    exact addBackCrt_inv cfg ok s false item hi (by rw [addBackCrt_cells]; simp)
  | addBackCrt item =>
    exact addBackCrt_inv cfg ok s false item hi (by rw [addBackCrt_cells]; simp)
  | insertCrt index item => exact insertCrt_inv cfg ok s xs index item hs hv.1 hv.2
  | insertN index count item =>
    unfold Inv; rw [hcells]
    show _ ≤ capacity cfg (reserveOp cfg s (s.cells.length + count)).1
    have := reserveOp_cap cfg ok s (s.cells.length + count)
    have h1 := hv.1
    simp [Spec.step, Spec.insertN] at this ⊢
    omega
  | insertRange index ys =>
    unfold Inv; rw [hcells]
    show _ ≤ capacity cfg (reserveOp cfg s (s.cells.length + (ys.map Cell.live).length)).1
    have := reserveOp_cap cfg ok s (s.cells.length + (ys.map Cell.live).length)
    have h1 : index ≤ xs.length := hv
    simp [Spec.step, Spec.insertList] at this ⊢
    omega
  | insertInput index ys => exact insertInput_inv cfg ok ys s xs index hi hs hv
  | removeBack count =>
    unfold Inv at hi ⊢
    show (s.cells.take (s.cells.length - count)).length ≤ capacity cfg s
    simp; omega
  | remove index count =>
    unfold Inv at hi ⊢; rw [hcells]
    show _ ≤ capacity cfg s
    simp [Spec.step, Spec.remove]; omega
  | removeIf p =>
    unfold Inv at hi ⊢; rw [hcells]
    show _ ≤ capacity cfg s
    have := List.length_filter_le (fun x => !p x) xs
    simp [Spec.step]; omega
  | setCount count item => exact setCount_inv cfg ok s count item hi
  | reserve n =>
    unfold Inv at hi ⊢
    show (reserveOp cfg s n).1.cells.length ≤ _
    rw [reserveOp_cells]
    exact Nat.le_trans hi (reserveOp_cap_old cfg ok s n)
  | shrink n =>
    unfold Inv at hi ⊢
    simp only [step, shrinkOp]
    split
    · exact hi
    · show s.cells.length ≤ _
      unfold capacity segCount
      simp only [shrink_cells_arr]
      show s.cells.length ≤ cfg.lay.index (s.segs.cells.take (s.segs.cells.length - (segCount s - cfg.lay.segsFor (Nat.max n s.cells.length)))).length 0
      rw [List.length_take]
      have h1 := ok.cap_segsFor (Nat.max n s.cells.length)
      have h2 : s.cells.length ≤ Nat.max n s.cells.length := Nat.le_max_right _ _
      by_cases hle : cfg.lay.segsFor (Nat.max n s.cells.length) ≤ segCount s
      · have e : min (s.segs.cells.length - (segCount s - cfg.lay.segsFor (Nat.max n s.cells.length))) s.segs.cells.length
            = cfg.lay.segsFor (Nat.max n s.cells.length) := by unfold segCount at hle ⊢; omega
        rw [e]; omega
      · have e : min (s.segs.cells.length - (segCount s - cfg.lay.segsFor (Nat.max n s.cells.length))) s.segs.cells.length
            = s.segs.cells.length := by unfold segCount at hle ⊢; omega
        rw [e]
        unfold capacity segCount at hi
        exact hi
  | clear f =>
    unfold Inv
    simp only [step, clearOp]
    split <;> exact Nat.zero_le _
  | assignFill count item =>
    simp only [step]
    exact setCount_inv cfg ok _ count _ (Nat.zero_le _)
  | assignRange ys =>
    simp only [step]
    exact addAll_inv cfg ok _ _ (Nat.zero_le _)
  | setItem j x =>
    unfold Inv at hi ⊢
    show (s.cells.set j _).length ≤ capacity cfg s
    simpa using hi
  | oracle b => exact hi

theorem run_inv (cfg : SCfg) (ok : cfg.lay.Ok) : ∀ (ops : List (Op α)) (s : SState α) (xs : List α),
    Inv cfg s → s.cells = xs.map Cell.live → Spec.validAll xs ops → Inv cfg (run cfg s ops).1
  | [], _, _, h, _, _ => h
  | op :: ops, s, xs, h, hs, hv => by
    simp only [run]
    exact run_inv cfg ok ops _ _ (step_inv cfg ok s xs op h hs hv.1) (step_cells cfg s xs op hs hv.1) hv.2

end Momo.Arr.Seg
