import Momo.Proof.TableIdx
/-!
  C07, table level, part 1: the invariant of a table, `DataIndexes::AddRaw` and `TryAdd` / `TryInsert`:
  a successful add keeps the invariant, a refused or failed one leaves the table unchanged.
-/
namespace Momo.Table
open List

/-- the invariant of a table: distinct raws at distinct addresses, row numbers = positions (when kept), every
    index consistent with the rows -/
structure Inv (acc : Acc) (keep : Bool) (t : Table) : Prop where
  idsNodup : (ids t.rows).Nodup
  addrInj : AddrInj t.rows
  nums : keep = true → ∀ (i : Nat) (r : Row), t.rows[i]? = some r → r.num = i
  uinv : ∀ u ∈ t.uidx, UInv acc t.rows u
  minv : ∀ m ∈ t.midx, MInv acc t.rows m

/-- "the table is unchanged": same rows in the same order, identical unique indexes, multi indexes identical up
    to the order of the raws inside a group (a rejected `pvAdd` may have sorted a segment) -/
def TEquiv (t t' : Table) : Prop := t'.rows = t.rows ∧ t'.uidx = t.uidx ∧ Forall₂ MEquiv t.midx t'.midx

theorem TEquiv.refl (t : Table) : TEquiv t t := ⟨rfl, rfl, forall₂_same.mpr (fun m _ => MEquiv.refl m)⟩

section add
variable {vis : Vis} (hc : Complete vis) (acc : Acc) {st0 : Store} (hnd : (ids st0).Nodup) (hai : AddrInj st0)
  {r : Row} (hr : r.id ∉ ids st0)
include hc hnd hr

/-- the pass of `AddRaw` over the unique indexes -/
theorem uAddAll_spec (f : Fault) : ∀ (us : List UIdx) (j : Nat), (∀ u ∈ us, UInv acc st0 u) →
    ((uAddAll vis acc (st0 ++ [r]) r.id f j us).1.map UIdx.rejectAdd = us) ∧
    (match (uAddAll vis acc (st0 ++ [r]) r.id f j us).2 with
     | .none => (uAddAll vis acc (st0 ++ [r]) r.id f j us).1 = us.map (fun u => uAdded acc u r.id r.vals) ∧
                ∀ u ∈ us, ∀ x ∈ st0, keyEq u.cols r.vals x.vals = false
     | .dup x jj => ∃ i u row, jj = j + i ∧ us[i]? = some u ∧ row ∈ st0 ∧ row.id = x ∧
                keyEq u.cols r.vals row.vals = true ∧
                ∀ i' u', i' < i → us[i']? = some u' → ∀ y ∈ st0, keyEq u'.cols r.vals y.vals = false
     | .fault => f ≠ .none) := by
  intro us
  induction us with
  | nil => intro j _; simp [uAddAll]
  | cons u us ih =>
    intro j hus
    have hu := hus u mem_cons_self
    have hrest := ih (j + 1) (fun u' hu' => hus u' (mem_cons_of_mem _ hu'))
    unfold uAddAll
    rcases UIdx.add_new hc acc hnd hr u hu (f.hits j) with ⟨x, hx, hk, he⟩ | ⟨hno, he⟩
    · -- the key is there: refused
      rw [he]
      have hne : (x.id != r.id) = true := by
        have : x.id ≠ r.id := fun e => hr (e ▸ mem_ids_iff.mpr ⟨x, hx, rfl⟩)
        simpa using this
      simp only [hne, if_true]
      refine ⟨?_, ?_⟩
      · simp only [map_cons]
        rw [rejectAdd_noPos u hu.noPos.1]
        congr 1
        rw [map_congr_left (fun u' hu' => rejectAdd_noPos u' (hus u' (mem_cons_of_mem _ hu')).noPos.1)]; simp
      · exact ⟨0, u, x, by simp, by simp, hx, rfl, hk, by intro i' u' hi'; omega⟩
    · rw [he]
      by_cases hf : f.hits j = true
      · rw [if_pos hf]
        simp only
        refine ⟨?_, ?_⟩
        · rw [map_congr_left (fun u' hu' => rejectAdd_noPos u' (hus u' hu').noPos.1)]; simp
        · intro e; subst e; simp [Fault.hits] at hf
      · rw [if_neg hf]
        simp only [bne_self_eq_false, Bool.false_eq_true, if_false, Prod.map_fst, Prod.map_snd, id_eq, map_cons]
        refine ⟨?_, ?_⟩
        · rw [rejectAdd_uAdded acc u r.id r.vals hu.noPos.1, hrest.1]
        · have h2 := hrest.2
          cases hs : (uAddAll vis acc (st0 ++ [r]) r.id f (j + 1) us).2 with
          | none =>
            rw [hs] at h2
            simp only at h2 ⊢
            refine ⟨by rw [h2.1], ?_⟩
            intro u' hu' x hx
            rcases mem_cons.mp hu' with h | h
            · subst h; exact hno x hx
            · exact h2.2 u' h x hx
          | dup x jj =>
            rw [hs] at h2
            simp only at h2 ⊢
            obtain ⟨i, u', row, hjj, hget, hrow, hid, hk, hprev⟩ := h2
            refine ⟨i + 1, u', row, by omega, by simpa using hget, hrow, hid, hk, ?_⟩
            intro i' u'' hi' hget' y hy
            cases i' with
            | zero => simp at hget'; subst hget'; exact hno y hy
            | succ i' => exact hprev i' u'' (by omega) (by simpa using hget') y hy
          | fault =>
            rw [hs] at h2
            exact h2

include hai

/-- one multi index under `Add(raw)` of a new raw: accepted, it satisfies the invariant for the rows plus the new
    one; rejected (or interrupted by a failure), it is the old index up to the order inside one group -/
theorem MIdx.add_spec (m : MIdx) (hm : MInv acc st0 m) :
    MInv acc (st0 ++ [r]) (m.add vis acc (st0 ++ [r]) r.id false).1.acceptAdd ∧
    (∀ fail, (m.add vis acc (st0 ++ [r]) r.id fail).2 = !fail ∧
      MEquiv m (m.add vis acc (st0 ++ [r]) r.id fail).1.rejectAdd ∧
      MInv acc st0 (m.add vis acc (st0 ++ [r]) r.id fail).1.rejectAdd) := by
  have hval : ∀ x ∈ ids st0, valsOf (st0 ++ [r]) x = valsOf st0 x := fun x hx => valsOf_append_left _ hx
  have hadr : ∀ x ∈ ids st0, addrOf (st0 ++ [r]) x = addrOf st0 x := fun x hx => addrOf_append_left _ hx
  rcases MIdx.add_new hc acc hnd hr m hm with ⟨A, g, B, hsplit, hk, he⟩ | ⟨hno, he⟩
  · -- the key exists
    have hgm : g ∈ m.groups := by rw [hsplit]; simp
    have hraws_sub : ∀ y ∈ g.raws, y ∈ ids st0 := fun y hy => hm.members_sub hgm y (by simp [Group.members, hy])
    have hndA : (g.raws.map (addrOf (st0 ++ [r]))).Nodup := by
      have := hm.members_addr_nodup hnd hai hgm
      unfold Group.members at this
      rw [map_cons, nodup_cons] at this
      rw [map_congr_left (fun y hy => hadr y (hraws_sub y hy))]; exact this.2
    have hsA : SegSorted (addrOf (st0 ++ [r])) g.raws :=
      (SegSorted_congr (fun y hy => hadr y (hraws_sub y hy))).mpr (hm.sorted g hgm)
    have hS := pvAddSort_perm (addrOf (st0 ++ [r])) g.raws
    -- the state after a rejected / failed add
    have hrej : MEquiv m { m with groups := A ++ { g with raws := pvAddSort (addrOf (st0 ++ [r])) g.raws } :: B } ∧
        MInv acc st0 { m with groups := A ++ { g with raws := pvAddSort (addrOf (st0 ++ [r])) g.raws } :: B } := by
      refine ⟨⟨rfl, rfl, rfl, ?_⟩, ?_⟩
      · show Forall₂ _ m.groups (A ++ _ :: B)
        rw [hsplit]
        exact forall₂_split _ A B g _ (fun x => ⟨rfl, rfl, Perm.refl _⟩) ⟨rfl, rfl, hS⟩
      · apply MInv_replace_raws acc hm (fun x _ => rfl) (fun x _ => rfl) A B g hsplit _ [] (by simp) (by simpa using hS)
          (by simp)
        refine (SegSorted_congr ?_).mp (segSorted_pvAddSort _ _ hndA hsA)
        intro y hy; exact hadr y (hraws_sub y (hS.mem_iff.mp hy))
    constructor
    · rw [he false]
      simp only [Bool.false_eq_true, if_false]
      have : ({ m with groups := A ++ { g with raws := pvAddSort (addrOf (st0 ++ [r])) g.raws ++ [r.id] } :: B,
                       kAdd := some A.length } : MIdx).acceptAdd =
          { m with groups := A ++ { g with raws := pvAddSort (addrOf (st0 ++ [r])) g.raws ++ [r.id] } :: B } := by
        unfold MIdx.acceptAdd; have := hm.noPos.1; cases m; simp_all
      rw [this]
      apply MInv_replace_raws acc hm hval hadr A B g hsplit _ [r.id] (by rw [ids_append])
        (Perm.append_right _ hS)
      · intro x hx; simp at hx; subst hx
        rw [valsOf_append_right r hr, hval _ (hm.members_sub hgm _ (by simp [Group.members])), keyEq_symm]; exact hk
      · exact segSorted_pvAdd _ _ _ hndA hsA
    · intro fail
      rw [he fail]
      cases fail
      · simp only [Bool.false_eq_true, if_false, Bool.not_false]
        have : ({ m with groups := A ++ { g with raws := pvAddSort (addrOf (st0 ++ [r])) g.raws ++ [r.id] } :: B,
                         kAdd := some A.length } : MIdx).rejectAdd =
            { m with groups := A ++ { g with raws := pvAddSort (addrOf (st0 ++ [r])) g.raws } :: B } := by
          unfold MIdx.rejectAdd
          simp only [getD_split, length_append, length_cons, length_nil]
          rw [if_pos (by omega), modify_split _ A B _ _ rfl]
          simp only [dropLast_concat]
          have := hm.noPos.1; cases m; simp_all
        rw [this]
        exact ⟨trivial, hrej⟩
      · simp only [if_true, Bool.not_true]
        rw [rejectAdd_noPos_m _ (by exact hm.noPos.1)]
        exact ⟨trivial, hrej⟩
  · -- a new key
    constructor
    · rw [he false]
      simp only [Bool.false_eq_true, if_false]
      exact MInv_append_group acc hm hr hno
    · intro fail
      rw [he fail]
      cases fail
      · simp only [Bool.false_eq_true, if_false, Bool.not_false]
        rw [rejectAdd_mAddedNew acc m r.id r.vals hm.noPos.1]
        exact ⟨trivial, MEquiv.refl m, hm⟩
      · simp only [if_true, Bool.not_true]
        rw [rejectAdd_noPos_m _ hm.noPos.1]
        exact ⟨trivial, MEquiv.refl m, hm⟩

/-- the pass of `AddRaw` over the multi indexes -/
theorem mAddAll_spec (f : Fault) : ∀ (ms : List MIdx) (j : Nat), (∀ m ∈ ms, MInv acc st0 m) →
    Forall₂ MEquiv ms ((mAddAll vis acc (st0 ++ [r]) r.id f j ms).1.map MIdx.rejectAdd) ∧
    (∀ m' ∈ (mAddAll vis acc (st0 ++ [r]) r.id f j ms).1.map MIdx.rejectAdd, MInv acc st0 m') ∧
    (match (mAddAll vis acc (st0 ++ [r]) r.id f j ms).2 with
     | .none => (mAddAll vis acc (st0 ++ [r]) r.id f j ms).1 = ms.map (fun m => (m.add vis acc (st0 ++ [r]) r.id false).1)
     | .dup _ _ => False
     | .fault => f ≠ .none) := by
  intro ms
  induction ms with
  | nil => intro j _; simp [mAddAll]
  | cons m ms ih =>
    intro j hms
    have hm := hms m mem_cons_self
    have hrest := ih (j + 1) (fun m' hm' => hms m' (mem_cons_of_mem _ hm'))
    obtain ⟨_, hall⟩ := MIdx.add_spec hc acc hnd hai hr m hm
    obtain ⟨h2, hequiv, hinv⟩ := hall (f.hits j)
    unfold mAddAll
    by_cases hf : f.hits j = true
    · have : (m.add vis acc (st0 ++ [r]) r.id (f.hits j)).2 = false := by rw [h2, hf]; rfl
      rw [if_neg (by rw [this]; simp)]
      simp only [map_cons]
      have hid : ms.map MIdx.rejectAdd = ms := by
        rw [map_congr_left (fun m' hm' => rejectAdd_noPos_m m' (hms m' (mem_cons_of_mem _ hm')).noPos.1)]; simp
      rw [hid]
      refine ⟨Forall₂.cons hequiv (forall₂_same.mpr (fun x _ => MEquiv.refl x)), ?_, ?_⟩
      · intro m' hm'
        rcases mem_cons.mp hm' with h | h
        · rw [h]; exact hinv
        · exact hms m' (mem_cons_of_mem _ h)
      · intro e; subst e; simp [Fault.hits] at hf
    · have hff : f.hits j = false := by simpa using hf
      have : (m.add vis acc (st0 ++ [r]) r.id (f.hits j)).2 = true := by rw [h2, hff]; rfl
      rw [if_pos this]
      simp only [Prod.map_fst, Prod.map_snd, id_eq, map_cons]
      refine ⟨Forall₂.cons hequiv hrest.1, ?_, ?_⟩
      · intro m' hm'
        rcases mem_cons.mp hm' with h | h
        · rw [h]; exact hinv
        · exact hrest.2.1 m' h
      · have h3 := hrest.2.2
        cases hs : (mAddAll vis acc (st0 ++ [r]) r.id f (j + 1) ms).2 with
        | none => rw [hs] at h3; simp only at h3 ⊢; rw [h3, hff]
        | dup x jj => rw [hs] at h3; exact h3
        | fault => rw [hs] at h3; exact h3

end add

theorem setNum_id (keep : Bool) (r : Row) (n : Nat) : (setNum keep r n).id = r.id := by unfold setNum; split <;> rfl
theorem setNum_vals (keep : Bool) (r : Row) (n : Nat) : (setNum keep r n).vals = r.vals := by unfold setNum; split <;> rfl
theorem setNum_addr (keep : Bool) (r : Row) (n : Nat) : (setNum keep r n).addr = r.addr := by unfold setNum; split <;> rfl
theorem setNum_num (r : Row) (n : Nat) : (setNum true r n).num = n := by simp [setNum]

/-! #### row numbers -/

theorem setNumbersFrom_rel (keep : Bool) : ∀ (rows : List Row) (n : Nat),
    Forall₂ (fun a b : Row => b.id = a.id ∧ b.vals = a.vals ∧ b.addr = a.addr) rows (setNumbersFrom keep n rows)
  | [], _ => Forall₂.nil
  | r :: rs, n => Forall₂.cons ⟨setNum_id keep r n, setNum_vals keep r n, setNum_addr keep r n⟩ (setNumbersFrom_rel keep rs (n + 1))

theorem setNumbers_rel (keep : Bool) (rows : List Row) (n : Nat) :
    Forall₂ (fun a b : Row => b.id = a.id ∧ b.vals = a.vals ∧ b.addr = a.addr) rows (setNumbers keep n rows) := by
  unfold setNumbers
  conv => arg 2; rw [← take_append_drop n rows]
  exact rel_append (forall₂_same.mpr (fun _ _ => ⟨rfl, rfl, rfl⟩)) (setNumbersFrom_rel keep _ n)

theorem setNumbers_sim (keep : Bool) (rows : List Row) (n : Nat) : StoreSim rows (setNumbers keep n rows) :=
  storeSim_of_forall₂ (setNumbers_rel keep rows n)

theorem setNumbersFrom_getElem? : ∀ (rows : List Row) (n i : Nat) (x : Row),
    (setNumbersFrom true n rows)[i]? = some x → x.num = n + i
  | [], _, _, _, h => by simp [setNumbersFrom] at h
  | r :: rs, n, 0, x, h => by
      simp [setNumbersFrom] at h; rw [← h, setNum_num]; rfl
  | r :: rs, n, i + 1, x, h => by
      simp only [setNumbersFrom, getElem?_cons_succ] at h
      have := setNumbersFrom_getElem? rs (n + 1) i x h
      omega

/-- after `pvSetNumbers(n)` every row from position `n` on carries its position -/
theorem setNumbers_nums (rows : List Row) (n : Nat) (hpre : ∀ (i : Nat) (x : Row), i < n → rows[i]? = some x → x.num = i) :
    ∀ (i : Nat) (x : Row), (setNumbers true n rows)[i]? = some x → x.num = i := by
  intro i x hx
  unfold setNumbers at hx
  by_cases hi : i < (rows.take n).length
  · rw [getElem?_append_left hi, getElem?_take] at hx
    rw [length_take] at hi
    rw [if_pos (by omega)] at hx
    exact hpre i x (by omega) hx
  · rw [getElem?_append_right (by omega)] at hx
    have := setNumbersFrom_getElem? _ _ _ _ hx
    rw [length_take] at this hi
    by_cases hn : n ≤ rows.length
    · rw [Nat.min_eq_left hn] at this hi; omega
    · -- nothing is renumbered
      have : rows.drop n = [] := drop_eq_nil_of_le (by omega)
      rw [this] at hx; simp [setNumbersFrom] at hx

theorem Inv_of_sim {acc : Acc} {keep : Bool} {t : Table} {st : Store} (hsim : StoreSim st t.rows) (hnd : (ids t.rows).Nodup)
    (hai : AddrInj t.rows) (hnum : keep = true → ∀ (i : Nat) (r : Row), t.rows[i]? = some r → r.num = i)
    (hu : ∀ u ∈ t.uidx, UInv acc st u) (hm : ∀ m ∈ t.midx, MInv acc st m) : Inv acc keep t :=
  ⟨hnd, hai, hnum, fun u h => UInv_sim hsim (hu u h), fun m h => MInv_sim hsim (hm m h)⟩

/-! ### `AddRaw`, `TryAdd` -/

section tryAdd
variable {vis : Vis} (hc : Complete vis) (acc : Acc) (keep : Bool)
include hc

/-- **`DataIndexes::AddRaw` of a new raw.** Either every index accepted it (then no row has its key in any unique
    index and all indexes satisfy their invariant for the rows plus the new one), or the table is unchanged and the
    answer names a row with the same key in the first unique index that has one, or a failure struck. -/
theorem addRaw_spec (t : Table) (hinv : Inv acc keep t) (r : Row) (hr : r.id ∉ ids t.rows) (f : Fault) :
    match (addRaw vis acc t (t.rows ++ [r]) r.id f).2 with
    | .none => (∀ u ∈ (addRaw vis acc t (t.rows ++ [r]) r.id f).1.uidx, UInv acc (t.rows ++ [r]) u) ∧
               (∀ m ∈ (addRaw vis acc t (t.rows ++ [r]) r.id f).1.midx, MInv acc (t.rows ++ [r]) m) ∧
               (addRaw vis acc t (t.rows ++ [r]) r.id f).1.rows = t.rows ∧
               (∀ u ∈ t.uidx, ∀ x ∈ t.rows, keyEq u.cols r.vals x.vals = false)
    | .dup x j => TEquiv t (addRaw vis acc t (t.rows ++ [r]) r.id f).1 ∧ Inv acc keep (addRaw vis acc t (t.rows ++ [r]) r.id f).1 ∧
               ∃ u row, t.uidx[j]? = some u ∧ row ∈ t.rows ∧ row.id = x ∧ keyEq u.cols r.vals row.vals = true ∧
                 ∀ i' u', i' < j → t.uidx[i']? = some u' → ∀ y ∈ t.rows, keyEq u'.cols r.vals y.vals = false
    | .fault => TEquiv t (addRaw vis acc t (t.rows ++ [r]) r.id f).1 ∧ Inv acc keep (addRaw vis acc t (t.rows ++ [r]) r.id f).1 ∧
               f ≠ .none := by
  have hU := uAddAll_spec hc acc hinv.idsNodup hr f t.uidx 0 hinv.uinv
  have hM := mAddAll_spec hc acc hinv.idsNodup hinv.addrInj hr f t.midx t.uidx.length hinv.minv
  have hidm : t.midx.map MIdx.rejectAdd = t.midx := by
    rw [map_congr_left (fun m' hm' => rejectAdd_noPos_m m' (hinv.minv m' hm').noPos.1)]; simp
  unfold addRaw
  cases hs : (uAddAll vis acc (t.rows ++ [r]) r.id f 0 t.uidx).2 with
  | none =>
    rw [hs] at hU
    obtain ⟨hU1, hU2, hU3⟩ := hU
    have e : uAddAll vis acc (t.rows ++ [r]) r.id f 0 t.uidx = ((uAddAll vis acc (t.rows ++ [r]) r.id f 0 t.uidx).1, Stop.none) := by
      rw [← hs]
    rw [e]
    simp only
    cases hs2 : (mAddAll vis acc (t.rows ++ [r]) r.id f t.uidx.length t.midx).2 with
    | none =>
      rw [hs2] at hM
      obtain ⟨_, _, hM3⟩ := hM
      have e2 : mAddAll vis acc (t.rows ++ [r]) r.id f t.uidx.length t.midx =
          ((mAddAll vis acc (t.rows ++ [r]) r.id f t.uidx.length t.midx).1, Stop.none) := by rw [← hs2]
      rw [e2]
      simp only
      refine ⟨?_, ?_, trivial, hU3⟩
      · intro u hu
        rw [hU2, map_map] at hu
        obtain ⟨u0, hu0, rfl⟩ := mem_map.mp hu
        exact UInv_add acc hinv.idsNodup hr u0 (hinv.uinv u0 hu0) (hU3 u0 hu0)
      · intro m hm
        rw [hM3, map_map] at hm
        obtain ⟨m0, hm0, rfl⟩ := mem_map.mp hm
        exact (MIdx.add_spec hc acc hinv.idsNodup hinv.addrInj hr m0 (hinv.minv m0 hm0)).1
    | dup x jj => rw [hs2] at hM; exact absurd hM.2.2 (by simp)
    | fault =>
      rw [hs2] at hM
      obtain ⟨hM1, hM2, hM3⟩ := hM
      have e2 : mAddAll vis acc (t.rows ++ [r]) r.id f t.uidx.length t.midx =
          ((mAddAll vis acc (t.rows ++ [r]) r.id f t.uidx.length t.midx).1, Stop.fault) := by rw [← hs2]
      rw [e2]
      simp only
      rw [hU1]
      exact ⟨⟨rfl, rfl, hM1⟩, ⟨hinv.idsNodup, hinv.addrInj, hinv.nums, hinv.uinv, hM2⟩, hM3⟩
  | dup x jj =>
    rw [hs] at hU
    obtain ⟨hU1, i, u, row, hjj, hget, hrow, hid, hk, hprev⟩ := hU
    have e : uAddAll vis acc (t.rows ++ [r]) r.id f 0 t.uidx = ((uAddAll vis acc (t.rows ++ [r]) r.id f 0 t.uidx).1, Stop.dup x jj) := by
      rw [← hs]
    rw [e]
    simp only
    rw [hU1, hidm]
    refine ⟨TEquiv.refl t, hinv, u, row, by rw [hjj]; simpa using hget, hrow, hid, hk, ?_⟩
    intro i' u' hi' hget' y hy
    exact hprev i' u' (by omega) hget' y hy
  | fault =>
    rw [hs] at hU
    obtain ⟨hU1, hU2⟩ := hU
    have e : uAddAll vis acc (t.rows ++ [r]) r.id f 0 t.uidx = ((uAddAll vis acc (t.rows ++ [r]) r.id f 0 t.uidx).1, Stop.fault) := by
      rw [← hs]
    rw [e]
    simp only
    rw [hU1, hidm]
    exact ⟨TEquiv.refl t, hinv, hU2⟩

/-- **`TryAdd`.** (new raw: fresh identity, address not in use) The result satisfies the invariant; the answer is
    `ok` exactly when no row has the key of the new row in any unique index, then the row is appended with its
    position as number; otherwise the table is unchanged and the answer names the conflicting row and the first
    index that has one - or `std::bad_alloc` struck, and the table is unchanged as well. -/
theorem tryAdd_spec (t : Table) (hinv : Inv acc keep t) (r : Row) (hr : r.id ∉ ids t.rows)
    (hra : r.addr ∉ t.rows.map (·.addr)) (f : Fault) :
    Inv acc keep (tryAdd vis acc keep t r f).1 ∧
    match (tryAdd vis acc keep t r f).2 with
    | .ok => (tryAdd vis acc keep t r f).1.rows = t.rows ++ [setNum keep r t.rows.length] ∧
             (∀ u ∈ t.uidx, ∀ x ∈ t.rows, keyEq u.cols r.vals x.vals = false)
    | .dup x j => TEquiv t (tryAdd vis acc keep t r f).1 ∧
             ∃ u row, t.uidx[j]? = some u ∧ row ∈ t.rows ∧ row.id = x ∧ keyEq u.cols r.vals row.vals = true ∧
               ∀ i' u', i' < j → t.uidx[i']? = some u' → ∀ y ∈ t.rows, keyEq u'.cols r.vals y.vals = false
    | .badAlloc => TEquiv t (tryAdd vis acc keep t r f).1 ∧ f ≠ .none
    | .outOfRange => False := by
  unfold tryAdd
  by_cases hf : f = .pre
  · rw [if_pos hf]
    exact ⟨hinv, TEquiv.refl t, by rw [hf]; simp⟩
  · rw [if_neg hf]
    have h := addRaw_spec hc acc keep t hinv r hr f
    cases hs : (addRaw vis acc t (t.rows ++ [r]) r.id f).2 with
    | none =>
      rw [hs] at h
      obtain ⟨hu, hm, _, hno⟩ := h
      have e : addRaw vis acc t (t.rows ++ [r]) r.id f = ((addRaw vis acc t (t.rows ++ [r]) r.id f).1, Stop.none) := by rw [← hs]
      rw [e]
      simp only
      refine ⟨?_, trivial, hno⟩
      have hrel : Forall₂ (fun a b : Row => b.id = a.id ∧ b.vals = a.vals ∧ b.addr = a.addr) (t.rows ++ [r])
          (t.rows ++ [setNum keep r t.rows.length]) :=
        rel_append (forall₂_same.mpr (fun _ _ => ⟨rfl, rfl, rfl⟩))
          (Forall₂.cons ⟨setNum_id _ _ _, setNum_vals _ _ _, setNum_addr _ _ _⟩ Forall₂.nil)
      refine Inv_of_sim (t := { (addRaw vis acc t (t.rows ++ [r]) r.id f).1 with rows := t.rows ++ [setNum keep r t.rows.length] })
        (storeSim_of_forall₂ hrel) ?_ ?_ ?_ hu hm
      · show (ids (t.rows ++ [setNum keep r t.rows.length])).Nodup
        rw [ids_append, setNum_id]
        exact nodup_append.mpr ⟨hinv.idsNodup, by simp, by intro a ha b hb; simp at hb; subst hb; exact fun e => hr (e ▸ ha)⟩
      · show ((t.rows ++ [setNum keep r t.rows.length]).map (·.addr)).Nodup
        rw [map_append]
        simp only [map_cons, map_nil, setNum_addr]
        exact nodup_append.mpr ⟨hinv.addrInj, by simp, by intro a ha b hb; simp at hb; subst hb; exact fun e => hra (e ▸ ha)⟩
      · intro hk i x hx
        show x.num = i
        have hx' : (t.rows ++ [setNum keep r t.rows.length])[i]? = some x := hx
        by_cases hi : i < t.rows.length
        · rw [getElem?_append_left hi] at hx'; exact hinv.nums hk i x hx'
        · rw [getElem?_append_right (by omega)] at hx'
          have : i - t.rows.length = 0 := by
            by_contra hne
            have : (i - t.rows.length) = (i - t.rows.length - 1) + 1 := by omega
            rw [this] at hx'; simp at hx'
          rw [this] at hx'; simp at hx'
          rw [← hx', hk, setNum_num]; omega
    | dup x j =>
      rw [hs] at h
      have e : addRaw vis acc t (t.rows ++ [r]) r.id f = ((addRaw vis acc t (t.rows ++ [r]) r.id f).1, Stop.dup x j) := by rw [← hs]
      rw [e]
      exact ⟨h.2.1, h.1, h.2.2⟩
    | fault =>
      rw [hs] at h
      have e : addRaw vis acc t (t.rows ++ [r]) r.id f = ((addRaw vis acc t (t.rows ++ [r]) r.id f).1, Stop.fault) := by rw [← hs]
      rw [e]
      exact ⟨h.2.1, h.1, h.2.2⟩

end tryAdd

end Momo.Table
