import Momo.Proof.VerMulti
/-!
  DataTable row references / selections / hash bounds and index-checked arrays (C15).
  Core Lean only.
-/
namespace Momo.Ver

/-! ### DataTable -/

/-- effect of one call on a table: `nc` increments of the change version, `nr` of the remove version; `nc > 0` when the
    rows changed in any way, `nr > 0` when a row that was present is gone (removed or replaced by a new raw) -/
def TblEff (cs : Cells) (t : Table) (cs' : Cells) (t' : Table) : Prop :=
  t'.id = t.id ∧ t'.ccell = t.ccell ∧ t'.rcell = t.rcell ∧ ∃ nc nr, cs' = bumpN (bumpN cs t.ccell nc) t.rcell nr ∧
    (t'.rows ≠ t.rows → 0 < nc) ∧ ((∃ x ∈ t.rows, ∀ y ∈ t'.rows, y.raw ≠ x.raw) → 0 < nr)

theorem TblEff.refl (cs : Cells) (t : Table) : TblEff cs t cs t :=
  ⟨rfl, rfl, rfl, 0, 0, by rw [bumpN_zero, bumpN_zero], fun h => absurd rfl h,
   fun ⟨x, hx, h⟩ => absurd rfl (h x hx)⟩

theorem TblEff.both {cs cs' : Cells} {t t' : Table} (hcs : cs' = bump (bump cs t.ccell) t.rcell)
    (h1 : t'.id = t.id) (h2 : t'.ccell = t.ccell) (h3 : t'.rcell = t.rcell) : TblEff cs t cs' t' :=
  ⟨h1, h2, h3, 1, 1, hcs, fun _ => Nat.one_pos, fun _ => Nat.one_pos⟩

/-- only the change version moves: allowed when every old raw is still present -/
theorem TblEff.change {cs cs' : Cells} {t t' : Table} (hcs : cs' = bump cs t.ccell)
    (h1 : t'.id = t.id) (h2 : t'.ccell = t.ccell) (h3 : t'.rcell = t.rcell)
    (hkeep : ∀ x ∈ t.rows, ∃ y ∈ t'.rows, y.raw = x.raw) : TblEff cs t cs' t' :=
  ⟨h1, h2, h3, 1, 0, by rw [hcs, bumpN_zero]; rfl, fun _ => Nat.one_pos,
   fun ⟨x, hx, h⟩ => by obtain ⟨y, hy, e⟩ := hkeep x hx; exact absurd e (h y hy)⟩

namespace Table

theorem tryAdd_eff (t : Table) (cs : Cells) (a b : Nat) : TblEff cs t (t.tryAdd cs a b).1 (t.tryAdd cs a b).2.1 := by
  unfold tryAdd
  split
  · exact TblEff.refl cs t
  · refine TblEff.change (by rfl) (by rfl) (by rfl) (by rfl) ?_
    intro x hx
    exact ⟨x, List.mem_append_left _ hx, rfl⟩

theorem tryInsert_eff {t : Table} {cs : Cells} {i a b : Nat} {r} (hr : t.tryInsert cs i a b = some r) : TblEff cs t r.1 r.2.1 := by
  unfold tryInsert at hr
  cases h1 : chk (decide (i ≤ t.rows.length)) <;> simp [h1] at hr
  split at hr
  · simp at hr; subst hr; exact TblEff.refl cs t
  · simp at hr; subst hr
    refine TblEff.change (by rfl) (by rfl) (by rfl) (by rfl) ?_
    intro x hx
    refine ⟨x, ?_, rfl⟩
    have := List.take_append_drop i t.rows
    rw [← this] at hx
    rcases List.mem_append.mp hx with h | h
    · exact List.mem_append_left _ h
    · exact List.mem_append_right _ (List.mem_cons_of_mem _ h)

theorem tryUpdateRow_eff {t : Table} {cs : Cells} {i a b : Nat} {r} (hr : t.tryUpdateRow cs i a b = some r) : TblEff cs t r.1 r.2.1 := by
  unfold tryUpdateRow at hr
  cases h1 : t.rows[i]? <;> simp [h1] at hr
  split at hr
  · simp at hr; subst hr; exact TblEff.refl cs t
  · simp at hr; subst hr; exact TblEff.both (by rfl) (by rfl) (by rfl) (by rfl)

theorem updateB_eff {t : Table} {cs : Cells} {r : RowRef} {b : Nat} {x} (hr : t.updateB cs r b = some x) : TblEff cs t x.1 x.2 := by
  unfold updateB at hr
  cases h1 : t.checkRef cs r <;> simp [h1] at hr
  subst hr
  refine TblEff.change (by rfl) (by rfl) (by rfl) (by rfl) ?_
  intro y hy
  refine ⟨_, List.mem_map_of_mem hy, ?_⟩
  split <;> rfl

theorem dropRow_eff (t : Table) (cs : Cells) (raw : Nat) : TblEff cs t (t.dropRow cs raw).1 (t.dropRow cs raw).2 :=
  TblEff.both (by rfl) (by rfl) (by rfl) (by rfl)

theorem removeRef_eff {t : Table} {cs : Cells} {r : RowRef} {x} (hr : t.removeRef cs r = some x) : TblEff cs t x.1 x.2 := by
  unfold removeRef at hr
  cases h1 : t.checkRef cs r <;> simp [h1] at hr
  subst hr; exact dropRow_eff t cs _

theorem removeNum_eff {t : Table} {cs : Cells} {i : Nat} {x} (hr : t.removeNum cs i = some x) : TblEff cs t x.1 x.2 := by
  unfold removeNum at hr
  cases h1 : t.rows[i]? <;> simp [h1] at hr
  subst hr; exact dropRow_eff t cs _

theorem clear_eff (t : Table) (cs : Cells) : TblEff cs t (t.clear cs).1 (t.clear cs).2 := TblEff.both (by rfl) (by rfl) (by rfl) (by rfl)
theorem removeIf_eff (t : Table) (cs : Cells) (m r : Nat) : TblEff cs t (t.removeIf cs m r).1 (t.removeIf cs m r).2.1 :=
  TblEff.both (by rfl) (by rfl) (by rfl) (by rfl)
theorem removeRefs_eff {t : Table} {cs : Cells} {rs : List RowRef} {keep : Bool} {x} (hr : t.removeRefs cs rs keep = some x) :
    TblEff cs t x.1 x.2 := by
  unfold removeRefs at hr
  cases h1 : chk (rs.all fun r => r.kp.check cs && r.tbl == t.id) <;> simp [h1] at hr
  subst hr; exact TblEff.both (by rfl) (by rfl) (by rfl) (by rfl)

/-- **insertion and single-column update never invalidate row references**: the remove version is untouched -/
theorem add_keeps_remove_version (t : Table) (cs : Cells) (a b : Nat) (hne : t.ccell ≠ t.rcell) :
    (t.tryAdd cs a b).1 t.rcell = cs t.rcell := by
  unfold tryAdd
  split
  · rfl
  · exact bump_other _ (fun e => hne e.symm)

theorem insert_keeps_remove_version {t : Table} {cs : Cells} {i a b : Nat} {r} (hne : t.ccell ≠ t.rcell)
    (hr : t.tryInsert cs i a b = some r) : r.1 t.rcell = cs t.rcell := by
  unfold tryInsert at hr
  cases h1 : chk (decide (i ≤ t.rows.length)) <;> simp [h1] at hr
  split at hr <;> simp at hr <;> subst hr
  · rfl
  · exact bump_other _ (fun e => hne e.symm)

theorem updateB_keeps_remove_version {t : Table} {cs : Cells} {r : RowRef} {b : Nat} {x} (hne : t.ccell ≠ t.rcell)
    (hr : t.updateB cs r b = some x) : x.1 t.rcell = cs t.rcell := by
  unfold updateB at hr
  cases h1 : t.checkRef cs r <;> simp [h1] at hr
  subst hr
  exact bump_other _ (fun e => hne e.symm)

/-- a row reference taken before a removal / replacement is stale afterwards -/
theorem TblEff_ref_stale {cs cs' : Cells} {t t' : Table} (he : TblEff cs t cs' t') (hne : t.ccell ≠ t.rcell)
    (hgone : ∃ x ∈ t.rows, ∀ y ∈ t'.rows, y.raw ≠ x.raw) (hlt : cs' t.rcell < cs t.rcell + W) (raw : Nat) :
    Stale (t.mkRef cs raw).kp cs' := by
  obtain ⟨_, _, _, nc, nr, hcs, _, hr⟩ := he
  have := hr hgone
  apply snap_stale _ hlt
  rw [hcs, bumpN_same, bumpN_other _ _ (fun e => hne e.symm)]; omega

/-- hash bounds taken before any change of the rows are stale afterwards (their raw iterators watch the change version) -/
theorem TblEff_bounds_stale {cs cs' : Cells} {t t' : Table} (he : TblEff cs t cs' t') (hne : t.ccell ≠ t.rcell)
    (hchg : t'.rows ≠ t.rows) (hlt : cs' t.ccell < cs t.ccell + W) (v : Nat) :
    Stale (t.findMulti cs v).ckp cs' := by
  obtain ⟨_, _, _, nc, nr, hcs, hc, _⟩ := he
  have := hc hchg
  apply snap_stale _ hlt
  rw [hcs, bumpN_other _ _ hne, bumpN_same]; omega

/-- **stale row reference**: every entry point that takes it throws -/
theorem ref_stale_rejected (t : Table) (cs : Cells) (r : RowRef) (hs : Stale r.kp cs) :
    r.get cs = none ∧ t.removeRef cs r = none ∧ (∀ b, t.updateB cs r b = none) ∧ t.makeMutable cs r = none ∧
    newRowFrom cs r = none ∧ (∀ rs1 rs2 keep, t.removeRefs cs (rs1 ++ r :: rs2) keep = none) := by
  have hc := hs.check
  have hcr : t.checkRef cs r = none := by
    unfold checkRef; cases chk (r.tbl == t.id) <;> simp [hc, chk]
  refine ⟨by simp [RowRef.get, hc, chk], by simp [removeRef, hcr], fun b => by simp [updateB, hcr],
    by simp [makeMutable, hcr], by simp [newRowFrom, hc, chk], ?_⟩
  intro rs1 rs2 keep
  simp [removeRefs, hc, chk]

/-- **row reference of another table**: rejected by the column-list identity check -/
theorem ref_foreign_rejected (t : Table) (cs : Cells) (r : RowRef) (hne : r.tbl ≠ t.id) :
    t.removeRef cs r = none ∧ (∀ b, t.updateB cs r b = none) ∧ t.makeMutable cs r = none ∧
    (∀ rs1 rs2 keep, t.removeRefs cs (rs1 ++ r :: rs2) keep = none) := by
  have hb : (r.tbl == t.id) = false := by simp [hne]
  have hcr : t.checkRef cs r = none := by simp [checkRef, hb, chk]
  refine ⟨by simp [removeRef, hcr], fun b => by simp [updateB, hcr], by simp [makeMutable, hcr], ?_⟩
  intro rs1 rs2 keep
  simp [removeRefs, hb, chk]

/-- **no false positive**: a reference made from the current remove version of its own table -/
theorem ref_fresh_accepted (t : Table) (cs : Cells) (raw : Nat) :
    ((t.mkRef cs raw).get cs).isSome = true ∧ (t.removeRef cs (t.mkRef cs raw)).isSome = true ∧
    (∀ b, (t.updateB cs (t.mkRef cs raw) b).isSome = true) ∧ (t.makeMutable cs (t.mkRef cs raw)).isSome = true := by
  have hcr : t.checkRef cs (t.mkRef cs raw) = some () := by simp [checkRef, mkRef, snap_check, chk]
  refine ⟨by simp [RowRef.get, mkRef, snap_check, chk], by simp [removeRef, hcr], fun b => by simp [updateB, hcr],
    by simp [makeMutable, hcr]⟩

/-- out-of-range row numbers -/
theorem at_isSome (t : Table) (cs : Cells) (i : Nat) : (t.at_ cs i).isSome = decide (i < t.rows.length) := by
  unfold at_
  by_cases h : i < t.rows.length <;> simp [h]
theorem removeNum_isSome (t : Table) (cs : Cells) (i : Nat) : (t.removeNum cs i).isSome = decide (i < t.rows.length) := by
  unfold removeNum
  by_cases h : i < t.rows.length <;> simp [h]
theorem tryInsert_isSome (t : Table) (cs : Cells) (i a b : Nat) : (t.tryInsert cs i a b).isSome = decide (i ≤ t.rows.length) := by
  unfold tryInsert
  by_cases h : i ≤ t.rows.length
  · simp only [h, decide_true, chk_true, Option.bind_eq_bind, Option.bind_some]
    split <;> rfl
  · simp [h, chk]

end Table

namespace Sel

/-- references obtained from a selection carry the selection's keeper: a selection taken before a removal yields stale
    references, and its whole-selection reads (Sort / Group / binary search by columns) throw -/
theorem stale_rejected (s : Sel) (cs : Cells) (hs : Stale s.kp cs) :
    (∀ i r, s.at_ i = some r → r.get cs = none) ∧ (s.raws ≠ [] → s.readAll cs = none) := by
  constructor
  · intro i r hr
    unfold at_ at hr
    cases h : s.raws[i]? <;> simp [h] at hr
    subst hr
    simp [RowRef.get, hs.check, chk]
  · intro hne
    unfold readAll
    cases h : s.raws with
    | nil => exact absurd h hne
    | cons x xs => simp [hs.check, chk]

/-- a stale reference cannot be stored into a selection -/
theorem store_stale_rejected (s : Sel) (cs : Cells) (r : RowRef) (hs : Stale r.kp cs) :
    (∀ i, s.set cs i r = none) ∧ s.add cs r = none ∧ (∀ i, s.insert cs i r = none) := by
  have hc := hs.check
  exact ⟨fun i => by simp [set, hc, chk], by simp [add, hc, chk], fun i => by simp [insert, hc, chk]⟩

theorem fresh_accepted (t : Table) (cs : Cells) (m r : Nat) :
    (∀ i x, (t.select cs m r).at_ i = some x → (x.get cs).isSome = true) ∧ ((t.select cs m r).readAll cs).isSome = true := by
  constructor
  · intro i x hx
    unfold at_ at hx
    cases h : (t.select cs m r).raws[i]? <;> simp [h] at hx
    subst hx
    simp [RowRef.get, Table.select, snap_check, chk]
  · unfold readAll
    split
    · rfl
    · simp [Table.select, snap_check, chk]

theorem at_isSome (s : Sel) (i : Nat) : (s.at_ i).isSome = decide (i < s.raws.length) := by
  unfold at_
  by_cases h : i < s.raws.length <;> simp [h]

theorem remove_isSome (s : Sel) (i n : Nat) : (s.remove i n).isSome = decide (i + n ≤ s.raws.length) := by
  unfold remove
  by_cases h : i + n ≤ s.raws.length <;> simp [h, chk]

end Sel

namespace MBounds

theorem stale_rejected (m : MBounds) (cs : Cells) (hs : Stale m.ckp cs) (i : Nat) : m.at_ cs i = none := by
  unfold at_
  cases m.raws[i]? <;> simp [hs.check, chk]

theorem fresh_accepted (t : Table) (cs : Cells) (v i : Nat) (hi : i < (t.findMulti cs v).raws.length) :
    ((t.findMulti cs v).at_ cs i).isSome = true := by
  unfold at_
  have : (t.findMulti cs v).raws[i]? = some ((t.findMulti cs v).raws[i]) := List.getElem?_eq_getElem hi
  rw [this]
  simp [Table.findMulti, snap_check, chk]

end MBounds

/-! ### Array with index iterators / SegmentedArray -/

namespace Arr

theorem at_isSome (a : Arr) (i : Nat) : (a.at_ i).isSome = decide (i < a.items.length) := by
  unfold at_
  by_cases h : i < a.items.length <;> simp [h]

/-- `GetBackItem` throws exactly on the empty array -/
theorem back_isSome (a : Arr) (hlen : a.items.length < W) : (a.back).isSome = decide (0 < a.items.length) := by
  unfold back w64
  by_cases h : 0 < a.items.length
  · have : (a.items.length + W - 1) % W = a.items.length - 1 := by
      have : a.items.length + W - 1 = (a.items.length - 1) + W := by omega
      rw [this, Nat.add_mod_right, Nat.mod_eq_of_lt (by omega)]
    have hlt : a.items.length - 1 < a.items.length := by omega
    simp [this, h, hlt]
  · have h0 : a.items.length = 0 := by omega
    have : (a.items.length + W - 1) % W = W - 1 := by
      rw [h0, Nat.zero_add]; exact Nat.mod_eq_of_lt (by decide)
    have hnil : a.items = [] := List.length_eq_zero_iff.mp h0
    simp [hnil]

theorem insert_isSome (a : Arr) (i n v : Nat) : (a.insert i n v).isSome = decide (i ≤ a.items.length) := by
  unfold insert
  by_cases h : i ≤ a.items.length <;> simp [h, chk]

theorem removeBack_isSome (a : Arr) (n : Nat) : (a.removeBack n).isSome = decide (n ≤ a.items.length) := by
  unfold removeBack
  by_cases h : n ≤ a.items.length <;> simp [h, chk]

/-- `Remove(index, count)` is accepted exactly when the range lies inside the array, for all naturals (no wrap-around) -/
theorem remove_isSome (a : Arr) (i n : Nat) : (a.remove i n).isSome = decide (i + n ≤ a.items.length) := by
  unfold remove
  by_cases h : i + n ≤ a.items.length
  · have : i ≤ a.items.length ∧ n ≤ a.items.length - i := by omega
    simp [h, this.1, this.2, chk]
  · by_cases h1 : i ≤ a.items.length
    · have : ¬ n ≤ a.items.length - i := by omega
      simp [h, h1, this, chk]
    · simp [h, h1, chk]

theorem remove_length {a a' : Arr} {i n : Nat} (h : a.remove i n = some a') : a'.items.length + n = a.items.length := by
  unfold remove at h
  cases hc : chk (decide (i ≤ a.items.length) && decide (n ≤ a.items.length - i)) <;> simp [hc] at h
  subst h
  have := chk_eq_some.mp hc
  simp at this
  simp only [List.length_append, List.length_take, List.length_drop]
  omega

end Arr

namespace AIt

theorem add_isSome_iff_check (it : AIt) (count : Nat) (d : Int) :
    (it.add count d).isSome = (match it.arr with | some _ => decide (addDiff it.idx d ≤ count) | none => decide (d = 0)) := by
  unfold add
  cases it.arr with
  | none => by_cases h : d = 0 <;> simp [h, chk]
  | some x => by_cases h : addDiff it.idx d ≤ count <;> simp [h, chk]

/-- `it += d` on an iterator of a live array (`idx ≤ count < 2^63`, `|d| ≤ 2^63`) is accepted exactly when the target
    lies in `[0, count]`: moving before the first element wraps to a huge index and is rejected -/
theorem add_isSome (it : AIt) (count : Nat) (d : Int) (x : Nat) (ha : it.arr = some x) (hidx : it.idx ≤ count)
    (hc : count < 9223372036854775808) (hd1 : -9223372036854775808 ≤ d) (hd2 : d < 9223372036854775808) :
    (it.add count d).isSome = true ↔ (0 ≤ Int.ofNat it.idx + d ∧ Int.ofNat it.idx + d ≤ Int.ofNat count) := by
  rw [add_isSome_iff_check, ha]
  simp only [decide_eq_true_eq]
  have hW : (Int.ofNat W) = 18446744073709551616 := rfl
  by_cases hneg : Int.ofNat it.idx + d < 0
  · have hmod : (Int.ofNat it.idx + d) % Int.ofNat W = Int.ofNat it.idx + d + Int.ofNat W := by
      rw [Int.emod_eq_add_self_emod, Int.emod_eq_of_lt] <;> simp only [Int.ofNat_eq_natCast] at * <;> omega
    have hbig : ¬ addDiff it.idx d ≤ count := by
      unfold addDiff
      rw [hmod]
      simp only [Int.ofNat_eq_natCast] at *
      omega
    constructor
    · intro h; exact absurd h hbig
    · intro h; omega
  · have hmod : (Int.ofNat it.idx + d) % Int.ofNat W = Int.ofNat it.idx + d := by
      apply Int.emod_eq_of_lt <;> simp only [Int.ofNat_eq_natCast] at * <;> omega
    have hiff : addDiff it.idx d ≤ count ↔ Int.ofNat it.idx + d ≤ Int.ofNat count := by
      unfold addDiff
      rw [hmod]
      simp only [Int.ofNat_eq_natCast] at *
      omega
    constructor
    · intro h; exact ⟨by omega, hiff.mp h⟩
    · intro h; exact hiff.mpr h.2

/-- a default-constructed iterator only accepts `+= 0` -/
theorem add_null (it : AIt) (count : Nat) (d : Int) (ha : it.arr = none) : (it.add count d).isSome = decide (d = 0) := by
  rw [add_isSome_iff_check, ha]

/-- iterators of different arrays cannot be subtracted or compared -/
theorem sameArray_isSome (x y : AIt) : (x.sameArray y).isSome = (x.arr == y.arr) := by
  unfold sameArray
  cases (x.arr == y.arr) <;> simp [chk]

/-- dereferencing: a null iterator always throws; a SegmentedArray iterator throws at or behind the end;
    an Array iterator performs no range check (`GetItems() + mIndex`) -/
theorem deref_isSome (it : AIt) (a : Arr) : (it.deref a).isSome = (it.arr.isSome && (!a.seg || decide (it.idx < a.items.length))) := by
  unfold deref
  cases it.arr <;> cases hs : a.seg <;> simp [chk]
  by_cases h : it.idx < a.items.length <;> simp [h]

end AIt

end Momo.Ver
