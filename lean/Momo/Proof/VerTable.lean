import Momo.Proof.VerMulti
/-!
  DataTable row references / selections / hash bounds and index-checked arrays (C15).
  Core Lean only.
-/
namespace Momo.Ver

/-! ### DataTable -/

/-- effect of one call on a table: `nc` increments of the change version, `nr` of the remove version; `nc > 0` when the
    rows changed in any way, `nr > 0` when a row that was present is gone (removed or replaced by a new raw) -/
def TblEff (cs : Cells) (t : Table) (cs' : Cells) (t' : Table) : Prop :=
  t'.id = t.id ∧ t'.ccell = t.ccell ∧ t'.rcell = t.rcell ∧ ∃ nc nr, cs' = bumpN (bumpN cs t.ccell nc) t.rcell nr ∧
    (t'.rows ≠ t.rows → 0 < nc) ∧ ((∃ x ∈ t.rows, ∀ y ∈ t'.rows, y.raw ≠ x.raw) → 0 < nr)

theorem TblEff.refl (cs : Cells) (t : Table) : TblEff cs t cs t :=
  ⟨rfl, rfl, rfl, 0, 0, by rw [bumpN_zero, bumpN_zero], fun h => absurd rfl h,
   fun ⟨x, hx, h⟩ => absurd rfl (h x hx)⟩

theorem TblEff.both {cs cs' : Cells} {t t' : Table} (hcs : cs' = bump (bump cs t.ccell) t.rcell)
    (h1 : t'.id = t.id) (h2 : t'.ccell = t.ccell) (h3 : t'.rcell = t.rcell) : TblEff cs t cs' t' :=
  ⟨h1, h2, h3, 1, 1, hcs, fun _ => Nat.one_pos, fun _ => Nat.one_pos⟩

/-- only the change version moves: allowed when every old raw is still present -/
theorem TblEff.change {cs cs' : Cells} {t t' : Table} (hcs : cs' = bump cs t.ccell)
    (h1 : t'.id = t.id) (h2 : t'.ccell = t.ccell) (h3 : t'.rcell = t.rcell)
    (hkeep : ∀ x ∈ t.rows, ∃ y ∈ t'.rows, y.raw = x.raw) : TblEff cs t cs' t' :=
  ⟨h1, h2, h3, 1, 0, by rw [hcs, bumpN_zero]; rfl, fun _ => Nat.one_pos,
   fun ⟨x, hx, h⟩ => by obtain ⟨y, hy, e⟩ := hkeep x hx; exact absurd e (h y hy)⟩

namespace Table

theorem tryAdd_eff (t : Table) (cs : Cells) (a b : Nat) : TblEff cs t (t.tryAdd cs a b).1 (t.tryAdd cs a b).2.1 := by
  unfold tryAdd
  split
  · exact TblEff.refl cs t
  · refine TblEff.change (by rfl) (by rfl) (by rfl) (by rfl) ?_
    intro x hx
    exact ⟨x, List.mem_append_left _ hx, rfl⟩

theorem tryInsert_eff {t : Table} {cs : Cells} {i a b : Nat} {r} (hr : t.tryInsert cs i a b = some r) : TblEff cs t r.1 r.2.1 := by
  unfold tryInsert at hr
  cases h1 : chk (decide (i ≤ t.rows.length)) <;> simp [h1] at hr
  split at hr
  · simp at hr; subst hr; exact TblEff.refl cs t
  · simp at hr; subst hr
    refine TblEff.change (by rfl) (by rfl) (by rfl) (by rfl) ?_
    intro x hx
    refine ⟨x, ?_, rfl⟩
    have := List.take_append_drop i t.rows
    rw [← this] at hx
    rcases List.mem_append.mp hx with h | h
    · exact List.mem_append_left _ h
    · exact List.mem_append_right _ (List.mem_cons_of_mem _ h)

theorem tryUpdateRow_eff {t : Table} {cs : Cells} {i a b : Nat} {r} (hr : t.tryUpdateRow cs i a b = some r) : TblEff cs t r.1 r.2.1 := by
  unfold tryUpdateRow at hr
  cases h1 : t.rows[i]? <;> simp [h1] at hr
  split at hr
  · simp at hr; subst hr; exact TblEff.refl cs t
  · simp at hr; subst hr; exact TblEff.both (by rfl) (by rfl) (by rfl) (by rfl)

theorem updateB_eff {t : Table} {cs : Cells} {r : RowRef} {b : Nat} {x} (hr : t.updateB cs r b = some x) : TblEff cs t x.1 x.2 := by
  unfold updateB at hr
  cases h1 : t.checkRef cs r <;> simp [h1] at hr
  subst hr
  refine TblEff.change (by rfl) (by rfl) (by rfl) (by rfl) ?_
  intro y hy
  refine ⟨_, List.mem_map_of_mem hy, ?_⟩
  split <;> rfl

theorem dropRow_eff (t : Table) (cs : Cells) (raw : Nat) : TblEff cs t (t.dropRow cs raw).1 (t.dropRow cs raw).2 :=
  TblEff.both (by rfl) (by rfl) (by rfl) (by rfl)

theorem removeRef_eff {t : Table} {cs : Cells} {r : RowRef} {x} (hr : t.removeRef cs r = some x) : TblEff cs t x.1 x.2 := by
  unfold removeRef at hr
  cases h1 : t.checkRef cs r <;> simp [h1] at hr
  subst hr; exact dropRow_eff t cs _

theorem removeNum_eff {t : Table} {cs : Cells} {i : Nat} {x} (hr : t.removeNum cs i = some x) : TblEff cs t x.1 x.2 := by
  unfold removeNum at hr
  cases h1 : t.rows[i]? <;> simp [h1] at hr
  subst hr; exact dropRow_eff t cs _

theorem clear_eff (t : Table) (cs : Cells) : TblEff cs t (t.clear cs).1 (t.clear cs).2 := TblEff.both (by rfl) (by rfl) (by rfl) (by rfl)
theorem removeIf_eff (t : Table) (cs : Cells) (m r : Nat) : TblEff cs t (t.removeIf cs m r).1 (t.removeIf cs m r).2.1 :=
  TblEff.both (by rfl) (by rfl) (by rfl) (by rfl)
theorem removeRefs_eff {t : Table} {cs : Cells} {rs : List RowRef} {keep : Bool} {x} (hr : t.removeRefs cs rs keep = some x) :
    TblEff cs t x.1 x.2 := by
  unfold removeRefs at hr
  cases h1 : chk (rs.all fun r => r.kp.check cs && r.tbl == t.id) <;> simp [h1] at hr
  subst hr; exact TblEff.both (by rfl) (by rfl) (by rfl) (by rfl)

/-- **insertion and single-column update never invalidate row references**: the remove version is untouched -/
theorem add_keeps_remove_version (t : Table) (cs : Cells) (a b : Nat) (hne : t.ccell ≠ t.rcell) :
    (t.tryAdd cs a b).1 t.rcell = cs t.rcell := by
  unfold tryAdd
  split
  · rfl
  · exact bump_other _ (fun e => hne e.symm)

theorem insert_keeps_remove_version {t : Table} {cs : Cells} {i a b : Nat} {r} (hne : t.ccell ≠ t.rcell)
    (hr : t.tryInsert cs i a b = some r) : r.1 t.rcell = cs t.rcell := by
  unfold tryInsert at hr
  cases h1 : chk (decide (i ≤ t.rows.length)) <;> simp [h1] at hr
  split at hr <;> simp at hr <;> subst hr
  · rfl
  · exact bump_other _ (fun e => hne e.symm)

theorem updateB_keeps_remove_version {t : Table} {cs : Cells} {r : RowRef} {b : Nat} {x} (hne : t.ccell ≠ t.rcell)
    (hr : t.updateB cs r b = some x) : x.1 t.rcell = cs t.rcell := by
  unfold updateB at hr
  cases h1 : t.checkRef cs r <;> simp [h1] at hr
  subst hr
  exact bump_other _ (fun e => hne e.symm)

/-- a row reference taken before a removal / replacement is stale afterwards -/
theorem TblEff_ref_stale {cs cs' : Cells} {t t' : Table} (he : TblEff cs t cs' t') (hne : t.ccell ≠ t.rcell)
    (hgone : ∃ x ∈ t.rows, ∀ y ∈ t'.rows, y.raw ≠ x.raw) (hlt : cs' t.rcell < cs t.rcell + W) (raw : Nat) :
    Stale (t.mkRef cs raw).kp cs' := by
  obtain ⟨_, _, _, nc, nr, hcs, _, hr⟩ := he
  have := hr hgone
  apply snap_stale _ hlt
  rw [hcs, bumpN_same, bumpN_other _ _ (fun e => hne e.symm)]; omega

/-- hash bounds taken before any change of the rows are stale afterwards (their raw iterators watch the change version) -/
theorem TblEff_bounds_stale {cs cs' : Cells} {t t' : Table} (he : TblEff cs t cs' t') (hne : t.ccell ≠ t.rcell)
    (hchg : t'.rows ≠ t.rows) (hlt : cs' t.ccell < cs t.ccell + W) (v : Nat) :
    Stale (t.findMulti cs v).ckp cs' := by
  obtain ⟨_, _, _, nc, nr, hcs, hc, _⟩ := he
  have := hc hchg
  apply snap_stale _ hlt
  rw [hcs, bumpN_other _ _ hne, bumpN_same]; omega

/-- **stale row reference**: every entry point that takes it throws -/
theorem ref_stale_rejected (t : Table) (cs : Cells) (r : RowRef) (hs : Stale r.kp cs) :
    r.get cs = none ∧ t.removeRef cs r = none ∧ (∀ b, t.updateB cs r b = none) ∧ t.makeMutable cs r = none ∧
    newRowFrom cs r = none ∧ (∀ rs1 rs2 keep, t.removeRefs cs (rs1 ++ r :: rs2) keep = none) := by
  have hc := hs.check
  have hcr : t.checkRef cs r = none := by
    unfold checkRef; cases chk (r.tbl == t.id) <;> simp [hc, chk]
  refine ⟨by simp [RowRef.get, hc, chk], by simp [removeRef, hcr], fun b => by simp [updateB, hcr],
    by simp [makeMutable, hcr], by simp [newRowFrom, hc, chk], ?_⟩
  intro rs1 rs2 keep
  simp [removeRefs, hc, chk]

/-- **row reference of another table**: rejected by the column-list identity check -/
theorem ref_foreign_rejected (t : Table) (cs : Cells) (r : RowRef) (hne : r.tbl ≠ t.id) :
    t.removeRef cs r = none ∧ (∀ b, t.updateB cs r b = none) ∧ t.makeMutable cs r = none ∧
    (∀ rs1 rs2 keep, t.removeRefs cs (rs1 ++ r :: rs2) keep = none) := by
  have hb : (r.tbl == t.id) = false := by simp [hne]
  have hcr : t.checkRef cs r = none := by simp [checkRef, hb, chk]
  refine ⟨by simp [removeRef, hcr], fun b => by simp [updateB, hcr], by simp [makeMutable, hcr], ?_⟩
  intro rs1 rs2 keep
  simp [removeRefs, hb, chk]

/-- **no false positive**: a reference made from the current remove version of its own table -/
theorem ref_fresh_accepted (t : Table) (cs : Cells) (raw : Nat) :
    ((t.mkRef cs raw).get cs).isSome = true ∧ (t.removeRef cs (t.mkRef cs raw)).isSome = true ∧
    (∀ b, (t.updateB cs (t.mkRef cs raw) b).isSome = true) ∧ (t.makeMutable cs (t.mkRef cs raw)).isSome = true := by
  have hcr : t.checkRef cs (t.mkRef cs raw) = some () := by simp [checkRef, mkRef, snap_check, chk]
  refine ⟨by simp [RowRef.get, mkRef, snap_check, chk], by simp [removeRef, hcr], fun b => by simp [updateB, hcr],
    by simp [makeMutable, hcr]⟩

/-- out-of-range row numbers -/
theorem at_isSome (t : Table) (cs : Cells) (i : Nat) : (t.at_ cs i).isSome = decide (i < t.rows.length) := by
  unfold at_
  by_cases h : i < t.rows.length <;> simp [h]
theorem removeNum_isSome (t : Table) (cs : Cells) (i : Nat) : (t.removeNum cs i).isSome = decide (i < t.rows.length) := by
  unfold removeNum
  by_cases h : i < t.rows.length <;> simp [h]
theorem tryInsert_isSome (t : Table) (cs : Cells) (i a b : Nat) : (t.tryInsert cs i a b).isSome = decide (i ≤ t.rows.length) := by
  unfold tryInsert
  by_cases h : i ≤ t.rows.length
  · simp only [h, decide_true, chk_true, Option.bind_eq_bind, Option.bind_some]
    split <;> rfl
  · simp [h, chk]

end Table

namespace Sel

/-- references obtained from a selection carry the selection's keeper: a selection taken before a removal yields stale
    references, and its whole-selection reads (Sort / Group / binary search by columns) throw -/
theorem stale_rejected (s : Sel) (cs : Cells) (hs : Stale s.kp cs) :
    (∀ i r, s.at_ i = some r → r.get cs = none) ∧ (s.raws ≠ [] → s.readAll cs = none) := by
  constructor
  · intro i r hr
    unfold at_ at hr
    cases h : s.raws[i]? <;> simp [h] at hr
    subst hr
    simp [RowRef.get, hs.check, chk]
  · intro hne
    unfold readAll
    cases h : s.raws with
    | nil => exact absurd h hne
    | cons x xs => simp [hs.check, chk]

/-- a stale reference cannot be stored into a selection -/
theorem store_stale_rejected (s : Sel) (cs : Cells) (r : RowRef) (hs : Stale r.kp cs) :
    (∀ i, s.set cs i r = none) ∧ s.add cs r = none ∧ (∀ i, s.insert cs i r = none) := by
  have hc := hs.check
  exact ⟨fun i => by simp [set, hc, chk], by simp [add, hc, chk], fun i => by simp [insert, hc, chk]⟩

theorem fresh_accepted (t : Table) (cs : Cells) (m r : Nat) :
    (∀ i x, (t.select cs m r).at_ i = some x → (x.get cs).isSome = true) ∧ ((t.select cs m r).readAll cs).isSome = true := by
  constructor
  · intro i x hx
    unfold at_ at hx
    cases h : (t.select cs m r).raws[i]? <;> simp [h] at hx
    subst hx
    simp [RowRef.get, Table.select, snap_check, chk]
  · unfold readAll
    split
    · rfl
    · simp [Table.select, snap_check, chk]

theorem at_isSome (s : Sel) (i : Nat) : (s.at_ i).isSome = decide (i < s.raws.length) := by
  unfold at_
  by_cases h : i < s.raws.length <;> simp [h]

theorem remove_isSome (s : Sel) (i n : Nat) : (s.remove i n).isSome = decide (i + n ≤ s.raws.length) := by
  unfold remove
  by_cases h : i + n ≤ s.raws.length <;> simp [h, chk]

end Sel

namespace MBounds

theorem stale_rejected (m : MBounds) (cs : Cells) (hs : Stale m.ckp cs) (i : Nat) : m.at_ cs i = none := by
  unfold at_
  cases m.raws[i]? <;> simp [hs.check, chk]

theorem fresh_accepted (t : Table) (cs : Cells) (v i : Nat) (hi : i < (t.findMulti cs v).raws.length) :
    ((t.findMulti cs v).at_ cs i).isSome = true := by
  unfold at_
  have : (t.findMulti cs v).raws[i]? = some ((t.findMulti cs v).raws[i]) := List.getElem?_eq_getElem hi
  rw [this]
  simp [Table.findMulti, snap_check, chk]

end MBounds

/-! ### Array with index iterators / SegmentedArray -/

namespace Arr

theorem at_isSome (a : Arr) (i : Nat) : (a.at_ i).isSome = decide (i < a.items.length) := by
  unfold at_
  by_cases h : i < a.items.length <;> simp [h]

/-- `GetBackItem` throws exactly on the empty array -/
theorem back_isSome (a : Arr) (hlen : a.items.length < W) : (a.back).isSome = decide (0 < a.items.length) := by
  unfold back w64
  by_cases h : 0 < a.items.length
  · have : (a.items.length + W - 1) % W = a.items.length - 1 := by
      have : a.items.length + W - 1 = (a.items.length - 1) + W := by omega
      rw [this, Nat.add_mod_right, Nat.mod_eq_of_lt (by omega)]
    have hlt : a.items.length - 1 < a.items.length := by omega
    simp [this, h, hlt]
  · have h0 : a.items.length = 0 := by omega
    have : (a.items.length + W - 1) % W = W - 1 := by
      rw [h0, Nat.zero_add]; exact Nat.mod_eq_of_lt (by decide)
    have hnil : a.items = [] := List.length_eq_zero_iff.mp h0
    simp [hnil]

theorem insert_isSome (a : Arr) (i n v : Nat) : (a.insert i n v).isSome = decide (i ≤ a.items.length) := by
  unfold insert
  by_cases h : i ≤ a.items.length <;> simp [h, chk]

theorem removeBack_isSome (a : Arr) (n : Nat) : (a.removeBack n).isSome = decide (n ≤ a.items.length) := by
  unfold removeBack
  by_cases h : n ≤ a.items.length <;> simp [h, chk]

/-- `Remove(index, count)` is accepted exactly when the range lies inside the array, for all naturals (no wrap-around) -/
theorem remove_isSome (a : Arr) (i n : Nat) : (a.remove i n).isSome = decide (i + n ≤ a.items.length) := by
  unfold remove
  by_cases h : i + n ≤ a.items.length
  · have : i ≤ a.items.length ∧ n ≤ a.items.length - i := by omega
    simp [h, this.1, this.2, chk]
  · by_cases h1 : i ≤ a.items.length
    · have : ¬ n ≤ a.items.length - i := by omega
      simp [h, h1, this, chk]
    · simp [h, h1, chk]

theorem remove_length {a a' : Arr} {i n : Nat} (h : a.remove i n = some a') : a'.items.length + n = a.items.length := by
  unfold remove at h
  cases hc : chk (decide (i ≤ a.items.length) && decide (n ≤ a.items.length - i)) <;> simp [hc] at h
  subst h
  have := chk_eq_some.mp hc
  simp at this
  simp only [List.length_append, List.length_take, List.length_drop]
  omega

end Arr

namespace AIt

theorem add_isSome_iff_check (it : AIt) (count : Nat) (d : Int) :
    (it.add count d).isSome = (match it.arr with | some _ => decide (addDiff it.idx d ≤ count) | none => decide (d = 0)) := by
  unfold add
  cases it.arr with
  | none => by_cases h : d = 0 <;> simp [h, chk]
  | some x => by_cases h : addDiff it.idx d ≤ count <;> simp [h, chk]

/-- `it += d` on an iterator of a live array (`idx ≤ count < 2^63`, `|d| ≤ 2^63`) is accepted exactly when the target
    lies in `[0, count]`: moving before the first element wraps to a huge index and is rejected -/
theorem add_isSome (it : AIt) (count : Nat) (d : Int) (x : Nat) (ha : it.arr = some x) (hidx : it.idx ≤ count)
    (hc : count < 9223372036854775808) (hd1 : -9223372036854775808 ≤ d) (hd2 : d < 9223372036854775808) :
    (it.add count d).isSome = true ↔ (0 ≤ Int.ofNat it.idx + d ∧ Int.ofNat it.idx + d ≤ Int.ofNat count) := by
  rw [add_isSome_iff_check, ha]
  simp only [decide_eq_true_eq]
  have hW : (Int.ofNat W) = 18446744073709551616 := rfl
  by_cases hneg : Int.ofNat it.idx + d < 0
  · have hmod : (Int.ofNat it.idx + d) % Int.ofNat W = Int.ofNat it.idx + d + Int.ofNat W := by
      rw [Int.emod_eq_add_self_emod, Int.emod_eq_of_lt] <;> simp only [Int.ofNat_eq_natCast] at * <;> omega
    have hbig : ¬ addDiff it.idx d ≤ count := by
      unfold addDiff
      rw [hmod]
      simp only [Int.ofNat_eq_natCast] at *
      omega
    constructor
    · intro h; exact absurd h hbig
    · intro h; omega
  · have hmod : (Int.ofNat it.idx + d) % Int.ofNat W = Int.ofNat it.idx + d := by
      apply Int.emod_eq_of_lt <;> simp only [Int.ofNat_eq_natCast] at * <;> omega
    have hiff : addDiff it.idx d ≤ count ↔ Int.ofNat it.idx + d ≤ Int.ofNat count := by
      unfold addDiff
      rw [hmod]
      simp only [Int.ofNat_eq_natCast] at *
      omega
    constructor
    · intro h; exact ⟨by omega, hiff.mp h⟩
    · intro h; exact hiff.mpr h.2

/-- a default-constructed iterator only accepts `+= 0` -/
theorem add_null (it : AIt) (count : Nat) (d : Int) (ha : it.arr = none) : (it.add count d).isSome = decide (d = 0) := by
  rw [add_isSome_iff_check, ha]

/-- iterators of different arrays cannot be subtracted or compared -/
theorem sameArray_isSome (x y : AIt) : (x.sameArray y).isSome = (x.arr == y.arr) := by
  unfold sameArray
  cases (x.arr == y.arr) <;> simp [chk]

/-- dereferencing: a null iterator always throws; a SegmentedArray iterator throws at or behind the end;
    an Array iterator performs no range check (`GetItems() + mIndex`) -/
theorem deref_isSome (it : AIt) (a : Arr) : (it.deref a).isSome = (it.arr.isSome && (!a.seg || decide (it.idx < a.items.length))) := by
  unfold deref
  cases it.arr <;> cases hs : a.seg <;> simp [chk]
  by_cases h : it.idx < a.items.length <;> simp [h]

end AIt

end Momo.Ver

namespace Momo.Ver

/-! ### DataTable: the two-table world, uses of handles, histories -/

namespace BWorld

theorem setObj_cs (w : BWorld) (o : Bool) (cs' : Cells) (t' : Table) : (w.setObj o cs' t').cs = cs' := by
  cases o <;> rfl
theorem setObj_obj_same (w : BWorld) (o : Bool) (cs' : Cells) (t' : Table) : (w.setObj o cs' t').obj o = t' := by
  cases o <;> rfl
theorem setObj_obj_other (w : BWorld) (o : Bool) (cs' : Cells) (t' : Table) : (w.setObj o cs' t').obj (!o) = w.obj (!o) := by
  cases o <;> rfl

/-- "throws std::invalid_argument and leaves the container unchanged" -/
theorem step_reject_unchanged (w : BWorld) (op : BOp) (h : (w.step op).2 = none) : (w.step op).1 = w := by
  cases op <;> simp only [step] at h ⊢ <;> first | rfl | (split at h <;> simp_all) | simp_all

theorem step_eq_of_none (w : BWorld) (op : BOp) (h : (w.step op).2 = none) : w.step op = (w, none) :=
  Prod.ext (step_reject_unchanged w op h) h

/-- **stale row reference**: every entry point that is given it (alone or inside a range) throws; the world is unchanged -/
theorem stale_rejected (w : BWorld) (op : BOp) (r : RowRef) (hr : r ∈ op.refs) (hs : Stale r.kp w.cs) : w.step op = (w, none) := by
  apply step_eq_of_none
  have t := fun t => Table.ref_stale_rejected t w.cs r hs
  cases op <;> simp only [BOp.refs, List.mem_singleton, List.not_mem_nil] at hr
  case get r' => subst hr; simp only [step, (t w.a).1, Option.map_none]
  case updB o r' b => subst hr; simp only [step, (t _).2.2.1 b]
  case rmRef o r' => subst hr; simp only [step, (t _).2.1]
  case mkMut o r' => subst hr; simp only [step, (t _).2.2.2.1, Option.map_none]
  case newRow r' => subst hr; simp only [step, (t w.a).2.2.2.2.1, Option.map_none]
  case rmRefs o rs keep =>
    obtain ⟨rs1, rs2, rfl⟩ := List.append_of_mem hr
    simp only [step, (t _).2.2.2.2.2 rs1 rs2 keep]
  case selSet s i r' => subst hr; simp only [step, (Sel.store_stale_rejected s w.cs r hs).1 i, Option.map_none]
  case selAdd s r' => subst hr; simp only [step, (Sel.store_stale_rejected s w.cs r hs).2.1, Option.map_none]
  case selIns s i r' => subst hr; simp only [step, (Sel.store_stale_rejected s w.cs r hs).2.2 i, Option.map_none]

/-- **row reference of another table** -/
theorem foreign_rejected (w : BWorld) (op : BOp) (r : RowRef) (o : Bool) (hr : r ∈ op.refs) (ho : op.on = some o)
    (hne : r.tbl ≠ (w.obj o).id) : w.step op = (w, none) := by
  apply step_eq_of_none
  have t := Table.ref_foreign_rejected (w.obj o) w.cs r hne
  cases op <;> simp only [BOp.on, Option.some.injEq, reduceCtorEq] at ho <;> subst ho <;>
    simp only [BOp.refs, List.mem_singleton] at hr
  case updB r' b => subst hr; simp only [step, t.2.1 b]
  case rmRef r' => subst hr; simp only [step, t.1]
  case mkMut r' => subst hr; simp only [step, t.2.2.1, Option.map_none]
  case rmRefs rs keep =>
    obtain ⟨rs1, rs2, rfl⟩ := List.append_of_mem hr
    simp only [step, t.2.2.2 rs1 rs2 keep]

/-- a reference of another table cannot be stored into a selection -/
theorem sel_foreign_rejected (w : BWorld) (s : Sel) (r : RowRef) (hne : s.tbl ≠ r.tbl) (i : Nat) :
    w.step (.selSet s i r) = (w, none) ∧ w.step (.selAdd s r) = (w, none) ∧ w.step (.selIns s i r) = (w, none) := by
  have hb : (s.tbl == r.tbl) = false := by simp [hne]
  refine ⟨?_, ?_, ?_⟩ <;> apply step_eq_of_none <;> simp only [step, Option.map_eq_none_iff]
  · unfold Sel.set; cases chk (r.kp.check w.cs) <;> cases chk (decide (i < s.raws.length)) <;> simp [hb, chk]
  · unfold Sel.add; cases chk (r.kp.check w.cs) <;> simp [hb, chk]
  · unfold Sel.insert; cases chk (r.kp.check w.cs) <;> cases chk (decide (i ≤ s.raws.length)) <;> simp [hb, chk]

/-- **stale selection**: its column reads throw, and every reference taken out of it is stale -/
theorem sel_stale_rejected (w : BWorld) (s : Sel) (hs : Stale s.kp w.cs) :
    (s.raws ≠ [] → w.step (.selRead s) = (w, none)) ∧
    (∀ i r, (w.step (.selAt s i)).2 = some (.ref r) → Stale r.kp w.cs) := by
  constructor
  · intro hne
    apply step_eq_of_none
    simp only [step, (Sel.stale_rejected s w.cs hs).2 hne, Option.map_none]
  · intro i r hr
    simp only [step, Sel.at_] at hr
    cases h : s.raws[i]? <;> simp [h] at hr
    subst hr
    exact hs

/-- **stale hash bounds** -/
theorem bounds_stale_rejected (w : BWorld) (m : MBounds) (hs : Stale m.ckp w.cs) (i : Nat) : w.step (.mbAt m i) = (w, none) := by
  apply step_eq_of_none
  simp only [step, MBounds.stale_rejected m w.cs hs i, Option.map_none]

/-- "an out-of-range index": row numbers, selection indexes, bounds indexes -/
theorem index_rejected (w : BWorld) (o : Bool) (s : Sel) (m : MBounds) (i n a b : Nat) :
    ((w.obj o).rows.length ≤ i → w.step (.at_ o i) = (w, none) ∧ w.step (.rmNum o i) = (w, none) ∧ w.step (.updRow o i a b) = (w, none)) ∧
    ((w.obj o).rows.length < i → w.step (.insert o i a b) = (w, none)) ∧
    (s.raws.length ≤ i → w.step (.selAt s i) = (w, none)) ∧
    (s.raws.length < i + n → w.step (.selRm s i n) = (w, none)) ∧
    (m.raws.length ≤ i → w.step (.mbAt m i) = (w, none)) := by
  refine ⟨fun h => ⟨?_, ?_, ?_⟩, fun h => ?_, fun h => ?_, fun h => ?_, fun h => ?_⟩ <;> apply step_eq_of_none
  · have := Table.at_isSome (w.obj o) w.cs i
    have hlt : ¬ i < (w.obj o).rows.length := Nat.not_lt.mpr h
    simp only [hlt, decide_false] at this
    simp only [step, Option.map_eq_none_iff]
    cases hh : (w.obj o).at_ w.cs i <;> simp_all
  · have := Table.removeNum_isSome (w.obj o) w.cs i
    have hlt : ¬ i < (w.obj o).rows.length := Nat.not_lt.mpr h
    simp only [hlt, decide_false] at this
    simp only [step]
    cases hh : (w.obj o).removeNum w.cs i <;> simp_all
  · simp only [step, Table.tryUpdateRow, List.getElem?_eq_none h, Option.bind_eq_bind, Option.bind_none]
  · have := Table.tryInsert_isSome (w.obj o) w.cs i a b
    have hlt : ¬ i ≤ (w.obj o).rows.length := Nat.not_le.mpr h
    simp only [hlt, decide_false] at this
    simp only [step]
    cases hh : (w.obj o).tryInsert w.cs i a b <;> simp_all
  · simp only [step, Sel.at_, List.getElem?_eq_none h, Option.bind_eq_bind, Option.bind_none, Option.map_none]
  · have := Sel.remove_isSome s i n
    have hlt : ¬ i + n ≤ s.raws.length := Nat.not_le.mpr h
    simp only [hlt, decide_false] at this
    simp only [step, Option.map_eq_none_iff]
    cases hh : s.remove i n <;> simp_all
  · simp only [step, MBounds.at_, List.getElem?_eq_none h, Option.bind_eq_bind, Option.bind_none, Option.map_none]

end BWorld
end Momo.Ver
namespace Momo.Ver
namespace BWorld

/-- the four version cells of the two tables are pairwise distinct and the column lists are different objects -/
def WF (w : BWorld) : Prop :=
  w.a.ccell ≠ w.a.rcell ∧ w.a.ccell ≠ w.b.ccell ∧ w.a.ccell ≠ w.b.rcell ∧
  w.a.rcell ≠ w.b.ccell ∧ w.a.rcell ≠ w.b.rcell ∧ w.b.ccell ≠ w.b.rcell ∧ w.a.id ≠ w.b.id

/-- some row of `rows` has no counterpart (same raw) in `rows'`: it was removed or replaced -/
def Gone (rows rows' : List RowV) : Prop := ∃ x ∈ rows, ∀ y ∈ rows', y.raw ≠ x.raw

/-- facts about one step that the history theorems need -/
structure StepFacts (w w' : BWorld) : Prop where
  wf : w'.WF
  same : ∀ o, (w'.obj o).id = (w.obj o).id ∧ (w'.obj o).ccell = (w.obj o).ccell ∧ (w'.obj o).rcell = (w.obj o).rcell
  mono : ∀ c, w.cs c ≤ w'.cs c
  cbump : ∀ o, (w'.obj o).rows ≠ (w.obj o).rows → w.cs (w.obj o).ccell < w'.cs (w.obj o).ccell
  rbump : ∀ o, Gone (w.obj o).rows (w'.obj o).rows → w.cs (w.obj o).rcell < w'.cs (w.obj o).rcell

theorem StepFacts.refl (w : BWorld) (hw : w.WF) : StepFacts w w :=
  ⟨hw, fun _ => ⟨rfl, rfl, rfl⟩, fun _ => Nat.le_refl _, fun _ h => absurd rfl h, fun _ ⟨x, hx, h⟩ => absurd rfl (h x hx)⟩

theorem obj_cells_ne (w : BWorld) (hw : w.WF) (o : Bool) : (w.obj o).ccell ≠ (w.obj o).rcell := by
  cases o
  · exact hw.1
  · exact hw.2.2.2.2.2.1

/-- updating table `o` with a `TblEff` effect -/
theorem facts_of_eff (w : BWorld) (hw : w.WF) (o : Bool) {cs' : Cells} {t' : Table} (he : TblEff w.cs (w.obj o) cs' t') :
    StepFacts w (w.setObj o cs' t') := by
  obtain ⟨hid, hcc, hrc, nc, nr, hcs, hpc, hpr⟩ := he
  have hne := obj_cells_ne w hw o
  obtain ⟨w1, w2, w3, w4, w5, w6, w7⟩ := hw
  have hmono : ∀ c, w.cs c ≤ (w.setObj o cs' t').cs c := by
    intro c; rw [setObj_cs, hcs]; exact Nat.le_trans (le_bumpN _ _ _ _) (le_bumpN _ _ _ _)
  cases o
  · simp only [obj, Bool.false_eq_true, ↓reduceIte] at hid hcc hrc hcs hpc hpr hne
    refine ⟨?_, ?_, hmono, ?_, ?_⟩
    · simp only [setObj, Bool.false_eq_true, ↓reduceIte, WF, hid, hcc, hrc]; exact ⟨w1, w2, w3, w4, w5, w6, w7⟩
    · intro o'; cases o' <;> simp [setObj, obj, hid, hcc, hrc]
    · intro o' hch
      cases o'
      · simp only [setObj, obj, Bool.false_eq_true, ↓reduceIte] at hch ⊢
        have := hpc hch
        rw [hcs, bumpN_other _ _ hne, bumpN_same]; omega
      · simp [setObj, obj] at hch
    · intro o' hg
      cases o'
      · simp only [setObj, obj, Bool.false_eq_true, ↓reduceIte] at hg ⊢
        have := hpr hg
        rw [hcs, bumpN_same, bumpN_other _ _ (fun e => hne e.symm)]; omega
      · obtain ⟨x, hx, h⟩ := hg
        simp only [setObj, obj, Bool.false_eq_true, ↓reduceIte] at hx h
        exact absurd rfl (h x hx)
  · simp only [obj, ↓reduceIte] at hid hcc hrc hcs hpc hpr hne
    refine ⟨?_, ?_, hmono, ?_, ?_⟩
    · simp only [setObj, ↓reduceIte, WF, hid, hcc, hrc]; exact ⟨w1, w2, w3, w4, w5, w6, w7⟩
    · intro o'; cases o' <;> simp [setObj, obj, hid, hcc, hrc]
    · intro o' hch
      cases o'
      · simp [setObj, obj] at hch
      · simp only [setObj, obj, ↓reduceIte] at hch ⊢
        have := hpc hch
        rw [hcs, bumpN_other _ _ hne, bumpN_same]; omega
    · intro o' hg
      cases o'
      · obtain ⟨x, hx, h⟩ := hg
        simp only [setObj, obj, Bool.false_eq_true, ↓reduceIte] at hx h
        exact absurd rfl (h x hx)
      · simp only [setObj, obj, ↓reduceIte] at hg ⊢
        have := hpr hg
        rw [hcs, bumpN_same, bumpN_other _ _ (fun e => hne e.symm)]; omega

/-- **every entry point**: cells and column lists stay, counters are monotone, the change version moves whenever the rows of
    a table changed and the remove version whenever a row is gone -/
theorem step_facts (w : BWorld) (hw : w.WF) (op : BOp) : StepFacts w (w.step op).1 := by
  cases op with
  | add o a b => exact facts_of_eff w hw o (Table.tryAdd_eff _ _ _ _)
  | insert o i a b =>
    simp only [step]; split
    · rename_i x hx; exact facts_of_eff w hw o (Table.tryInsert_eff hx)
    · exact StepFacts.refl w hw
  | updRow o i a b =>
    simp only [step]; split
    · rename_i x hx; exact facts_of_eff w hw o (Table.tryUpdateRow_eff hx)
    · exact StepFacts.refl w hw
  | updB o r b =>
    simp only [step]; split
    · rename_i x hx; exact facts_of_eff w hw o (Table.updateB_eff hx)
    · exact StepFacts.refl w hw
  | rmRef o r =>
    simp only [step]; split
    · rename_i x hx; exact facts_of_eff w hw o (Table.removeRef_eff hx)
    · exact StepFacts.refl w hw
  | rmNum o i =>
    simp only [step]; split
    · rename_i x hx; exact facts_of_eff w hw o (Table.removeNum_eff hx)
    · exact StepFacts.refl w hw
  | clear o => exact facts_of_eff w hw o (Table.clear_eff _ _)
  | rmIf o m r => exact facts_of_eff w hw o (Table.removeIf_eff _ _ _ _)
  | rmRefs o rs keep =>
    simp only [step]; split
    · rename_i x hx; exact facts_of_eff w hw o (Table.removeRefs_eff hx)
    · exact StepFacts.refl w hw
  | _ => exact StepFacts.refl w hw

/-! ### histories -/

def run (w : BWorld) : List BOp → BWorld
  | [] => w
  | op :: ops => run (w.step op).1 ops

theorem run_basic (ops : List BOp) : ∀ (w : BWorld), w.WF → (w.run ops).WF ∧ (∀ c, w.cs c ≤ (w.run ops).cs c) ∧
    ∀ o, ((w.run ops).obj o).id = (w.obj o).id ∧ ((w.run ops).obj o).ccell = (w.obj o).ccell ∧ ((w.run ops).obj o).rcell = (w.obj o).rcell := by
  induction ops with
  | nil => intro w hw; exact ⟨hw, fun _ => Nat.le_refl _, fun _ => ⟨rfl, rfl, rfl⟩⟩
  | cons op ops ih =>
    intro w hw
    have h1 := step_facts w hw op
    have h2 := ih _ h1.wf
    refine ⟨h2.1, fun c => Nat.le_trans (h1.mono c) (h2.2.1 c), fun o => ?_⟩
    obtain ⟨a1, a2, a3⟩ := h1.same o
    obtain ⟨b1, b2, b3⟩ := h2.2.2 o
    exact ⟨b1.trans a1, b2.trans a2, b3.trans a3⟩

/-- some call of the history removed or replaced a row of table `o` -/
def SomeRemoval (o : Bool) : BWorld → List BOp → Prop
  | _, [] => False
  | w, op :: ops => Gone (w.obj o).rows ((w.step op).1.obj o).rows ∨ SomeRemoval o (w.step op).1 ops

/-- some call of the history changed the rows of table `o` in any way -/
def SomeChange (o : Bool) : BWorld → List BOp → Prop
  | _, [] => False
  | w, op :: ops => ((w.step op).1.obj o).rows ≠ (w.obj o).rows ∨ SomeChange o (w.step op).1 ops

theorem run_removal (o : Bool) (ops : List BOp) : ∀ (w : BWorld), w.WF → SomeRemoval o w ops →
    w.cs (w.obj o).rcell < (w.run ops).cs (w.obj o).rcell := by
  induction ops with
  | nil => intro w _ h; exact absurd h (by simp [SomeRemoval])
  | cons op ops ih =>
    intro w hw hr
    have h1 := step_facts w hw op
    have h2 := run_basic ops _ h1.wf
    simp only [run]
    rcases hr with hg | hr
    · exact Nat.lt_of_lt_of_le (h1.rbump o hg) (h2.2.1 _)
    · have := ih _ h1.wf hr
      rw [(h1.same o).2.2] at this
      exact Nat.lt_of_le_of_lt (h1.mono _) this

theorem run_change (o : Bool) (ops : List BOp) : ∀ (w : BWorld), w.WF → SomeChange o w ops →
    w.cs (w.obj o).ccell < (w.run ops).cs (w.obj o).ccell := by
  induction ops with
  | nil => intro w _ h; exact absurd h (by simp [SomeChange])
  | cons op ops ih =>
    intro w hw hr
    have h1 := step_facts w hw op
    have h2 := run_basic ops _ h1.wf
    simp only [run]
    rcases hr with hg | hr
    · exact Nat.lt_of_lt_of_le (h1.cbump o hg) (h2.2.1 _)
    · have := ih _ h1.wf hr
      rw [(h1.same o).2.1] at this
      exact Nat.lt_of_le_of_lt (h1.mono _) this

/-- **all (state, invalidating operation, subsequent use) triples, row references and selections**: a keeper of the remove
    version of table `o` taken in `w0` (by `operator[]`, an insertion, a selection, a row pointer, hash bounds …) is stale
    after any history in which a row of that table was removed or replaced -/
theorem history_remove_keeper_stale (w0 : BWorld) (hw : w0.WF) (ops : List BOp) (o : Bool) (hr : SomeRemoval o w0 ops)
    (hlt : (w0.run ops).cs (w0.obj o).rcell < w0.cs (w0.obj o).rcell + W) :
    Stale (snap w0.cs (w0.obj o).rcell) (w0.run ops).cs :=
  snap_stale (run_removal o ops w0 hw hr) hlt

theorem history_ref_stale_rejected (w0 : BWorld) (hw : w0.WF) (ops : List BOp) (o : Bool) (op : BOp) (r : RowRef)
    (hr : r ∈ op.refs) (hk : r.kp = snap w0.cs (w0.obj o).rcell) (hrm : SomeRemoval o w0 ops)
    (hlt : (w0.run ops).cs (w0.obj o).rcell < w0.cs (w0.obj o).rcell + W) : (w0.run ops).step op = (w0.run ops, none) :=
  stale_rejected _ op r hr (hk ▸ history_remove_keeper_stale w0 hw ops o hrm hlt)

theorem history_sel_stale_rejected (w0 : BWorld) (hw : w0.WF) (ops : List BOp) (o : Bool) (s : Sel)
    (hk : s.kp = snap w0.cs (w0.obj o).rcell) (hrm : SomeRemoval o w0 ops)
    (hlt : (w0.run ops).cs (w0.obj o).rcell < w0.cs (w0.obj o).rcell + W) :
    (s.raws ≠ [] → (w0.run ops).step (.selRead s) = (w0.run ops, none)) ∧
    (∀ i r, ((w0.run ops).step (.selAt s i)).2 = some (.ref r) → ∀ op, r ∈ op.refs → (w0.run ops).step op = (w0.run ops, none)) := by
  have hs : Stale s.kp (w0.run ops).cs := hk ▸ history_remove_keeper_stale w0 hw ops o hrm hlt
  have := sel_stale_rejected (w0.run ops) s hs
  exact ⟨this.1, fun i r hr op hm => stale_rejected _ op r hm (this.2 i r hr)⟩

/-- hash bounds taken in `w0` are rejected after any history that changed the rows of their table in any way -/
theorem history_bounds_stale_rejected (w0 : BWorld) (hw : w0.WF) (ops : List BOp) (o : Bool) (m : MBounds)
    (hk : m.ckp = snap w0.cs (w0.obj o).ccell) (hch : SomeChange o w0 ops)
    (hlt : (w0.run ops).cs (w0.obj o).ccell < w0.cs (w0.obj o).ccell + W) (i : Nat) :
    (w0.run ops).step (.mbAt m i) = (w0.run ops, none) :=
  bounds_stale_rejected _ m (hk ▸ snap_stale (run_change o ops w0 hw hch) hlt) i

end BWorld
end Momo.Ver
namespace Momo.Ver

namespace Table

theorem tryAdd_refused (t : Table) (cs : Cells) (a b : Nat) (hf : (t.tryAdd cs a b).2.2.2 = false) : (t.tryAdd cs a b).1 = cs := by
  unfold tryAdd at hf ⊢
  split
  · rfl
  · rename_i h; simp [h] at hf

theorem tryInsert_refused {t : Table} {cs : Cells} {i a b : Nat} {r} (hr : t.tryInsert cs i a b = some r) (hf : r.2.2.2 = false) :
    r.1 = cs := by
  unfold tryInsert at hr
  cases h1 : chk (decide (i ≤ t.rows.length)) <;> simp [h1] at hr
  split at hr <;> simp at hr <;> subst hr
  · rfl
  · simp at hf

theorem tryUpdateRow_refused {t : Table} {cs : Cells} {i a b : Nat} {r} (hr : t.tryUpdateRow cs i a b = some r) (hf : r.2.2.2 = false) :
    r.1 = cs := by
  unfold tryUpdateRow at hr
  cases h1 : t.rows[i]? <;> simp [h1] at hr
  split at hr <;> simp at hr <;> subst hr
  · rfl
  · simp at hf

end Table

/-- a selection / row pointer whose keeper passes `Check()`: its column reads and the references taken out of it are accepted -/
theorem Sel.check_accepted (s : Sel) (cs : Cells) (h : s.kp.check cs = true) :
    (∀ i x, s.at_ i = some x → (x.get cs).isSome = true) ∧ (s.readAll cs).isSome = true := by
  constructor
  · intro i x hx
    unfold Sel.at_ at hx
    cases hh : s.raws[i]? <;> simp [hh] at hx
    subst hx
    simp [RowRef.get, h, chk]
  · unfold Sel.readAll
    split
    · rfl
    · simp [h, chk]

/-- hash bounds whose change-version keeper passes `Check()` can be indexed inside their count -/
theorem MBounds.check_accepted (m : MBounds) (cs : Cells) (h : m.ckp.check cs = true) (i : Nat) (hi : i < m.raws.length) :
    (m.at_ cs i).isSome = true := by
  unfold MBounds.at_
  rw [List.getElem?_eq_getElem hi]
  simp [h, chk]

/-- entry points of DataTable that never touch the remove version: insertions and updates of one column -/
def BOp.KeepsRows : BOp → Prop
  | .add _ _ _ => True
  | .insert _ _ _ _ => True
  | .updB _ _ _ => True
  | _ => False

namespace BWorld

/-- the effect of a mutating entry point on the table it is called on -/
theorem step_eff (w : BWorld) (op : BOp) (o : Bool) (ht : op.target = some o) :
    TblEff w.cs (w.obj o) (w.step op).1.cs ((w.step op).1.obj o) := by
  cases op <;> simp only [BOp.target, Option.some.injEq, reduceCtorEq] at ht <;> subst ht <;> simp only [step]
  case add a b => rw [setObj_cs, setObj_obj_same]; exact Table.tryAdd_eff _ _ _ _
  case insert i a b =>
    split
    · rename_i x hx; rw [setObj_cs, setObj_obj_same]; exact Table.tryInsert_eff hx
    · exact TblEff.refl _ _
  case updRow i a b =>
    split
    · rename_i x hx; rw [setObj_cs, setObj_obj_same]; exact Table.tryUpdateRow_eff hx
    · exact TblEff.refl _ _
  case updB r b =>
    split
    · rename_i x hx; rw [setObj_cs, setObj_obj_same]; exact Table.updateB_eff hx
    · exact TblEff.refl _ _
  case rmRef r =>
    split
    · rename_i x hx; rw [setObj_cs, setObj_obj_same]; exact Table.removeRef_eff hx
    · exact TblEff.refl _ _
  case rmNum i =>
    split
    · rename_i x hx; rw [setObj_cs, setObj_obj_same]; exact Table.removeNum_eff hx
    · exact TblEff.refl _ _
  case clear => rw [setObj_cs, setObj_obj_same]; exact Table.clear_eff _ _
  case rmIf m r => rw [setObj_cs, setObj_obj_same]; exact Table.removeIf_eff _ _ _ _
  case rmRefs rs keep =>
    split
    · rename_i x hx; rw [setObj_cs, setObj_obj_same]; exact Table.removeRefs_eff hx
    · exact TblEff.refl _ _

theorem step_cs_of_no_target (w : BWorld) (op : BOp) (ht : op.target = none) : (w.step op).1.cs = w.cs := by
  cases op <;> simp only [BOp.target, reduceCtorEq] at ht <;> rfl

/-- the cells of the other table -/
theorem other_cells (w : BWorld) (hw : w.WF) (o : Bool) :
    (w.obj o).ccell ≠ (w.obj (!o)).ccell ∧ (w.obj o).ccell ≠ (w.obj (!o)).rcell ∧
    (w.obj o).rcell ≠ (w.obj (!o)).ccell ∧ (w.obj o).rcell ≠ (w.obj (!o)).rcell := by
  obtain ⟨w1, w2, w3, w4, w5, w6, w7⟩ := hw
  cases o
  · exact ⟨w2, w3, w4, w5⟩
  · exact ⟨fun e => w2 e.symm, fun e => w4 e.symm, fun e => w3 e.symm, fun e => w5 e.symm⟩

/-- one call that cannot invalidate handles of table `o`: it throws, or it is not a mutating entry point, or it mutates the
    other table, or it is an insertion / replacement refused by the unique index, or - for handles that only watch the
    remove version (`chg = false`: row references, selections, row pointers) - an insertion or a single-column update -/
def QuietStep (o : Bool) (chg : Bool) (w : BWorld) (op : BOp) : Prop :=
  (w.step op).2 = none ∨ op.target = none ∨ op.target = some (!o) ∨
  (∃ r, (w.step op).2 = some (.refFlag r false)) ∨ (chg = false ∧ op.KeepsRows)

/-- **no increment without a reason** (DataTable) -/
theorem step_quiet (w : BWorld) (hw : w.WF) (o : Bool) (chg : Bool) (op : BOp) (hq : QuietStep o chg w op) :
    (w.step op).1.cs (w.obj o).rcell = w.cs (w.obj o).rcell ∧
    (chg = true → (w.step op).1.cs (w.obj o).ccell = w.cs (w.obj o).ccell) := by
  have other : op.target = some (!o) → (w.step op).1.cs (w.obj o).rcell = w.cs (w.obj o).rcell ∧
      (w.step op).1.cs (w.obj o).ccell = w.cs (w.obj o).ccell := by
    intro ht
    obtain ⟨_, _, _, nc, nr, hcs, _, _⟩ := step_eff w op (!o) ht
    obtain ⟨h1, h2, h3, h4⟩ := other_cells w hw o
    rw [hcs]
    exact ⟨by rw [bumpN_other _ _ h4, bumpN_other _ _ h3], by rw [bumpN_other _ _ h2, bumpN_other _ _ h1]⟩
  rcases hq with h | h | h | ⟨r, h⟩ | ⟨hc, hk⟩
  · rw [step_reject_unchanged w op h]; exact ⟨rfl, fun _ => rfl⟩
  · rw [step_cs_of_no_target w op h]; exact ⟨rfl, fun _ => rfl⟩
  · exact ⟨(other h).1, fun _ => (other h).2⟩
  · have : (w.step op).1.cs = w.cs := by
      cases op <;> simp only [step] at h ⊢
      case add o' a b =>
        simp only [Option.some.injEq, BRes.refFlag.injEq] at h
        rw [setObj_cs]; exact Table.tryAdd_refused _ _ _ _ h.2
      case insert o' i a b =>
        split at h
        · rename_i x hx
          simp only [Option.some.injEq, BRes.refFlag.injEq] at h
          rw [setObj_cs]; exact Table.tryInsert_refused hx h.2
        · simp at h
      case updRow o' i a b =>
        split at h
        · rename_i x hx
          simp only [Option.some.injEq, BRes.refFlag.injEq] at h
          rw [setObj_cs]; exact Table.tryUpdateRow_refused hx h.2
        · simp at h
      all_goals first | (simp at h; done) | (split at h <;> simp at h; done)
    rw [this]; exact ⟨rfl, fun _ => rfl⟩
  · subst hc
    refine ⟨?_, fun h => absurd h (by simp)⟩
    cases op <;> simp only [BOp.KeepsRows] at hk
    case add o' a b =>
      by_cases ho : o' = o
      · subst ho
        simp only [step]; rw [setObj_cs]
        exact Table.add_keeps_remove_version _ _ _ _ (obj_cells_ne w hw o')
      · have : o' = !o := by cases o <;> cases o' <;> simp_all
        exact (other (by simp [BOp.target, this])).1
    case insert o' i a b =>
      by_cases ho : o' = o
      · subst ho
        simp only [step]
        split
        · rename_i x hx; rw [setObj_cs]; exact Table.insert_keeps_remove_version (obj_cells_ne w hw o') hx
        · rfl
      · have : o' = !o := by cases o <;> cases o' <;> simp_all
        exact (other (by simp [BOp.target, this])).1
    case updB o' r b =>
      by_cases ho : o' = o
      · subst ho
        simp only [step]
        split
        · rename_i x hx; rw [setObj_cs]; exact Table.updateB_keeps_remove_version (obj_cells_ne w hw o') hx
        · rfl
      · have : o' = !o := by cases o <;> cases o' <;> simp_all
        exact (other (by simp [BOp.target, this])).1

/-- every call of the history is a `QuietStep` for table `o` -/
def AllQuiet (o : Bool) (chg : Bool) : BWorld → List BOp → Prop
  | _, [] => True
  | w, op :: ops => QuietStep o chg w op ∧ AllQuiet o chg (w.step op).1 ops

theorem run_quiet (o : Bool) (chg : Bool) (ops : List BOp) : ∀ (w : BWorld), w.WF → AllQuiet o chg w ops →
    (w.run ops).cs (w.obj o).rcell = w.cs (w.obj o).rcell ∧ (chg = true → (w.run ops).cs (w.obj o).ccell = w.cs (w.obj o).ccell) := by
  induction ops with
  | nil => intro w _ _; exact ⟨rfl, fun _ => rfl⟩
  | cons op ops ih =>
    intro w hw hq
    have h1 := step_facts w hw op
    have h2 := ih _ h1.wf hq.2
    have h3 := step_quiet w hw o chg op hq.1
    rw [(h1.same o).2.2, (h1.same o).2.1] at h2
    simp only [run]
    exact ⟨h2.1.trans h3.1, fun hc => (h2.2 hc).trans (h3.2 hc)⟩

theorem snap_eq_of_cell_eq'' {cs cs' : Cells} {c : Nat} (h : cs' c = cs c) : snap cs c = snap cs' c := by
  simp [snap, stored, h]

/-- **no false positive over histories**, row references: a reference made in `w0` into table `o` is accepted by every entry
    point of that table after any history of `QuietStep`s (insertions, single-column updates, refused insertions, calls that
    threw, anything on the other table, non-mutating calls) -/
theorem history_ref_fresh_accepted (w0 : BWorld) (hw : w0.WF) (ops : List BOp) (o : Bool) (hq : AllQuiet o false w0 ops) (raw : Nat) :
    let r := (w0.obj o).mkRef w0.cs raw
    let w := w0.run ops
    (w.step (.get r)).2.isSome = true ∧ (∀ b, (w.step (.updB o r b)).2.isSome = true) ∧ (w.step (.rmRef o r)).2.isSome = true ∧
    (w.step (.mkMut o r)).2.isSome = true ∧ (w.step (.newRow r)).2.isSome = true := by
  intro r w
  have hcell := (run_quiet o false ops w0 hw hq).1
  obtain ⟨hid, _, hrc⟩ := (run_basic ops w0 hw).2.2 o
  have hr : r = (w.obj o).mkRef w.cs raw := by
    simp only [r, w, Table.mkRef, hid, hrc]; rw [snap_eq_of_cell_eq'' hcell]
  have hf := Table.ref_fresh_accepted (w.obj o) w.cs raw
  rw [← hr] at hf
  refine ⟨?_, ?_, ?_, ?_, ?_⟩
  · simp only [step, Option.isSome_map]; exact hf.1
  · intro b
    have := hf.2.2.1 b
    simp only [step]
    cases hh : (w.obj o).updateB w.cs r b with
    | none => rw [hh] at this; simp at this
    | some x => rfl
  · have := hf.2.1
    simp only [step]
    cases hh : (w.obj o).removeRef w.cs r with
    | none => rw [hh] at this; simp at this
    | some x => rfl
  · simp only [step, Option.isSome_map]; exact hf.2.2.2
  · simp only [step, Option.isSome_map, Table.newRowFrom]
    have := hf.1
    simpa [RowRef.get] using this

/-- … selections and row pointers (keeper of the remove version taken in `w0`): column reads are accepted and every reference
    taken out of them can be read -/
theorem history_sel_fresh_accepted (w0 : BWorld) (hw : w0.WF) (ops : List BOp) (o : Bool) (hq : AllQuiet o false w0 ops) (s : Sel)
    (hk : s.kp = snap w0.cs (w0.obj o).rcell) :
    let w := w0.run ops
    (w.step (.selRead s)).2.isSome = true ∧ (∀ i r, (w.step (.selAt s i)).2 = some (.ref r) → (w.step (.get r)).2.isSome = true) := by
  intro w
  have hcell := (run_quiet o false ops w0 hw hq).1
  have hc : s.kp.check w.cs = true := by rw [hk]; exact check_of_cell_eq hcell
  have := Sel.check_accepted s w.cs hc
  refine ⟨by simp only [step, Option.isSome_map]; exact this.2, ?_⟩
  intro i r hr
  simp only [step] at hr
  cases hh : s.at_ i with
  | none => rw [hh] at hr; simp at hr
  | some x =>
    rw [hh] at hr; simp only [Option.map_some, Option.some.injEq, BRes.ref.injEq] at hr; subst hr
    simp only [step, Option.isSome_map]; exact this.1 i x hh

/-- … hash bounds (keeper of the change version): accepted as long as no call changed the rows or incremented the change version -/
theorem history_bounds_fresh_accepted (w0 : BWorld) (hw : w0.WF) (ops : List BOp) (o : Bool) (hq : AllQuiet o true w0 ops) (m : MBounds)
    (hk : m.ckp = snap w0.cs (w0.obj o).ccell) (i : Nat) (hi : i < m.raws.length) :
    ((w0.run ops).step (.mbAt m i)).2.isSome = true := by
  have hcell := (run_quiet o true ops w0 hw hq).2 rfl
  have hc : m.ckp.check (w0.run ops).cs = true := by rw [hk]; exact check_of_cell_eq hcell
  simp only [step, Option.isSome_map]
  exact MBounds.check_accepted m _ hc i hi

end BWorld
end Momo.Ver
