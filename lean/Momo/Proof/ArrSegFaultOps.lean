import Momo.Proof.ArrSegFault
/-!
  C04 / C10, SegmentedArray under faults, lemmas part 2: `AddBackCrt`, `SetCount`, `Reserve` (strong) and the
  positional insert / remove operations (basic) under every fault schedule.
-/
namespace Momo.ArrF.Seg
open Momo Momo.Arr Momo.Arr.Seg Momo.ArrF
open SFM (throw tryCatch)
set_option linter.unusedSimpArgs false
set_option linter.unusedVariables false
variable {α β γ : Type}

theorem addSeg_len (cfg : SCfg) (s : SState α) : (addSeg cfg s).1.segs.cells.length = s.segs.cells.length + 1 := by
  simp [addSeg, segCount, reserve_cells_arr]

theorem addSegs_len (cfg : SCfg) : ∀ (f : Nat) (s : SState α), (addSegs cfg f s).1.segs.cells.length = s.segs.cells.length + f
  | 0, _ => rfl
  | f+1, s => by simp only [addSegs]; rw [addSegs_len cfg f, addSeg_len]; omega

theorem addSegs_cells' (cfg : SCfg) : ∀ (f : Nat) (s : SState α), (addSegs cfg f s).1.cells = s.cells
  | 0, _ => rfl
  | f+1, s => by simp only [addSegs]; rw [addSegs_cells' cfg f]; rfl

/-- adding segments keeps the existing ones -/
theorem addSegs_prefix (cfg : SCfg) : ∀ (f : Nat) (s : SState α), WF cfg.segs s.segs →
    (addSegs cfg f s).1.segs.cells.take s.segs.cells.length = s.segs.cells
  | 0, s, _ => by simp [addSegs]
  | f+1, s, w => by
    simp only [addSegs]
    obtain ⟨hcap, hc, hw⟩ := reserve_spec cfg.segs s.segs (s.segs.cells.length + 1) w
    have hcells : (addSeg cfg s).1.segs.cells = s.segs.cells ++ [Cell.live s.segs.cells.length] := by
      show (reserve cfg.segs s.segs (segCount s + 1)).1.cells ++ [Cell.live (segCount s)] = _
      have : (reserve cfg.segs s.segs (segCount s + 1)).1.cells = s.segs.cells := hc
      rw [this]; rfl
    have hw' : WF cfg.segs (addSeg cfg s).1.segs := by
      show WF cfg.segs { (reserve cfg.segs s.segs (segCount s + 1)).1 with cells := _ }
      refine wf_with_cells hw _ ?_
      have : (reserve cfg.segs s.segs (segCount s + 1)).1.cells = s.segs.cells := hc
      simp only [List.length_append, this, List.length_cons, List.length_nil]
      exact hcap
    have ih := addSegs_prefix cfg f (addSeg cfg s).1 hw'
    have hl : s.segs.cells.length ≤ (addSeg cfg s).1.segs.cells.length := by rw [hcells]; simp
    calc (addSegs cfg f (addSeg cfg s).1).1.segs.cells.take s.segs.cells.length
        = ((addSegs cfg f (addSeg cfg s).1).1.segs.cells.take (addSeg cfg s).1.segs.cells.length).take s.segs.cells.length := by
          rw [List.take_take, Nat.min_eq_left hl]
      _ = s.segs.cells := by rw [ih, hcells]; simp

/-- `Reserve(n)`: afterwards the capacity is at least `n`, never smaller than before; the items are untouched -/
theorem reserveOp_facts (cfg : SCfg) (s : SState α) (n : Nat) :
    n ≤ capOf cfg (reserveOp cfg s n).1.segs.cells.length ∧
    s.segs.cells.length ≤ (reserveOp cfg s n).1.segs.cells.length ∧ (reserveOp cfg s n).1.cells = s.cells := by
  have ok := layout_ok cfg.lay
  unfold reserveOp
  split
  · unfold incCapacity capOf
    rw [addSegs_len, addSegs_cells']
    exact ⟨Nat.le_trans (ok.cap_segsFor n) (ok.cap_mono _ _ (by unfold segCount; omega)), by omega, rfl⟩
  · rename_i h
    refine ⟨?_, Nat.le_refl _, rfl⟩
    show n ≤ capOf cfg s.segs.cells.length
    unfold Seg.capacity segCount at h; unfold capOf; omega

/-- a valid SegmentedArray whose ledger is exactly what it owns (+ `k` item objects of the environment):
    the pointer array satisfies the `Array` invariant, the count is within the capacity of the allocated segments,
    the outstanding segments are exactly segments `0 .. segCount)`, the outstanding pointer-array blocks exactly the
    block of `mSegments`, as many item objects exist as the array has items, nothing was released twice -/
structure SValid (cfg : SCfg) (k : Nat) (x : SSys α) : Prop where
  segs : SegsOK cfg x
  room : x.cells.length ≤ capOf cfg x.segs.cells.length
  objs : x.objs = x.cells.length + k

theorem SValid.of_same {cfg : SCfg} {k : Nat} {x y : SSys α} (v : SValid cfg k x) (h : SameSegs cfg x y) : SValid cfg k y :=
  ⟨h.2.2.2, by rw [h.1, h.2.2.1]; exact v.room, by rw [h.2.1, h.1]; exact v.objs⟩

theorem segsOK_of_core {cfg : SCfg} {x y : SSys α} (v : SegsOK cfg x) (h : y.core = x.core) : SegsOK cfg y := by
  simp only [score_eq_iff] at h
  obtain ⟨_, h2, h3, h4, _, h6⟩ := h
  exact ⟨h2 ▸ v.wf, by rw [h3, h2]; exact v.sblocks, by rw [h4, h2]; exact v.pblocks, h6.trans v.good⟩

theorem svalid_of_core {cfg : SCfg} {k : Nat} {x y : SSys α} (v : SValid cfg k x) (h : y.core = x.core) : SValid cfg k y := by
  have h' := (score_eq_iff _ _).mp h
  exact ⟨segsOK_of_core v.segs h, by rw [h'.1, h'.2.1]; exact v.room, by rw [h'.2.2.2.2.1, h'.1]; exact v.objs⟩

/-- outcome of a strongly exception-safe operation: contents and segments unchanged after an exception -/
def SStrong (cfg : SCfg) (k : Nat) (m : SFM α Unit) (x : SSys α) (s' : SState α) : Prop :=
  SPost m x (fun _ y => y.st = s' ∧ SValid cfg k y)
    (fun y => y.cells = x.cells ∧ y.segs.cells = x.segs.cells ∧ SValid cfg k y)

theorem reserveOpF_strong (cfg : SCfg) (k : Nat) (n : Nat) (x : SSys α) (v : SValid cfg k x) :
    SStrong cfg k (reserveOpF cfg n) x (reserveOp cfg x.st n).1 := by
  unfold SStrong
  apply SPost.mono (reserveOpF_spec cfg n x v.segs)
  · rintro _ y ⟨y1, y2, y3, y4⟩
    refine ⟨y4, y3, ?_, by rw [y2, y1]; exact v.objs⟩
    obtain ⟨_, hc, _⟩ := reserveOp_facts cfg x.st n
    have : y.segs = (reserveOp cfg x.st n).1.segs := by rw [← y4]; rfl
    rw [y1, this]
    exact Nat.le_trans v.room ((layout_ok cfg.lay).cap_mono _ _ hc)
  · rintro y h
    exact ⟨h.1, h.2.2.1, v.of_same h⟩

theorem addBackCrtF_strong (cfg : SCfg) (thr : Thr) (k : Nat) (mv : Bool) (item : Ref α) (x : SSys α) (v : SValid cfg k x) :
    SStrong cfg k (addBackCrtF cfg thr mv item) x (Seg.addBackCrt cfg x.st mv item).1 := by
  have ok := layout_ok cfg.lay
  unfold SStrong addBackCrtF Seg.addBackCrt
  simp only [spost_getS_bind]
  split
  · rename_i hseg
    have hs : (cfg.lay.segItem x.st.cells.length).1 < segCount x.st := hseg
    rw [if_pos hs]
    apply SPost.bind' _ _ (constructS_spec _ x)
    · intro y hy
      have h' := (score_eq_iff _ _).mp hy
      exact ⟨h'.1, by rw [h'.2.1], svalid_of_core v hy⟩
    · rintro _ y ⟨y1, y2, y3, y4, y5, y6⟩
      simp only [spost_modifyCellsS]
      refine ⟨st_ext (by simp only [y1]; rfl) y2, ⟨⟨y2 ▸ v.segs.wf, ?_, ?_, y6.trans v.segs.good⟩, ?_, ?_⟩⟩
      · simp only [y3, y2]; exact v.segs.sblocks
      · simp only [y4, y2]; exact v.segs.pblocks
      · have := ok.lt_of_seg _ _ hseg
        simp only [List.length_append, taken_length, List.length_cons, List.length_nil, y1, y2]
        unfold capOf; omega
      · simp only [List.length_append, taken_length, List.length_cons, List.length_nil, y1, y5, v.objs]; omega
  · rename_i hseg
    have hs : ¬ (cfg.lay.segItem x.st.cells.length).1 < segCount x.st := hseg
    rw [if_neg hs]
    -- mSegments.Reserve(segCount + 1)
    have hr := reserveF_strong cfg.segs noThr [] 0 (x.segs.cells.length + 1) x.segSys v.segs.wf (segs_owns v.segs)
    unfold Strong at hr
    obtain ⟨hcap, hcells, hwf⟩ := reserve_spec cfg.segs x.segs (x.segs.cells.length + 1) v.segs.wf
    apply SPost.bind' _ _ (onSegs_spec _ x _ _ hr)
    · rintro y ⟨y0, h0, y1, y2, y3, y4, y5, y6⟩
      simp only [core_eq_iff] at h0
      have hsame : SameSegs cfg x y := by
        refine ⟨y1, y5, by rw [y2, h0.1]; rfl, ?_, ?_, ?_, ?_⟩
        · rw [y2, h0.1]; exact v.segs.wf
        · rw [y3, y2, h0.1]; exact v.segs.sblocks
        · rw [y4, y2, h0.2.1, h0.1]; exact v.segs.pblocks
        · rw [y6, h0.2.2.2]; exact v.segs.good
      exact ⟨hsame.1, hsame.2.2.1, v.of_same hsame⟩
    · rintro _ y ⟨y0, ⟨ha, hf, ho, hb⟩, y1, y2, y3, y4, y5, y6⟩
      have hsegy : y.segs = (reserve cfg.segs x.segs (x.segs.cells.length + 1)).1 := y2.trans ha
      have hy : SegsOK cfg y := by
        refine ⟨hsegy ▸ hwf, ?_, ?_, y6.trans hb⟩
        · rw [y3, hsegy, hcells]; exact v.segs.sblocks
        · rw [y4, hsegy]; unfold Frame at hf; rw [hf, ha]; simp [SSys.segSys]
      have hsame : SameSegs cfg x y := ⟨y1, y5, by rw [hsegy, hcells], hy⟩
      apply SPost.bind' _ _ (allocSeg_spec _ y)
      · intro z hz
        have h' := (score_eq_iff _ _).mp hz
        have := svalid_of_core (v.of_same hsame) hz
        exact ⟨h'.1.trans y1, by rw [h'.2.1, hsegy, hcells], this⟩
      · rintro _ z ⟨z1, z2, z3, z4, z5, z6⟩
        -- try { creator(segment) } catch { pvDeallocateSegment; throw }
        apply SPost.bind' (fun _ u => u.cells = z.cells ∧ u.segs = z.segs ∧ u.sblocks = z.sblocks ∧ u.pblocks = z.pblocks ∧
            u.objs = z.objs + 1 ∧ u.bad = z.bad) (fun u => u.cells = x.cells ∧ u.segs.cells = x.segs.cells ∧ SValid cfg k u)
        · apply SPost.tryCatch _ (constructS_spec _ z)
          intro u hu
          have h' := (score_eq_iff _ _).mp hu
          obtain ⟨u1, u2, u3, u4, u5, u6⟩ := h'
          simp only [spost_deallocSeg_bind, spost_throw]
          refine ⟨u1.trans (z1.trans y1), by rw [u2, z2, hsegy, hcells], ⟨?_, ?_, ?_, ?_⟩, ?_, ?_⟩
          · rw [u2, z2]; exact hy.wf
          · simp only [u3, z3, u2, z2, List.erase_cons_head]; exact hy.sblocks
          · simp only [u4, z4, u2, z2]; exact hy.pblocks
          · simp only [u6, z6, u3, z3, hy.good]; simp
          · simp only [u1, z1, y1, u2, z2, hsegy, hcells]; exact v.room
          · simp only [u5, z5, y5, u1, z1, y1]; exact v.objs
        · exact fun _ h => h
        · rintro _ u ⟨u1, u2, u3, u4, u5, u6⟩
          simp only [spost_getS_bind, spost_setSegCells_bind, spost_modifyCellsS]
          have hlenu : u.segs.cells.length = x.segs.cells.length := by rw [u2, z2, hsegy, hcells]
          refine ⟨?_, ⟨⟨?_, ?_, ?_, ?_⟩, ?_, ?_⟩⟩
          · apply st_ext
            · simp only [u1, z1, y1]; rfl
            · simp only [u2, z2, hsegy]; rfl
          · rw [u2, z2, hsegy]
            exact wf_with_cells hwf _ (by simp only [List.length_append, hcells, List.length_cons, List.length_nil]; omega)
          · simp only [List.length_append, hlenu, List.length_cons, List.length_nil, u3, z3]
            rw [segSizes_succ]
            have := hy.sblocks
            rw [hsegy, hcells] at this
            exact (List.Perm.cons _ this).trans (List.perm_append_singleton _ _).symm
          · simp only [u4, z4, ownBlocks_cells, u2, z2]; exact hy.pblocks
          · simp only [u6, z6]; exact hy.good
          · simp only [List.length_append, taken_length, List.length_cons, List.length_nil, u1, z1, y1, hlenu, Nat.zero_add]
            have h1 := v.room
            have h2 := ok.cap_strict x.segs.cells.length
            unfold capOf at *; omega
          · simp only [List.length_append, taken_length, List.length_cons, List.length_nil, u1, z1, y1, u5, z5, y5, v.objs]; omega

theorem setCountF_strong (cfg : SCfg) (thr : Thr) (k : Nat) (count : Nat) (item : Ref α) (x : SSys α) (v : SValid cfg k x) :
    SStrong cfg k (setCountF cfg thr count item) x (Seg.setCount cfg x.st count item).1 := by
  have ok := layout_ok cfg.lay
  unfold SStrong setCountF Seg.setCount
  simp only [spost_getS_bind]
  split
  · rename_i hlt
    have : count < x.st.cells.length := hlt
    rw [if_pos this]
    simp only [spost_destroyS_bind, spost_modifyCellsS]
    have h1 := v.objs; have h2 := v.segs.good
    refine ⟨rfl, ⟨⟨v.segs.wf, v.segs.sblocks, v.segs.pblocks, ?_⟩, ?_, ?_⟩⟩
    · simp only [h2, Bool.false_or, decide_eq_false_iff_not]; omega
    · simp only [List.length_take]; have := v.room; omega
    · simp only [List.length_take]; omega
  · rename_i hge
    have h1 : ¬ count < x.st.cells.length := hge
    rw [if_neg h1]
    split
    · rename_i hgt
      have h2 : count > x.st.cells.length := hgt
      rw [if_pos h2]
      rw [show (if count > Seg.capacity cfg x.st then incCapacity cfg x.st count else (x.st, [])) = reserveOp cfg x.st count from rfl]
      apply SPost.bind' _ _ (reserveOpF_spec cfg count x v.segs)
      · rintro y h
        exact ⟨h.1, h.2.2.1, v.of_same h⟩
      · rintro _ y ⟨y1, y2, y3, y4⟩
        obtain ⟨hcap, hlen, hcells⟩ := reserveOp_facts cfg x.st count
        have hsegs : y.segs = (reserveOp cfg x.st count).1.segs := by rw [← y4]; rfl
        apply SPost.bind' _ _ (SPost.mono (ctorLoopS_spec thr.copy (count - x.cells.length) 0 y) (fun _ _ h => h) (fun _ h => h.elim))
          (fun _ h => h)
        rintro ⟨n, f⟩ z ⟨_, h2', h3', z1, z2, z3, z4, z5, z6⟩
        simp only at h2' h3' z5
        cases f
        · have hn : n = count - x.cells.length := by have := h3' rfl; omega
          subst hn
          simp only [Bool.false_eq_true, ↓reduceIte, spost_modifyCellsS]
          refine ⟨?_, ⟨⟨z2 ▸ y3.wf, by rw [z3, z2]; exact y3.sblocks, by rw [z4, z2]; exact y3.pblocks, z6.trans y3.good⟩, ?_, ?_⟩⟩
          · apply st_ext
            · simp only [z1, y1, Seg.withCells, hcells]
              rfl
            · simp only [z2, hsegs]; rfl
          · simp only [List.length_append, List.length_replicate, z1, y1, z2, hsegs]; omega
          · simp only [List.length_append, List.length_replicate, z1, y1, z5, y2, v.objs]; omega
        · -- catch: pvDecCount(initCount); pvDecCapacity(initCapacity); throw
          simp only [↓reduceIte, spost_destroyS_bind]
          have hz : SegsOK cfg { z with objs := z.objs - n, bad := z.bad || decide (z.objs < n) } := by
            refine ⟨z2 ▸ y3.wf, by simp only [z3, z2]; exact y3.sblocks, by simp only [z4, z2]; exact y3.pblocks, ?_⟩
            simp only [z6, y3.good, Bool.false_or, decide_eq_false_iff_not]; omega
          apply SPost.bind' _ _ (decCapacityF_spec cfg _ _ hz) (fun _ h => h.elim)
          rintro _ u ⟨u1, u2, u3, u4, u5⟩
          simp only [spost_throw]
          simp only at u1 u2 u4 u5
          have hsc : u.segs.cells = x.segs.cells := by
            rw [u4]; simp only [segsFor_capOf, z2, hsegs]
            have : (reserveOp cfg x.st count).1.segs.cells.length - ((reserveOp cfg x.st count).1.segs.cells.length - x.segs.cells.length)
                = x.segs.cells.length := by have : x.st.segs.cells.length = x.segs.cells.length := rfl; omega
            rw [this]
            -- the segments of the original array are a prefix
            have hpre : (reserveOp cfg x.st count).1.segs.cells.take x.segs.cells.length = x.segs.cells := by
              have hs := reserveOpF_spec cfg count x v.segs
              unfold reserveOp
              split
              · unfold incCapacity
                exact addSegs_prefix cfg _ x.st v.segs.wf
              · show List.take x.segs.cells.length x.segs.cells = _
                simp
            exact hpre
          refine ⟨u1.trans (z1.trans y1), hsc, ⟨u3, ?_, ?_⟩⟩
          · rw [u1, z1, y1, hsc]; exact v.room
          · rw [u2, u1, z1, y1, z5, y2, v.objs]; omega
    · rename_i hle
      have h2 : ¬ count > x.st.cells.length := hle
      rw [if_neg h2]
      simp only [spost_pure]
      exact ⟨trivial, v⟩

/-! ### positional insert / remove: the shifter runs on the item sequence -/

abbrev itemCfg (cfg : SCfg) : Cfg := insertCrtF.itemCfg cfg

/-- `ArrayShifter` sees a valid SegmentedArray as a valid `Array` of `GetCapacity()` items -/
theorem itemSys_valid {cfg : SCfg} {k : Nat} {x : SSys α} (v : SValid cfg k x) :
    Valid (itemCfg cfg) [] k (x.itemSys (capOf cfg x.segs.cells.length)) := by
  refine ⟨⟨?_, ?_, ?_, ?_⟩, ?_, v.objs, v.segs.good⟩
  · show x.cells.length ≤ Arr.capacity (itemCfg cfg) _
    simp only [Arr.capacity, SSys.itemSys]; exact v.room
  · intro _ h; simp only [SSys.itemSys] at h ⊢; show _ > 0; omega
  · intro h; simp [SSys.itemSys] at h
  · intro _ _; rfl
  · unfold Frame ownBlocks
    simp only [Arr.capacity, SSys.itemSys, List.append_nil]
    rfl

theorem svalid_back {cfg : SCfg} {k : Nat} {x z : SSys α} {y0 : Sys α} (v : SValid cfg k x)
    (hv : Valid (itemCfg cfg) [] k y0) (hlen : y0.arr.cells.length ≤ capOf cfg x.segs.cells.length)
    (z1 : z.cells = y0.arr.cells) (z2 : z.segs = x.segs) (z3 : z.sblocks = x.sblocks) (z4 : z.pblocks = x.pblocks)
    (z5 : z.objs = y0.objs) (z6 : z.bad = y0.bad) : SValid cfg k z :=
  ⟨⟨z2 ▸ v.segs.wf, by rw [z3, z2]; exact v.segs.sblocks, by rw [z4, z2]; exact v.segs.pblocks, z6.trans hv.good⟩,
   by rw [z1, z2]; exact hlen, by rw [z5, z1]; exact hv.objs⟩

/-- outcome of an operation with the basic guarantee that may add up to `count` items -/
def SBasic (cfg : SCfg) (k : Nat) (m : SFM α Unit) (x : SSys α) (s' : SState α) (count : Nat) : Prop :=
  SPost m x (fun _ y => y.st = s' ∧ SValid cfg k y)
    (fun y => SValid cfg k y ∧ x.cells.length ≤ y.cells.length ∧ y.cells.length ≤ x.cells.length + count)

/-- `Reserve(mCount + count)` followed by a shifter operation `m` that inserts `count` items -/
theorem reserve_shift (cfg : SCfg) (k : Nat) (count : Nat) (x : SSys α) (v : SValid cfg k x)
    (m : FM α Unit) (f : Cells α → Cells α)
    (hm : ∀ (y0 : Sys α), Valid (itemCfg cfg) [] k y0 → y0.arr.cells = x.cells → y0.arr.cells.length + count ≤ Arr.capacity (itemCfg cfg) y0.arr →
      Post m y0 (fun _ u => u.arr = { y0.arr with cells := f y0.arr.cells } ∧ Valid (itemCfg cfg) [] k u)
        (fun u => Valid (itemCfg cfg) [] k u ∧ y0.arr.cells.length ≤ u.arr.cells.length ∧ u.arr.cells.length ≤ y0.arr.cells.length + count)) :
    SPost (do reserveOpF cfg (x.cells.length + count); let y ← getS; onItems (capOf cfg y.segs.cells.length) m) x
      (fun _ z => z.st = (Seg.withCells (reserveOp cfg x.st (x.cells.length + count)) f).1 ∧ SValid cfg k z)
      (fun z => SValid cfg k z ∧ x.cells.length ≤ z.cells.length ∧ z.cells.length ≤ x.cells.length + count) := by
  apply SPost.bind' _ _ (reserveOpF_spec cfg _ x v.segs)
  · rintro y h
    exact ⟨v.of_same h, by rw [h.1]; omega, by rw [h.1]; omega⟩
  · rintro _ y ⟨y1, y2, y3, y4⟩
    obtain ⟨hcap, hlen, hcells⟩ := reserveOp_facts cfg x.st (x.cells.length + count)
    have hsegs : y.segs = (reserveOp cfg x.st (x.cells.length + count)).1.segs := by rw [← y4]; rfl
    have vy : SValid cfg k y := ⟨y3, by rw [y1, hsegs]; omega, by rw [y2, y1]; exact v.objs⟩
    simp only [spost_getS_bind]
    have hroom : (y.itemSys (capOf cfg y.segs.cells.length)).arr.cells.length + count
        ≤ Arr.capacity (itemCfg cfg) (y.itemSys (capOf cfg y.segs.cells.length)).arr := by
      show y.cells.length + count ≤ capOf cfg y.segs.cells.length
      rw [y1, hsegs]; exact hcap
    apply SPost.mono (onItems_spec _ m y _ _ (hm _ (itemSys_valid vy) y1 hroom))
    · rintro _ z ⟨u, ⟨ua, vu⟩, z1, z2, z3, z4, z5, z6⟩
      have hul : u.arr.cells.length ≤ capOf cfg y.segs.cells.length := by
        have := vu.wf.count_le
        rw [ua] at this ⊢
        exact this
      refine ⟨?_, svalid_back vy vu hul z1 z2 z3 z4 z5 z6⟩
      apply st_ext
      · rw [z1, ua]
        show f y.cells = f (reserveOp cfg x.st (x.cells.length + count)).1.cells
        rw [y1, hcells]; rfl
      · rw [z2, hsegs]; rfl
    · rintro z ⟨u, ⟨vu, h1, h2⟩, z1, z2, z3, z4, z5, z6⟩
      have hyl : (y.itemSys (capOf cfg y.segs.cells.length)).arr.cells.length = x.cells.length := by
        show y.cells.length = _; rw [y1]
      rw [hyl] at h1 h2
      have hroom' : x.cells.length + count ≤ capOf cfg y.segs.cells.length := by rw [hsegs]; exact hcap
      refine ⟨svalid_back vy vu (by omega) z1 z2 z3 z4 z5 z6, by rw [z1]; exact h1, by rw [z1]; exact h2⟩

theorem insertRangeF_basic (cfg : SCfg) (thr : Thr) (k : Nat) (index : Nat) (xs : List (Cell α)) (x : SSys α)
    (v : SValid cfg k x) (hi : index ≤ x.cells.length) :
    SBasic cfg k (insertRangeF cfg thr index xs) x (Seg.insertRange cfg x.st index xs).1 xs.length := by
  unfold SBasic insertRangeF Seg.insertRange
  simp only [spost_getS_bind]
  apply reserve_shift cfg k xs.length x v _ (fun cs => insertNogrowR cfg.keeps false cs index (xs.map .ext))
  intro y0 vy hc hroom
  have := shiftRF_basic (itemCfg cfg) thr [] k false index (xs.map .ext) y0 vy (by rw [hc]; exact hi)
    (by simp only [List.length_map]; exact hroom)
  simp only [List.length_map] at this
  exact this

theorem with_handler {cfg : SCfg} {k : Nat} (body : SFM α Unit) (x : SSys α) (P R : SSys α → Prop)
    (hP : ∀ y : SSys α, P y → P { y with objs := y.objs - 1, bad := y.bad || decide (y.objs < 1) })
    (hR : ∀ y : SSys α, R y → R { y with objs := y.objs - 1, bad := y.bad || decide (y.objs < 1) })
    (h : SPost body x (fun _ y => SValid cfg (k + 1) y ∧ P y) (fun y => SValid cfg (k + 1) y ∧ R y)) :
    SPost (do tryCatch body (do destroyS 1; throw); destroyS 1) x
      (fun _ y => SValid cfg k y ∧ P y) (fun y => SValid cfg k y ∧ R y) := by
  have drop : ∀ y : SSys α, SValid cfg (k + 1) y →
      SValid cfg k { y with objs := y.objs - 1, bad := y.bad || decide (y.objs < 1) } := by
    intro y vy
    have h1 := vy.objs; have h2 := vy.segs.good
    refine ⟨⟨vy.segs.wf, vy.segs.sblocks, vy.segs.pblocks, ?_⟩, vy.room, by simp only; omega⟩
    simp only [h2, Bool.false_or, decide_eq_false_iff_not]; omega
  apply SPost.bind' (fun _ y => SValid cfg (k + 1) y ∧ P y) (fun y => SValid cfg k y ∧ R y)
  · apply SPost.tryCatch _ h
    rintro y ⟨vy, hr⟩
    simp only [spost_destroyS_bind, spost_throw]
    exact ⟨drop y vy, hR y hr⟩
  · exact fun _ h => h
  · rintro _ y ⟨vy, hp⟩
    simp only [spost_destroyS]
    exact ⟨drop y vy, hP y hp⟩

theorem insertCrtF_basic (cfg : SCfg) (thr : Thr) (k : Nat) (index : Nat) (mv : Bool) (item : Ref α) (x : SSys α)
    (v : SValid cfg k x) (hi : index ≤ x.cells.length) :
    SBasic cfg k (insertCrtF cfg thr index mv item) x (Seg.insertCrt cfg x.st index mv item).1 1 := by
  unfold SBasic insertCrtF Seg.insertCrt
  simp only [spost_getS_bind]
  apply SPost.bind' _ _ (constructS_spec _ x)
  · intro y hy
    have h' := (score_eq_iff _ _).mp hy
    exact ⟨svalid_of_core v hy, by rw [h'.1]; omega, by rw [h'.1]; omega⟩
  · rintro _ y ⟨y1, y2, y3, y4, y5, y6⟩
    simp only [spost_modifyCellsS_bind]
    have hlen : (item.taken cfg.keeps mv y.cells).length = x.cells.length := by rw [taken_length, y1]
    have v1 : SValid cfg (k + 1) { y with cells := item.taken cfg.keeps mv y.cells } := by
      refine ⟨⟨y2 ▸ v.segs.wf, by simp only [y3, y2]; exact v.segs.sblocks, by simp only [y4, y2]; exact v.segs.pblocks,
        y6.trans v.segs.good⟩, ?_, ?_⟩
      · simp only [hlen, y2]; exact v.room
      · simp only [hlen, y5, v.objs]; omega
    apply SPost.mono (with_handler (cfg := cfg) (k := k) _ _
      (fun z => z.st = (Seg.withCells (reserveOp cfg { x.st with cells := item.taken cfg.keeps mv x.st.cells } (x.st.cells.length + 1))
        (fun cs => insertNogrowR cfg.keeps true cs index [.ext (item.read x.st.cells)])).1)
      (fun z => x.cells.length ≤ z.cells.length ∧ z.cells.length ≤ x.cells.length + 1)
      (fun _ h => h) (fun _ h => h) ?_)
    · rintro _ z ⟨vz, hz⟩; exact ⟨hz, vz⟩
    · rintro z ⟨vz, hz⟩; exact ⟨vz, hz⟩
    · have hrs := reserve_shift cfg (k + 1) 1 _ v1
        (shiftRF (itemCfg cfg) thr true index [.ext (item.read x.cells)])
        (fun cs => insertNogrowR cfg.keeps true cs index [.ext (item.read x.cells)])
        (by
          intro y0 vy hc hroom
          have := shiftRF_basic (itemCfg cfg) thr [] (k + 1) true index [.ext (item.read x.cells)] y0 vy
            (by rw [hc]; simp only [hlen]; exact hi)
            (by simp only [List.length_cons, List.length_nil]; exact hroom)
          simp only [List.length_cons, List.length_nil] at this
          exact this)
      simp only [hlen] at hrs
      apply SPost.mono hrs
      · rintro _ z ⟨hz, vz⟩
        refine ⟨vz, ?_⟩
        rw [hz]
        simp only [y1, SSys.st, y2]
      · rintro z ⟨vz, h1, h2⟩
        exact ⟨vz, h1, h2⟩

theorem insertNF_basic (cfg : SCfg) (thr : Thr) (k : Nat) (index count : Nat) (item : Ref α) (x : SSys α)
    (v : SValid cfg k x) (hi : index ≤ x.cells.length) :
    SBasic cfg k (insertNF cfg thr index count item) x (Seg.insertN cfg x.st index count item).1 count := by
  unfold SBasic insertNF Seg.insertN
  simp only [spost_getS_bind]
  apply SPost.bind' _ _ (constructS_spec _ x)
  · intro y hy
    have h' := (score_eq_iff _ _).mp hy
    exact ⟨svalid_of_core v hy, by rw [h'.1]; omega, by rw [h'.1]; omega⟩
  · rintro _ y ⟨y1, y2, y3, y4, y5, y6⟩
    have v1 : SValid cfg (k + 1) y := by
      refine ⟨⟨y2 ▸ v.segs.wf, by rw [y3, y2]; exact v.segs.sblocks, by rw [y4, y2]; exact v.segs.pblocks,
        y6.trans v.segs.good⟩, by rw [y1, y2]; exact v.room, by rw [y5, y1, v.objs]; omega⟩
    apply SPost.mono (with_handler (cfg := cfg) (k := k) _ _
      (fun z => z.st = (Seg.withCells (reserveOp cfg x.st (x.st.cells.length + count))
        (fun cs => insertNogrowN cfg.keeps cs index count (.ext (item.read x.st.cells)))).1)
      (fun z => x.cells.length ≤ z.cells.length ∧ z.cells.length ≤ x.cells.length + count)
      (fun _ h => h) (fun _ h => h) ?_)
    · rintro _ z ⟨vz, hz⟩; exact ⟨hz, vz⟩
    · rintro z ⟨vz, hz⟩; exact ⟨vz, hz⟩
    · have hrs := reserve_shift cfg (k + 1) count y v1
        (shiftNF (itemCfg cfg) thr index count (.ext (item.read x.cells)))
        (fun cs => insertNogrowN cfg.keeps cs index count (.ext (item.read x.cells)))
        (by
          intro y0 vy hc hroom
          exact shiftNF_basic (itemCfg cfg) thr [] (k + 1) index count (.ext (item.read x.cells)) y0 vy
            (by rw [hc, y1]; exact hi) hroom)
      simp only [y1] at hrs
      apply SPost.mono hrs
      · rintro _ z ⟨hz, vz⟩
        refine ⟨vz, ?_⟩
        rw [hz]
        have : y.st = x.st := st_ext y1 y2
        rw [this]
        rfl
      · rintro z ⟨vz, h1, h2⟩
        exact ⟨vz, h1, h2⟩

theorem removeF_basic (cfg : SCfg) (thr : Thr) (k : Nat) (index count : Nat) (x : SSys α)
    (v : SValid cfg k x) (h : index + count ≤ x.cells.length) :
    SBasic cfg k (removeF cfg thr index count) x (Seg.removeOp cfg x.st index count) 0 := by
  unfold SBasic removeF Seg.removeOp
  simp only [spost_getS_bind]
  have hb := ArrF.removeF_basic (itemCfg cfg) thr [] k index count _ (itemSys_valid v) h
  unfold Basic at hb
  apply SPost.mono (onItems_spec _ _ x _ _ hb)
  · rintro _ z ⟨u, ⟨ua, vu⟩, z1, z2, z3, z4, z5, z6⟩
    have hul : u.arr.cells.length ≤ capOf cfg x.segs.cells.length := by
      have := vu.wf.count_le
      rw [ua] at this ⊢
      exact this
    refine ⟨st_ext (by rw [z1, ua]; rfl) z2, svalid_back v vu hul z1 z2 z3 z4 z5 z6⟩
  · rintro z ⟨u, ⟨vu, h1, h2⟩, z1, z2, z3, z4, z5, z6⟩
    have hl : (x.itemSys (capOf cfg x.segs.cells.length)).arr.cells.length = x.cells.length := rfl
    rw [hl] at h1 h2
    refine ⟨svalid_back v vu (by have := v.room; omega) z1 z2 z3 z4 z5 z6, by rw [z1]; exact h1, by rw [z1]; exact h2⟩

theorem removeIfF_basic (cfg : SCfg) (thr : Thr) (k : Nat) (p : Cell α → Bool) (x : SSys α) (v : SValid cfg k x) :
    SPost (removeIfF cfg thr p) x
      (fun r y => y.st = (Seg.removeIfOp cfg x.st p).1 ∧ r = (Seg.removeIfOp cfg x.st p).2 ∧ SValid cfg k y)
      (fun y => SValid cfg k y ∧ y.cells.length = x.cells.length) := by
  unfold removeIfF Seg.removeIfOp
  simp only [spost_getS_bind]
  have hb := ArrF.removeIfF_basic (itemCfg cfg) thr [] k p _ (itemSys_valid v)
  apply SPost.mono (onItems_spec _ _ x _ _ hb)
  · rintro r z ⟨u, ⟨ua, ur, vu⟩, z1, z2, z3, z4, z5, z6⟩
    have hul : u.arr.cells.length ≤ capOf cfg x.segs.cells.length := by
      have := vu.wf.count_le
      rw [ua] at this ⊢
      exact this
    refine ⟨st_ext (by rw [z1, ua]; rfl) z2, ur, svalid_back v vu hul z1 z2 z3 z4 z5 z6⟩
  · rintro z ⟨u, ⟨vu, h1⟩, z1, z2, z3, z4, z5, z6⟩
    have hl : (x.itemSys (capOf cfg x.segs.cells.length)).arr.cells.length = x.cells.length := rfl
    rw [hl] at h1
    refine ⟨svalid_back v vu (by have := v.room; omega) z1 z2 z3 z4 z5 z6, by rw [z1]; exact h1⟩

/-- `Shrink(capacity)` is `noexcept`: a failure of `mSegments.Shrink()` is swallowed; the items are untouched, the
    result is valid -/
theorem shrinkOpF_spec (cfg : SCfg) (k : Nat) (n : Nat) (x : SSys α) (v : SValid cfg k x) :
    SPost (shrinkOpF cfg n) x (fun _ y => y.cells = x.cells ∧ SValid cfg k y) (fun _ => False) := by
  have ok := layout_ok cfg.lay
  unfold shrinkOpF
  simp only [spost_getS_bind]
  split
  · simp only [spost_pure, true_and]; exact v
  · rename_i hcap
    apply SPost.bind' _ _ (decCapacityF_spec cfg _ x v.segs) (fun _ h => h)
    rintro _ y ⟨y1, y2, y3, y4, y5⟩
    simp only [spost_getS_bind]
    have hroom : y.cells.length ≤ capOf cfg y.segs.cells.length := by
      rw [y1, y5]
      by_cases hle : cfg.lay.segsFor (Nat.max n x.cells.length) ≤ x.segs.cells.length
      · rw [Nat.min_eq_left hle]
        have h1 := ok.cap_segsFor (Nat.max n x.cells.length)
        have h2 : x.cells.length ≤ Nat.max n x.cells.length := Nat.le_max_right _ _
        unfold capOf; omega
      · rw [Nat.min_eq_right (by omega)]; exact v.room
    have vy : SValid cfg k y := ⟨y3, hroom, by rw [y2, y1]; exact v.objs⟩
    have hs := shrinkF_strong cfg.segs noThr [] 0 y.segs.cells.length y.segSys y3.wf (segs_owns y3)
    unfold Strong at hs
    apply SPost.tryCatch _ (SPost.mono (onSegs_spec _ y _ _ hs) ?_ (fun _ h => h))
    · rintro z ⟨z0, h0, z1, z2, z3, z4, z5, z6⟩
      simp only [core_eq_iff] at h0
      simp only [spost_pure]
      refine ⟨z1.trans y1, ⟨⟨?_, ?_, ?_, ?_⟩, ?_, ?_⟩⟩
      · rw [z2, h0.1]; exact y3.wf
      · rw [z3, z2, h0.1]; exact y3.sblocks
      · rw [z4, z2, h0.2.1, h0.1]; exact y3.pblocks
      · rw [z6, h0.2.2.2]; exact y3.good
      · rw [z1, z2, h0.1]; exact hroom
      · rw [z5, z1]; exact vy.objs
    · rintro _ z ⟨z0, ⟨ha, hf, ho, hb⟩, z1, z2, z3, z4, z5, z6⟩
      have hsc : z.segs.cells = y.segs.cells := by
        rw [z2, ha]; exact shrink_cells_arr cfg.segs y.segs _
      refine ⟨z1.trans y1, ⟨⟨?_, ?_, ?_, z6.trans hb⟩, ?_, ?_⟩⟩
      · rw [z2, ha]; exact shrink_wf cfg.segs y.segs _ y3.wf
      · rw [z3, hsc]; exact y3.sblocks
      · rw [z4, z2]; unfold Frame at hf; rw [hf]; simp
      · rw [z1, hsc]; exact hroom
      · rw [z5, z1]; exact vy.objs

/-- preconditions (`MOMO_CHECK`s) -/
def SOp.pre (s : SState α) : SOp α → Prop
  | .insertCrt index _ _ => index ≤ s.cells.length
  | .insertN index _ _ => index ≤ s.cells.length
  | .insertRange index _ => index ≤ s.cells.length
  | .remove index count => index + count ≤ s.cells.length
  | _ => True

def SOp.maxAdd : SOp α → Nat
  | .insertCrt .. => 1
  | .insertN _ count _ => count
  | .insertRange _ xs => xs.length
  | _ => 0

/-- **SegmentedArray, strong operations, every fault schedule** (`AddBackCrt / AddBack`, `SetCount`, `Reserve`): success
    with the fault-free state, or an exception with the items and the segments as before and a valid array with exact
    ledger (only the capacity of the pointer array may have grown) -/
theorem strong_stepS (cfg : SCfg) (thr : Thr) (k : Nat) (op : SOp α) (hop : op.strong = true) (hns : ∀ n, op ≠ .shrink n)
    (x : SSys α) (v : SValid cfg k x) :
    SPost (stepS cfg thr op) x
      (fun _ y => y.st = (pureStepS cfg x.st op).1 ∧ SValid cfg k y)
      (fun y => y.cells = x.cells ∧ y.segs.cells = x.segs.cells ∧ SValid cfg k y) := by
  cases op with
  | addBackCrt mv item => exact addBackCrtF_strong cfg thr k mv item x v
  | setCount count item => exact setCountF_strong cfg thr k count item x v
  | reserve n => exact reserveOpF_strong cfg k n x v
  | shrink n => exact absurd rfl (hns n)
  | insertCrt _ _ _ => simp [SOp.strong] at hop
  | insertN _ _ _ => simp [SOp.strong] at hop
  | insertRange _ _ => simp [SOp.strong] at hop
  | remove _ _ => simp [SOp.strong] at hop
  | removeIf _ => simp [SOp.strong] at hop

/-- **SegmentedArray, every operation, every fault schedule** keeps the array valid and the ledger exact -/
theorem basic_stepS (cfg : SCfg) (thr : Thr) (k : Nat) (op : SOp α) (x : SSys α) (v : SValid cfg k x) (hpre : op.pre x.st) :
    SPost (stepS cfg thr op) x
      (fun _ y => SValid cfg k y ∧ ((∀ n, op ≠ .shrink n) → y.st = (pureStepS cfg x.st op).1))
      (fun y => SValid cfg k y ∧ x.cells.length ≤ y.cells.length ∧ y.cells.length ≤ x.cells.length + op.maxAdd) := by
  cases op with
  | addBackCrt mv item =>
    apply SPost.mono (addBackCrtF_strong cfg thr k mv item x v)
    · exact fun _ y h => ⟨h.2, fun _ => h.1⟩
    · exact fun y h => ⟨h.2.2, by rw [h.1]; omega, by rw [h.1]; omega⟩
  | setCount count item =>
    apply SPost.mono (setCountF_strong cfg thr k count item x v)
    · exact fun _ y h => ⟨h.2, fun _ => h.1⟩
    · exact fun y h => ⟨h.2.2, by rw [h.1]; omega, by rw [h.1]; omega⟩
  | reserve n =>
    apply SPost.mono (reserveOpF_strong cfg k n x v)
    · exact fun _ y h => ⟨h.2, fun _ => h.1⟩
    · exact fun y h => ⟨h.2.2, by rw [h.1]; omega, by rw [h.1]; omega⟩
  | shrink n =>
    apply SPost.mono (shrinkOpF_spec cfg k n x v)
    · exact fun _ y h => ⟨h.2, fun hn => absurd rfl (hn n)⟩
    · exact fun _ h => h.elim
  | insertCrt index mv item =>
    apply SPost.mono (insertCrtF_basic cfg thr k index mv item x v hpre) _ (fun _ h => h)
    exact fun _ y h => ⟨h.2, fun _ => h.1⟩
  | insertN index count item =>
    apply SPost.mono (insertNF_basic cfg thr k index count item x v hpre) _ (fun _ h => h)
    exact fun _ y h => ⟨h.2, fun _ => h.1⟩
  | insertRange index xs =>
    apply SPost.mono (insertRangeF_basic cfg thr k index xs x v hpre) _ (fun _ h => h)
    exact fun _ y h => ⟨h.2, fun _ => h.1⟩
  | remove index count =>
    apply SPost.mono (removeF_basic cfg thr k index count x v hpre) _ (fun _ h => h)
    exact fun _ y h => ⟨h.2, fun _ => h.1⟩
  | removeIf p =>
    show SPost (removeIfF cfg thr p >>= fun _ => pure ()) x _ _
    apply SPost.bind' _ _ (removeIfF_basic cfg thr k p x v)
    · rintro y ⟨vy, hl⟩
      exact ⟨vy, by omega, by omega⟩
    · rintro r y ⟨ya, _, vy⟩
      simp only [spost_pure]
      exact ⟨vy, fun _ => ya⟩

end Momo.ArrF.Seg
