import Momo.Translated.Pool
import Momo.Proof.SegMachine
import Momo.Proof.PoolGeometry
import Momo.Proof.PoolCache
/-!
  C09: the address / size arithmetic of `momo::MemPool` as translated from the header (`Momo.Tr.pool_*`,
  lean/Momo/Translated/Pool.lean, rewritten by tools/translate.py from the current MemPool.h / Utility.h on every check)
  computes the model functions of `Momo/Model/Pool.lean` part (a) the C09 layout theorems are about.

  The generated defs work on 64-bit words (`size_t`, `uintptr_t`, `Byte*` = `Nat` reduced mod 2^64) and on `ptrdiff_t` /
  `int8_t` values (`Int`, every signed result reduced to two's complement); the model works on unbounded `Int`.
  Each theorem states the hypotheses under which nothing wraps: the parameters are `size_t` values (`IsParams`),
  `blockSize`, `blockAlignment < 2^63` where the C++ casts them to `ptrdiff_t`, `index * blockSize` fits `ptrdiff_t`,
  and the addresses computed stay below 2^64. A changed function body changes the generated def and breaks the
  equality below that is about it.
-/
namespace Momo.TrEq
open Momo Momo.Seg Momo.Pool

/-- the `size_t` parameters of a pool as the C++ functions read them -/
structure IsParams (P : Params) (S A N : Nat) : Prop where
  hS : P.S = S
  hA : P.A = A
  hN : P.N = N


theorem toI64_of_lt {n : Nat} (h : n < 2 ^ 63) : Tr.toI64 n = (n : Int) := by
  unfold Tr.toI64
  split <;> omega

theorem ofI64_cast (x : Int) : ((Tr.ofI64 x : Nat) : Int) = x % 18446744073709551616 := by
  unfold Tr.ofI64
  omega

theorem wI64_of_bounds {x : Int} (h1 : -2 ^ 63 ≤ x) (h2 : x < 2 ^ 63) : Tr.wI64 x = x := by
  unfold Tr.wI64 Tr.toI64
  have := ofI64_cast x
  split <;> omega

theorem w64_cast (n : Nat) : ((w64 n : Nat) : Int) = (n : Int) % 18446744073709551616 := by
  unfold w64; split <;> omega

/-- address + signed offset -/
theorem add64_ofI64 (b : Nat) (x : Int) (h0 : 0 ≤ (b : Int) + x) (h1 : (b : Int) + x < 2 ^ 64) :
    ((add64 b (Tr.ofI64 x) : Nat) : Int) = b + x := by
  unfold add64
  rw [w64_cast]
  have := ofI64_cast x
  omega

theorem sub64_ofI64 (b : Nat) (x : Int) (hb : b < 2 ^ 64) (h0 : 0 ≤ (b : Int) - x) (h1 : (b : Int) - x < 2 ^ 64) :
    ((sub64 b (Tr.ofI64 x) : Nat) : Int) = b - x := by
  unfold sub64
  have := ofI64_cast x
  split
  · omega
  · rw [w64_cast]; omega



/-- `UIntMath::Ceil` without wrap is `ceilTo` -/
theorem tr_ceil (v m : Nat) (hm : 0 < m) (h : v + m < 2 ^ 64) :
    ((Tr.pool_Ceil v m : Nat) : Int) = ceilTo v m := by
  unfold Tr.pool_Ceil ceilTo
  rw [add64_of_lt (by omega), sub64_of_le (by omega)]
  have hle : (v + m - 1) / m * m ≤ v + m - 1 := Nat.div_mul_le_self _ _
  rw [mul64_of_lt (by omega)]
  have e : ((v : Int) + m - 1) = ((v + m - 1 : Nat) : Int) := by omega
  rw [e]
  simp only [Int.natCast_mul, Int.natCast_ediv]

theorem tr_ceil_nat (v m : Nat) (hm : 0 < m) (h : v + m < 2 ^ 64) :
    Tr.pool_Ceil v m = (v + m - 1) / m * m := by
  unfold Tr.pool_Ceil
  rw [add64_of_lt (by omega), sub64_of_le (by omega)]
  have hle : (v + m - 1) / m * m ≤ v + m - 1 := Nat.div_mul_le_self _ _
  rw [mul64_of_lt (by omega)]

theorem lowBit_eq (a : Nat) (h0 : 0 < a) (h : a < 2 ^ 64) :
    a &&& add64 (Tr.not64 a) 1 = lowBit a := by
  unfold lowBit Tr.not64
  rw [Nat.mod_eq_of_lt (by omega), add64_of_lt (by omega)]
  congr 1; omega

/-- `pvGetAlignmentAddend` -/
theorem tr_alignAddend (P : Params) (A : Nat) (hA : P.A = A) (h0 : 0 < A) (h : A < 2 ^ 64) :
    ((Tr.pool_pvGetAlignmentAddend A : Nat) : Int) = P.alignAddend := by
  unfold Tr.pool_pvGetAlignmentAddend Params.alignAddend Params.allocAlign
  rw [lowBit_eq A h0 h, hA]
  simp only [Int.toNat_natCast, Int.ofNat_eq_natCast, decide_eq_true_eq]
  have hl : lowBit A ≤ A := Nat.and_le_left
  simp only [maxAllocAlignment] at *
  split
  · rw [sub64_of_le (by omega), Nat.min_eq_right (by omega)]; omega
  · rw [sub64_of_le (by omega), Nat.min_eq_left (by omega)]; omega

theorem sizeof_toNat : sizeofBufferBytes.toNat = 2 ∧ sizeofPtr.toNat = 8 ∧ sizeofU16.toNat = 2 := ⟨rfl, rfl, rfl⟩

/-- `pvIsBufferBytesNear` -/
theorem tr_bytesNear (P : Params) (A : Nat) (hA : P.A = A) : Tr.pool_pvIsBufferBytesNear A = P.bytesNear := by
  unfold Tr.pool_pvIsBufferBytesNear Params.bytesNear
  rw [sizeof_toNat.1, show add64 2 1 = 3 from rfl, hA]
  simp only [sizeofBufferBytes, decide_eq_decide]
  omega

/-- `pvUseCache` -/
theorem tr_useCache (P : Params) (S : Nat) (hS : P.S = S) : Tr.pool_pvUseCache P.C S = P.useCache := by
  unfold Tr.pool_pvUseCache Params.useCache
  rw [sizeof_toNat.2.1, hS]
  simp only [sizeofPtr]
  congr 1
  simp only [decide_eq_decide]; omega

/-- `pvGetBufferSize0` -/
theorem tr_bufferSize0 (P : Params) (S A : Nat) (hS : P.S = S) (hA : P.A = A) :
    ((Tr.pool_pvGetBufferSize0 S A : Nat) : Int) = P.bufferSize0 := by
  unfold Tr.pool_pvGetBufferSize0 Params.bufferSize0
  rw [hS, hA]
  simp only [decide_eq_true_eq]
  split <;> split <;> omega

/-- `pvGetBufferSize1`, when the size is a `size_t` -/
theorem tr_bufferSize1 (P : Params) (S A : Nat) (hS : P.S = S) (hA : P.A = A) (h0 : 0 < A) (hA64 : A < 2 ^ 64)
    (hfit : P.bufferSize1 < 2 ^ 64) : ((Tr.pool_pvGetBufferSize1 S A : Nat) : Int) = P.bufferSize1 := by
  have had := tr_alignAddend P A hA h0 hA64
  unfold Params.bufferSize1 at hfit ⊢
  unfold Tr.pool_pvGetBufferSize1
  rw [← had, hS] at hfit ⊢
  rw [sizeof_toNat.2.2]
  simp only [sizeofU16] at hfit ⊢
  rw [add64_of_lt (a := S) (by omega), add64_of_lt (by omega)]
  omega

/-- `pvGetBufferSize`, when the size is a `size_t` -/
theorem tr_bufferSize (P : Params) (S A N : Nat) (hp : IsParams P S A N) (h0 : 0 < A) (hA64 : A < 2 ^ 64)
    (hfit : P.bufferSize < 2 ^ 64) : ((Tr.pool_pvGetBufferSize S A N : Nat) : Int) = P.bufferSize := by
  have had := tr_alignAddend P A hp.hA h0 hA64
  have hnear := tr_bytesNear P A hp.hA
  unfold Params.bufferSize at hfit ⊢
  unfold Tr.pool_pvGetBufferSize
  rw [← had, ← hnear, hp.hS, hp.hA, hp.hN] at hfit ⊢
  rw [sizeof_toNat.1, sizeof_toNat.2.1, show mul64 2 8 = 16 from rfl]
  simp only [sizeofBufferBytes, sizeofPtr, sizeofU16, show ((Extracted.poolBufSizeAlignMul : Nat) : Int) = 2 from rfl] at hfit ⊢
  generalize Tr.pool_pvGetAlignmentAddend A = ad at hfit ⊢
  have e1 : ((N : Int) * S) = ((N * S : Nat) : Int) := by simp
  have e2 : ((2 : Int) + (S : Int) / A % 2) * A = (((2 + S / A % 2) * A : Nat) : Int) := by simp
  have hb : (if Tr.pool_pvIsBufferBytesNear A = true then (0:Int) else 2) = ((if Tr.pool_pvIsBufferBytesNear A = true then 0 else 2 : Nat) : Int) := by
    split <;> rfl
  rw [e1, e2, hb] at hfit ⊢
  have hm : S / A % 2 < 2 := Nat.mod_lt _ (by decide)
  rw [mul64_of_lt (a := N) (by omega), add64_of_lt (a := 2) (by omega), mul64_of_lt (by omega)]
  generalize (2 + S / A % 2) * A = t at hfit ⊢
  generalize N * S = ns at hfit ⊢
  generalize (if Tr.pool_pvIsBufferBytesNear A = true then 0 else 2 : Nat) = nb at hfit ⊢
  rw [add64_of_lt (a := ns) (by omega), add64_of_lt (a := ns + ad) (by omega),
    add64_of_lt (a := ns + ad + t) (by omega), add64_of_lt (a := ns + ad + t + nb) (by omega), add64_of_lt (by omega)]
  omega
/-- `a & -1 = a`, `a & 0 = 0` on `ptrdiff_t` -/
theorem andI64_mask (a : Nat) (ha : a < 2 ^ 63) (c : Bool) :
    Tr.andI64 a (if c then -1 else 0) = if c then (a : Int) else 0 := by
  unfold Tr.andI64
  cases c
  · simp only [Bool.false_eq_true, ↓reduceIte]
    rw [show Tr.ofI64 0 = 0 from rfl, Nat.and_zero]; rfl
  · simp only [↓reduceIte]
    have h1 : Tr.ofI64 (-1) = 2 ^ 64 - 1 := by decide
    have h2 : Tr.ofI64 (a : Int) = a := by
      have := ofI64_cast (a : Int); omega
    rw [h1, h2, Nat.and_two_pow_sub_one_eq_mod, Nat.mod_eq_of_lt (by omega), toI64_of_lt ha]


/-- `pvGetBlock`: no overflow of `index * blockSize` in `ptrdiff_t`, the address stays in the 64-bit range -/
theorem tr_getBlock (P : Params) (S A N : Nat) (hp : IsParams P S A N) (buf : Nat) (i : Int)
    (hS : S < 2 ^ 63) (hA : A < 2 ^ 63) (hm1 : -2 ^ 63 ≤ i * P.S) (hm2 : i * P.S < 2 ^ 63)
    (h0 : 0 ≤ buf + i * P.S) (h1 : buf + i * P.S + P.A < 2 ^ 64) :
    ((Tr.pool_pvGetBlock S A buf i : Nat) : Int) = getBlock P buf i := by
  unfold Tr.pool_pvGetBlock getBlock
  rw [hp.hS, hp.hA] at *
  rw [toI64_of_lt hS, toI64_of_lt hA]
  unfold Tr.mulI64
  rw [wI64_of_bounds hm1 hm2]
  have hneg : Tr.negI64 (if decide (i ≥ (0:Int)) = true then 1 else 0) = if decide (i ≥ (0:Int)) then -1 else 0 := by
    split <;> rfl
  rw [hneg, andI64_mask A hA]
  generalize i * (S : Int) = m at *
  have e1 := add64_ofI64 buf m h0 (by omega)
  by_cases hi : 0 ≤ i
  · simp only [ge_iff_le, hi, decide_true, ↓reduceIte]
    have e2 := add64_ofI64 (add64 buf (Tr.ofI64 m)) (A : Int) (by omega) (by omega)
    rw [e2, e1]
  · simp only [ge_iff_le, hi, decide_false, Bool.false_eq_true, ↓reduceIte]
    have e2 := add64_ofI64 (add64 buf (Tr.ofI64 m)) 0 (by omega) (by omega)
    rw [e2, e1]

theorem sub64_ofI64_mod (b : Nat) (x : Int) (hb : b < 2 ^ 64) :
    ((sub64 b (Tr.ofI64 x) : Nat) : Int) = ((b : Int) - x) % 18446744073709551616 := by
  unfold sub64
  have := ofI64_cast x
  split
  · omega
  · rw [w64_cast]; omega

theorem sub64_lt (a b : Nat) (ha : a < 2 ^ 64) : sub64 a b < 2 ^ 64 := by
  unfold sub64 w64; split
  · omega
  · split <;> omega

theorem wI8_of_bounds {x : Int} (h1 : -128 ≤ x) (h2 : x < 128) : Tr.wI8 x = x := by
  unfold Tr.wI8; omega

/-- `pvGetBlockIndex`: both outputs. No overflow of `index * blockSize` in `ptrdiff_t`; the buffer address is in the
    64-bit range. -/
theorem tr_getBlockIndex (P : Params) (S A N : Nat) (hp : IsParams P S A N) (b : Nat) (hb : b < 2 ^ 64)
    (hS : S < 2 ^ 63) (hA : A < 2 ^ 63) (hN0 : 0 < N) (hN : N < 128)
    (hm1 : -2 ^ 63 ≤ blockIdx P b * P.S) (hm2 : blockIdx P b * P.S < 2 ^ 63)
    (h0 : 0 ≤ blockBuf P b) (h1 : blockBuf P b < 2 ^ 64) :
    (Tr.pool_pvGetBlockIndex S A N b).1 = blockIdx P b ∧
    (((Tr.pool_pvGetBlockIndex S A N b).2 : Nat) : Int) = blockBuf P b := by
  have hdir : blockDir P b = ((b % S / A % 2 : Nat) : Int) := by
    simp only [blockDir, hp.hS, hp.hA, Int.natCast_emod, Int.natCast_ediv]; rfl
  have hq : ((b : Int) / P.S) % P.N = ((b / S % N : Nat) : Int) := by
    simp only [hp.hS, hp.hN, Int.natCast_emod, Int.natCast_ediv]
  have hd2 : b % S / A % 2 < 2 := Nat.mod_lt _ (by decide)
  have hq2 : b / S % N < N := Nat.mod_lt _ hN0
  unfold blockBuf at h0 h1 ⊢
  unfold blockIdx at hm1 hm2 h0 h1 ⊢
  rw [hdir, hq] at hm1 hm2 h0 h1 ⊢
  simp only [hp.hS, hp.hA, hp.hN] at hm1 hm2 h0 h1 ⊢
  clear hdir hq
  unfold Tr.pool_pvGetBlockIndex
  simp only [id]
  generalize b % S / A % 2 = d at hm1 hm2 h0 h1 hd2 ⊢
  generalize b / S % N = q at hm1 hm2 h0 h1 hq2 ⊢
  rw [toI64_of_lt (n := d) (by omega), toI64_of_lt (n := q) (by omega), toI64_of_lt (n := N) (by omega),
    toI64_of_lt hS, toI64_of_lt hA]
  have hsub : Tr.subI64 (d : Int) 1 = if decide (d = 0) then -1 else 0 := by
    unfold Tr.subI64; rw [wI64_of_bounds (by omega) (by omega)]
    by_cases h : d = 0 <;> simp [h]; omega
  have hneg : Tr.negI64 (d : Int) = if decide (d = 1) then -1 else 0 := by
    unfold Tr.negI64; rw [wI64_of_bounds (by omega) (by omega)]
    by_cases h : d = 1 <;> simp [h]; omega
  rw [hsub, hneg, andI64_mask N (by omega), andI64_mask A hA]
  have hi : Tr.subI64 (q : Int) (if decide (d = 0) = true then (N : Int) else 0) =
      (q : Int) - (if ((d : Nat) : Int) = 0 then (N : Int) else 0) := by
    unfold Tr.subI64
    by_cases h : d = 0 <;> simp [h] <;> rw [wI64_of_bounds (by omega) (by omega)]
  rw [hi]
  generalize hidx : (q : Int) - (if ((d : Nat) : Int) = 0 then (N : Int) else 0) = idx at hm1 hm2 h0 h1 ⊢
  have hib : -128 ≤ idx ∧ idx < 128 := by
    rw [← hidx]; split <;> omega
  unfold Tr.mulI64
  rw [wI64_of_bounds hm1 hm2]
  generalize idx * (S : Int) = m at hm1 hm2 h0 h1 ⊢
  refine ⟨wI8_of_bounds hib.1 hib.2, ?_⟩
  have e1 := sub64_ofI64_mod b m hb
  have e2 := sub64_ofI64_mod (sub64 b (Tr.ofI64 m)) (if decide (d = 1) = true then (A : Int) else 0) (sub64_lt _ _ hb)
  rw [e2, e1]
  by_cases h : d = 1
  · simp only [h, decide_true, ↓reduceIte, Int.natCast_one] at h0 h1 ⊢; omega
  · have h' : ¬ ((d : Int) = 1) := by omega
    simp only [h, h', decide_false, Bool.false_eq_true, ↓reduceIte] at h0 h1 ⊢; omega


/-- the four adjustment steps of `pvNewBuffer` on machine words (the text of the generated def) -/
def firstBlock64 (S A N base : Nat) : Nat :=
  let u := Tr.pool_Ceil base A
  let u := add64 u ((u % S) % (mul64 2 A))
  let u := if decide ((add64 u A) % S = 0) then add64 u A else u
  let u := if decide ((u / S) % N = 0) then add64 u A else u
  u

/-- the generated `pool_pvNewBuffer` is: the four steps, the offset, the block, then `pvGetBlockIndex` of the block -/
theorem tr_newBuffer_shape (S A N base : Nat) : Tr.pool_pvNewBuffer S A N base =
    (sub64 (firstBlock64 S A N base) base, add64 base (sub64 (firstBlock64 S A N base) base),
     (Tr.pool_pvGetBlockIndex S A N (add64 base (sub64 (firstBlock64 S A N base) base))).2,
     (Tr.pool_pvGetBlockIndex S A N (add64 base (sub64 (firstBlock64 S A N base) base))).1) := rfl

theorem ceil_bounds (v m : Nat) (hm : 0 < m) : v ≤ (v + m - 1) / m * m ∧ (v + m - 1) / m * m ≤ v + m - 1 := by
  refine ⟨?_, Nat.div_mul_le_self _ _⟩
  have h1 := Nat.div_add_mod (v + m - 1) m
  have h2 := Nat.mod_lt (v + m - 1) hm
  rw [Nat.mul_comm] at h1
  omega

theorem step2_64 (P : Params) (S A N : Nat) (hp : IsParams P S A N) (u : Nat) (h0 : 0 < A) (h : u + 2 * A < 2 ^ 64) :
    ((add64 u ((u % S) % (mul64 2 A)) : Nat) : Int) = step2 P u ∧ u ≤ add64 u ((u % S) % (mul64 2 A)) ∧
      add64 u ((u % S) % (mul64 2 A)) < u + 2 * A := by
  rw [mul64_of_lt (by omega)]
  have hl : u % S % (2 * A) < 2 * A := Nat.mod_lt _ (by omega)
  rw [add64_of_lt (by omega)]
  refine ⟨?_, by omega, by omega⟩
  unfold step2
  rw [hp.hS, hp.hA]
  simp only [Int.natCast_add, Int.natCast_emod, Int.natCast_mul]; rfl

theorem step3_64 (P : Params) (S A N : Nat) (hp : IsParams P S A N) (u : Nat) (h : u + A < 2 ^ 64) :
    (((if decide ((add64 u A) % S = 0) then add64 u A else u : Nat) : Nat) : Int) = step3 P u ∧
      u ≤ (if decide ((add64 u A) % S = 0) then add64 u A else u) ∧
      (if decide ((add64 u A) % S = 0) then add64 u A else u) ≤ u + A := by
  rw [add64_of_lt (by omega)]
  unfold step3
  rw [hp.hS, hp.hA]
  have e : (((u : Int) + A) % S = 0) ↔ ((u + A) % S = 0) := by
    rw [← Int.natCast_add, ← Int.natCast_emod]; omega
  simp only [decide_eq_true_eq, e]
  split <;> simp

theorem step4_64 (P : Params) (S A N : Nat) (hp : IsParams P S A N) (u : Nat) (h : u + A < 2 ^ 64) :
    (((if decide ((u / S) % N = 0) then add64 u A else u : Nat) : Nat) : Int) = step4 P u ∧
      u ≤ (if decide ((u / S) % N = 0) then add64 u A else u) ∧
      (if decide ((u / S) % N = 0) then add64 u A else u) ≤ u + A := by
  rw [add64_of_lt (by omega)]
  unfold step4
  rw [hp.hS, hp.hA, hp.hN]
  have e : (((u : Int) / S) % N = 0) ↔ ((u / S) % N = 0) := by
    rw [← Int.natCast_ediv, ← Int.natCast_emod]; omega
  simp only [decide_eq_true_eq, e]
  split <;> simp

/-- the machine-word steps compute `firstBlock` when `base + 5 * blockAlignment` is a `size_t` -/
theorem firstBlock64_eq (P : Params) (S A N : Nat) (hp : IsParams P S A N) (base : Nat) (h0 : 0 < A)
    (hfit : base + 5 * A < 2 ^ 64) :
    ((firstBlock64 S A N base : Nat) : Int) = firstBlock P base ∧ base ≤ firstBlock64 S A N base ∧
      firstBlock64 S A N base < base + 5 * A := by
  unfold firstBlock64 firstBlock
  have hc := tr_ceil base A h0 (by omega)
  have hcn := tr_ceil_nat base A h0 (by omega)
  have hcb := ceil_bounds base A h0
  rw [← hcn] at hcb
  rw [← hp.hA] at hc
  generalize Tr.pool_Ceil base A = u0 at hc hcb ⊢
  simp only []
  obtain ⟨e2, l2, r2⟩ := step2_64 P S A N hp u0 h0 (by omega)
  rw [hc] at e2
  generalize add64 u0 ((u0 % S) % (mul64 2 A)) = u1 at e2 l2 r2 ⊢
  obtain ⟨e3, l3, r3⟩ := step3_64 P S A N hp u1 (by omega)
  rw [e2] at e3
  generalize (if decide ((add64 u1 A) % S = 0) then add64 u1 A else u1) = u2 at e3 l3 r3 ⊢
  obtain ⟨e4, l4, r4⟩ := step4_64 P S A N hp u2 (by omega)
  rw [e3] at e4
  exact ⟨e4, by omega, by omega⟩

/-- `pvNewBuffer` up to the first write into the buffer: `(beginOffset, block, buffer, blockIndex)` are the fields of
    `newBuffer` and the block is `firstBlock`. `base + 5 * blockAlignment` is a `size_t` (the steps add less than that),
    `blockIndex * blockSize` fits `ptrdiff_t`, the buffer pointer is a 64-bit address. -/
theorem tr_newBuffer (P : Params) (S A N : Nat) (hp : IsParams P S A N) (base : Nat) (h0 : 0 < A)
    (hS : S < 2 ^ 63) (hA : A < 2 ^ 63) (hN0 : 0 < N) (hN : N < 128) (hfit : base + 5 * A < 2 ^ 64)
    (hm1 : -2 ^ 63 ≤ (newBuffer P base).first * P.S) (hm2 : (newBuffer P base).first * P.S < 2 ^ 63)
    (hb0 : 0 ≤ (newBuffer P base).buf) (hb1 : (newBuffer P base).buf < 2 ^ 64) :
    (((Tr.pool_pvNewBuffer S A N base).1 : Nat) : Int) = (newBuffer P base).beginOffset ∧
    (((Tr.pool_pvNewBuffer S A N base).2.1 : Nat) : Int) = firstBlock P base ∧
    (((Tr.pool_pvNewBuffer S A N base).2.2.1 : Nat) : Int) = (newBuffer P base).buf ∧
    (Tr.pool_pvNewBuffer S A N base).2.2.2 = (newBuffer P base).first := by
  rw [tr_newBuffer_shape]
  obtain ⟨e, l, r⟩ := firstBlock64_eq P S A N hp base h0 hfit
  simp only [newBuffer] at hm1 hm2 hb0 hb1 ⊢
  rw [← e] at hm1 hm2 hb0 hb1 ⊢
  generalize firstBlock64 S A N base = fb at l r hm1 hm2 hb0 hb1 ⊢
  rw [sub64_of_le l, add64_of_lt (by omega), show base + (fb - base) = fb by omega]
  obtain ⟨g1, g2⟩ := tr_getBlockIndex P S A N hp fb (by omega) hS hA hN0 hN hm1 hm2 hb0 hb1
  exact ⟨by omega, rfl, g2, g1⟩


/-- `pvNewBlock1` up to the write of the offset: `(block, offset)` -/
theorem tr_newBlock1 (P : Params) (A : Nat) (hA : P.A = A) (base : Nat) (h0 : 0 < A) (hfit : base + A < 2 ^ 64) :
    (((Tr.pool_pvNewBlock1 A base).1 : Nat) : Int) = (newBlock1 P base).1 ∧
    (((Tr.pool_pvNewBlock1 A base).2 : Nat) : Int) = (newBlock1 P base).2 := by
  unfold Tr.pool_pvNewBlock1 newBlock1
  simp only [id]
  have hc := tr_ceil base A h0 hfit
  have hcn := tr_ceil_nat base A h0 hfit
  have hcb := ceil_bounds base A h0
  rw [← hcn] at hcb
  rw [← hA] at hc
  rw [← hc]
  generalize Tr.pool_Ceil base A = u at hcb ⊢
  rw [sub64_of_le hcb.1, add64_of_lt (by omega)]
  omega

/-- `pvCorrectBlockSize` -/
theorem tr_correctBlockSize (S A N : Nat) (h0 : 0 < A) (h : S + A < 2 ^ 64) (h2 : 2 * A < 2 ^ 64) :
    ((Tr.pool_CorrectBlockSize S A N : Nat) : Int) = correctBlockSize S A N := by
  unfold Tr.pool_CorrectBlockSize correctBlockSize
  have hc := tr_ceil S A h0 h
  unfold ceilTo at hc
  rw [mul64_of_lt (by omega), hc.symm]
  simp only [decide_eq_true_eq, show ((Extracted.poolCorrectSmallMul : Nat) : Int) = 2 from rfl]
  split <;> split <;> (try split) <;> simp_all <;> omega

/-- the position functions (`firstBlockIndex` = the byte at `buffer`): all metadata positions, when the end of the
    metadata is a 64-bit address and the first index is one `pvNewBuffer` produces (`-N ≤ first ≤ 0`) -/
theorem tr_positions (P : Params) (S A N : Nat) (hp : IsParams P S A N) (buf : Nat) (first : Int)
    (h0 : 0 < A) (hN : N < 2 ^ 64) (hf1 : -P.N ≤ first) (hf2 : first ≤ 0) (hfit : metaEnd P buf first < 2 ^ 64) :
    ((Tr.pool_pvGetBlocksEndPosition S A N first buf : Nat) : Int) = blocksEnd P buf first ∧
    ((Tr.pool_pvGetBufferBytesPosition S A N first buf : Nat) : Int) = bytesPos P buf first ∧
    ((Tr.pool_pvGetPrevBufferPosition S A N first buf : Nat) : Int) = prevPos P buf first ∧
    ((Tr.pool_pvGetNextBufferPosition S A N first buf : Nat) : Int) = nextPos P buf first ∧
    ((Tr.pool_pvGetBeginOffsetPosition S A N first buf : Nat) : Int) = beginOffPos P buf first := by
  have hnear := tr_bytesNear P A hp.hA
  unfold Tr.pool_pvGetBeginOffsetPosition Tr.pool_pvGetNextBufferPosition Tr.pool_pvGetPrevBufferPosition
    Tr.pool_pvGetBufferBytesPosition
  unfold metaEnd at hfit
  unfold beginOffPos nextPos prevPos at hfit ⊢
  unfold bytesPos
  rw [hnear, sizeof_toNat.1, sizeof_toNat.2.1]
  have hnb : (0:Int) ≤ (if P.bytesNear = true then 0 else sizeofBufferBytes) ∧
      (if P.bytesNear = true then (0:Int) else sizeofBufferBytes) = ((if P.bytesNear = true then 0 else 2 : Nat) : Int) := by
    split <;> simp [sizeofBufferBytes]
  rw [hnb.2] at hfit ⊢
  simp only [sizeofPtr, sizeofU16] at hfit ⊢
  -- the end of the blocks
  have hE : ((Tr.pool_pvGetBlocksEndPosition S A N first buf : Nat) : Int) = blocksEnd P buf first ∧
      (buf : Int) + A ≤ blocksEnd P buf first := by
    unfold Tr.pool_pvGetBlocksEndPosition blocksEnd at *
    rw [hp.hS, hp.hA, hp.hN] at *
    show ((add64 (add64 buf A) (mul64 S (sub64 N (Tr.ofI64 (-first)))) : Nat) : Int) = _ ∧ _
    have hk := sub64_ofI64 N (-first) (by omega) (by omega) (by omega)
    generalize sub64 N (Tr.ofI64 (-first)) = k at hk ⊢
    have e : (S : Int) * (N + first) = ((S * k : Nat) : Int) := by
      rw [Int.natCast_mul, hk]; congr 1; omega
    rw [e] at hfit ⊢
    rw [mul64_of_lt (by omega), add64_of_lt (a := buf) (by omega), add64_of_lt (by omega)]
    omega
  obtain ⟨hE1, hE2⟩ := hE
  generalize Tr.pool_pvGetBlocksEndPosition S A N first buf = E at hE1 ⊢
  rw [← hE1] at hfit hE2 ⊢
  generalize (if P.bytesNear = true then 0 else 2 : Nat) = nb at hfit ⊢
  rw [add64_of_lt (a := E) (by omega), add64_of_lt (a := E + nb) (by omega), add64_of_lt (a := E + nb + 8) (by omega),
    add64_of_lt (a := buf) (by omega)]
  refine ⟨rfl, ?_, by omega, by omega, by omega⟩
  split <;> simp

/-- `MemPoolConst::GetBlockAlignment`: the recursion halves `maxAlignment`, so fuel `f` suffices below `2^f`; the model's
    own fuel `g ≥ f` likewise -/
theorem tr_getBlockAlignment_fuel (bs : Nat) : ∀ (f g m : Nat), m < 2 ^ f → f ≤ g →
    ((Tr.pool_GetBlockAlignment_fuel f bs m : Nat) : Int) = getBlockAlignment bs g m
  | 0, g, m, hm, _ => by
    have h0 : m = 0 := by simpa using hm
    subst h0
    cases g with
    | zero => rfl
    | succ g => simp [Tr.pool_GetBlockAlignment_fuel, getBlockAlignment]
  | f+1, 0, m, _, hg => by omega
  | f+1, g+1, m, hm, hg => by
    have ih := tr_getBlockAlignment_fuel bs f g (m / 2) (by rw [Nat.pow_succ] at hm; omega) (by omega)
    unfold Tr.pool_GetBlockAlignment_fuel getBlockAlignment
    simp only [Bool.and_eq_true, decide_eq_true_eq]
    by_cases h : m > bs ∧ m > 1
    · have h' : (m : Int) > bs ∧ (m : Int) > 1 := by omega
      rw [if_pos h, if_pos h', ih]; rfl
    · have h' : ¬ ((m : Int) > bs ∧ (m : Int) > 1) := by omega
      rw [if_neg h, if_neg h']

/-- `MemPoolConst::GetBlockAlignment(blockSize, maxAlignment)` for `size_t` arguments is the model function the driver
    runs (fuel 64) -/
theorem tr_getBlockAlignment (bs m : Nat) (hm : m < 2 ^ 64) :
    ((Tr.pool_GetBlockAlignment bs m : Nat) : Int) = getBlockAlignment bs 64 m :=
  tr_getBlockAlignment_fuel bs 64 64 m hm (Nat.le_refl _)

/-! ### legal parameters (`pvCheckParams`), several blocks per buffer -/


theorem isParams_mk (S A N C : Nat) : IsParams ⟨S, A, N, C⟩ S A N := ⟨rfl, rfl, rfl⟩

/-- consequences of `pvCheckParams` for a pool with several blocks per buffer -/
theorem legal_sizes {P : Params} (hL : P.Legal) (hN2 : 2 ≤ P.N) :
    0 < P.A ∧ P.A ≤ 1024 ∧ P.N < 128 ∧ 2 * P.A ≤ P.S ∧ 2 * P.S ≤ P.N * P.S ∧ 0 ≤ P.alignAddend ∧
      P.N * P.S + P.alignAddend + 2 * P.A + 18 ≤ P.bufferSize := by
  obtain ⟨hM, hA2⟩ := Legal.multi hL hN2
  have hA := hM.hA
  have hN : P.N < 128 := hL.2.1
  have hS : 2 * P.A ≤ P.S := by
    have := Int.mul_le_mul_of_nonneg_left hM.hk (Int.le_of_lt hA)
    rw [← hM.hS] at this; omega
  have hNS : 2 * P.S ≤ P.N * P.S := Int.mul_le_mul_of_nonneg_right hN2 (by omega)
  obtain ⟨g0, g1, _⟩ := allocAlign_spec P hA hA2
  have hle : P.allocAlign ≤ P.A := Int.le_of_dvd hA g1
  have had : 0 ≤ P.alignAddend := by unfold Params.alignAddend; omega
  refine ⟨hA, hA2, hN, hS, hNS, had, ?_⟩
  unfold Params.bufferSize
  have hm : 0 ≤ (P.S / P.A) % 2 := Int.emod_nonneg _ (by omega)
  have e : ((Extracted.poolBufSizeAlignMul : Int) + (P.S / P.A) % 2) * P.A = 2 * P.A + ((P.S / P.A) % 2) * P.A := by
    rw [Int.add_mul]; rfl
  have hnn : 0 ≤ ((P.S / P.A) % 2) * P.A := Int.mul_nonneg hm (by omega)
  rw [e]
  simp only [sizeofBufferBytes, sizeofPtr, sizeofU16]
  split <;> omega

/-- `pvGetBlock` for an index of the int8 range of a pool and a block that lies below 2^63 -/
theorem tr_getBlock_of_inside (P : Params) (S A N : Nat) (hp : IsParams P S A N) (buf : Nat) (i : Int)
    (hA : A ≤ 1024) (hi : -(N : Int) ≤ i) (hi2 : i ≤ N) (hNS : (N : Int) * S < 2 ^ 63) (hN1 : 1 ≤ N)
    (h0 : 0 ≤ getBlock P buf i) (h1 : getBlock P buf i < 2 ^ 63) :
    ((Tr.pool_pvGetBlock S A buf i : Nat) : Int) = getBlock P buf i := by
  have hS : (S : Int) ≤ N * S := by
    have := Int.mul_le_mul_of_nonneg_right (show (1 : Int) ≤ N by omega) (show (0 : Int) ≤ S by omega)
    omega
  have hlo : -((N : Int) * S) ≤ i * S := by
    have := Int.mul_le_mul_of_nonneg_right hi (show (0 : Int) ≤ S by omega)
    rw [Int.neg_mul] at this; exact this
  have hhi : i * S ≤ (N : Int) * S := Int.mul_le_mul_of_nonneg_right hi2 (by omega)
  unfold getBlock at h0 h1
  rw [hp.hS, hp.hA] at h0 h1
  apply tr_getBlock P S A N hp buf i (by omega) (by omega) <;> rw [hp.hS] <;> try rw [hp.hA]
  · omega
  · omega
  · by_cases h : 0 ≤ i
    · have := Int.mul_nonneg h (show (0 : Int) ≤ S by omega); omega
    · rw [if_neg h] at h0; omega
  · split at h1 <;> omega

/-- `pvNewBuffer` (up to the first write) for every legal pool with several blocks per buffer and every address
    `base` the memory manager may return with `base + pvGetBufferSize() < 2^63`: the results are the fields of
    `newBuffer`, `pvGetBlock(buffer, blockIndex)` is the block, and `pvGetBufferSize` does not wrap. -/
theorem tr_newBuffer_legal (S A N C : Nat) (hL : (Params.mk S A N C).Legal) (hN2 : 2 ≤ N) (base : Nat)
    (hfit : (base : Int) + (Params.mk S A N C).bufferSize < 2 ^ 63) :
    (((Tr.pool_pvNewBuffer S A N base).1 : Nat) : Int) = (newBuffer ⟨S, A, N, C⟩ base).beginOffset ∧
    (((Tr.pool_pvNewBuffer S A N base).2.1 : Nat) : Int) = firstBlock ⟨S, A, N, C⟩ base ∧
    (((Tr.pool_pvNewBuffer S A N base).2.2.1 : Nat) : Int) = (newBuffer ⟨S, A, N, C⟩ base).buf ∧
    (Tr.pool_pvNewBuffer S A N base).2.2.2 = (newBuffer ⟨S, A, N, C⟩ base).first ∧
    ((Tr.pool_pvGetBufferSize S A N : Nat) : Int) = (Params.mk S A N C).bufferSize ∧
    firstBlock ⟨S, A, N, C⟩ base < base + 4 * A := by
  have hp := isParams_mk S A N C
  generalize hP : Params.mk S A N C = P at *
  have hN2' : 2 ≤ P.N := by rw [hp.hN]; omega
  obtain ⟨hM, _⟩ := Legal.multi hL hN2'
  obtain ⟨sA, sA2, sN, sS, sNS, sad, sB⟩ := legal_sizes hL hN2'
  obtain ⟨_, f2, f3, _, f5, f6, _, f8, _⟩ := hM.firstBlock_ok base
  have hkm : (3 + (P.S / P.A) % 2) * P.A ≤ 4 * P.A :=
    Int.mul_le_mul_of_nonneg_right (by omega) (by omega)
  have hm : (blockIdx P (firstBlock P base)) * P.S ≤ 0 * P.S ∧ (-P.N) * P.S ≤ (blockIdx P (firstBlock P base)) * P.S :=
    ⟨Int.mul_le_mul_of_nonneg_right f3 (by omega), Int.mul_le_mul_of_nonneg_right (by omega) (by omega)⟩
  rw [Int.neg_mul, Int.zero_mul] at hm
  have hsz := tr_bufferSize P S A N hp (by have := hp.hA; omega) (by have := hp.hA; omega) (by omega)
  have hA := hp.hA; have hS := hp.hS; have hN := hp.hN
  have hget : getBlock P (blockBuf P (firstBlock P base)) (blockIdx P (firstBlock P base)) =
      blockBuf P (firstBlock P base) + blockIdx P (firstBlock P base) * P.S +
        (if 0 ≤ blockIdx P (firstBlock P base) then P.A else 0) := rfl
  rw [hget] at f5
  have h4 : (blockBuf P (firstBlock P base)) ≤ firstBlock P base + P.N * P.S := by
    split at f5 <;> omega
  have h5 : (base : Int) ≤ blockBuf P (firstBlock P base) := by
    split at f6 <;> omega
  have := tr_newBuffer P S A N hp base (by omega) (by omega) (by omega) (by omega) (by omega) (by omega)
    (by simp only [newBuffer]; omega) (by simp only [newBuffer]; omega) (by simp only [newBuffer]; omega)
    (by simp only [newBuffer]; omega)
  exact ⟨this.1, this.2.1, this.2.2.1, this.2.2.2, hsz, by omega⟩

/-- the metadata byte ranges of a buffer (`Pool.metaRanges`: first-index byte, `BufferBytes`, the two link pointers, the
    begin offset) at the positions the translated position functions compute -/
def metaRangesTr (S A N : Nat) (buf : Nat) (first : Int) : List (Int × Int) :=
  [((buf : Nat), 1),
   ((Tr.pool_pvGetBufferBytesPosition S A N first buf : Nat), sizeofBufferBytes),
   ((Tr.pool_pvGetPrevBufferPosition S A N first buf : Nat), sizeofPtr),
   ((Tr.pool_pvGetNextBufferPosition S A N first buf : Nat), sizeofPtr),
   ((Tr.pool_pvGetBeginOffsetPosition S A N first buf : Nat), sizeofU16)]

theorem metaRangesTr_eq (P : Params) (S A N : Nat) (hp : IsParams P S A N) (buf : Nat) (first : Int)
    (h0 : 0 < A) (hN : N < 2 ^ 64) (hf1 : -P.N ≤ first) (hf2 : first ≤ 0) (hfit : metaEnd P buf first < 2 ^ 64) :
    metaRangesTr S A N buf first = metaRanges P buf first := by
  obtain ⟨_, e2, e3, e4, e5⟩ := tr_positions P S A N hp buf first h0 hN hf1 hf2 hfit
  unfold metaRangesTr metaRanges
  rw [e2, e3, e4, e5]

end Momo.TrEq
