import Momo.Model.MMap
/-!
  C08, part 1: the value array of HashMultiMap (`details/ArrayBucket.h`) as a machine.
  * the state byte `(pool << 4) | count` round-trips and its `+1` / `-1` updates stay inside the count
    nibble for every pool index and count below `maxFastCount < 16` (`state_facts`);
  * the representation invariant `VArr.WF` (none ⇒ no items; fast ⇒ state = mkState pool count with
    1 ≤ count ≤ pool ≤ maxFast and exactly `count` constructed items; heap ⇒ 1 ≤ count ≤ capacity) is
    kept by `AddBackCrt`, `RemoveBack`, `Remove`, the copy constructor and the predicate scan;
  * each operation refines its list-level specification (`++ [v]`, `swapRemove`, `swapFilter`, identity).
-/
namespace Momo.MMap
open Momo
/-! ### the state byte -/

theorem state_table : ∀ p : Fin 16, ∀ c : Fin 16,
    mkState p c < 256 ∧ statePool (mkState p c) = p ∧ stateCount (mkState p c) = c ∧
    (p.val ≠ 0 → mkState p c ≠ 0) ∧
    (c.val < p.val → toByte (mkState p c + 1) = mkState p (c + 1)) ∧
    (0 < c.val → toByte (mkState p c + 255) = mkState p (c - 1)) := by decide

/-- all facts about the state byte used below, for every pool index and count below the limit the
    header asserts (`maxFastCount < 16`) -/
theorem state_facts (p c : Nat) (hp : p < Extracted.abMaxFastLimit) (hc : c < Extracted.abMaxFastLimit) :
    mkState p c < 256 ∧ statePool (mkState p c) = p ∧ stateCount (mkState p c) = c ∧
    (p ≠ 0 → mkState p c ≠ 0) ∧
    (c < p → toByte (mkState p c + 1) = mkState p (c + 1)) ∧
    (0 < c → toByte (mkState p c + 255) = mkState p (c - 1)) := by
  simp only [Extracted.abMaxFastLimit] at hp hc
  exact state_table ⟨p, hp⟩ ⟨c, hc⟩

/-! ### list-level specification of the value array operations -/

/-- `Remove` of position `i`: the last value moves into the hole -/
def swapRemove (l : List Nat) (i : Nat) : List Nat :=
  match l.getLast? with
  | none => l
  | some x => (l.set i x).dropLast

/-- what `Remove(pairFilter)` leaves of one value list, scanning from index `i` -/
def swapFilter (p : Nat → Bool) : Nat → List Nat → Nat → List Nat
  | 0, l, _ => l
  | fuel + 1, l, i =>
    match l[i]? with
    | none => l
    | some v => if p v then swapFilter p fuel (swapRemove l i) i else swapFilter p fuel l (i + 1)

/-! ### representation invariant -/

/-- well-formed value array for `maxFastCount = mf` -/
def VArr.WF (mf : Nat) (a : VArr) : Prop :=
  match a.rep with
  | .none => a.items = []
  | .fast s => ∃ p c, s = mkState p c ∧ 1 ≤ c ∧ c ≤ p ∧ p ≤ mf ∧ a.items.length = c
  | .heap cap => 1 ≤ a.items.length ∧ a.items.length ≤ cap

theorem VArr.empty_wf (mf : Nat) : VArr.empty.WF mf := by simp [VArr.WF, VArr.empty]

variable {mf : Nat}

theorem VArr.WF.count_eq {a : VArr} (hmf : mf < Extracted.abMaxFastLimit) (h : a.WF mf) :
    a.count = a.items.length := by
  unfold VArr.WF at h
  unfold VArr.count
  split <;> simp_all
  · obtain ⟨p, c, rfl, h1, h2, h3, h4⟩ := h
    have := state_facts p c (by omega) (by omega)
    omega

theorem VArr.WF.bounds_eq {a : VArr} (hmf : mf < Extracted.abMaxFastLimit) (h : a.WF mf) :
    a.bounds = a.items := by
  unfold VArr.bounds; rw [h.count_eq hmf]; simp

theorem growCap_ge (cap minNew : Nat) : minNew ≤ growCap cap minNew := by
  unfold growCap; split <;> omega

theorem shrinkCap_ge (cap cnt req : Nat) (h : cnt ≤ cap) : cnt ≤ shrinkCap cap cnt req := by
  unfold shrinkCap; split; · exact h
  split <;> omega


/-! ### AddBackCrt -/

theorem VArr.addBack_spec {a : VArr} (h1 : 1 ≤ mf) (hmf : mf < Extracted.abMaxFastLimit) (h : a.WF mf) (v : Nat) :
    (a.addBack mf v).WF mf ∧ (a.addBack mf v).items = a.items ++ [v] := by
  obtain ⟨rep, items⟩ := a
  cases rep with
  | none =>
    simp only [VArr.WF] at h
    subst h
    refine ⟨?_, by simp [VArr.addBack]⟩
    simp only [VArr.addBack, VArr.WF]
    exact ⟨1, 1, rfl, by omega, by omega, h1, by simp⟩
  | fast s =>
    simp only [VArr.WF] at h
    obtain ⟨p, c, rfl, hc1, hcp, hpm, hlen⟩ := h
    obtain ⟨_, hP, hC, _, hInc, _⟩ := state_facts p c (by omega) (by omega)
    simp only [VArr.addBack, hP, hC]
    have htake : items.take c = items := by rw [← hlen]; simp
    by_cases hcp' : c = p
    · subst hcp'
      simp only [if_true]
      by_cases hm : c + 1 ≤ mf
      · simp only [hm, if_true, htake]
        refine ⟨?_, trivial⟩
        simp only [VArr.WF]
        exact ⟨c + 1, c + 1, rfl, by omega, by omega, hm, by simp [hlen]⟩
      · simp only [hm, if_false, htake]
        refine ⟨?_, trivial⟩
        simp only [VArr.WF, Extracted.abHeapCapMul, List.length_append, List.length_cons, List.length_nil, hlen]
        omega
    · simp only [hcp', if_false, htake]
      refine ⟨?_, trivial⟩
      simp only [VArr.WF]
      exact ⟨p, c + 1, hInc (by omega), by omega, by omega, hpm, by simp [hlen]⟩
  | heap cap =>
    simp only [VArr.WF] at h
    simp only [VArr.addBack]
    by_cases hlt : items.length < cap
    · simp only [hlt, if_true]
      refine ⟨?_, trivial⟩
      simp only [VArr.WF, List.length_append, List.length_cons, List.length_nil]; omega
    · simp only [hlt, if_false]
      refine ⟨?_, trivial⟩
      have := growCap_ge cap (items.length + 1)
      simp only [VArr.WF, List.length_append, List.length_cons, List.length_nil]; omega

theorem VArr.addBack_wf {a : VArr} (h1 : 1 ≤ mf) (hmf : mf < Extracted.abMaxFastLimit) (h : a.WF mf) (v : Nat) :
    (a.addBack mf v).WF mf := (VArr.addBack_spec h1 hmf h v).1

theorem VArr.addBack_bounds {a : VArr} (h1 : 1 ≤ mf) (hmf : mf < Extracted.abMaxFastLimit) (h : a.WF mf) (v : Nat) :
    (a.addBack mf v).bounds = a.bounds ++ [v] := by
  rw [(VArr.addBack_wf h1 hmf h v).bounds_eq hmf, h.bounds_eq hmf, (VArr.addBack_spec h1 hmf h v).2]

/-! ### RemoveBack / Remove -/

theorem VArr.removeBack_spec {a : VArr} (hmf : mf < Extracted.abMaxFastLimit) (h : a.WF mf) (sf : Bool) :
    (a.removeBack sf).WF mf ∧ (a.removeBack sf).items = a.items.dropLast := by
  have hcnt := h.count_eq hmf
  obtain ⟨rep, items⟩ := a
  unfold VArr.removeBack
  by_cases hone : (VArr.mk rep items).count = 1
  · simp only [hone, if_true]
    refine ⟨VArr.empty_wf mf, ?_⟩
    simp only [VArr.empty]
    rw [hcnt] at hone
    match items, hone with
    | [x], _ => rfl
  · simp only [hone, if_false]
    cases rep with
    | none =>
      simp only [VArr.WF] at h; subst h; exact ⟨by simp [VArr.WF], rfl⟩
    | fast s =>
      simp only [VArr.WF] at h
      obtain ⟨p, c, rfl, hc1, hcp, hpm, hlen⟩ := h
      obtain ⟨_, hP, hC, _, _, hDec⟩ := state_facts p c (by omega) (by omega)
      simp only [VArr.count, hC] at hone
      dsimp only
      simp only [hC]
      have hdl : items.take (c - 1) = items.dropLast := by rw [List.dropLast_eq_take, hlen]
      refine ⟨?_, hdl⟩
      simp only [VArr.WF]
      exact ⟨p, c - 1, hDec (by omega), by omega, by omega, hpm, by simp [hlen]⟩
    | heap cap =>
      simp only [VArr.WF] at h
      simp only [VArr.count] at hone
      dsimp only
      by_cases hsh : Extracted.abShrinkMinCount < items.length ∧ items.length ≤ cap / Extracted.abShrinkDiv ∧ sf = false
      · simp only [hsh, and_self, if_true]
        refine ⟨?_, trivial⟩
        have := shrinkCap_ge cap (items.length - 1) (items.length * Extracted.abShrinkMul) (by omega)
        simp only [VArr.WF, List.length_dropLast]; omega
      · simp only [hsh, if_false]
        refine ⟨?_, trivial⟩
        simp only [VArr.WF, List.length_dropLast]; omega

theorem swapRemove_eq (l : List Nat) (i : Nat) (x : Nat) (hx : l.getLast? = some x) :
    swapRemove l i = (l.set i x).dropLast := by simp [swapRemove, hx]

theorem VArr.removeAt_spec {a : VArr} (hmf : mf < Extracted.abMaxFastLimit) (h : a.WF mf) (i : Nat) (sf : Bool) :
    (a.removeAt i sf).WF mf ∧ (a.removeAt i sf).bounds = swapRemove a.bounds i := by
  have hb := h.bounds_eq hmf
  unfold VArr.removeAt
  rw [hb]
  cases hl : a.items.getLast? with
  | none => simp only [swapRemove, hl]; exact ⟨h, hb⟩
  | some last =>
    simp only [swapRemove, hl]
    have hwf' : (VArr.mk a.rep (a.items.set i last)).WF mf := by
      unfold VArr.WF at h ⊢
      cases hr : a.rep <;> simp_all
    obtain ⟨hw, hi⟩ := VArr.removeBack_spec hmf hwf' sf
    exact ⟨hw, by rw [hw.bounds_eq hmf, hi]⟩

theorem swapRemove_last (A : List Nat) (v : Nat) : swapRemove (A ++ [v]) A.length = A := by
  simp [swapRemove]

theorem swapRemove_mid (A B : List Nat) (v x : Nat) :
    swapRemove (A ++ v :: (B ++ [x])) A.length = A ++ x :: B := by
  have h1 : (A ++ v :: (B ++ [x])).getLast? = some x := by
    rw [show A ++ v :: (B ++ [x]) = (A ++ v :: B) ++ [x] by simp]
    exact List.getLast?_concat ..
  simp only [swapRemove, h1]
  rw [List.set_append_right _ _ (Nat.le_refl _)]
  simp
  rw [show x :: (B ++ [x]) = (x :: B) ++ [x] by simp, List.dropLast_concat]


/-- every list with an element at index `i` splits around it -/
theorem split_at (l : List Nat) (i : Nat) (v : Nat) (h : l[i]? = some v) :
    ∃ A B, l = A ++ v :: B ∧ A.length = i := by
  refine ⟨l.take i, l.drop (i + 1), ?_, ?_⟩
  · have hi : i < l.length := by
      rcases Nat.lt_or_ge i l.length with h' | h'
      · exact h'
      · rw [List.getElem?_eq_none h'] at h; cases h
    have : l[i] = v := by rw [List.getElem?_eq_getElem hi] at h; exact Option.some.inj h
    rw [← this]; simp
  · have hi : i < l.length := by
      rcases Nat.lt_or_ge i l.length with h' | h'
      · exact h'
      · rw [List.getElem?_eq_none h'] at h; cases h
    simp [List.length_take]; omega

/-- with enough fuel the scan keeps exactly the values that fail the predicate (as a multiset), the
    first `i` values untouched -/
theorem swapFilter_perm (p : Nat → Bool) : ∀ (fuel : Nat) (A B : List Nat), B.length ≤ fuel →
    (swapFilter p fuel (A ++ B) A.length).Perm (A ++ B.filter (fun v => !p v)) := by
  intro fuel
  induction fuel with
  | zero => intro A B h; have : B = [] := List.length_eq_zero_iff.mp (by omega); subst this; simp [swapFilter]
  | succ n ih =>
    intro A B h
    cases B with
    | nil => simp [swapFilter]
    | cons v B =>
      have hget : (A ++ v :: B)[A.length]? = some v := by simp
      simp only [swapFilter, hget]
      by_cases hp : p v = true
      · simp only [hp, if_true, List.filter_cons, Bool.not_true, Bool.false_eq_true, if_false]
        rcases List.eq_nil_or_concat B with rfl | ⟨B', x, rfl⟩
        · rw [swapRemove_last]
          have := ih A [] (by simp)
          simpa using this
        · rw [List.concat_eq_append] at h ⊢
          rw [swapRemove_mid]
          have := ih A (x :: B') (by simp at h ⊢; omega)
          refine this.trans ?_
          refine List.Perm.append_left A ?_
          have : (x :: B').Perm (B' ++ [x]) := by simpa using (List.perm_append_singleton x B').symm
          exact this.filter _
      · have hp' : p v = false := by simpa using hp
        simp only [hp', Bool.false_eq_true, if_false, List.filter_cons, Bool.not_false, if_true]
        have := ih (A ++ [v]) B (by simp at h ⊢; omega)
        simpa using this


theorem swapFilter_all_perm (p : Nat → Bool) (l : List Nat) :
    (swapFilter p l.length l 0).Perm (l.filter (fun v => !p v)) := by
  simpa using swapFilter_perm p l.length [] l (Nat.le_refl _)

theorem countP_not_add (p : Nat → Bool) (l : List Nat) :
    (l.filter (fun v => !p v)).length + l.countP p = l.length := by
  induction l with
  | nil => simp
  | cons x xs ih =>
    by_cases hx : p x = true
    · simp [hx]; omega
    · have hx' : p x = false := by simpa using hx
      simp [hx']; omega

theorem swapFilter_length (p : Nat → Bool) (l : List Nat) :
    (swapFilter p l.length l 0).length + l.countP p = l.length := by
  rw [(swapFilter_all_perm p l).length_eq]
  exact countP_not_add p l

/-! ### copy constructor, predicate scan -/

theorem VArr.copy_spec {a : VArr} (hmf : mf < Extracted.abMaxFastLimit) (_h : a.WF mf) :
    (a.copy mf).WF mf ∧ (a.copy mf).bounds = a.bounds := by
  unfold VArr.copy
  by_cases h0 : a.bounds.length = 0
  · simp only [h0, if_true]
    have : a.bounds = [] := List.length_eq_zero_iff.mp h0
    exact ⟨VArr.empty_wf mf, by rw [this]; simp [VArr.bounds, VArr.empty, VArr.count]⟩
  · simp only [h0, if_false]
    by_cases h1 : a.bounds.length ≤ mf
    · simp only [h1, if_true]
      have hw : (VArr.mk (.fast (mkState a.bounds.length a.bounds.length)) a.bounds).WF mf := by
        simp only [VArr.WF]
        exact ⟨_, _, rfl, by omega, Nat.le_refl _, h1, rfl⟩
      exact ⟨hw, hw.bounds_eq hmf⟩
    · simp only [h1, if_false]
      have hw : (VArr.mk (.heap a.bounds.length) a.bounds).WF mf := by
        simp only [VArr.WF]; omega
      exact ⟨hw, hw.bounds_eq hmf⟩

theorem VArr.removeIf_spec (p : Nat → Bool) (hmf : mf < Extracted.abMaxFastLimit) :
    ∀ (fuel : Nat) (a : VArr) (i : Nat), a.WF mf →
      (VArr.removeIf p fuel a i).WF mf ∧ (VArr.removeIf p fuel a i).bounds = swapFilter p fuel a.bounds i := by
  intro fuel
  induction fuel with
  | zero => intro a i h; exact ⟨h, rfl⟩
  | succ n ih =>
    intro a i h
    simp only [VArr.removeIf, swapFilter]
    cases hg : a.bounds[i]? with
    | none => exact ⟨h, rfl⟩
    | some v =>
      dsimp only
      by_cases hp : p v = true
      · simp only [hp, if_true]
        obtain ⟨hw, hb⟩ := VArr.removeAt_spec hmf h i false
        obtain ⟨hw2, hb2⟩ := ih (a.removeAt i false) i hw
        exact ⟨hw2, by rw [hb2, hb]⟩
      · simp only [hp]
        exact ih a (i + 1) h

/-! ### what the representation tag says -/

/-- `mPtr == nullptr` exactly when the key has no values: memory is released with the last value -/
theorem VArr.WF.none_iff {a : VArr} (hmf : mf < Extracted.abMaxFastLimit) (h : a.WF mf) :
    a.rep = .none ↔ a.bounds = [] := by
  rw [h.bounds_eq hmf]
  unfold VArr.WF at h
  cases hr : a.rep with
  | none => simp [hr] at h; simp [h]
  | fast s =>
    simp only [hr] at h
    obtain ⟨p, c, _, hc1, _, _, hlen⟩ := h
    constructor
    · intro hh; cases hh
    · intro hh; rw [hh] at hlen; simp at hlen; omega
  | heap cap =>
    simp only [hr] at h
    constructor
    · intro hh; cases hh
    · intro hh; rw [hh] at h; simp at h

/-- a fast array never holds more items than its pool block has room for, and its pool index never
    exceeds `maxFastCount`; a heap array never exceeds its capacity -/
theorem VArr.WF.fits {a : VArr} (hmf : mf < Extracted.abMaxFastLimit) (h : a.WF mf) :
    match a.rep with
    | .none => a.count = 0
    | .fast s => a.count = stateCount s ∧ 1 ≤ stateCount s ∧ stateCount s ≤ statePool s ∧ statePool s ≤ mf
                  ∧ s = mkState (statePool s) (stateCount s) ∧ s < 256 ∧ s ≠ 0
    | .heap cap => 1 ≤ a.count ∧ a.count ≤ cap := by
  have hc := h.count_eq hmf
  unfold VArr.WF at h
  cases hr : a.rep with
  | none => simp only [hr] at h ⊢; rw [hc, h]; rfl
  | fast s =>
    simp only [hr] at h ⊢
    obtain ⟨p, c, rfl, hc1, hcp, hpm, hlen⟩ := h
    obtain ⟨hlt, hP, hC, hne, _, _⟩ := state_facts p c (by omega) (by omega)
    rw [hP, hC]
    exact ⟨by simp [VArr.count, hr, hC], hc1, hcp, hpm, rfl, hlt, hne (by omega)⟩
  | heap cap =>
    simp only [hr] at h ⊢
    rw [hc]; exact h

end Momo.MMap
