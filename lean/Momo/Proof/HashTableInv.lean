import Momo.Proof.HashTableBasic
/-!
  C01/C11, part 3: the invariants (`SpecOK`, `GenInv`, `TableCore`, `TableInv`) and
  lookup = membership (`findGen_*`, `findTable_*`): port of prototype A.5 to the model.
-/
namespace Momo.HT
open Momo Momo.Probe

/-- what a bucket description must satisfy for the theorems (all bucket kinds of the library do:
    `Driver.HashTable.mkSpec`, see `Props/C01.lean`) -/
structure SpecOK (sp : Spec) : Prop where
  maxPos : 0 < sp.maxCount
  /-- `WasFull` has turned true at the latest when the bucket is full -/
  fullLe : sp.unlimited = false → sp.fullFrom ≤ sp.maxCount
  /-- only the unlimited bucket (UnlimP) may answer `GetMaxProbe = 0` -/
  zeroUnl : sp.bound = .zero → sp.unlimited = true
  /-- the capacity rule never promises more than the slots that exist -/
  capLe : sp.unlimited = false → ∀ L, capacityOf sp L ≤ 2 ^ L * sp.maxCount
  /-- the capacity rule grows with the bucket count (what `MOMO_CHECK(nextCapacity > newCapacity)` in `pvAddGrow`,
      HashSet.h:1140, tests) -/
  capMono : ∀ L, capacityOf sp L < capacityOf sp (L + 1)

theorem div_lt_double (Y den : Nat) (hd : 0 < den) (h : den ≤ 2 * Y) : Y / den < 2 * Y / den := by
  rw [Nat.lt_iff_add_one_le, Nat.le_div_iff_mul_le hd]
  have h1 := Nat.div_mul_le_self Y den
  by_cases hY : Y < den
  · rw [Nat.div_eq_of_lt hY]; omega
  · rw [Nat.add_mul]; omega

/-- the capacity rules of the library grow strictly with the bucket count: `HashBucketBase::CalcCapacity` for every
    `maxCount`, the load-factor rules `floor(n·maxCount·num/den)` whenever the smallest table (one bucket) already has a load
    factor of at least one half of an item (`den ≤ 2·maxCount·num`; 11/12, 5/6, 13/14 with `maxCount ≥ 1`) -/
theorem capacityOf_mono (sp : Spec)
    (h : ∀ num den, sp.cap = .ratio num den → 0 < den ∧ den ≤ 2 * (sp.maxCount * num)) :
    ∀ L, capacityOf sp L < capacityOf sp (L + 1) := by
  intro L
  unfold capacityOf
  simp only [Nat.pow_succ]
  have hN : 0 < 2 ^ L := Nat.two_pow_pos L
  generalize 2 ^ L = N at hN
  cases hc : sp.cap with
  | base =>
    simp only
    split
    · have e : N * 2 * 5 = 2 * (N * 5) := by omega
      rw [e]; exact div_lt_double _ _ (by decide) (by omega)
    · split <;> omega
  | ratio num den =>
    simp only
    obtain ⟨hd, hle⟩ := h num den hc
    have e : N * 2 * sp.maxCount * num = 2 * (N * sp.maxCount * num) := by ac_rfl
    rw [e]
    apply div_lt_double _ _ hd
    have : sp.maxCount * num ≤ N * sp.maxCount * num := by
      rw [Nat.mul_assoc]; exact Nat.le_mul_of_pos_left _ hN
    omega

/-- home bucket of a key in a generation -/
def homeOf (hf : Nat → Nat) (g : Gen) (k : Nat) : Nat := start g.L (hf k)

theorem homeOf_lt (hf : Nat → Nat) (g : Gen) (k : Nat) : homeOf hf g k < 2 ^ g.L := start_lt _ _

/-- invariant of one bucket array (DESIGN.md C01: I1, I2, I5 and the encoder states) -/
structure GenInv (sp : Spec) (hf : Nat → Nat) (g : Gen) : Prop where
  len : g.bs.length = 2 ^ g.L
  size : sp.unlimited = false → ∀ i, (bkt sp g.bs i).items.length ≤ sp.maxCount
  full : ∀ i, isFull sp (bkt sp g.bs i) = true → (bkt sp g.bs i).wasFull = true
  /-- placement: an item sits at displacement `p` of its home bucket, the home bucket's bound
      covers `p`, and every earlier bucket of the path has `WasFull` -/
  place : ∀ i it, it ∈ (bkt sp g.bs i).items →
    ∃ p, i = pseq sp g.L (homeOf hf g it.key) p ∧
      p ≤ maxProbe sp g.L (bkt sp g.bs (homeOf hf g it.key)) ∧
      ∀ q, q < p → (bkt sp g.bs (pseq sp g.L (homeOf hf g it.key) q)).wasFull = true
  enc : ∀ i, BstOK sp (bkt sp g.bs i)

/-- table invariant without the "one generation when relocation cannot fail" clause
    (this is what holds in the middle of `pvAdd`, between `pvAddGrow` and `pvRelocateItems`) -/
structure TableCore (sp : Spec) (hf : Nat → Nat) (t : Table) : Prop where
  gens : ∀ g ∈ t.gens, GenInv sp hf g
  nodup : ((traverse t).map (·.key)).Nodup
  count : t.count = (traverse t).length
  capLe : sp.unlimited = false → ∀ g rest, t.gens = g :: rest → t.cap ≤ 2 ^ g.L * sp.maxCount
  capNil : t.gens = [] → t.cap = 0

/-- the table invariant (DESIGN.md C01: I1–I5, I7) -/
structure TableInv (sp : Spec) (hf : Nat → Nat) (t : Table) : Prop where
  core : TableCore sp hf t
  single : sp.nothrowReloc = true → t.gens.length ≤ 1

/-! ### empty structures -/

theorem bkt_replicate (sp : Spec) (n i : Nat) :
    bkt sp (List.replicate n (emptyBucket sp)) i = emptyBucket sp := by
  unfold bkt
  by_cases h : i < n
  · simp [List.getD_eq_getElem?_getD, h]
  · simp [List.getD_eq_getElem?_getD, Nat.le_of_not_lt h]

theorem isFull_empty (sp : Spec) (ok : SpecOK sp) : isFull sp (emptyBucket sp) = false := by
  unfold isFull; have := ok.maxPos
  cases sp.unlimited
  · simp; omega
  · simp

theorem emptyGen_inv (sp : Spec) (hf : Nat → Nat) (ok : SpecOK sp) (L : Nat) :
    GenInv sp hf (emptyGen sp L) where
  len := by simp [emptyGen]
  size := by intro _ i; simp [emptyGen, bkt_replicate]
  full := by
    intro i h; simp only [emptyGen, bkt_replicate] at h
    rw [isFull_empty sp ok] at h; cases h
  place := by intro i it h; simp [emptyGen, bkt_replicate] at h
  enc := by intro i; simp only [emptyGen, bkt_replicate]; exact emptyBucket_bstOK sp

@[simp] theorem genItems_emptyGen (sp : Spec) (L : Nat) : genItems (emptyGen sp L) = [] := by
  unfold genItems emptyGen
  simp only [List.map_replicate, emptyBucket_items, List.reverse_nil]
  induction 2 ^ L with
  | zero => rfl
  | succ n ih => simp [List.replicate_succ, ih]

@[simp] theorem emptyGen_L (sp : Spec) (L : Nat) : (emptyGen sp L).L = L := rfl

theorem emptyTable_core (sp : Spec) (hf : Nat → Nat) : TableCore sp hf emptyTable where
  gens := by intro g h; simp [emptyTable] at h
  nodup := by simp [emptyTable, traverse]
  count := by simp [emptyTable, traverse]
  capLe := by intro _ g rest h; simp [emptyTable] at h
  capNil := fun _ => rfl

theorem emptyTable_inv (sp : Spec) (hf : Nat → Nat) : TableInv sp hf emptyTable :=
  ⟨emptyTable_core sp hf, fun _ => by simp [emptyTable]⟩

/-! ### traversal membership -/

theorem mem_traverse (t : Table) (it : Item) : it ∈ traverse t ↔ ∃ g ∈ t.gens, it ∈ genItems g := by
  rw [traverse_eq]; simp only [List.mem_flatten, List.mem_map]
  constructor
  · rintro ⟨l, ⟨g, hg, rfl⟩, h⟩; exact ⟨g, hg, h⟩
  · rintro ⟨g, hg, h⟩; exact ⟨_, ⟨g, hg, rfl⟩, h⟩

/-! ### lookup in one generation (`pvFind`, static overload) -/

theorem findLoop_sound (sp : Spec) (g : Gen) (k maxP : Nat) :
    ∀ fuel probe idx b j, findLoop sp g k maxP fuel probe idx = some (b, j) →
      keyIdx (bkt sp g.bs b).items k = some j := by
  intro fuel
  induction fuel with
  | zero => intro _ _ _ _ h; simp [findLoop] at h
  | succ f ih =>
    intro probe idx b j h
    simp only [findLoop] at h
    split at h
    · split at h
      · rename_i j' hk
        simp only [Option.some.injEq, Prod.mk.injEq] at h
        obtain ⟨rfl, rfl⟩ := h; exact hk
      · exact ih _ _ _ _ h
    · simp at h

theorem findLoop_complete (sp : Spec) (g : Gen) (k home M p : Nat)
    (hk : (keyIdx (bkt sp g.bs (pseq sp g.L home p)).items k).isSome) (hpM : p ≤ M)
    (hfull : ∀ q, q < p → (bkt sp g.bs (pseq sp g.L home q)).wasFull = true) :
    ∀ (j fuel : Nat), j < p → p - j ≤ fuel →
      (findLoop sp g k M fuel (j + 1) (pseq sp g.L home j)).isSome := by
  intro j fuel
  induction fuel generalizing j with
  | zero => intro hj hf; omega
  | succ f ih =>
    intro hj hf
    have hw := hfull j hj
    have hle : j + 1 ≤ M := by omega
    simp only [findLoop, hw, hle, decide_true, Bool.and_self, if_true, pseq_succ]
    cases hmem : keyIdx (bkt sp g.bs (pseq sp g.L home (j + 1))).items k with
    | some j' => simp
    | none =>
      simp only
      by_cases hjp : j + 1 = p
      · subst hjp; rw [hmem] at hk; simp at hk
      · exact ih (j + 1) (by omega) (by omega)

/-- a reported position really holds the key (no invariant needed) -/
theorem findGen_some (sp : Spec) (g : Gen) (h k b j : Nat) (hfnd : findGen sp g h k = some (b, j)) :
    ∃ it, (bkt sp g.bs b).items[j]? = some it ∧ it.key = k := by
  unfold findGen at hfnd
  simp only at hfnd
  split at hfnd
  · rename_i j' hk
    simp only [Option.some.injEq, Prod.mk.injEq] at hfnd
    obtain ⟨rfl, rfl⟩ := hfnd
    exact keyIdx_some _ _ _ hk
  · exact keyIdx_some _ _ _ (findLoop_sound sp g k _ _ _ _ _ _ hfnd)

/-- **lookup = membership, one generation**: under the invariant a key stored anywhere in the
    bucket array is found — for every probing rule, bound encoder and hash function -/
theorem findGen_none (sp : Spec) (hf : Nat → Nat) (g : Gen) (hI : GenInv sp hf g) (k : Nat)
    (hfnd : findGen sp g (hf k) k = none) : ∀ it ∈ genItems g, it.key ≠ k := by
  intro it hit hkey
  obtain ⟨i, hi⟩ := (mem_genItems sp g it).mp hit
  obtain ⟨p, hp, hb, hq⟩ := hI.place i it hi
  rw [hkey] at hp hb hq
  have hsome : (keyIdx (bkt sp g.bs i).items k).isSome :=
    (keyIdx_isSome_iff _ _).mpr ⟨it, hi, hkey⟩
  unfold findGen at hfnd
  simp only at hfnd
  split at hfnd
  · simp at hfnd
  · rename_i hnone
    change keyIdx (bkt sp g.bs (homeOf hf g k)).items k = none at hnone
    cases p with
    | zero =>
      rw [hp, pseq_zero, hnone] at hsome; simp at hsome
    | succ p' =>
      rw [hp] at hsome
      have := findLoop_complete sp g k (homeOf hf g k) _ (p' + 1) hsome hb hq 0
        (maxProbe sp g.L (bkt sp g.bs (homeOf hf g k)) + 1) (by omega) (by omega)
      simp only [pseq_zero, Nat.zero_add] at this
      have hfnd' : findLoop sp g k (maxProbe sp g.L (bkt sp g.bs (homeOf hf g k)))
          (maxProbe sp g.L (bkt sp g.bs (homeOf hf g k)) + 1) 1 (homeOf hf g k) = none := hfnd
      rw [hfnd'] at this; simp at this

theorem findGen_iff (sp : Spec) (hf : Nat → Nat) (g : Gen) (hI : GenInv sp hf g) (k : Nat) :
    (findGen sp g (hf k) k).isSome ↔ k ∈ (genItems g).map (·.key) := by
  constructor
  · intro h
    cases hfnd : findGen sp g (hf k) k with
    | none => simp [hfnd] at h
    | some r =>
      obtain ⟨b, j⟩ := r
      obtain ⟨it, hj, hk⟩ := findGen_some sp g _ k b j hfnd
      exact List.mem_map.mpr ⟨it, (mem_genItems sp g it).mpr ⟨b, List.mem_of_getElem? hj⟩, hk⟩
  · intro h
    obtain ⟨it, hit, hk⟩ := List.mem_map.mp h
    cases hfnd : findGen sp g (hf k) k with
    | none => exact absurd hk (findGen_none sp hf g hI k hfnd it hit)
    | some r => rfl

/-! ### lookup in the table (`pvFind(key)`: newest generation first) -/

theorem findTable_go_some (sp : Spec) (hf : Nat → Nat) (k : Nat) :
    ∀ (gens : List Gen) (gi gi' b j : Nat), findTable.go sp hf k gi gens = some (gi', b, j) →
      ∃ g it, gi ≤ gi' ∧ gens[gi' - gi]? = some g ∧ (bkt sp g.bs b).items[j]? = some it ∧ it.key = k := by
  intro gens
  induction gens with
  | nil => intro gi gi' b j h; simp [findTable.go] at h
  | cons g rest ih =>
    intro gi gi' b j h
    simp only [findTable.go] at h
    split at h
    · rename_i b' j' hfnd
      simp only [Option.some.injEq, Prod.mk.injEq] at h
      obtain ⟨rfl, rfl, rfl⟩ := h
      obtain ⟨it, hj, hk⟩ := findGen_some sp g _ k _ _ hfnd
      exact ⟨g, it, Nat.le_refl _, by simp, hj, hk⟩
    · split at h
      · simp at h
      · obtain ⟨g', it, hle, hg, hj, hk⟩ := ih (gi + 1) gi' b j h
        refine ⟨g', it, by omega, ?_, hj, hk⟩
        have : gi' - gi = (gi' - (gi + 1)) + 1 := by omega
        rw [this]; simpa using hg

theorem findTable_go_none (sp : Spec) (hf : Nat → Nat) (k : Nat) :
    ∀ (gens : List Gen) (gi : Nat), (∀ g ∈ gens, GenInv sp hf g) →
      (sp.nothrowReloc = true → gens.length ≤ 1) →
      findTable.go sp hf k gi gens = none → ∀ g ∈ gens, ∀ it ∈ genItems g, it.key ≠ k := by
  intro gens
  induction gens with
  | nil => intro _ _ _ _ g hg; simp at hg
  | cons g rest ih =>
    intro gi hI hs h g' hg'
    simp only [findTable.go] at h
    split at h
    · simp at h
    · rename_i hnone
      have hg0 := findGen_none sp hf g (hI g (by simp)) k hnone
      rcases List.mem_cons.mp hg' with rfl | hin
      · exact hg0
      · split at h
        · rename_i hnr
          have := hs hnr
          have : rest = [] := by
            cases rest with
            | nil => rfl
            | cons _ _ => simp at this
          subst this; simp at hin
        · rename_i hnr
          exact ih (gi + 1) (fun g hg => hI g (by simp [hg])) (fun h' => absurd h' hnr) h g' hin

/-- a position returned by `pvFind` holds an item with the key -/
theorem findTable_some (sp : Spec) (hf : Nat → Nat) (t : Table) (k gi b j : Nat)
    (h : findTable sp hf t k = some (gi, b, j)) :
    ∃ g it, t.gens[gi]? = some g ∧ (bkt sp g.bs b).items[j]? = some it ∧ it.key = k := by
  unfold findTable at h
  split at h
  · simp at h
  · obtain ⟨g, it, _, hg, hj, hk⟩ := findTable_go_some sp hf k t.gens 0 gi b j h
    exact ⟨g, it, by simpa using hg, hj, hk⟩

/-- a key that `pvFind` does not find is in no generation -/
theorem findTable_none (sp : Spec) (hf : Nat → Nat) (t : Table) (hI : TableInv sp hf t) (k : Nat)
    (h : findTable sp hf t k = none) : ∀ it ∈ traverse t, it.key ≠ k := by
  intro it hit
  unfold findTable at h
  split at h
  · rename_i h0
    have hc := hI.core.count
    have : t.count = 0 := by simpa using h0
    rw [this] at hc
    have : traverse t = [] := List.eq_nil_of_length_eq_zero hc.symm
    rw [this] at hit; simp at hit
  · obtain ⟨g, hg, hig⟩ := (mem_traverse t it).mp hit
    exact findTable_go_none sp hf k t.gens 0 hI.core.gens hI.single h g hg it hig

/-- **lookup = membership, whole table** (any number of coexisting generations) -/
theorem findTable_spec (sp : Spec) (hf : Nat → Nat) (t : Table) (hI : TableInv sp hf t) (k : Nat) :
    (findTable sp hf t k).isSome ↔ k ∈ (traverse t).map (·.key) := by
  constructor
  · intro h
    cases hfnd : findTable sp hf t k with
    | none => simp [hfnd] at h
    | some r =>
      obtain ⟨gi, b, j⟩ := r
      obtain ⟨g, it, hg, hj, hk⟩ := findTable_some sp hf t k gi b j hfnd
      refine List.mem_map.mpr ⟨it, (mem_traverse t it).mpr ⟨g, List.mem_of_getElem? hg, ?_⟩, hk⟩
      exact (mem_genItems sp g it).mpr ⟨b, List.mem_of_getElem? hj⟩
  · intro h
    obtain ⟨it, hit, hk⟩ := List.mem_map.mp h
    cases hfnd : findTable sp hf t k with
    | none => exact absurd hk (findTable_none sp hf t hI k hfnd it hit)
    | some r => rfl

end Momo.HT
