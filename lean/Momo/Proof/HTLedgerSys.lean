import Momo.Proof.HTLedgerOps
/-!
  C03 / C04 for the hash family, part 4: constructors, `MergeTo`, and the system of two containers and a node handle -
  every history under every fault schedule keeps the verified monitor on the books, and the end of the history leaves it
  empty.
-/
namespace Momo.HTL
open Momo Momo.HT Momo.Ledger

/-! ### constructors -/

/-- what a constructor does to the ledger: a failed one leaves it as it was -/
def CtorPost (cfg : Cfg) (FB : List Blk) (FE : List Nat) : Option St × W → Prop
  | (none, w') => Led w' FB FE
  | (some st', w') => Led w' (st'.blocks cfg ++ FB) (st'.elems ++ FE) ∧ BooksOK st'

theorem newL_led (cfg : Cfg) (f : Flt) (w : W) (FB : List Blk) (FE : List Nat) (h : Led w FB FE) :
    CtorPost cfg FB FE (newL cfg f w) := by
  unfold newL
  split
  · exact ⟨by simpa [St.blocks_eq, St.elems, optL] using h, BooksOK.init⟩
  · split
    · exact h
    · obtain ⟨h1, h2⟩ := h.alloc cfg.mgr cfg.csz
      refine ⟨?_, ⟨rfl, fun _ => ⟨rfl, rfl, rfl⟩⟩⟩
      rw [h2]
      simpa [St.blocks_eq, St.elems, optL] using h1

theorem copyItems_led (cfg : Cfg) (hf : Nat → Nat) (src : Els) (B : List Blk) (FE : List Nat)
    (hsrc : ∀ k e, lookE src k = some e → e ∈ FE) :
    ∀ (items : List Item) (g : Gen) (els : Els) (w : W), Led w B (els.map Prod.snd ++ FE) →
      Led (copyItems cfg hf src items g els w).2.2 B ((copyItems cfg hf src items g els w).2.1.map Prod.snd ++ FE) := by
  intro items
  induction items with
  | nil => intro g els w h; exact h
  | cons it r ih =>
    intro g els w h
    simp only [copyItems]
    split
    · rename_i g' idx e hadd hl
      apply ih
      obtain ⟨h1, h2⟩ := h.copy (src := e) (List.mem_append_right _ (hsrc _ _ hl))
      rw [h2]
      simpa using h1
    · rename_i g' idx hadd hl
      apply ih
      obtain ⟨h1, h2⟩ := h.ctor
      rw [h2]
      simpa using h1
    · exact ih g els w h

/-- **copy construction on the ledger**: a failure at any stage (crew block, bucket array, `BucketParams`, any item) leaves the
    ledger exactly as it was; a success adds exactly the new container's books -/
theorem copyL_led (cfg : Cfg) (hf : Nat → Nat) (src : St) (f : Flt) (w : W) (FB : List Blk) (FE : List Nat)
    (hsrc : ∀ k e, lookE src.els k = some e → e ∈ FE) (h : Led w FB FE) :
    CtorPost cfg FB FE (copyL cfg hf src f w) := by
  have hn := newL_led cfg f w FB FE h
  unfold copyL
  cases hnew : newL cfg f w with
  | mk o w0 =>
    rw [hnew] at hn
    cases o with
    | none => exact hn
    | some st0 =>
      obtain ⟨n1, n2⟩ := hn
      simp only
      -- a freshly constructed container: only the crew
      have hst0 : st0.arrs = [] ∧ st0.params = none ∧ st0.bufs = [] ∧ st0.els = [] := by
        unfold newL at hnew
        split at hnew
        · cases hnew; exact ⟨rfl, rfl, rfl, rfl⟩
        · split at hnew
          · cases hnew
          · cases hnew; exact ⟨rfl, rfl, rfl, rfl⟩
      obtain ⟨s1, s2, s3, s4⟩ := hst0
      split
      · exact ⟨n1, n2⟩
      · split
        · exact destroyL_led cfg st0 w0 FB FE n2.nil n1
        · generalize copyOf.pick cfg.sp src.t 64 cfg.sp.logStart = L
          obtain ⟨a1, a2⟩ := n1.alloc cfg.mgr (cfg.arrSize L)
          split
          · refine destroyL_led cfg st0 _ FB FE n2.nil ?_
            rw [a2]; exact a1.free
          · obtain ⟨p1, p2⟩ := a1.alloc cfg.mgr cfg.psz
            have hl0 : Led ((w0.allocB cfg.mgr (cfg.arrSize L)).2.allocB cfg.mgr cfg.psz).2
                (((w0.allocB cfg.mgr (cfg.arrSize L)).2.nextB, cfg.mgr, cfg.psz) :: (w0.nextB, cfg.mgr, cfg.arrSize L) ::
                  (st0.blocks cfg ++ FB)) (([] : Els).map Prod.snd ++ FE) := by
              simpa [St.elems, s4] using p1
            have hblocks : ∀ (t1 : Table) (els1 : Els),
                (({ st0 with t := t1, arrs := [((w0.allocB cfg.mgr (cfg.arrSize L)).1, cfg.arrSize L)],
                             params := some ((w0.allocB cfg.mgr (cfg.arrSize L)).2.allocB cfg.mgr cfg.psz).1,
                             els := els1 } : St).blocks cfg ++ FB).Perm
                (((w0.allocB cfg.mgr (cfg.arrSize L)).2.nextB, cfg.mgr, cfg.psz) :: (w0.nextB, cfg.mgr, cfg.arrSize L) ::
                  (st0.blocks cfg ++ FB)) := by
              intro t1 els1
              rw [a2, p2]
              simp only [St.blocks_eq, s1, s2, s3, optL, List.map_cons, List.map_nil, blkOf]
              perm_count
            have main : ∀ (items : List Item) (t1 : Table),
                Led (copyItems cfg hf src.els items (emptyGen cfg.sp L) []
                    ((w0.allocB cfg.mgr (cfg.arrSize L)).2.allocB cfg.mgr cfg.psz).2).2.2
                  (({ st0 with t := t1, arrs := [((w0.allocB cfg.mgr (cfg.arrSize L)).1, cfg.arrSize L)],
                               params := some ((w0.allocB cfg.mgr (cfg.arrSize L)).2.allocB cfg.mgr cfg.psz).1,
                               els := (copyItems cfg hf src.els items (emptyGen cfg.sp L) []
                                 ((w0.allocB cfg.mgr (cfg.arrSize L)).2.allocB cfg.mgr cfg.psz).2).2.1 } : St).blocks cfg ++ FB)
                  ((copyItems cfg hf src.els items (emptyGen cfg.sp L) []
                    ((w0.allocB cfg.mgr (cfg.arrSize L)).2.allocB cfg.mgr cfg.psz).2).2.1.map Prod.snd ++ FE) := by
              intro items t1
              exact (copyItems_led cfg hf src.els _ FE hsrc items (emptyGen cfg.sp L) [] _ hl0).perm
                (hblocks _ _).symm (List.Perm.refl _)
            cases hcs : f.copyStop with
            | none =>
              simp only
              exact ⟨main _ _, ⟨rfl, fun hc => by simp at hc⟩⟩
            | some n =>
              simp only
              exact destroyL_led cfg _ _ FB FE (fun hc => by simp at hc) (main _ _)

/-! ### `pvMergeTo` -/

/-- both containers of a merge on the ledger -/
structure Led2 (cfg : Cfg) (src dst : St) (w : W) (FB : List Blk) (FE : List Nat) : Prop where
  led : Led w (src.blocks cfg ++ dst.blocks cfg ++ FB) (src.elems ++ dst.elems ++ FE)
  bs : BooksOK src
  bd : BooksOK dst

theorem mergeStepL_led (cfg : Cfg) (hf : Nat → Nat) (src dst : St) (gi b j : Nat) (f : Flt) (w : W) (FB : List Blk)
    (FE : List Nat) (h : Led2 cfg src dst w FB FE) :
    Led2 cfg (mergeStepL cfg hf src dst gi b j f w).1 (mergeStepL cfg hf src dst gi b j f w).2.1
      (mergeStepL cfg hf src dst gi b j f w).2.2.1 FB FE := by
  unfold mergeStepL
  split
  · exact h
  · rename_i x hx
    split
    · exact h
    · split
      · exact h
      · have hd0 : Led w (dst.blocks cfg ++ (src.blocks cfg ++ FB)) (src.elems ++ dst.elems ++ FE) :=
          h.led.perm (by perm_count) (List.Perm.refl _)
        have hp := addPrepL_led cfg hf dst x (extractAtL cfg src gi b j f w).2.2.isNone f w (src.blocks cfg ++ FB)
          (src.elems ++ dst.elems ++ FE) h.bd hd0
        cases hprep : addPrepL cfg hf dst x (extractAtL cfg src gi b j f w).2.2.isNone f w with
        | inl r =>
          rw [hprep] at hp
          obtain ⟨dst1, w1, out⟩ := r
          obtain ⟨p1, p2, _⟩ := hp
          simp only at p1 p2 ⊢
          subst p1
          exact ⟨p2.perm (by perm_count) (List.Perm.refl _), h.bs, h.bd⟩
        | inr r =>
          rw [hprep] at hp
          obtain ⟨dst1, w1⟩ := r
          obtain ⟨p1, p2, p3, p4, p5, p6, _⟩ := hp
          simp only at p1 p2 p3 p4 p5 p6 ⊢
          have hs0 : Led w1 (src.blocks cfg ++ (dst1.blocks cfg ++ FB)) (src.elems ++ (dst.elems ++ FE)) :=
            p1.perm (by perm_count) (by perm_count)
          have he := extractAtL_led cfg src gi b j f w1 (dst1.blocks cfg ++ FB) (dst.elems ++ FE) h.bs hs0
          cases hext : extractAtL cfg src gi b j f w1 with
          | mk src1 rest =>
            obtain ⟨w2, oh⟩ := rest
            rw [hext] at he
            cases oh with
            | none => exact h
            | some hh =>
              obtain ⟨e1, e2, _⟩ := he
              simp only
              have hb2 : BooksOK ({ dst1 with els := (x.key, hh) :: dst1.els } : St) :=
                ⟨p6, fun hc => absurd hc p5⟩
              have hne : ({ dst1 with els := (x.key, hh) :: dst1.els } : St).t.gens ≠ [] := by
                intro hc; simp only at hc; rw [hc] at p6; exact p5 (List.eq_nil_of_length_eq_zero p6)
              have hd1 : Led w2 (({ dst1 with els := (x.key, hh) :: dst1.els } : St).blocks cfg ++ (src1.blocks cfg ++ FB))
                  (({ dst1 with els := (x.key, hh) :: dst1.els } : St).elems ++ (src1.elems ++ FE)) := by
                refine e1.perm ?_ ?_
                · show (src1.blocks cfg ++ (dst1.blocks cfg ++ FB)).Perm (dst1.blocks cfg ++ (src1.blocks cfg ++ FB))
                  perm_count
                · simp only [St.elems, List.map_cons, p2]
                  perm_count
              obtain ⟨q1, q2, _, _⟩ := finishL_led cfg hf _ f w2 (src1.blocks cfg ++ FB) (src1.elems ++ FE) hb2 hne hd1
              exact ⟨q1.perm (by perm_count) (by perm_count), e2, q2⟩

theorem mergeGo_led (cfg : Cfg) (hf : Nat → Nat) (f : Nat → Flt) (FB : List Blk) (FE : List Nat) :
    ∀ (ps : List (Nat × Nat × Nat)) (src dst : St) (w : W) (n : Nat), Led2 cfg src dst w FB FE →
      Led2 cfg (mergeGo cfg hf f ps src dst w n).1 (mergeGo cfg hf f ps src dst w n).2.1
        (mergeGo cfg hf f ps src dst w n).2.2.1 FB FE := by
  intro ps
  induction ps with
  | nil => intro src dst w n h; exact h
  | cons p r ih =>
    intro src dst w n h
    obtain ⟨gi, b, j⟩ := p
    simp only [mergeGo]
    have hs := mergeStepL_led cfg hf src dst gi b j (f n) w FB FE h
    generalize mergeStepL cfg hf src dst gi b j (f n) w = q at hs ⊢
    obtain ⟨src1, dst1, w1, moved, threw⟩ := q
    cases threw with
    | true => exact hs
    | false => exact ih _ _ _ _ hs

/-! ### the system: two containers and a node handle -/

/-- the monitor has accepted everything so far and holds exactly what A, B and the handle own; the books of A and B are
    well-formed -/
structure SysOK (cfg : Cfg) (s : Sys) : Prop where
  led : Led s.w (s.blocks cfg) s.elems
  a : BooksOK s.a
  b : BooksOK s.b

theorem sysOK_init (cfg : Cfg) : SysOK cfg (Sys.init cfg) := by
  have h0 : Led ({} : W) [] [] := Led.init
  unfold Sys.init newL
  by_cases hc : cfg.csz = 0
  · simp only [hc, if_true, Option.getD_some]
    exact ⟨by simpa [Sys.blocks, Sys.elems, St.blocks_eq, St.elems, optL] using h0, BooksOK.init, BooksOK.init⟩
  · simp only [hc, if_false, Bool.false_eq_true, Option.getD_some]
    obtain ⟨a1, a2⟩ := h0.alloc cfg.mgr cfg.csz
    obtain ⟨b1, b2⟩ := a1.alloc cfg.mgr cfg.csz
    refine ⟨?_, ⟨rfl, fun _ => ⟨rfl, rfl, rfl⟩⟩, ⟨rfl, fun _ => ⟨rfl, rfl, rfl⟩⟩⟩
    simp only [Sys.blocks, Sys.elems, St.blocks_eq, St.elems, optL, List.map_cons, List.map_nil, List.append_nil,
      List.nil_append, List.cons_append]
    rw [a2, b2]
    exact b1.perm (List.Perm.swap _ _ _) (List.Perm.refl _)

theorem lookE_elems {els : Els} {k e : Nat} (h : lookE els k = some e) : e ∈ els.map Prod.snd :=
  List.mem_map.mpr ⟨(k, e), lookE_mem h, rfl⟩

/-- **every operation keeps the ledger on the books**, under every fault record -/
theorem step_ok (cfg : Cfg) (hf : Nat → Nat) (s : Sys) (op : Op) (h : SysOK cfg s) : SysOK cfg (step cfg hf s op).1 := by
  obtain ⟨hl, ha, hb⟩ := h
  simp only [Sys.blocks, Sys.elems] at hl
  cases op with
  | ins toB k v f =>
    simp only [step]
    cases toB with
    | false =>
      simp only [Bool.false_eq_true, if_false]
      have h0 : Led s.w (s.a.blocks cfg ++ s.b.blocks cfg) (s.a.elems ++ (s.b.elems ++ (optL s.h).map Prod.snd)) :=
        hl.perm (List.Perm.refl _) (by perm_count)
      obtain ⟨i1, i2⟩ := insertL_led cfg hf s.a ⟨k, v⟩ .fresh f s.w _ _ _ ha (crSpec_fresh cfg _) h0
      by_cases hok : (insertL cfg hf s.a ⟨k, v⟩ .fresh f s.w).2.2 = .done .ok
      · obtain ⟨j1, j2⟩ := i2 hok
        exact ⟨j1.perm (List.Perm.refl _) (by simp only [Sys.elems]; perm_count), j2, hb⟩
      · obtain ⟨j1, j2⟩ := i1 hok
        refine ⟨?_, by rw [j1]; exact ha, hb⟩
        simp only [Sys.blocks, Sys.elems, j1]
        exact j2.perm (List.Perm.refl _) (by perm_count)
    | true =>
      simp only [if_true]
      have h0 : Led s.w (s.b.blocks cfg ++ s.a.blocks cfg) (s.b.elems ++ (s.a.elems ++ (optL s.h).map Prod.snd)) :=
        hl.perm (by perm_count) (by perm_count)
      obtain ⟨i1, i2⟩ := insertL_led cfg hf s.b ⟨k, v⟩ .fresh f s.w _ _ _ hb (crSpec_fresh cfg _) h0
      by_cases hok : (insertL cfg hf s.b ⟨k, v⟩ .fresh f s.w).2.2 = .done .ok
      · obtain ⟨j1, j2⟩ := i2 hok
        exact ⟨j1.perm (by simp only [Sys.blocks]; perm_count) (by simp only [Sys.elems]; perm_count), ha, j2⟩
      · obtain ⟨j1, j2⟩ := i1 hok
        refine ⟨?_, ha, by rw [j1]; exact hb⟩
        simp only [Sys.blocks, Sys.elems, j1]
        exact j2.perm (by perm_count) (by perm_count)
  | rem k f =>
    simp only [step]
    have h0 : Led s.w (s.a.blocks cfg ++ s.b.blocks cfg) (s.a.elems ++ (s.b.elems ++ (optL s.h).map Prod.snd)) :=
      hl.perm (List.Perm.refl _) (by perm_count)
    obtain ⟨_, i2, i3⟩ := removeKeyL_led cfg hf s.a k f s.w _ _ ha h0
    exact ⟨i2.perm (List.Perm.refl _) (by simp only [Sys.elems]; perm_count), i3, hb⟩
  | remIf m r f =>
    simp only [step, removeIfL]
    have h0 : Led s.w (s.a.blocks cfg ++ s.b.blocks cfg) (s.a.elems ++ (s.b.elems ++ (optL s.h).map Prod.snd)) :=
      hl.perm (List.Perm.refl _) (by perm_count)
    obtain ⟨i2, i3⟩ := removeIfGo_led cfg (fun it => it.key % m == r) f _ _ (posList s.a.t) s.a s.w 0 ha h0
    exact ⟨i2.perm (List.Perm.refl _) (by simp only [Sys.elems]; perm_count), i3, hb⟩
  | reserve c f =>
    simp only [step]
    have h0 : Led s.w (s.a.blocks cfg ++ s.b.blocks cfg) (s.a.elems ++ (s.b.elems ++ (optL s.h).map Prod.snd)) :=
      hl.perm (List.Perm.refl _) (by perm_count)
    obtain ⟨_, i2, i3⟩ := reserveL_led cfg hf s.a c f s.w _ _ ha h0
    exact ⟨i2.perm (List.Perm.refl _) (by simp only [Sys.elems]; perm_count), i3, hb⟩
  | clear sh =>
    simp only [step]
    have h0 : Led s.w (s.a.blocks cfg ++ s.b.blocks cfg) (s.a.elems ++ (s.b.elems ++ (optL s.h).map Prod.snd)) :=
      hl.perm (List.Perm.refl _) (by perm_count)
    have i2 := clearL_led cfg s.a sh s.w _ _ ha.nil h0
    refine ⟨i2.perm (List.Perm.refl _) (by simp only [Sys.elems]; perm_count), ?_, hb⟩
    unfold clearL
    cases harr : s.a.arrs with
    | nil => exact ha
    | cons a older =>
      simp only
      have hg : s.a.t.gens ≠ [] := by
        intro hc; have := ha.len; rw [hc, harr] at this; simp at this
      cases sh with
      | true =>
        simp only [if_true]
        refine ⟨?_, fun _ => ⟨rfl, rfl, rfl⟩⟩
        cases hgs : s.a.t.gens with
        | nil => exact absurd hgs hg
        | cons g rest => simp [clear, hgs, emptyTable]
      | false =>
        simp only [Bool.false_eq_true, if_false]
        refine ⟨?_, fun hc => by simp at hc⟩
        cases hgs : s.a.t.gens with
        | nil => exact absurd hgs hg
        | cons g rest => simp [clear, hgs]
  | ext k f =>
    simp only [step]
    cases hh : s.h with
    | some p => simp only; exact ⟨by simpa [Sys.blocks, Sys.elems] using hl, ha, hb⟩
    | none =>
      simp only
      rw [hh] at hl
      have h0 : Led s.w (s.a.blocks cfg ++ s.b.blocks cfg) (s.a.elems ++ s.b.elems) := by
        simpa [optL] using hl
      unfold extractKeyL
      split
      · exact ⟨by simpa [Sys.blocks, Sys.elems, hh, optL] using h0, ha, hb⟩
      · split
        · exact ⟨by simpa [Sys.blocks, Sys.elems, hh, optL] using h0, ha, hb⟩
        · rename_i gi b j _
          have he := extractAtL_led cfg s.a gi b j f s.w (s.b.blocks cfg) s.b.elems ha h0
          cases hx : itemAt cfg s.a.t gi b j with
          | none =>
            cases hext : extractAtL cfg s.a gi b j f s.w with
            | mk st1 rest =>
              obtain ⟨w1, oh⟩ := rest
              rw [hext] at he
              cases oh with
              | none =>
                obtain ⟨e1, e2⟩ := he
                simp only
                subst e1
                exact ⟨by simpa [Sys.blocks, Sys.elems, optL] using e2, ha, hb⟩
              | some hhh =>
                -- cannot happen (an extraction needs the item), but the ledger is on the books all the same
                exfalso
                unfold extractAtL at hext
                rw [hx] at hext
                simp at hext
          | some x =>
            cases hext : extractAtL cfg s.a gi b j f s.w with
            | mk st1 rest =>
              obtain ⟨w1, oh⟩ := rest
              rw [hext] at he
              cases oh with
              | none =>
                obtain ⟨e1, e2⟩ := he
                simp only
                subst e1
                exact ⟨by simpa [Sys.blocks, Sys.elems, optL] using e2, ha, hb⟩
              | some hhh =>
                obtain ⟨e1, e2, _⟩ := he
                simp only
                exact ⟨e1.perm (List.Perm.refl _) (by simp only [Sys.elems, optL, List.map_cons, List.map_nil]; perm_count), e2, hb⟩
  | reins f =>
    simp only [step]
    cases hh : s.h with
    | none => simp only; exact ⟨by simpa [Sys.blocks, Sys.elems, hh] using hl, ha, hb⟩
    | some p =>
      obtain ⟨it, e⟩ := p
      simp only
      rw [hh] at hl
      have h0 : Led s.w (s.a.blocks cfg ++ s.b.blocks cfg) (s.a.elems ++ (s.b.elems ++ [e])) := by
        simpa [optL] using hl
      obtain ⟨i1, i2⟩ := insertL_led cfg hf s.a it (.handle e) f s.w _ (s.b.elems ++ [e]) s.b.elems ha
        (crSpec_handle cfg e _ _ (by perm_count)) h0
      by_cases hok : (insertL cfg hf s.a it (.handle e) f s.w).2.2 = .done .ok
      · obtain ⟨j1, j2⟩ := i2 hok
        simp only [hok, if_true]
        exact ⟨by simpa [Sys.blocks, Sys.elems, optL] using j1, j2, hb⟩
      · obtain ⟨j1, j2⟩ := i1 hok
        simp only [hok, if_false]
        refine ⟨?_, by rw [j1]; exact ha, hb⟩
        simp only [Sys.blocks, Sys.elems, j1, optL, List.map_cons, List.map_nil]
        exact j2.perm (List.Perm.refl _) (by perm_count)
  | copyTo f =>
    simp only [step]
    have hsrc : ∀ k e, lookE s.a.els k = some e → e ∈ s.a.elems ++ s.b.elems ++ (optL s.h).map Prod.snd := by
      intro k e hke
      exact List.mem_append_left _ (List.mem_append_left _ (lookE_elems hke))
    have hc := copyL_led cfg hf s.a f s.w _ _ hsrc hl
    cases hcp : copyL cfg hf s.a f s.w with
    | mk o w1 =>
      rw [hcp] at hc
      cases o with
      | none =>
        have hc' : Led w1 (s.a.blocks cfg ++ s.b.blocks cfg) (s.a.elems ++ s.b.elems ++ (optL s.h).map Prod.snd) := hc
        simp only; exact ⟨by simpa [Sys.blocks, Sys.elems] using hc', ha, hb⟩
      | some st =>
        obtain ⟨c1, c2⟩ := hc
        simp only
        have h1 : Led w1 (s.b.blocks cfg ++ (st.blocks cfg ++ s.a.blocks cfg))
            (s.b.elems ++ (st.elems ++ s.a.elems ++ (optL s.h).map Prod.snd)) :=
          c1.perm (by perm_count) (by perm_count)
        have h2 := destroyL_led cfg s.b w1 _ _ hb.nil h1
        exact ⟨h2.perm (by simp only [Sys.blocks]; perm_count) (by simp only [Sys.elems]; perm_count), ha, c2⟩
  | moveTo f =>
    simp only [step]
    have h1 : Led s.w (s.b.blocks cfg ++ s.a.blocks cfg) (s.b.elems ++ (s.a.elems ++ (optL s.h).map Prod.snd)) :=
      hl.perm (by perm_count) (by perm_count)
    have h2 := destroyL_led cfg s.b s.w _ _ hb.nil h1
    have hn := newL_led cfg f (destroyL cfg s.b s.w) _ _ h2
    cases hnew : newL cfg f (destroyL cfg s.b s.w) with
    | mk o w2 =>
      rw [hnew] at hn
      cases o with
      | none =>
        simp only
        exact ⟨hn.perm (by simp [Sys.blocks, St.blocks_eq, optL]) (by simp [Sys.elems, St.elems]), BooksOK.init, ha⟩
      | some st =>
        obtain ⟨n1, n2⟩ := hn
        simp only
        exact ⟨n1.perm (by simp only [Sys.blocks]; perm_count) (by simp only [Sys.elems]; perm_count), n2, ha⟩
  | swap =>
    simp only [step]
    exact ⟨hl.perm (by simp only [Sys.blocks]; perm_count) (by simp only [Sys.elems]; perm_count), hb, ha⟩
  | mergeTo f =>
    simp only [step, mergeToL]
    have h0 : Led2 cfg s.a s.b s.w [] ((optL s.h).map Prod.snd) :=
      ⟨by simpa using hl, ha, hb⟩
    obtain ⟨m1, m2, m3⟩ := mergeGo_led cfg hf f _ _ (posList s.a.t) s.a s.b s.w 0 h0
    exact ⟨by simpa [Sys.blocks, Sys.elems] using m1, m2, m3⟩
  | dropHandle =>
    simp only [step]
    cases hh : s.h with
    | none => simp only; exact ⟨by simpa [Sys.blocks, Sys.elems, hh] using hl, ha, hb⟩
    | some p =>
      obtain ⟨it, e⟩ := p
      simp only
      rw [hh] at hl
      have h0 : Led s.w (s.a.blocks cfg ++ s.b.blocks cfg) (e :: (s.a.elems ++ s.b.elems)) :=
        hl.perm (List.Perm.refl _) (by simp only [optL, List.map_cons, List.map_nil]; perm_count)
      exact ⟨by simpa [Sys.blocks, Sys.elems, optL] using h0.dtor, ha, hb⟩

theorem poolTraffic_books (cfg : Cfg) (st : St) (p : PoolT) (w : W) (hb : BooksOK st) :
    BooksOK (poolTraffic cfg st p w).1 := by
  unfold poolTraffic
  split
  · rename_i hc
    simp only [Bool.and_eq_true] at hc
    refine ⟨hb.len, fun ha => ?_⟩
    have := (hb.nil ha).1
    rw [this] at hc
    simp at hc
  · exact hb

/-- an operation with its pool traffic -/
theorem stepT_ok (cfg : Cfg) (hf : Nat → Nat) (s : Sys) (o : OpT) (h : SysOK cfg s) : SysOK cfg (stepT cfg hf s o).1 := by
  obtain ⟨hl, ha, hb⟩ := step_ok cfg hf s o.op h
  unfold stepT
  simp only
  generalize (step cfg hf s o.op).1 = s1 at hl ha hb ⊢
  simp only [Sys.blocks, Sys.elems] at hl
  obtain ⟨a1, a2, a3, a4, a5, a6⟩ := poolTraffic_led cfg s1.a o.pa s1.w (s1.b.blocks cfg) _ hl
  have hl2 : Led (poolTraffic cfg s1.a o.pa s1.w).2 (s1.b.blocks cfg ++ (poolTraffic cfg s1.a o.pa s1.w).1.blocks cfg)
      (s1.a.elems ++ s1.b.elems ++ (optL s1.h).map Prod.snd) := a1.perm (by perm_count) (List.Perm.refl _)
  obtain ⟨b1, b2, b3, b4, b5, b6⟩ := poolTraffic_led cfg s1.b o.pb _ _ _ hl2
  refine ⟨?_, poolTraffic_books cfg _ _ _ ha, poolTraffic_books cfg _ _ _ hb⟩
  simp only [Sys.blocks, Sys.elems, St.elems, a3, b3]
  exact b1.perm (by perm_count) (List.Perm.refl _)

theorem run_ok (cfg : Cfg) (hf : Nat → Nat) : ∀ (ops : List OpT) (s : Sys), SysOK cfg s → SysOK cfg (run cfg hf s ops) := by
  intro ops
  induction ops with
  | nil => intro s h; exact h
  | cons o r ih => intro s h; exact ih _ (stepT_ok cfg hf s o h)

/-- the end of a history: the handle, B and A are destroyed - nothing is left -/
theorem finish_clean (cfg : Cfg) (s : Sys) (h : SysOK cfg s) : Led (finish cfg s) [] [] := by
  obtain ⟨hl, ha, hb⟩ := h
  simp only [Sys.blocks, Sys.elems] at hl
  unfold finish
  have h1 : Led (match s.h with | some (_, e) => s.w.dtorE e | none => s.w) (s.b.blocks cfg ++ (s.a.blocks cfg ++ []))
      (s.b.elems ++ (s.a.elems ++ [])) := by
    cases hh : s.h with
    | none =>
      rw [hh] at hl
      exact hl.perm (by perm_count) (by simp only [optL, List.map_nil]; perm_count)
    | some p =>
      obtain ⟨it, e⟩ := p
      rw [hh] at hl
      have h0 : Led s.w (s.a.blocks cfg ++ s.b.blocks cfg) (e :: (s.a.elems ++ s.b.elems)) :=
        hl.perm (List.Perm.refl _) (by simp only [optL, List.map_cons, List.map_nil]; perm_count)
      exact h0.dtor.perm (by perm_count) (by perm_count)
  have h2 := destroyL_led cfg s.b _ _ _ hb.nil h1
  exact destroyL_led cfg s.a _ [] [] ha.nil h2

/-- `Led` with nothing on the books = the monitor's verdict "accepted and clean" -/
theorem led_nil_balanced {w : W} (h : Led w [] []) : Ledger.balanced w.evs = true := by
  obtain ⟨s, hr, hb, he⟩ := h.acc
  unfold Ledger.balanced
  rw [hr]
  have h1 : s.blocks = [] := by
    apply findB_none_of_nil
    intro b
    cases hf : findB b s.blocks with
    | none => rfl
    | some p => obtain ⟨m, n⟩ := p; have := (hb b m n).mp hf; simp at this
  have h2 : s.elems = [] := by
    apply memE_false_of_nil
    intro e
    cases hm : memE e s.elems with
    | false => rfl
    | true => have := (he e).mp hm; simp at this
  simp [Ledger.St.clean, h1, h2]

end Momo.HTL
