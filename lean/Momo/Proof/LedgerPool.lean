import Momo.Proof.LedgerOnce
import Momo.Proof.PoolHist
/-!
  The calls a `MemPool` makes to its memory manager (`Momo.Pool.Ev`: malloc / free of whole buffers), read as ledger
  events. `Pool.ledger` (the multiset ledger of C09's theorems) and the C03 monitor agree on every event list in which
  the manager never hands out an address that is still outstanding (`FreshMallocs` - the manager's contract, see
  DESIGN.md section 3); hence every pool history proved exact in C09 is accepted by the monitor, and after
  `DeallocateAll` / the destructor nothing is outstanding.
-/
namespace Momo.Ledger

open Momo.Pool (ledger)

/-- a pool event as a ledger event of manager class `m`; block identity = address -/
def ofPool (m : Nat) : Pool.Ev → Ev Int
  | .malloc b s => .alloc m b s.toNat
  | .free a s => .dealloc m a s.toNat

/-- the manager's contract along an event list: no `malloc` returns an address that is outstanding at that moment -/
def FreshMallocs : List (Int × Int) → List Pool.Ev → Prop
  | _, [] => True
  | l, .malloc b s :: es => (∀ s', (b, s') ∉ l) ∧ FreshMallocs ((b, s) :: l) es
  | l, .free a s :: es => FreshMallocs (l.erase (a, s)) es

def lk (a : Int) : List (Int × Int) → Option Int
  | [] => none
  | p :: r => if p.1 = a then some p.2 else lk a r

def NodupKeys (L : List (Int × Int)) : Prop := (L.map Prod.fst).Nodup

theorem lk_none_of_not_mem {a : Int} {L : List (Int × Int)} (h : ∀ s, (a, s) ∉ L) : lk a L = none := by
  induction L with
  | nil => rfl
  | cons p r ih =>
    have hp : p.1 ≠ a := by
      intro e; apply h p.2; rw [← e]; exact List.mem_cons_self
    simp only [lk, hp, if_false]
    exact ih (fun s hs => h s (List.mem_cons_of_mem _ hs))

theorem not_mem_keys {a : Int} {L : List (Int × Int)} (h : a ∉ L.map Prod.fst) : ∀ s, (a, s) ∉ L := by
  intro s hs; exact h (List.mem_map.mpr ⟨(a, s), hs, rfl⟩)

theorem lk_of_mem {a s : Int} {L : List (Int × Int)} (hn : NodupKeys L) (h : (a, s) ∈ L) : lk a L = some s := by
  induction L with
  | nil => cases h
  | cons p r ih =>
    unfold NodupKeys at hn
    simp only [List.map_cons, List.nodup_cons] at hn
    rcases List.mem_cons.mp h with h | h
    · subst h; simp [lk]
    · have hp : p.1 ≠ a := by
        intro e; apply hn.1; rw [e]; exact List.mem_map.mpr ⟨(a, s), h, rfl⟩
      simp only [lk, hp, if_false]
      exact ih hn.2 h

theorem lk_erase {a s : Int} {L : List (Int × Int)} (hn : NodupKeys L) (h : (a, s) ∈ L) (a' : Int) :
    lk a' (L.erase (a, s)) = if a = a' then none else lk a' L := by
  induction L with
  | nil => cases h
  | cons p r ih =>
    unfold NodupKeys at hn
    simp only [List.map_cons, List.nodup_cons] at hn
    by_cases hp : p = (a, s)
    · subst hp
      rw [List.erase_cons_head]
      by_cases ha : a = a'
      · subst ha; simp only [if_true]; exact lk_none_of_not_mem (not_mem_keys hn.1)
      · simp [lk, ha]
    · have hr : (a, s) ∈ r := by
        rcases List.mem_cons.mp h with h | h
        · exact absurd h.symm hp
        · exact h
      have hpa : p.1 ≠ a := by
        intro e; apply hn.1; rw [e]; exact List.mem_map.mpr ⟨(a, s), hr, rfl⟩
      rw [List.erase_cons_tail (by simpa using hp)]
      simp only [lk]
      rw [ih hn.2 hr]
      by_cases ha : a = a'
      · subst ha; simp [hpa]
      · simp [ha]

theorem nodupKeys_erase {L : List (Int × Int)} (hn : NodupKeys L) (x : Int × Int) : NodupKeys (L.erase x) :=
  List.Nodup.sublist (List.Sublist.map _ List.erase_sublist) hn

/-- the ledger state holds exactly the blocks of the multiset ledger `L` -/
def Holds (m : Nat) (st : St Int) (L : List (Int × Int)) : Prop :=
  ∀ a, findB a st.blocks = (lk a L).map (fun s => (m, s.toNat))

/-- `Pool.ledger` and the monitor agree along every event list that respects the manager's contract -/
theorem poolLedger_accepted (m : Nat) (evs : List Pool.Ev) : ∀ (L L' : List (Int × Int)) (st : St Int),
    ledger L evs = some L' → NodupKeys L → FreshMallocs L evs → Holds m st L →
    ∃ st', run st (evs.map (ofPool m)) = some st' ∧ Holds m st' L' ∧ NodupKeys L' ∧ st'.elems = st.elems := by
  induction evs with
  | nil =>
    intro L L' st h hn _ hh
    simp only [ledger, Option.some.injEq] at h; subst h
    exact ⟨st, rfl, hh, hn, rfl⟩
  | cons ev r ih =>
    intro L L' st h hn hf hh
    cases ev with
    | malloc b s =>
      simp only [ledger] at h
      obtain ⟨hfresh, hf'⟩ := hf
      have hnone : findB b st.blocks = none := by rw [hh b, lk_none_of_not_mem hfresh]; rfl
      have hn' : NodupKeys ((b, s) :: L) := by
        unfold NodupKeys at hn ⊢
        simp only [List.map_cons, List.nodup_cons]
        refine ⟨?_, hn⟩
        intro hm
        obtain ⟨p, hp, he⟩ := List.mem_map.mp hm
        apply hfresh p.2
        have : p = (b, p.2) := by cases p; simp at he; simp [he]
        rw [← this]; exact hp
      have hh' : Holds m { st with blocks := (b, m, s.toNat) :: st.blocks } ((b, s) :: L) := by
        intro a
        by_cases ha : b = a
        · subst ha; simp [findB, lk]
        · simp [findB, lk, ha, hh a]
      obtain ⟨st', h1, h2, h3, h4⟩ := ih _ _ _ h hn' hf' hh'
      refine ⟨st', ?_, h2, h3, h4⟩
      simp only [List.map_cons, ofPool, run, step, hnone]
      exact h1
    | free a s =>
      simp only [ledger] at h
      split at h
      · rename_i hmem
        have hfound : findB a st.blocks = some (m, s.toNat) := by rw [hh a, lk_of_mem hn hmem]; rfl
        have hh' : Holds m { st with blocks := eraseB a st.blocks } (L.erase (a, s)) := by
          intro a'
          show findB a' (eraseB a st.blocks) = _
          rw [findB_eraseB, lk_erase hn hmem a']
          by_cases ha : a = a'
          · simp [ha]
          · simp [ha, hh a']
        obtain ⟨st', h1, h2, h3, h4⟩ := ih _ _ _ h (nodupKeys_erase hn _) hf hh'
        refine ⟨st', ?_, h2, h3, h4⟩
        simp only [List.map_cons, ofPool, run, step, hfound, ne_eq, not_true_eq_false, if_false]
        exact h1
      · cases h

/-- a pool event list whose multiset ledger ends empty is balanced for the monitor -/
theorem poolLedger_balanced (m : Nat) (evs : List Pool.Ev) (h : ledger [] evs = some []) (hf : FreshMallocs [] evs) :
    balanced (evs.map (ofPool m)) = true := by
  obtain ⟨st', h1, h2, _, h4⟩ := poolLedger_accepted m evs [] [] St.init h (by simp [NodupKeys]) hf
    (by intro a; simp [St.init, findB, lk])
  unfold balanced
  rw [h1]
  have hb : st'.blocks = [] := findB_none_of_nil (fun a => by rw [h2 a]; rfl)
  have he : st'.elems = [] := by rw [h4]; rfl
  simp [St.clean, hb, he]

end Momo.Ledger
