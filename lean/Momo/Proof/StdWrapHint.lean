import Momo.Proof.StdWrapBounds
/-!
  Lemmas for C06, part 3b: what `set::pvCheckHint` / `map_base::pvFind(hint)` decide, in terms of lower/upper bound.
-/
namespace Momo.StdWrap
open List

theorem mem_take_key (xs : List Item) (i : Nat) (a : Item) (h : a ∈ xs.take i) : ∃ j, j < i ∧ j < xs.length ∧ keyAt xs j = a.1 := by
  obtain ⟨j, hj, rfl⟩ := mem_iff_getElem.mp h
  simp only [length_take] at hj
  refine ⟨j, by omega, by omega, ?_⟩
  simp [keyAt, getElem?_eq_getElem (show j < xs.length by omega)]

theorem mem_drop_key (xs : List Item) (i : Nat) (a : Item) (h : a ∈ xs.drop i) : ∃ j, i ≤ j ∧ j < xs.length ∧ keyAt xs j = a.1 := by
  obtain ⟨j, hj, rfl⟩ := mem_iff_getElem.mp h
  simp only [length_drop] at hj
  refine ⟨i + j, by omega, by omega, ?_⟩
  simp [keyAt, getElem?_eq_getElem (show i + j < xs.length by omega)]

theorem insertAt_sorted (xs : List Item) (hs : Sorted xs) (x : Item) (i : Nat)
    (h1 : lb x.1 xs ≤ i) (h2 : i ≤ ub x.1 xs) : Sorted (insertAt xs i x) := by
  unfold insertAt Sorted
  have hsplit : Sorted (xs.take i ++ xs.drop i) := by rw [take_append_drop]; exact hs
  obtain ⟨p1, p2, p3⟩ := pairwise_append.mp hsplit
  rw [pairwise_append]
  refine ⟨p1, pairwise_cons.mpr ⟨?_, p2⟩, ?_⟩
  · intro b hb
    obtain ⟨j, hj1, hj2, hj3⟩ := mem_drop_key xs i b hb
    rw [← hj3]; exact lb_ge x.1 xs hs j (by omega) hj2
  · intro a ha b hb
    rcases mem_cons.mp hb with rfl | hb
    · obtain ⟨j, hj1, hj2, hj3⟩ := mem_take_key xs i a ha
      rw [← hj3]; exact ub_le b.1 xs j (by omega)
    · exact p3 a ha b hb

theorem insertAt_strict (xs : List Item) (hs : StrictSorted xs) (x : Item) (i : Nat)
    (h1 : ub x.1 xs ≤ i) (h2 : i ≤ lb x.1 xs) : StrictSorted (insertAt xs i x) := by
  unfold insertAt StrictSorted
  have hsr := strict_sorted xs hs
  have hsplit : StrictSorted (xs.take i ++ xs.drop i) := by rw [take_append_drop]; exact hs
  obtain ⟨p1, p2, p3⟩ := pairwise_append.mp hsplit
  rw [pairwise_append]
  refine ⟨p1, pairwise_cons.mpr ⟨?_, p2⟩, ?_⟩
  · intro b hb
    obtain ⟨j, hj1, hj2, hj3⟩ := mem_drop_key xs i b hb
    rw [← hj3]; exact ub_gt x.1 xs hsr j (by omega) hj2
  · intro a ha b hb
    rcases mem_cons.mp hb with rfl | hb
    · obtain ⟨j, hj1, hj2, hj3⟩ := mem_take_key xs i a ha
      rw [← hj3]; exact lb_lt b.1 xs j (by omega)
    · exact p3 a ha b hb

/-- the valid insertion position closest to the hint -/
def clamp (h lo hi : Nat) : Nat := max lo (min h hi)

/-- `TreeSet::pvInsert` / `pvFind(nullptr)` with equivalent keys allowed: behind the last equivalent item -/
theorem treeFind_multi (xs : List Item) (k : Nat) : treeFind true xs k = (ub k xs, true) := by
  simp [treeFind]

/-- with distinct keys: the item with this key if there is one, else the only valid position -/
theorem treeFind_unique (xs : List Item) (hs : StrictSorted xs) (k : Nat) :
    treeFind false xs k = if lb k xs < ub k xs then (lb k xs, false) else (lb k xs, true) := by
  have hsr := strict_sorted xs hs
  have h1 := lb_le_ub k xs
  have h2 := ub_le_lb_succ k xs hs
  have h3 := ub_le_length k xs
  unfold treeFind
  by_cases hlt : lb k xs < ub k xs
  · have hub : ub k xs - 1 = lb k xs := by omega
    have hk : k ≤ keyAt xs (lb k xs) := lb_ge k xs hsr (lb k xs) (Nat.le_refl _) (by omega)
    have h0 : ub k xs ≠ 0 := by omega
    simp [hlt, h0, hub]; exact hk
  · have he : lb k xs = ub k xs := by omega
    by_cases h0 : ub k xs = 0
    · simp [h0, he]
    · have hk : keyAt xs (ub k xs - 1) < k := lb_lt k xs _ (by omega)
      simp [h0, hk, he]

theorem checkHint_multi (xs : List Item) (hs : Sorted xs) (h k : Nat) (hl : h ≤ xs.length) :
    checkHint true xs h k = if ub k xs < h then none else some (max h (lb k xs)) := by
  unfold checkHint isOrdered
  simp only [if_true]
  by_cases h0 : h = 0
  · subst h0
    have e1 : ¬ (ub k xs < 0) := by omega
    by_cases hn : xs.length = 0
    · have : lb k xs = 0 := by have := lb_le_length k xs; omega
      simp [hn, this]
    · have hl' : 0 < xs.length := by omega
      have := le_at_iff k xs hs 0 hl'
      by_cases hk : keyAt xs 0 < k
      · have : ¬ lb k xs ≤ 0 := by intro hh; have := this.mpr hh; omega
        simp [hk, Ne.symm hn]
      · have hle : lb k xs ≤ 0 := this.mp (by omega)
        have : lb k xs = 0 := by omega
        simp [hk, this]
  · have hp := prev_le_iff k xs hs h h0 hl
    by_cases hu : ub k xs < h
    · have : k < keyAt xs (h - 1) := by
        apply Decidable.byContradiction; intro hn; have := hp.mp (by omega); omega
      simp [h0, this, hu]
    · have hprev : ¬ k < keyAt xs (h - 1) := by have := hp.mpr (by omega); omega
      simp only [ne_eq, h0, not_false_eq_true, decide_true, hprev, decide_false, Bool.not_false,
        Bool.not_true, Bool.and_false, Bool.false_eq_true, if_false, hu]
      by_cases he : h = xs.length
      · have : lb k xs ≤ h := by have := lb_le_length k xs; omega
        simp [he]; rw [Nat.max_eq_left (by omega)]
      · have hlt : h < xs.length := by omega
        have hq := le_at_iff k xs hs h hlt
        by_cases hk : keyAt xs h < k
        · have : ¬ lb k xs ≤ h := by intro hh; have := hq.mpr hh; omega
          simp [he, hk]; omega
        · have : lb k xs ≤ h := hq.mp (by omega)
          simp [he, hk]; omega

theorem checkHint_unique (xs : List Item) (hs : StrictSorted xs) (h k : Nat) (hl : h ≤ xs.length) :
    checkHint false xs h k = if h ≤ lb k xs ∧ ub k xs ≤ h then some h else none := by
  have hsr := strict_sorted xs hs
  have hub := ub_le_length k xs
  unfold checkHint isOrdered
  simp only [Bool.false_eq_true, if_false]
  by_cases h0 : h = 0
  · subst h0
    by_cases hn : xs.length = 0
    · have : ub k xs = 0 := by omega
      simp [hn, this]
    · have hq := lt_at_iff k xs hsr 0 (by omega)
      by_cases hk : k < keyAt xs 0
      · have := hq.mp hk
        simp [Ne.symm hn, hk]; omega
      · have : ¬ ub k xs ≤ 0 := fun hh => hk (hq.mpr hh)
        simp [Ne.symm hn, hk]; omega
  · have hp := prev_lt_iff k xs hsr h h0 hl
    by_cases hk1 : keyAt xs (h - 1) < k
    · have h1 : h ≤ lb k xs := hp.mp hk1
      by_cases he : h = xs.length
      · subst he
        have hlb := lb_le_length k xs
        simp [h0, hk1]; omega
      · have hq := lt_at_iff k xs hsr h (by omega)
        by_cases hk : k < keyAt xs h
        · have := hq.mp hk
          simp [h0, hk1, he, hk]; omega
        · have : ¬ ub k xs ≤ h := fun hh => hk (hq.mpr hh)
          simp [h0, hk1, he, hk]; omega
    · have : ¬ h ≤ lb k xs := fun hh => hk1 (hp.mpr hh)
      simp [h0, hk1]; omega

/-- `map_base::pvFind(hint, key)` takes the same decisions as `set::pvCheckHint` followed by the
    fall-back to the un-hinted search -/
theorem mapFind_hint (multi : Bool) (xs : List Item) (h k : Nat) :
    mapFind multi xs (some h) k =
      match checkHint multi xs h k with
      | none => treeFind multi xs k
      | some h' => (h', true) := by
  unfold mapFind checkHint
  by_cases c1 : (h ≠ 0 && !isOrdered multi (keyAt xs (h - 1)) k) = true
  · simp only [c1, if_true]
  · simp only [c1, Bool.false_eq_true, if_false]
    by_cases c2 : (h ≠ xs.length && !isOrdered multi k (keyAt xs h)) = true
    · simp only [c2, if_true]
      cases multi <;> simp
    · simp only [c2, Bool.false_eq_true, if_false]

theorem mapInsert_hint (multi : Bool) (xs : List Item) (h : Nat) (x : Item) :
    mapInsert multi xs (some h) x = setInsertHint multi xs h x := by
  unfold mapInsert setInsertHint treeInsert
  rw [mapFind_hint]
  cases checkHint multi xs h x.1 <;> simp

theorem present_iff (xs : List Item) (hs : Sorted xs) (k : Nat) :
    lb k xs < ub k xs ↔ ∃ e ∈ xs, e.1 = k := by
  have hub := ub_le_length k xs
  constructor
  · intro h
    have h1 := lb_ge k xs hs (lb k xs) (Nat.le_refl _) (by omega)
    have h2 := ub_le k xs (lb k xs) h
    obtain ⟨e, he, hk⟩ := keyAt_mem xs (lb k xs) (by omega)
    exact ⟨e, he, by omega⟩
  · intro ⟨e, he, hk⟩
    obtain ⟨j, hj, rfl⟩ := mem_iff_getElem.mp he
    have hkj : keyAt xs j = k := by simp [keyAt, getElem?_eq_getElem hj, hk]
    have h1 : lb k xs ≤ j := by
      apply Decidable.byContradiction; intro hn
      have := lb_lt k xs j (by omega); omega
    have h2 : j < ub k xs := by
      apply Decidable.byContradiction; intro hn
      have := ub_gt k xs hs j (by omega) hj; omega
    omega

end Momo.StdWrap
