import Momo.Proof.PoolAllocProv
/-!
  C20, layer A: what a successful operation changes (and what it leaves alone).
-/
namespace Momo.PoolAlloc

theorem step_eq_of_ok {s : Sys} (h0 : s.err = none) (op : Op) :
    step s op = (match op with
      | .anew cls cb => doNew s cls cb
      | .acopy p => doCopy s p
      | .adrop p => doDrop s p
      | .alloc p cls n id mallocs => doAlloc s p cls n id mallocs
      | .dealloc p cls n id frees => doDealloc s p cls n id frees
      | .bad => s.fail .illegal) := by
  cases op <;> simp [step, h0]

/-- a successful `allocate`: one new block of the pool `p`; only pool `p` changes, its owners do not -/
theorem doAlloc_ok {s : Sys} {p : Nat} {cls : Cls} {n id : Nat} {mallocs : List Nat}
    (h : (doAlloc s p cls n id mallocs).err = none) :
    ∃ st prov, livePool s p = some st ∧ (∀ b ∈ s.blocks, b.id ≠ id) ∧
      (doAlloc s p cls n id mallocs).blocks = ⟨id, p, cls, n, prov⟩ :: s.blocks ∧
      (∀ j, j ≠ p → (doAlloc s p cls n id mallocs).pools[j]? = s.pools[j]?) ∧
      (∃ st', (doAlloc s p cls n id mallocs).pools[p]? = some st' ∧ st'.refs = st.refs ∧ st'.dead = st.dead) := by
  unfold doAlloc at h ⊢
  cases hl : livePool s p with
  | none => simp [hl, Sys.fail] at h
  | some st =>
    simp only [hl] at h ⊢
    obtain ⟨hst, hd⟩ := livePool_eq_some.mp hl
    by_cases hill : n = 0 ∨ (s.blocks.any fun b => b.id == id) = true
    · rw [if_pos hill] at h; simp [Sys.fail] at h
    · rw [if_neg hill] at h ⊢
      have hfresh : ∀ b ∈ s.blocks, b.id ≠ id := by
        intro b hb hbid
        apply hill; right
        simp only [List.any_eq_true]
        exact ⟨b, hb, by simp [hbid]⟩
      by_cases hpath : n = 1 ∧ (cls = st.params ∨ st.allocCount = 0)
      · rw [if_pos hpath]
        refine ⟨st, .pool cls, rfl, hfresh, by rw [hpath.1], ?_, ?_⟩
        · intro j hj; exact List.getElem?_set_ne (fun e => hj e.symm)
        · exact ⟨_, getElem?_set_same hst, rfl, rfl⟩
      · rw [if_neg hpath]
        exact ⟨st, .raw, rfl, hfresh, rfl, fun j _ => (by first | rfl | trivial), st, hst, rfl, rfl⟩

/-- a successful `deallocate`: the block disappears; only pool `p` changes, its owners do not -/
theorem doDealloc_ok {s : Sys} {p : Nat} {cls : Cls} {n id : Nat} {frees : List Nat}
    (h : (doDealloc s p cls n id frees).err = none) :
    ∃ st b, livePool s p = some st ∧ b ∈ s.blocks ∧ b.id = id ∧ b.pid = p ∧
      (doDealloc s p cls n id frees).blocks = s.blocks.filter (fun x => x.id != id) ∧
      (∀ j, j ≠ p → (doDealloc s p cls n id frees).pools[j]? = s.pools[j]?) ∧
      (∃ st', (doDealloc s p cls n id frees).pools[p]? = some st' ∧ st'.refs = st.refs ∧ st'.dead = st.dead) := by
  unfold doDealloc at h ⊢
  cases hl : livePool s p with
  | none => simp [hl, Sys.fail] at h
  | some st =>
    simp only [hl] at h ⊢
    obtain ⟨hst, hd⟩ := livePool_eq_some.mp hl
    cases hf : s.blocks.find? (fun b => b.id == id) with
    | none => simp [hf, Sys.fail] at h
    | some b =>
      obtain ⟨hbm, hbid⟩ := find_id_mem hf
      simp only [hf] at h ⊢
      by_cases hill : b.pid ≠ p ∨ b.cls ≠ cls ∨ b.n ≠ n
      · rw [if_pos hill] at h; simp [Sys.fail] at h
      · rw [if_neg hill] at h ⊢
        have hbp : b.pid = p := Decidable.byContradiction fun h => hill (Or.inl h)
        by_cases hpath : n = 1 ∧ cls = st.params
        · rw [if_pos hpath] at h ⊢
          cases hpr : b.prov with
          | raw => simp [hpr, Sys.fail] at h
          | pool q =>
            simp only
            refine ⟨st, b, (by first | rfl | trivial), hbm, hbid, hbp, (by first | rfl | trivial), ?_, ?_⟩
            · intro j hj; exact List.getElem?_set_ne (fun e => hj e.symm)
            · exact ⟨_, getElem?_set_same hst, rfl, rfl⟩
        · rw [if_neg hpath] at h ⊢
          cases hpr : b.prov with
          | pool q => simp [hpr, Sys.fail] at h
          | raw =>
            simp only
            exact ⟨st, b, (by first | rfl | trivial), hbm, hbid, hbp, (by first | rfl | trivial), fun j _ => (by first | rfl | trivial), st, hst, rfl, rfl⟩

theorem doCopy_ok {s : Sys} {p : Nat} (h : (doCopy s p).err = none) :
    ∃ st, livePool s p = some st ∧ (doCopy s p).blocks = s.blocks ∧ (doCopy s p).base = s.base ∧
      (∀ j, j ≠ p → (doCopy s p).pools[j]? = s.pools[j]?) ∧
      (doCopy s p).pools[p]? = some { st with refs := st.refs + 1 } := by
  unfold doCopy at h ⊢
  cases hl : livePool s p with
  | none => simp [hl, Sys.fail] at h
  | some st =>
    obtain ⟨hst, hd⟩ := livePool_eq_some.mp hl
    exact ⟨st, rfl, rfl, rfl, fun j hj => List.getElem?_set_ne (fun e => hj e.symm), getElem?_set_same hst⟩

/-- a successful destructor call: one owner less; the last owner is only dropped when the pool has no live block -/
theorem doDrop_ok {s : Sys} (hi : Inv s) {p : Nat} (h : (doDrop s p).err = none) :
    ∃ st, livePool s p = some st ∧ (doDrop s p).blocks = s.blocks ∧
      (∀ j, j ≠ p → (doDrop s p).pools[j]? = s.pools[j]?) ∧
      (∃ st', (doDrop s p).pools[p]? = some st' ∧ st'.refs = st.refs - 1 ∧ st'.params = st.params ∧
          st'.allocCount = st.allocCount) ∧
      (st.refs = 1 → ∀ b ∈ s.blocks, b.pid ≠ p) := by
  unfold doDrop at h ⊢
  cases hl : livePool s p with
  | none => simp [hl, Sys.fail] at h
  | some st =>
    simp only [hl] at h ⊢
    obtain ⟨hst, hd⟩ := livePool_eq_some.mp hl
    by_cases h2 : 2 ≤ st.refs
    · rw [if_pos h2]
      refine ⟨st, rfl, rfl, fun j hj => List.getElem?_set_ne (fun e => hj e.symm),
        ⟨_, getElem?_set_same hst, rfl, rfl, rfl⟩, fun h1 => by omega⟩
    · rw [if_neg h2] at h ⊢
      by_cases hb : (s.blocks.any fun b => b.pid == p) = true
      · rw [if_pos hb] at h; simp [Sys.fail] at h
      · rw [if_neg hb] at h ⊢
        by_cases hc : st.allocCount ≠ 0
        · rw [if_pos hc] at h; simp [Sys.fail] at h
        · rw [if_neg hc]
          have hr : st.refs ≠ 0 := by
            intro hr0
            have := (hi.refs p st hst).mpr hr0
            rw [hd] at this; cases this
          refine ⟨st, rfl, rfl, fun j hj => List.getElem?_set_ne (fun e => hj e.symm),
            ⟨_, getElem?_set_same hst, by simp only; omega, rfl, rfl⟩, ?_⟩
          intro _ b hbm hbp
          apply hb
          simp only [List.any_eq_true]
          exact ⟨b, hbm, by simp [hbp]⟩

theorem doNew_ok (s : Sys) (cls : Cls) (cb : Nat) :
    (doNew s cls cb).blocks = s.blocks ∧ (doNew s cls cb).err = s.err ∧
    (doNew s cls cb).pools = s.pools ++ [⟨cls, 0, 1, false⟩] := ⟨rfl, rfl, rfl⟩

/-- `allocate` through pool `p` leaves the ledger entries of every other pool alone -/
theorem doAlloc_base_other (s : Sys) (p : Nat) (cls : Cls) (n id : Nat) (mallocs : List Nat) (x : Base) (hx : x.pid ≠ p) :
    x ∈ (doAlloc s p cls n id mallocs).base ↔ x ∈ s.base := by
  unfold doAlloc
  split
  · rfl
  · split
    · rfl
    · split
      · simp only [List.mem_append, List.mem_map]
        constructor
        · rintro (⟨m, _, rfl⟩ | h)
          · exact absurd rfl hx
          · split at h
            · exact h
            · exact (List.mem_filter.mp h).1
        · intro h
          right
          split
          · exact h
          · exact List.mem_filter.mpr ⟨h, by simp [hx]⟩
      · simp only [List.mem_cons]
        constructor
        · rintro (rfl | h)
          · exact absurd rfl hx
          · exact h
        · exact Or.inr

/-- `deallocate` through pool `p` leaves the ledger entries of every other pool alone -/
theorem doDealloc_base_other (s : Sys) (p : Nat) (cls : Cls) (n id : Nat) (frees : List Nat) (x : Base) (hx : x.pid ≠ p) :
    x ∈ (doDealloc s p cls n id frees).base ↔ x ∈ s.base := by
  unfold doDealloc
  split
  · rfl
  · split
    · rfl
    · split
      · rfl
      · split
        · split
          · rfl
          · simp only [List.mem_filter]
            exact ⟨fun h => h.1, fun h => ⟨h, by simp [hx]⟩⟩
        · split
          · rfl
          · simp only [List.mem_filter]
            exact ⟨fun h => h.1, fun h => ⟨h, by simp [hx]⟩⟩

end Momo.PoolAlloc
