import Momo.Proof.MMLedgerArr
/-!
  C03 / C04 for `momo::HashMultiMap`, part 2: every operation of the container on the ledger.

  For every configuration, hash function, state, arguments and fault record: if the monitor holds exactly the container's
  books plus a frame, then after the operation it holds exactly the NEW books plus the same frame; a failing strongly
  exception-safe operation returns the very same container.  The key table's part of each statement is the corresponding
  lemma of `HTLedgerOps` / `HTLedgerReloc` / `HTLedgerSys` with the value side as its frame.
-/
namespace Momo.MML
open Momo Momo.HT Momo.Ledger Momo.MMap Momo.HTL

/-! ### the books of the value arrays, one key set apart -/

theorem lookV_split {l : VBs} {k : Nat} {b : VB} (h : lookV l k = some b) :
    ∃ l1 l2, l = l1 ++ (k, b) :: l2 ∧ dropV l k = l1 ++ l2 := by
  induction l with
  | nil => simp [lookV] at h
  | cons p r ih =>
    obtain ⟨k', b0⟩ := p
    by_cases hk : k' = k
    · subst hk
      simp only [lookV, if_true, Option.some.injEq] at h
      subst h
      exact ⟨[], r, rfl, by simp [dropV]⟩
    · simp only [lookV, hk, if_false] at h
      obtain ⟨l1, l2, h1, h2⟩ := ih h
      exact ⟨(k', b0) :: l1, l2, by rw [h1]; rfl, by simp only [dropV, hk, if_false, h2]; rfl⟩

theorem lookV_none_drop {l : VBs} {k : Nat} (h : lookV l k = none) : dropV l k = l := by
  induction l with
  | nil => rfl
  | cons p r ih =>
    obtain ⟨k', b0⟩ := p
    by_cases hk : k' = k
    · subst hk; simp [lookV] at h
    · simp only [lookV, hk, if_false] at h
      simp only [dropV, hk, if_false, ih h]

theorem vObjs_append (l1 l2 : VBs) : vObjs (l1 ++ l2) = vObjs l1 ++ vObjs l2 := by simp [vObjs]
theorem vHeaps_append (l1 l2 : VBs) : vHeaps (l1 ++ l2) = vHeaps l1 ++ vHeaps l2 := by simp [vHeaps]
theorem vObjs_cons (k : Nat) (b : VB) (l : VBs) : vObjs ((k, b) :: l) = b.objs ++ vObjs l := by simp [vObjs]
theorem vHeaps_cons (k : Nat) (b : VB) (l : VBs) : vHeaps ((k, b) :: l) = optL b.heap ++ vHeaps l := by simp [vHeaps]

theorem vObjs_split (l : VBs) (k : Nat) : (vObjs l).Perm ((getV l k).objs ++ vObjs (dropV l k)) := by
  cases hl : lookV l k with
  | none => simp [getV, hl, lookV_none_drop hl]
  | some b =>
    obtain ⟨l1, l2, h1, h2⟩ := lookV_split hl
    rw [h2]
    conv => lhs; rw [h1]
    simp only [getV, hl, Option.getD_some, vObjs_append, vObjs_cons]
    perm_count

theorem vHeaps_split (l : VBs) (k : Nat) : (vHeaps l).Perm (optL (getV l k).heap ++ vHeaps (dropV l k)) := by
  cases hl : lookV l k with
  | none => simp [getV, hl, lookV_none_drop hl, optL]
  | some b =>
    obtain ⟨l1, l2, h1, h2⟩ := lookV_split hl
    rw [h2]
    conv => lhs; rw [h1]
    simp only [getV, hl, Option.getD_some, vHeaps_append, vHeaps_cons]
    perm_count

/-- the value-side blocks with the heap blocks given as a list -/
def vblk (cfg : Cfg) (crew : Option Nat) (heaps pbufs : List (Nat × Nat)) : List Blk :=
  (optL crew).map (fun b => (b, cfg.h.mgr, cfg.vsz)) ++ heaps.map (blkOf cfg.h) ++ pbufs.map (blkOf cfg.h)

theorem vblocks_eq (cfg : Cfg) (st : St) : st.vblocks cfg = vblk cfg st.vcrew (vHeaps st.vbs) st.pbufs := rfl

theorem vblk_perm (cfg : Cfg) (crew : Option Nat) {h1 h2 : List (Nat × Nat)} (pbufs : List (Nat × Nat)) (hp : h1.Perm h2) :
    (vblk cfg crew h1 pbufs).Perm (vblk cfg crew h2 pbufs) :=
  ((hp.map _).append_left _).append_right _

/-- everything but the value array of key `k` -/
def restB (cfg : Cfg) (st : St) (k : Nat) : List Blk := st.kt.blocks cfg.h ++ vblk cfg st.vcrew (vHeaps (dropV st.vbs k)) st.pbufs
def restE (st : St) (k : Nat) : List Nat := st.kt.elems ++ vObjs (dropV st.vbs k)

theorem key_blocks (cfg : Cfg) (st : St) (k : Nat) (FB : List Blk) :
    (st.blocks cfg ++ FB).Perm (hbk cfg (getV st.vbs k) ++ (restB cfg st k ++ FB)) := by
  have h1 := vblk_perm cfg st.vcrew st.pbufs (vHeaps_split st.vbs k)
  have h2 : (st.blocks cfg ++ FB).Perm ((st.kt.blocks cfg.h ++ vblk cfg st.vcrew (optL (getV st.vbs k).heap ++ vHeaps (dropV st.vbs k)) st.pbufs) ++ FB) := by
    simp only [St.blocks, vblocks_eq]
    exact (h1.append_left _).append_right _
  refine h2.trans ?_
  simp only [restB, vblk, hbk, List.map_append]
  perm_count

theorem key_elems (st : St) (k : Nat) (FE : List Nat) :
    (st.elems ++ FE).Perm ((getV st.vbs k).objs ++ (restE st k ++ FE)) := by
  have h1 := vObjs_split st.vbs k
  have h2 : (st.elems ++ FE).Perm ((st.kt.elems ++ ((getV st.vbs k).objs ++ vObjs (dropV st.vbs k))) ++ FE) := by
    simp only [St.elems]
    exact (h1.append_left _).append_right _
  refine h2.trans ?_
  simp only [restE]
  perm_count

/-- set the array of key `k` apart -/
theorem key_out {cfg : Cfg} {st : St} {w : W} {FB : List Blk} {FE : List Nat} (k : Nat)
    (h : Led w (st.blocks cfg ++ FB) (st.elems ++ FE)) :
    Led w (hbk cfg (getV st.vbs k) ++ (restB cfg st k ++ FB)) ((getV st.vbs k).objs ++ (restE st k ++ FE)) :=
  h.perm (key_blocks cfg st k FB) (key_elems st k FE)

/-- put a new array of key `k` back -/
theorem key_in {cfg : Cfg} {st : St} {w : W} {FB : List Blk} {FE : List Nat} (k : Nat) (b : VB) (c : Nat)
    (h : Led w (hbk cfg b ++ (restB cfg st k ++ FB)) (b.objs ++ (restE st k ++ FE))) :
    Led w (({ st with vbs := setV st.vbs k b, count := c } : St).blocks cfg ++ FB)
      (({ st with vbs := setV st.vbs k b, count := c } : St).elems ++ FE) := by
  refine h.perm ?_ ?_
  · simp only [St.blocks, vblocks_eq, setV, vHeaps_cons, restB, vblk, hbk, List.map_append]
    perm_count
  · simp only [St.elems, setV, vObjs_cons, restE]
    perm_count

/-- the array of key `k` is gone -/
theorem key_gone {cfg : Cfg} {st : St} {w : W} {FB : List Blk} {FE : List Nat} (k : Nat) (kt : HTL.St) (c : Nat)
    (h : Led w (kt.blocks cfg.h ++ (vblk cfg st.vcrew (vHeaps (dropV st.vbs k)) st.pbufs ++ FB)) (kt.elems ++ (vObjs (dropV st.vbs k) ++ FE))) :
    Led w (({ st with kt := kt, vbs := dropV st.vbs k, count := c } : St).blocks cfg ++ FB)
      (({ st with kt := kt, vbs := dropV st.vbs k, count := c } : St).elems ++ FE) := by
  refine h.perm ?_ ?_
  · simp only [St.blocks, vblocks_eq, List.append_assoc]; exact List.Perm.refl _
  · simp only [St.elems, List.append_assoc]; exact List.Perm.refl _

/-- the key table set apart: the value side is its frame -/
theorem kt_out {cfg : Cfg} {st : St} {w : W} {FB : List Blk} {FE : List Nat}
    (h : Led w (st.blocks cfg ++ FB) (st.elems ++ FE)) :
    Led w (st.kt.blocks cfg.h ++ (st.vblocks cfg ++ FB)) (st.kt.elems ++ (vObjs st.vbs ++ FE)) := by
  simpa [St.blocks, St.elems, List.append_assoc] using h

theorem kt_in {cfg : Cfg} {st : St} {w : W} {FB : List Blk} {FE : List Nat} (kt : HTL.St)
    (h : Led w (kt.blocks cfg.h ++ (st.vblocks cfg ++ FB)) (kt.elems ++ (vObjs st.vbs ++ FE))) :
    Led w (({ st with kt := kt } : St).blocks cfg ++ FB) (({ st with kt := kt } : St).elems ++ FE) := by
  simpa [St.blocks, St.elems, St.vblocks, List.append_assoc] using h

/-! ### single-element operations -/

/-- what an operation with a result does: ledger on the new books, key table's books well-formed, strong guarantee -/
structure OpPost (cfg : Cfg) (st : St) (FB : List Blk) (FE : List Nat) (st' : St) (w' : W) (failed : Prop) : Prop where
  led : Led w' (st'.blocks cfg ++ FB) (st'.elems ++ FE)
  books : HTL.BooksOK st'.kt
  strong : failed → st' = st

theorem addAtL_led (cfg : Cfg) (hf : Nat → Nat) (st : St) (k v : Nat) (f : Flt) (w : W) (FB : List Blk) (FE : List Nat)
    (hb : HTL.BooksOK st.kt) (h : Led w (st.blocks cfg ++ FB) (st.elems ++ FE)) :
    OpPost cfg st FB FE (addAtL cfg hf st k v f w).1 (addAtL cfg hf st k v f w).2.1 ((addAtL cfg hf st k v f w).2.2 ≠ .done .ok) := by
  unfold addAtL
  split
  · exact ⟨h, hb, fun _ => rfl⟩
  · have h1 := vbAdd_led cfg (getV st.vbs k) v f.v w _ _ (key_out k h)
    cases hr : vbAdd cfg (getV st.vbs k) v f.v w with
    | mk o w1 =>
      rw [hr] at h1
      cases o with
      | none => exact ⟨h1.perm (key_blocks cfg st k FB).symm (key_elems st k FE).symm, hb, fun _ => rfl⟩
      | some b => exact ⟨key_in k b _ h1, hb, fun hc => absurd rfl hc⟩

theorem addL_led (cfg : Cfg) (hf : Nat → Nat) (st : St) (k tg v : Nat) (f : Flt) (w : W) (FB : List Blk) (FE : List Nat)
    (hb : HTL.BooksOK st.kt) (h : Led w (st.blocks cfg ++ FB) (st.elems ++ FE)) :
    OpPost cfg st FB FE (addL cfg hf st k tg v f w).1 (addL cfg hf st k tg v f w).2.1 ((addL cfg hf st k tg v f w).2.2 ≠ .done .ok) := by
  unfold addL
  split
  · exact ⟨h, hb, fun _ => rfl⟩
  · split
    · have h1 := vbAdd_led cfg (getV st.vbs k) v f.v w _ _ (key_out k h)
      cases hr : vbAdd cfg (getV st.vbs k) v f.v w with
      | mk o w1 =>
        rw [hr] at h1
        cases o with
        | none => exact ⟨h1.perm (key_blocks cfg st k FB).symm (key_elems st k FE).symm, hb, fun _ => rfl⟩
        | some b => exact ⟨key_in k b _ h1, hb, fun hc => absurd rfl hc⟩
    · obtain ⟨a1, a2⟩ := HTL.addL_led cfg.h hf st.kt ⟨k, tg⟩ .fresh { f.k with create := f.k.create || f.v.pool || f.v.create } w
        (st.vblocks cfg ++ FB) (vObjs st.vbs ++ FE) (vObjs st.vbs ++ FE) hb (crSpec_fresh cfg.h _) (kt_out h)
      generalize HTL.addL cfg.h hf st.kt ⟨k, tg⟩ .fresh { f.k with create := f.k.create || f.v.pool || f.v.create } w = r at a1 a2 ⊢
      obtain ⟨kt1, w1, o⟩ := r
      cases o with
      | ok =>
        obtain ⟨b1, b2⟩ := a2 rfl
        simp only at b1 b2 ⊢
        refine ⟨?_, b2, fun hc => absurd rfl hc⟩
        obtain ⟨c1, c2⟩ := b1.ctor
        rw [c2]
        refine c1.perm ?_ ?_
        · simp only [St.blocks, vblocks_eq, vHeaps_cons, optL, List.nil_append, List.append_assoc]; exact List.Perm.refl _
        · simp only [St.elems, vObjs_cons]; perm_count
      | full =>
        obtain ⟨b1, b2⟩ := a1 (by simp)
        simp only at b1 b2 ⊢
        subst b1
        exact ⟨kt_in _ b2, hb, fun _ => rfl⟩
      | badAlloc =>
        obtain ⟨b1, b2⟩ := a1 (by simp)
        simp only at b1 b2 ⊢
        subst b1
        exact ⟨kt_in _ b2, hb, fun _ => rfl⟩
      | invalid =>
        obtain ⟨b1, b2⟩ := a1 (by simp)
        simp only at b1 b2 ⊢
        subst b1
        exact ⟨kt_in _ b2, hb, fun _ => rfl⟩

theorem insertKeyL_led (cfg : Cfg) (hf : Nat → Nat) (st : St) (k tg : Nat) (f : Flt) (w : W) (FB : List Blk) (FE : List Nat)
    (hb : HTL.BooksOK st.kt) (h : Led w (st.blocks cfg ++ FB) (st.elems ++ FE)) :
    OpPost cfg st FB FE (insertKeyL cfg hf st k tg f w).1 (insertKeyL cfg hf st k tg f w).2.1
      ((insertKeyL cfg hf st k tg f w).2.2 ≠ .done .ok) := by
  obtain ⟨a1, a2⟩ := HTL.insertL_led cfg.h hf st.kt ⟨k, tg⟩ .fresh f.k w (st.vblocks cfg ++ FB) (vObjs st.vbs ++ FE)
    (vObjs st.vbs ++ FE) hb (crSpec_fresh cfg.h _) (kt_out h)
  unfold insertKeyL
  by_cases hr : (HTL.insertL cfg.h hf st.kt ⟨k, tg⟩ .fresh f.k w).2.2 = .done .ok
  · obtain ⟨b1, b2⟩ := a2 hr
    exact ⟨kt_in _ b1, b2, fun hc => absurd hr hc⟩
  · obtain ⟨b1, b2⟩ := a1 hr
    refine ⟨?_, by simp only; rw [b1]; exact hb, fun _ => by simp only; rw [b1]⟩
    simp only; rw [b1]; exact kt_in (st := st) st.kt b2

theorem removeValueL_led (cfg : Cfg) (hf : Nat → Nat) (st : St) (k i : Nat) (f : Flt) (w : W) (FB : List Blk) (FE : List Nat)
    (hb : HTL.BooksOK st.kt) (h : Led w (st.blocks cfg ++ FB) (st.elems ++ FE)) :
    OpPost cfg st FB FE (removeValueL cfg hf st k i f w).1 (removeValueL cfg hf st k i f w).2.1
      ((removeValueL cfg hf st k i f w).2.2 ≠ .done .ok) := by
  unfold removeValueL
  split
  · exact ⟨h, hb, fun _ => rfl⟩
  · split
    · have h1 := vbRemoveAt_led cfg (getV st.vbs k) i f.v w _ _ (key_out k h)
      cases hr : vbRemoveAt cfg (getV st.vbs k) i f.v w with
      | mk o w1 =>
        rw [hr] at h1
        cases o with
        | none => exact ⟨h1.perm (key_blocks cfg st k FB).symm (key_elems st k FE).symm, hb, fun _ => rfl⟩
        | some b => exact ⟨key_in k b _ h1, hb, fun hc => absurd rfl hc⟩
    · exact ⟨h, hb, fun _ => rfl⟩

theorem removeValuesL_led (cfg : Cfg) (hf : Nat → Nat) (st : St) (k : Nat) (w : W) (FB : List Blk) (FE : List Nat)
    (hb : HTL.BooksOK st.kt) (h : Led w (st.blocks cfg ++ FB) (st.elems ++ FE)) :
    Led (removeValuesL cfg hf st k w).2 ((removeValuesL cfg hf st k w).1.blocks cfg ++ FB) ((removeValuesL cfg hf st k w).1.elems ++ FE) ∧
    HTL.BooksOK (removeValuesL cfg hf st k w).1.kt := by
  unfold removeValuesL
  split
  · exact ⟨h, hb⟩
  · refine ⟨?_, hb⟩
    have h1 := vbRemoveAll_led cfg (getV st.vbs k) w _ _ (key_out k h)
    have := key_gone (cfg := cfg) (st := st) (FB := FB) (FE := FE) k st.kt (st.count - (getV st.vbs k).arr.count)
      (by simpa [restB, restE, List.append_assoc] using h1)
    exact this

theorem removeKeyL_led (cfg : Cfg) (hf : Nat → Nat) (st : St) (k : Nat) (f : Flt) (w : W) (FB : List Blk) (FE : List Nat)
    (hb : HTL.BooksOK st.kt) (h : Led w (st.blocks cfg ++ FB) (st.elems ++ FE)) :
    OpPost cfg st FB FE (removeKeyL cfg hf st k f w).1 (removeKeyL cfg hf st k f w).2.1
      ((removeKeyL cfg hf st k f w).2.2.1 ≠ .done .ok) := by
  obtain ⟨a1, a2, a3⟩ := HTL.removeKeyL_led cfg.h hf st.kt k f.k w (st.vblocks cfg ++ FB) (vObjs st.vbs ++ FE) hb (kt_out h)
  unfold removeKeyL
  generalize HTL.removeKeyL cfg.h hf st.kt k f.k w = r at a1 a2 a3 ⊢
  obtain ⟨kt1, w1, o⟩ := r
  by_cases ho : o = .done .ok
  · subst ho
    simp only at a2 a3 ⊢
    refine ⟨?_, a3, fun hc => absurd rfl hc⟩
    -- the key table has let the key go; now the values
    have h0 : Led w1 (({ st with kt := kt1 } : St).blocks cfg ++ FB) (({ st with kt := kt1 } : St).elems ++ FE) := kt_in _ a2
    have h1 := vbRemoveAll_led cfg (getV st.vbs k) w1 _ _ (key_out (st := { st with kt := kt1 }) k h0)
    exact key_gone (cfg := cfg) (st := st) (FB := FB) (FE := FE) k kt1 _ (by simpa [restB, restE, List.append_assoc] using h1)
  · obtain ⟨b1, b2⟩ := a1 ho
    simp only at b1 b2 a2 a3
    subst b1; subst b2
    cases o with
    | done oc => cases oc <;> first | exact absurd rfl ho | exact ⟨h, hb, fun _ => rfl⟩
    | no => exact ⟨h, hb, fun _ => rfl⟩
    | user => exact ⟨h, hb, fun _ => rfl⟩

theorem resetKeyL_led (cfg : Cfg) (hf : Nat → Nat) (st : St) (k tg : Nat) (w : W) (FB : List Blk) (FE : List Nat)
    (h : Led w (st.blocks cfg ++ FB) (st.elems ++ FE)) :
    Led (resetKeyL cfg hf st k tg w).2 ((resetKeyL cfg hf st k tg w).1.blocks cfg ++ FB) ((resetKeyL cfg hf st k tg w).1.elems ++ FE) ∧
    (resetKeyL cfg hf st k tg w).1.kt.arrs = st.kt.arrs ∧ (resetKeyL cfg hf st k tg w).1.kt.params = st.kt.params ∧
    (resetKeyL cfg hf st k tg w).1.kt.bufs = st.kt.bufs ∧ (resetKeyL cfg hf st k tg w).1.kt.els = st.kt.els := by
  unfold resetKeyL
  split
  · rename_i e _ he
    refine ⟨?_, rfl, rfl, rfl, rfl⟩
    have hm : e ∈ st.elems ++ FE :=
      List.mem_append_left _ (List.mem_append_left _ (HTL.lookE_elems he))
    exact (h.use hm)
  · exact ⟨h, rfl, rfl, rfl, rfl⟩

end Momo.MML
