import Momo.Proof.TableAdd
/-!
  C07, queries: `FindRaws` through a unique / multi index, `pvSelect` for every index choice, `FindByUniqueHash`,
  `FindByMultiHash` return what a brute-force scan of the rows returns.
-/
namespace Momo.Table
open List

/-- the brute-force scan: the rows (in table order) that satisfy all equalities and the filter -/
def scan (t : Table) (eqs : List (Nat × Nat)) (filt : Row → Bool) : List Nat :=
  (t.rows.filter (fun r => tupleEq eqs r.vals && filt r)).map (·.id)

/-- in a list of rows with distinct ids, the rows satisfying a predicate that at most one id satisfies -/
theorem filter_unique {st : Store} (hnd : (ids st).Nodup) (P : Row → Bool) {x : Row} (hx : x ∈ st) (hP : P x = true)
    (huniq : ∀ y ∈ st, P y = true → y.id = x.id) : (st.filter P).map (·.id) = [x.id] := by
  induction st with
  | nil => simp at hx
  | cons a as ih =>
    unfold ids at hnd
    rw [map_cons, nodup_cons] at hnd
    rcases mem_cons.mp hx with h | h
    · subst h
      rw [filter_cons_of_pos hP, map_cons]
      congr 1
      rw [map_eq_nil_iff, filter_eq_nil_iff]
      intro y hy hPy
      have := huniq y (mem_cons_of_mem _ hy) hPy
      exact hnd.1 (this ▸ mem_map_of_mem hy)
    · have hne : P a = false := by
        by_contra hc
        have hPa : P a = true := by simpa using hc
        have := huniq a mem_cons_self hPa
        exact hnd.1 (this ▸ mem_map_of_mem h)
      rw [filter_cons_of_neg (by simp [hne])]
      exact ih hnd.2 h (fun y hy => huniq y (mem_cons_of_mem _ hy))

section queries
variable {vis : Vis} (hc : Complete vis) (acc : Acc) (hacc : AccComm acc) (keep : Bool)
include hc hacc

/-- **`FindRaws(uniqueHashIndex, tuple)`** = the row with these values on the columns of the index, if any -/
theorem findRawsU_eq_scan (t : Table) (hinv : Inv acc keep t) (i : Nat) (u : UIdx) (hu : t.uidx[i]? = some u)
    (tuple : List (Nat × Nat)) (hcols : (tuple.map (·.1)).Perm u.cols) :
    findRawsU vis acc t i tuple = scan t tuple (fun _ => true) := by
  have huinv := hinv.uinv u (mem_of_getElem? hu)
  have hnd := hinv.idsNodup
  unfold findRawsU scan
  rw [hu]
  simp only [Bool.and_true]
  unfold UIdx.findTuple
  have hhash : ∀ e ∈ u.ents, tupleEq tuple (valsOf t.rows e.id) = true → e.h0 = hashTuple acc tuple := by
    intro e he hk
    rw [huinv.hash e he, hashTuple_eq acc tuple _ hk]
    exact hashVals_perm acc hacc _ hcols.symm
  cases hf : u.find vis (hashTuple acc tuple) (fun id => tupleEq tuple (valsOf t.rows id)) with
  | some p =>
    obtain ⟨hp, hk⟩ := u.find_some' _ _ hf
    simp only
    have hin : u.idAt p ∈ ids t.rows := huinv.perm.mem_iff.mp (u.idAt_mem hp)
    obtain ⟨x, hx, hxid⟩ := mem_ids_iff.mp hin
    rw [← hxid, valsOf_mem hnd hx] at hk
    rw [← hxid]
    symm
    apply filter_unique hnd _ hx hk
    intro y hy hPy
    apply huinv.uniq y.id (mem_ids_iff.mpr ⟨y, hy, rfl⟩) x.id (mem_ids_iff.mpr ⟨x, hx, rfl⟩)
    rw [valsOf_mem hnd hy, valsOf_mem hnd hx, tupleEq_keyEq tuple u.cols y.vals x.vals hcols hPy]
    exact hk
  | none =>
    simp only
    have hn := UIdx.find_none' hc u _ _ hhash hf
    symm
    rw [map_eq_nil_iff, filter_eq_nil_iff]
    intro x hx hPx
    have hxin : x.id ∈ u.ents.map (·.id) := huinv.perm.mem_iff.mpr (mem_ids_iff.mpr ⟨x, hx, rfl⟩)
    obtain ⟨e, he, hex⟩ := mem_map.mp hxin
    have := hn e he
    rw [hex, valsOf_mem hnd hx] at this
    rw [this] at hPx; exact absurd hPx (by simp)

/-- **`FindRaws(multiHashIndex, tuple)`** = exactly the rows with these values on the columns of the index
    (key row first, then the raw array - an arrangement of the scan) -/
theorem findRawsM_perm_scan (t : Table) (hinv : Inv acc keep t) (i : Nat) (m : MIdx) (hm : t.midx[i]? = some m)
    (tuple : List (Nat × Nat)) (hcols : (tuple.map (·.1)).Perm m.cols) :
    (findRawsM vis acc t i tuple).Perm (scan t tuple (fun _ => true)) := by
  have hminv := hinv.minv m (mem_of_getElem? hm)
  have hnd := hinv.idsNodup
  unfold findRawsM scan
  rw [hm]
  simp only [Bool.and_true]
  unfold MIdx.findTuple
  have hkeymem : ∀ g ∈ m.groups, g.key ∈ ids t.rows := fun g hg => hminv.members_sub hg _ (by simp [Group.members])
  have hhash : ∀ g ∈ m.groups, tupleEq tuple (valsOf t.rows g.key) = true → g.h0 = hashTuple acc tuple := by
    intro g hg hk
    rw [hminv.hash g hg, hashTuple_eq acc tuple _ hk]
    exact hashVals_perm acc hacc _ hcols.symm
  have hscan_nd : ((t.rows.filter (fun r => tupleEq tuple r.vals)).map (·.id)).Nodup :=
    (filter_sublist.map _).nodup hnd
  cases hf : m.find vis (hashTuple acc tuple) (fun id => tupleEq tuple (valsOf t.rows id)) with
  | some p =>
    obtain ⟨hp, hk⟩ := m.find_some' _ _ hf
    simp only
    have hg : (m.groups.getD p default) = m.groups[p] := by rw [getD_eq_getElem?_getD, getElem?_eq_getElem hp]; rfl
    rw [hg]
    have hgm : m.groups[p] ∈ m.groups := getElem_mem hp
    rw [m.keyAt_lt hp] at hk
    apply (perm_ext_iff_of_nodup (hminv.members_nodup hnd hgm) hscan_nd).mpr
    intro x
    constructor
    · intro hx
      have hxin := hminv.members_sub hgm x hx
      obtain ⟨row, hrow, rfl⟩ := mem_ids_iff.mp hxin
      apply mem_map.mpr ⟨row, mem_filter.mpr ⟨hrow, ?_⟩, rfl⟩
      have h1 := hminv.member_key hgm hx
      rw [valsOf_mem hnd hrow] at h1
      rw [← tupleEq_keyEq tuple m.cols _ row.vals hcols hk]; exact h1
    · intro hx
      obtain ⟨row, hrow, rfl⟩ := mem_map.mp hx
      obtain ⟨hrow, hP⟩ := mem_filter.mp hrow
      obtain ⟨g', hg', hxg'⟩ := hminv.group_of (mem_ids_iff.mpr ⟨row, hrow, rfl⟩)
      -- the group of `row` has the key of the tuple as well: it is the group found
      have h1 := hminv.member_key hg' hxg'
      rw [valsOf_mem hnd hrow] at h1
      have hk' : tupleEq tuple (valsOf t.rows g'.key) = true := by
        rw [← tupleEq_keyEq tuple m.cols row.vals _ hcols hP, keyEq_symm]; exact h1
      have hsame : keyEq m.cols (valsOf t.rows m.groups[p].key) (valsOf t.rows g'.key) = true := by
        rw [tupleEq_keyEq tuple m.cols _ _ hcols hk]; exact hk'
      obtain ⟨q, hq, rfl⟩ := getElem_of_mem hg'
      have hpq : p = q := by
        by_contra hne
        have hd := pairwise_iff_getElem.mp hminv.distinct
        rcases Nat.lt_or_ge p q with h | h
        · have := hd p q (by rw [length_map]; exact hp) (by rw [length_map]; exact hq) h
          simp only [getElem_map] at this
          rw [hsame] at this; exact absurd this (by simp)
        · have := hd q p (by rw [length_map]; exact hq) (by rw [length_map]; exact hp) (by omega)
          simp only [getElem_map] at this
          rw [keyEq_symm, hsame] at this; exact absurd this (by simp)
      subst hpq
      exact hxg'
  | none =>
    simp only
    have hn := MIdx.find_none' hc m _ _ hhash hf
    have : (t.rows.filter (fun r => tupleEq tuple r.vals)).map (·.id) = [] := by
      rw [map_eq_nil_iff, filter_eq_nil_iff]
      intro x hx hPx
      obtain ⟨g', hg', hxg'⟩ := hminv.group_of (mem_ids_iff.mpr ⟨x, hx, rfl⟩)
      have h1 := hminv.member_key hg' hxg'
      rw [valsOf_mem hnd hx] at h1
      have : tupleEq tuple (valsOf t.rows g'.key) = true := by
        rw [← tupleEq_keyEq tuple m.cols x.vals _ hcols hPx, keyEq_symm]; exact h1
      rw [hn g' hg'] at this; exact absurd this (by simp)
    rw [this]

end queries

/-! ### `pvSelect` -/

/-- an index choice `pvSelect` may make: a unique / multi index all of whose columns occur in the equalities, or
    the full scan -/
def ValidPath (t : Table) (eqCols : List Nat) : Path → Prop
  | .scan => True
  | .unique i => ∃ u, t.uidx[i]? = some u ∧ ∀ c ∈ u.cols, c ∈ eqCols
  | .multi i => ∃ m, t.midx[i]? = some m ∧ ∀ c ∈ m.cols, c ∈ eqCols

theorem part_cols (eqs : List (Nat × Nat)) (cols : List Nat) (hnd : (eqs.map (·.1)).Nodup) (hcn : cols.Nodup)
    (hsub : ∀ c ∈ cols, c ∈ eqs.map (·.1)) : ((eqs.filter (fun p => cols.contains p.1)).map (·.1)).Perm cols := by
  have e : (eqs.filter (fun p => cols.contains p.1)).map (·.1) = (eqs.map (·.1)).filter (fun c => cols.contains c) := by
    rw [filter_map]; rfl
  rw [e]
  apply (perm_ext_iff_of_nodup (hnd.filter _) hcn).mpr
  intro c
  rw [mem_filter]
  constructor
  · intro h; simpa using h.2
  · intro h; exact ⟨hsub c h, by simpa using h⟩

theorem tupleEq_split (eqs : List (Nat × Nat)) (P : Nat × Nat → Bool) (v : List Nat) :
    tupleEq eqs v = (tupleEq (eqs.filter P) v && tupleEq (eqs.filter (fun p => !P p)) v) := by
  unfold tupleEq
  induction eqs with
  | nil => rfl
  | cons p ps ih =>
    by_cases hp : P p = true
    · rw [filter_cons_of_pos hp, filter_cons_of_neg (by simp [hp])]
      simp only [all_cons]; rw [ih, Bool.and_assoc]
    · have hp' : P p = false := by simpa using hp
      rw [filter_cons_of_neg (by simp [hp']), filter_cons_of_pos (by simp [hp'])]
      simp only [all_cons]; rw [ih]
      cases (item v p.1 == p.2) <;> cases (filter P ps).all (fun p => item v p.1 == p.2) <;> simp

theorem filter_ids {st : Store} (hnd : (ids st).Nodup) (P : Row → Bool) : ∀ (rs : List Row), (∀ r ∈ rs, r ∈ st) →
    (rs.map (·.id)).filter (fun id => match rowOf st id with | some r => P r | none => false) = (rs.filter P).map (·.id)
  | [], _ => rfl
  | r :: rs, h => by
    have hr := h r mem_cons_self
    have ih := filter_ids hnd P rs (fun x hx => h x (mem_cons_of_mem _ hx))
    rw [map_cons, filter_cons, rowOf_mem hnd hr]
    simp only
    by_cases hP : P r = true
    · rw [if_pos hP, filter_cons_of_pos hP, map_cons, ih]
    · rw [if_neg hP, filter_cons_of_neg hP, ih]

section select
variable {vis : Vis} (hc : Complete vis) (acc : Acc) (hacc : AccComm acc) (keep : Bool)
include hc hacc

/-- **`Select` through any admissible index = brute-force scan** (as a list for the scan and a unique index; an
    arrangement of it for a multi index, whose order is the storage order of the group) -/
theorem selectVia_perm_scan (t : Table) (hinv : Inv acc keep t) (eqs : List (Nat × Nat)) (hnd : (eqs.map (·.1)).Nodup)
    (filt : Row → Bool) (path : Path) (hv : ValidPath t (eqs.map (·.1)) path) :
    (selectVia vis acc t eqs filt path).Perm (scan t eqs filt) ∧
    ((∀ i, path ≠ .multi i) → selectVia vis acc t eqs filt path = scan t eqs filt) := by
  have hidn := hinv.idsNodup
  have key : ∀ (cols : List Nat) (L : List Nat), cols.Nodup → (∀ c ∈ cols, c ∈ eqs.map (·.1)) →
      L.Perm (scan t (eqs.filter (fun p => cols.contains p.1)) (fun _ => true)) →
      (L.filter (fun id => match rowOf t.rows id with
        | some r => tupleEq (eqs.filter (fun p => !cols.contains p.1)) r.vals && filt r | none => false)).Perm (scan t eqs filt) ∧
      (L = scan t (eqs.filter (fun p => cols.contains p.1)) (fun _ => true) →
        L.filter (fun id => match rowOf t.rows id with
          | some r => tupleEq (eqs.filter (fun p => !cols.contains p.1)) r.vals && filt r | none => false) = scan t eqs filt) := by
    intro cols L _ _ hL
    have hfin : (scan t (eqs.filter (fun p => cols.contains p.1)) (fun _ => true)).filter (fun id => match rowOf t.rows id with
        | some r => tupleEq (eqs.filter (fun p => !cols.contains p.1)) r.vals && filt r | none => false) = scan t eqs filt := by
      unfold scan
      rw [filter_ids hidn _ _ (fun r hr => (mem_filter.mp hr).1), filter_filter]
      congr 1
      apply filter_congr
      intro r _
      rw [tupleEq_split eqs (fun p => cols.contains p.1) r.vals]
      simp only [Bool.and_true]
      cases tupleEq (eqs.filter (fun p => cols.contains p.1)) r.vals <;>
        cases tupleEq (eqs.filter (fun p => !cols.contains p.1)) r.vals <;> cases filt r <;> rfl
    exact ⟨(hL.filter _).trans (Perm.of_eq hfin), fun e => by rw [e]; exact hfin⟩
  cases path with
  | scan =>
    have : selectVia vis acc t eqs filt .scan = scan t eqs filt := by
      unfold selectVia pathRaws scan
      simp only
      exact filter_ids hidn _ t.rows (fun r hr => hr)
    exact ⟨Perm.of_eq this, fun _ => this⟩
  | unique i =>
    obtain ⟨u, hu, hsub⟩ := hv
    have huinv := hinv.uinv u (mem_of_getElem? hu)
    have hpc := part_cols eqs u.cols hnd huinv.colsNodup hsub
    have hfr := findRawsU_eq_scan hc acc hacc keep t hinv i u hu _ hpc
    have := key u.cols _ huinv.colsNodup hsub (Perm.of_eq hfr)
    have hp : pathRaws vis acc t eqs (.unique i) = (findRawsU vis acc t i (eqs.filter (fun p => u.cols.contains p.1)),
        eqs.filter (fun p => !u.cols.contains p.1)) := by simp only [pathRaws, hu]
    unfold selectVia
    rw [hp]
    exact ⟨this.1, fun _ => this.2 hfr⟩
  | multi i =>
    obtain ⟨m, hm, hsub⟩ := hv
    have hminv := hinv.minv m (mem_of_getElem? hm)
    have hpc := part_cols eqs m.cols hnd hminv.colsNodup hsub
    have hfr := findRawsM_perm_scan hc acc hacc keep t hinv i m hm _ hpc
    have := key m.cols _ hminv.colsNodup hsub hfr
    have hp : pathRaws vis acc t eqs (.multi i) = (findRawsM vis acc t i (eqs.filter (fun p => m.cols.contains p.1)),
        eqs.filter (fun p => !m.cols.contains p.1)) := by simp only [pathRaws, hm]
    unfold selectVia
    rw [hp]
    exact ⟨this.1, fun h => absurd rfl (h i)⟩

end select

theorem fitUnique_valid (us : List UIdx) (eqCols : List Nat) (i : Nat) (h : fitUnique us eqCols = some i) :
    ∃ u, us[i]? = some u ∧ ∀ c ∈ u.cols, c ∈ eqCols := by
  unfold fitUnique at h
  simp only at h
  split at h
  · rename_i hlt
    simp only [Option.some.injEq] at h
    subst h
    refine ⟨us[findIdx _ us], getElem?_eq_getElem hlt, ?_⟩
    have := findIdx_getElem (w := hlt)
    intro c hc
    simpa using (all_eq_true.mp this) c hc
  · simp at h

theorem fitMultiLoop_valid (eqCols : List Nat) (full : List MIdx) : ∀ (ms : List MIdx) (j : Nat) (best : Option Nat) (maxKeys i : Nat),
    (∀ k m, ms[k]? = some m → full[j + k]? = some m) →
    (∀ b, best = some b → ∃ m, full[b]? = some m ∧ ∀ c ∈ m.cols, c ∈ eqCols) →
    fitMultiLoop eqCols ms j best maxKeys = some i → ∃ m, full[i]? = some m ∧ ∀ c ∈ m.cols, c ∈ eqCols
  | [], _, best, _, i, _, hb, h => by
    unfold fitMultiLoop at h; exact hb i h
  | m :: ms, j, best, maxKeys, i, hfull, hb, h => by
    unfold fitMultiLoop at h
    have hfull' : ∀ k m', ms[k]? = some m' → full[j + 1 + k]? = some m' := by
      intro k m' hk
      have := hfull (k + 1) m' (by simpa using hk)
      rw [← this]; congr 1; omega
    split at h
    · rename_i hcond
      refine fitMultiLoop_valid eqCols full ms (j + 1) (some j) m.groups.length i hfull' ?_ h
      intro b hbj
      simp only [Option.some.injEq] at hbj
      subst hbj
      refine ⟨m, by simpa using hfull 0 m (by simp), ?_⟩
      intro c hcm
      simpa using (all_eq_true.mp hcond.1) c hcm
    · exact fitMultiLoop_valid eqCols full ms (j + 1) best maxKeys i hfull' hb h

theorem choosePath_valid (t : Table) (eqs : List (Nat × Nat)) : ValidPath t (eqs.map (·.1)) (choosePath t eqs) := by
  unfold choosePath
  split
  · trivial
  · cases hu : fitUnique t.uidx (eqs.map (·.1)) with
    | some i => exact fitUnique_valid _ _ _ hu
    | none =>
      simp only
      cases hm : fitMulti t.midx (eqs.map (·.1)) with
      | some i =>
        unfold fitMulti at hm
        exact fitMultiLoop_valid _ t.midx t.midx 0 none 0 i (fun k m h => by simpa using h) (fun b h => by simp at h) hm
      | none => trivial

theorem sameCols_perm (a b : List Nat) (ha : a.Nodup) (h : sameCols a b = true) : a.Perm b := by
  unfold sameCols at h
  simp only [Bool.and_eq_true, beq_iff_eq, all_eq_true] at h
  have hsub : a ⊆ b := fun c hc => by simpa using h.2 c hc
  exact (subperm_of_subset ha hsub).perm_of_length_le (by omega)

theorem indexOfCols_spec (colss : List (List Nat)) (cols : List Nat) (i : Nat) (h : indexOfCols colss cols = some i) :
    ∃ cs, colss[i]? = some cs ∧ sameCols cs cols = true := by
  unfold indexOfCols at h
  simp only at h
  split at h
  · rename_i hlt
    simp only [Option.some.injEq] at h
    subst h
    exact ⟨_, getElem?_eq_getElem hlt, findIdx_getElem (w := hlt)⟩
  · simp at h

section select2
variable {vis : Vis} (hc : Complete vis) (acc : Acc) (hacc : AccComm acc) (keep : Bool)
include hc hacc

/-- **`Select` = brute-force scan**, whatever unique / multi indexes exist and whichever one `pvSelect` picks -/
theorem select_perm_scan (maxEq : Nat) (t : Table) (hinv : Inv acc keep t) :
    ∀ (eqs : List (Nat × Nat)) (filt : Row → Bool), (eqs.map (·.1)).Nodup →
      (select vis acc maxEq t eqs filt).Perm (scan t eqs filt)
  | [], filt, hnd => by
    unfold select
    exact (selectVia_perm_scan hc acc hacc keep t hinv [] hnd filt .scan trivial).1
  | e :: es, filt, hnd => by
    unfold select
    split
    · have hnd' : (es.map (·.1)).Nodup := by rw [map_cons, nodup_cons] at hnd; exact hnd.2
      refine (select_perm_scan maxEq t hinv es (fun r => item r.vals e.1 == e.2 && filt r) hnd').trans (Perm.of_eq ?_)
      unfold scan
      congr 1
      apply filter_congr
      intro r _
      unfold tupleEq
      simp only [all_cons]
      cases (item r.vals e.1 == e.2) <;> cases (es.all fun p => item r.vals p.1 == p.2) <;> cases filt r <;> rfl
    · exact (selectVia_perm_scan hc acc hacc keep t hinv (e :: es) hnd filt _ (choosePath_valid t (e :: es))).1

/-- **`SelectCount` = size of the brute-force scan** -/
theorem selectCount_eq_scan (maxEq : Nat) (t : Table) (hinv : Inv acc keep t) (eqs : List (Nat × Nat)) (filt : Row → Bool)
    (hnd : (eqs.map (·.1)).Nodup) : selectCount vis acc maxEq t eqs filt = (scan t eqs filt).length := by
  unfold selectCount
  exact (select_perm_scan hc acc hacc keep maxEq t hinv eqs filt hnd).length_eq

/-- **`FindByUniqueHash(equalities, index)`** (the index named, or the one with exactly these columns): the row with
    these values, or none - also for values no row has -/
theorem findByUnique_eq_scan (t : Table) (hinv : Inv acc keep t) (idx : Option Nat) (eqs : List (Nat × Nat))
    (hnd : (eqs.map (·.1)).Nodup)
    (hidx : ∀ i, idx = some i → ∃ u, t.uidx[i]? = some u ∧ sameCols u.cols (eqs.map (·.1)) = true)
    (L : List Nat) (h : findByUnique vis acc t idx eqs = some L) : L = scan t eqs (fun _ => true) := by
  unfold findByUnique at h
  have : ∀ i, trueIndex (t.uidx.map (·.cols)) idx (eqs.map (·.1)) = some i →
      ∃ u, t.uidx[i]? = some u ∧ sameCols u.cols (eqs.map (·.1)) = true := by
    intro i hi
    unfold trueIndex at hi
    cases idx with
    | some j => simp only [Option.some.injEq] at hi; subst hi; exact hidx j rfl
    | none =>
      simp only at hi
      obtain ⟨cs, hcs, hsame⟩ := indexOfCols_spec _ _ _ hi
      rw [getElem?_map] at hcs
      cases hu : t.uidx[i]? with
      | none => rw [hu] at hcs; simp at hcs
      | some u => rw [hu] at hcs; simp at hcs; exact ⟨u, rfl, by rw [hcs]; exact hsame⟩
  cases hti : trueIndex (t.uidx.map (·.cols)) idx (eqs.map (·.1)) with
  | none => rw [hti] at h; simp at h
  | some i =>
    rw [hti] at h
    simp only [Option.some.injEq] at h
    obtain ⟨u, hu, hsame⟩ := this i hti
    have hp := (sameCols_perm _ _ (hinv.uinv u (mem_of_getElem? hu)).colsNodup hsame).symm
    rw [← h]
    exact findRawsU_eq_scan hc acc hacc keep t hinv i u hu eqs hp

/-- **`FindByMultiHash(equalities, index)`**: exactly the rows with these values (none for values no row has) -/
theorem findByMulti_perm_scan (t : Table) (hinv : Inv acc keep t) (idx : Option Nat) (eqs : List (Nat × Nat))
    (hnd : (eqs.map (·.1)).Nodup)
    (hidx : ∀ i, idx = some i → ∃ m, t.midx[i]? = some m ∧ sameCols m.cols (eqs.map (·.1)) = true)
    (L : List Nat) (h : findByMulti vis acc t idx eqs = some L) : L.Perm (scan t eqs (fun _ => true)) := by
  unfold findByMulti at h
  have : ∀ i, trueIndex (t.midx.map (·.cols)) idx (eqs.map (·.1)) = some i →
      ∃ m, t.midx[i]? = some m ∧ sameCols m.cols (eqs.map (·.1)) = true := by
    intro i hi
    unfold trueIndex at hi
    cases idx with
    | some j => simp only [Option.some.injEq] at hi; subst hi; exact hidx j rfl
    | none =>
      simp only at hi
      obtain ⟨cs, hcs, hsame⟩ := indexOfCols_spec _ _ _ hi
      rw [getElem?_map] at hcs
      cases hm : t.midx[i]? with
      | none => rw [hm] at hcs; simp at hcs
      | some m => rw [hm] at hcs; simp at hcs; exact ⟨m, rfl, by rw [hcs]; exact hsame⟩
  cases hti : trueIndex (t.midx.map (·.cols)) idx (eqs.map (·.1)) with
  | none => rw [hti] at h; simp at h
  | some i =>
    rw [hti] at h
    simp only [Option.some.injEq] at h
    obtain ⟨m, hm, hsame⟩ := this i hti
    have hp := (sameCols_perm _ _ (hinv.minv m (mem_of_getElem? hm)).colsNodup hsame).symm
    rw [← h]
    exact findRawsM_perm_scan hc acc hacc keep t hinv i m hm eqs hp

end select2

end Momo.Table
