import Momo.Proof.OpenBytesSwar
import Momo.Proof.HashTableInv
/-!
  The byte-level buckets against the C01 model: the abstract bucket of `HT` (items in storage order) is the abstraction of
  the byte-level bucket (`bytesOf`, `Bucket.Inv`), `AddCrt` / `Remove` / `IsFull` commute with the abstraction, and `HT`'s
  in-bucket lookup `keyIdx` agrees with the byte-level `Find` of every variant (scalar forward / reverse, SSE2 mask, SWAR
  mask); hence the table lookup built on the byte-level `Find` is `HT.findTable` and `C01_find_iff` transfers.
-/
namespace Momo.OpenB
open Momo

/-- the three `Find` implementations -/
inductive Variant | n1 | sse | swar
deriving DecidableEq, Repr

def findV (v : Variant) (b : Bucket) (h : Nat) (pred : Nat → Bool) : Option Nat :=
  match v with
  | .n1 => b.findN1 h pred
  | .sse => b.find8sse h pred
  | .swar => b.find8swar h pred

/-- bucket geometries a variant exists for: `BucketOpenN1<., 1..7, reverse>`; `BucketOpen8` = 7 forward slots -/
def Variant.fits (v : Variant) (mc : Nat) (rev : Bool) : Prop :=
  0 < mc ∧ mc < Extracted.openN1MaxCountLimit ∧ (v ≠ .n1 → mc = Extracted.open8MaxCount ∧ rev = false)

/-- hash codes of the items of an abstract bucket, in storage order -/
def hashes (hf : Nat → Nat) (items : List HT.Item) : List Nat := items.map (fun it => hf it.key)

/-- **abstraction**: the bytes of the C01 model's bucket (`bst.1` is the max-probe byte) -/
def bytesOf (mc : Nat) (rev : Bool) (hf : Nat → Nat) (bk : HT.Bucket) : Bucket :=
  encode mc rev (hashes hf bk.items) (bk.bst.1 % 256)

/-- the item predicate of a key lookup, on physical slots: `key(mItems[p]) == k` (false on a slot without item — it is never
    evaluated there, `lookupB_eq_keyIdx` holds for any value) -/
def keyPred (mc : Nat) (rev : Bool) (items : List HT.Item) (k : Nat) : Nat → Bool :=
  fun p => match items[phys mc rev p]? with
    | some it => it.key == k
    | none => false

/-- byte-level in-bucket lookup; the result is the LOGICAL index (position in `GetBounds`) -/
def lookupB (v : Variant) (mc : Nat) (rev : Bool) (hf : Nat → Nat) (bk : HT.Bucket) (k : Nat) : Option Nat :=
  (findV v (bytesOf mc rev hf bk) (hf k) (keyPred mc rev bk.items k)).map (phys mc rev)

theorem encode_inv (mc : Nat) (rev : Bool) (hs : List Nat) (e : Nat) (h0 : 0 < mc) (h8 : mc < Extracted.openN1MaxCountLimit)
    (hl : hs.length ≤ mc) (hh : ∀ h ∈ hs, h < 2 ^ 64) : (encode mc rev hs e).Inv hs := by
  refine ⟨h0, h8, hl, hh, fun j hj => ?_⟩
  have hj' : j < mc := hj
  show (if j < mc then expByte mc rev hs j else e) = expByte mc rev hs j
  rw [if_pos hj']

/-- the item bytes of ANY bucket that satisfies the invariant are the canonical bytes of its abstract content -/
theorem inv_eq_encode {b : Bucket} {hs : List Nat} (hI : b.Inv hs) (j : Nat) (hj : j < b.maxCount) :
    b.data j = (encode b.maxCount b.reverse hs b.maxProbeExp).data j := by
  show b.data j = if j < b.maxCount then expByte b.maxCount b.reverse hs j else b.maxProbeExp
  rw [if_pos hj]; exact hI.2.2.2.2 j hj

theorem keyIdx_eq_some_iff (items : List HT.Item) (k j : Nat) (hnd : (items.map (·.key)).Nodup) :
    HT.keyIdx items k = some j ↔ ∃ it, items[j]? = some it ∧ it.key = k := by
  constructor
  · exact HT.keyIdx_some items k j
  · rintro ⟨it, hj, hk⟩
    have hsome : (HT.keyIdx items k).isSome := (HT.keyIdx_isSome_iff items k).mpr ⟨it, List.mem_of_getElem? hj, hk⟩
    cases hq : HT.keyIdx items k with
    | none => rw [hq] at hsome; cases hsome
    | some j' =>
      obtain ⟨it', hj', hk'⟩ := HT.keyIdx_some items k j' hq
      have hjl : j < (items.map (·.key)).length := by
        rw [List.length_map]
        exact (List.getElem?_eq_some_iff.mp hj).1
      have e1 : (items.map (·.key))[j]? = (items.map (·.key))[j']? := by
        rw [List.getElem?_map, List.getElem?_map, hj, hj']; simp [hk, hk']
      rw [(List.getElem?_inj hjl hnd).mp e1]

section lookup
variable (v : Variant) (mc : Nat) (rev : Bool) (hf : Nat → Nat) (bk : HT.Bucket) (k : Nat)

theorem keyPred_true (p : Nat) (hp : keyPred mc rev bk.items k p = true) :
    ∃ it, bk.items[phys mc rev p]? = some it ∧ it.key = k := by
  unfold keyPred at hp
  split at hp
  · rename_i it hit; exact ⟨it, hit, by simpa using hp⟩
  · cases hp

theorem bytesOf_inv (hfit : v.fits mc rev) (hlen : bk.items.length ≤ mc) (hhf : ∀ x, hf x < 2 ^ 64) :
    (bytesOf mc rev hf bk).Inv (hashes hf bk.items) := by
  apply encode_inv mc rev _ _ hfit.1 hfit.2.1
  · simpa [hashes] using hlen
  · intro h hh
    simp only [hashes, List.mem_map] at hh
    obtain ⟨it, _, rfl⟩ := hh
    exact hhf _

theorem hashes_getD (items : List HT.Item) (j : Nat) (it : HT.Item) (hj : items[j]? = some it) :
    (hashes hf items).getD j 0 = hf it.key := by
  simp [hashes, List.getD_eq_getElem?_getD, List.getElem?_map, hj]

/-- every variant is a scan of the candidates of `0 .. maxCount-1` in ascending order (for the SWAR variant: because the key
    predicate is consistent with the short hashes) -/
theorem findV_eq_scan (hfit : v.fits mc rev) (hlen : bk.items.length ≤ mc) (hhf : ∀ x, hf x < 2 ^ 64) :
    findV v (bytesOf mc rev hf bk) (hf k) (keyPred mc rev bk.items k)
      = scan (List.range mc) (bytesOf mc rev hf bk).data (calcShortHash (hf k)) (keyPred mc rev bk.items k) := by
  have hI := bytesOf_inv v mc rev hf bk hfit hlen hhf
  cases v with
  | n1 => exact findN1_eq _ _ _
  | sse =>
    obtain ⟨_, _, h7⟩ := hfit
    obtain ⟨h7, _⟩ := h7 (by decide)
    show (bytesOf mc rev hf bk).find8sse _ _ = _
    rw [(find8sse_eq _ _ _).1, h7]; rfl
  | swar =>
    obtain ⟨_, _, h7⟩ := hfit
    obtain ⟨h7, hr⟩ := h7 (by decide)
    have hmc : (bytesOf mc rev hf bk).maxCount = 7 := h7
    show (bytesOf mc rev hf bk).find8swar _ _ = _
    rw [find8swar_eq_findN1 hmc ?_ _ _ ?_]
    · exact findN1_eq _ _ _
    · intro j hj
      by_cases c : j < 7
      · exact inv_data_lt hI j (by rw [hmc]; exact c)
      · have : j = 7 := by omega
        subst this
        show (if 7 < mc then _ else bk.bst.1 % 256) < 256
        rw [if_neg (by rw [h7]; decide)]
        exact Nat.mod_lt _ (by decide)
    · intro j hj hp
      obtain ⟨it, hit, hk⟩ := keyPred_true mc rev bk k j hp
      have hjm : j < (bytesOf mc rev hf bk).maxCount := by rw [hmc]; exact hj
      have hocc : phys mc rev j < bk.items.length := (List.getElem?_eq_some_iff.mp hit).1
      apply (cand_iff hI (hf k) (hhf k) j hjm).mpr
      refine ⟨?_, ?_⟩
      · show phys mc rev j < (hashes hf bk.items).length
        simpa [hashes] using hocc
      · show calcShortHash ((hashes hf bk.items).getD (phys mc rev j) 0) = _
        rw [hashes_getD hf _ _ it hit, hk]

/-- **`HT`'s in-bucket lookup agrees with the byte-level `Find`** of every variant, for every bucket whose keys are distinct -/
theorem lookupB_eq_keyIdx (hfit : v.fits mc rev) (hlen : bk.items.length ≤ mc) (hhf : ∀ x, hf x < 2 ^ 64)
    (hnd : (bk.items.map (·.key)).Nodup) :
    lookupB v mc rev hf bk k = HT.keyIdx bk.items k := by
  have hI := bytesOf_inv v mc rev hf bk hfit hlen hhf
  unfold lookupB
  rw [findV_eq_scan v mc rev hf bk k hfit hlen hhf]
  have ho : ∀ p ∈ List.range mc, p < (bytesOf mc rev hf bk).maxCount := fun p hp => List.mem_range.mp hp
  cases hq : HT.keyIdx bk.items k with
  | none =>
    rw [scan_none hI (hf k) (hhf k) _ _ ho]
    · rfl
    · intro q hit
      obtain ⟨it, hit', hk⟩ := keyPred_true mc rev bk k q hit.2.2.2
      exact HT.keyIdx_none bk.items k hq it (List.mem_of_getElem? hit') hk
  | some j =>
    obtain ⟨it, hj, hk⟩ := HT.keyIdx_some bk.items k j hq
    have hjl : j < bk.items.length := (List.getElem?_eq_some_iff.mp hj).1
    have hjm : j < mc := by omega
    have hpp : phys mc rev (phys mc rev j) = j := phys_phys mc rev j hjm
    have hit : Hit (bytesOf mc rev hf bk) (hashes hf bk.items) (hf k) (keyPred mc rev bk.items k) (phys mc rev j) := by
      refine ⟨phys_lt mc rev j hjm, ?_, ?_, ?_⟩
      · show phys mc rev (phys mc rev j) < (hashes hf bk.items).length
        rw [hpp]; simpa [hashes] using hjl
      · show calcShortHash ((hashes hf bk.items).getD (phys mc rev (phys mc rev j)) 0) = _
        rw [hpp, hashes_getD hf _ _ it hj, hk]
      · unfold keyPred
        rw [hpp, hj]; simp [hk]
    rw [scan_unique hI (hf k) (hhf k) _ _ ho (phys mc rev j) (List.mem_range.mpr (phys_lt mc rev j hjm)) hit]
    · show some (phys mc rev (phys mc rev j)) = some j
      rw [hpp]
    · intro q hq'
      obtain ⟨it', hit', hk'⟩ := keyPred_true mc rev bk k q hq'.2.2.2
      have e := (keyIdx_eq_some_iff bk.items k (phys mc rev q) hnd).mpr ⟨it', hit', hk'⟩
      rw [hq] at e
      have : j = phys mc rev q := by simpa using e
      rw [this, phys_phys mc rev q hq'.1]

end lookup
/-! ### the bucket operations commute with the abstraction -/

theorem hashes_pushItem (hf : Nat → Nat) (sp : HT.Spec) (it : HT.Item) (bk : HT.Bucket) :
    hashes hf (HT.pushItem sp it bk).items = absStep (hashes hf bk.items) (.add (hf it.key)) := by
  simp [hashes, absStep]

theorem hashes_removeAt (hf : Nat → Nat) (j : Nat) (bk : HT.Bucket) :
    hashes hf (HT.removeAt j bk).items = absStep (hashes hf bk.items) (.rem j) := by
  unfold HT.removeAt hashes absStep
  simp only [List.getLast?_map]
  cases bk.items.getLast? with
  | none => rfl
  | some l => simp [List.map_dropLast, List.map_set]

/-- `AddCrt` on the bytes of an abstract bucket yields the bytes of `HT.pushItem`, `Remove` those of `HT.removeAt`, and
    `IsFull` / `WasFull` read off the bytes are the model's -/
theorem bytesOf_step (v : Variant) (mc : Nat) (rev : Bool) (hf : Nat → Nat) (sp : HT.Spec) (bk : HT.Bucket)
    (hfit : v.fits mc rev) (hmc : sp.maxCount = mc) (hunl : sp.unlimited = false) (hlen : bk.items.length ≤ mc)
    (hhf : ∀ x, hf x < 2 ^ 64) :
    ((bytesOf mc rev hf bk).isFull = HT.isFull sp bk) ∧
    ((bytesOf mc rev hf bk).count = bk.items.length) ∧
    (∀ it, bk.items.length < mc → ∀ j, j < mc →
        ((bytesOf mc rev hf bk).addCrt (hf it.key)).data j = (bytesOf mc rev hf (HT.pushItem sp it bk)).data j) ∧
    (∀ index, index < bk.items.length → ∀ j, j < mc →
        ((bytesOf mc rev hf bk).remove index).data j = (bytesOf mc rev hf (HT.removeAt index bk)).data j) := by
  have hI := bytesOf_inv v mc rev hf bk hfit hlen hhf
  have hl : (hashes hf bk.items).length = bk.items.length := by simp [hashes]
  refine ⟨?_, ?_, ?_, ?_⟩
  · rw [inv_isFull_eq hI, hl]
    unfold HT.isFull
    rw [hunl, hmc]
    show decide (bk.items.length = mc) = (true && decide (bk.items.length ≥ mc))
    rw [Bool.true_and]
    exact decide_eq_decide.mpr ⟨fun h => by omega, fun h => by omega⟩
  · rw [inv_count_eq hI, hl]
  · intro it hlt j hj
    have h1 := step_inv _ _ (.add (hf it.key)) hI ⟨by rw [hl]; exact hlt, hhf _⟩
    rw [← hashes_pushItem hf sp] at h1
    have h2 := h1.2.2.2.2 j hj
    have hlen' : (HT.pushItem sp it bk).items.length ≤ mc := by simp; omega
    have h3 := (bytesOf_inv v mc rev hf (HT.pushItem sp it bk) hfit hlen' hhf).2.2.2.2 j hj
    exact h2.trans h3.symm
  · intro index hidx j hj
    have h1 := step_inv _ _ (.rem index) hI (by show index < (hashes hf bk.items).length; rw [hl]; exact hidx)
    rw [← hashes_removeAt hf] at h1
    have h2 := h1.2.2.2.2 j hj
    have hlen' : (HT.removeAt index bk).items.length ≤ mc := by
      have h4 : (hashes hf (HT.removeAt index bk).items).length ≤ mc := h1.2.2.1
      simpa [hashes] using h4
    have h3 := (bytesOf_inv v mc rev hf (HT.removeAt index bk) hfit hlen' hhf).2.2.2.2 j hj
    exact h2.trans h3.symm

/-! ### table level: `HT.findTable` with the byte-level `Find` in every bucket -/

/-- `HT.findLoop` with an arbitrary in-bucket lookup -/
def findLoopB (look : HT.Bucket → Option Nat) (sp : HT.Spec) (g : HT.Gen) (maxP : Nat) : Nat → Nat → Nat → Option (Nat × Nat)
  | 0, _, _ => none
  | fuel+1, probe, idx =>
    if (HT.bkt sp g.bs idx).wasFull && decide (probe ≤ maxP) then
      match look (HT.bkt sp g.bs (HT.nextIdx sp g.L idx probe)) with
      | some j => some (HT.nextIdx sp g.L idx probe, j)
      | none => findLoopB look sp g maxP fuel (probe + 1) (HT.nextIdx sp g.L idx probe)
    else none

/-- `HT.findGen` with an arbitrary in-bucket lookup -/
def findGenB (look : HT.Bucket → Option Nat) (sp : HT.Spec) (g : HT.Gen) (h : Nat) : Option (Nat × Nat) :=
  match look (HT.bkt sp g.bs (Probe.start g.L h)) with
  | some j => some (Probe.start g.L h, j)
  | none =>
    findLoopB look sp g (HT.maxProbe sp g.L (HT.bkt sp g.bs (Probe.start g.L h)))
      (HT.maxProbe sp g.L (HT.bkt sp g.bs (Probe.start g.L h)) + 1) 1 (Probe.start g.L h)

def findGoB (look : HT.Bucket → Option Nat) (sp : HT.Spec) (h : Nat) : Nat → List HT.Gen → Option (Nat × Nat × Nat)
  | _, [] => none
  | gi, g :: rest =>
    match findGenB look sp g h with
    | some (b, j) => some (gi, b, j)
    | none => if sp.nothrowReloc then none else findGoB look sp h (gi + 1) rest

/-- `HT.findTable` (`pvFind`) with an arbitrary in-bucket lookup -/
def findTableB (look : HT.Bucket → Option Nat) (sp : HT.Spec) (hf : Nat → Nat) (t : HT.Table) (k : Nat) :
    Option (Nat × Nat × Nat) :=
  if t.count == 0 then none else findGoB look sp (hf k) 0 t.gens

theorem findLoopB_eq (look : HT.Bucket → Option Nat) (sp : HT.Spec) (g : HT.Gen) (k maxP : Nat)
    (hl : ∀ i, look (HT.bkt sp g.bs i) = HT.keyIdx (HT.bkt sp g.bs i).items k) :
    ∀ fuel probe idx, findLoopB look sp g maxP fuel probe idx = HT.findLoop sp g k maxP fuel probe idx := by
  intro fuel
  induction fuel with
  | zero => intro probe idx; rfl
  | succ n ih =>
    intro probe idx
    unfold findLoopB HT.findLoop
    simp only [hl, ih]
    rfl

theorem findGenB_eq (look : HT.Bucket → Option Nat) (sp : HT.Spec) (g : HT.Gen) (h k : Nat)
    (hl : ∀ i, look (HT.bkt sp g.bs i) = HT.keyIdx (HT.bkt sp g.bs i).items k) :
    findGenB look sp g h = HT.findGen sp g h k := by
  unfold findGenB HT.findGen
  simp only [hl, findLoopB_eq look sp g k _ hl]
  rfl

theorem findGoB_eq (look : HT.Bucket → Option Nat) (sp : HT.Spec) (hf : Nat → Nat) (k : Nat) :
    ∀ (gens : List HT.Gen) (gi : Nat),
      (∀ g ∈ gens, ∀ i, look (HT.bkt sp g.bs i) = HT.keyIdx (HT.bkt sp g.bs i).items k) →
      findGoB look sp (hf k) gi gens = HT.findTable.go sp hf k gi gens := by
  intro gens
  induction gens with
  | nil => intro gi _; rfl
  | cons g rest ih =>
    intro gi hl
    unfold findGoB HT.findTable.go
    rw [findGenB_eq look sp g (hf k) k (hl g (by simp)), ih (gi + 1) (fun g' hg' => hl g' (by simp [hg']))]
    rfl

/-- the keys of one bucket of a table that satisfies the C01 invariant are distinct -/
theorem bucket_keys_nodup (sp : HT.Spec) (hf : Nat → Nat) (t : HT.Table) (hI : HT.TableInv sp hf t) (g : HT.Gen)
    (hg : g ∈ t.gens) (i : Nat) : ((HT.bkt sp g.bs i).items.map (·.key)).Nodup := by
  unfold HT.bkt
  rw [List.getD_eq_getElem?_getD]
  cases hb : g.bs[i]? with
  | none => simp [HT.emptyBucket]
  | some bk =>
    have hmem : bk ∈ g.bs := List.mem_of_getElem? hb
    have s1 : bk.items.reverse.Sublist (HT.genItems g) :=
      List.sublist_flatten_of_mem (List.mem_map.mpr ⟨bk, hmem, rfl⟩)
    have s2 : (HT.genItems g).Sublist (HT.traverse t) := by
      rw [HT.traverse_eq]
      exact List.sublist_flatten_of_mem (List.mem_map.mpr ⟨g, hg, rfl⟩)
    have s3 := (s1.trans s2).map (·.key)
    have n1 := hI.core.nodup.sublist s3
    rw [List.map_reverse, List.nodup_reverse] at n1
    exact n1

/-- **the table lookup over byte-level buckets is the C01 model's lookup** (same generation, bucket and item position), for
    every table that satisfies the C01 invariant with an `OpenN1` / `Open8` bucket description -/
theorem findTableB_eq (v : Variant) (mc : Nat) (rev : Bool) (sp : HT.Spec) (hf : Nat → Nat) (t : HT.Table)
    (hI : HT.TableInv sp hf t) (hfit : v.fits mc rev) (hmc : sp.maxCount = mc) (hunl : sp.unlimited = false)
    (hhf : ∀ x, hf x < 2 ^ 64) (k : Nat) :
    findTableB (fun bk => lookupB v mc rev hf bk k) sp hf t k = HT.findTable sp hf t k := by
  unfold findTableB HT.findTable
  split
  · rfl
  · apply findGoB_eq
    intro g hg i
    apply lookupB_eq_keyIdx v mc rev hf _ k hfit ?_ hhf (bucket_keys_nodup sp hf t hI g hg i)
    rw [← hmc]
    exact (hI.core.gens g hg).size hunl i

end Momo.OpenB
