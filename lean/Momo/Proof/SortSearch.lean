import Momo.Proof.SortArith
/-!
  C17 lemmas, part 1: the searches of `HashSorter` (`pvBinarySearch`, `pvExponentialSearch`, `pvFindOther`,
  `pvFindNext`, `pvFindHash`, `pvFind`, `pvGetBounds`) return what a linear scan returns and never leave
  the sequence.  The sequence is described by a total function `A : Nat → α × Nat` (item, code) on
  indices `< n`; the list-level statements are derived in `Momo/Props/C17.lean`.
-/
namespace Momo.Sort

/-! ### comparers -/

/-- `cmp` is defined on `[lo, hi)` and agrees with the total function `c` there -/
def CmpOn (cmp : Cmp) (c : Nat → Int) (lo hi : Nat) : Prop := ∀ i, lo ≤ i → i < hi → cmp i = some (c i)

/-- the signs of `c` on `[lo, hi)` are ordered: negatives, then zeros, then positives -/
def SignMono (c : Nat → Int) (lo hi : Nat) : Prop :=
  ∀ i j, lo ≤ i → i ≤ j → j < hi → (0 ≤ c i → 0 ≤ c j) ∧ (0 < c i → 0 < c j)

/-- post-condition shared by `pvBinarySearch` and `pvExponentialSearch` on `[lo, hi)` -/
def SearchPost (c : Nat → Int) (lo hi : Nat) (res : Nat × Bool) : Prop :=
  (res.2 = true → lo ≤ res.1 ∧ res.1 < hi ∧ c res.1 = 0) ∧
  (res.2 = false → lo ≤ res.1 ∧ res.1 ≤ hi ∧ (∀ i, lo ≤ i → i < res.1 → c i < 0) ∧ (∀ i, res.1 ≤ i → i < hi → 0 < c i))

theorem SignMono.sub {c : Nat → Int} {lo hi lo' hi' : Nat} (h : SignMono c lo hi) (h1 : lo ≤ lo') (h2 : hi' ≤ hi) :
    SignMono c lo' hi' := fun i j hi_ hij hj => h i j (by omega) hij (by omega)

theorem CmpOn.sub {cmp : Cmp} {c : Nat → Int} {lo hi lo' hi' : Nat} (h : CmpOn cmp c lo hi) (h1 : lo ≤ lo') (h2 : hi' ≤ hi) :
    CmpOn cmp c lo' hi' := fun i hi_ hj => h i (by omega) (by omega)

theorem binLoop_spec (cmp : Cmp) (c : Nat → Int) :
    ∀ (fuel l r : Nat), r - l < fuel → l ≤ r → CmpOn cmp c l r → SignMono c l r →
      ∃ res, binLoop cmp fuel l r = some res ∧ SearchPost c l r res := by
  intro fuel
  induction fuel with
  | zero => intro l r h; omega
  | succ f ih =>
    intro l r hf hlr hc hm
    unfold binLoop
    by_cases hlt : l < r
    · simp only [hlt, if_true]
      have hm1 : l ≤ (l + r) / 2 := by omega
      have hm2 : (l + r) / 2 < r := by omega
      rw [hc _ hm1 hm2]
      simp only [Option.bind_some]
      by_cases hneg : c ((l + r) / 2) < 0
      · simp only [hneg, if_true]
        obtain ⟨res, hres, hp⟩ := ih ((l + r) / 2 + 1) r (by omega) (by omega) (hc.sub (by omega) (Nat.le_refl _))
          (hm.sub (by omega) (Nat.le_refl _))
        refine ⟨res, hres, ?_, ?_⟩
        · intro hfound
          obtain ⟨a, b, c'⟩ := hp.1 hfound
          exact ⟨by omega, b, c'⟩
        · intro hnf
          obtain ⟨a, b, c1, c2⟩ := hp.2 hnf
          refine ⟨by omega, b, ?_, c2⟩
          intro i hi1 hi2
          by_cases hle : i ≤ (l + r) / 2
          · -- sign monotonicity: c i ≥ 0 would force c mid ≥ 0
            have := (hm i ((l + r) / 2) hi1 hle hm2).1
            omega
          · exact c1 i (by omega) hi2
      · simp only [hneg, if_false]
        by_cases hpos : c ((l + r) / 2) > 0
        · simp only [hpos, if_true]
          obtain ⟨res, hres, hp⟩ := ih l ((l + r) / 2) (by omega) hm1 (hc.sub (Nat.le_refl _) (by omega))
            (hm.sub (Nat.le_refl _) (by omega))
          refine ⟨res, hres, ?_, ?_⟩
          · intro hfound
            obtain ⟨a, b, c'⟩ := hp.1 hfound
            exact ⟨a, by omega, c'⟩
          · intro hnf
            obtain ⟨a, b, c1, c2⟩ := hp.2 hnf
            refine ⟨a, by omega, c1, ?_⟩
            intro i hi1 hi2
            by_cases hlt2 : i < (l + r) / 2
            · exact c2 i hi1 hlt2
            · exact (hm ((l + r) / 2) i hm1 (by omega) hi2).2 hpos
        · simp only [hpos, if_false]
          refine ⟨_, rfl, ?_, ?_⟩
          · intro _; exact ⟨hm1, hm2, by show c ((l + r) / 2) = 0; omega⟩
          · intro h; cases h
    · simp only [hlt, if_false]
      refine ⟨_, rfl, ?_, ?_⟩
      · intro h; cases h
      · intro _
        exact ⟨Nat.le_refl _, hlr, fun i h1 h2 => by omega, fun i h1 h2 => by omega⟩

theorem binarySearchAt_spec (cmp : Cmp) (c : Nat → Int) (left n : Nat)
    (hc : CmpOn cmp c left (left + n)) (hm : SignMono c left (left + n)) :
    ∃ res, binarySearchAt cmp left n = some res ∧ SearchPost c left (left + n) res := by
  unfold binarySearchAt binarySearch
  obtain ⟨res, hres, hp⟩ := binLoop_spec (fun i => cmp (left + i)) (fun i => c (left + i)) (n + 1) 0 n (by omega) (by omega)
    (fun i _ h2 => hc (left + i) (by omega) (by omega))
    (fun i j _ hij hj => hm (left + i) (left + j) (by omega) (by omega) (by omega))
  refine ⟨(left + res.1, res.2), by simp [hres], ?_, ?_⟩
  · intro hf
    obtain ⟨a, b, c'⟩ := hp.1 hf
    exact ⟨by simp, by simp; omega, c'⟩
  · intro hnf
    obtain ⟨a, b, c1, c2⟩ := hp.2 hnf
    refine ⟨by simp, by simp; omega, ?_, ?_⟩
    · intro i h1 h2
      have : c (left + (i - left)) < 0 := c1 (i - left) (by omega) (by simp at h2; omega)
      rwa [show left + (i - left) = i by omega] at this
    · intro i h1 h2
      have : 0 < c (left + (i - left)) := c2 (i - left) (by simp at h1; omega) (by omega)
      rwa [show left + (i - left) = i by omega] at this

theorem expLoop_spec (cmp : Cmp) (c : Nat → Int) (n : Nat) (hc : CmpOn cmp c 0 n) (hm : SignMono c 0 n) :
    ∀ (fuel i left : Nat), 0 < fuel → n < fuel + i → left ≤ i → left ≤ n → (∀ k, k < left → c k < 0) →
      ∃ res, expLoop cmp n fuel i left = some res ∧ SearchPost c 0 n res := by
  intro fuel
  induction fuel with
  | zero =>
    intro i left h0
    omega
  | succ f ih =>
    intro i left _ hf hli hln hneg
    unfold expLoop
    by_cases hin : i < n
    · simp only [hin, if_true]
      rw [hc i (by omega) hin]
      simp only [Option.bind_some]
      by_cases hpos : c i > 0
      · simp only [hpos, if_true, csub, hli, Option.bind_some]
        obtain ⟨res, hres, hp⟩ := binarySearchAt_spec cmp c left (i - left)
          (hc.sub (by omega) (by omega)) (hm.sub (by omega) (by omega))
        rw [show left + (i - left) = i by omega] at hp
        refine ⟨res, hres, ?_, ?_⟩
        · intro hfound
          obtain ⟨a, b, c'⟩ := hp.1 hfound
          exact ⟨by omega, by omega, c'⟩
        · intro hnf
          obtain ⟨a, b, c1, c2⟩ := hp.2 hnf
          refine ⟨by omega, by omega, ?_, ?_⟩
          · intro k _ hk
            by_cases hkl : k < left
            · exact hneg k hkl
            · exact c1 k (by omega) hk
          · intro k hk1 hk2
            by_cases hki : k < i
            · exact c2 k hk1 hki
            · exact (hm i k (by omega) (by omega) hk2).2 hpos
      · simp only [hpos, if_false]
        by_cases hz : c i = 0
        · simp only [hz, if_true]
          refine ⟨_, rfl, ?_, ?_⟩
          · intro _; exact ⟨by omega, hin, hz⟩
          · intro h; cases h
        · simp only [hz, if_false]
          apply ih (i * 2 + 2) (i + 1) (by omega) (by omega) (by omega) (by omega)
          intro k hk
          have := (hm k i (by omega) (by omega) hin).1
          omega
    · simp only [hin, if_false, csub, hln, if_true, Option.bind_some]
      obtain ⟨res, hres, hp⟩ := binarySearchAt_spec cmp c left (n - left)
        (hc.sub (by omega) (by omega)) (hm.sub (by omega) (by omega))
      rw [show left + (n - left) = n by omega] at hp
      refine ⟨res, hres, ?_, ?_⟩
      · intro hfound
        obtain ⟨a, b, c'⟩ := hp.1 hfound
        exact ⟨by omega, b, c'⟩
      · intro hnf
        obtain ⟨a, b, c1, c2⟩ := hp.2 hnf
        refine ⟨by omega, b, ?_, c2⟩
        intro k _ hk
        by_cases hkl : k < left
        · exact hneg k hkl
        · exact c1 k (by omega) hk

theorem exponentialSearch_spec (cmp : Cmp) (c : Nat → Int) (n : Nat) (hc : CmpOn cmp c 0 n) (hm : SignMono c 0 n) :
    ∃ res, exponentialSearch cmp n = some res ∧ SearchPost c 0 n res := by
  unfold exponentialSearch
  exact expLoop_spec cmp c n hc hm (n + 1) 0 0 (by omega) (by omega) (by omega) (by omega) (fun k hk => by omega)

/-! ### sequences as total functions -/

variable {σ α : Type}

/-- `eq` is an equivalence relation (what `equalFunc` must be) -/
structure IsEqv (eq : α → α → Bool) : Prop where
  refl : ∀ a, eq a a = true
  symm : ∀ a b, eq a b = true → eq b a = true
  trans : ∀ a b c, eq a b = true → eq b c = true → eq a c = true

/-- view `v` shows the cells `A 0 … A (n-1)` -/
def VRepr (v : View α) (A : Nat → α × Nat) (n : Nat) : Prop :=
  ∀ i, i < n → v.item i = some (A i).1 ∧ v.code i = some (A i).2

/-- memory state `s` holds the cells `A 0 … A (n-1)` -/
def MRepr (M : Mem σ α) (s : σ) (A : Nat → α × Nat) (n : Nat) : Prop :=
  ∀ i, i < n → M.item s i = some (A i).1 ∧ M.code s i = some (A i).2

theorem MRepr.fwd {M : Mem σ α} {s : σ} {A : Nat → α × Nat} {n : Nat} (h : MRepr M s A n) (b : Nat) :
    VRepr (M.fwd s b) (fun i => A (b + i)) (n - b) := by
  intro i hi
  exact h (b + i) (by omega)

theorem MRepr.rev {M : Mem σ α} {s : σ} {A : Nat → α × Nat} {n : Nat} (h : MRepr M s A n) (r : Nat) (hr : r ≤ n) :
    VRepr (M.rev s r) (fun i => A (r - 1 - i)) r := by
  intro i hi
  simp only [Mem.rev, hi, if_true]
  exact h (r - 1 - i) (by omega)

/-- equal items are contiguous: between two equal items everything is equal to them -/
def ContigF (eq : α → α → Bool) (A : Nat → α × Nat) (n : Nat) : Prop :=
  ∀ i j k, i < j → j < k → k < n → eq (A i).1 (A k).1 = true → eq (A i).1 (A j).1 = true

/-- codes are non-decreasing -/
def SortedF (A : Nat → α × Nat) (n : Nat) : Prop := ∀ i j, i ≤ j → j < n → (A i).2 ≤ (A j).2

/-- equal codes are contiguous (holds in both directions of a sorted sequence) -/
def ConvexF (A : Nat → α × Nat) (n : Nat) : Prop :=
  ∀ i j k, i < j → j < k → k < n → (A i).2 = (A k).2 → (A j).2 = (A i).2

theorem ContigF.shift {eq : α → α → Bool} {A : Nat → α × Nat} {n : Nat} (h : ContigF eq A n) (b : Nat) :
    ContigF eq (fun i => A (b + i)) (n - b) :=
  fun i j k hij hjk hk => h (b + i) (b + j) (b + k) (by omega) (by omega) (by omega)

theorem ContigF.rev {eq : α → α → Bool} (he : IsEqv eq) {A : Nat → α × Nat} {n : Nat} (h : ContigF eq A n) (r : Nat) (hr : r ≤ n) :
    ContigF eq (fun i => A (r - 1 - i)) r := by
  intro i j k hij hjk hk hik
  have h1 := h (r - 1 - k) (r - 1 - j) (r - 1 - i) (by omega) (by omega) (by omega) (he.symm _ _ hik)
  exact he.trans _ _ _ hik h1

theorem SortedF.convex {A : Nat → α × Nat} {n : Nat} (h : SortedF A n) : ConvexF A n := by
  intro i j k hij hjk hk hik
  have h1 := h i j (by omega) (by omega)
  have h2 := h j k (by omega) hk
  omega

theorem ConvexF.shift {A : Nat → α × Nat} {n : Nat} (h : ConvexF A n) (b : Nat) :
    ConvexF (fun i => A (b + i)) (n - b) :=
  fun i j k hij hjk hk => h (b + i) (b + j) (b + k) (by omega) (by omega) (by omega)

theorem ConvexF.rev {A : Nat → α × Nat} {n : Nat} (h : ConvexF A n) (r : Nat) (hr : r ≤ n) :
    ConvexF (fun i => A (r - 1 - i)) r := by
  intro i j k hij hjk hk hik
  have h1 := h (r - 1 - k) (r - 1 - j) (r - 1 - i) (by omega) (by omega) (by omega) hik.symm
  exact h1.trans hik.symm

/-! ### pvFindOther -/

theorem findOther_spec (eq : α → α → Bool) (v : View α) (A : Nat → α × Nat) (n : Nat) (hv : VRepr v A n)
    (hc : ContigF eq A n) (p count : Nat) (hcount : 0 < count) (hp : p + count ≤ n) :
    ∃ q, findOther eq v p count = some q ∧ p < q ∧ q ≤ p + count ∧
      (∀ k, p < k → k < q → eq (A p).1 (A k).1 = true) ∧
      (∀ k, q ≤ k → k < p + count → eq (A p).1 (A k).1 = false) := by
  unfold findOther
  have hne : ¬ count = 0 := by omega
  simp only [hne, if_false]
  let c : Nat → Int := fun i => if eq (A p).1 (A (p + 1 + i)).1 then -1 else 1
  have hcmp : CmpOn (fun i => (v.item p).bind fun a => (v.item (p + 1 + i)).bind fun b =>
      some (if eq a b then -1 else 1)) c 0 (count - 1) := by
    intro i _ hi
    simp only [(hv p (by omega)).1, (hv (p + 1 + i) (by omega)).1, Option.bind_some, c]
  have hmono : SignMono c 0 (count - 1) := by
    intro i j _ hij hj
    have key : eq (A p).1 (A (p + 1 + j)).1 = true → eq (A p).1 (A (p + 1 + i)).1 = true := by
      intro hj'
      by_cases hEq : i = j
      · subst hEq; exact hj'
      · exact hc p (p + 1 + i) (p + 1 + j) (by omega) (by omega) (by omega) hj'
    simp only [c]
    constructor
    · intro h
      by_cases h1 : eq (A p).1 (A (p + 1 + j)).1 = true
      · simp [key h1] at h
      · simp [h1]
    · intro h
      by_cases h1 : eq (A p).1 (A (p + 1 + j)).1 = true
      · simp [key h1] at h
      · simp [h1]
  obtain ⟨res, hres, hpost⟩ := exponentialSearch_spec _ c (count - 1) hcmp hmono
  have hnf : res.2 = false := by
    cases hr : res.2 with
    | false => rfl
    | true =>
      have := (hpost.1 hr).2.2
      simp only [c] at this
      split at this <;> omega
  obtain ⟨_, hle, hl, hr⟩ := hpost.2 hnf
  refine ⟨p + 1 + res.1, by simp [hres], by omega, by omega, ?_, ?_⟩
  · intro k hk1 hk2
    have := hl (k - (p + 1)) (by omega) (by omega)
    simp only [c, show p + 1 + (k - (p + 1)) = k by omega] at this
    by_cases h1 : eq (A p).1 (A k).1 = true
    · exact h1
    · simp [h1] at this
  · intro k hk1 hk2
    have := hr (k - (p + 1)) (by omega) (by omega)
    simp only [c, show p + 1 + (k - (p + 1)) = k by omega] at this
    by_cases h1 : eq (A p).1 (A k).1 = true
    · simp [h1] at this
    · simpa using h1

/-! ### pvFindNext -/

/-- what `pvFindNext` returns on a view whose first cell has the sought hash but another item -/
def NextPost (eq : α → α → Bool) (A : Nat → α × Nat) (n : Nat) (item : α) (itemHash : Nat) (res : Nat × Bool) : Prop :=
  (res.2 = true → res.1 < n ∧ 0 < res.1 ∧ eq (A res.1).1 item = true ∧ (∀ k, k < res.1 → eq (A k).1 item = false)) ∧
  (res.2 = false → res.1 ≤ n ∧ 0 < res.1 ∧ (∀ k, k < n → eq (A k).1 item = false) ∧ (res.1 < n → (A res.1).2 ≠ itemHash))

theorem findNextLoop_spec (eq : α → α → Bool) (he : IsEqv eq) (v : View α) (A : Nat → α × Nat) (n : Nat)
    (hv : VRepr v A n) (hc : ContigF eq A n) (hx : ConvexF A n) (item : α) (itemHash : Nat)
    (hcons : ∀ i, i < n → eq (A i).1 item = true → (A i).2 = itemHash) :
    ∀ (fuel p : Nat), n < fuel + p → p < n → (A p).2 = itemHash → (∀ k, k ≤ p → eq (A k).1 item = false) →
      ∃ res, findNextLoop eq v n item itemHash fuel p = some res ∧ NextPost eq A n item itemHash res := by
  intro fuel
  induction fuel with
  | zero => intro p h1 h2; omega
  | succ f ih =>
    intro p hf hp hcode hne
    unfold findNextLoop
    simp only [csub, show p ≤ n by omega, if_true, Option.bind_some]
    obtain ⟨q, hq, hpq, hqn, heqs, _⟩ := findOther_spec eq v A n hv hc p (n - p) (by omega) (by omega)
    rw [hq]
    simp only [Option.bind_some]
    -- cells p+1 … q-1 are equal to cell p, hence different from `item`
    have hne' : ∀ k, k < q → eq (A k).1 item = false := by
      intro k hk
      by_cases hkp : k ≤ p
      · exact hne k hkp
      · have h1 := heqs k (by omega) hk
        cases h2 : eq (A k).1 item with
        | false => rfl
        | true =>
          have := he.trans _ _ _ h1 h2
          rw [hne p (Nat.le_refl _)] at this
          cases this
    by_cases hqe : q = n
    · simp only [hqe, if_true]
      refine ⟨_, rfl, ?_, ?_⟩
      · intro h; cases h
      · intro _
        exact ⟨Nat.le_refl _, by omega, fun k hk => hne' k (by omega), fun h => by simp at h⟩
    · simp only [hqe, if_false]
      have hqlt : q < n := by omega
      rw [(hv q hqlt).2]
      simp only [Option.bind_some]
      by_cases hh : (A q).2 ≠ itemHash
      · rw [if_pos hh]
        refine ⟨_, rfl, ?_, ?_⟩
        · intro h; cases h
        · intro _
          refine ⟨by simp; omega, by simp; omega, ?_, fun _ => hh⟩
          intro k hk
          by_cases hkq : k < q
          · exact hne' k hkq
          · cases h2 : eq (A k).1 item with
            | false => rfl
            | true =>
              exfalso
              have hk2 := hcons k hk h2
              by_cases hkeq : k = q
              · subst hkeq; exact hh hk2
              · have := hx p q k hpq (by omega) hk (by rw [hcode, hk2])
                exact hh (by rw [this, hcode])
      · rw [if_neg hh, (hv q hqlt).1]
        simp only [Option.bind_some]
        by_cases hitem : eq (A q).1 item = true
        · simp only [hitem, if_true]
          refine ⟨_, rfl, ?_, ?_⟩
          · intro _
            exact ⟨hqlt, by simp; omega, hitem, hne'⟩
          · intro h; cases h
        · simp only [hitem]
          apply ih q (by omega) hqlt (by simpa using hh)
          intro k hk
          by_cases hkq : k < q
          · exact hne' k hkq
          · have : k = q := by omega
            subst this
            simpa using hitem

theorem findNext_spec (eq : α → α → Bool) (he : IsEqv eq) (v : View α) (A : Nat → α × Nat) (n : Nat)
    (hv : VRepr v A n) (hc : ContigF eq A n) (hx : ConvexF A n) (item : α) (itemHash : Nat)
    (hcons : ∀ i, i < n → eq (A i).1 item = true → (A i).2 = itemHash)
    (hn : 0 < n) (h0 : (A 0).2 = itemHash) (hne : eq (A 0).1 item = false) :
    ∃ res, findNext eq v n item itemHash = some res ∧ NextPost eq A n item itemHash res := by
  unfold findNext
  apply findNextLoop_spec eq he v A n hv hc hx item itemHash hcons (n + 1) 0 (by omega) hn h0
  intro k hk
  have : k = 0 := by omega
  subst this
  exact hne

/-! ### pvFindHash -/

theorem pvCompare_neg (a h : Nat) : pvCompare a h < 0 ↔ a < h := by
  unfold pvCompare; split <;> [skip; split] <;> omega
theorem pvCompare_zero (a h : Nat) : pvCompare a h = 0 ↔ a = h := by
  unfold pvCompare; split <;> [skip; split] <;> omega
theorem pvCompare_pos (a h : Nat) : 0 < pvCompare a h ↔ h < a := by
  unfold pvCompare; split <;> [skip; split] <;> omega

/-- what `pvFindHash` returns: a cell with the sought code, or the position where it would be -/
def HashPost (A : Nat → α × Nat) (n h : Nat) (res : Nat × Bool) : Prop :=
  (res.2 = true → res.1 < n ∧ (A res.1).2 = h) ∧
  (res.2 = false → res.1 ≤ n ∧ (∀ i, i < res.1 → (A i).2 < h) ∧ (∀ i, res.1 ≤ i → i < n → h < (A i).2))

theorem signMono_fwd {A : Nat → α × Nat} {n : Nat} (hs : SortedF A n) (h lo hi : Nat) (hhi : hi ≤ n) :
    SignMono (fun i => pvCompare (A i).2 h) lo hi := by
  intro i j _ hij hj
  have := hs i j hij (by omega)
  show (0 ≤ pvCompare (A i).2 h → 0 ≤ pvCompare (A j).2 h) ∧ (0 < pvCompare (A i).2 h → 0 < pvCompare (A j).2 h)
  constructor
  · intro h1
    have : ¬ pvCompare (A i).2 h < 0 := by omega
    rw [pvCompare_neg] at this
    have : ¬ pvCompare (A j).2 h < 0 := by rw [pvCompare_neg]; omega
    omega
  · intro h1
    rw [pvCompare_pos] at h1 ⊢
    omega

/-- a search with the forward hash comparer on `[lo, hi)` extends invariants known outside `[lo, hi)` -/
theorem hashPost_of_fwd {A : Nat → α × Nat} {n h lo hi : Nat} {res : Nat × Bool} (hhi : hi ≤ n)
    (hp : SearchPost (fun i => pvCompare (A i).2 h) lo hi res)
    (hl : ∀ i, i < lo → (A i).2 < h) (hr : ∀ i, hi ≤ i → i < n → h < (A i).2) : HashPost A n h res := by
  constructor
  · intro hf
    obtain ⟨_, b, c⟩ := hp.1 hf
    exact ⟨by omega, (pvCompare_zero _ _).1 c⟩
  · intro hnf
    obtain ⟨a, b, c1, c2⟩ := hp.2 hnf
    refine ⟨by omega, ?_, ?_⟩
    · intro i hi
      by_cases h1 : i < lo
      · exact hl i h1
      · exact (pvCompare_neg _ _).1 (c1 i (by omega) hi)
    · intro i hi1 hi2
      by_cases h1 : i < hi
      · exact (pvCompare_pos _ _).1 (c2 i hi1 h1)
      · exact hr i (by omega) hi2

theorem findHashLoop_spec (M : Mem σ α) (s : σ) (A : Nat → α × Nat) (n : Nat) (hr : MRepr M s A n)
    (hs : SortedF A n) (h : Nat) :
    ∀ (fuel step left right mid : Nat), step < fuel → left ≤ right → right ≤ n → mid < n →
      (∀ i, i < left → (A i).2 < h) → (∀ i, right ≤ i → i < n → h < (A i).2) →
      ∃ res, findHashLoop M s n h fuel step left right mid = some res ∧ HashPost A n h res := by
  intro fuel
  induction fuel with
  | zero => intro step _ _ _ h1; omega
  | succ f ih =>
    intro step left right mid hfuel hlr hrn hmid hL hR
    unfold findHashLoop
    rw [(hr mid hmid).2]
    simp only [Option.bind_some]
    have hfwd0 : ∀ lo cnt, lo + cnt ≤ n → CmpOn (hashCmp (M.fwd s 0) h) (fun i => pvCompare (A i).2 h) lo (lo + cnt) := by
      intro lo cnt hle i _ hi
      simp only [hashCmp, Mem.fwd, Nat.zero_add, (hr i (by omega)).2, Option.map_some]
    by_cases hlt : (A mid).2 < h
    · simp only [hlt, if_true]
      -- everything up to `mid` is below the sought code, so `mid < right`
      have hL' : ∀ i, i < mid + 1 → (A i).2 < h := by
        intro i hi
        have := hs i mid (by omega) hmid
        omega
      have hmr : mid < right := by
        apply Decidable.byContradiction
        intro hc
        have := hR mid (by omega) hmid
        omega
      have hsub : mid + 1 ≤ right := hmr
      simp only [csub, hsub, if_true, Option.bind_some]
      by_cases hstep : step = 0
      · simp only [hstep, if_true]
        have hcmp : CmpOn (hashCmp (M.fwd s (mid + 1)) h) (fun i => pvCompare (A (mid + 1 + i)).2 h) 0 (right - (mid + 1)) := by
          intro i _ hi
          simp only [hashCmp, Mem.fwd, (hr (mid + 1 + i) (by omega)).2, Option.map_some]
        have hmono : SignMono (fun i => pvCompare (A (mid + 1 + i)).2 h) 0 (right - (mid + 1)) := by
          intro i j _ hij hj
          exact signMono_fwd hs h 0 n (Nat.le_refl _) (mid + 1 + i) (mid + 1 + j) (by omega) (by omega) (by omega)
        obtain ⟨res, hres, hp⟩ := exponentialSearch_spec _ _ _ hcmp hmono
        rw [hres]
        refine ⟨(mid + 1 + res.1, res.2), rfl, ?_⟩
        apply hashPost_of_fwd (lo := mid + 1) (hi := right) hrn _ hL' hR
        constructor
        · intro hf
          obtain ⟨_, b, c⟩ := hp.1 hf
          exact ⟨by simp, by simp; omega, c⟩
        · intro hnf
          obtain ⟨_, b, c1, c2⟩ := hp.2 hnf
          refine ⟨by simp, by simp; omega, ?_, ?_⟩
          · intro i hi1 hi2
            have : pvCompare (A (mid + 1 + (i - (mid + 1)))).2 h < 0 := c1 (i - (mid + 1)) (by omega) (by simp at hi2; omega)
            rwa [show mid + 1 + (i - (mid + 1)) = i by omega] at this
          · intro i hi1 hi2
            have : 0 < pvCompare (A (mid + 1 + (i - (mid + 1)))).2 h := c2 (i - (mid + 1)) (by simp at hi1; omega) (by omega)
            rwa [show mid + 1 + (i - (mid + 1)) = i by omega] at this
      · simp only [hstep, if_false]
        by_cases hbrk : mid + multShift (h - (A mid).2) n ≥ right
        · simp only [hbrk, if_true]
          obtain ⟨res, hres, hp⟩ := binarySearchAt_spec _ _ (mid + 1) (right - (mid + 1)) (hfwd0 _ _ (by omega))
            (signMono_fwd hs h _ _ (by omega))
          rw [show mid + 1 + (right - (mid + 1)) = right by omega] at hp
          exact ⟨res, hres, hashPost_of_fwd hrn hp hL' hR⟩
        · simp only [hbrk, if_false]
          exact ih (step - 1) (mid + 1) right _ (by omega) hsub hrn (by omega) hL' hR
    · simp only [hlt, if_false]
      by_cases hgt : (A mid).2 > h
      · simp only [hgt, if_true]
        have hR' : ∀ i, mid ≤ i → i < n → h < (A i).2 := by
          intro i hi1 hi2
          have := hs mid i hi1 hi2
          omega
        have hlm : left ≤ mid := by
          apply Decidable.byContradiction
          intro hc
          have := hL mid (by omega)
          omega
        simp only [csub, hlm, if_true, Option.bind_some]
        by_cases hstep : step = 0
        · simp only [hstep, if_true]
          have hcmp : CmpOn (revHashCmp (M.rev s mid) h) (fun i => - pvCompare (A (mid - 1 - i)).2 h) 0 (mid - left) := by
            intro i _ hi
            have : i < mid := by omega
            simp only [revHashCmp, Mem.rev, this, if_true, (hr (mid - 1 - i) (by omega)).2, Option.map_some]
          have hmono : SignMono (fun i => - pvCompare (A (mid - 1 - i)).2 h) 0 (mid - left) := by
            intro i j _ hij hj
            have hle := hs (mid - 1 - j) (mid - 1 - i) (by omega) (by omega)
            show (0 ≤ - pvCompare (A (mid - 1 - i)).2 h → 0 ≤ - pvCompare (A (mid - 1 - j)).2 h) ∧
              (0 < - pvCompare (A (mid - 1 - i)).2 h → 0 < - pvCompare (A (mid - 1 - j)).2 h)
            constructor
            · intro h1
              have h2 : ¬ 0 < pvCompare (A (mid - 1 - i)).2 h := by omega
              rw [pvCompare_pos] at h2
              have h3 : ¬ 0 < pvCompare (A (mid - 1 - j)).2 h := by rw [pvCompare_pos]; omega
              omega
            · intro h1
              have h2 : pvCompare (A (mid - 1 - i)).2 h < 0 := by omega
              rw [pvCompare_neg] at h2
              have h3 : pvCompare (A (mid - 1 - j)).2 h < 0 := by rw [pvCompare_neg]; omega
              omega
          obtain ⟨res, hres, hp⟩ := exponentialSearch_spec _ _ _ hcmp hmono
          rw [hres]
          simp only [Option.bind_some]
          cases hfound : res.2 with
          | true =>
            obtain ⟨_, b, c⟩ := hp.1 hfound
            have hsub : res.1 + 1 ≤ mid := by omega
            simp only [if_true, hsub, Option.map_some]
            refine ⟨_, rfl, ?_, ?_⟩
            · intro _
              refine ⟨by simp; omega, ?_⟩
              have c0 : - pvCompare (A (mid - 1 - res.1)).2 h = 0 := c
              have c' : pvCompare (A (mid - 1 - res.1)).2 h = 0 := by omega
              rw [pvCompare_zero] at c'
              show (A (mid - (res.1 + 1))).2 = h
              rwa [show mid - (res.1 + 1) = mid - 1 - res.1 by omega]
            · intro hh; cases hh
          | false =>
            obtain ⟨_, b, c1, c2⟩ := hp.2 hfound
            have hsub : res.1 + 0 ≤ mid := by omega
            simp only [Bool.false_eq_true, if_false, hsub, if_true, Option.map_some]
            refine ⟨_, rfl, ?_, ?_⟩
            · intro hh; cases hh
            · intro _
              refine ⟨by simp; omega, ?_, ?_⟩
              · intro i hi
                simp only [Nat.add_zero] at hi
                by_cases h1 : i < left
                · exact hL i h1
                · have : 0 < - pvCompare (A (mid - 1 - (mid - 1 - i))).2 h := c2 (mid - 1 - i) (by omega) (by omega)
                  rw [show mid - 1 - (mid - 1 - i) = i by omega] at this
                  have : pvCompare (A i).2 h < 0 := by omega
                  exact (pvCompare_neg _ _).1 this
              · intro i hi1 hi2
                simp only [Nat.add_zero] at hi1
                by_cases h1 : mid ≤ i
                · exact hR' i h1 hi2
                · have : - pvCompare (A (mid - 1 - (mid - 1 - i))).2 h < 0 := c1 (mid - 1 - i) (by omega) (by omega)
                  rw [show mid - 1 - (mid - 1 - i) = i by omega] at this
                  have : 0 < pvCompare (A i).2 h := by omega
                  exact (pvCompare_pos _ _).1 this
        · simp only [hstep, if_false]
          by_cases hbrk : left + multShift ((A mid).2 - h) n > mid
          · simp only [hbrk, if_true]
            obtain ⟨res, hres, hp⟩ := binarySearchAt_spec _ _ left (mid - left) (hfwd0 _ _ (by omega))
              (signMono_fwd hs h _ _ (by omega))
            rw [show left + (mid - left) = mid by omega] at hp
            exact ⟨res, hres, hashPost_of_fwd (by omega) hp hL hR'⟩
          · simp only [hbrk, if_false]
            exact ih (step - 1) left mid _ (by omega) (by omega) (by omega) (by omega) hL hR'
      · simp only [hgt, if_false]
        refine ⟨_, rfl, ?_, ?_⟩
        · intro _; exact ⟨hmid, by simp; omega⟩
        · intro hh; cases hh

theorem findHash_spec (M : Mem σ α) (s : σ) (A : Nat → α × Nat) (n : Nat) (hr : MRepr M s A n)
    (hs : SortedF A n) (h : Nat) (hh : h < 2 ^ 64) :
    ∃ res, findHash M s n h = some res ∧ HashPost A n h res := by
  unfold findHash
  by_cases hn : n = 0
  · simp only [hn, if_true]
    refine ⟨_, rfl, ?_, ?_⟩
    · intro hh; cases hh
    · intro _; exact ⟨Nat.le_refl _, fun i hi => by omega, fun i h1 h2 => by omega⟩
  · simp only [hn, if_false]
    exact findHashLoop_spec M s A n hr hs h _ _ 0 n _ (by omega) (by omega) (Nat.le_refl _)
      (multShift_lt h n hh (by omega)) (fun i hi => by omega) (fun i h1 h2 => by omega)

end Momo.Sort
