import Momo.Proof.RowsInv
/-!
  Lemmas for the row hand-off model (C19), part 6: at every moment of every history each block has been reclaimed
  as often as it was created, or exactly once less (`HistoryBalanced_run`).
-/
namespace Momo.Rows

/-- at this moment of the history block `r` has been reclaimed as often as created, or once less -/
def Balanced (l : List Ev) (r : Row) : Prop :=
  l.count (Ev.reclaimed r) ≤ l.count (Ev.created r) ∧ l.count (Ev.created r) ≤ l.count (Ev.reclaimed r) + 1

/-- every moment of the history recorded in `log` (newest event first: the moments are its suffixes) -/
def HistoryBalanced (log : List Ev) : Prop := ∀ (l : List Ev) (r : Row), l <:+ log → Balanced l r

theorem live_count_le_one {s : St} (hI : RInv s) (r : Row) : (live s).count r ≤ 1 := by
  have := hI.nodup r
  simp only [places, live, List.count_append] at this ⊢; omega

theorem Balanced_of_RInv {s : St} (hI : RInv s) (r : Row) : Balanced s.log r := by
  have h1 := hI.cnt1 r; have h2 := live_count_le_one hI r
  unfold Balanced; omega

theorem HistoryBalanced_cons {log : List Ev} {e : Ev} (h : HistoryBalanced log) (he : ∀ r, Balanced (e :: log) r) :
    HistoryBalanced (e :: log) := by
  intro l r hl
  rcases List.suffix_cons_iff.mp hl with rfl | h'
  · exact he r
  · exact h l r h'

theorem HistoryBalanced_taken (L : List Row) {log : List Ev} (h : HistoryBalanced log) :
    HistoryBalanced (L.map Ev.taken ++ log) := by
  induction L with
  | nil => simpa using h
  | cons a t ih =>
    simp only [List.map_cons, List.cons_append]
    apply HistoryBalanced_cons ih
    intro r
    have := ih _ r (List.suffix_refl _)
    unfold Balanced at this ⊢
    simpa [List.count_cons] using this

theorem HistoryBalanced_step {s s' : St} {a : Act} (hs : Step s a s') (hI : RInv s) (h : HistoryBalanced s.log) :
    HistoryBalanced s'.log := by
  have hI' := RInv_step hs hI
  cases hs with
  | exchange b hm => exact HistoryBalanced_taken s.L h
  | walk b c g hm hc => exact HistoryBalanced_cons h (fun r => Balanced_of_RInv hI' r)
  | alloc r g hm hr => exact HistoryBalanced_cons h (fun r => Balanced_of_RInv hI' r)
  | remove i keep g r hm hi => exact HistoryBalanced_cons h (fun r => Balanced_of_RInv hI' r)
  | dCasOk t r h' hpc hh => exact HistoryBalanced_cons h (fun r => Balanced_of_RInv hI' r)
  | _ => exact h

theorem HistoryBalanced_run_from : ∀ (acts : List Act) (s s' : St), RInv s → HistoryBalanced s.log →
    run s acts = some s' → HistoryBalanced s'.log
  | [], s, s', _, hb, h => by simp [run] at h; subst h; exact hb
  | a :: as, s, s', hI, hb, h => by
    simp only [run] at h
    cases hs : step s a with
    | none => simp [hs] at h
    | some s1 =>
      simp only [hs] at h
      exact HistoryBalanced_run_from as s1 s' (RInv_step (step_sound hs) hI)
        (HistoryBalanced_step (step_sound hs) hI hb) h

theorem HistoryBalanced_run (n : Nat) (acts : List Act) (s : St) (h : run (init n) acts = some s) :
    HistoryBalanced s.log := by
  refine HistoryBalanced_run_from acts (init n) s (RInv_init n) ?_ h
  intro l r hl
  have : l = [] := by simpa [init] using hl
  subst this; simp [Balanced]

end Momo.Rows
